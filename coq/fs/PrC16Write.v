(* PROOFS: C16 over whole histories - the per-operation obligation PrC16Def.step_c16 for the operations on
   an OPEN FILE (Write, IoWrite, Read, IoRead, Flush, CloseFile, Length, Offset, Eof, SeekStart, SeekCur,
   SeekEnd, IoSeek) and HasOpen, every outcome of each; what Flush / CloseFile leave in the FAT32
   information sector; the assembly over histories.

   Main theorems
     step_c16_file_ops      step_c16 fsz vid o for the fourteen operations above (predicate file_op)
     step_hint'_file_ops    the same operations preserve hint_inv' (hint unknown or < clusters + 2: "a
                            cluster of the volume"), rec_u32 (count and hint fit a u32) and, for every
                            h0, hint_keep h0 (hint still the mounted value h0, or in range)
     c16_flush_info         Flush / CloseFile of a dirty file: each field of the information sector holds
                            the in-memory value mod 2^32 if that is known and KEEPS ITS OLD CONTENTS if
                            it is unknown; the bytes outside the two fields are unchanged
     stores_record_u32      PrC16Def.stores_record under rec_u32 s
     stores_record_inv      ... under (truthful_inv s \/ unknown_inv s) and hint_inv s
     c16_history            the assembly lemma over run_ops (via history_pres, generic in the predicate)
     c16_history_flush      after a history, a Flush / CloseFile of a dirty file stores the number of
                            free FAT entries (truthful case) / leaves the count field alone (unknown case)

   PrC16Def.stores_record AS STATED is not provable: fs_inv does not bound v_free / v_next_free (N in
   the model, Option<u32> in the crate) and update_info_sector stores them mod 2^32.  A state with
   v_free = Some 4294967296 satisfies fs_inv and a flush stores 0.  No state of the crate corresponds
   to it; rec_u32 is the missing bound, it holds at mount (le32) and is preserved (step_hint'_file_ops).

   The hint: alloc_cluster leaves a FREE cluster of the volume or None (PrAllocEffect.ae_vol), never
   clusters + 2.  hint_inv (<= clusters + 2) and hint_inv' (< clusters + 2) are BOTH preserved by the
   operations of this file.  A hint outside [2, clusters + 2) can only come from the information sector
   at mount; it is kept until the first allocation (and written back by a flush before that):
   c16_stale_hint_witness.

   0  the relation c16_rel between (disk, volume record) before and after; frame lemma (no sector of
      either FAT copy changes), allocation lemma
   1  operations that leave disk and volume table alone
   2  Flush, CloseFile: the information sector and one directory block, both outside the FAT copies
   3  what the information sector holds afterwards
   4  Write: the relation carried through write_loop and mgr_write - EVERY outcome (Ok, ReadOnly
      refusal, DiskFull after a prefix was stored, NotEnoughSpace, stale handle)
   5  the per-operation theorems
   6  histories
   7  examples *)
From Coq Require Import NArith ZArith List Bool Lia Arith ZifyClasses ZifyInst Zify Permutation.
From SdFs Require Import FsTypes FsBase FsFat FsMgr FsLemmas PrBase PrFat PrAlloc PrDir PrSeek PrAllocEffect
  PrRw PrWrite PrFileSeq PrMulti PrEntry PrChain PrCount PrWf PrOpenClose PrGlobalDef PrGlobalWrite.
From SdFs Require PrModes PrHandles PrCrash PrBounds PrOrder PrGlobal.
From SdFs Require Import PrC16Def.
Import ListNotations.
Open Scope N_scope.
Local Arguments N.mul : simpl never.
Local Arguments N.add : simpl never.
Local Arguments N.sub : simpl never.
Local Arguments N.div : simpl never.
Local Arguments N.modulo : simpl never.
Local Arguments N.land : simpl never.
Local Arguments N.lor : simpl never.
Local Arguments N.min : simpl never.
Local Arguments N.max : simpl never.
Local Ltac Zify.zify_post_hook ::= Z.to_euclidean_division_equations.

(* ================================================================== 0. the relation *)
(* PrC16Def.hint_in allows one past the last cluster (<= clusters + 2); PrCount.hint_in is the range
   "a cluster of the volume" (< clusters + 2).  Every operation of this file preserves BOTH. *)
Definition hint_inv' (s : st) : Prop := forall v, In v (s_vols s) -> PrCount.hint_in v.

Lemma hint_strict_weak v : PrCount.hint_in v -> hint_in v.
Proof. intros H c E. destruct (H c E) as (A & B). lia. Qed.

Lemma hint_inv'_inv s : hint_inv' s -> hint_inv s.
Proof. intros H v Hv. apply hint_strict_weak. exact (H v Hv). Qed.

(* what an operation does to the four invariants (and to the strict hint range) *)
Definition c16_concl (fsz : N) (s s' : st) : Prop :=
  (mirror_inv fsz s -> mirror_inv fsz s') /\
  (truthful_inv s -> truthful_inv s') /\
  (unknown_inv s -> unknown_inv s') /\
  (hint_inv s -> hint_inv s').
(* the in-memory record fits the two u32 fields of the information sector (in the crate the fields are
   Option<u32>; the model keeps them in N, and fs_inv does not bound them) *)
Definition rec_u32v (v : vol) : Prop :=
  (forall k, v_free v = Some k -> k < U32) /\ (forall c, v_next_free v = Some c -> c < U32).
Definition rec_u32 (s : st) : Prop := forall v, In v (s_vols s) -> rec_u32v v.
(* a hint found at mount may be stale (any value >= 2): every operation leaves the hint as it is or
   replaces it by a cluster of the volume / unknown, so "still the mounted value h0, or in range" is
   an invariant whatever h0 is *)
Definition hint_keep (h0 : option N) (s : st) : Prop :=
  forall v, In v (s_vols s) -> v_next_free v = h0 \/ PrCount.hint_in v.
Definition c16_full (fsz : N) (s s' : st) : Prop :=
  c16_concl fsz s s' /\ (hint_inv' s -> hint_inv' s') /\ (rec_u32 s -> rec_u32 s') /\
  (forall h0, hint_keep h0 s -> hint_keep h0 s').

Definition step_c16x (fsz vid : N) (o : op) : Prop :=
  forall s r s', fs_inv fsz vid s -> id_fresh s -> op_known_ok o -> step o s = (r, s') -> c16_full fsz s s'.

Lemma step_c16x_c16 fsz vid o : step_c16x fsz vid o -> step_c16 fsz vid o.
Proof. intros H s r s' A B C D. exact (proj1 (H s r s' A B C D)). Qed.

(* the same, on one volume record *)
Definition c16_rel (fsz : N) (d : disk) (v : vol) (d' : disk) (v' : vol) : Prop :=
  geo_eq v v' /\
  (fat_mirrored d v fsz -> fat_mirrored d' v fsz) /\
  (truthful d v -> truthful d' v') /\
  (v_free v = None -> v_free v' = None) /\
  (hint_in v -> hint_in v') /\
  (PrCount.hint_in v -> PrCount.hint_in v') /\
  (rec_u32v v -> rec_u32v v') /\
  (v_next_free v' = v_next_free v \/ PrCount.hint_in v').

Lemma fat_mirrored_geo d v w fsz : geo_eq v w -> (fat_mirrored d w fsz <-> fat_mirrored d v fsz).
Proof. intros (a & b & ->). reflexivity. Qed.

Lemma c16_rel_refl fsz d v : c16_rel fsz d v d v.
Proof.
  split; [apply geo_eq_refl|]. split; [|split; [|split; [|split; [|split; [|split]]]]]; try (intros H; exact H).
  left. reflexivity.
Qed.

Lemma c16_rel_trans fsz d v d1 v1 d2 v2 :
  c16_rel fsz d v d1 v1 -> c16_rel fsz d1 v1 d2 v2 -> c16_rel fsz d v d2 v2.
Proof.
  intros (G1 & A1 & A2 & A3 & A4 & A5 & A6 & A7) (G2 & B1 & B2 & B3 & B4 & B5 & B6 & B7).
  split; [exact (geo_eq_trans _ _ _ G1 G2)|]. split; [|split; [|split; [|split; [|split; [|split]]]]; auto].
  2:{ destruct B7 as [E|S]; [|right; exact S]. destruct A7 as [E1|S1]; [left; congruence|right].
      intros h Eh. rewrite E in Eh. rewrite (geo_clusters _ _ G2). exact (S1 h Eh). }
  intros H. apply (fat_mirrored_geo d2 v v1 fsz G1). apply B1. apply (fat_mirrored_geo d1 v v1 fsz G1). exact (A1 H).
Qed.

Lemma c16_rel_same_disk fsz d d' v v1 v' : d' = d -> c16_rel fsz d' v1 d' v' -> c16_rel fsz d v d v1 -> c16_rel fsz d v d' v'.
Proof. intros -> A B. exact (c16_rel_trans _ _ _ _ _ _ _ B A). Qed.

(* the frame: no sector of either FAT copy changes *)
Lemma fat_get_frame fsz d d' v c : fat_layout v fsz -> c < v_clusters v + 2 ->
  (forall copy k, k < fsz -> disk_get d' (fat_copy_sector v copy k) = disk_get d (fat_copy_sector v copy k)) ->
  fat_get d' v 0 c = fat_get d v 0 c.
Proof.
  intros L Hc H. apply fat_get_same_sector. unfold fat_sector. apply H. exact (layout_sector v fsz c L Hc).
Qed.

Theorem c16_rel_frame fsz d d' v : fat_layout v fsz ->
  (forall copy k, k < fsz -> disk_get d' (fat_copy_sector v copy k) = disk_get d (fat_copy_sector v copy k)) ->
  c16_rel fsz d v d' v /\ free_entries d' v = free_entries d v.
Proof.
  intros L H.
  assert (E : free_entries d' v = free_entries d v).
  { apply free_entries_iff. intros c _ C2. rewrite (fat_get_frame fsz d d' v c L C2 H). tauto. }
  split; [|exact E]. split; [apply geo_eq_refl|]. split; [|split; [|split; [|split; [|split; [|split]]]; auto]].
  - intros Hm k Hk. rewrite !H by exact Hk. exact (Hm k Hk).
  - unfold truthful. rewrite E. auto.
Qed.

(* one allocation (PrCount.alloc_count_delta, PrAllocEffect.alloc_eff, PrCount.C16_hint_range_alloc):
   the hint afterwards is unknown or a FREE cluster of the volume, whatever it was before *)
Theorem c16_rel_alloc vi v fsz prev (zero : bool) s c s' :
  alloc_pre s vi v fsz -> clusters_fit v -> prev_inuse (s_disk s) v prev ->
  alloc_cluster vi prev zero s = (Ok c, s') ->
  exists v', nth_error (s_vols s') vi = Some v' /\ c16_rel fsz (s_disk s) v (s_disk s') v' /\ PrCount.hint_in v'.
Proof.
  intros Hpre Hfit Hprev Hrun.
  assert (Hprev' : forall p, prev = Some p -> p < v_clusters v + 2)
    by (intros p Ep; exact (proj1 (proj2 (Hprev p Ep)))).
  destruct (alloc_count_delta vi v fsz prev zero s c s' Hpre Hfit Hprev Hrun)
    as (_ & v' & Hv' & G & _ & Hfree & _ & _ & Hnone & Htruth).
  pose proof (alloc_cluster_effect vi v fsz prev zero s c s' Hpre Hprev' Hrun) as Heff.
  destruct (C16_hint_range_alloc vi v fsz prev zero s c s' v' Hpre Hprev' Hrun Hv') as (Hh & _).
  exists v'. split; [exact Hv'|]. split; [|exact Hh].
  split; [exact G|]. split; [exact (ae_mirror _ _ _ _ _ _ _ _ Heff)|]. split; [exact Htruth|].
  split; [exact Hnone|]. split; [intros _; apply hint_strict_weak; exact Hh|]. split; [intros _; exact Hh|].
  split; [|right; exact Hh].
  intros (U1 & _). split.
  - intros k Ek. rewrite Hfree in Ek. destruct (v_free v) as [n|] eqn:Ef; [|discriminate Ek].
    cbn [dec_free] in Ek. destruct (1 <=? n); [|discriminate Ek]. injection Ek as <-.
    specialize (U1 n eq_refl). clear - U1. lia.
  - intros c0 Ec. destruct (Hh c0 Ec) as (_ & B). rewrite (geo_clusters _ _ G) in B.
    destruct Hpre as (_ & L & _). destruct (fl_vol v fsz L) as [V1 _ _ _]. clear - B V1. unfold U32 in *. lia.
Qed.

(* from one volume record to the table *)
Theorem c16_conclude fsz s s' v v' : s_vols s = [v] -> s_vols s' = [v'] ->
  c16_rel fsz (s_disk s) v (s_disk s') v' -> c16_full fsz s s'.
Proof.
  intros Ev Ev' (G & A1 & A2 & A3 & A4 & A5 & A6 & A7).
  assert (Hin : In v (s_vols s)) by (rewrite Ev; left; reflexivity).
  unfold c16_full, c16_concl, mirror_inv, truthful_inv, unknown_inv, hint_inv, hint_inv', rec_u32, hint_keep. rewrite Ev'.
  split; [split; [|split; [|split]]|split; [|split; [|intros h0]]]; intros H w [<-|[]].
  - apply (fat_mirrored_geo _ v v' fsz G). exact (A1 (H v Hin)).
  - exact (A2 (H v Hin)).
  - exact (A3 (H v Hin)).
  - exact (A4 (H v Hin)).
  - exact (A5 (H v Hin)).
  - exact (A6 (H v Hin)).
  - destruct A7 as [E|S]; [|right; exact S]. destruct (H v Hin) as [E0|S0]; [left; congruence|right; exact (A5 S0)].
Qed.

(* ================================================================== 1. disk and volume table unchanged *)
Lemma c16_quiet fsz s s' : s_disk s' = s_disk s -> s_vols s' = s_vols s -> c16_full fsz s s'.
Proof.
  intros Ed Ev. unfold c16_full, c16_concl, mirror_inv, truthful_inv, unknown_inv, hint_inv, hint_inv', rec_u32, hint_keep.
  rewrite Ed, Ev. split; [split; [|split; [|split]]|split; [|split; [|intros h0]]]; intros H; exact H.
Qed.

Lemma c16_same fsz s : c16_full fsz s s.
Proof. apply c16_quiet; reflexivity. Qed.

Theorem step_c16x_Length fsz vid h : step_c16x fsz vid (Length h).
Proof.
  intros s r s' Hinv _ _ Hs. pose proof (fs_inv_lock fsz vid s Hinv) as Hl.
  destruct (file_handle_cases s h Hl) as [(fi & f & Hr)|Hno].
  - cbn [step] in Hs. rewrite (lift_ok' _ _ _ _ _ (PrSeek.C01_file_length s h fi f Hr)) in Hs.
    injection Hs as <- <-. apply c16_same.
  - destruct (PrHandles.C08_stale_file_handle h s Hl Hno) as (_ & _ & _ & _ & _ & _ & _ & E & _ & _).
    rewrite E in Hs. injection Hs as <- <-. apply c16_same.
Qed.

Theorem step_c16x_Offset fsz vid h : step_c16x fsz vid (Offset h).
Proof.
  intros s r s' Hinv _ _ Hs. pose proof (fs_inv_lock fsz vid s Hinv) as Hl.
  destruct (file_handle_cases s h Hl) as [(fi & f & Hr)|Hno].
  - cbn [step] in Hs. rewrite (lift_ok' _ _ _ _ _ (PrSeek.C01_file_offset s h fi f Hr)) in Hs.
    injection Hs as <- <-. apply c16_same.
  - destruct (PrHandles.C08_stale_file_handle h s Hl Hno) as (_ & _ & _ & _ & _ & _ & _ & _ & E & _).
    rewrite E in Hs. injection Hs as <- <-. apply c16_same.
Qed.

Theorem step_c16x_Eof fsz vid h : step_c16x fsz vid (Eof h).
Proof.
  intros s r s' Hinv _ _ Hs. pose proof (fs_inv_lock fsz vid s Hinv) as Hl.
  destruct (file_handle_cases s h Hl) as [(fi & f & Hr)|Hno].
  - cbn [step] in Hs. rewrite (lift_ok' _ _ _ _ _ (PrSeek.C01_file_eof s h fi f Hr)) in Hs.
    injection Hs as <- <-. apply c16_same.
  - destruct (PrHandles.C08_stale_file_handle h s Hl Hno) as (_ & _ & _ & _ & _ & _ & _ & _ & _ & E).
    rewrite E in Hs. injection Hs as <- <-. apply c16_same.
Qed.

Theorem step_c16x_HasOpen fsz vid : step_c16x fsz vid HasOpen.
Proof.
  intros s r s' Hinv _ _ Hs. cbn [step] in Hs.
  rewrite (lift_ok' _ _ _ _ _ (PrHandles.C08_query_truthful s)) in Hs.
  injection Hs as <- <-. apply c16_same.
Qed.

(* a seek: the record of the file gets a new offset, or nothing happens *)
Lemma c16_seek_result fsz s fi f o (m : M unit) r s' :
  m s = PrSeek.seek_result s fi f o -> lift (fun _ => RUnit) m s = (r, s') -> c16_full fsz s s'.
Proof.
  intros Hm Hs. destruct o as [n|]; cbn [PrSeek.seek_result] in Hm.
  - rewrite (lift_ok' _ _ _ _ _ Hm) in Hs. injection Hs as <- <-. apply c16_quiet; reflexivity.
  - rewrite (lift_err' _ _ _ _ _ Hm) in Hs. injection Hs as <- <-. apply c16_same.
Qed.

Theorem step_c16x_SeekStart fsz vid h x : step_c16x fsz vid (SeekStart h x).
Proof.
  intros s r s' Hinv _ _ Hs. pose proof (fs_inv_lock fsz vid s Hinv) as Hl.
  destruct (file_handle_cases s h Hl) as [(fi & f & Hr)|Hno].
  - cbn [step] in Hs.
    exact (c16_seek_result fsz s fi f _ _ r s' (PrSeek.file_seek_from_start_spec s h fi f x Hr) Hs).
  - destruct (PrHandles.C08_stale_file_handle h s Hl Hno) as (_ & _ & _ & _ & E & _).
    rewrite (E x) in Hs. injection Hs as <- <-. apply c16_same.
Qed.

Theorem step_c16x_SeekEnd fsz vid h x : step_c16x fsz vid (SeekEnd h x).
Proof.
  intros s r s' Hinv _ _ Hs. pose proof (fs_inv_lock fsz vid s Hinv) as Hl.
  destruct (file_handle_cases s h Hl) as [(fi & f & Hr)|Hno].
  - cbn [step] in Hs.
    exact (c16_seek_result fsz s fi f _ _ r s' (PrSeek.file_seek_from_end_spec s h fi f x Hr) Hs).
  - destruct (PrHandles.C08_stale_file_handle h s Hl Hno) as (_ & _ & _ & _ & _ & _ & E & _).
    rewrite (E x) in Hs. injection Hs as <- <-. apply c16_same.
Qed.

Theorem step_c16x_SeekCur fsz vid h x : step_c16x fsz vid (SeekCur h x).
Proof.
  intros s r s' Hinv _ _ Hs. pose proof (fs_inv_lock fsz vid s Hinv) as Hl.
  destruct (file_handle_cases s h Hl) as [(fi & f & Hr)|Hno].
  - cbn [step] in Hs.
    exact (c16_seek_result fsz s fi f _ _ r s' (PrSeek.file_seek_from_current_spec s h fi f x Hr) Hs).
  - destruct (PrHandles.C08_stale_file_handle h s Hl Hno) as (_ & _ & _ & _ & _ & E & _).
    rewrite (E x) in Hs. injection Hs as <- <-. apply c16_same.
Qed.

Theorem step_c16x_IoSeek fsz vid h w x : step_c16x fsz vid (IoSeek h w x).
Proof.
  intros s r s' Hinv _ _ Hs. pose proof (fs_inv_lock fsz vid s Hinv) as Hl.
  destruct (file_handle_cases s h Hl) as [(fi & f & Hr)|Hno].
  - cbn [step] in Hs. pose proof (PrSeek.C01_io_seek_spec s h fi f w x Hr) as E.
    destruct (PrSeek.seek_accepts w x (PrSeek.flen f) (PrSeek.foff f)) eqn:Ea.
    + rewrite (lift_ok' _ _ _ _ _ E) in Hs. injection Hs as <- <-. apply c16_quiet; reflexivity.
    + rewrite (lift_err' _ _ _ _ _ E) in Hs. injection Hs as <- <-. apply c16_same.
  - cbn [step] in Hs. destruct (io_seek_stale h w x s Hl Hno) as (e & E).
    rewrite (lift_err' _ _ _ _ _ E) in Hs. injection Hs as <- <-. apply c16_same.
Qed.

(* Read, IoRead: device reads only; the record of the file gets a new cursor and offset *)
Theorem step_c16x_Read fsz vid h n : step_c16x fsz vid (Read h n).
Proof.
  intros s r s' Hinv _ _ Hs. pose proof (fs_inv_lock fsz vid s Hinv) as Hl.
  destruct (file_handle_cases s h Hl) as [(fi & f & Hr)|Hno].
  - cbn [step] in Hs. destruct (gw_mgr_read fsz vid s h n fi f Hinv Hr) as (l & s1 & Hrun & _ & Hv1).
    destruct (quiet_mgr_read h n s _ _ Hrun) as (Hd1 & _).
    rewrite (lift_ok' _ _ _ _ _ Hrun) in Hs. injection Hs as <- <-.
    apply c16_quiet; assumption.
  - destruct (PrHandles.C08_stale_file_handle h s Hl Hno) as (E & _).
    rewrite (E n) in Hs. injection Hs as <- <-. apply c16_same.
Qed.

Theorem step_c16x_IoRead fsz vid h n : step_c16x fsz vid (IoRead h n).
Proof.
  intros s r s' Hinv Hid Hk Hs. cbn [step] in Hs. unfold io_read in Hs.
  destruct (n =? 0) eqn:En.
  - unfold lift, bind, ret in Hs. injection Hs as <- <-. apply c16_same.
  - exact (step_c16x_Read fsz vid h n s r s' Hinv Hid (conj (conj I I) I) Hs).
Qed.

(* ================================================================== 2. Flush, CloseFile *)
(* a directory block or the information sector is no sector of either FAT copy *)
Lemma c16_not_fat v total fsz j : PrBounds.part_layout v total fsz ->
  PrBounds.in_dir v j \/ PrBounds.is_info v j -> forall copy k, k < fsz -> j <> fat_copy_sector v copy k.
Proof.
  intros L H copy k Hk ->. pose proof (PrBounds.fat_copy_sector_in_fat v fsz copy k Hk) as Hi.
  destruct (PrBounds.C04_regions_disjoint v total fsz (fat_copy_sector v copy k) L) as (_ & Hd & _).
  destruct (Hd Hi) as (N1 & N2 & N3). destruct H as [[H|H]|H]; contradiction.
Qed.

Lemma c16_dir_not_info v total fsz j : PrBounds.part_layout v total fsz -> PrBounds.in_dir v j -> ~ PrBounds.is_info v j.
Proof.
  intros L H. destruct (PrBounds.C04_regions_disjoint v total fsz j L) as (_ & _ & H16 & Hda).
  destruct H as [H|H]; [exact (Hda H)|exact (proj2 (H16 H))].
Qed.

Section C16Flush.
  Variables (fsz vid : N) (s : st) (vi : nat) (v : vol) (bl rch : list N) (T : list node).
  Hypothesis Hinv : fs_inv_at fsz vid s vi v bl rch T.
  Variables (h : N) (fi : nat) (f : fileinfo).
  Hypothesis Hr : PrSeek.resolves s h fi f.

  (* the run of flush_file on a dirty record (PrEntry.flush_file_spec): the information-sector step,
     then one directory block *)
  Lemma c16_flush_run : f_dirty f = true ->
    exists s1 s', info_step s vi v s1 /\ flush_file h s = (Ok tt, s') /\ same_mgr s s' /\
      (forall j, j <> e_block (f_entry f) -> disk_get (s_disk s') j = disk_get (s_disk s1) j) /\
      PrBounds.in_dir v (e_block (f_entry f)).
  Proof.
    intros Hdirty.
    destruct (gw_vol_facts _ _ _ _ _ _ _ _ Hinv) as (Hl & Hpre & Hfit & Hspc & Hwf & Hvid & Hnf & Hc & Hvi & L & Hvok).
    destruct (gw_file_facts _ _ _ _ _ _ _ _ h fi f Hinv Hr) as (O & Hfvol).
    pose proof Hr as (_ & Hfind & Hfi). pose proof (nth_error_In _ _ Hfi) as Hfin.
    destruct (gw_file_slot _ _ _ _ _ _ _ _ Hinv f Hfin)
      as (e0 & ch0 & i & Hn0 & Hpos0 & En & Ec & Hi & Eo & Hblk & Hns & Ee0 & Hch0).
    pose proof (of_slot _ _ _ _ O) as [Sct Smt Sname Soff Snfat].
    pose proof (of_size _ _ _ _ O) as Osize.
    destruct (info_step_exists s vi v Hnf Hc Hvi Hwf) as (s1 & Hinfo & Hwf1).
    assert (Hnp : e_size (f_entry f) = 0 \/ e_cluster (f_entry f) <> 0).
    { destruct (of_chain _ _ _ _ O) as [(A1 & _)|(A1 & A2 & _)].
      - right. clear - A1. lia.
      - left. rewrite A2 in Osize. cbn [length] in Osize. clear - Osize. lia. }
    destruct (flush_file_spec s h fi f vi v s1 Hr Hdirty (conj Hfvol Hvi) Hinfo Hnp Sct Smt Soff)
      as (s' & Hrun & _ & _ & Hfr' & _ & _ & Hm' & _).
    exists s1, s'. split; [exact Hinfo|]. split; [exact Hrun|]. split; [exact Hm'|]. split; [exact Hfr'|].
    exact (gw_dir_block_in_dir _ _ _ _ _ _ _ _ Hinv _ Hblk).
  Qed.

  (* ... no sector of either FAT copy changes, the volume table is the same, and - FAT32 - the
     information sector afterwards is the old one with the two fields of the in-memory record put
     in: a field whose in-memory value is unknown (None) KEEPS its old contents *)
  Theorem c16_flush_dirty : f_dirty f = true ->
    exists s', flush_file h s = (Ok tt, s') /\ same_mgr s s' /\
      (forall copy k, k < fsz ->
         disk_get (s_disk s') (fat_copy_sector v copy k) = disk_get (s_disk s) (fat_copy_sector v copy k)) /\
      (v_fat32 v = true ->
         let old := disk_get (s_disk s) (v_info v) in
         let new := disk_get (s_disk s') (v_info v) in
         le32 new 488 = match v_free v with Some k => k mod 4294967296 | None => le32 old 488 end /\
         le32 new 492 = match v_next_free v with Some c => c mod 4294967296 | None => le32 old 492 end /\
         (forall i, i < 488 \/ 496 <= i -> get8 new i = get8 old i)).
  Proof.
    intros Hdirty.
    destruct (c16_flush_run Hdirty) as (s1 & s' & Hinfo & Hrun & Hm & Hfr & Hdir).
    destruct (gw_vol_facts _ _ _ _ _ _ _ _ Hinv) as (Hl & Hpre & Hfit & Hspc & Hwf & Hvid & Hnf & Hc & Hvi & L & Hvok).
    pose proof (fi_layout _ _ _ _ _ _ _ _ Hinv) as PL.
    destruct Hinfo as (Hirun & _ & _ & _ & Hfr1 & Hsame).
    exists s'. split; [exact Hrun|]. split; [exact Hm|]. split.
    - intros copy k Hk.
      rewrite Hfr by (apply not_eq_sym; exact (c16_not_fat v _ fsz _ PL (or_introl Hdir) copy k Hk)).
      destruct (v_fat32 v) eqn:E32.
      + apply Hfr1. apply not_eq_sym.
        exact (c16_not_fat v _ fsz _ PL (or_intror (conj E32 eq_refl)) copy k Hk).
      + rewrite (Hsame (or_introl eq_refl)). reflexivity.
    - intros E32 old new.
      assert (Hne : v_info v <> e_block (f_entry f)).
      { intros E. apply (c16_dir_not_info v _ fsz _ PL Hdir). split; [exact E32|symmetry; exact E]. }
      assert (Enew : new = disk_get (s_disk s1) (v_info v)) by (unfold new; apply Hfr; exact Hne).
      destruct (v_free v) as [k|] eqn:Ef.
      + destruct (update_info_sector_spec vi s v Hnf Hc Hvi E32 ltac:(left; congruence) (Hwf _))
          as (s1' & nb & Hrun' & _ & Hnb & _ & _ & Hout & H488 & H492 & _).
        rewrite Hirun in Hrun'. injection Hrun' as <-. rewrite Enew, Hnb. rewrite Ef in H488.
        split; [exact H488|]. split; [exact H492|exact Hout].
      + destruct (v_next_free v) as [c|] eqn:En.
        * destruct (update_info_sector_spec vi s v Hnf Hc Hvi E32 ltac:(right; congruence) (Hwf _))
            as (s1' & nb & Hrun' & _ & Hnb & _ & _ & Hout & H488 & H492 & _).
          rewrite Hirun in Hrun'. injection Hrun' as <-. rewrite Enew, Hnb. rewrite Ef in H488. rewrite En in H492.
          split; [exact H488|]. split; [exact H492|exact Hout].
        * rewrite Enew, (Hsame (or_intror (conj eq_refl eq_refl))). fold old.
          split; [reflexivity|]. split; [reflexivity|]. intros i _. reflexivity.
  Qed.
End C16Flush.

(* flush_file on a record of the table, dirty or not: Ok, same volume table, no FAT sector changed *)
Lemma c16_flush_any fsz vid s vi v bl rch T h fi f : fs_inv_at fsz vid s vi v bl rch T ->
  PrSeek.resolves s h fi f ->
  exists s1, flush_file h s = (Ok tt, s1) /\ same_mgr s s1 /\
    c16_rel fsz (s_disk s) v (s_disk s1) v.
Proof.
  intros Hat Hr.
  destruct (gw_vol_facts _ _ _ _ _ _ _ _ Hat) as (_ & _ & _ & _ & _ & _ & _ & _ & _ & L & _).
  destruct (f_dirty f) eqn:Hd.
  - destruct (c16_flush_dirty fsz vid s vi v bl rch T Hat h fi f Hr Hd) as (s1 & Hrun & Hm & Hfat & _).
    exists s1. split; [exact Hrun|]. split; [exact Hm|]. exact (proj1 (c16_rel_frame fsz _ _ v L Hfat)).
  - exists s. split; [exact (flush_file_clean s h fi f Hr Hd)|]. split; [apply same_mgr_refl|apply c16_rel_refl].
Qed.

Theorem step_c16x_Flush fsz vid h : step_c16x fsz vid (Flush h).
Proof.
  intros s r s' Hinv _ _ Hs. pose proof (fs_inv_lock fsz vid s Hinv) as Hl.
  destruct (file_handle_cases s h Hl) as [(fi & f & Hr)|Hno].
  - cbn [step] in Hs. destruct Hinv as (vi & v & bl & rch & T & Hat).
    destruct (c16_flush_any fsz vid s vi v bl rch T h fi f Hat Hr) as (s1 & Hrun & Hm & Hrel).
    rewrite (lift_ok' _ _ _ _ _ Hrun) in Hs. injection Hs as <- <-.
    pose proof (fi_single _ _ _ _ _ _ _ _ Hat) as Ev.
    apply (c16_conclude fsz s s1 v v Ev); [rewrite (proj1 Hm); exact Ev|exact Hrel].
  - destruct (PrHandles.C08_stale_file_handle h s Hl Hno) as (_ & _ & E & _).
    rewrite E in Hs. injection Hs as <- <-. apply c16_same.
Qed.

Theorem step_c16x_CloseFile fsz vid h : step_c16x fsz vid (CloseFile h).
Proof.
  intros s r s' Hinv _ _ Hs. pose proof (fs_inv_lock fsz vid s Hinv) as Hl.
  destruct (file_handle_cases s h Hl) as [(fi & f & Hr)|Hno].
  - cbn [step] in Hs. destruct Hinv as (vi & v & bl & rch & T & Hat).
    destruct (c16_flush_any fsz vid s vi v bl rch T h fi f Hat Hr) as (s1 & Hrun & Hm & Hrel).
    rewrite (lift_ok' _ _ _ _ _ (close_file_after_flush s h fi f s1 Hr Hrun Hm)) in Hs. injection Hs as <- <-.
    pose proof (fi_single _ _ _ _ _ _ _ _ Hat) as Ev.
    apply (c16_conclude fsz s _ v v Ev); [cbn [s_vols set_s_files]; rewrite (proj1 Hm); exact Ev|exact Hrel].
  - destruct (PrHandles.C08_stale_file_handle h s Hl Hno) as (_ & _ & _ & E & _).
    rewrite E in Hs. injection Hs as <- <-. apply c16_same.
Qed.

(* ================================================================== 3. what the information sector holds *)
(* the handle names the dirty record *)
Lemma c16_dirty_resolves fsz vid s h : fs_inv fsz vid s ->
  (exists f, In f (s_files s) /\ f_id f = h /\ f_dirty f = true) ->
  exists fi f, PrSeek.resolves s h fi f /\ f_dirty f = true.
Proof.
  intros Hinv (f & Hf & Eid & Hd). pose proof (fs_inv_lock fsz vid s Hinv) as Hl.
  destruct (file_handle_cases s h Hl) as [(fi & f' & Hr)|Hno]; [|destruct (Hno f Hf Eid)].
  exists fi, f'. split; [exact Hr|].
  destruct Hr as (_ & Hfind & Hfi).
  destruct (PrSeek.find_resolves s h fi Hl Hfind) as (f'' & (_ & _ & Hfi'') & Eid'').
  rewrite Hfi in Hfi''. injection Hfi'' as <-.
  destruct Hinv as (vi & v & bl & rch & T & Hat).
  rewrite (gw_nodup_map_inj f_id (s_files s) f' f (fi_fids _ _ _ _ _ _ _ _ Hat) (nth_error_In _ _ Hfi) Hf);
    [exact Hd|congruence].
Qed.

(* Flush / CloseFile of a dirty record on FAT32, in full: each of the two fields of the information
   sector holds the in-memory value (mod 2^32) when that value is known, and KEEPS ITS OLD CONTENTS
   when it is unknown; every byte outside the two fields is as before *)
Theorem c16_flush_info fsz vid h : forall o s r s', (o = Flush h \/ o = CloseFile h) ->
  fs_inv fsz vid s -> step o s = (Ok r, s') ->
  (exists f, In f (s_files s) /\ f_id f = h /\ f_dirty f = true) ->
  s_vols s' = s_vols s /\
  forall v, In v (s_vols s) -> v_fat32 v = true ->
    let old := disk_get (s_disk s) (v_info v) in
    let new := disk_get (s_disk s') (v_info v) in
    le32 new 488 = match v_free v with Some k => k mod 4294967296 | None => le32 old 488 end /\
    le32 new 492 = match v_next_free v with Some c => c mod 4294967296 | None => le32 old 492 end /\
    (forall i, i < 488 \/ 496 <= i -> get8 new i = get8 old i).
Proof.
  intros o s r s' Ho Hinv Hs Hex.
  destruct (c16_dirty_resolves fsz vid s h Hinv Hex) as (fi & f & Hr & Hd).
  destruct Hinv as (vi & v & bl & rch & T & Hat).
  pose proof (fi_single _ _ _ _ _ _ _ _ Hat) as Ev.
  destruct (c16_flush_dirty fsz vid s vi v bl rch T Hat h fi f Hr Hd) as (s1 & Hrun & Hm & _ & Hinfo).
  assert (K : s_vols s' = s_vols s1 /\ s_disk s' = s_disk s1).
  { destruct Ho as [-> | ->]; cbn [step] in Hs.
    - rewrite (lift_ok' _ _ _ _ _ Hrun) in Hs. injection Hs as _ <-. split; reflexivity.
    - rewrite (lift_ok' _ _ _ _ _ (close_file_after_flush s h fi f s1 Hr Hrun Hm)) in Hs.
      injection Hs as _ <-. split; reflexivity. }
  destruct K as (Kv & Kd). split; [rewrite Kv; exact (proj1 Hm)|].
  intros v0 Hv0 E32. rewrite Ev in Hv0. destruct Hv0 as [<-|[]]. rewrite Kd. exact (Hinfo E32).
Qed.

(* PrC16Def.stores_record under the hypothesis that the in-memory record fits the fields *)
Theorem stores_record_u32 fsz vid h : forall o s r s', (o = Flush h \/ o = CloseFile h) ->
  fs_inv fsz vid s -> id_fresh s -> step o s = (Ok r, s') ->
  (exists f, In f (s_files s) /\ f_id f = h /\ f_dirty f = true) ->
  rec_u32 s -> info_matches s'.
Proof.
  intros o s r s' Ho Hinv _ Hs Hex Hu.
  destruct (c16_flush_info fsz vid h o s r s' Ho Hinv Hs Hex) as (Ev & Hinfo).
  intros v Hv E32. rewrite Ev in Hv. destruct (Hinfo v Hv E32) as (H488 & H492 & _).
  destruct (Hu v Hv) as (U1 & U2). split.
  - intros k Ek. rewrite H488, Ek. apply N.mod_small. exact (U1 k Ek).
  - intros c Ec. rewrite H492, Ec. apply N.mod_small. exact (U2 c Ec).
Qed.

(* the hypothesis follows from the invariants of the property: a truthful or unknown count, a hint in
   range *)
Lemma rec_u32_of_inv fsz vid s : fs_inv fsz vid s -> truthful_inv s \/ unknown_inv s -> hint_inv s -> rec_u32 s.
Proof.
  intros (vi & v & bl & rch & T & Hat) Hc Hh w Hw.
  destruct (gw_vol_facts _ _ _ _ _ _ _ _ Hat) as (_ & _ & _ & _ & _ & _ & _ & _ & _ & _ & Hvok).
  pose proof (fi_single _ _ _ _ _ _ _ _ Hat) as Ev. pose proof Hw as Hw'. rewrite Ev in Hw'.
  destruct Hw' as [<-|[]]. split.
  - destruct Hc as [Ht|Hn].
    + exact (truthful_u32 _ v Hvok (Ht v Hw)).
    + intros k Ek. rewrite (Hn v Hw) in Ek. discriminate Ek.
  - intros c Ec. pose proof (Hh v Hw c Ec) as B. destruct Hvok as [V1 _ _ _]. clear - B V1. unfold U32 in *. lia.
Qed.

Corollary stores_record_inv fsz vid h : forall o s r s', (o = Flush h \/ o = CloseFile h) ->
  fs_inv fsz vid s -> id_fresh s -> step o s = (Ok r, s') ->
  (exists f, In f (s_files s) /\ f_id f = h /\ f_dirty f = true) ->
  truthful_inv s \/ unknown_inv s -> hint_inv s -> info_matches s'.
Proof.
  intros o s r s' Ho Hinv Hid Hs Hex Hc Hh.
  exact (stores_record_u32 fsz vid h o s r s' Ho Hinv Hid Hs Hex (rec_u32_of_inv fsz vid s Hinv Hc Hh)).
Qed.

(* ================================================================== 4. Write: the relation through write_loop *)
(* a write to a block of a data cluster touches no sector of either FAT copy *)
Lemma c16_rel_data_write fsz d v cj q nb : fat_layout v fsz -> 2 <= cj ->
  c16_rel fsz d v (disk_set d (cluster_first_block v cj + q) nb) v.
Proof.
  intros L H2. refine (proj1 (c16_rel_frame fsz _ _ v L _)). intros copy k Hk. apply disk_get_set_other.
  apply not_eq_sym. exact (fat_sector_not_data v fsz copy k cj q L Hk H2).
Qed.

Section C16Loop.
  Variable fsz : N.
  Variable vi fi : nat.
  Variable first : N.

  (* one iteration in place (PrWrite.wl_step_in_place / PrGlobalWrite.gw_step_in_place): a data block
     of the file's own chain is written; volume table and FAT copies untouched *)
  Lemma c16_step_in_place fu v ch f data s :
    wl_inv fsz vi fi first v ch f s -> data <> [] -> f_offset f < U32 ->
    f_offset f < N.of_nat (length ch) * bytes_per_cluster v ->
    let tc := wr_to_copy (f_offset f) data in
    exists f' s',
      write_loop (S fu) fi vi data s = write_loop fu fi vi (skipn (N.to_nat tc) data) s' /\
      wl_inv fsz vi fi first v ch f' s' /\ f_offset f' = f_offset f + tc /\
      c16_rel fsz (s_disk s) v (s_disk s') v.
  Proof.
    intros [Hpre Hfit Hspc Hwf (fuel0 & Hch) Hfi Hfirst Hcur Hoff Hsize] Hdata H32 Hin tc.
    pose proof Hpre as ((Hnf & Hc & Hvi & Hlen) & L & Hh).
    pose proof (fl_vol v fsz L) as Hv.
    set (B := bytes_per_cluster v) in *.
    assert (HB : B = v_spc v * 512) by reflexivity.
    destruct (write_one_chunk_in_place v (s_disk s) first fuel0 ch Hv Hspc Hch fu fi vi f data s
                Hvi Hfi eq_refl Hnf Hc Hwf Hfirst (or_introl Hcur) Hin H32 Hdata)
      as (cj & s' & Hn & Hrun & Hd' & Hfiles' & Hc' & Hnf' & Hsbf).
    fold B in Hn, Hd', Hfiles'. fold tc in Hrun, Hd', Hfiles'.
    set (off := f_offset f) in *.
    set (blk := cluster_first_block v cj + (off mod B) / 512) in *.
    set (chunk := firstn (N.to_nat tc) data) in *.
    set (f' := wr_file f (off / B * B, cj) tc) in *.
    destruct (wr_file_fields f (off / B * B, cj) tc) as (F1 & F2 & F3 & F4 & F5 & F6 & F7 & F8 & F9 & F10).
    fold f' off in F1, F2, F3, F4, F5, F6, F7, F8, F9, F10.
    assert (Htc : tc <= N.of_nat (length data)) by apply wr_to_copy_le.
    assert (Htc512 : off mod 512 + tc <= 512) by (unfold tc, wr_to_copy; lia).
    assert (Hlen_chunk : N.of_nat (length chunk) = tc) by (apply stored_length; exact Htc).
    destruct (chain_of_links _ _ _ _ _ Hch _ cj Hn) as (R1 & R2 & _).
    assert (Hq : (off mod B) / 512 < v_spc v) by (apply div512_lt; rewrite HB; apply N.mod_lt; lia).
    assert (Hnb : length (set_bytes (disk_get (s_disk s) blk) (off mod 512) chunk) = 512%nat).
    { rewrite set_bytes_length; [apply Hwf|]. rewrite Hwf. lia. }
    assert (Hchains : forall x fu0, chain_of (s_disk s') v x fu0 = chain_of (s_disk s) v x fu0).
    { intros x fu0. rewrite Hd'. apply chain_of_data_write; [exact (layout_below_data v fsz L)|exact R1]. }
    exists f', s'. split; [exact Hrun|]. split; [|split; [exact F1|]].
    - constructor.
      + split; [|split; assumption]. split; [exact Hnf'|]. split; [exact Hc'|].
        split; [rewrite (proj1 Hsbf); exact Hvi|].
        intros k Hk. rewrite Hd'. rewrite disk_get_set_other; [apply Hlen; exact Hk|].
        intros E. exact (fat_sector_not_data v fsz 0 k cj _ L Hk R1 (eq_sym E)).
      + exact Hfit.
      + exact Hspc.
      + rewrite Hd'. apply blocks_wf_set; assumption.
      + exists fuel0. rewrite Hchains. exact Hch.
      + rewrite Hfiles'. eapply PrRw.nth_error_list_set_same. exact Hfi.
      + rewrite F4. exact Hfirst.
      + rewrite F5, F6. cbn [fst snd]. exact (proj1 (find_data_cursor v ch Hspc off cj Hn)).
      + rewrite F1, F2. lia.
      + rewrite F2. fold B.
        pose proof (in_place_room (N.of_nat (length ch)) (v_spc v) off data Hin) as Hroom.
        fold tc in Hroom. change (v_spc v * 512) with B in Hroom.
        clear - Hroom Hsize. lia.
    - rewrite Hd'. unfold blk. exact (c16_rel_data_write fsz _ v cj _ _ L R1).
  Qed.

  (* one iteration at the end of the chain (PrWrite.wl_step_at_end / PrGlobalWrite.gw_step_at_end):
     alloc_cluster links a new cluster behind the last one - which is in use, so the count goes down
     by exactly one -, then the first block of the new cluster is written; or no entry is free:
     DiskFull, nothing written, same volume table *)
  Lemma c16_step_at_end fu v ch f data s :
    wl_inv fsz vi fi first v ch f s -> data <> [] -> f_offset f < U32 ->
    f_offset f = N.of_nat (length ch) * bytes_per_cluster v ->
    let tc := wr_to_copy (f_offset f) data in
    (exists v' c f' s',
       write_loop (S fu) fi vi data s = write_loop fu fi vi (skipn (N.to_nat tc) data) s' /\
       wl_inv fsz vi fi first v' (ch ++ [c]) f' s' /\ f_offset f' = f_offset f + tc /\
       c16_rel fsz (s_disk s) v (s_disk s') v')
    \/ (exists s',
       write_loop (S fu) fi vi data s = (Err DiskFull, s') /\ s_disk s' = s_disk s /\ s_vols s' = s_vols s).
  Proof.
    intros [Hpre Hfit Hspc Hwf (fuel0 & Hch) Hfi Hfirst Hcur Hoff Hsize] Hdata H32 Hend tc.
    pose proof Hpre as ((Hnf & Hc & Hvi & Hlen) & L & Hh).
    pose proof (fl_vol v fsz L) as Hv.
    set (B := bytes_per_cluster v) in *.
    assert (HB : B = v_spc v * 512) by reflexivity.
    destruct (chain_last _ _ _ _ _ Hch) as (cl & Hcl & Hlen0).
    destruct (chain_last_entry _ _ _ _ _ _ Hch Hcl) as (Hclnz & Q1 & Q2).
    destruct (find_data_on_disk_eof v (s_disk s) first fuel0 ch Hv Hspc Hch vi (f_cur_off f, f_cur_cluster f)
                (f_offset f) s Hvi eq_refl Hnf Hc (or_introl Hcur) Hend H32)
      as (cl' & s1 & Hn1 & Hrun1 & Hro1).
    rewrite Hcl in Hn1. inversion Hn1; subst cl'. clear Hn1.
    pose proof (alloc_pre_ro vi v fsz s s1 Hpre Hro1) as Hpre1.
    assert (Hprev : forall p, Some cl = Some p -> p < v_clusters v + 2)
      by (intros p E; inversion E; subst p; exact Q2).
    destruct (alloc_cluster_total vi v fsz (Some cl) false s1 Hpre1 Hprev) as (o & s2 & Ha & Hres).
    destruct Hres as [(-> & Hnone & Hd2 & Hm2 & _ & Hst2)|(c0 & -> & Heff0)].
    { right. exists s2. split.
      { rewrite (write_loop_unfold fu fi vi data s Hdata).
        rewrite (bind_ok _ _ _ _ _ (get_file_some fi f s Hfi)). cbv zeta. rewrite Hfirst.
        rewrite (bind_ok _ _ _ _ _ Hrun1). cbv beta iota. cbn [snd].
        rewrite bind_bind. rewrite (bind_ok _ _ _ _ _ (PrAlloc.try_err _ _ _ _ Ha)). reflexivity. }
      split; [rewrite Hd2; exact (proj1 Hro1)|].
      rewrite (proj1 Hm2). exact (proj1 (proj2 (proj2 (proj2 Hro1)))). }
    left.
    destruct (ae_range _ _ _ _ _ _ _ _ Heff0) as (W1 & W2 & W3). rewrite (proj1 Hro1) in W3.
    assert (Halloc : forall s1', ro_step s s1' ->
              exists c s2', alloc_cluster vi (Some cl) false s1' = (Ok c, s2') /\
                            ext_eff vi v first ch s1' c s2').
    { intros s1' Hro'. pose proof (alloc_pre_ro vi v fsz s s1' Hpre Hro') as Hpre'.
      destruct (alloc_cluster_succeeds vi v fsz (Some cl) false s1' c0 Hpre' Hprev W1 W2
                  ltac:(rewrite (proj1 Hro'); exact W3)) as (c & s2' & Ha').
      exists c, s2'. split; [exact Ha'|].
      refine (proj1 (ext_eff_of_alloc vi v fsz first fuel0 ch cl s1' c s2' Hpre' Hfit _ _ Hcl Ha'));
        rewrite (proj1 Hro'); assumption. }
    clear s1 Hrun1 Hro1 Hpre1 s2 Ha Heff0 W1 W2 W3.
    destruct (write_one_chunk_extend v (s_disk s) first fuel0 ch fu fi vi f data s cl Hv Hspc Hch Hvi Hfi
                eq_refl Hnf Hc Hfirst (or_introl Hcur) Hend H32 Hdata Hcl Halloc)
      as (s1 & c & s2 & s' & Hro1 & Ha & _ & Hrun & Hd' & Hfb' & Hfb2 & Hfiles' & Hcur' & Hvols' & Hwf'
          & Hc' & Hnf' & Htab').
    cbv zeta in Hrun, Hd', Hfb', Hfiles'.
    pose proof (alloc_pre_ro vi v fsz s s1 Hpre Hro1) as Hpre1.
    destruct (ext_eff_of_alloc vi v fsz first fuel0 ch cl s1 c s2 Hpre1 Hfit
                ltac:(rewrite (proj1 Hro1); exact Hwf) ltac:(rewrite (proj1 Hro1); exact Hch) Hcl Ha)
      as (_ & AF & Hchain2).
    destruct (af_range _ _ _ _ _ _ _ AF) as (R1 & R2 & R3).
    destruct (af_vol _ _ _ _ _ _ _ AF) as (nf & fc & Evols & Hpre2).
    set (v' := vol_rebook v nf fc) in *.
    (* the count, the mirror, the hint *)
    assert (Hinuse : prev_inuse (s_disk s1) v (Some cl)).
    { intros p E. inversion E; subst p. split; [exact Q1|]. split; [exact Q2|].
      rewrite <- fat_entry_get, (proj1 Hro1). exact Hclnz. }
    destruct (c16_rel_alloc vi v fsz (Some cl) false s1 c s2 Hpre1 Hfit Hinuse Ha) as (v2 & Hv2 & Hrel2 & _).
    assert (Ev2 : v2 = v').
    { rewrite Evols, (PrRw.nth_error_list_set_same _ _ _ _ (proj1 (proj2 (proj2 (proj1 Hpre1))))) in Hv2.
      injection Hv2 as <-. reflexivity. }
    subst v2. rewrite (proj1 Hro1) in Hrel2.
    assert (E3 : f_offset f mod 512 = 0).
    { rewrite Hend, HB. apply mul_bpc_mod512. }
    assert (Etc : N.min 512 (N.of_nat (length data)) = tc)
      by (symmetry; apply wr_to_copy_aligned; exact E3).
    rewrite Etc in Hrun, Hd', Hfb', Hfiles'.
    set (off := f_offset f) in *.
    set (chunk := firstn (N.to_nat tc) data) in *.
    set (f' := wr_file f (off, c) tc) in *.
    destruct (wr_file_fields f (off, c) tc) as (F1 & F2 & F3 & F4 & F5 & F6 & F7 & F8 & F9 & F10).
    fold f' off in F1, F2, F3, F4, F5, F6, F7, F8, F9, F10.
    assert (Htc : tc <= N.of_nat (length data)) by apply wr_to_copy_le.
    assert (Htc512 : tc <= 512) by (clear - Etc; lia).
    pose proof Hpre2 as ((_ & _ & _ & Hlen2) & L2 & Hh2).
    assert (Hblk0 : cluster_first_block v c = cluster_first_block v c + 0) by (rewrite N.add_0_r; reflexivity).
    assert (Hchains : forall x fu0, chain_of (s_disk s') v x fu0 = chain_of (s_disk s2) v x fu0).
    { intros x fu0. rewrite Hd', Hblk0. apply chain_of_data_write; [exact (layout_below_data v fsz L)|exact R1]. }
    exists v', c, f', s'. split; [exact Hrun|]. split; [|split; [exact F1|]].
    - constructor.
      + split; [|split; assumption]. split; [exact Hnf'|]. split; [exact Hc'|].
        split; [rewrite Hvols', Evols; eapply PrRw.nth_error_list_set_same; exact (proj1 (proj2 (proj2 (proj1 Hpre1))))|].
        intros k Hk. rewrite Hd'. rewrite disk_get_set_other; [apply Hlen2; exact Hk|].
        intros E. rewrite Hblk0 in E.
        exact (fat_sector_not_data v fsz 0 k c 0 L Hk R1 (eq_sym E)).
      + exact Hfit.
      + exact Hspc.
      + exact Hwf'.
      + exists (S fuel0). unfold v'. rewrite chain_of_rebook, Hchains. exact Hchain2.
      + rewrite Hfiles'. eapply PrRw.nth_error_list_set_same. exact Hfi.
      + rewrite F4. exact Hfirst.
      + rewrite F5, F6. exact Hcur'.
      + rewrite F1, F2. clear. lia.
      + rewrite F2. change (bytes_per_cluster v') with B. rewrite app_length. cbn [length].
        replace (length ch + 1)%nat with (S (length ch)) by lia. rewrite of_nat_succ_mul.
        assert (512 <= B) by (rewrite HB; clear - Hspc; lia).
        clear - H Hsize Hend Htc512. fold off in Hend. lia.
    - apply (c16_rel_trans fsz _ _ _ _ _ _ Hrel2). rewrite Hd', Hblk0.
      exact (c16_rel_data_write fsz (s_disk s2) v' c 0 _ L2 R1).
  Qed.

  (* the whole loop, any fuel, any outcome *)
  Theorem c16_write_loop : forall fuel data v ch f s,
    wl_inv fsz vi fi first v ch f s -> f_offset f + N.of_nat (length data) < U32 ->
    forall o sf, write_loop fuel fi vi data s = (o, sf) ->
      exists vf, nth_error (s_vols sf) vi = Some vf /\ c16_rel fsz (s_disk s) v (s_disk sf) vf.
  Proof.
    induction fuel as [|fu IH]; intros data v ch f s Hinv H32 o sf Hrun.
    { injection Hrun as _ <-. exists v.
      split; [exact (proj1 (proj2 (proj2 (proj1 (wi_pre _ _ _ _ _ _ _ _ Hinv)))))|apply c16_rel_refl]. }
    destruct data as [|x t] eqn:Edata.
    { injection Hrun as _ <-. exists v.
      split; [exact (proj1 (proj2 (proj2 (proj1 (wi_pre _ _ _ _ _ _ _ _ Hinv)))))|apply c16_rel_refl]. }
    rewrite <- Edata in *. assert (Hdata : data <> []) by (rewrite Edata; discriminate).
    clear x t Edata.
    set (off := f_offset f) in *. set (tc := wr_to_copy off data).
    assert (Htc : tc <= N.of_nat (length data)) by apply wr_to_copy_le.
    assert (Hrest_len : N.of_nat (length (skipn (N.to_nat tc) data)) = N.of_nat (length data) - tc)
      by (rewrite skipn_length; lia).
    pose proof (wi_off _ _ _ _ _ _ _ _ Hinv) as Hoff. pose proof (wi_size _ _ _ _ _ _ _ _ Hinv) as Hsize. fold off in Hoff.
    destruct (N.lt_ge_cases off (N.of_nat (length ch) * bytes_per_cluster v)) as [Hlt|Hge].
    - destruct (c16_step_in_place fu v ch f data s Hinv Hdata ltac:(fold off; clear - H32; lia) Hlt)
        as (f1 & s1 & Hrun1 & Hinv1 & Hoff1 & Hrel1).
      fold off tc in Hrun1, Hoff1. rewrite Hrun1 in Hrun.
      destruct (IH _ v ch f1 s1 Hinv1 ltac:(rewrite Hoff1, Hrest_len; clear - H32 Htc; lia) o sf Hrun)
        as (vf & Hvf & Hrel).
      exists vf. split; [exact Hvf|exact (c16_rel_trans fsz _ _ _ _ _ _ Hrel1 Hrel)].
    - assert (Hend : off = N.of_nat (length ch) * bytes_per_cluster v) by (clear - Hge Hoff Hsize; lia).
      destruct (c16_step_at_end fu v ch f data s Hinv Hdata ltac:(fold off; clear - H32; lia) Hend)
        as [(v1 & c & f1 & s1 & Hrun1 & Hinv1 & Hoff1 & Hrel1)|(s1 & Hrun1 & Hd1 & Hv1)].
      + fold off tc in Hrun1, Hoff1. rewrite Hrun1 in Hrun.
        destruct (IH _ v1 (ch ++ [c]) f1 s1 Hinv1 ltac:(rewrite Hoff1, Hrest_len; clear - H32 Htc; lia) o sf Hrun)
          as (vf & Hvf & Hrel).
        exists vf. split; [exact Hvf|exact (c16_rel_trans fsz _ _ _ _ _ _ Hrel1 Hrel)].
      + rewrite Hrun1 in Hrun. injection Hrun as _ <-. exists v.
        split; [rewrite Hv1; exact (proj1 (proj2 (proj2 (proj1 (wi_pre _ _ _ _ _ _ _ _ Hinv)))))|].
        rewrite Hd1. apply c16_rel_refl.
  Qed.
End C16Loop.

(* ---- mgr_write as a whole ---- *)
Lemma c16_mw_tail fi s r s' : mw_tail fi s = (r, s') -> s_disk s' = s_disk s /\ s_vols s' = s_vols s.
Proof.
  unfold mw_tail, get_file, get_timestamp, put_file, bind, get, modify, ret, panic.
  destruct (nth_error (s_files s) fi); intros H; inversion H; split; reflexivity.
Qed.

Lemma c16_loop_tail fsz vi fi first fuel data v ch f s o s' :
  wl_inv fsz vi fi first v ch f s -> f_offset f + N.of_nat (length data) < U32 ->
  (write_loop fuel fi vi data ;;; mw_tail fi) s = (o, s') ->
  exists vf, nth_error (s_vols s') vi = Some vf /\ c16_rel fsz (s_disk s) v (s_disk s') vf.
Proof.
  intros Hinv H32 Hrun. unfold bind in Hrun.
  destruct (write_loop fuel fi vi data s) as [o1 s1] eqn:Eloop.
  destruct (c16_write_loop fsz vi fi first fuel data v ch f s Hinv H32 o1 s1 Eloop) as (vf & Hvf & Hrel).
  destruct o1 as [u|e| |].
  - destruct (c16_mw_tail fi s1 o s' Hrun) as (Ed & Ev). exists vf. rewrite Ev, Ed. split; assumption.
  - injection Hrun as _ <-. exists vf. split; assumption.
  - injection Hrun as _ <-. exists vf. split; assumption.
  - injection Hrun as _ <-. exists vf. split; assumption.
Qed.

(* mgr_write on a handle that names a record, EVERY outcome (Ok, ReadOnly refusal, DiskFull after a
   prefix was stored, NotEnoughSpace): the volume record afterwards is related to the one before *)
Theorem c16_mgr_write fsz h data s fi f vi v ch o s' :
  mw_pre fsz h s fi f vi v ch -> mgr_write h data s = (o, s') ->
  exists v', nth_error (s_vols s') vi = Some v' /\ c16_rel fsz (s_disk s) v (s_disk s') v'.
Proof.
  intros Hmw Hrun.
  pose proof Hmw as [Hl Hh Hfi Hvol Hpre Hfit Hspc Hwf Hchain Hoff Hsize H32].
  pose proof Hpre as ((Hnf & Hc & Hvi & Hlen) & L & Hh0).
  rewrite (mgr_write_unfold h data s fi f vi Hl Hh Hfi Hvol) in Hrun.
  destruct (mode_eqb (f_mode f) ReadOnly) eqn:Hmode.
  { injection Hrun as _ <-. exists v. split; [exact Hvi|apply c16_rel_refl]. }
  set (tw := N.min (N.of_nat (length data)) (MAX_FILE_SIZE - f_offset f)) in *.
  assert (Hclip : N.of_nat (length (firstn (N.to_nat tw) data)) = tw) by (rewrite firstn_length; unfold tw; lia).
  assert (HtwM : f_offset f + tw < U32) by (unfold tw, MAX_FILE_SIZE, U32 in *; clear - Hoff H32; lia).
  set (fA := set_f_dirty f true) in *. set (sA := PrRw.upd_file s fi fA) in *.
  assert (HfiA : nth_error (s_files sA) fi = Some fA)
    by (cbn; eapply PrRw.nth_error_list_set_same; exact Hfi).
  assert (HpreA : alloc_pre sA vi v fsz) by exact Hpre.
  destruct Hchain as [(A1 & (fuel0 & A2) & A3)|(A1 & -> & A3)].
  - (* the file has clusters: the loop starts at once, with the same volume record *)
    assert (E : (e_cluster (f_entry f) <? RESERVED_ENTRIES) = false) by (apply N.ltb_ge; exact A1).
    destruct (reset_cursor_fields fA) as (G1 & G2 & G3 & G4 & G5 & G6).
    unfold mw_first in Hrun. rewrite E, bind_ret in Hrun.
    rewrite (mw_rest_run fi data sA fA vi HfiA Hvol) in Hrun. cbv zeta in Hrun. rewrite G2 in Hrun.
    change (f_offset fA) with (f_offset f) in Hrun. fold tw in Hrun.
    assert (Pinv : wl_inv fsz vi fi (e_cluster (f_entry (reset_cursor fA))) v ch (reset_cursor fA)
                     (PrRw.upd_file sA fi (reset_cursor fA))).
    { constructor; try assumption.
      - exists fuel0. rewrite G1. exact A2.
      - cbn. rewrite list_set_twice. eapply PrRw.nth_error_list_set_same. exact Hfi.
      - reflexivity.
      - apply reset_cursor_ok; [exact (cursor_ok_first v _ _ _ _ A2)|intros _; exact A3].
      - rewrite G1, G2. exact Hoff.
      - rewrite G1. exact Hsize. }
    exact (c16_loop_tail fsz vi fi _ _ _ v ch _ _ o s' Pinv ltac:(rewrite G2, Hclip; exact HtwM) Hrun).
  - (* the file has no cluster yet: one is allocated (prev = None) *)
    assert (E : (e_cluster (f_entry f) <? RESERVED_ENTRIES) = true) by (apply N.ltb_lt; exact A1).
    assert (HprevN : forall p, @None N = Some p -> p < v_clusters v + 2) by (intros p Ep; discriminate Ep).
    destruct (alloc_cluster_total vi v fsz None false sA HpreA HprevN) as (oa & s2 & Ha & Hres).
    destruct Hres as [(-> & Hnone & Hd2 & Hm2 & _ & Hst2)|(c & -> & _)].
    + unfold mw_first in Hrun. rewrite E in Hrun. rewrite bind_bind in Hrun.
      rewrite (bind_err _ _ _ _ _ Ha) in Hrun. injection Hrun as _ <-.
      exists v. split; [rewrite (proj1 Hm2); exact Hvi|]. rewrite Hd2. apply c16_rel_refl.
    + pose proof (alloc_files_of_effect vi v fsz None sA c s2 HpreA Hwf
                    ltac:(intros p Ep; discriminate Ep) Ha) as AF.
      destruct (af_range _ _ _ _ _ _ _ AF) as (R1 & R2 & R3).
      destruct (af_vol _ _ _ _ _ _ _ AF) as (nf & fc & Evols & Hpre2).
      set (v' := vol_rebook v nf fc) in *.
      destruct (c16_rel_alloc vi v fsz None false sA c s2 HpreA Hfit
                  ltac:(intros p Ep; discriminate Ep) Ha) as (v2 & Hv2 & Hrel2 & _).
      assert (Ev2 : v2 = v').
      { rewrite Evols in Hv2. change (s_vols sA) with (s_vols s) in Hv2.
        rewrite (PrRw.nth_error_list_set_same _ _ _ _ Hvi) in Hv2. injection Hv2 as <-. reflexivity. }
      subst v2.
      set (fB := set_f_entry fA (set_e_cluster (f_entry fA) c)).
      set (sC := PrRw.upd_file s2 fi fB).
      assert (Hfi2 : nth_error (s_files s2) fi = Some fA) by (rewrite (af_files _ _ _ _ _ _ _ AF); exact HfiA).
      assert (HfiC : nth_error (s_files sC) fi = Some fB) by (cbn; eapply PrRw.nth_error_list_set_same; exact Hfi2).
      assert (HvolC : find_idx (fun w => v_id w =? f_vol fB) (s_vols sC) 0 = Some vi).
      { cbn [sC PrRw.upd_file s_vols set_s_files]. rewrite Evols. apply (find_vol_set _ _ _ v); [exact Hvol|exact Hvi|reflexivity]. }
      assert (Hreset : reset_cursor fB = set_f_cur_cluster (set_f_cur_off fB 0) c).
      { unfold reset_cursor. change (f_cur_cluster fB) with (f_cur_cluster f).
        change (e_cluster (f_entry fB)) with c.
        replace (f_cur_cluster f <? c) with true by (symmetry; apply N.ltb_lt; clear - A3 R1; lia).
        reflexivity. }
      set (fD := set_f_cur_cluster (set_f_cur_off fB 0) c) in *.
      cbn [length] in Hsize.
      assert (E0 : e_size (f_entry f) = 0) by (clear - Hsize; lia).
      assert (Pinv : wl_inv fsz vi fi c v' [c] fD (PrRw.upd_file sC fi fD)).
      { constructor.
        - exact Hpre2.
        - exact Hfit.
        - exact Hspc.
        - exact (af_wf _ _ _ _ _ _ _ AF).
        - exists 1%nat. unfold v'. rewrite chain_of_rebook.
          exact (PrWrite.chain_single _ _ _ _ R1 R2 (af_new _ _ _ _ _ _ _ AF)).
        - cbn. rewrite list_set_twice. eapply PrRw.nth_error_list_set_same. exact Hfi2.
        - reflexivity.
        - exists 0%nat. split; reflexivity.
        - exact Hoff.
        - change (e_size (f_entry fD)) with (e_size (f_entry f)). rewrite E0. clear. lia. }
      unfold mw_first in Hrun. rewrite E in Hrun. rewrite bind_bind in Hrun. rewrite (bind_ok _ _ _ _ _ Ha) in Hrun.
      rewrite bind_bind in Hrun. rewrite (bind_ok _ _ _ _ _ (get_file_some fi fA s2 Hfi2)) in Hrun.
      rewrite put_file_ok' in Hrun. fold fB in Hrun. fold sC in Hrun.
      rewrite (mw_rest_run fi data sC fB vi HfiC HvolC) in Hrun. cbv zeta in Hrun. rewrite Hreset in Hrun.
      change (f_offset fD) with (f_offset f) in Hrun. fold tw in Hrun.
      destruct (c16_loop_tail fsz vi fi c _ _ v' [c] fD (PrRw.upd_file sC fi fD) o s' Pinv
                  ltac:(change (f_offset fD) with (f_offset f); rewrite Hclip; exact HtwM) Hrun)
        as (vf & Hvf & Hrel).
      exists vf. split; [exact Hvf|]. exact (c16_rel_trans fsz _ _ _ _ _ _ Hrel2 Hrel).
Qed.

(* ================================================================== 5. Write, IoWrite *)
Lemma c16_mgr_write_full fsz vid s h data fi f : fs_inv fsz vid s -> PrSeek.resolves s h fi f ->
  forall o s', mgr_write h data s = (o, s') -> c16_full fsz s s'.
Proof.
  intros Hinv Hr o s' Hrun.
  destruct (gw_mgr_write fsz vid s h data fi f Hinv Hr o s' Hrun) as (_ & _ & _ & (w & w' & Ew & Ew' & _) & _).
  destruct Hinv as (vi & v & bl & rch & T & Hat).
  pose proof (gw_mw_pre fsz vid s vi v bl rch T Hat h fi f Hr) as Hmw.
  pose proof (fi_single _ _ _ _ _ _ _ _ Hat) as Ev.
  destruct (c16_mgr_write fsz h data s fi f vi v _ o s' Hmw Hrun) as (v' & Hv' & Hrel).
  rewrite (gw_vi0 fsz vid s vi v bl rch T Hat) in Hv'. rewrite Ew' in Hv'. cbn [nth_error] in Hv'.
  injection Hv' as ->. exact (c16_conclude fsz s s' v v' Ev Ew' Hrel).
Qed.

Theorem step_c16x_Write fsz vid h data : step_c16x fsz vid (Write h data).
Proof.
  intros s r s' Hinv _ _ Hs. pose proof (fs_inv_lock fsz vid s Hinv) as Hl.
  destruct (file_handle_cases s h Hl) as [(fi & f & Hr)|Hno].
  - cbn [step] in Hs. unfold lift, bind in Hs. destruct (mgr_write h data s) as [o s1] eqn:Hrun.
    pose proof (c16_mgr_write_full fsz vid s h data fi f Hinv Hr o s1 Hrun) as K.
    destruct o as [u|e| |]; injection Hs as _ <-; exact K.
  - destruct (PrHandles.C08_stale_file_handle h s Hl Hno) as (_ & E & _).
    rewrite (E data) in Hs. injection Hs as <- <-. apply c16_same.
Qed.

Theorem step_c16x_IoWrite fsz vid h data : step_c16x fsz vid (IoWrite h data).
Proof.
  intros s r s' Hinv _ _ Hs. pose proof (fs_inv_lock fsz vid s Hinv) as Hl.
  cbn [step] in Hs. unfold io_write in Hs. destruct data as [|x t] eqn:Edata.
  { unfold lift, bind, ret in Hs. injection Hs as <- <-. apply c16_same. }
  rewrite <- Edata in Hs. assert (Hne : data <> []) by (rewrite Edata; discriminate). clear x t Edata.
  destruct (file_handle_cases s h Hl) as [(fi & f & Hr)|Hno].
  - unfold lift, bind in Hs. destruct (mgr_write h data s) as [o s1] eqn:Hrun.
    pose proof (c16_mgr_write_full fsz vid s h data fi f Hinv Hr o s1 Hrun) as K.
    destruct o as [u|e| |]; injection Hs as _ <-; exact K.
  - destruct (PrHandles.C08_stale_file_handle_io h s Hl Hno) as (_ & E & _).
    pose proof (E data Hne) as E'. cbn [step] in E'. unfold io_write in E'.
    destruct data as [|x t]; [contradiction|]. rewrite E' in Hs. injection Hs as <- <-. apply c16_same.
Qed.

(* ---- all operations of this file ---- *)
Definition file_op (o : op) : Prop :=
  match o with
  | Write _ _ | IoWrite _ _ | Read _ _ | IoRead _ _ | Flush _ | CloseFile _ | Length _ | Offset _ | Eof _
  | SeekStart _ _ | SeekCur _ _ | SeekEnd _ _ | IoSeek _ _ _ | HasOpen => True
  | _ => False
  end.

Theorem step_c16x_file_ops fsz vid o : file_op o -> step_c16x fsz vid o.
Proof.
  destruct o; intros H; try destruct H.
  - apply step_c16x_CloseFile.
  - apply step_c16x_Flush.
  - apply step_c16x_Read.
  - apply step_c16x_Write.
  - apply step_c16x_SeekStart.
  - apply step_c16x_SeekCur.
  - apply step_c16x_SeekEnd.
  - apply step_c16x_Length.
  - apply step_c16x_Offset.
  - apply step_c16x_Eof.
  - apply step_c16x_HasOpen.
  - apply step_c16x_IoSeek.
  - apply step_c16x_IoRead.
  - apply step_c16x_IoWrite.
Qed.

(* the obligation of PrC16Def, and the same for the strict hint range and for rec_u32 *)
Theorem step_c16_file_ops fsz vid o : file_op o -> step_c16 fsz vid o.
Proof. intros H. exact (step_c16x_c16 fsz vid o (step_c16x_file_ops fsz vid o H)). Qed.

Theorem step_hint'_file_ops fsz vid o : file_op o ->
  forall s r s', fs_inv fsz vid s -> id_fresh s -> op_known_ok o -> step o s = (r, s') ->
    (hint_inv' s -> hint_inv' s') /\ (rec_u32 s -> rec_u32 s') /\ (forall h0, hint_keep h0 s -> hint_keep h0 s').
Proof. intros H s r s' A B C D. exact (proj2 (step_c16x_file_ops fsz vid o H s r s' A B C D)). Qed.

(* ================================================================== 6. histories *)
Lemma run_ops_cons o rest s : snd (run_ops (o :: rest) s) = snd (run_ops rest (snd (step o s))).
Proof. cbn [run_ops]. destruct (step o s) as [r s1]. cbn [snd]. destruct (run_ops rest s1) as [rs s']. reflexivity. Qed.

(* a state predicate that every operation preserves from states satisfying fs_inv holds after every
   history of in-scope operations inside the handle-id window (as PrGlobalDef.history_ok; fs_inv along
   the way by PrGlobal.all_steps_ok, id_fresh by PrHandles.C08_handles_ok_step) *)
Theorem history_pres fsz vid (P : st -> Prop) :
  (forall o s r s', fs_inv fsz vid s -> id_fresh s -> op_known_ok o -> step o s = (r, s') -> P s -> P s') ->
  forall ops s age, fs_inv fsz vid s -> PrHandles.handles_ok age s ->
    age + N.of_nat (length ops) < U32 - 1 -> Forall op_known_ok ops -> P s ->
    let s' := snd (run_ops ops s) in
    fs_inv fsz vid s' /\ PrHandles.handles_ok (age + N.of_nat (length ops)) s' /\ P s'.
Proof.
  intros Hstep. induction ops as [|o rest IH]; intros s age Hinv Hh Hage Hops HP.
  - cbn [run_ops snd length]. rewrite N.add_0_r. auto.
  - cbv zeta. rewrite run_ops_cons. destruct (step o s) as [r s1] eqn:Es. cbn [snd].
    inversion Hops as [|? ? Ho Hrest]; subst. cbn [length] in Hage |- *.
    assert (Ha1 : age < U32) by (unfold U32 in *; lia).
    assert (Ha2 : age < U32 - 1) by (unfold U32 in *; lia).
    assert (Ha3 : age + 1 + N.of_nat (length rest) < U32 - 1).
    { rewrite Nat2N.inj_succ in Hage. unfold U32 in *. lia. }
    pose proof (handles_ok_fresh age s Ha1 Hh) as Hid.
    destruct (PrGlobal.all_steps_ok fsz vid o s r s1 Hinv Hid Ho Es) as (_ & _ & Hinv1 & _).
    pose proof (PrHandles.C08_handles_ok_step age o s Ha2 (no_remount_ok o (proj1 (proj1 Ho))) Hh) as Hh1.
    rewrite Es in Hh1. cbn [snd] in Hh1.
    specialize (IH s1 (age + 1) Hinv1 Hh1 Ha3 Hrest (Hstep o s r s1 Hinv Hid Ho Es HP)).
    cbv zeta in IH. replace (age + N.of_nat (S (length rest))) with (age + 1 + N.of_nat (length rest)) by lia.
    exact IH.
Qed.

(* the assembly: when every operation satisfies step_c16, each of the four invariants that holds
   before a history holds after it *)
Theorem c16_history fsz vid : (forall o, step_c16 fsz vid o) ->
  forall ops s age, fs_inv fsz vid s -> PrHandles.handles_ok age s ->
    age + N.of_nat (length ops) < U32 - 1 -> Forall op_known_ok ops ->
    let s' := snd (run_ops ops s) in
    (mirror_inv fsz s -> mirror_inv fsz s') /\
    (truthful_inv s -> truthful_inv s') /\
    (unknown_inv s -> unknown_inv s') /\
    (hint_inv s -> hint_inv s').
Proof.
  intros Hall ops s age Hinv Hh Hage Hops. cbv zeta.
  split; [|split; [|split]]; intros H0.
  - refine (proj2 (proj2 (history_pres fsz vid (mirror_inv fsz) _ ops s age Hinv Hh Hage Hops H0))).
    intros o s0 r s1 A B C D. exact (proj1 (Hall o s0 r s1 A B C D)).
  - refine (proj2 (proj2 (history_pres fsz vid truthful_inv _ ops s age Hinv Hh Hage Hops H0))).
    intros o s0 r s1 A B C D. exact (proj1 (proj2 (Hall o s0 r s1 A B C D))).
  - refine (proj2 (proj2 (history_pres fsz vid unknown_inv _ ops s age Hinv Hh Hage Hops H0))).
    intros o s0 r s1 A B C D. exact (proj1 (proj2 (proj2 (Hall o s0 r s1 A B C D)))).
  - refine (proj2 (proj2 (history_pres fsz vid hint_inv _ ops s age Hinv Hh Hage Hops H0))).
    intros o s0 r s1 A B C D. exact (proj2 (proj2 (proj2 (Hall o s0 r s1 A B C D)))).
Qed.

(* ... and then a Flush / CloseFile of a dirty file stores a truthful count (FAT32): the count field
   of the information sector is the number of free entries of the FAT as it is on the medium after
   the call; an unknown count leaves the field as it was before the call; the hint field holds the
   in-memory hint, which is in range *)
Theorem c16_history_flush fsz vid : (forall o, step_c16 fsz vid o) ->
  forall ops s age o h r s2, fs_inv fsz vid s -> PrHandles.handles_ok age s ->
    age + N.of_nat (length ops) + 1 < U32 - 1 -> Forall op_known_ok ops ->
    let s1 := snd (run_ops ops s) in
    (o = Flush h \/ o = CloseFile h) -> step o s1 = (Ok r, s2) ->
    (exists f, In f (s_files s1) /\ f_id f = h /\ f_dirty f = true) ->
    hint_inv s ->
    (truthful_inv s ->
       info_matches s2 /\
       forall v, In v (s_vols s2) -> v_fat32 v = true ->
         le32 (disk_get (s_disk s2) (v_info v)) 488 = N.of_nat (free_entries (s_disk s2) v)) /\
    (unknown_inv s ->
       info_matches s2 /\
       forall v, In v (s_vols s2) -> v_fat32 v = true ->
         le32 (disk_get (s_disk s2) (v_info v)) 488 = le32 (disk_get (s_disk s1) (v_info v)) 488).
Proof.
  intros Hall ops s age o h r s2 Hinv Hh Hage Hops s1 Ho Hs Hex Hhint.
  assert (Hage' : age + N.of_nat (length ops) < U32 - 1) by (clear - Hage; lia).
  destruct (history_pres fsz vid (fun _ => True) (fun _ _ _ _ _ _ _ _ _ => I) ops s age Hinv Hh Hage' Hops I)
    as (Hinv1 & Hh1 & _). fold s1 in Hinv1, Hh1.
  assert (Hid1 : id_fresh s1).
  { apply (handles_ok_fresh (age + N.of_nat (length ops)) s1); [|exact Hh1]. clear - Hage. unfold U32 in *. lia. }
  destruct (c16_history fsz vid Hall ops s age Hinv Hh Hage' Hops) as (_ & Ht & Hu & Hhi). fold s1 in Ht, Hu, Hhi.
  assert (Hok : op_known_ok o) by (destruct Ho as [-> | ->]; repeat split).
  pose proof (Hall o s1 (Ok r) s2 Hinv1 Hid1 Hok Hs) as (_ & Ht2 & _ & _).
  destruct (c16_flush_info fsz vid h o s1 r s2 Ho Hinv1 Hs Hex) as (Ev2 & Hfields).
  split.
  - intros T0. pose proof (Ht T0) as T1.
    split; [exact (stores_record_inv fsz vid h o s1 r s2 Ho Hinv1 Hid1 Hs Hex (or_introl T1) (Hhi Hhint))|].
    intros v Hv E32. pose proof (stores_record_inv fsz vid h o s1 r s2 Ho Hinv1 Hid1 Hs Hex (or_introl T1) (Hhi Hhint) v Hv E32)
      as (M & _).
    exact (M _ (Ht2 T1 v Hv)).
  - intros U0. pose proof (Hu U0) as U1.
    split; [exact (stores_record_inv fsz vid h o s1 r s2 Ho Hinv1 Hid1 Hs Hex (or_intror U1) (Hhi Hhint))|].
    intros v Hv E32. rewrite Ev2 in Hv. destruct (Hfields v Hv E32) as (H488 & _).
    rewrite (U1 v Hv) in H488. exact H488.
Qed.

(* ================================================================== 7. the hypotheses are satisfiable *)
(* PrGlobalDef's example image (FAT16, 100 clusters of 2 blocks, clusters 2..6 in use) with a KNOWN count
   (95 free entries) and hint 7; file B (handle 7, one cluster, size 5) is open for writing.  Writing
   1100 bytes needs a second cluster: cluster 7 is allocated and linked, the count becomes 94 and is
   still truthful, the hint becomes 8. *)
Definition c16x_vol : vol := vol_rebook exd_vol (Some 7) (Some 95).
Definition c16x_state : st := set_s_vols gx_state [c16x_vol].

(* PrGlobalDef.fs_inv_example with any count and any hint >= 2 in the volume record *)
Lemma gx_fs_inv_rebook nf fc : (forall c, nf = Some c -> 2 <= c) ->
  fs_inv 1 0 (set_s_vols gx_state [vol_rebook exd_vol nf fc]).
Proof.
  intros Hnf. set (v0 := vol_rebook exd_vol nf fc). set (st0 := set_s_vols gx_state [v0]).
  assert (Hb : fs_inv_b 5 1 gx_disk v0 [6] = true) by (vm_compute; reflexivity).
  unfold fs_inv_b in Hb. apply andb_true_iff in Hb. destruct Hb as [Hv Hd].
  destruct (vol_inv_b_sound _ _ Hv) as (Hlay & Hdev & HL & Hfit & Hspc & Hinfo).
  destruct (disk_inv_b_sound _ _ _ _ Hd) as (bl & rch & T & Er & Et & Hdi).
  vm_compute in Er. injection Er as <- <-. vm_compute in Et. injection Et as <-.
  assert (Hwf : blocks_wf gx_disk) by (apply gx_disk_wf; reflexivity).
  assert (Hpre : alloc_pre st0 0 v0 1).
  { split; [|split; [exact HL|exact Hnf]].
    split; [intros n H; destruct H|]. split; [intros i H; discriminate H|]. split; [reflexivity|].
    intros k _. apply Hwf. }
  eexists 0%nat, v0, _, _, _. constructor.
  - reflexivity.
  - reflexivity.
  - split; [reflexivity|]. split; [exact Hpre|]. split; [exact Hfit|]. split; [exact Hspc|]. split; [exact Hwf|reflexivity].
  - exact Hlay.
  - exact Hdev.
  - exact Hinfo.
  - replace (pend_of st0 v0) with [6] by (vm_compute; reflexivity). exact Hdi.
  - constructor; [|constructor].
    assert (Efc : fchain (s_disk st0) v0 gx_fileB = [6]) by (vm_compute; reflexivity).
    constructor; rewrite ?Efc.
    + reflexivity.
    + constructor; [split; vm_compute; reflexivity|split; vm_compute; reflexivity|reflexivity|vm_compute; discriminate|].
      change (~ fat_area exd_vol (e_block (f_entry gx_fileB))). apply exd_not_fat. vm_compute. discriminate.
    + eexists _, _. split; [cbn [all_nodes flat_map flatten app In]; right; right; right; left; reflexivity|].
      split; [reflexivity|]. split; [reflexivity|]. split; [reflexivity|].
      right. split; [vm_compute; reflexivity|vm_compute; discriminate].
    + split; reflexivity.
    + left. split; [vm_compute; discriminate|]. split; [exists 5%nat; vm_compute; reflexivity|].
      exists 0%nat. split; reflexivity.
    + vm_compute. discriminate.
    + vm_compute. discriminate.
    + vm_compute. reflexivity.
    + intros _. reflexivity.
  - cbn. repeat constructor; cbn; intuition discriminate.
  - cbn. repeat constructor; cbn; intuition discriminate.
  - constructor; [intros _; left; reflexivity|]. constructor; [|constructor].
    intros _. right. eexists _, _, _.
    split; [cbn [all_nodes flat_map flatten app In]; right; left; reflexivity|reflexivity].
Qed.

Lemma c16x_fs_inv : fs_inv 1 0 c16x_state.
Proof. apply gx_fs_inv_rebook. intros c E. injection E as <-. discriminate. Qed.

Example c16_example :
  fs_inv 1 0 c16x_state /\ mirror_inv 1 c16x_state /\ truthful_inv c16x_state /\ hint_inv' c16x_state /\
  rec_u32 c16x_state /\
  exists s1, step (Write 7 (repeat 65 1100)) c16x_state = (Ok RUnit, s1) /\
    s_vols s1 = [vol_rebook exd_vol (Some 8) (Some 94)] /\
    mirror_inv 1 s1 /\ truthful_inv s1 /\ hint_inv' s1 /\ rec_u32 s1.
Proof.
  assert (Hm : mirror_inv 1 c16x_state) by (intros v [<-|[]] k Hk; reflexivity).
  assert (Ht : truthful_inv c16x_state) by (intros v [<-|[]]; vm_compute; reflexivity).
  assert (Hh : hint_inv' c16x_state).
  { intros v [<-|[]] c E. injection E as <-. split; [discriminate|reflexivity]. }
  assert (Hu : rec_u32 c16x_state).
  { intros v [<-|[]]. split; intros x E; injection E as <-; reflexivity. }
  split; [exact c16x_fs_inv|]. split; [exact Hm|]. split; [exact Ht|]. split; [exact Hh|]. split; [exact Hu|].
  set (s1 := snd (step (Write 7 (repeat 65 1100)) c16x_state)).
  assert (E1 : step (Write 7 (repeat 65 1100)) c16x_state = (Ok RUnit, s1)) by (vm_compute; reflexivity).
  assert (Hfresh : id_fresh c16x_state).
  { intros x Hx Ex. change (s_next_id c16x_state) with 10 in Ex. subst x.
    vm_compute in Hx. intuition discriminate. }
  destruct (step_c16x_Write 1 0 7 (repeat 65 1100) c16x_state _ s1 c16x_fs_inv Hfresh (conj (conj I I) I) E1)
    as ((K1 & K2 & _ & _) & K5 & K6 & _).
  exists s1. split; [exact E1|]. split; [vm_compute; reflexivity|].
  split; [exact (K1 Hm)|]. split; [exact (K2 Ht)|]. split; [exact (K5 Hh)|exact (K6 Hu)].
Qed.

(* a hint one past the last cluster (102 on this 100-cluster volume) can only be a value FOUND AT MOUNT
   (the mount code accepts any hint but 0, 1 and 0xFFFFFFFF); it satisfies PrC16Def.hint_inv but not
   hint_inv'.  No operation produces such a value: a write in place leaves the hint alone, the first
   allocation replaces it by a cluster of the volume (hint_keep). *)
Definition c16y_vol : vol := vol_rebook exd_vol (Some 102) (Some 95).
Definition c16y_state : st := set_s_vols gx_state [c16y_vol].

Example c16_stale_hint_witness :
  fs_inv 1 0 c16y_state /\ hint_inv c16y_state /\ ~ hint_inv' c16y_state /\ hint_keep (Some 102) c16y_state /\
  (exists s1, step (Write 7 [1; 2; 3]) c16y_state = (Ok RUnit, s1) /\ s_vols s1 = [c16y_vol]) /\
  (exists s2, step (Write 7 (repeat 65 1100)) c16y_state = (Ok RUnit, s2) /\
     s_vols s2 = [vol_rebook exd_vol (Some 8) (Some 94)] /\ hint_inv' s2).
Proof.
  split; [apply gx_fs_inv_rebook; intros c E; injection E as <-; discriminate|].
  split; [intros v [<-|[]] c E; injection E as <-; split; [discriminate|reflexivity]|].
  split.
  { intros H. destruct (H c16y_vol (or_introl eq_refl) 102 eq_refl) as (_ & B). vm_compute in B. discriminate B. }
  split; [intros v [<-|[]]; left; reflexivity|].
  split.
  - set (s1 := snd (step (Write 7 [1; 2; 3]) c16y_state)). exists s1.
    split; vm_compute; reflexivity.
  - set (s2 := snd (step (Write 7 (repeat 65 1100)) c16y_state)). exists s2.
    assert (E : s_vols s2 = [vol_rebook exd_vol (Some 8) (Some 94)]) by (vm_compute; reflexivity).
    split; [vm_compute; reflexivity|]. split; [exact E|].
    unfold hint_inv'. rewrite E. intros v [<-|[]] c Ec. injection Ec as <-. split; [discriminate|reflexivity].
Qed.

Print Assumptions step_c16x_file_ops.
Print Assumptions step_c16_file_ops.
Print Assumptions step_hint'_file_ops.
Print Assumptions c16_flush_info.
Print Assumptions stores_record_u32.
Print Assumptions stores_record_inv.
Print Assumptions history_pres.
Print Assumptions c16_history.
Print Assumptions c16_history_flush.
Print Assumptions c16_example.
Print Assumptions c16_stale_hint_witness.
