(* PROOFS: `step_fault` for the operations that never write: clauses (a)-(d) generically (the medium is
   untouched under ANY schedule), the retry clause for Find / Iter (PrFault2.C11_ro_call_state), and the
   statement "the retried lookup returns what the fault-free lookup returns". *)
From Coq Require Import NArith ZArith List Bool Lia Arith FMapPositive.
From SdFs Require Import FsTypes FsBase FsFat FsMgr FsLemmas PrBase PrAllocEffect PrChain PrFault PrGlobalDef.
From SdFs Require PrHandles PrCrash PrGlobal PrCrashAll PrGlobalWrite PrGlobalOpen PrCrashDef3 PrModes PrDir.
From SdFs Require Import PrFault2 PrCrashDef PrCrashDef2 PrCrashDef4 PrFaultDef PrFaultDef2 PrFaultDef3 PrFaultDef4 PrFaultDef5.
Import ListNotations.
Open Scope N_scope.

(* the invariant looks at the device-side bookkeeping only through no_faults and cache_ok *)
Lemma fs_inv_dev fsz vid s s2 :
  fs_inv fsz vid s ->
  s_disk s2 = s_disk s -> s_vols s2 = s_vols s -> s_dirs s2 = s_dirs s -> s_files s2 = s_files s ->
  s_lock s2 = s_lock s -> no_faults s2 -> cache_ok s2 ->
  fs_inv fsz vid s2.
Proof.
  intros (vi & v & bl & rch & T & Hat) Hd Hv Hdi Hf Hl Hnf Hc.
  exists vi, v, bl, rch, T.
  pose proof Hat as [A B C D E F G H I J K].
  apply (fs_inv_at_transport fsz vid s s2 vi v bl rch T Hat Hd Hv Hdi).
  - rewrite Hl. exact (proj1 C).
  - exact Hnf.
  - exact Hc.
  - rewrite Hf. rewrite Forall_forall in *. intros f Hin. exact (ofile_ok_same_disk s s2 v T f Hd (H f Hin)).
  - rewrite Hf. exact I.
  - rewrite Hf. exact J.
  - unfold pend_of. rewrite Hd, Hf. reflexivity.
Qed.

Lemma fs_inv_cache_ok fsz vid s : fs_inv fsz vid s -> cache_ok s.
Proof.
  intros (vi & v & bl & rch & T & Hat).
  exact (proj1 (proj2 (proj2 (proj2 (proj2 (proj2 (proj2 (proj2 (PrGlobalWrite.gw_vol_facts _ _ _ _ _ _ _ _ Hat))))))))).
Qed.

(* ================================================================== 1. the generic part *)
Theorem step_fault_nowrite fsz vid o :
  PrFault.is_mkdir o = false -> not_close_file o ->
  (forall s r s', s_lock s = false -> op_known_ok o -> step o s = (r, s') -> s_disk s' = s_disk s) ->
  (forall s i e s' v, fs_inv fsz vid s -> id_fresh s -> op_known_ok o -> s_vols s = [v] ->
     step o (arm s i) = (Err e, s') -> s_ncalls s + i < s_ncalls s' -> s_disk s' = s_disk s ->
     (retry_op o = true -> retry_ok fsz vid o s s') /\ (read_op o = true -> retry_read_ok fsz vid o s s')) ->
  step_fault fsz vid o.
Proof.
  intros Hm Hn Hdisk Hretry s i r s' v Hinv Hid Hok Hv E Hreach.
  destruct (fault_err o Hm s i r s' E Hreach) as (e & ->).
  pose proof (Hdisk (arm s i) _ s' (fs_inv_lock _ _ _ Hinv) Hok E) as Hd. change (s_disk (arm s i)) with (s_disk s) in Hd.
  destruct (Hretry s i e s' v Hinv Hid Hok Hv E Hreach Hd) as (R1 & R2).
  constructor.
  - eexists; reflexivity.
  - exact (fault_tables o s i e s' (fs_inv_lock _ _ _ Hinv) Hid Hn E).
  - rewrite Hd. exact (fs_inv_crash fsz vid s v Hinv Hv).
  - intros path e0 bytes Hf _. rewrite Hd. exact Hf.
  - exact R1.
  - exact R2.
Qed.

Lemma quiet_disk {A} (m : M A) : PrGlobalWrite.quiet m -> forall s r s', m s = (r, s') -> s_disk s' = s_disk s.
Proof. intros Q s r s' E. exact (proj1 (Q s r s' E)). Qed.

(* a read-only run under the armed fault that was reached leaves a state of the invariant *)
Lemma retry_of_ro fsz vid o s i s' :
  fs_inv fsz vid s -> PrModes.reads_only (arm s i) s' -> cache_ok s' -> s_ncalls s + i < s_ncalls s' ->
  retry_ok fsz vid o s s'.
Proof.
  intros Hinv ((V & D & F & _ & _ & L & _ & _ & _ & Fa) & Hd & _) Hc Hreach.
  change (s_disk (arm s i)) with (s_disk s) in Hd.
  split; [|repeat split; assumption].
  apply (fs_inv_dev fsz vid s s' Hinv Hd V D F L); [|exact Hc].
  apply (passed_no_faults (s_ncalls s + i)). split; [exact Fa|exact Hreach].
Qed.

(* ================================================================== 2. Find *)
Theorem step_fault_Find fsz vid d name : step_fault fsz vid (Find d name).
Proof.
  apply step_fault_nowrite; [reflexivity|exact I| |].
  - intros s r s' _ _ E. cbn [step] in E.
    exact (quiet_disk _ (PrCrashDef3.quiet_lift _ _ (PrCrashDef3.quiet_mgr_find d name)) _ _ _ E).
  - intros s i e s' v Hinv Hid Hok Hv E Hreach Hd. split; [intros _|discriminate].
    destruct (C11_ro_call_state (Find d name) _ _ _ eq_refl E) as (Hro & Hc).
    apply (retry_of_ro fsz vid _ s i s' Hinv Hro); [|exact Hreach].
    apply Hc. exact (fs_inv_cache_ok fsz vid s Hinv).
Qed.

(* ================================================================== 3. Iter *)
Lemma iter_disk d inner s r s' : s_lock s = false -> op_known_ok (Iter d inner) ->
  step (Iter d inner) s = (r, s') -> s_disk s' = s_disk s.
Proof.
  intros Hl ((Hnr & _) & _) E. cbn [step] in E. unfold bind at 1 in E.
  destruct (mgr_iterate d match inner with Some o' => step o' | None => ret RUnit end s) as [r1 s1] eqn:E1.
  assert (Es : s' = s1) by (destruct r1; injection E as _ <-; reflexivity). subst s'. clear E.
  rewrite (proj1 (PrHandles.C08_iterate_holds_lock _ d _ s Hl)) in E1.
  destruct (PrHandles.iter_listing d s) as [o1 t1] eqn:El.
  destruct (ro_iter_listing d _ _ _ El) as (_ & Hd & _).
  unfold PrHandles.iterate_outcome in E1.
  destruct o1 as [[|e0 shown]|e1| |]; try (injection E1 as _ <-; exact Hd).
  assert (Hin : exists r2, match inner with Some o' => step o' | None => ret RUnit end (set_s_lock t1 true)
                           = (r2, set_s_lock t1 true)).
  { destruct inner as [o'|]; [|eexists; reflexivity].
    destruct (PrGlobalOpen.locked_step o' (set_s_lock t1 true) eq_refl Hnr) as (r2 & H2 & _). exists r2. exact H2. }
  destruct Hin as (r2 & Hin). rewrite Hin in E1.
  destruct r2; injection E1 as _ <-; exact Hd.
Qed.

Theorem step_fault_Iter fsz vid d inner : step_fault fsz vid (Iter d inner).
Proof.
  apply step_fault_nowrite; [reflexivity|exact I| |].
  - intros s r s' Hl Hok E. exact (iter_disk d inner s r s' Hl Hok E).
  - intros s i e s' v Hinv Hid Hok Hv E Hreach Hd. split; [|discriminate].
    destruct inner as [o'|]; [discriminate|]. intros _.
    destruct (C11_ro_call_state (Iter d None) _ _ _ eq_refl E) as (Hro & Hc).
    apply (retry_of_ro fsz vid _ s i s' Hinv Hro); [|exact Hreach].
    apply Hc. exact (fs_inv_cache_ok fsz vid s Hinv).
Qed.

(* ================================================================== 4. OpenDir *)
(* the part of the state the retry clause speaks about *)
Definition frame (s s' : st) : Prop :=
  s_vols s' = s_vols s /\ s_dirs s' = s_dirs s /\ s_files s' = s_files s /\ s_lock s' = s_lock s /\
  s_disk s' = s_disk s /\ s_faults s' = s_faults s.
Lemma frame_refl s : frame s s. Proof. repeat split. Qed.
Lemma ro_frame s s' : PrModes.reads_only s s' -> frame s s'.
Proof. intros ((V & D & F & _ & _ & L & _ & _ & _ & Fa) & Hd & _). repeat split; assumption. Qed.

Lemma open_dir_err_frame d name s e s' : s_lock s = false ->
  open_dir d name s = (Err e, s') -> frame s s'.
Proof.
  intros Hl E. unfold open_dir in E. rewrite (PrHandles.locked_free _ s Hl), PrHandles.bind_get in E.
  destruct (is_full (s_dirs s) (s_maxd s)) eqn:Hfull; [injection E as _ <-; apply frame_refl|].
  unfold bind at 1 in E. rewrite PrHandles.get_dir_by_id_eq in E.
  destruct (find_idx _ _ _) as [pi|]; [|injection E as _ <-; apply frame_refl].
  unfold bind at 1 in E. rewrite PrHandles.get_dir_eq in E.
  destruct (nth_error (s_dirs s) pi) as [pd|]; [|discriminate].
  unfold bind at 1 in E. rewrite PrHandles.get_volume_by_id_eq in E.
  destruct (find_idx _ _ _) as [vi|]; [|injection E as _ <-; apply frame_refl].
  unfold bind at 1 in E. rewrite PrHandles.get_vol_eq in E.
  destruct (nth_error (s_vols s) vi) as [v|]; [|discriminate].
  destruct (sfn_of_str name) as [sfn|]; [|injection E as _ <-; apply frame_refl].
  assert (Hpush : forall s1 cl, s_dirs s1 = s_dirs s -> s_maxd s1 = s_maxd s ->
            (id <- generate ;; push_dir (mk_dirinfo id (v_id v) cl) ;;; ret id) s1 <> (Err e, s')).
  { intros s1 cl Hd Hm. unfold generate, push_dir, bind, get, modify, ret, fail.
    cbn [s_dirs s_maxd set_s_next_id]. rewrite Hd, Hm, Hfull. discriminate. }
  destruct (list_eqb sfn THIS_DIR_NAME).
  { exfalso. exact (Hpush s _ eq_refl eq_refl E). }
  unfold bind at 1 in E.
  destruct (find_directory_entry vi (d_cluster pd) sfn s) as [[e1|e1| |] s1] eqn:Ef; try discriminate.
  - pose proof (PrModes.find_directory_entry_reads_only _ _ _ _ _ _ Ef) as Hro.
    destruct (negb (is_directory (e_attr e1))); [injection E as _ <-; exact (ro_frame _ _ Hro)|].
    exfalso. destruct Hro as ((V & D & F & _ & _ & L & _ & Md & _) & _). exact (Hpush s1 _ D Md E).
  - injection E as _ <-. exact (ro_frame _ _ (PrModes.find_directory_entry_reads_only _ _ _ _ _ _ Ef)).
Qed.

Lemma retry_of_frame fsz vid o s i s' :
  fs_inv fsz vid s -> frame (arm s i) s' -> cache_ok s' -> s_ncalls s + i < s_ncalls s' ->
  retry_ok fsz vid o s s'.
Proof.
  intros Hinv (V & D & F & L & Hd & Fa) Hc Hreach.
  split; [|repeat split; assumption].
  apply (fs_inv_dev fsz vid s s' Hinv Hd V D F L); [|exact Hc].
  apply (passed_no_faults (s_ncalls s + i)). split; [exact Fa|exact Hreach].
Qed.

Lemma lift_err_inv {A} (f : A -> res) (m : M A) s e s' : lift f m s = (Err e, s') -> m s = (Err e, s').
Proof. unfold lift, bind, ret. destruct (m s) as [[a|e1| |] s1]; intros E; inversion E; subst; reflexivity. Qed.

Theorem step_fault_OpenDir fsz vid d name : step_fault fsz vid (OpenDir d name).
Proof.
  apply step_fault_nowrite; [reflexivity|exact I| |].
  - intros s r s' _ _ E. cbn [step] in E.
    exact (quiet_disk _ (PrCrashDef3.quiet_lift _ _ (PrCrashDef3.quiet_open_dir d name)) _ _ _ E).
  - intros s i e s' v Hinv Hid Hok Hv E Hreach Hd. split; [intros _|discriminate].
    pose proof (C11_open_dir_cache d name _ _ _ E (fs_inv_cache_ok fsz vid s Hinv)) as Hc.
    cbn [step] in E. apply lift_err_inv in E.
    exact (retry_of_frame fsz vid _ s i s' Hinv (open_dir_err_frame d name (arm s i) e s' (fs_inv_lock _ _ _ Hinv) E) Hc Hreach).
Qed.

(* ================================================================== 5. Read, IoRead: clauses (a)-(d) *)
(* the retry clause of a failed Read (the invariant with an advanced cursor) is a separate obligation *)
Theorem step_fault_Read_of fsz vid h n :
  (forall s i e s' v, fs_inv fsz vid s -> id_fresh s -> s_vols s = [v] ->
     step (Read h n) (arm s i) = (Err e, s') -> s_ncalls s + i < s_ncalls s' -> s_disk s' = s_disk s ->
     retry_read_ok fsz vid (Read h n) s s') ->
  step_fault fsz vid (Read h n).
Proof.
  intros Hr. apply step_fault_nowrite; [reflexivity|exact I| |].
  - intros s r s' _ _ E. cbn [step] in E.
    exact (quiet_disk _ (PrCrashDef3.quiet_lift _ _ (PrGlobalWrite.quiet_mgr_read h n)) _ _ _ E).
  - intros s i e s' v Hinv Hid Hok Hv E Hreach Hd. split; [discriminate|intros _].
    exact (Hr s i e s' v Hinv Hid Hv E Hreach Hd).
Qed.
Theorem step_fault_IoRead_of fsz vid h n :
  (forall s i e s' v, fs_inv fsz vid s -> id_fresh s -> s_vols s = [v] ->
     step (IoRead h n) (arm s i) = (Err e, s') -> s_ncalls s + i < s_ncalls s' -> s_disk s' = s_disk s ->
     retry_read_ok fsz vid (IoRead h n) s s') ->
  step_fault fsz vid (IoRead h n).
Proof.
  intros Hr. apply step_fault_nowrite; [reflexivity|exact I| |].
  - intros s r s' _ _ E. cbn [step] in E.
    exact (quiet_disk _ (PrCrashDef3.quiet_lift _ _ (PrCrashDef3.quiet_io_read h n)) _ _ _ E).
  - intros s i e s' v Hinv Hid Hok Hv E Hreach Hd. split; [discriminate|intros _].
    exact (Hr s i e s' v Hinv Hid Hv E Hreach Hd).
Qed.

(* ================================================================== 6. Label *)
Lemma label_err_frame h s e s' : s_lock s = false -> id_fresh s ->
  get_root_volume_label h s = (Err e, s') -> frame s s' /\ (cache_ok s -> cache_ok s').
Proof.
  intros Hl Hfr E. unfold get_root_volume_label in E. rewrite (PrHandles.locked_free _ s Hl) in E.
  unfold bind at 1 in E. rewrite PrHandles.get_volume_by_id_eq in E.
  destruct (find_idx _ _ _) as [vi|]; [|injection E as _ <-; split; [apply frame_refl|auto]].
  unfold bind at 1 in E. rewrite PrHandles.get_vol_eq in E.
  destruct (nth_error (s_vols s) vi) as [vv|]; [|discriminate].
  destruct (trim_rev (rev (v_name vv))); [|discriminate].
  unfold bind at 1 in E. rewrite (open_root_dir_eq h s Hl) in E.
  destruct (is_full (s_dirs s) (s_maxd s)).
  { injection E as _ <-. split; [repeat split|auto]. }
  set (rd := s_next_id s) in *.
  set (s1 := set_s_dirs (set_s_next_id s ((s_next_id s + 1) mod U32)) (s_dirs s ++ [mk_dirinfo rd h CL_ROOT])) in *.
  assert (E' : (r0 <- try (mgr_iterate rd (ret tt)) ;;
                _ <- try (close_dir rd) ;;
                match r0 with
                | inr e => fail e
                | inl (es, _) => match filter (fun e => e_attr e =? A_VOLUME) es with
                                 | e :: _ => ret (Some (e_name e)) | [] => ret None end
                end) s1 = (Err e, s')).
  { exact E. }
  clear E. unfold bind at 1 in E'. unfold try at 1 in E'.
  destruct (mgr_iterate rd (ret tt) s1) as [o2 s2] eqn:E2.
  assert (Hl1 : s_lock s1 = false) by exact Hl.
  assert (Hs2 : frame s1 s2 /\ (cache_ok s1 -> cache_ok s2)).
  { rewrite (proj1 (PrHandles.C08_iterate_holds_lock _ rd (ret tt) s1 Hl1)) in E2.
    destruct (PrHandles.iter_listing rd s1) as [o1 t1] eqn:E1.
    pose proof (ro_frame _ _ (ro_iter_listing rd _ _ _ E1)) as Hk.
    pose proof (cok_iter_listing rd _ _ _ E1) as Hck.
    unfold PrHandles.iterate_outcome, ret in E2.
    destruct o1 as [[|e0 shown]|e1| |]; injection E2 as <- <-; try (split; [exact Hk|exact Hck]).
    destruct Hk as (K1 & K2 & K3 & K4 & K5 & K6). split.
    - repeat split; try assumption. cbn [s_lock set_s_lock]. symmetry. exact Hl1.
    - intros Hc j Hj. exact (Hck Hc j Hj). }
  destruct Hs2 as ((K1 & K2 & K3 & K4 & K5 & K6) & Hck).
  assert (Hclose : forall (x : (list dirent * option (unit + err)) + err) ss,
            (_ <- try (close_dir rd) ;;
             match x with
             | inr e => fail e
             | inl (es, _) => match filter (fun e => e_attr e =? A_VOLUME) es with
                              | e :: _ => ret (Some (e_name e)) | [] => ret None end
             end) s2 = (Err e, ss) -> frame s ss /\ (cache_ok s -> cache_ok ss)).
  { intros x ss Ex.
    assert (Hl2 : s_lock s2 = false) by congruence.
    unfold bind at 1 in Ex. unfold try in Ex. unfold close_dir in Ex. rewrite (PrHandles.locked_free _ s2 Hl2) in Ex.
    unfold bind at 1 in Ex. rewrite PrHandles.get_dir_by_id_eq in Ex.
    assert (Hd2 : s_dirs s2 = s_dirs s ++ [mk_dirinfo rd h CL_ROOT]) by (rewrite K2; reflexivity).
    assert (Hfind : find_idx (fun d0 => d_id d0 =? rd) (s_dirs s2) 0 = Some (length (s_dirs s))).
    { rewrite Hd2. rewrite (find_idx_app_fresh _ (s_dirs s) _ 0%nat); [reflexivity| |apply N.eqb_refl].
      intros y Hy. apply N.eqb_neq. intros Ey. apply (Hfr rd); [|reflexivity].
      unfold PrHandles.all_ids. apply in_or_app. right. apply in_or_app. left.
      unfold PrHandles.dids. rewrite <- Ey. apply in_map. exact Hy. }
    rewrite Hfind in Ex. unfold modify at 1 in Ex.
    set (s3 := set_s_dirs s2 (swap_remove (s_dirs s2) (length (s_dirs s)))) in *.
    assert (Hk : frame s s3 /\ (cache_ok s -> cache_ok s3)).
    { split.
      - unfold frame, s3. cbn [s_lock s_vols s_dirs s_files s_disk s_faults set_s_dirs].
        rewrite Hd2, swap_remove_last. repeat split; try assumption; congruence.
      - intros Hc j Hj. exact (Hck Hc j Hj). }
    destruct x as [[es o3]|e1]; [destruct (filter _ es)|]; injection Ex as _ <-; exact Hk. }
  destruct o2 as [a|e1| |].
  - exact (Hclose (inl a) _ E').
  - exact (Hclose (inr e1) _ E').
  - discriminate.
  - discriminate.
Qed.

Theorem step_fault_Label fsz vid h : step_fault fsz vid (Label h).
Proof.
  apply step_fault_nowrite; [reflexivity|exact I| |].
  - intros s r s' _ _ E. cbn [step] in E.
    exact (quiet_disk _ (PrCrashDef3.quiet_lift _ _ (PrCrashDef3.quiet_get_root_volume_label h)) _ _ _ E).
  - intros s i e s' v Hinv Hid Hok Hv E Hreach Hd. split; [intros _|discriminate].
    cbn [step] in E. apply lift_err_inv in E.
    destruct (label_err_frame h (arm s i) e s' (fs_inv_lock _ _ _ Hinv) Hid E) as (Hf & Hc).
    exact (retry_of_frame fsz vid _ s i s' Hinv Hf (Hc (fs_inv_cache_ok fsz vid s Hinv)) Hreach).
Qed.

Print Assumptions step_fault_Find.
Print Assumptions step_fault_Iter.
Print Assumptions step_fault_OpenDir.
Print Assumptions step_fault_Label.
Print Assumptions step_fault_Read_of.
