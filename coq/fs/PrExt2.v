(* PROOFS about the second part of the API model (FsExt.v), part 2: the extended operations under the
   global invariant fs_inv (PrGlobalDef).

   1  T4  iterate_dir_lfn never panics and never runs out of fuel (mgr_iterate_lfn_total); it is "quiet"
   2  T5  xstep_ok: every extended operation keeps the invariant (the analogue of step_ok)
          + Directory::change_dir: the .unwrap() of close_dir cannot fail
   3  T6  handles over extended operations; xhistory_ok; C03x / C04x / C05x for whole histories
   4  T7  C02_drop_is_close: a dropped file is flushed exactly like a closed one
   5  examples *)
From Coq Require Import NArith ZArith List Bool Lia Arith FMapPositive Permutation.
From SdFs Require Import FsTypes FsBase FsFat FsMgr FsExt FsLemmas PrBase PrFat PrAlloc PrDir PrChain PrCount PrWf PrOpenClose.
From SdFs Require PrHandles PrOrder PrBounds PrSeek PrModes.
From SdFs Require Import PrGlobalDef PrGlobalWrite PrGlobalOpen PrGlobal.
From SdFs Require PrContentDef PrContentWrite.
From SdLfn Require LfnModel LfnSpec LfnListing.
From SdFs Require Import PrExt.
Import ListNotations.
Open Scope N_scope.
Local Arguments N.mul : simpl never.
Local Arguments N.add : simpl never.
Local Arguments N.sub : simpl never.
Local Arguments N.div : simpl never.
Local Arguments N.modulo : simpl never.
Local Arguments N.land : simpl never.
Local Arguments N.lor : simpl never.

(* ================================================================== 0. the conclusion of step_ok, for any result type *)
Definition step_post {R} (fsz vid : N) (s : st) (r : outcome R) (s' : st) : Prop :=
  r <> Panic /\ r <> OutOfFuel /\ fs_inv fsz vid s' /\ same_geo s s' /\
  exists ws, PrOrder.tsteps s s' ws /\ forall v, In v (s_vols s) -> Forall (PrBounds.in_region v fsz) ws.

Lemma step_ok_post fsz vid o : step_ok fsz vid o ->
  forall s r s', fs_inv fsz vid s -> id_fresh s -> op_known_ok o -> step o s = (r, s') -> step_post fsz vid s r s'.
Proof. intros H. exact H. Qed.

Lemma step_post_retag {R R'} fsz vid s (r : outcome R) (r' : outcome R') s' :
  step_post fsz vid s r s' -> r' <> Panic -> r' <> OutOfFuel -> step_post fsz vid s r' s'.
Proof. intros (_ & _ & H) R1 R2. split; [exact R1|]. split; [exact R2|exact H]. Qed.

Lemma quiet_post {R} fsz vid s (r : outcome R) s' : fs_inv fsz vid s -> r <> Panic -> r <> OutOfFuel ->
  quiet fsz vid s s' -> step_post fsz vid s r s'.
Proof.
  intros Hinv R1 R2 (A & B & C). split; [exact R1|]. split; [exact R2|]. split; [exact A|].
  destruct (fs_inv_vols fsz vid s Hinv) as (v & Ev & _). split.
  - exists v, v. split; [exact Ev|]. split; [rewrite B; exact Ev|apply geo_eq_refl].
  - exists []. split; [exact C|]. intros v0 _. constructor.
Qed.

Lemma step_post_quiet {R} fsz vid s (r : outcome R) s1 s2 :
  step_post fsz vid s r s1 -> quiet fsz vid s1 s2 -> step_post fsz vid s r s2.
Proof.
  intros (R1 & R2 & _ & (v & v1 & Ev & Ev1 & G) & ws & Ht & Hw) (A & B & C).
  split; [exact R1|]. split; [exact R2|]. split; [exact A|]. split.
  - exists v, v1. split; [exact Ev|]. split; [rewrite B; exact Ev1|exact G].
  - exists ws. split; [|exact Hw]. rewrite <- (app_nil_r ws). exact (PrOrder.tsteps_trans _ _ _ _ _ Ht C).
Qed.

Lemma lift_run {A} (f : A -> res) (m : M A) s : lift f m s = (omap f (fst (m s)), snd (m s)).
Proof. unfold lift, bind. destruct (m s) as [[a|e| |] s1]; reflexivity. Qed.
Lemma xlift_run {A} (f : A -> xres) (m : M A) s : xlift f m s = (omap f (fst (m s)), snd (m s)).
Proof. unfold xlift, bind. destruct (m s) as [[a|e| |] s1]; reflexivity. Qed.

Lemma omap_panic {A B} (f : A -> B) o : omap f o = Panic <-> o = Panic.
Proof. destruct o; cbn; split; intros; try discriminate; reflexivity. Qed.
Lemma omap_oof {A B} (f : A -> B) o : omap f o = OutOfFuel <-> o = OutOfFuel.
Proof. destruct o; cbn; split; intros; try discriminate; reflexivity. Qed.

(* ================================================================== 1. T4: iterate_dir_lfn is total and quiet *)
(* the closure never panics on what the walk delivers - whatever the bytes, whatever the buffer size *)
Lemma lfn_fold_total_any raw st : Forall raw_wf raw -> exists l, lfn_fold raw LfnModel.Waiting st = Some l.
Proof.
  intros Hraw. destruct (lfn_fold raw LfnModel.Waiting st) as [l|] eqn:E; [exists l; reflexivity|].
  apply (lfn_fold_none_iff raw _ _ Hraw) in E.
  destruct (LfnListing.listing_total (map snd raw) st) as (outs & Eo & _).
  unfold LfnModel.listing in Eo. rewrite E in Eo. discriminate.
Qed.
Lemma lfn_fold_total raw nbytes : Forall raw_wf raw ->
  exists l, lfn_fold raw LfnModel.Waiting (lfn_buf nbytes) = Some l.
Proof. apply lfn_fold_total_any. Qed.

Lemma mgr_iterate_lfn_quiet fsz vid d n : qm fsz vid (mgr_iterate_lfn d n).
Proof.
  intros s o s' Hinv E. pose proof (fs_inv_lock fsz vid s Hinv) as Hl.
  rewrite (mgr_iterate_lfn_eq d n s Hl) in E.
  destruct (mgr_iterate d (ret tt) s) as [o2 s2] eqn:E2.
  destruct (qm_mgr_iterate_plain fsz vid d s o2 s2 Hinv E2) as (R1 & R2 & Q).
  rewrite (mgr_iterate_plain_eq d s Hl) in E2.
  destruct (raw_listing d s) as [[raw|e| |] s1] eqn:Er; cbn [lfn_outcome] in E.
  - injection E2 as _ <-.
    destruct (lfn_fold_total raw n (raw_listing_wf _ _ _ _ Er)) as (l & El). unfold lfn_buf in *. rewrite El in E.
    injection E as <- <-. split; [discriminate|]. split; [discriminate|exact Q].
  - injection E2 as _ <-. injection E as <- <-. split; [discriminate|]. split; [discriminate|exact Q].
  - injection E2 as <- _. contradiction.
  - injection E2 as <- _. contradiction.
Qed.

(* T4.  From every state of the invariant (one mounted volume, no device faults), for every
   directory handle value and every buffer size, iterate_dir_lfn neither panics nor runs out of
   fuel - the directory may hold ANY bytes in its long-name slots. *)
Theorem mgr_iterate_lfn_total : forall fsz vid d n s, fs_inv fsz vid s ->
  fst (mgr_iterate_lfn d n s) <> Panic /\ fst (mgr_iterate_lfn d n s) <> OutOfFuel.
Proof.
  intros fsz vid d n s Hinv. destruct (mgr_iterate_lfn d n s) as [o s'] eqn:E.
  destruct (mgr_iterate_lfn_quiet fsz vid d n s o s' Hinv E) as (R1 & R2 & _). split; assumption.
Qed.

(* END TO END under the invariant.  A directory handle is stale or foreign (BadHandle, nothing
   happens), or it names a directory of the tree with blocks bl', and then iterate_dir_lfn succeeds
   and reports exactly what LfnModel.listing - the object of the C17 theorems - reports for the slots
   of bl' on the medium, next to the decoded entries; the entries are those iterate_dir shows *)
Theorem C17x_iterate_lfn_inv : forall fsz vid s vi v bl rch T d n, fs_inv_at fsz vid s vi v bl rch T ->
  mgr_iterate_lfn d n s = (Err BadHandle, s) \/
  exists di dd bl' l s',
    PrModes.resolves s d di dd 0 v /\ dir_blocks (s_disk s) v (d_cluster dd) = Some bl' /\
    mgr_iterate_lfn d n s = (Ok l, s') /\
    LfnModel.listing (map snd (slots_of (s_disk s) bl')) (lfn_buf n)
      = LfnModel.Ok (map (fun r : lfn_report => (e_name (fst r), snd r)) l) /\
    map fst l = filter (fun e => negb (is_lfn (e_attr e)))
                  (map (t_entry (v_fat32 v)) (filter t_is_valid (before_end_all (slots_of (s_disk s) bl')))) /\
    s_disk s' = s_disk s /\ cache_ok s' /\ no_faults s' /\ same_mgr s s'.
Proof.
  intros fsz vid s vi v bl rch T d n Hat.
  destruct (go_facts _ _ _ _ _ _ _ _ Hat) as (Hl & Hnf & Hc & _ & _ & Hv0 & Hv & _).
  destruct (dir_resolve _ _ _ _ _ _ _ _ d Hat) as [Hno|di dd H1 H2 Hne H3|di dd Hres Hvol Hdir Hdd].
  - left. rewrite (mgr_iterate_lfn_eq d n s Hl). unfold raw_listing.
    rewrite (bind_err _ _ _ _ _ (PrHandles.get_dir_by_id_stale d s Hno)). reflexivity.
  - left. rewrite (mgr_iterate_lfn_eq d n s Hl). unfold raw_listing.
    rewrite (bind_ok _ _ _ _ _ H1), (bind_ok _ _ _ _ _ H2), (bind_err _ _ _ _ _ H3). reflexivity.
  - right. destruct (dir_ctx_of _ _ _ _ _ _ _ _ (d_cluster dd) Hat Hdir) as (bl' & parent & kids & Hctx).
    pose proof Hres as (_ & H1 & H2 & H3 & _).
    destruct (C17x_iterate_lfn_listing d n s di dd 0%nat v bl' Hl H1 H2 H3 Hv0 Hv Hnf Hc (dx_blocks _ _ _ _ _ _ _ _ Hctx))
      as (l & s' & E & Hlist & Hent & Hrest).
    exists di, dd, bl', l, s'. split; [exact Hres|]. split; [exact (dx_blocks _ _ _ _ _ _ _ _ Hctx)|].
    split; [exact E|]. split; [exact Hlist|]. split; [exact Hent|exact Hrest].
Qed.

(* ================================================================== 2. T5: every extended operation keeps the invariant *)
(* the scope of an extended operation (static part) ... *)
Definition xop_scope_ok (o : xop) : Prop :=
  match o with
  | XOp o' => op_known_ok o'
  | XDropVol _ => False                       (* like CloseVol: the invariant is about ONE MOUNTED volume *)
  | XChangeDir _ name => e5_name name = false (* D29, as for OpenDir *)
  | _ => True
  end.
(* ... and the part evaluated in the state the operation runs in: a File wrapper owns an open handle *)
Definition xop_guard (o : xop) (s : st) : Prop :=
  match o with
  | XWEof f | XWLength f | XWOffset f => In f (map f_id (s_files s))
  | _ => True
  end.

Definition xstep_ok (fsz vid : N) (o : xop) : Prop :=
  forall s r s', fs_inv fsz vid s -> id_fresh s -> xop_scope_ok o -> xop_guard o s -> xstep o s = (r, s') ->
    r <> Panic /\ r <> OutOfFuel /\ fs_inv fsz vid s' /\ same_geo s s' /\
    exists ws, PrOrder.tsteps s s' ws /\ forall v, In v (s_vols s) -> Forall (PrBounds.in_region v fsz) ws.

(* ---- Directory::change_dir: the unwrap cannot fail ---- *)
Lemma open_dir_ok_parent d name s h s1 : open_dir d name s = (Ok h, s1) ->
  s_lock s = false /\ In d (PrHandles.dids s).
Proof.
  intros E. unfold open_dir in E. destruct (s_lock s) eqn:Hl; [rewrite (PrHandles.locked_held _ s Hl) in E; discriminate|].
  split; [reflexivity|]. rewrite (PrHandles.locked_free _ s Hl), PrHandles.bind_get in E.
  destruct (is_full (s_dirs s) (s_maxd s)); [discriminate|].
  apply xbind_ok_inv in E. destruct E as (di & s2 & E0 & _).
  rewrite PrHandles.get_dir_by_id_eq in E0.
  destruct (find_idx (fun x => d_id x =? d) (s_dirs s) 0) as [i|] eqn:Ef; [|discriminate].
  apply PrHandles.find_idx_some in Ef. destruct Ef as (_ & _ & x & Hx & Hp). apply N.eqb_eq in Hp.
  unfold PrHandles.dids. rewrite <- Hp. apply in_map. exact (nth_error_In _ _ Hx).
Qed.

(* after a successful open_dir d name the old handle d is still in the table and the lock is free:
   close_dir d succeeds *)
Theorem change_dir_unwrap_safe : forall d name s h s1, open_dir d name s = (Ok h, s1) ->
  exists i, close_dir d s1 = (Ok tt, set_s_dirs s1 (swap_remove (s_dirs s1) i)).
Proof.
  intros d name s h s1 E. destruct (open_dir_ok_parent _ _ _ _ _ E) as (Hl & Hin).
  destruct (PrHandles.open_dir_fin _ _ _ _ _ E) as [(Hno & _)|(_ & (_ & Hl1 & _ & _ & _ & _ & _ & Hd & _))];
    [exfalso; exact (Hno h eq_refl)|].
  assert (Hin1 : In d (PrHandles.dids s1)) by (rewrite Hd; apply in_or_app; left; exact Hin).
  unfold PrHandles.dids in Hin1. apply in_map_iff in Hin1. destruct Hin1 as (x & Hx & Hxin).
  destruct (PrHandles.find_idx_exists (fun y => d_id y =? d) (s_dirs s1)
              (ex_intro _ x (conj Hxin (proj2 (N.eqb_eq _ _) Hx))) 0) as (i & Hi & _).
  exists i. unfold close_dir. rewrite (PrHandles.locked_free _ s1 ltac:(congruence)).
  unfold bind. rewrite PrHandles.get_dir_by_id_eq, Hi. reflexivity.
Qed.

(* change_dir, spelled out: the outcome of open_dir; on success the old handle is closed *)
Theorem change_dir_eq : forall d name s,
  change_dir d name s =
  match open_dir d name s with
  | (Ok h, s1) => (Ok h, snd (close_dir d s1))
  | r => r
  end.
Proof.
  intros d name s. unfold change_dir. unfold bind at 1.
  destruct (open_dir d name s) as [[h|e| |] s1] eqn:E; try reflexivity.
  destruct (change_dir_unwrap_safe _ _ _ _ _ E) as (i & Ec). unfold bind, try. rewrite Ec. reflexivity.
Qed.

Corollary change_dir_no_unwrap_panic d name s :
  fst (change_dir d name s) = Panic -> fst (open_dir d name s) = Panic.
Proof. rewrite change_dir_eq. destruct (open_dir d name s) as [[h|e| |] s1]; cbn; intros H; try discriminate; reflexivity. Qed.

(* ---- the cases ---- *)
Lemma xstep_ok_XOp fsz vid o : xstep_ok fsz vid (XOp o).
Proof.
  intros s r s' Hinv Hfresh Hscope _ Hs. cbn [xstep] in Hs. rewrite xlift_run in Hs.
  destruct (step o s) as [o1 s1] eqn:E1. cbn [fst snd] in Hs. injection Hs as <- <-.
  pose proof (all_steps_ok fsz vid o s o1 s1 Hinv Hfresh Hscope E1) as P.
  apply (step_post_retag fsz vid s o1 _ s1 P); [rewrite omap_panic|rewrite omap_oof]; apply P.
Qed.

Lemma xstep_ok_XIterLfn fsz vid d n : xstep_ok fsz vid (XIterLfn d n).
Proof.
  intros s r s' Hinv _ _ _ Hs. cbn [xstep] in Hs. rewrite xlift_run in Hs.
  destruct (mgr_iterate_lfn d n s) as [o1 s1] eqn:E1. cbn [fst snd] in Hs. injection Hs as <- <-.
  destruct (mgr_iterate_lfn_quiet fsz vid d n s o1 s1 Hinv E1) as (R1 & R2 & Q).
  apply (quiet_post fsz vid s _ s1 Hinv); [rewrite omap_panic; exact R1|rewrite omap_oof; exact R2|exact Q].
Qed.

Lemma discard_ok {A} (r : outcome A * st) : fst r <> Panic -> fst r <> OutOfFuel -> discard r = (Ok tt, snd r).
Proof. destruct r as [[a|e| |] s1]; cbn; intros H1 H2; try reflexivity; contradiction. Qed.

Lemma xstep_ok_XDropFile fsz vid f : xstep_ok fsz vid (XDropFile f).
Proof.
  intros s r s' Hinv Hfresh _ _ Hs. cbn [xstep] in Hs. rewrite xlift_run, drop_file_is_close in Hs.
  pose proof (step_ok_CloseFile fsz vid f s _ _ Hinv Hfresh (conj (conj I I) I) (lift_run _ _ s)) as P.
  pose proof P as (R1 & R2 & _). rewrite omap_panic in R1. rewrite omap_oof in R2.
  rewrite (discard_ok _ R1 R2) in Hs. cbn [fst snd omap] in Hs. injection Hs as <- <-.
  apply (step_post_retag fsz vid s _ _ _ P); discriminate.
Qed.

Lemma xstep_ok_XDropDir fsz vid d : xstep_ok fsz vid (XDropDir d).
Proof.
  intros s r s' Hinv Hfresh _ _ Hs. cbn [xstep] in Hs. rewrite xlift_run, drop_dir_eq_close in Hs.
  pose proof (step_ok_CloseDir fsz vid d s _ _ Hinv Hfresh (conj (conj I I) I) (lift_run _ _ s)) as P.
  cbn [fst snd omap] in Hs. injection Hs as <- <-.
  apply (step_post_retag fsz vid s _ _ _ P); discriminate.
Qed.

Lemma xstep_ok_XChangeDir fsz vid d name : xstep_ok fsz vid (XChangeDir d name).
Proof.
  intros s r s' Hinv Hfresh Hscope _ Hs. cbn [xstep xop_scope_ok] in *. rewrite xlift_run, change_dir_eq in Hs.
  pose proof (step_ok_OpenDir fsz vid d name s _ _ Hinv Hfresh (conj (conj I I) Hscope) (lift_run _ _ s)) as P.
  destruct (open_dir d name s) as [[h|e| |] s1] eqn:E; cbn [fst snd omap] in *; injection Hs as <- <-;
    try (apply (step_post_retag fsz vid s _ _ _ P); discriminate);
    try (exfalso; destruct P as (R1 & R2 & _); first [exact (R1 eq_refl)|exact (R2 eq_refl)]).
  destruct (close_dir d s1) as [o2 s2] eqn:E2. cbn [snd].
  pose proof P as (_ & _ & Hinv1 & _).
  destruct (qm_close_dir fsz vid d s1 o2 s2 Hinv1 E2) as (_ & _ & Q).
  apply (step_post_quiet fsz vid s _ s1 s2); [|exact Q].
  apply (step_post_retag fsz vid s _ _ _ P); discriminate.
Qed.

Lemma post_same {R} fsz vid s (r : outcome R) : fs_inv fsz vid s -> r <> Panic -> r <> OutOfFuel -> step_post fsz vid s r s.
Proof. intros Hinv R1 R2. apply quiet_post; try assumption. apply quiet_refl. exact Hinv. Qed.

Lemma xstep_ok_XWLength fsz vid f : xstep_ok fsz vid (XWLength f).
Proof.
  intros s r s' Hinv _ _ Hg Hs. cbn [xstep xop_guard] in *. rewrite xlift_run in Hs.
  destruct (w_length_ok f s (fs_inv_lock fsz vid s Hinv) Hg) as (n & E). rewrite E in Hs. cbn in Hs. injection Hs as <- <-.
  apply (post_same fsz vid s _ Hinv); discriminate.
Qed.
Lemma xstep_ok_XWOffset fsz vid f : xstep_ok fsz vid (XWOffset f).
Proof.
  intros s r s' Hinv _ _ Hg Hs. cbn [xstep xop_guard] in *. rewrite xlift_run in Hs.
  destruct (w_offset_ok f s (fs_inv_lock fsz vid s Hinv) Hg) as (n & E). rewrite E in Hs. cbn in Hs. injection Hs as <- <-.
  apply (post_same fsz vid s _ Hinv); discriminate.
Qed.
Lemma xstep_ok_XWEof fsz vid f : xstep_ok fsz vid (XWEof f).
Proof.
  intros s r s' Hinv _ _ Hg Hs. cbn [xstep xop_guard] in *. rewrite xlift_run in Hs.
  destruct (w_is_eof_ok f s (fs_inv_lock fsz vid s Hinv) Hg) as (n & E). rewrite E in Hs. cbn in Hs. injection Hs as <- <-.
  apply (post_same fsz vid s _ Hinv); discriminate.
Qed.

(* T5 *)
Theorem all_xsteps_ok fsz vid : forall o, xstep_ok fsz vid o.
Proof.
  intros o. destruct o.
  - apply xstep_ok_XOp.
  - apply xstep_ok_XIterLfn.
  - apply xstep_ok_XDropFile.
  - apply xstep_ok_XDropDir.
  - (* XDropVol: outside the scope *) intros s r s' _ _ F. destruct F.
  - apply xstep_ok_XChangeDir.
  - apply xstep_ok_XWEof.
  - apply xstep_ok_XWLength.
  - apply xstep_ok_XWOffset.
Qed.

(* the guard of the File wrappers cannot be dropped: without it the call panics (PrExt) *)
Theorem xstep_guard_needed : forall fsz vid f s, fs_inv fsz vid s -> ~ In f (map f_id (s_files s)) ->
  xstep (XWLength f) s = (Panic, s) /\ xstep (XWOffset f) s = (Panic, s) /\ xstep (XWEof f) s = (Panic, s).
Proof.
  intros fsz vid f s Hinv Hno. destruct (w_length_stale_panics f s (fs_inv_lock fsz vid s Hinv) Hno) as (A & B & C).
  cbn [xstep]. rewrite !xlift_run, A, B, C. repeat split; reflexivity.
Qed.

(* ================================================================== 3. T6: histories *)
(* ---- handles: every extended operation draws at most one id ---- *)
Definition xremount_ok (o : xop) : Prop := match o with XOp o' => PrHandles.remount_ok o' | _ => True end.

Lemma expect_state {A} (m : M A) s : snd (expect m s) = snd (m s).
Proof. rewrite expect_eq. destruct (m s) as [[a|e| |] s1]; reflexivity. Qed.

Lemma mgr_iterate_lfn_shape d n s o s' : mgr_iterate_lfn d n s = (o, s') -> PrHandles.same_tables_shape s s'.
Proof.
  intros E. destruct (s_lock s) eqn:Hl.
  - rewrite (mgr_iterate_lfn_locked d n s Hl) in E. injection E as _ <-. apply PrHandles.shape_refl.
  - rewrite (mgr_iterate_lfn_eq d n s Hl) in E. destruct (raw_listing d s) as [o1 s1] eqn:Er.
    pose proof (raw_listing_shape _ _ _ _ Er) as H.
    destruct o1 as [raw|e| |]; cbn [lfn_outcome] in E; try (injection E as _ <-; exact H).
    destruct (lfn_fold raw _ _); injection E as _ <-; exact H.
Qed.

Theorem xstep_effect : forall o s out s', xstep o s = (out, s') -> PrHandles.op_effect (xremount_ok o) s s'.
Proof.
  intros o s out s' E. apply (f_equal snd) in E. cbn [snd] in E. subst s'.
  destruct o as [o|d n|f|d|v|d name|f|f|f]; cbn [xstep xremount_ok]; rewrite xlift_run; cbn [snd].
  - destruct (step o s) as [o1 s1] eqn:E1. exact (PrHandles.step_effect o s o1 s1 E1).
  - destruct (mgr_iterate_lfn d n s) as [o1 s1] eqn:E1.
    exact (PrHandles.shrunk_effect _ _ _ (PrHandles.shape_shrunk _ _ (mgr_iterate_lfn_shape _ _ _ _ _ E1))).
  - rewrite drop_file_is_close. destruct (close_file f s) as [o1 s1] eqn:E1.
    pose proof (PrHandles.close_file_shrunk _ _ _ _ E1) as H. apply PrHandles.shrunk_effect.
    destruct o1; exact H.
  - rewrite drop_dir_is_close. destruct (close_dir d s) as [o1 s1] eqn:E1.
    pose proof (PrHandles.close_dir_shrunk _ _ _ _ E1) as H. apply PrHandles.shrunk_effect.
    destruct o1; exact H.
  - rewrite drop_volume_is_close. destruct (close_volume v s) as [o1 s1] eqn:E1.
    pose proof (PrHandles.close_volume_shrunk _ _ _ _ E1) as H. apply PrHandles.shrunk_effect.
    destruct o1; exact H.
  - rewrite change_dir_eq. destruct (open_dir d name s) as [o1 s1] eqn:E1.
    pose proof (PrHandles.Fin_effect True _ _ _ _ (PrHandles.open_dir_fin _ _ _ _ _ E1)) as H1.
    destruct o1 as [h|e| |]; try exact H1. cbn [snd].
    destruct (close_dir d s1) as [o2 s2] eqn:E2. cbn [snd].
    exact (PrHandles.effect_shrunk_r _ _ _ _ H1 (PrHandles.close_dir_shrunk _ _ _ _ E2)).
  - unfold w_is_eof. rewrite expect_state. destruct (file_eof f s) as [o1 s1] eqn:E1.
    exact (PrHandles.shrunk_effect _ _ _ (PrHandles.shape_shrunk _ _
             (PrHandles.keeps_frame _ (fun s0 => PrHandles.keeps_file_eof s0 f) _ _ _ E1))).
  - unfold w_length. rewrite expect_state. destruct (file_length f s) as [o1 s1] eqn:E1.
    exact (PrHandles.shrunk_effect _ _ _ (PrHandles.shape_shrunk _ _
             (PrHandles.keeps_frame _ (fun s0 => PrHandles.keeps_file_length s0 f) _ _ _ E1))).
  - unfold w_offset. rewrite expect_state. destruct (file_offset f s) as [o1 s1] eqn:E1.
    exact (PrHandles.shrunk_effect _ _ _ (PrHandles.shape_shrunk _ _
             (PrHandles.keeps_frame _ (fun s0 => PrHandles.keeps_file_offset s0 f) _ _ _ E1))).
Qed.

(* the analogue of PrHandles.C08_handles_ok_step: the window grows by one per call (change_dir draws
   one id like open_dir; the drops, the listing and the File questions draw none) *)
Theorem C08x_handles_ok_step : forall age_max o s, age_max < U32 - 1 -> xremount_ok o ->
  PrHandles.handles_ok age_max s -> PrHandles.handles_ok (age_max + 1) (snd (xstep o s)).
Proof.
  intros age_max o s Ha Hw (Hf & Nv & Nd & Nf).
  destruct (xstep o s) as [out s'] eqn:E. cbn [snd].
  pose proof (xstep_effect o s out s' E) as Heff.
  split; [exact (PrHandles.fresh_inv_effect _ _ _ _ Hw Heff Hf)|].
  destruct Heff as (_ & _ & _ & D1 & D2 & D3).
  assert (Hni : forall x, In x (PrHandles.all_ids s) -> x <> s_next_id s)
    by (apply (PrHandles.fresh_inv_distinct age_max); [lia | exact Hf]).
  unfold PrHandles.all_ids in Hni.
  repeat split; [apply D1 | apply D2 | apply D3]; try assumption;
    intros Hin; apply (Hni (s_next_id s)); try reflexivity; rewrite !in_app_iff; auto.
Qed.

Lemma xscope_remount o : xop_scope_ok o -> xremount_ok o.
Proof. destruct o; cbn; try (intros; exact I). intros ((H & _) & _). exact (no_remount_ok _ H). Qed.

(* ---- the guard of the File wrappers, evaluated along the run ---- *)
Fixpoint xops_guard (ops : list xop) (s : st) : Prop :=
  match ops with
  | [] => True
  | o :: rest => xop_guard o s /\ xops_guard rest (snd (xstep o s))
  end.

(* T6: history_ok replayed for the extended alphabet *)
Theorem xhistory_ok fsz vid :
  forall ops s age, fs_inv fsz vid s -> PrHandles.handles_ok age s ->
    age + N.of_nat (length ops) < U32 - 1 -> Forall xop_scope_ok ops -> xops_guard ops s ->
    let '(rs, s') := xrun_ops ops s in
    fs_inv fsz vid s' /\ same_geo s s' /\
    Forall (fun r => r <> Panic /\ r <> OutOfFuel) rs /\
    exists ws, PrOrder.tsteps s s' ws /\ forall v, In v (s_vols s) -> Forall (PrBounds.in_region v fsz) ws.
Proof.
  induction ops as [|o rest IH]; intros s age Hinv Hh Hage Hops Hg.
  - cbn [xrun_ops]. split; [exact Hinv|]. split.
    + destruct Hinv as (vi & v & bl & rch & T & Hat). exists v, v.
      split; [exact (fi_single _ _ _ _ _ _ _ _ Hat)|]. split; [exact (fi_single _ _ _ _ _ _ _ _ Hat)|apply geo_eq_refl].
    + split; [constructor|]. exists []. split; [apply PrOrder.tsteps_refl|]. intros v _. constructor.
  - cbn [xrun_ops]. destruct (xstep o s) as [r s1] eqn:Es.
    inversion Hops as [|? ? Ho Hrest]; subst. cbn [length] in Hage. cbn [xops_guard] in Hg. rewrite Es in Hg.
    destruct Hg as (Hg0 & Hg1). cbn [snd] in Hg1.
    assert (Ha1 : age < U32) by (unfold U32 in *; lia).
    assert (Ha2 : age < U32 - 1) by (unfold U32 in *; lia).
    assert (Ha3 : age + 1 + N.of_nat (length rest) < U32 - 1).
    { rewrite Nat2N.inj_succ in Hage. unfold U32 in *. lia. }
    destruct (all_xsteps_ok fsz vid o s r s1 Hinv (handles_ok_fresh age s Ha1 Hh) Ho Hg0 Es)
      as (R1 & R2 & Hinv1 & Hgeo1 & ws1 & Ht1 & Hw1).
    pose proof (C08x_handles_ok_step age o s Ha2 (xscope_remount o Ho) Hh) as Hh1.
    rewrite Es in Hh1. cbn [snd] in Hh1.
    specialize (IH s1 (age + 1) Hinv1 Hh1 Ha3 Hrest Hg1).
    destruct (xrun_ops rest s1) as [rs s'].
    destruct IH as (Hinv' & Hgeo' & Hrs & ws2 & Ht2 & Hw2).
    destruct Hgeo1 as (v & v1 & Ev & Ev1 & G1). destruct Hgeo' as (v1' & v' & Ev1' & Ev' & G2).
    rewrite Ev1 in Ev1'. injection Ev1' as <-.
    split; [exact Hinv'|]. split; [exists v, v'; split; [exact Ev|split; [exact Ev'|exact (geo_eq_trans _ _ _ G1 G2)]]|].
    split; [constructor; [split; assumption|exact Hrs]|].
    exists (ws1 ++ ws2). split; [exact (PrOrder.tsteps_trans _ _ _ _ _ Ht1 Ht2)|].
    intros v0 Hv0. apply Forall_app. split; [exact (Hw1 v0 Hv0)|].
    rewrite Ev in Hv0. destruct Hv0 as [<-|[]].
    specialize (Hw2 v1 ltac:(rewrite Ev1; left; reflexivity)).
    rewrite Forall_forall in *. intros i Hi. apply (in_region_geo v v1 fsz i G1). exact (Hw2 i Hi).
Qed.

Lemma xrun_ops_app a : forall b s,
  xrun_ops (a ++ b) s =
  (fst (xrun_ops a s) ++ fst (xrun_ops b (snd (xrun_ops a s))), snd (xrun_ops b (snd (xrun_ops a s)))).
Proof.
  induction a as [|o a IH]; intros b s; cbn [app xrun_ops].
  - cbn [fst snd app]. destruct (xrun_ops b s); reflexivity.
  - destruct (xstep o s) as [r s1]. rewrite IH. destruct (xrun_ops a s1) as [rs s2]. cbn [fst snd].
    destruct (xrun_ops b s2) as [rs' s3]. reflexivity.
Qed.

Lemma xops_guard_app a : forall b s, xops_guard (a ++ b) s -> xops_guard a s.
Proof.
  induction a as [|o a IH]; intros b s H; [exact I|]. cbn [app xops_guard] in *. destruct H as (H1 & H2).
  split; [exact H1|exact (IH _ _ H2)].
Qed.

(* C03 over histories of the extended alphabet: the invariant after the last call, no call panics or
   runs out of fuel, the geometry never changes, every device write lies in a region of the volume *)
Theorem C03x_history fsz vid ops s age :
  fs_inv fsz vid s -> PrHandles.handles_ok age s ->
  age + N.of_nat (length ops) < U32 - 1 -> Forall xop_scope_ok ops -> xops_guard ops s ->
  let '(rs, s') := xrun_ops ops s in
  fs_inv fsz vid s' /\ same_geo s s' /\
  Forall (fun r => r <> Panic /\ r <> OutOfFuel) rs /\
  exists ws, PrOrder.tsteps s s' ws /\ forall v, In v (s_vols s) -> Forall (PrBounds.in_region v fsz) ws.
Proof. exact (xhistory_ok fsz vid ops s age). Qed.

(* ... after EVERY call of the history *)
Theorem C03x_after_every_call fsz vid ops1 ops2 s age :
  fs_inv fsz vid s -> PrHandles.handles_ok age s ->
  age + N.of_nat (length (ops1 ++ ops2)) < U32 - 1 -> Forall xop_scope_ok (ops1 ++ ops2) ->
  xops_guard (ops1 ++ ops2) s ->
  fs_inv fsz vid (snd (xrun_ops ops1 s)).
Proof.
  intros Hinv Hh Hage Hops Hg.
  assert (Hage1 : age + N.of_nat (length ops1) < U32 - 1).
  { rewrite app_length, Nat2N.inj_add in Hage. lia. }
  assert (Hops1 : Forall xop_scope_ok ops1) by (apply Forall_app in Hops; tauto).
  pose proof (C03x_history fsz vid ops1 s age Hinv Hh Hage1 Hops1 (xops_guard_app _ _ _ Hg)) as H.
  destruct (xrun_ops ops1 s) as [rs s']. cbn [snd]. tauto.
Qed.

(* the property text of C03, spelled out on the state after any history *)
Theorem C03x_sound_after_history fsz vid ops s age :
  fs_inv fsz vid s -> PrHandles.handles_ok age s ->
  age + N.of_nat (length ops) < U32 - 1 -> Forall xop_scope_ok ops -> xops_guard ops s ->
  let s' := snd (xrun_ops ops s) in
  exists v bl rch T, s_vols s' = [v] /\ v_id v = vid /\
    let d := s_disk s' in
    root_dir d v bl rch /\ tree_rep d v bl T /\
    (v_fat32 v = true -> chain_sound d v (v_root_cluster v) rch) /\
    (forall n, In n (all_nodes T) ->
       (node_chain n = [] /\ node_is_dir n = false /\ e_cluster (node_entry n) < 2) \/
       chain_sound d v (e_cluster (node_entry n)) (node_chain n)) /\
    (forall f, In f (s_files s') ->
       (fchain d v f = [] /\ e_cluster (f_entry f) < 2) \/ chain_sound d v (e_cluster (f_entry f)) (fchain d v f)) /\
    NoDup (rch ++ flat_map node_chain (all_nodes T) ++ all_chains d v (pend_of s' v)) /\
    (forall e ch, In (NFile e ch) (all_nodes T) -> e_size e <= N.of_nat (length ch) * bytes_per_cluster v) /\
    (forall f, In f (s_files s') -> e_size (f_entry f) <= N.of_nat (length (fchain d v f)) * bytes_per_cluster v) /\
    dir_ok d v CL_ROOT CL_ROOT bl /\
    (forall e ch kids, In (NDir e ch kids) (all_nodes T) ->
       exists parent, dir_ok d v (e_cluster e) parent (data_blocks v ch) /\ listed_in T (NDir e ch kids) parent).
Proof.
  intros Hinv Hh Hage Hops Hg s'.
  pose proof (C03x_history fsz vid ops s age Hinv Hh Hage Hops Hg) as H.
  subst s'. destruct (xrun_ops ops s) as [rs s1]. cbn [snd].
  destruct H as [H _]. exact (fs_inv_C03 fsz vid s1 H).
Qed.

(* C04 over histories of the extended alphabet *)
Theorem C04x_history fsz vid ops s age :
  fs_inv fsz vid s -> PrHandles.handles_ok age s ->
  age + N.of_nat (length ops) < U32 - 1 -> Forall xop_scope_ok ops -> xops_guard ops s ->
  exists ws, PrOrder.tsteps s (snd (xrun_ops ops s)) ws /\
    forall v, In v (s_vols s) -> Forall (PrBounds.in_region v fsz) ws.
Proof.
  intros Hinv Hh Hage Hops Hg.
  pose proof (C03x_history fsz vid ops s age Hinv Hh Hage Hops Hg) as H.
  destruct (xrun_ops ops s) as [rs s1]. cbn [snd]. tauto.
Qed.

(* C05 over histories of the extended alphabet *)
Theorem C05x_history fsz vid ops s age :
  fs_inv fsz vid s -> PrHandles.handles_ok age s ->
  age + N.of_nat (length ops) < U32 - 1 -> Forall xop_scope_ok ops -> xops_guard ops s ->
  let s' := snd (xrun_ops ops s) in
  s_files s' = [] ->
  exists v bl rch T, s_vols s' = [v] /\ root_dir (s_disk s') v bl rch /\ tree_rep (s_disk s') v bl T /\
    Permutation (used_list (s_disk s') v) (rch ++ flat_map node_chain (all_nodes T)).
Proof.
  intros Hinv Hh Hage Hops Hg s' Hf.
  pose proof (C03x_history fsz vid ops s age Hinv Hh Hage Hops Hg) as H.
  subst s'. destruct (xrun_ops ops s) as [rs s1]. cbn [snd] in *.
  destruct H as [(vi & v & bl & rch & T & Hat) _].
  exists v, bl, rch, T.
  pose proof (fi_disk _ _ _ _ _ _ _ _ Hat) as Hd.
  split; [exact (fi_single _ _ _ _ _ _ _ _ Hat)|].
  split; [exact (di_root _ _ _ _ _ _ Hd)|]. split; [exact (di_tree _ _ _ _ _ _ Hd)|].
  exact (proj2 (fs_inv_C05 fsz vid s1 vi v bl rch T Hat Hf)).
Qed.

(* the base alphabet embeds: a history of base operations run through xrun_ops is run_ops *)
Lemma xrun_ops_base ops : forall s,
  xrun_ops (map XOp ops) s = (map (omap XR) (fst (run_ops ops s)), snd (run_ops ops s)).
Proof.
  induction ops as [|o ops IH]; intros s; [reflexivity|]. cbn [map xrun_ops run_ops xstep]. rewrite xlift_run.
  destruct (step o s) as [r s1]. cbn [fst snd]. rewrite IH. destruct (run_ops ops s1) as [rs s2]. reflexivity.
Qed.

(* ================================================================== 4. T7: a dropped file is flushed like a closed one *)
(* PrContentWrite.content_CloseFile (= C02_close_content) restated for Drop: from every state of the
   invariant, dropping the File wrapper of handle h answers nothing (Ok ()), ends in the SAME state
   as close_file h, and the observation after it is related to the one before exactly as for
   CloseFile (flush_content true): a dirty handle's entry and bytes reach the medium, a clean one
   writes nothing, the handle is gone; a stale handle changes nothing *)
Theorem C02_drop_is_close : forall fsz vid h s a,
  fs_inv fsz vid s -> id_fresh s -> PrContentDef.observes fsz vid s a ->
  exists r0 s' a',
    step (CloseFile h) s = (r0, s') /\
    xstep (XDropFile h) s = (Ok (XR RUnit), s') /\ drop_file h s = (Ok tt, s') /\
    PrContentDef.observes fsz vid s' a' /\ PrContentDef.flush_content true h r0 a a'.
Proof.
  intros fsz vid h s a Hinv Hfresh Hobs.
  destruct (step (CloseFile h) s) as [r0 s'] eqn:E.
  destruct (PrContentWrite.content_CloseFile fsz vid h s r0 s' a Hinv Hfresh (conj (conj I I) I) E Hobs) as (a' & Ho & Hc).
  pose proof (step_ok_CloseFile fsz vid h s r0 s' Hinv Hfresh (conj (conj I I) I) E) as (R1 & R2 & _).
  cbn [step] in E. rewrite lift_run in E. injection E as E1 E2. subst r0.
  rewrite omap_panic in R1. rewrite omap_oof in R2.
  assert (Ed : drop_file h s = (Ok tt, s')) by (rewrite drop_file_is_close, (discard_ok _ R1 R2), E2; reflexivity).
  exists (omap (fun _ : unit => RUnit) (fst (close_file h s))), s', a'.
  split; [reflexivity|]. split; [cbn [xstep]; rewrite xlift_run, Ed; reflexivity|]. split; [exact Ed|].
  split; [exact Ho|exact Hc].
Qed.

(* ================================================================== 5. examples *)
(* the hypotheses of the history theorems are satisfiable: PrGlobalDef's example state (FAT16; root with
   file A, directory D, file B; B open with a pending chain; root and D open as directories) *)
Example gx_handles_ok : PrHandles.handles_ok 10 gx_state.
Proof.
  split; [|split; [|split]]; try (cbn; repeat constructor; cbn; intuition discriminate).
  split; [reflexivity|]. cbn. intros x [<-|[<-|[<-|[<-|[]]]]]; (split; [reflexivity|]).
  - exists 10. repeat split; discriminate.
  - exists 5. repeat split; discriminate.
  - exists 1. repeat split; discriminate.
  - exists 3. repeat split; discriminate.
Qed.

(* File::length on the open file, a long-name listing of D, cd from the root into D, drop of the
   file (its pending chain is recorded in its slot), drop of the old handle of D, listing of the new
   handle *)
Definition gx_xops : list xop :=
  [XWLength 7; XIterLfn 9 64; XChangeDir 5 [68]; XDropFile 7; XDropDir 9; XIterLfn 10 64; XWLength 7].

Example xhistory_hyps : fs_inv 1 0 gx_state /\ PrHandles.handles_ok 10 gx_state /\
  Forall xop_scope_ok (firstn 6 gx_xops) /\ xops_guard (firstn 6 gx_xops) gx_state /\
  (* the last call - File::length after the drop - is outside the guard, and panics *)
  ~ xops_guard gx_xops gx_state /\
  map (fun r => match r with Ok _ => 0 | Err _ => 1 | Panic => 2 | OutOfFuel => 3 end) (fst (xrun_ops gx_xops gx_state))
    = [0; 0; 0; 0; 0; 0; 2].
Proof.
  split; [exact (proj1 fs_inv_example)|]. split; [exact gx_handles_ok|].
  split; [repeat constructor|]. split; [|split].
  - vm_compute. intuition.
  - vm_compute. intuition discriminate.
  - vm_compute. reflexivity.
Qed.

Example xhistory_results :
  let rs := fst (xrun_ops gx_xops gx_state) in
  nth 0 rs Panic = Ok (XR (RNum 5)) /\
  nth 2 rs Panic = Ok (XR (RHandle 10)) /\
  match nth 1 rs Panic, nth 5 rs Panic with
  | Ok (XRLfn l1), Ok (XRLfn l2) =>
      map (fun r => (e_name (fst r), snd r)) l1 =
        [(THIS_DIR_NAME, None); (PARENT_DIR_NAME, None); (gx_name 67, None)] /\ l2 = l1
  | _, _ => False
  end.
Proof. vm_compute. repeat split; reflexivity. Qed.

(* a directory with a long name: D holds ".", "..", one long-name slot ("Hi", checksum of the 8.3 name
   that follows) and the entry of C; iterate_dir_lfn reports the long name next to C's entry, and the
   same three entries iterate_dir shows *)
Definition gx_lfn_slot : list N :=
  [65; 72; 0; 105; 0; 0; 0; 255; 255; 255; 255; 15; 0; LfnModel.csum (gx_name 67)] ++ repeat 255 12 ++ [0; 0; 255; 255; 255; 255].
Definition gx_dir_lfn : block :=
  set_bytes zero_block 0 (gx_ent THIS_DIR_NAME 16 4 0 ++ gx_ent PARENT_DIR_NAME 16 0 0 ++ gx_lfn_slot ++
                          gx_ent (gx_name 67) 32 5 10).
Definition gx_state_lfn : st :=
  mk_st (gx_disk_of gx_fat gx_root_blk gx_dir_lfn) zero_block None [exd_vol]
        [mk_dirinfo 5 0 CL_ROOT; mk_dirinfo 9 0 4] [gx_fileB] 10 0 0 [] [] false 1 4 4.
Example iterate_lfn_example :
  length gx_lfn_slot = 32%nat /\
  fs_inv_b 5 1 (s_disk gx_state_lfn) exd_vol [6] = true /\
  match mgr_iterate_lfn 9 64 gx_state_lfn, mgr_iterate 9 (ret tt) gx_state_lfn with
  | (Ok l, s1), (Ok (es, _), s2) =>
      map (fun r : lfn_report => (e_name (fst r), snd r)) l =
        [(THIS_DIR_NAME, None); (PARENT_DIR_NAME, None); (gx_name 67, Some [72; 105])] /\
      map fst l = es /\ s1 = s2
  | _, _ => False
  end.
Proof. vm_compute. repeat split; reflexivity. Qed.

Print Assumptions mgr_iterate_lfn_total.
Print Assumptions mgr_iterate_lfn_quiet.
Print Assumptions C17x_iterate_lfn_inv.
Print Assumptions change_dir_unwrap_safe.
Print Assumptions change_dir_eq.
Print Assumptions all_xsteps_ok.
Print Assumptions xstep_guard_needed.
Print Assumptions xstep_effect.
Print Assumptions C08x_handles_ok_step.
Print Assumptions xhistory_ok.
Print Assumptions C03x_history.
Print Assumptions C03x_after_every_call.
Print Assumptions C03x_sound_after_history.
Print Assumptions C04x_history.
Print Assumptions C05x_history.
Print Assumptions C02_drop_is_close.
