(* PROOFS: several open files of one volume, interleaved (C01).
   PrFileSeq.v shows that ONE open file behaves like a byte array with an offset as long as
   nothing else is interleaved.  Here: a SET of simultaneously open files of one volume, with
   distinct handles and pairwise disjoint cluster chains (files_inv).  An operation on one
   member h returns what the byte-array model of h returns, changes the abstract state of h
   only, and re-establishes the invariant (C01_multi_step) - also when the write on h
   allocates clusters (they were free, hence in nobody's chain) and when it fails with
   DiskFull / NotEnoughSpace.  Hence every interleaved history agrees with the per-file
   byte-array models run independently (C01_multi_history), and a write to one file never
   changes what another file reads back (C01_isolation).
   The device works (no faults); the operations are read, write, the three seeks, length,
   offset, eof on handles of the set (open / close / flush are not covered here). *)
From Coq Require Import NArith ZArith List Bool Lia Arith ZifyClasses ZifyInst Zify FMapPositive.
From SdFs Require Import FsTypes FsBase FsFat FsMgr FsLemmas PrBase PrFat PrAlloc PrDir PrSeek PrAllocEffect PrRw PrWrite PrFileSeq.
Import ListNotations.
Open Scope N_scope.
Local Arguments N.mul : simpl never.
Local Arguments N.add : simpl never.
Local Arguments N.sub : simpl never.
Local Arguments N.div : simpl never.
Local Arguments N.modulo : simpl never.
Local Arguments N.min : simpl never.
Local Arguments N.max : simpl never.
Local Ltac Zify.zify_post_hook ::= Z.to_euclidean_division_equations.

(* ================================================================== list facts *)
Lemma find_idx_set_other {A} (p : A -> bool) y : forall l i j k x,
  find_idx p l i = Some j -> nth_error l k = Some x -> p y = p x ->
  find_idx p (list_set l k y) i = Some j.
Proof.
  induction l as [|a t IH]; intros i j k x H Hk Hp; [discriminate H|].
  destruct k as [|k]; cbn [nth_error] in Hk.
  - injection Hk as ->. cbn [list_set find_idx] in *. rewrite Hp. exact H.
  - cbn [list_set find_idx] in *. destruct (p a); [exact H|]. exact (IH _ _ _ _ H Hk Hp).
Qed.

Lemma Forall2_nth_l {A B} (R : A -> B -> Prop) l1 l2 : Forall2 R l1 l2 ->
  forall i a, nth_error l1 i = Some a -> exists b, nth_error l2 i = Some b /\ R a b.
Proof.
  induction 1 as [|x y l1 l2 Hxy _ IH]; intros i a Hi; [destruct i; discriminate Hi|].
  destruct i as [|i]; cbn [nth_error] in *.
  - injection Hi as <-. exists y. split; [reflexivity|exact Hxy].
  - exact (IH i a Hi).
Qed.

Lemma Forall2_nth_r {A B} (R : A -> B -> Prop) l1 l2 : Forall2 R l1 l2 ->
  forall i b, nth_error l2 i = Some b -> exists a, nth_error l1 i = Some a /\ R a b.
Proof.
  induction 1 as [|x y l1 l2 Hxy _ IH]; intros i b Hi; [destruct i; discriminate Hi|].
  destruct i as [|i]; cbn [nth_error] in *.
  - injection Hi as <-. exists x. split; [reflexivity|exact Hxy].
  - exact (IH i b Hi).
Qed.

(* replace position i0 on both sides; the other positions keep their (possibly weaker) relation *)
Lemma Forall2_list_set {A B} (R R' : A -> B -> Prop) l1 l2 : Forall2 R l1 l2 ->
  forall i0 a' b',
  R' a' b' ->
  (forall i a b, i <> i0 -> nth_error l1 i = Some a -> nth_error l2 i = Some b -> R a b -> R' a b) ->
  Forall2 R' (list_set l1 i0 a') (list_set l2 i0 b').
Proof.
  induction 1 as [|x y l1 l2 Hxy H IH]; intros i0 a' b' H0 Hoth; [constructor|].
  destruct i0 as [|i0]; cbn [list_set].
  - constructor; [exact H0|].
    clear IH H0.
    assert (G : forall i a b, nth_error l1 i = Some a -> nth_error l2 i = Some b -> R a b -> R' a b).
    { intros i a b Ha Hb Hab. apply (Hoth (S i) a b); [discriminate|exact Ha|exact Hb|exact Hab]. }
    clear Hoth. revert G. induction H as [|x1 y1 l1 l2 H1 _ IH2]; intros G; constructor.
    + exact (G 0%nat x1 y1 eq_refl eq_refl H1).
    + apply IH2. intros i a b Ha Hb. exact (G (S i) a b Ha Hb).
  - constructor.
    + exact (Hoth 0%nat x y ltac:(discriminate) eq_refl eq_refl Hxy).
    + apply IH; [exact H0|]. intros i a b Hi Ha Hb. apply (Hoth (S i) a b); [congruence|exact Ha|exact Hb].
Qed.

Lemma nth_error_list_set_cases {A} (l : list A) i0 y j b :
  nth_error (list_set l i0 y) j = Some b ->
  (j = i0 /\ b = y) \/ (j <> i0 /\ nth_error l j = Some b).
Proof.
  intros H. destruct (Nat.eq_dec j i0) as [->|Hne].
  - left. split; [reflexivity|].
    destruct (nth_error l i0) as [x|] eqn:E.
    + rewrite (ls_nth_same _ _ _ y E) in H. congruence.
    + exfalso. assert (Hlen : (length (list_set l i0 y) <= i0)%nat)
        by (rewrite list_set_length; apply nth_error_None; exact E).
      apply nth_error_None in Hlen. congruence.
  - right. split; [exact Hne|]. rewrite ls_nth_other in H by congruence. exact H.
Qed.

Lemma map_list_set {A B} (g : A -> B) (l : list A) : forall i x,
  map g (list_set l i x) = list_set (map g l) i (g x).
Proof. induction l as [|a t IH]; intros [|i] x; cbn; try reflexivity. rewrite IH. reflexivity. Qed.

(* ================================================================== the set of open files *)
(* a member of the set: handle, opened for writing?, abstract state (bytes, offset);
   its representation: index of the open-file record, the record, the cluster chain *)
Definition member := (N * bool * afile)%type.
Definition frep := (nat * fileinfo * list N)%type.
Definition m_handle (x : member) : N := fst (fst x).
Definition m_wr (x : member) : bool := snd (fst x).
Definition m_af (x : member) : afile := snd x.
Definition r_chain (r : frep) : list N := snd r.

(* no common cluster *)
Definition disjoint (a b : list N) : Prop := forall y, In y a -> ~ In y b.

Lemma disjoint_sym a b : disjoint a b -> disjoint b a.
Proof. intros H y Hy Hy'. exact (H y Hy' Hy). Qed.
Lemma disjoint_nil_l b : disjoint [] b.
Proof. intros y []. Qed.

Definition member_rep (fsz : N) (s : st) (vi : nat) (v : vol) (x : member) (r : frep) : Prop :=
  file_rep fsz (m_wr x) (m_handle x) s (m_af x) (fst (fst r)) (snd (fst r)) vi v (r_chain r).

(* the members m are represented, in this order, by rs, all against the SAME volume record v
   (index vi); the chains are pairwise disjoint (an empty file has the empty chain); the
   handles are pairwise distinct *)
Definition files_rep (fsz : N) (s : st) (vi : nat) (v : vol) (m : list member) (rs : list frep) : Prop :=
  Forall2 (member_rep fsz s vi v) m rs /\
  (forall i j a b, i <> j -> nth_error rs i = Some a -> nth_error rs j = Some b ->
                   disjoint (r_chain a) (r_chain b)) /\
  NoDup (map m_handle m).

Definition files_inv (fsz : N) (s : st) (m : list member) : Prop :=
  exists vi v rs, files_rep fsz s vi v m rs.

(* ... and the volume has no free cluster left *)
Definition files_inv_full (fsz : N) (s : st) (m : list member) : Prop :=
  exists vi v rs, files_rep fsz s vi v m rs /\ no_free (s_disk s) v.

(* every member satisfies the single-file invariant of PrFileSeq *)
Lemma files_inv_member fsz s m h w af : files_inv fsz s m -> In (h, w, af) m -> file_inv fsz w h s af.
Proof.
  intros (vi & v & rs & F & _ & _) Hin. destruct (In_nth_error _ _ Hin) as (i & Hi).
  destruct (Forall2_nth_l _ _ _ F i _ Hi) as (((fi & f) & ch) & _ & R).
  exists fi, f, vi, v, ch. exact R.
Qed.

(* for a single open file this is PrFileSeq's invariant *)
Lemma files_inv_single fsz s h w af : files_inv fsz s [(h, w, af)] <-> file_inv fsz w h s af.
Proof.
  split.
  - intros H. apply (files_inv_member fsz s _ h w af H). left. reflexivity.
  - intros (fi & f & vi & v & ch & R). exists vi, v, [(fi, f, ch)]. split; [|split].
    + constructor; [exact R|constructor].
    + intros i j a b Hij Ha Hb. exfalso.
      destruct i as [|i]; destruct j as [|j]; try contradiction; cbn [nth_error] in Ha, Hb.
      * destruct j; discriminate Hb.
      * destruct i; discriminate Ha.
      * destruct i; discriminate Ha.
    + cbn. constructor; [intros []|constructor].
Qed.

(* replacing the abstract state of the member with handle h *)
Definition upd_member (h : N) (af1 : afile) (m : list member) : list member :=
  map (fun x => if m_handle x =? h then (fst x, af1) else x) m.

Lemma upd_member_handles h af1 m : map m_handle (upd_member h af1 m) = map m_handle m.
Proof.
  unfold upd_member. rewrite map_map. apply map_ext. intros x.
  destruct (m_handle x =? h); reflexivity.
Qed.

Lemma NoDup_handles_nth m : NoDup (map m_handle m) ->
  forall i j x y, nth_error m i = Some x -> nth_error m j = Some y -> m_handle x = m_handle y -> i = j.
Proof.
  intros Hnd i j x y Hi Hj E. rewrite NoDup_nth_error in Hnd. apply Hnd.
  - rewrite map_length. apply nth_error_Some. congruence.
  - rewrite !nth_error_map, Hi, Hj. cbn. congruence.
Qed.

Lemma upd_member_list_set h af1 : forall m i w af, NoDup (map m_handle m) ->
  nth_error m i = Some (h, w, af) -> upd_member h af1 m = list_set m i (h, w, af1).
Proof.
  induction m as [|x t IH]; intros i w af Hnd Hi; [destruct i; discriminate Hi|].
  cbn [map] in Hnd. inversion Hnd as [|? ? Hnot Hnd']; subst.
  destruct i as [|i]; cbn [nth_error] in Hi.
  - injection Hi as ->. cbn [upd_member map list_set m_handle fst]. rewrite N.eqb_refl. f_equal.
    fold (upd_member h af1 t). unfold upd_member.
    rewrite <- (map_id t) at 2. apply map_ext_in. intros y Hy.
    destruct (N.eqb_spec (m_handle y) h) as [E|_]; [|reflexivity].
    exfalso. apply Hnot. cbn [m_handle fst]. rewrite <- E. apply in_map. exact Hy.
  - cbn [upd_member map list_set].
    destruct (N.eqb_spec (m_handle x) h) as [E|_].
    + exfalso. apply Hnot. rewrite E. apply (in_map m_handle t (h, w, af)). eapply nth_error_In. exact Hi.
    + f_equal. exact (IH i w af Hnd' Hi).
Qed.

(* ================================================================== 1. file_rep and the volume record *)
(* Which fields of file_rep mention the volume record v?
     fr_vol   - through s_vols and v_id only;
     fr_pre   - alloc_pre: v is the record at index vi, the geometry (fat_layout), the sectors of
                the FAT, and hint_ok: THE ONLY USE OF A FREE-SPACE FIELD (the next-free hint, when
                present, is >= 2);
     fr_fit, fr_spc, fr_chain, fr_size, fr_bytes - geometry only (cluster count, FAT type,
                sectors per cluster, block numbers).
   vol_rebook changes v_next_free and v_free only.  So a file_rep survives the re-booking of the
   volume record that an allocation for ANOTHER file performs: file_rep_rebook. *)
Lemma fat_layout_rebook v fsz nf fc : fat_layout v fsz -> fat_layout (vol_rebook v nf fc) fsz.
Proof.
  intros [L1 L2 L3 L4 L5 L6]. constructor.
  - apply vol_ok_rebook. exact L1.
  - exact L2.
  - exact L3.
  - exact L4.
  - exact L5.
  - exact L6.
Qed.

Section Transport.
  Variable fsz : N.

  (* the workhorse: the representation of a file carries over to a state s' in which the handle
     still names the same record, the volume record is re-booked, and the chain and the bytes
     of the file's clusters are as before *)
  Lemma file_rep_transport w h s s' af fi f vi v ch nf fc :
    file_rep fsz w h s af fi f vi v ch ->
    s_lock s' = false ->
    find_idx (fun g => f_id g =? h) (s_files s') 0 = Some fi ->
    nth_error (s_files s') fi = Some f ->
    s_vols s' = list_set (s_vols s) vi (vol_rebook v nf fc) ->
    alloc_pre s' vi (vol_rebook v nf fc) fsz ->
    blocks_wf (s_disk s') ->
    (forall fu, 2 <= e_cluster (f_entry f) ->
                chain_of (s_disk s) v (e_cluster (f_entry f)) fu = Some ch ->
                chain_of (s_disk s') v (e_cluster (f_entry f)) fu = Some ch) ->
    file_bytes (s_disk s') v ch = file_bytes (s_disk s) v ch ->
    file_rep fsz w h s' af fi f vi (vol_rebook v nf fc) ch.
  Proof.
    intros [(R1 & R2 & R3) Hvol Hpre Hfit Hspc Hwf Hchain Hoff Hsize H32 Hmode Hbytes Haoff]
           Hl' Hh' Hfi' Hvols' Hpre' Hwf' Hch' Hb'.
    pose proof Hpre as ((_ & _ & Hvi & _) & _ & _).
    constructor.
    - repeat split; assumption.
    - rewrite Hvols'. apply (find_vol_set _ _ _ v); [exact Hvol|exact Hvi|reflexivity].
    - exact Hpre'.
    - exact Hfit.
    - exact Hspc.
    - exact Hwf'.
    - destruct Hchain as [(A1 & (fu & A2) & A3)|A]; [left|right; exact A].
      split; [exact A1|]. split; [|exact A3]. exists fu. rewrite chain_of_rebook. exact (Hch' fu A1 A2).
    - exact Hoff.
    - exact Hsize.
    - exact H32.
    - exact Hmode.
    - rewrite Hbytes. change (file_bytes (s_disk s') (vol_rebook v nf fc) ch) with (file_bytes (s_disk s') v ch).
      rewrite Hb'. reflexivity.
    - exact Haoff.
  Qed.

  (* file_rep / file_inv are insensitive to the free-space fields of the volume record *)
  Theorem file_rep_rebook w h s af fi f vi v ch nf fc :
    file_rep fsz w h s af fi f vi v ch -> hint_ok (vol_rebook v nf fc) ->
    file_rep fsz w h (set_s_vols s (list_set (s_vols s) vi (vol_rebook v nf fc))) af fi f vi (vol_rebook v nf fc) ch.
  Proof.
    intros R Hh. pose proof R as [(R1 & R2 & R3) Hvol Hpre Hfit Hspc Hwf Hchain Hoff Hsize H32 Hmode Hbytes Haoff].
    destruct Hpre as ((Hnf & Hc & Hvi & Hlen) & L & _).
    apply (file_rep_transport w h s _ af fi f vi v ch nf fc R); try assumption; try reflexivity.
    - split; [|split; [apply fat_layout_rebook; exact L|exact Hh]].
      split; [exact Hnf|]. split; [exact Hc|]. split; [|exact Hlen].
      cbn [s_vols set_s_vols]. eapply ls_nth_same. exact Hvi.
    - intros fu _ H. exact H.
  Qed.

  Corollary file_inv_rebook w h s af : file_inv fsz w h s af ->
    exists vi v, nth_error (s_vols s) vi = Some v /\
      forall nf fc, hint_ok (vol_rebook v nf fc) ->
        file_inv fsz w h (set_s_vols s (list_set (s_vols s) vi (vol_rebook v nf fc))) af.
  Proof.
    intros (fi & f & vi & v & ch & R). exists vi, v.
    split; [exact (proj1 (proj2 (proj2 (proj1 (fr_pre _ _ _ _ _ _ _ _ _ _ R)))))|].
    intros nf fc Hh. exists fi, f, vi, (vol_rebook v nf fc), ch. apply file_rep_rebook; assumption.
  Qed.

  (* ================================================================ the effect of a step on the rest *)
  (* a step on the file at index fi (record f, volume record v at index vi, chain ch) reaches
     s' (record f', volume record v', chain ch'): only the record at fi and the volume record
     change in the tables, the volume record is re-booked, and every chain that shares no
     cluster with ch is still a chain, holds the same bytes and shares no cluster with ch' *)
  Record step_eff (vi : nat) (v : vol) (fi : nat) (f : fileinfo) (ch : list N) (s s' : st)
                  (f' : fileinfo) (v' : vol) (ch' : list N) : Prop := mk_step_eff {
    se_vol : exists nf fc, v' = vol_rebook v nf fc;
    se_vols : s_vols s' = list_set (s_vols s) vi v';
    se_files : s_files s' = list_set (s_files s) fi f';
    se_id : f_id f' = f_id f;
    se_others : forall x fu l, chain_of (s_disk s) v x fu = Some l -> disjoint l ch ->
                chain_of (s_disk s') v x fu = Some l /\
                file_bytes (s_disk s') v l = file_bytes (s_disk s) v l /\ disjoint l ch'
  }.

  (* steps that touch neither the disk nor the volume table *)
  Definition ro_eff (fi : nat) (f : fileinfo) (s s' : st) (f' : fileinfo) : Prop :=
    s_disk s' = s_disk s /\ s_vols s' = s_vols s /\ s_files s' = list_set (s_files s) fi f' /\ f_id f' = f_id f.

  Lemma ro_eff_refl fi f s : nth_error (s_files s) fi = Some f -> ro_eff fi f s s f.
  Proof. intros H. repeat split; try reflexivity. symmetry. apply list_set_same. exact H. Qed.

  Lemma step_eff_of_ro vi v fi f ch s s' f' : ro_eff fi f s s' f' -> nth_error (s_vols s) vi = Some v ->
    step_eff vi v fi f ch s s' f' v ch.
  Proof.
    intros (Hd & Hv & Hf & Hid) Hvi. constructor.
    - exists (v_next_free v), (v_free v). apply vol_rebook_self.
    - rewrite Hv. symmetry. apply list_set_same. exact Hvi.
    - exact Hf.
    - exact Hid.
    - intros x fu l Hl Hdis. rewrite Hd. split; [exact Hl|]. split; [reflexivity|exact Hdis].
  Qed.

  Lemma step_eff_of_post h s fi f vi v ch stamped stored s' f' v' ch' :
    mw_post fsz h s fi f vi v ch stamped stored s' f' v' ch' -> step_eff vi v fi f ch s s' f' v' ch'.
  Proof.
    intros Q. constructor.
    - exact (mp_vol _ _ _ _ _ _ _ _ _ _ _ _ _ _ Q).
    - exact (mp_vols _ _ _ _ _ _ _ _ _ _ _ _ _ _ Q).
    - exact (mp_files _ _ _ _ _ _ _ _ _ _ _ _ _ _ Q).
    - exact (proj1 (mp_id _ _ _ _ _ _ _ _ _ _ _ _ _ _ Q)).
    - intros x fu l Hl Hdis.
      destruct (mp_others _ _ _ _ _ _ _ _ _ _ _ _ _ _ Q x fu l Hl Hdis) as (O1 & O2).
      destruct (mp_frame _ _ _ _ _ _ _ _ _ _ _ _ _ _ Q) as (_ & Fr).
      split; [exact O1|]. split; [exact O2|]. exact (proj2 (Fr x fu l Hl Hdis)).
  Qed.

  (* 2, the core: the representation of ANOTHER open file - another index of the file table, a
     chain that shares no cluster with ch - survives the step, against the re-booked volume
     record, with the same abstract state; and its chain shares no cluster with the new chain *)
  Lemma other_rep_kept w2 h2 s s' af2 fi2 f2 vi v ch2 fi f f' v' ch ch' :
    file_rep fsz w2 h2 s af2 fi2 f2 vi v ch2 -> fi2 <> fi -> nth_error (s_files s) fi = Some f ->
    disjoint ch2 ch -> step_eff vi v fi f ch s s' f' v' ch' ->
    s_lock s' = false -> alloc_pre s' vi v' fsz -> blocks_wf (s_disk s') ->
    file_rep fsz w2 h2 s' af2 fi2 f2 vi v' ch2 /\ disjoint ch2 ch'.
  Proof.
    intros R Hne Hfi Hdis [(nf & fc & ->) Hvols Hfiles Hid Hoth] Hl' Hpre' Hwf'.
    pose proof R as [(R1 & R2 & R3) Hvol Hpre Hfit Hspc Hwf Hchain Hoff Hsize H32 Hmode Hbytes Haoff].
    assert (Hfind : find_idx (fun g => f_id g =? h2) (s_files s') 0 = Some fi2).
    { rewrite Hfiles. apply (find_idx_set_other _ f' _ _ _ fi f R2 Hfi). rewrite Hid. reflexivity. }
    assert (Hnth : nth_error (s_files s') fi2 = Some f2).
    { rewrite Hfiles, ls_nth_other by congruence. exact R3. }
    destruct Hchain as [(A1 & (fu & A2) & A3)|(A1 & -> & A3)].
    - destruct (Hoth _ fu ch2 A2 Hdis) as (O1 & O2 & O3). split; [|exact O3].
      apply (file_rep_transport w2 h2 s s' af2 fi2 f2 vi v ch2 nf fc R); try assumption.
      intros fu' _ H'. exact (proj1 (Hoth _ fu' ch2 H' Hdis)).
    - split; [|apply disjoint_nil_l].
      apply (file_rep_transport w2 h2 s s' af2 fi2 f2 vi v [] nf fc R); try assumption; [|reflexivity].
      intros fu' G. exfalso. clear - G A1. lia.
  Qed.
End Transport.

(* ================================================================== one step, with explicit witnesses *)
(* what the byte-array model allows as the outcome o and next state af1 of operation a: the
   model's own step, or - for a write that runs out of clusters - DiskFull after a strict
   prefix of the clipped data was stored, or NotEnoughSpace with nothing stored (the file had
   no cluster at all).  Same three cases as in PrFileSeq.C01_file_step. *)
Definition astep_rel (w : bool) (a : aop) (af : afile) (o : outcome res) (af1 : afile) : Prop :=
  (o = fst (astep w a af) /\ af1 = snd (astep w a af)) \/
  (exists data, a = AWrite data /\ w = true /\
     ((o = Err DiskFull /\ exists k, (k < length (clip_write (snd af) data))%nat /\
         af1 = (spec_write (fst af) (snd af) (firstn k (clip_write (snd af) data)), snd af + N.of_nat k)) \/
      (o = Err NotEnoughSpace /\ alen af = 0 /\ af1 = af))).

Lemma astep_rel_no_space w a af o af1 : astep_rel w a af o af1 -> space_err o = false ->
  o = fst (astep w a af) /\ af1 = snd (astep w a af).
Proof.
  intros [H|(data & _ & _ & [(-> & _)|(-> & _)])] Hs; [exact H|discriminate Hs|discriminate Hs].
Qed.

Lemma astep_rel_ro w a af o af1 : astep_rel w a af o af1 -> is_write a = false ->
  o = fst (astep w a af) /\ af1 = snd (astep w a af).
Proof. intros [H|(data & -> & _)] Ha; [exact H|discriminate Ha]. Qed.

Section Step.
  Variable fsz : N.
  Variable w : bool.
  Variable h : N.

  Lemma seek_case_rep s af fi f vi v ch (m : M unit) o :
    file_rep fsz w h s af fi f vi v ch -> m s = seek_result s fi f o ->
    (forall n, o = Some n -> n <= e_size (f_entry f)) ->
    exists s' f', lift (fun _ => RUnit) m s = (fst (aseek af o), s') /\
      file_rep fsz w h s' (snd (aseek af o)) fi f' vi v ch /\ ro_eff fi f s s' f'.
  Proof.
    intros R Hrun Hok. destruct o as [n|]; cbn [seek_result aseek fst snd] in *.
    - exists (PrSeek.upd_file s fi (set_f_offset f n)), (set_f_offset f n).
      split; [exact (lift_ok' _ _ _ _ _ Hrun)|].
      pose proof R as [Hres Hvol Hpre Hfit Hspc Hwf Hchain Hoff Hsize H32 Hmode Hbytes Haoff].
      destruct Hpre as ((Hnf & Hc & _) & _).
      split; [|repeat split; reflexivity].
      apply (file_rep_upd fsz w h s _ af _ fi f _ vi v ch R); try reflexivity; try assumption.
      + intros Hcur. exact Hcur.
      + intros Hlt. exact Hlt.
      + cbn. apply Hok. reflexivity.
    - exists s, f. split; [exact (lift_err' _ _ _ _ _ Hrun)|]. split; [exact R|].
      apply ro_eff_refl. exact (proj2 (proj2 (fr_res _ _ _ _ _ _ _ _ _ _ R))).
  Qed.

  (* an operation that is no write: the disk and the volume table are untouched *)
  Lemma rep_step_ro a s af fi f vi v ch : is_write a = false -> file_rep fsz w h s af fi f vi v ch ->
    exists s' f', run_op (cop h a) s = (fst (astep w a af), s') /\
      file_rep fsz w h s' (snd (astep w a af)) fi f' vi v ch /\ ro_eff fi f s s' f'.
  Proof.
    intros Ha R.
    pose proof (file_rep_len _ _ _ _ _ _ _ _ _ _ R) as Hlen.
    pose proof R as [Hres Hvol Hpre Hfit Hspc Hwf Hchain Hoff Hsize H32 Hmode Hbytes Haoff].
    assert (Hsame : exists s' f', s' = s /\ f' = f /\ file_rep fsz w h s' af fi f' vi v ch /\ ro_eff fi f s s' f').
    { exists s, f. split; [reflexivity|]. split; [reflexivity|]. split; [exact R|].
      apply ro_eff_refl. exact (proj2 (proj2 Hres)). }
    unfold run_op. destruct a as [n|data|x|x|z| | |]; cbn [cop step astep is_write] in *; try discriminate.
    - (* read *)
      rewrite Hlen, Haoff.
      destruct Hchain as [(A1 & (fuel0 & A2) & A3)|(A1 & -> & A3)].
      + destruct Hres as (R1 & R2 & R3). destruct Hpre as ((Hnf & Hc & Hvi & Hlenf) & L & Hh).
        destruct (mgr_read_spec v (s_disk s) (e_cluster (f_entry f)) fuel0 ch (fl_vol v fsz L) Hspc A2
                    h n fi vi f s R1 R2 R3 Hvol Hvi eq_refl Hnf Hc Hwf eq_refl A3 Hoff Hsize H32)
          as (s' & f' & Hrun & Hd' & Hfiles' & Hoff' & (I1 & I2 & I3 & I4 & I5) & Hcur' & Hc' & Hnf' & Hsbf).
        cbv zeta in Hrun, Hoff'.
        set (m := N.min n (e_size (f_entry f) - f_offset f)) in *.
        destruct Hsbf as (S1 & S2 & S3 & S4 & S5 & S6).
        exists s', f'. split; [|split; [|repeat split; assumption]].
        * rewrite (lift_ok' _ _ _ _ _ Hrun). cbn [fst]. do 3 f_equal.
          rewrite Hbytes. symmetry. apply firstn_skipn_firstn. unfold m. clear - Hoff. lia.
        * cbn [snd].
          apply (file_rep_upd fsz w h s s' af _ fi f f' vi v ch R); try assumption; try reflexivity.
          -- intros _. exact Hcur'.
          -- intros Hlt. exfalso. destruct A3 as (k & _ & Hk). cbn [snd] in Hk.
             pose proof (chain_of_range _ _ _ _ _ A2) as Rg. rewrite Forall_forall in Rg.
             pose proof (Rg _ (nth_error_In _ _ Hk)) as (Q & _). clear - Q Hlt. lia.
          -- rewrite Hoff'. unfold m. clear - Hoff. lia.
          -- cbn [snd]. rewrite Hoff'. reflexivity.
      + (* no cluster: the file is empty *)
        cbn [length] in Hsize.
        assert (E0 : e_size (f_entry f) = 0) by (clear - Hsize; lia).
        assert (Eo : f_offset f = 0) by (clear - Hoff E0; lia).
        exists s, f. split; [|split; [|apply ro_eff_refl; exact (proj2 (proj2 Hres))]].
        * rewrite (lift_ok' _ _ _ _ _ (mgr_read_at_eof h s fi f vi n Hres Hvol ltac:(congruence))).
          cbn [fst]. rewrite E0, Eo.
          replace (N.min n (0 - 0)) with 0 by (clear; lia). reflexivity.
        * cbn [snd].
          assert (Em : N.min n (e_size (f_entry f) - f_offset f) = 0) by (rewrite E0, Eo; clear; lia).
          rewrite Em, N.add_0_r.
          destruct R. constructor; try assumption. reflexivity.
    - (* seek from start *)
      rewrite Hlen, Haoff.
      apply (seek_case_rep s af fi f vi v ch _ _ R (file_seek_from_start_spec s h fi f x Hres)).
      intros n. apply spec_seek_start_ok.
    - rewrite Hlen, Haoff.
      apply (seek_case_rep s af fi f vi v ch _ _ R (file_seek_from_end_spec s h fi f x Hres)).
      intros n. apply spec_seek_end_ok.
    - rewrite Hlen, Haoff.
      apply (seek_case_rep s af fi f vi v ch _ _ R (file_seek_from_current_spec s h fi f z Hres)).
      intros n. apply spec_seek_cur_ok.
    - destruct Hsame as (s' & f' & -> & -> & R' & E'). exists s, f. split; [|split; assumption].
      rewrite (lift_ok' _ _ _ _ _ (C01_file_length s h fi f Hres)). rewrite Hlen. reflexivity.
    - destruct Hsame as (s' & f' & -> & -> & R' & E'). exists s, f. split; [|split; assumption].
      rewrite (lift_ok' _ _ _ _ _ (C01_file_offset s h fi f Hres)). rewrite Haoff. reflexivity.
    - destruct Hsame as (s' & f' & -> & -> & R' & E'). exists s, f. split; [|split; assumption].
      rewrite (lift_ok' _ _ _ _ _ (C01_file_eof s h fi f Hres)). rewrite Hlen, Haoff. reflexivity.
  Qed.

  (* any operation: outcome and next abstract state as the model allows, the new representation
     of the file, the effect on the rest, and - after a space error - a full volume *)
  Theorem rep_step a s af fi f vi v ch : file_rep fsz w h s af fi f vi v ch ->
    exists o s' af1 f' v' ch',
      run_op (cop h a) s = (o, s') /\ astep_rel w a af o af1 /\
      file_rep fsz w h s' af1 fi f' vi v' ch' /\ step_eff vi v fi f ch s s' f' v' ch' /\
      (space_err o = true -> no_free (s_disk s') v').
  Proof.
    intros R.
    pose proof (proj1 (proj2 (proj2 (proj1 (fr_pre _ _ _ _ _ _ _ _ _ _ R))))) as Hvi.
    destruct (is_write a) eqn:Ha.
    2:{ destruct (rep_step_ro a s af fi f vi v ch Ha R) as (s' & f' & Hrun & R' & E').
        exists (fst (astep w a af)), s', (snd (astep w a af)), f', v, ch.
        split; [exact Hrun|]. split; [left; split; reflexivity|]. split; [exact R'|].
        split; [exact (step_eff_of_ro vi v fi f ch s s' f' E' Hvi)|].
        rewrite astep_no_space_err. discriminate. }
    destruct a as [n|data|x|x|z| | |]; try discriminate Ha. clear Ha.
    pose proof (file_rep_len _ _ _ _ _ _ _ _ _ _ R) as Hlen.
    pose proof (file_rep_mw_pre _ _ _ _ _ _ _ _ _ _ R) as Hmw.
    pose proof R as [(R1 & R2 & R3) Hvol Hpre Hfit Hspc Hwf Hchain Hoff Hsize H32 Hmode Hbytes Haoff].
    unfold run_op. cbn [cop step].
    destruct w eqn:Ew; cbn [negb] in Hmode.
    - (* opened for writing *)
      destruct (mgr_write_spec fsz h data s fi f vi v ch Hmw Hmode)
        as (o & s' & Hrun & [(-> & f' & v' & ch' & Q)|[(-> & f' & v' & ch' & k & Hk & Q & Hoffk & Hfull)
                                                     |(-> & Hc0 & Hnone & Hd & Hfiles & Hvols & Htab & Hpre')]]).
      + exists (Ok RUnit), s', (snd (astep true (AWrite data) af)), f', v', ch'.
        split; [exact (lift_ok' _ _ _ _ _ Hrun)|]. split; [left; split; reflexivity|].
        split; [|split; [exact (step_eff_of_post fsz h _ _ _ _ _ _ _ _ _ _ _ _ Q)|intros E; discriminate E]].
        cbn [astep snd]. unfold clip_write. rewrite Haoff.
        pose proof (file_rep_of_post _ _ _ _ _ _ _ _ _ _ _ _ _ _ _ _ R Q) as R'. rewrite Haoff in R'. exact R'.
      + exists (Err DiskFull), s',
          (spec_write (fst af) (snd af) (firstn k (clip_write (snd af) data)), snd af + N.of_nat k), f', v', ch'.
        split; [exact (lift_err' _ _ _ _ _ Hrun)|].
        split.
        { right. exists data. split; [reflexivity|]. split; [reflexivity|]. left. split; [reflexivity|].
          exists k. split; [|reflexivity]. unfold clip_write. rewrite Haoff. exact Hk. }
        split; [|split; [exact (step_eff_of_post fsz h _ _ _ _ _ _ _ _ _ _ _ _ Q)|]].
        * unfold clip_write. rewrite Haoff.
          pose proof (file_rep_of_post _ _ _ _ _ _ _ _ _ _ _ _ _ _ _ _ R Q) as R'.
          rewrite firstn_length in R'. rewrite Haoff in R'.
          replace (N.of_nat (Nat.min k (length (firstn (N.to_nat (N.min (N.of_nat (length data))
                     (MAX_FILE_SIZE - f_offset f))) data)))) with (N.of_nat k) in R' by (clear - Hk; lia).
          exact R'.
        * intros _. destruct (mp_vol _ _ _ _ _ _ _ _ _ _ _ _ _ _ Q) as (nf & fc & ->). exact Hfull.
      + destruct Hchain as [(A1 & _)|(_ & -> & A3)]; [exfalso; clear - A1 Hc0; lia|].
        exists (Err NotEnoughSpace), s', af, (set_f_dirty f true), v, [].
        split; [exact (lift_err' _ _ _ _ _ Hrun)|].
        split.
        { right. exists data. split; [reflexivity|]. split; [reflexivity|]. right. split; [reflexivity|].
          split; [|reflexivity]. rewrite Hlen. cbn [length] in Hsize. clear - Hsize. lia. }
        assert (E' : ro_eff fi f s s' (set_f_dirty f true)) by (repeat split; assumption).
        split; [|split; [exact (step_eff_of_ro vi v fi f [] s s' _ E' Hvi)|intros _; rewrite Hd; exact Hnone]].
        destruct Hpre' as ((Hnf' & Hc' & _) & _).
        destruct Htab as (T1 & T2 & T3 & T4 & T5 & T6 & T7 & T8).
        apply (file_rep_upd fsz true h s s' af af fi f _ vi v [] R); try assumption; try reflexivity;
          intros Hx; exact Hx.
    - (* opened ReadOnly *)
      exists (Err ReadOnlyErr), s, af, f, v, ch. split.
      + apply lift_err'. apply (mgr_write_read_only h data s fi f vi R1 R2 R3 Hvol Hmode).
      + split; [left; split; reflexivity|]. split; [exact R|].
        split; [|intros E; discriminate E].
        apply step_eff_of_ro; [apply ro_eff_refl; exact R3|exact Hvi].
  Qed.
End Step.

(* ================================================================== 2./3. one step on a set of open files *)
Section Multi.
  Variable fsz : N.

  (* the step, on the representation: position i0 of the member list is operated on *)
  Lemma files_rep_step s vi v m rs i0 h w af a :
    files_rep fsz s vi v m rs -> nth_error m i0 = Some (h, w, af) ->
    exists o s' af1 v' r',
      run_op (cop h a) s = (o, s') /\ astep_rel w a af o af1 /\
      (exists nf fc, v' = vol_rebook v nf fc) /\
      files_rep fsz s' vi v' (list_set m i0 (h, w, af1)) (list_set rs i0 r') /\
      (space_err o = true -> no_free (s_disk s') v').
  Proof.
    intros (F & Hdisj & Hnd) Hi0.
    destruct (Forall2_nth_l _ _ _ F i0 _ Hi0) as (((fi & f) & ch) & Hr0 & R0).
    unfold member_rep in R0. cbn [m_wr m_handle m_af r_chain fst snd] in R0.
    destruct (rep_step fsz w h a s af fi f vi v ch R0) as (o & s' & af1 & f' & v' & ch' & Hrun & Hrel & R' & Eff & Hfull).
    exists o, s', af1, v', (fi, f', ch').
    split; [exact Hrun|]. split; [exact Hrel|]. split; [exact (se_vol _ _ _ _ _ _ _ _ _ _ Eff)|].
    split; [|exact Hfull].
    pose proof R' as [(L' & _ & _) _ Hpre' _ _ Hwf' _ _ _ _ _ _ _].
    pose proof (proj2 (proj2 (fr_res _ _ _ _ _ _ _ _ _ _ R0))) as Hfi.
    (* every other position keeps its representation, and its chain avoids the new chain *)
    assert (Hkeep : forall i x r, i <> i0 -> nth_error m i = Some x -> nth_error rs i = Some r ->
              member_rep fsz s vi v x r -> member_rep fsz s' vi v' x r /\ disjoint (r_chain r) ch').
    { intros i [[h2 w2] af2] [[fi2 f2] ch2] Hne Hx Hr R2.
      unfold member_rep in *. cbn [m_wr m_handle m_af r_chain fst snd] in *.
      assert (Hh : h2 <> h).
      { intros ->. apply Hne. exact (NoDup_handles_nth m Hnd i i0 _ _ Hx Hi0 eq_refl). }
      assert (Hfi2 : fi2 <> fi).
      { intros ->. apply Hh. pose proof (fr_res _ _ _ _ _ _ _ _ _ _ R2) as Q2.
        pose proof (fr_res _ _ _ _ _ _ _ _ _ _ R0) as Q0.
        rewrite <- (resolves_id _ _ _ _ Q2), <- (resolves_id _ _ _ _ Q0).
        destruct Q2 as (_ & _ & N2). rewrite Hfi in N2. congruence. }
      apply (other_rep_kept fsz w2 h2 s s' af2 fi2 f2 vi v ch2 fi f f' v' ch ch' R2 Hfi2 Hfi); try assumption.
      exact (Hdisj i i0 _ _ Hne Hr Hr0). }
    split; [|split].
    - apply (Forall2_list_set (member_rep fsz s vi v) (member_rep fsz s' vi v') m rs F i0).
      + exact R'.
      + intros i x r Hne Hx Hr Rx. exact (proj1 (Hkeep i x r Hne Hx Hr Rx)).
    - intros i j a0 b0 Hij Ha Hb.
      destruct (nth_error_list_set_cases _ _ _ _ _ Ha) as [(-> & ->)|(Hi & Ha')];
        destruct (nth_error_list_set_cases _ _ _ _ _ Hb) as [(-> & ->)|(Hj & Hb')].
      + contradiction.
      + destruct (Forall2_nth_r _ _ _ F j _ Hb') as (x & Hx & Rx).
        apply disjoint_sym. exact (proj2 (Hkeep j x b0 Hj Hx Hb' Rx)).
      + destruct (Forall2_nth_r _ _ _ F i _ Ha') as (x & Hx & Rx).
        exact (proj2 (Hkeep i x a0 Hi Hx Ha' Rx)).
      + exact (Hdisj i j a0 b0 Hij Ha' Hb').
    - rewrite map_list_set. cbn [m_handle fst].
      rewrite list_set_same; [exact Hnd|]. rewrite nth_error_map, Hi0. reflexivity.
  Qed.

  (* C01, the isolation half: an operation on member h - a read, a write that stays in place,
     a write that allocates clusters, a write that fails with DiskFull or NotEnoughSpace, a
     seek, a query - leaves the invariant of every OTHER member intact, for the SAME abstract
     state: same bytes, same offset *)
  Theorem C01_other_file_preserved s m h w af a :
    files_inv fsz s m -> In (h, w, af) m ->
    forall h' w' af', In (h', w', af') m -> h' <> h ->
      file_inv fsz w' h' (snd (run_op (cop h a) s)) af'.
  Proof.
    intros (vi & v & rs & FR) Hin h' w' af' Hin' Hne.
    destruct (In_nth_error _ _ Hin) as (i0 & Hi0). destruct (In_nth_error _ _ Hin') as (i & Hi).
    destruct (files_rep_step s vi v m rs i0 h w af a FR Hi0)
      as (o & s' & af1 & v' & r' & Hrun & _ & _ & (F' & _ & _) & _).
    rewrite Hrun. cbn [snd].
    assert (Hii : i <> i0) by (intros ->; rewrite Hi0 in Hi; congruence).
    assert (Hi' : nth_error (list_set m i0 (h, w, af1)) i = Some (h', w', af'))
      by (rewrite ls_nth_other by congruence; exact Hi).
    destruct (Forall2_nth_l _ _ _ F' i _ Hi') as (((fi2 & f2) & ch2) & _ & R2).
    exists fi2, f2, vi, v', ch2. exact R2.
  Qed.

  (* C01 for a set of open files, one step: the operation on member h returns what the
     byte-array model of h returns (or the partial-write outcomes of a full volume), and the
     invariant holds again for the set in which only the abstract state of h has changed *)
  Theorem C01_multi_step s m h w af a :
    files_inv fsz s m -> In (h, w, af) m ->
    exists o s' af1, run_op (cop h a) s = (o, s') /\ astep_rel w a af o af1 /\
      files_inv fsz s' (upd_member h af1 m) /\
      (space_err o = true -> files_inv_full fsz s' (upd_member h af1 m)).
  Proof.
    intros (vi & v & rs & FR) Hin. destruct (In_nth_error _ _ Hin) as (i0 & Hi0).
    destruct (files_rep_step s vi v m rs i0 h w af a FR Hi0)
      as (o & s' & af1 & v' & r' & Hrun & Hrel & _ & FR' & Hfull).
    exists o, s', af1. split; [exact Hrun|]. split; [exact Hrel|].
    rewrite (upd_member_list_set h af1 m i0 w af (proj2 (proj2 FR)) Hi0).
    split; [exists vi, v', (list_set rs i0 r'); exact FR'|].
    intros Hs. exists vi, v', (list_set rs i0 r'). split; [exact FR'|exact (Hfull Hs)].
  Qed.
End Multi.

(* ================================================================== 4. interleaved histories *)
(* a history: a list of (handle, operation) pairs; the results and the final state *)
Fixpoint mrun (ops : list (N * aop)) (s : st) : list (outcome res) * st :=
  match ops with
  | [] => ([], s)
  | (h, a) :: r => let '(o, s1) := run_op (cop h a) s in
                   let '(os, s2) := mrun r s1 in (o :: os, s2)
  end.

(* SPEC side: the byte-array models of the members.  An operation on handle h steps the model
   of h and leaves every other model alone. *)
Definition m_find (h : N) (m : list member) : option member := find (fun x => m_handle x =? h) m.

Fixpoint amrun (ops : list (N * aop)) (m : list member) : list (outcome res) * list member :=
  match ops with
  | [] => ([], m)
  | (h, a) :: r =>
      match m_find h m with
      | Some x => let '(o, af1) := astep (m_wr x) a (m_af x) in
                  let '(os, m2) := amrun r (upd_member h af1 m) in (o :: os, m2)
      | None => ([], m)          (* not an open file of the set: excluded by hypothesis below *)
      end
  end.

(* every operation of the history is on a handle of the set *)
Definition on_members (m : list member) (ops : list (N * aop)) : Prop :=
  Forall (fun p => In (fst p) (map m_handle m)) ops.

(* the operations of the history that are on handle h, and the results at their positions *)
Definition ops_of (h : N) (ops : list (N * aop)) : list aop :=
  map snd (filter (fun p => fst p =? h) ops).
Fixpoint sel (h : N) (ops : list (N * aop)) (os : list (outcome res)) : list (outcome res) :=
  match ops, os with
  | (h', _) :: r, o :: os' => if h' =? h then o :: sel h r os' else sel h r os'
  | _, _ => []
  end.

(* ... decided by computation *)
Lemma on_members_dec m ops :
  forallb (fun p => existsb (N.eqb (fst p)) (map m_handle m)) ops = true -> on_members m ops.
Proof.
  intros H. apply Forall_forall. intros p Hp. rewrite forallb_forall in H.
  apply H in Hp. apply existsb_exists in Hp. destruct Hp as (x & Hx & E).
  apply N.eqb_eq in E. rewrite E. exact Hx.
Qed.

Lemma m_find_member h m : In h (map m_handle m) ->
  exists w af, m_find h m = Some (h, w, af) /\ In (h, w, af) m.
Proof.
  intros Hin. apply in_map_iff in Hin. destruct Hin as (x & Hx & Hin).
  destruct (m_find h m) as [y|] eqn:E.
  - destruct (find_some _ _ E) as (Hy & Hh). apply N.eqb_eq in Hh.
    destruct y as [[h0 w] af]. cbn [m_handle fst] in Hh. subst h0. exists w, af. split; [reflexivity|exact Hy].
  - exfalso. pose proof (find_none _ _ E x Hin) as Hn. cbn beta in Hn. rewrite Hx, N.eqb_refl in Hn. discriminate Hn.
Qed.

Lemma NoDup_handles_In m x y : NoDup (map m_handle m) -> In x m -> In y m -> m_handle x = m_handle y -> x = y.
Proof.
  intros Hnd Hx Hy E. destruct (In_nth_error _ _ Hx) as (i & Hi). destruct (In_nth_error _ _ Hy) as (j & Hj).
  pose proof (NoDup_handles_nth m Hnd i j x y Hi Hj E) as ->. congruence.
Qed.

Lemma In_upd_same h w af af1 m : In (h, w, af) m -> In (h, w, af1) (upd_member h af1 m).
Proof.
  intros Hin. unfold upd_member. apply in_map_iff. exists (h, w, af). split; [|exact Hin].
  cbn [m_handle fst]. rewrite N.eqb_refl. reflexivity.
Qed.

Lemma In_upd_other h0 af1 m x : In x m -> m_handle x <> h0 -> In x (upd_member h0 af1 m).
Proof.
  intros Hin Hne. unfold upd_member. apply in_map_iff. exists x. split; [|exact Hin].
  destruct (N.eqb_spec (m_handle x) h0); [contradiction|reflexivity].
Qed.

Lemma on_members_upd h af1 m ops : on_members m ops -> on_members (upd_member h af1 m) ops.
Proof. unfold on_members. rewrite upd_member_handles. intros H. exact H. Qed.

(* the SPEC side is a product of independent models: the results at the positions of handle h
   are those of the byte-array model of h run on the operations on h alone *)
Theorem amrun_per_file : forall ops m h w af,
  NoDup (map m_handle m) -> on_members m ops -> In (h, w, af) m ->
  sel h ops (fst (amrun ops m)) = fst (arun w (ops_of h ops) af) /\
  In (h, w, snd (arun w (ops_of h ops) af)) (snd (amrun ops m)).
Proof.
  induction ops as [|[h0 a0] r IH]; intros m h w af Hnd Hon Hin; [split; [reflexivity|exact Hin]|].
  inversion Hon as [|? ? Hh0 Hon']; subst. cbn [fst] in Hh0.
  destruct (m_find_member h0 m Hh0) as (w0 & af0 & Hf & Hin0).
  cbn [amrun]. rewrite Hf. cbn [m_wr m_af fst snd].
  destruct (astep w0 a0 af0) as [o af1] eqn:Ea.
  assert (Hnd1 : NoDup (map m_handle (upd_member h0 af1 m))) by (rewrite upd_member_handles; exact Hnd).
  pose proof (on_members_upd h0 af1 m r Hon') as Hon1.
  unfold ops_of. cbn [filter fst].
  destruct (N.eqb_spec h0 h) as [->|Hne].
  - pose proof (NoDup_handles_In m _ _ Hnd Hin0 Hin eq_refl) as E. injection E as -> ->.
    destruct (IH (upd_member h af1 m) h w af1 Hnd1 Hon1 (In_upd_same h w af af1 m Hin)) as (I1 & I2).
    destruct (amrun r (upd_member h af1 m)) as [os m2]. cbn [fst snd sel map arun] in *.
    rewrite N.eqb_refl, Ea. fold (ops_of h r).
    destruct (arun w (ops_of h r) af1) as [os' af2]. cbn [fst snd] in *.
    split; [f_equal; exact I1|exact I2].
  - destruct (IH (upd_member h0 af1 m) h w af Hnd1 Hon1
                (In_upd_other h0 af1 m (h, w, af) Hin ltac:(cbn; congruence))) as (I1 & I2).
    destruct (amrun r (upd_member h0 af1 m)) as [os m2]. cbn [fst snd sel] in *.
    destruct (N.eqb_spec h0 h); [contradiction|]. fold (ops_of h r). split; assumption.
Qed.

Section History.
  Variable fsz : N.

  Lemma files_inv_nodup s m : files_inv fsz s m -> NoDup (map m_handle m).
  Proof. intros (vi & v & rs & _ & _ & H). exact H. Qed.

  (* C01 for a set of open files: for every finite interleaving of reads, writes, seeks and
     queries on the open files of the set - as long as the volume does not run out of clusters,
     i.e. no call reports DiskFull or NotEnoughSpace - every call returns exactly what the
     byte-array models return, and the invariant holds at the end *)
  Theorem C01_multi_history : forall ops s m, files_inv fsz s m -> on_members m ops ->
    existsb space_err (fst (mrun ops s)) = false ->
    fst (mrun ops s) = fst (amrun ops m) /\ files_inv fsz (snd (mrun ops s)) (snd (amrun ops m)).
  Proof.
    induction ops as [|[h a] r IH]; intros s m Hinv Hon Hsp; [split; [reflexivity|exact Hinv]|].
    inversion Hon as [|? ? Hh Hon']; subst. cbn [fst] in Hh.
    destruct (m_find_member h m Hh) as (w & af & Hf & Hin).
    destruct (C01_multi_step fsz s m h w af a Hinv Hin) as (o & s1 & af1 & Hrun & Hrel & Hinv1 & _).
    cbn [mrun amrun] in *. rewrite Hrun in *. rewrite Hf. cbn [m_wr m_af fst snd].
    destruct (mrun r s1) as [os s2] eqn:Er. cbn [fst snd existsb] in Hsp.
    apply orb_false_iff in Hsp. destruct Hsp as [Hsp1 Hsp2].
    destruct (astep_rel_no_space w a af o af1 Hrel Hsp1) as (-> & ->).
    destruct (astep w a af) as [o' af1'] eqn:Ea. cbn [fst snd] in *.
    specialize (IH s1 (upd_member h af1' m) Hinv1 (on_members_upd h af1' m r Hon')).
    rewrite Er in IH. cbn [fst snd] in IH. destruct (IH Hsp2) as (E1 & E2).
    destruct (amrun r (upd_member h af1' m)) as [os' m2]. cbn [fst snd] in *.
    split; [f_equal; exact E1|exact E2].
  Qed.

  (* ... hence, file by file: the results of the calls on handle h are those of the byte-array
     model of h run on the calls on h ALONE - whatever was done to the other files in between *)
  Corollary C01_multi_history_per_file ops s m h w af :
    files_inv fsz s m -> on_members m ops -> existsb space_err (fst (mrun ops s)) = false ->
    In (h, w, af) m ->
    sel h ops (fst (mrun ops s)) = fst (arun w (ops_of h ops) af) /\
    file_inv fsz w h (snd (mrun ops s)) (snd (arun w (ops_of h ops) af)).
  Proof.
    intros Hinv Hon Hsp Hin.
    destruct (C01_multi_history ops s m Hinv Hon Hsp) as (E1 & E2).
    destruct (amrun_per_file ops m h w af (files_inv_nodup s m Hinv) Hon Hin) as (P1 & P2).
    rewrite E1. split; [exact P1|]. exact (files_inv_member fsz _ _ h w _ E2 P2).
  Qed.

  (* "Writing to one file never changes what any other file reads back": after ANY operation a
     on h - in particular a write, successful or not - every operation b that is no write on
     another member h' returns what it would have returned before, namely what the byte-array
     model of h' says *)
  Theorem C01_isolation_op s m h w af h' w' af' a b :
    files_inv fsz s m -> In (h, w, af) m -> In (h', w', af') m -> h' <> h -> is_write b = false ->
    fst (run_op (cop h' b) (snd (run_op (cop h a) s))) = fst (astep w' b af') /\
    fst (run_op (cop h' b) s) = fst (astep w' b af').
  Proof.
    intros Hinv Hin Hin' Hne Hb. split.
    - pose proof (C01_other_file_preserved fsz s m h w af a Hinv Hin h' w' af' Hin' Hne) as I'.
      destruct (C01_file_step_ro fsz w' h' b _ af' Hb I') as (s2 & Hrun & _). rewrite Hrun. reflexivity.
    - pose proof (files_inv_member fsz s m h' w' af' Hinv Hin') as I'.
      destruct (C01_file_step_ro fsz w' h' b _ af' Hb I') as (s2 & Hrun & _). rewrite Hrun. reflexivity.
  Qed.

  Corollary C01_isolation s m h w af h' w' af' data n :
    files_inv fsz s m -> In (h, w, af) m -> In (h', w', af') m -> h' <> h ->
    fst (run_op (Read h' n) (snd (run_op (Write h data) s))) = fst (run_op (Read h' n) s).
  Proof.
    intros Hinv Hin Hin' Hne.
    destruct (C01_isolation_op s m h w af h' w' af' (AWrite data) (ARead n) Hinv Hin Hin' Hne eq_refl) as (E1 & E2).
    cbn [cop] in E1, E2. rewrite E1, E2. reflexivity.
  Qed.
End History.

(* ================================================================== 4'. histories without the proviso *)
(* When the volume may run out of clusters the byte-array model is a relation: a write may
   store a strict prefix and report DiskFull, or store nothing and report NotEnoughSpace
   (astep_rel).  ahist: the histories of ONE byte-array model; mhist: of the set. *)
Inductive ahist (w : bool) : list aop -> afile -> list (outcome res) -> afile -> Prop :=
  | ah_nil af : ahist w [] af [] af
  | ah_cons a r af o af1 os af2 : astep_rel w a af o af1 -> ahist w r af1 os af2 ->
      ahist w (a :: r) af (o :: os) af2.

Inductive mhist : list (N * aop) -> list member -> list (outcome res) -> list member -> Prop :=
  | mh_nil m : mhist [] m [] m
  | mh_cons h a r m w af o af1 os m2 : In (h, w, af) m -> astep_rel w a af o af1 ->
      mhist r (upd_member h af1 m) os m2 -> mhist ((h, a) :: r) m (o :: os) m2.

(* the set is a product of independent models, also relationally *)
Theorem mhist_per_file ops m os m' : mhist ops m os m' -> NoDup (map m_handle m) ->
  forall h w af, In (h, w, af) m ->
  exists af', ahist w (ops_of h ops) af (sel h ops os) af' /\ In (h, w, af') m'.
Proof.
  induction 1 as [m|h0 a0 r m w0 af0 o af1 os m2 Hin0 Hrel _ IH]; intros Hnd h w af Hin.
  - exists af. split; [constructor|exact Hin].
  - assert (Hnd1 : NoDup (map m_handle (upd_member h0 af1 m))) by (rewrite upd_member_handles; exact Hnd).
    unfold ops_of. cbn [filter fst sel].
    destruct (N.eqb_spec h0 h) as [->|Hne].
    + pose proof (NoDup_handles_In m _ _ Hnd Hin0 Hin eq_refl) as E. injection E as -> ->.
      destruct (IH Hnd1 h w af1 (In_upd_same h w af af1 m Hin)) as (af' & A1 & A2).
      exists af'. split; [|exact A2]. cbn [map snd]. econstructor; [exact Hrel|exact A1].
    + exact (IH Hnd1 h w af (In_upd_other h0 af1 m (h, w, af) Hin ltac:(cbn; congruence))).
Qed.

Section HistoryFull.
  Variable fsz : N.

  (* C01 for a set of open files, every finite interleaving, no proviso: the results form a
     history of the byte-array models, and the invariant holds at the end *)
  Theorem C01_multi_history_full : forall ops s m, files_inv fsz s m -> on_members m ops ->
    exists m', mhist ops m (fst (mrun ops s)) m' /\ files_inv fsz (snd (mrun ops s)) m'.
  Proof.
    induction ops as [|[h a] r IH]; intros s m Hinv Hon.
    - exists m. split; [constructor|exact Hinv].
    - inversion Hon as [|? ? Hh Hon']; subst. cbn [fst] in Hh.
      destruct (m_find_member h m Hh) as (w & af & _ & Hin).
      destruct (C01_multi_step fsz s m h w af a Hinv Hin) as (o & s1 & af1 & Hrun & Hrel & Hinv1 & _).
      destruct (IH s1 (upd_member h af1 m) Hinv1 (on_members_upd h af1 m r Hon')) as (m' & H1 & H2).
      cbn [mrun]. rewrite Hrun. destruct (mrun r s1) as [os s2]. cbn [fst snd] in *.
      exists m'. split; [|exact H2]. econstructor; [exact Hin|exact Hrel|exact H1].
  Qed.

  (* file by file: the results of the calls on h form a history of the byte-array model of h
     on the calls on h alone - also when some writes (on h or on other files) hit a full volume *)
  Corollary C01_multi_history_full_per_file ops s m h w af :
    files_inv fsz s m -> on_members m ops -> In (h, w, af) m ->
    exists af', ahist w (ops_of h ops) af (sel h ops (fst (mrun ops s))) af' /\
                file_inv fsz w h (snd (mrun ops s)) af'.
  Proof.
    intros Hinv Hon Hin. destruct (C01_multi_history_full ops s m Hinv Hon) as (m' & H1 & H2).
    destruct (mhist_per_file _ _ _ _ H1 (files_inv_nodup fsz s m Hinv) h w af Hin) as (af' & A1 & A2).
    exists af'. split; [exact A1|]. exact (files_inv_member fsz _ _ h w _ H2 A2).
  Qed.
End HistoryFull.

(* ================================================================== the hypotheses are satisfiable *)
(* PrRw's example volume (FAT16, 100 clusters of 2 blocks) with TWO open files: PrRw's file of
   1500 bytes in clusters 2 -> 3, handle 7, offset 700; and a file that was created empty
   (first cluster 0, no chain), handle 8.  Both are open for writing. *)
Definition exm_file2 : fileinfo :=
  mk_fileinfo 8 0 0 0 0 ReadWriteCreate (set_e_size (set_e_cluster exr_entry 0) 0) false.
Definition exm_state : st :=
  mk_st exd_disk zero_block None [exd_vol] [] [exr_file; exm_file2] 9 0 0 [] [] false 1 1 1.
Definition exm_members : list member := [(7, true, exs_afile); (8, true, ([], 0))].

(* an interleaved history: the first write to 8 allocates its first cluster (4), the write to 7
   extends its chain (cluster 5), the second write to 8 extends the chain of 8 (cluster 6) -
   the two chains interleave on the disk - then both files are read back *)
Definition exm_ops : list (N * aop) :=
  [(8, AWrite [10; 20; 30]); (7, AWrite (repeat 7 2000)); (8, AWrite (repeat 9 1500));
   (7, ASeekStart 698); (8, ASeekStart 0); (7, ARead 4); (8, ARead 5); (7, ALen); (8, ALen);
   (8, ASeekEnd 2); (7, AEof); (8, ARead 10); (8, AEof); (7, ASeekCur 1997); (7, ARead 9);
   (8, ASeekStart 4000); (7, AOff); (8, AOff)].

Lemma exm_alloc_pre : alloc_pre exm_state 0 exd_vol 1.
Proof.
  split; [|split; [exact exd_layout|intros c E; discriminate E]].
  split; [intros n H; destruct H|]. split; [intros i H; discriminate H|]. split; [reflexivity|].
  intros k _. apply exd_disk_wf.
Qed.

Example multi_example :
  files_inv 1 exm_state exm_members /\ on_members exm_members exm_ops /\
  (* the interleaved history, computed on both sides *)
  fst (mrun exm_ops exm_state) = fst (amrun exm_ops exm_members) /\
  existsb space_err (fst (mrun exm_ops exm_state)) = false /\
  (* file by file, against the two byte-array models run independently *)
  sel 7 exm_ops (fst (mrun exm_ops exm_state)) = fst (arun true (ops_of 7 exm_ops) exs_afile) /\
  sel 8 exm_ops (fst (mrun exm_ops exm_state)) = fst (arun true (ops_of 8 exm_ops) ([], 0)) /\
  sel 7 exm_ops (fst (mrun exm_ops exm_state)) =
    [Ok RUnit; Ok RUnit; Ok (RBytes [0; 0; 7; 7]); Ok (RNum 2700); Ok (RBool false); Ok RUnit;
     Ok (RBytes [7]); Ok (RNum 2700)] /\
  sel 8 exm_ops (fst (mrun exm_ops exm_state)) =
    [Ok RUnit; Ok RUnit; Ok RUnit; Ok (RBytes [10; 20; 30; 9; 9]); Ok (RNum 1503); Ok RUnit;
     Ok (RBytes [9; 9]); Ok (RBool true); Err InvalidOffset; Ok (RNum 1503)] /\
  (* the chains of the two files interleave on the disk *)
  (let d := s_disk (snd (mrun exm_ops exm_state)) in
   chain_of d exd_vol 2 9 = Some [2; 3; 5] /\ chain_of d exd_vol 4 9 = Some [4; 6]).
Proof.
  split; [|split; [|split; [vm_compute; reflexivity|split; [vm_compute; reflexivity|
    split; [vm_compute; reflexivity|split; [vm_compute; reflexivity|split; [vm_compute; reflexivity|
    split; [vm_compute; reflexivity|cbv zeta; split; vm_compute; reflexivity]]]]]]]].
  - exists 0%nat, exd_vol, [(0%nat, exr_file, [2; 3]); (1%nat, exm_file2, [])].
    split; [|split].
    + constructor; [|constructor; [|constructor]]; unfold member_rep; cbn [m_wr m_handle m_af r_chain fst snd].
      * constructor; try reflexivity; try exact exm_alloc_pre; try exact exd_disk_wf;
          try (vm_compute; discriminate).
        -- repeat split; reflexivity.
        -- left. split; [vm_compute; discriminate|].
           split; [exists 5%nat; vm_compute; reflexivity|exists 0%nat; split; reflexivity].
      * constructor; try reflexivity; try exact exm_alloc_pre; try exact exd_disk_wf;
          try (vm_compute; discriminate).
        -- repeat split; reflexivity.
        -- right. split; [reflexivity|]. split; reflexivity.
    + intros i j a b Hij Ha Hb.
      destruct i as [|[|i]]; destruct j as [|[|j]]; cbn [nth_error] in Ha, Hb;
        try contradiction; try (destruct i; discriminate Ha); try (destruct j; discriminate Hb);
        injection Ha as <-; injection Hb as <-; intros y Hy Hy'; cbn in Hy, Hy'; tauto.
    + cbn. repeat constructor; cbn; intuition discriminate.
  - apply on_members_dec. vm_compute. reflexivity.
Qed.

Print Assumptions files_inv_single.
Print Assumptions file_rep_rebook.
Print Assumptions other_rep_kept.
Print Assumptions rep_step.
Print Assumptions C01_other_file_preserved.
Print Assumptions C01_multi_step.
Print Assumptions amrun_per_file.
Print Assumptions C01_multi_history.
Print Assumptions C01_multi_history_per_file.
Print Assumptions C01_isolation_op.
Print Assumptions C01_isolation.
Print Assumptions mhist_per_file.
Print Assumptions C01_multi_history_full.
Print Assumptions C01_multi_history_full_per_file.
Print Assumptions multi_example.
