(* PROOFS: step_fault for CloseFile: the flush inside is a prefix run (PrFaultDef3.pfx_flush_file), the
   handler only removes the handle from the file table and hands the flush error on. *)
From Coq Require Import NArith ZArith List Bool Lia Arith FMapPositive.
From SdFs Require Import FsTypes FsBase FsFat FsMgr FsLemmas PrBase PrAllocEffect PrChain PrFault PrGlobalDef.
From SdFs Require PrHandles PrCrash PrGlobal PrCrashAll.
From SdFs Require Import PrFault2 PrCrashDef PrCrashDef2 PrCrashDef4 PrFaultDef PrFaultDef2 PrFaultDef3 PrFaultDef4 PrFaultDef5.
Import ListNotations.
Open Scope N_scope.

Definition is_err {A} (r : outcome A) : Prop := exists e, r = Err e.

Lemma pfxG_ret {A} (T : outcome A -> Prop) (a : A) : pfxG T (ret a).
Proof. intros s r s' E. injection E as <- <-. exists []. split; [apply tr_ext_refl|left; reflexivity]. Qed.

Lemma pfxG_lift_err {A} (f : A -> res) (m : M A) : pfxG is_err m -> pfxG is_err (lift f m).
Proof.
  intros Hm. unfold lift. apply (pfxG_bind_err is_err is_err); [exact Hm|intros a; apply pfxG_ret|].
  intros r1 (e & ->). split; [intros a; discriminate|exists e; reflexivity].
Qed.

Lemma pfx_is_err {A} (m : M A) : pfx m -> pfxG is_err m.
Proof. intros H. apply (pfxG_weaken (fun r => r = Err DeviceError)); [intros r ->; eexists; reflexivity|exact H]. Qed.

Lemma pfxG_close_file h : pfxG is_err (close_file h).
Proof.
  unfold close_file.
  apply (pfxG_bind (caught (fun r => r = Err DeviceError)) is_err).
  - apply pfxG_try. apply pfxG_of_pfx, pfx_flush_file.
  - intros x. apply pfx_is_err. apply pfx_locked. pfx_go.
  - intros r1 s1 r s' Hc E.
    assert (Hr1 : r1 = Ok (inr DeviceError)).
    { destruct r1 as [[a|e]| | |]; cbn in Hc; try discriminate; try contradiction. injection Hc as ->. reflexivity. }
    subst r1. cbn [tail] in E. unfold locked in E. rewrite PrHandles.bind_get in E.
    destruct (s_lock s1); [injection E as <- <-; split; [eexists; reflexivity|apply tr_ext_refl]|].
    unfold bind at 1 in E. rewrite PrHandles.get_file_by_id_eq in E.
    destruct (find_idx _ _ _); [|injection E as <- <-; split; [eexists; reflexivity|apply tr_ext_refl]].
    unfold bind, modify, fail in E. injection E as <- <-.
    split; [eexists; reflexivity|apply tr_ext_same; reflexivity].
Qed.

Lemma pfxG_step_CloseFile h : pfxG is_err (step (CloseFile h)).
Proof. cbn [step]. apply pfxG_lift_err, pfxG_close_file. Qed.

Theorem step_fault_CloseFile fsz vid h : step_fault fsz vid (CloseFile h).
Proof.
  intros s i r s' v Hinv Hid Hok Hv E Hreach.
  destruct (fault_err (CloseFile h) eq_refl s i r s' E Hreach) as (e & ->).
  pose proof (fs_inv_lock _ _ _ Hinv) as Hl.
  assert (Hnd : NoDup (PrHandles.fids s)).
  { destruct Hinv as (vi & v0 & bl & rch & T & Hat). exact (fi_fids _ _ _ _ _ _ _ _ Hat). }
  assert (Hin : In h (PrHandles.fids s)).
  { destruct (in_dec N.eq_dec h (PrHandles.fids s)) as [H|H]; [exact H|]. exfalso.
    assert (Hno : PrHandles.no_file h (arm s i)).
    { intros f Hf Ef. apply H. unfold PrHandles.fids. rewrite <- Ef. apply in_map. exact Hf. }
    destruct (PrHandles.C08_stale_file_handle h (arm s i) Hl Hno) as (_ & _ & _ & Hc & _).
    rewrite Hc in E. injection E as _ <-. cbn in Hreach. lia. }
  destruct (C11_close_file_after_fault h (arm s i) (Err e) s' Hl Hnd Hin E ltac:(discriminate) ltac:(discriminate))
    as (_ & Hrm & _ & _ & Hvi & Hdi & Hl' & _).
  constructor.
  - eexists; reflexivity.
  - split; [exact Hl'|]. split; [exact Hvi|]. split; [exact Hdi|exact Hrm].
  - exact (fault_crash fsz vid _ (pfxG_step_CloseFile h) s i _ s' v Hinv Hid Hok Hv E).
  - exact (fault_keep fsz vid _ (pfxG_step_CloseFile h) s i _ s' v Hinv Hid Hok Hv E).
  - discriminate.
  - discriminate.
Qed.

Print Assumptions step_fault_CloseFile.
