(* PROOFS: C10 / C09 for OpenFile, part 1: the crashed media of the two FAT primitives an open
   runs (truncate_cluster_chain on the chain of a file node; alloc_cluster with zeroing behind
   the last cluster of a directory chain), as crash_inv_at facts with EXPLICIT trees and lost lists.
   1  FAT level: fat_wf depends on the entries of the first copy only; a chain that is cut at
      its head and freed from the front up to any point (wf_cut_partial: the rest is one lost chain)
   2  the crash invariant when the chain of a file node is cut (no bound on the recorded size)
   3  every prefix of truncate_cluster_chain on the chain of a file node (trunc_prefix_inv)
   4  every prefix of alloc_cluster that grows a directory (grow_prefix_inv): the tree is the old
      one (new cluster free, or a lost one-cluster chain) or the one with the longer directory
      chain, whose new cluster then reads as end markers *)
From Coq Require Import NArith ZArith List Bool Lia Arith ZifyClasses ZifyInst Zify FMapPositive Permutation.
From SdFs Require Import FsTypes FsBase FsFat FsMgr FsLemmas PrBase PrFat PrAlloc PrDir PrSeek PrAllocEffect
  PrRw PrWrite PrFileSeq PrMulti PrEntry PrChain PrCount PrWf PrOpenClose PrGlobalDef PrGlobalWrite PrGlobalOpen PrGlobalOpen2.
From SdFs Require PrModes PrHandles PrBounds PrOrder.
From SdFs Require Import PrCrash PrCrashDef PrCrashDef2 PrCrashDef3 PrCrashDef4.
Import ListNotations.
Open Scope N_scope.
Local Arguments N.mul : simpl never.
Local Arguments N.add : simpl never.
Local Arguments N.sub : simpl never.
Local Arguments N.div : simpl never.
Local Arguments N.modulo : simpl never.
Local Arguments N.land : simpl never.
Local Arguments N.lor : simpl never.
Local Arguments N.min : simpl never.
Local Arguments N.max : simpl never.
Local Ltac Zify.zify_post_hook ::= Z.to_euclidean_division_equations.

(* ================================================================== 1. FAT level *)
(* fat_wf reads the first FAT copy only, and only the entries of the data clusters *)
Lemma fat_wf_get_ext d d' v hs :
  (forall x, 2 <= x -> x < v_clusters v + 2 -> fat_get d' v 0 x = fat_get d v 0 x) ->
  fat_wf d v hs ->
  fat_wf d' v hs /\ (forall h ch, chain_at d v h ch -> chain_at d' v h ch).
Proof.
  intros Hsame W.
  assert (Hch : forall h ch, chain_at d v h ch -> chain_at d' v h ch).
  { intros h ch H. apply (PrChain.chain_of_frame d d' v _ _ _ H). intros x Hx.
    destruct (chain_at_mem d v h ch x H Hx) as (A & B & _). exact (Hsame x A B). }
  split; [|exact Hch].
  apply (wf_intro d' v hs (chain_l d v)).
  - exact (wf_heads _ _ _ W).
  - intros h Hh. exact (Hch _ _ (wf_l_def d v hs h W Hh)).
  - intros h1 h2 x. apply wf_l_disj. exact W.
  - intros x X1 X2. rewrite (Hsame x X1 X2). exact (wf_l_used d v hs x W X1 X2).
Qed.

(* the head of what is left of a chain: nothing, or one lost head *)
Definition lost_of (l : list N) : list N := match l with [] => [] | y :: _ => [y] end.

Lemma nodup_split_unique (x : N) : forall a b a' b', NoDup (a ++ x :: b) -> a ++ x :: b = a' ++ x :: b' -> a = a' /\ b = b'.
Proof.
  induction a as [|y a IH]; intros b a' b' Hnd E.
  - destruct a' as [|y' a']; [injection E as <-; split; reflexivity|].
    cbn [app] in E. injection E as <- E. exfalso. cbn [app] in Hnd. inversion Hnd as [|? ? Hni _]; subst.
    apply Hni. apply in_or_app. right. left. reflexivity.
  - destruct a' as [|y' a'].
    + cbn [app] in E. injection E as -> E. exfalso. cbn [app] in Hnd. inversion Hnd as [|? ? Hni _]; subst.
      apply Hni. apply in_or_app. right. left. reflexivity.
    + cbn [app] in E, Hnd. injection E as <- E. inversion Hnd as [|? ? _ Hnd']; subst.
      destruct (IH b a' b' Hnd' E) as (-> & ->). split; reflexivity.
Qed.

(* the chain h :: rest is cut behind h (h := end of chain) and the first m clusters of rest are
   free; the others keep their entries: they form ONE chain that nothing references *)
Lemma wf_cut_partial d d' v hs h rest m :
  fat_wf d v hs -> In h hs -> chain_at d v h (h :: rest) -> rest <> [] ->
  fat_get d' v 0 h = enc v CL_EOF ->
  (forall y, In y (firstn m rest) -> fat_get d' v 0 y = 0) ->
  (forall x, 2 <= x -> x < v_clusters v + 2 -> x <> h -> ~ In x (firstn m rest) -> fat_get d' v 0 x = fat_get d v 0 x) ->
  fat_wf d' v (hs ++ lost_of (skipn m rest)) /\ chain_at d' v h [h] /\
  (forall h2 ch2, In h2 hs -> h2 <> h -> chain_at d v h2 ch2 -> chain_at d' v h2 ch2).
Proof.
  intros W Hh Hch Hne Ehd Efr Ho.
  assert (ELh : chain_l d v h = h :: rest) by (apply chain_l_at; exact Hch).
  pose proof (chain_at_nodup _ _ _ _ Hch) as Hnd. inversion Hnd as [|? ? Hhni Hndr]; subst.
  destruct (chain_at_mem d v h _ h Hch (or_introl eq_refl)) as (H1 & H2 & _).
  assert (Hnew : chain_at d' v h [h]).
  { apply (chain_at_any d' v h 1). apply PrCrash.chain_single; [exact H1|exact H2| |]; rewrite Ehd.
    - exact (proj1 (PrCrash.eof_is_end v)).
    - exact (proj2 (PrCrash.eof_is_end v)). }
  assert (Hoth : forall h2, In h2 hs -> h2 <> h -> chain_at d' v h2 (chain_l d v h2)).
  { intros h2 Hh2 Hne2. apply (PrChain.chain_of_frame d d' v _ _ _ (wf_l_def d v hs h2 W Hh2)).
    intros x Hx. destruct (wf_l_mem d v hs h2 x W Hh2 Hx) as (A & B & C).
    assert (Hni : ~ In x (chain_l d v h)) by (intros Hin; apply Hne2; exact (wf_l_disj d v hs h2 h x W Hh2 Hh Hx Hin)).
    rewrite ELh in Hni. apply Ho; [exact A|exact B|intros ->; apply Hni; left; reflexivity|].
    intros Hin. apply Hni. right. exact (PrCrash.firstn_In _ _ _ Hin). }
  assert (Hkeep : forall h2 ch2, In h2 hs -> h2 <> h -> chain_at d v h2 ch2 -> chain_at d' v h2 ch2).
  { intros h2 ch2 Hh2 Hne2 Hat. rewrite <- (chain_l_at _ _ _ _ Hat). exact (Hoth h2 Hh2 Hne2). }
  split; [|split; [exact Hnew|exact Hkeep]].
  assert (Hrest_in : forall y, In y rest -> forall h', In h' hs -> In y (chain_l d v h') -> h' = h).
  { intros y Hy h' Hh' Hin. apply (wf_l_disj d v hs h' h y W Hh' Hh Hin). rewrite ELh. right. exact Hy. }
  destruct (skipn m rest) as [|y tl] eqn:Esk.
  - (* everything behind h is free *)
    cbn [lost_of]. rewrite app_nil_r.
    assert (Hall : forall z, In z rest -> In z (firstn m rest)).
    { intros z Hz. rewrite <- (firstn_skipn m rest), Esk, app_nil_r in Hz. exact Hz. }
    set (G := fun h' => if h' =? h then [h] else chain_l d v h').
    assert (Gsub : forall h' x, In x (G h') -> In x (chain_l d v h')).
    { intros h' x. unfold G. destruct (N.eqb_spec h' h) as [->|_]; [|exact (fun H => H)].
      intros [<-|[]]. rewrite ELh. left. reflexivity. }
    apply (wf_intro d' v hs G).
    + exact (wf_heads _ _ _ W).
    + intros h' Hh'. unfold G. destruct (N.eqb_spec h' h) as [->|Hne']; [exact Hnew|exact (Hoth h' Hh' Hne')].
    + intros h1 h2 x Hh1 Hh2 X1 X2. exact (wf_l_disj d v hs h1 h2 x W Hh1 Hh2 (Gsub _ _ X1) (Gsub _ _ X2)).
    + intros x X1 X2. destruct (in_dec N.eq_dec x rest) as [Hxr|Hxr].
      { rewrite (Efr x (Hall x Hxr)). split; [intros E; contradiction E; reflexivity|].
        intros (h' & Hh' & Hin). pose proof (Hrest_in x Hxr h' Hh' (Gsub _ _ Hin)) as ->.
        unfold G in Hin. rewrite N.eqb_refl in Hin. destruct Hin as [<-|[]]. contradiction. }
      destruct (N.eq_dec x h) as [->|Hxh].
      { split; [|intros _; rewrite Ehd; apply enc_eof_nz].
        intros _. exists h. split; [exact Hh|]. unfold G. rewrite N.eqb_refl. left. reflexivity. }
      rewrite (Ho x X1 X2 Hxh (fun Hin => Hxr (PrCrash.firstn_In _ _ _ Hin))), (wf_l_used d v hs x W X1 X2).
      split; intros (h' & Hh' & Hin); exists h'; (split; [exact Hh'|]).
      * unfold G. destruct (N.eqb_spec h' h) as [->|_]; [|exact Hin].
        rewrite ELh in Hin. destruct Hin as [E|Hin]; [congruence|contradiction].
      * exact (Gsub _ _ Hin).
  - (* y :: tl is left: a lost chain *)
    cbn [lost_of].
    assert (Erest : rest = firstn m rest ++ y :: tl) by (rewrite <- Esk; symmetry; apply firstn_skipn).
    assert (Hy : In y rest) by (rewrite Erest; apply in_or_app; right; left; reflexivity).
    assert (Htl_in : forall z, In z (y :: tl) -> In z rest) by (intros z Hz; rewrite Erest; apply in_or_app; right; exact Hz).
    assert (Htl_nf : forall z, In z (y :: tl) -> ~ In z (firstn m rest)).
    { intros z Hz. apply (PrCrash.nodup_firstn_skipn rest m z Hndr). rewrite Esk. exact Hz. }
    assert (Hychain : chain_at d v y (y :: tl)).
    { destruct (chain_split d v _ h _ Hch y (or_intror Hy)) as (pre & ly & E & Hly).
      destruct (chain_at_head _ _ _ _ Hly) as (r & ->).
      assert (E2 : (h :: firstn m rest) ++ y :: tl = pre ++ y :: r) by (cbn [app]; rewrite <- Erest; exact E).
      assert (Hnd2 : NoDup ((h :: firstn m rest) ++ y :: tl)) by (cbn [app]; rewrite <- Erest; exact Hnd).
      destruct (nodup_split_unique y _ _ _ _ Hnd2 E2) as (_ & <-). exact Hly. }
    assert (Hynew : chain_at d' v y (y :: tl)).
    { apply (PrChain.chain_of_frame d d' v _ _ _ Hychain). intros x Hx.
      destruct (chain_at_mem d v y _ x Hychain Hx) as (A & B & _).
      apply Ho; [exact A|exact B| |exact (Htl_nf x Hx)]. intros ->. apply Hhni. exact (Htl_in _ Hx). }
    assert (Hynot : ~ In y hs).
    { intros Hin. assert (E : y = h).
      { apply (wf_l_disj d v hs y h y W Hin Hh); [|rewrite ELh; right; exact Hy].
        exact (chain_at_head_in _ _ _ _ (wf_l_def d v hs y W Hin)). }
      subst y. contradiction. }
    set (G := fun h' => if h' =? h then [h] else if h' =? y then y :: tl else chain_l d v h').
    assert (Gsub : forall h' x, In h' hs -> In x (G h') -> In x (chain_l d v h')).
    { intros h' x Hh'. unfold G. destruct (N.eqb_spec h' h) as [->|_].
      - intros [<-|[]]. rewrite ELh. left. reflexivity.
      - destruct (N.eqb_spec h' y) as [->|_]; [contradiction|exact (fun H => H)]. }
    assert (Gy : G y = y :: tl).
    { unfold G. destruct (N.eqb_spec y h) as [E|_]; [subst y; contradiction|]. rewrite N.eqb_refl. reflexivity. }
    assert (Gtl : forall h' x, In h' hs -> In x (y :: tl) -> ~ In x (G h')).
    { intros h' x Hh' Hx Hin. pose proof (Hrest_in x (Htl_in x Hx) h' Hh' (Gsub h' x Hh' Hin)) as ->.
      unfold G in Hin. rewrite N.eqb_refl in Hin. destruct Hin as [<-|[]]. apply Hhni. exact (Htl_in _ Hx). }
    apply (wf_intro d' v (hs ++ [y]) G).
    + apply NoDup_snoc; [exact (wf_heads _ _ _ W)|exact Hynot].
    + intros h' Hh'. apply in_app_or in Hh'. destruct Hh' as [Hh'|[<-|[]]]; [|rewrite Gy; exact Hynew].
      unfold G. destruct (N.eqb_spec h' h) as [->|Hne']; [exact Hnew|].
      destruct (N.eqb_spec h' y) as [->|_]; [contradiction|exact (Hoth h' Hh' Hne')].
    + intros h1 h2 x Hh1 Hh2 X1 X2.
      apply in_app_or in Hh1. apply in_app_or in Hh2.
      destruct Hh1 as [Hh1|[<-|[]]], Hh2 as [Hh2|[<-|[]]].
      * exact (wf_l_disj d v hs h1 h2 x W Hh1 Hh2 (Gsub _ _ Hh1 X1) (Gsub _ _ Hh2 X2)).
      * rewrite Gy in X2. contradiction (Gtl h1 x Hh1 X2 X1).
      * rewrite Gy in X1. contradiction (Gtl h2 x Hh2 X1 X2).
      * reflexivity.
    + intros x X1 X2. destruct (in_dec N.eq_dec x (firstn m rest)) as [Hxf|Hxf].
      { rewrite (Efr x Hxf). split; [intros E; contradiction E; reflexivity|].
        intros (h' & Hh' & Hin). apply in_app_or in Hh'. destruct Hh' as [Hh'|[<-|[]]].
        - pose proof (Hrest_in x (PrCrash.firstn_In _ _ _ Hxf) h' Hh' (Gsub _ _ Hh' Hin)) as ->.
          unfold G in Hin. rewrite N.eqb_refl in Hin. destruct Hin as [<-|[]].
          exfalso. apply Hhni. exact (PrCrash.firstn_In _ _ _ Hxf).
        - rewrite Gy in Hin. exfalso. exact (Htl_nf x Hin Hxf). }
      destruct (N.eq_dec x h) as [->|Hxh].
      { split; [|intros _; rewrite Ehd; apply enc_eof_nz].
        intros _. exists h. split; [apply in_or_app; left; exact Hh|]. unfold G. rewrite N.eqb_refl. left. reflexivity. }
      rewrite (Ho x X1 X2 Hxh Hxf), (wf_l_used d v hs x W X1 X2).
      split.
      * intros (h' & Hh' & Hin). destruct (N.eq_dec h' h) as [->|Hne'].
        -- rewrite ELh in Hin. destruct Hin as [E|Hin]; [congruence|].
           rewrite Erest in Hin. apply in_app_or in Hin. destruct Hin as [Hin|Hin]; [contradiction|].
           exists y. split; [apply in_or_app; right; left; reflexivity|rewrite Gy; exact Hin].
        -- exists h'. split; [apply in_or_app; left; exact Hh'|]. unfold G.
           destruct (N.eqb_spec h' h) as [E|_]; [contradiction|].
           destruct (N.eqb_spec h' y) as [->|_]; [contradiction|exact Hin].
      * intros (h' & Hh' & Hin). apply in_app_or in Hh'. destruct Hh' as [Hh'|[<-|[]]].
        -- exists h'. split; [exact Hh'|exact (Gsub _ _ Hh' Hin)].
        -- rewrite Gy in Hin. exists h. split; [exact Hh|]. rewrite ELh. right. exact (Htl_in _ Hin).
Qed.

(* ================================================================== 2. the chain of a file node is cut: crash invariant *)
Section CrashChainChange.
  Variables (d d' : disk) (v : vol) (p : N * N) (e1 : dirent) (ch1 : list N) (T : list node).
  Hypothesis Hdirs : forall e ch kids, In (NDir e ch kids) (all_nodes T) ->
    forall j, In j (data_blocks v ch) -> disk_get d' j = disk_get d j.

  Lemma crash_node_ok_chain : forall n, (forall m, In m (flatten n) -> In m (all_nodes T)) ->
    forall par, node_ok_crash d v par n -> node_ok_crash d' v par (node_replace p (NFile e1 ch1) n).
  Proof.
    induction n as [e ch|e ch kids IH] using node_ind'; intros Hsub par H.
    - cbn [node_replace]. destruct (pos_eqb (node_pos (NFile e ch)) p); exact I.
    - cbn [node_replace]. destruct (pos_eqb (node_pos (NDir e ch kids)) p); [exact I|].
      apply node_ok_crash_dir in H. apply node_ok_crash_dir. destruct H as (A & B). split.
      + apply (dir_ok_frame d d' v); [|exact A]. exact (Hdirs e ch kids (Hsub _ (flatten_self _))).
      + rewrite Forall_forall in *. intros k Hk. apply in_map_iff in Hk. destruct Hk as (k0 & <- & Hk0).
        apply (IH k0 Hk0); [|exact (B k0 Hk0)]. intros m Hm. apply Hsub. exact (flatten_kid e ch kids k0 m Hk0 Hm).
  Qed.

  Lemma crash_forest_ok_chain par : Forall (node_ok_crash d v par) T ->
    Forall (node_ok_crash d' v par) (forest_replace p (NFile e1 ch1) T).
  Proof.
    rewrite !Forall_forall. intros H k Hk. apply in_map_iff in Hk. destruct Hk as (k0 & <- & Hk0).
    apply (crash_node_ok_chain k0); [|exact (H k0 Hk0)]. intros m Hm. apply in_flat_map. exists k0. split; assumption.
  Qed.
End CrashChainChange.

(* PrGlobalOpen.go_disk_inv_cut without the bound on the recorded size, and with any list of
   lost heads on the new medium *)
Theorem crash_inv_cut d d' v bl rch T pend lost' e ch :
  disk_inv d v bl rch T pend ->
  (forall j, In j bl -> disk_get d' j = disk_get d j) ->
  (forall e0 ch0 kids0, In (NDir e0 ch0 kids0) (all_nodes T) ->
     forall j, In j (data_blocks v ch0) -> disk_get d' j = disk_get d j) ->
  In (NFile e ch) (all_nodes T) -> 2 <= e_cluster e ->
  chain_at d' v (e_cluster e) [e_cluster e] ->
  (forall h2 ch2, In h2 (heads v T ++ pend) -> h2 <> e_cluster e -> chain_at d v h2 ch2 -> chain_at d' v h2 ch2) ->
  fat_wf d' v (heads v T ++ lost') ->
  crash_inv_at d' v bl rch (forest_replace (node_pos (NFile e ch)) (NFile e [e_cluster e]) T) lost'.
Proof.
  intros [A B C D E F] Hbl Hdirs Hin Hc2 Hnew Hkeep W'.
  set (c := e_cluster e) in *. set (p := node_pos (NFile e ch)). set (n1 := NFile e [c]).
  destruct (heads_nodup v T pend (wf_heads _ _ _ E)) as (N1 & N2 & N3 & N4).
  assert (Hown : own_head (NFile e ch) = [c]) by (cbn [own_head]; fold c; apply N.leb_le in Hc2; rewrite Hc2; reflexivity).
  assert (Hcin : In c (flat_map node_heads T)) by (apply (own_head_in T _ c Hin); rewrite Hown; left; reflexivity).
  assert (Hhead : forall m h, In m (all_nodes T) -> In h (own_head m) -> In h (heads v T ++ pend))
    by (intros m h Hm Hh; apply in_or_app; left; unfold heads; apply in_or_app; right; exact (own_head_in T m h Hm Hh)).
  assert (Hother : forall m h, In m (all_nodes T) -> node_pos m <> p -> In h (own_head m) -> h <> c).
  { intros m h Hm Hpos Hh ->. apply Hpos.
    assert (Hc0 : In c (own_head (NFile e ch))) by (rewrite Hown; left; reflexivity).
    rewrite (flat_map_owner own_head _ N1 _ _ _ Hm Hin Hh Hc0). reflexivity. }
  constructor.
  - unfold root_dir in *. destruct (v_fat32 v) eqn:E32; [|exact A]. destruct A as (A1 & A2). split; [|exact A2].
    assert (Hr : In (v_root_cluster v) (root_heads v)) by (unfold root_heads; rewrite E32; left; reflexivity).
    apply (Hkeep _ _ ltac:(apply in_or_app; left; unfold heads; apply in_or_app; left; exact Hr)); [|exact A1].
    intros Eq. apply (proj1 (N3 _ Hr)). rewrite Eq. exact Hcin.
  - apply (go_tree_rep_chain d d' v p n1 T Hdirs); [| | |exact Hbl|exact B].
    + intros e0 ch0 H0 Hp0 [(X1 & fu & X2)|X]; [left|right; exact X]. split; [exact X1|]. exists (walk_fuel v).
      assert (Ho : In (e_cluster e0) (own_head (NFile e0 ch0))) by (cbn [own_head]; apply N.leb_le in X1; rewrite X1; left; reflexivity).
      exact (Hkeep _ _ (Hhead _ _ H0 Ho) (Hother _ _ H0 Hp0 Ho) (chain_at_any _ _ _ _ _ X2)).
    + intros e0 ch0 kids0 H0 Hp0 X.
      assert (Ho : In (e_cluster e0) (own_head (NDir e0 ch0 kids0))) by (left; reflexivity).
      exact (Hkeep _ _ (Hhead _ _ H0 Ho) (Hother _ _ H0 Hp0 Ho) X).
    + intros n t Hn Hpn Hr. rewrite (pos_unique _ _ _ F Hn Hin Hpn) in Hr. apply node_rep_file in Hr.
      destruct Hr as (X1 & X2 & _). apply node_rep_file. split; [exact X1|]. split; [exact X2|].
      left. split; [exact Hc2|]. exists (walk_fuel v). exact Hnew.
  - apply (dir_ok_frame d d' v); [exact Hbl|exact C].
  - apply (crash_forest_ok_chain d d' v p e [c] T Hdirs).
    rewrite Forall_forall in *. intros n Hn. exact (node_ok_weaken d v n _ (D n Hn)).
  - assert (Hleaf : forall m, In m (all_nodes T) -> node_pos m = p -> m = NFile e ch)
      by (intros m Hm Hpm; exact (pos_unique _ _ _ F Hm Hin Hpm)).
    pose proof (heads_replace_perm p n1 eq_refl v T (NFile e ch) F Hin eq_refl eq_refl Hleaf) as P.
    rewrite Hown in P. change (own_head n1) with (own_head (NFile e ch)) in P. rewrite Hown in P.
    apply (Permutation_app_inv_l [c]) in P.
    apply (fat_wf_perm d' v (heads v T ++ lost')); [|exact W'].
    apply Permutation_app_tail. apply Permutation_sym. exact P.
  - rewrite (positions_replace p n1 eq_refl eq_refl T); [exact F|].
    intros m Hm Hpm. rewrite (pos_unique _ _ _ F Hm Hin Hpm). reflexivity.
Qed.

(* ================================================================== 3. every prefix of truncate_cluster_chain *)
(* every directory block of the tree lies outside both FAT copies *)
Lemma tree_dir_blocks_off_fat fsz d v bl rch T pend : fat_layout v fsz -> PrBounds.part_layout v (v_nblocks v) fsz ->
  disk_inv d v bl rch T pend -> forall j, In j (tree_dir_blocks v bl T) -> off_fat v fsz j.
Proof.
  intros L PL Hinv j Hj. destruct (tree_dir_blocks_inv v bl T j Hj) as [Hb|(e0 & ch0 & kids0 & H0 & Hb)].
  - pose proof (di_root _ _ _ _ _ _ Hinv) as Hroot. unfold root_dir in Hroot. destruct (v_fat32 v) eqn:E32.
    + destruct Hroot as (Hc & ->). exact (chain_blocks_off_fat fsz _ v _ _ j L Hc Hb).
    + destruct Hroot as (_ & ->). exact (root16_block_off_fat fsz v j PL E32 Hb).
  - exact (dir_node_blocks_off_fat fsz d v bl T e0 ch0 kids0 j L (di_tree _ _ _ _ _ _ Hinv) H0 Hb).
Qed.

(* the same tree on a medium that keeps the directory blocks and every chain of a head *)
Lemma crash_same_tree D Dk v bl rch T pend lost' :
  disk_inv D v bl rch T pend ->
  (forall j, In j (tree_dir_blocks v bl T) -> disk_get Dk j = disk_get D j) ->
  (forall h ch, In h (heads v T ++ pend) -> chain_at D v h ch -> chain_at Dk v h ch) ->
  fat_wf Dk v (heads v T ++ lost') ->
  crash_inv_at Dk v bl rch T lost'.
Proof.
  intros Hinv Hb Hc W'. apply tree_inv_crash_inv_at; [|exact W'].
  apply (tree_inv_fat D Dk v bl rch T (disk_inv_tree _ _ _ _ _ _ Hinv) Hb).
  - intros E32. pose proof (di_root _ _ _ _ _ _ Hinv) as Hroot. unfold root_dir in Hroot. rewrite E32 in Hroot.
    apply (Hc _ _ ltac:(apply in_or_app; left; unfold heads; apply in_or_app; left; unfold root_heads; rewrite E32; left; reflexivity)).
    exact (proj1 Hroot).
  - intros m Hm Hne. destruct (node_chain_head D v bl T (di_tree _ _ _ _ _ _ Hinv) m Hm) as [(A & _)|(h & A & -> & B)]; [contradiction|].
    apply (Hc _ _); [|exact B]. apply in_or_app. left. unfold heads. apply in_or_app. right.
    apply (own_head_in T m _ Hm). rewrite A. left. reflexivity.
Qed.

Theorem trunc_prefix_inv fsz D v bl rch T pend e ch rest fuel :
  disk_inv D v bl rch T pend -> fat_layout v fsz -> PrBounds.part_layout v (v_nblocks v) fsz ->
  PrCrash.fat_len_ok v fsz D ->
  In (NFile e ch) (all_nodes T) ->
  chain_of D v (e_cluster e) fuel = Some (e_cluster e :: rest) ->
  forall k, let Dk := prefix_disk (fat_updates v D (trunc_updates (e_cluster e) rest)) k D in
    (forall j, off_fat v fsz j -> disk_get Dk j = disk_get D j) /\
    exists T' lost', crash_inv_at Dk v bl rch T' lost' /\
      (T' = T \/ T' = forest_replace (node_pos (NFile e ch)) (NFile e [e_cluster e]) T).
Proof.
  intros Hinv L PL Hlen Hin Hch k Dk. set (c := e_cluster e) in *.
  destruct (PrCrash.chain_in_fat v fsz D c fuel rest L Hch) as (Fc & Fr & _).
  assert (Hus : Forall (fun yx : N * N => PrCrash.in_fat v fsz (fst yx)) (trunc_updates c rest)).
  { unfold trunc_updates. destruct rest; [constructor|]. constructor; [exact Fc|exact Fr]. }
  destruct (PrCrash.fat_updates_prefix v fsz D (trunc_updates c rest) k L Hlen Hus) as (j0 & j1 & _ & G0 & _ & G2 & _).
  fold Dk in G0, G2. split; [exact G2|].
  pose proof (chain_at_any _ _ _ _ _ Hch) as Hcat.
  destruct (chain_at_mem D v c _ c Hcat (or_introl eq_refl)) as (C1 & C2 & _).
  pose proof (di_wf _ _ _ _ _ _ Hinv) as W.
  assert (Hhd : In c (heads v T ++ pend)).
  { apply in_or_app. left. unfold heads. apply in_or_app. right. apply (own_head_in T _ _ Hin).
    cbn [own_head]. fold c. apply N.leb_le in C1. rewrite C1. left. reflexivity. }
  assert (Hdb : forall j, In j (tree_dir_blocks v bl T) -> disk_get Dk j = disk_get D j).
  { intros j Hj. apply G2. exact (tree_dir_blocks_off_fat fsz D v bl rch T pend L PL Hinv j Hj). }
  (* nothing of the FAT is on the medium yet *)
  assert (Hsame : (forall x, 2 <= x -> x < v_clusters v + 2 -> fat_get Dk v 0 x = fat_get D v 0 x) ->
            exists T' lost', crash_inv_at Dk v bl rch T' lost' /\
              (T' = T \/ T' = forest_replace (node_pos (NFile e ch)) (NFile e [c]) T)).
  { intros Hs. destruct (fat_wf_get_ext D Dk v _ Hs W) as (W' & Hc').
    exists T, pend. split; [|left; reflexivity].
    apply (crash_same_tree D Dk v bl rch T pend pend Hinv Hdb); [|exact W']. intros h ch0 _ H0. exact (Hc' h ch0 H0). }
  destruct rest as [|n tl].
  { apply Hsame. intros x X1 X2. rewrite (G0 x (layout_sector v fsz x L X2)).
    unfold trunc_updates. rewrite firstn_nil. reflexivity. }
  destruct j0 as [|m].
  { apply Hsame. intros x X1 X2. rewrite (G0 x (layout_sector v fsz x L X2)). reflexivity. }
  (* c is the end of its chain, the first m clusters behind it are free *)
  set (rest := n :: tl) in *.
  pose proof (chain_at_nodup _ _ _ _ Hcat) as Hnd. inversion Hnd as [|? ? Hcni Hndr]; subst.
  assert (HE : forall x, 2 <= x -> x < v_clusters v + 2 ->
            fat_get Dk v 0 x = if existsb (N.eqb x) (firstn m rest) then 0 else if x =? c then enc v CL_EOF else fat_get D v 0 x).
  { intros x X1 X2. rewrite (G0 x (layout_sector v fsz x L X2)). unfold trunc_updates, rest. apply PrCrash.upd_after_cut. }
  destruct (wf_cut_partial D Dk v (heads v T ++ pend) c rest m W Hhd Hcat ltac:(discriminate)) as (W' & Hnew & Hkeep).
  - rewrite (HE c C1 C2), N.eqb_refl.
    rewrite PrCrash.existsb_notIn; [reflexivity|]. intros Hf. apply Hcni. exact (PrCrash.firstn_In _ _ _ Hf).
  - intros y Hy. destruct (chain_at_mem D v c _ y Hcat (or_intror (PrCrash.firstn_In _ _ _ Hy))) as (Y1 & Y2 & _).
    rewrite (HE y Y1 Y2). rewrite (proj2 (PrCrash.existsb_In y _) Hy). reflexivity.
  - intros x X1 X2 Hxc Hxf. rewrite (HE x X1 X2), (PrCrash.existsb_notIn x _ Hxf).
    apply N.eqb_neq in Hxc. rewrite Hxc. reflexivity.
  - exists (forest_replace (node_pos (NFile e ch)) (NFile e [c]) T), (pend ++ lost_of (skipn m rest)).
    split; [|right; reflexivity].
    apply (crash_inv_cut D Dk v bl rch T pend _ e ch Hinv); try assumption.
    + intros j Hj. apply Hdb. unfold tree_dir_blocks. apply in_or_app. left. exact Hj.
    + intros e0 ch0 kids0 H0 j Hj. apply Hdb. exact (all_nodes_dir_blocks v bl T e0 ch0 kids0 H0 j Hj).
    + rewrite app_assoc. exact W'.
Qed.

(* ================================================================== 4. every prefix of alloc_cluster that grows a directory *)
(* PrGlobalOpen2.grow_disk with the tree it builds spelled out *)
Section GrowDiskX.
  Variables (fsz : N) (d da : disk) (v : vol) (bl rch : list N) (T : list node) (pend : list N) (dc c0 : N) (ch : list N) (cn : N).
  Hypothesis Hinv : disk_inv d v bl rch T pend.
  Hypothesis L : fat_layout v fsz.
  Hypothesis Hlay : PrBounds.part_layout v (v_nblocks v) fsz.
  Hypothesis Hhead : (dc = CL_ROOT /\ v_fat32 v = true /\ c0 = v_root_cluster v /\ ch = rch) \/
                     (exists e kids, In (NDir e ch kids) (all_nodes T) /\ e_cluster e = dc /\ c0 = dc).
  Hypothesis Hch : chain_at d v c0 ch.
  Hypothesis Hnew : chain_at da v c0 (ch ++ [cn]).
  Hypothesis Hoth : forall h2 ch2, In h2 (heads v T ++ pend) -> h2 <> c0 -> chain_at d v h2 ch2 -> chain_at da v h2 ch2.
  Hypothesis Hcn : 2 <= cn /\ cn < v_clusters v + 2 /\ fat_get d v 0 cn = 0.
  Hypothesis Hframe : forall j, off_fat v fsz j -> ~ In j (cluster_blocks v cn) -> disk_get da j = disk_get d j.
  Hypothesis Hzero : forall j, In j (cluster_blocks v cn) -> disk_get da j = zero_block.

  Theorem grow_tree_x : exists bl_a rch_a T_a,
    tree_inv da v bl_a rch_a T_a /\ heads v T_a = heads v T /\
    (T_a = T \/ T_a = forest_set_chain dc (ch ++ [cn]) T).
  Proof.
    pose proof (di_wf _ _ _ _ _ _ Hinv) as W.
    destruct (heads_nodup v T pend (wf_heads _ _ _ W)) as (N1 & N2 & N3 & N4).
    pose proof (disk_inv_tree _ _ _ _ _ _ Hinv) as HT.
    destruct Hhead as [(Edc & E32 & Ec0 & Erch)|(e & kids & Hn & Edc & Ec0)].
    - pose proof Hnew as Hnew'. rewrite Ec0, Erch in Hnew'.
      assert (Hoth' : forall h2 ch2, In h2 (heads v T ++ pend) -> h2 <> v_root_cluster v -> chain_at d v h2 ch2 -> chain_at da v h2 ch2)
        by (rewrite <- Ec0; exact Hoth).
      assert (Hr : In (v_root_cluster v) (root_heads v)) by (unfold root_heads; rewrite E32; left; reflexivity).
      exists (bl ++ cluster_blocks v cn), (rch ++ [cn]), T.
      split; [|split; [reflexivity|left; reflexivity]].
      apply (tree_inv_grow_root d da v bl rch T cn HT E32 Hnew' Hzero).
      + intros j Hj. destruct (tree_dir_blocks_inv v bl T j Hj) as [Hb|(e0 & ch0 & kids0 & H0 & Hb)].
        * destruct (root_block_old fsz d v bl rch T pend dc c0 ch cn Hinv L Hlay Hhead Hcn j Hb) as (A & B). exact (Hframe j A B).
        * exact (dir_block_old fsz d da v bl rch T pend cn Hinv L Hcn Hframe e0 ch0 kids0 j H0 Hb).
      + intros m Hm Hne.
        destruct (node_chain_head d v bl T (di_tree _ _ _ _ _ _ Hinv) m Hm) as [(A & _)|(h & A & -> & B)]; [contradiction|].
        assert (Hh : In (e_cluster (node_entry m)) (own_head m)) by (rewrite A; left; reflexivity).
        apply (Hoth' _ _ (node_head_in v T pend m _ Hm Hh)); [|exact B].
        intros Eq. apply (proj1 (N3 _ Hr)). rewrite <- Eq. exact (own_head_in T m _ Hm Hh).
    - pose proof Hnew as Hnew'. rewrite Ec0 in Hnew'.
      assert (Hoth' : forall h2 ch2, In h2 (heads v T ++ pend) -> h2 <> dc -> chain_at d v h2 ch2 -> chain_at da v h2 ch2)
        by (rewrite <- Ec0; exact Hoth).
      assert (HD : In dc (own_head (NDir e ch kids))) by (left; exact Edc).
      exists bl, rch, (forest_set_chain dc (ch ++ [cn]) T).
      split; [|split; [apply heads_set_chain|right; reflexivity]].
      apply (tree_inv_grow d da v dc cn ch Hnew' Hzero bl rch T HT).
      + intros m Hm. split; [|split].
        * destruct m as [e0 ch0|e0 ch0 kids0]; [intros j []|]. intros j Hj.
          exact (dir_block_old fsz d da v bl rch T pend cn Hinv L Hcn Hframe e0 ch0 kids0 j Hm Hj).
        * intros Hne Hnd.
          destruct (node_chain_head d v bl T (di_tree _ _ _ _ _ _ Hinv) m Hm) as [(A & _)|(h & A & -> & B)]; [contradiction|].
          assert (Hh : In (e_cluster (node_entry m)) (own_head m)) by (rewrite A; left; reflexivity).
          apply (Hoth' _ _ (node_head_in v T pend m _ Hm Hh)); [|exact B].
          intros Eq. rewrite Eq in Hh. pose proof (flat_map_owner own_head _ N1 _ _ _ Hm Hn Hh HD) as ->.
          exact (Hnd e ch kids eq_refl Edc).
        * intros e0 ch0 kids0 -> E0.
          assert (Hh : In dc (own_head (NDir e0 ch0 kids0))) by (left; exact E0).
          pose proof (flat_map_owner own_head _ N1 _ _ _ Hm Hn Hh HD) as Eq. injection Eq as _ -> _. reflexivity.
      + intros j Hj. destruct (root_block_old fsz d v bl rch T pend dc c0 ch cn Hinv L Hlay Hhead Hcn j Hj) as (A & B). exact (Hframe j A B).
      + intros E32. pose proof (di_root _ _ _ _ _ _ Hinv) as H0. unfold root_dir in H0. rewrite E32 in H0. destruct H0 as (Hc & _).
        assert (Hr : In (v_root_cluster v) (root_heads v)) by (unfold root_heads; rewrite E32; left; reflexivity).
        apply (Hoth' _ _ ltac:(apply in_or_app; left; unfold heads; apply in_or_app; left; exact Hr)); [|exact Hc].
        intros Eq. apply (proj1 (N3 _ Hr)). rewrite Eq. exact (own_head_in T _ _ Hn HD).
  Qed.
End GrowDiskX.

(* alloc_cluster with zeroing behind the last cluster of the chain of the directory dc: on every
   crashed medium the tree is the old one (the new cluster cn free, or - marked end of chain,
   not yet linked - a lost one-cluster chain), or the tree with the directory chain extended by
   cn, and then every block of cn is zero: end markers, never stale contents *)
Theorem grow_prefix_inv fsz vi v bl rch T pend dc c0 ch s0 cn sa :
  disk_inv (s_disk s0) v bl rch T pend -> alloc_pre s0 vi v fsz -> PrBounds.part_layout v (v_nblocks v) fsz -> link_ok v ->
  ((dc = CL_ROOT /\ v_fat32 v = true /\ c0 = v_root_cluster v /\ ch = rch) \/
   (exists e kids, In (NDir e ch kids) (all_nodes T) /\ e_cluster e = dc /\ c0 = dc)) ->
  chain_at (s_disk s0) v c0 ch ->
  alloc_cluster vi (Some (last ch c0)) true s0 = (Ok cn, sa) ->
  (2 <= cn /\ cn < v_clusters v + 2 /\ fat_get (s_disk s0) v 0 cn = 0) /\
  forall d', crash_disks s0 sa d' ->
    (forall j, off_fat v fsz j -> ~ In j (cluster_blocks v cn) -> disk_get d' j = disk_get (s_disk s0) j) /\
    exists bl' rch' T' lost', crash_inv_at d' v bl' rch' T' lost' /\
      (T' = T \/ T' = forest_set_chain dc (ch ++ [cn]) T).
Proof.
  intros Hinv Hpre PL Hfit Hhead Hch Hal. set (D := s_disk s0) in *.
  pose proof Hpre as (_ & L & _).
  pose proof (di_wf _ _ _ _ _ _ Hinv) as W.
  assert (Hc0in : In c0 (heads v T ++ pend)).
  { apply in_or_app. left. unfold heads. apply in_or_app.
    destruct Hhead as [(_ & E32 & -> & _)|(e & kids0 & Hn & Ec & ->)].
    - left. unfold root_heads. rewrite E32. left. reflexivity.
    - right. apply (own_head_in T _ _ Hn). left. exact Ec. }
  destruct (chain_at_head _ _ _ _ Hch) as (r0 & Ech).
  assert (Hsplit : ch = removelast ch ++ [last ch c0]) by (apply app_removelast_last; rewrite Ech; discriminate).
  set (p := last ch c0) in *. set (pre := removelast ch) in *.
  pose proof Hch as Hch'. rewrite Hsplit in Hch'.
  destruct (PrCrash.C10_alloc_prefix_chains vi v fsz p true s0 cn sa pre c0 (walk_fuel v) Hpre Hfit Hch' Hal)
    as (Tr & C1 & C2 & Cf & Hnin & Hk).
  split; [auto|]. intros d' Hd.
  apply (crash_disks_tr_ext s0 sa _ d' Tr) in Hd. destruct Hd as (k & _ & ->).
  destruct (chain_at_mem _ _ _ _ p Hch' ltac:(apply in_or_app; right; left; reflexivity)) as (P1 & P2 & _).
  assert (Hprev : forall q, Some p = Some q -> q < v_clusters v + 2) by (intros q E; injection E as <-; exact P2).
  destruct (PrCrash.C09_frame_alloc vi v fsz (Some p) true s0 cn sa Hpre Hprev Hal) as (_ & Hfr).
  destruct (Hfr k) as (Gf & _ & _). fold D in Gf.
  split; [exact Gf|].
  destruct (Hk k) as (n0 & n1 & (_ & _ & Hn0) & G0 & _ & _ & Hbc & _). fold D in G0, Hbc.
  set (Dk := prefix_disk (alloc_writes v D (Some p) true cn) k D) in *.
  assert (Hcp : cn <> p) by (intros ->; apply Hnin; apply in_or_app; right; left; reflexivity).
  assert (Hdb : forall j, In j (tree_dir_blocks v bl T) -> disk_get Dk j = disk_get D j).
  { intros j Hj. destruct (tree_dir_blocks_inv v bl T j Hj) as [Hb|(e0 & ch0 & kids0 & H0 & Hb)].
    - destruct (root_block_old fsz D v bl rch T pend dc c0 ch cn Hinv L PL Hhead (conj C1 (conj C2 Cf)) j Hb) as (A & B). exact (Gf j A B).
    - exact (dir_block_old fsz D Dk v bl rch T pend cn Hinv L (conj C1 (conj C2 Cf)) Gf e0 ch0 kids0 j H0 Hb). }
  assert (HG : forall x, 2 <= x -> x < v_clusters v + 2 -> fat_get Dk v 0 x = PrCrash.alloc_stage v D cn (Some p) n0 x)
    by (intros x _ X2; exact (G0 x (layout_sector v fsz x L X2))).
  destruct n0 as [|[|n0]].
  - (* nothing of the FAT on the medium *)
    destruct (fat_wf_get_ext D Dk v _ HG W) as (W' & Hc').
    exists bl, rch, T, pend. split; [|left; reflexivity].
    apply (crash_same_tree D Dk v bl rch T pend pend Hinv Hdb); [|exact W']. intros h ch0 _ H0. exact (Hc' h ch0 H0).
  - (* cn is marked end of chain, not linked: a lost chain *)
    destruct (wf_new_head D Dk v (heads v T ++ pend) cn W C1 C2 Cf) as (W' & _ & _ & Hoth).
    + rewrite (HG cn C1 C2). cbn [PrCrash.alloc_stage]. rewrite N.eqb_refl. reflexivity.
    + intros x X1 X2 Hne. rewrite (HG x X1 X2). cbn [PrCrash.alloc_stage]. apply N.eqb_neq in Hne. rewrite Hne. reflexivity.
    + exists bl, rch, T, (pend ++ [cn]). split; [|left; reflexivity].
      apply (crash_same_tree D Dk v bl rch T pend _ Hinv Hdb Hoth).
      apply (fat_wf_perm Dk v (cn :: heads v T ++ pend)); [|exact W'].
      rewrite app_assoc. apply Permutation_cons_append.
  - (* cn is linked behind p: the directory has grown, and cn is zeroed *)
    assert (E2 : n0 = 0%nat) by lia. subst n0.
    destruct Hbc as [(Hle & _)|(_ & _ & Hz)]; [lia|]. specialize (Hz eq_refl).
    destruct (wf_extend D Dk v (heads v T ++ pend) c0 pre p cn Hfit W Hc0in Hch' C1 C2 Cf) as (W' & Hnew & Hoth).
    + rewrite (HG cn C1 C2). cbn [PrCrash.alloc_stage]. apply N.eqb_neq in Hcp. rewrite Hcp, N.eqb_refl. reflexivity.
    + rewrite (HG p P1 P2). cbn [PrCrash.alloc_stage]. rewrite N.eqb_refl. exact (enc_link v cn Hfit C2).
    + intros x X1 X2 Hxc Hxp. rewrite (HG x X1 X2). cbn [PrCrash.alloc_stage].
      apply N.eqb_neq in Hxc. apply N.eqb_neq in Hxp. rewrite Hxp, Hxc. reflexivity.
    + replace (pre ++ [p; cn]) with (ch ++ [cn]) in Hnew by (rewrite Hsplit, <- app_assoc; reflexivity).
      destruct (grow_tree_x fsz D Dk v bl rch T pend dc c0 ch cn Hinv L PL Hhead Hnew Hoth (conj C1 (conj C2 Cf)) Gf Hz)
        as (bl_a & rch_a & T_a & HTa & Hheads & HTx).
      exists bl_a, rch_a, T_a, pend. split; [|exact HTx].
      apply tree_inv_crash_inv_at; [exact HTa|]. rewrite Hheads. exact W'.
Qed.

Print Assumptions wf_cut_partial.
Print Assumptions crash_inv_cut.
Print Assumptions trunc_prefix_inv.
Print Assumptions grow_prefix_inv.
