(* PROOFS: the cursor arithmetic of open files (C01, seek part).
   Spec side: a file is a pair (len, off) with off <= len; the three seeks, eof, length and
   offset are the obvious functions on that pair.  Model side: file_seek_from_start/end/
   current, file_eof/length/offset and the embedded-io adapter io_seek of FsMgr.v.
   Everything is for ALL arguments (every N, every Z) and every state in which the handle
   resolves; no bound anywhere. *)
From Coq Require Import NArith ZArith List Bool Lia Arith FMapPositive.
From SdFs Require Import FsTypes FsBase FsFat FsMgr FsLemmas PrBase.
Import ListNotations.
Open Scope N_scope.

(* ------------------------------------------------------------------ handle resolution *)
(* handle h names the file record f stored at index fi, and the manager is not locked *)
Definition resolves (s : st) (h : N) (fi : nat) (f : fileinfo) : Prop :=
  s_lock s = false /\
  find_idx (fun g => f_id g =? h) (s_files s) 0 = Some fi /\
  nth_error (s_files s) fi = Some f.

(* the state after replacing the record at index fi *)
Definition upd_file (s : st) (fi : nat) (g : fileinfo) : st :=
  set_s_files s (list_set (s_files s) fi g).

Lemma find_idx_ge {A} (p : A -> bool) l : forall i j, find_idx p l i = Some j -> (i <= j)%nat.
Proof.
  induction l as [|a t IH]; intros i j H; cbn in H; [discriminate|].
  destruct (p a).
  - injection H as <-. lia.
  - apply IH in H. lia.
Qed.

Lemma find_idx_nth {A} (p : A -> bool) l : forall i j, find_idx p l i = Some j ->
  exists x, nth_error l (j - i) = Some x /\ p x = true.
Proof.
  induction l as [|a t IH]; intros i j H; cbn in H; [discriminate|].
  destruct (p a) eqn:Hp.
  - injection H as <-. exists a. rewrite Nat.sub_diag. split; [reflexivity|exact Hp].
  - pose proof (find_idx_ge _ _ _ _ H) as Hge.
    destruct (IH _ _ H) as (x & Hn & Hx). exists x. split; [|exact Hx].
    replace (j - i)%nat with (S (j - S i)) by lia. exact Hn.
Qed.

(* a handle that is found always names a record: the second and third conjunct of
   `resolves` are consistent, and the record carries the handle *)
Lemma find_resolves s h fi : s_lock s = false ->
  find_idx (fun g => f_id g =? h) (s_files s) 0 = Some fi ->
  exists f, resolves s h fi f /\ f_id f = h.
Proof.
  intros Hl Hf. destruct (find_idx_nth _ _ _ _ Hf) as (x & Hn & Hx).
  rewrite Nat.sub_0_r in Hn. exists x. split; [repeat split; assumption|].
  apply N.eqb_eq. exact Hx.
Qed.

Lemma resolves_id s h fi f : resolves s h fi f -> f_id f = h.
Proof.
  intros (Hl & Hf & Hn). destruct (find_idx_nth _ _ _ _ Hf) as (x & Hn' & Hx).
  rewrite Nat.sub_0_r in Hn'. rewrite Hn in Hn'. injection Hn' as <-. apply N.eqb_eq. exact Hx.
Qed.

Lemma find_idx_list_set {A} (p : A -> bool) y : forall l i j,
  find_idx p l i = Some j -> p y = true -> find_idx p (list_set l (j - i) y) i = Some j.
Proof.
  induction l as [|a t IH]; intros i j H Hy; cbn in H; [discriminate|].
  destruct (p a) eqn:Hp.
  - injection H as <-. rewrite Nat.sub_diag. cbn. rewrite Hy. reflexivity.
  - pose proof (find_idx_ge _ _ _ _ H) as Hge.
    replace (j - i)%nat with (S (j - S i)) by lia. cbn. rewrite Hp. apply IH; assumption.
Qed.

Lemma nth_error_list_set_same {A} (l : list A) : forall i x y,
  nth_error l i = Some x -> nth_error (list_set l i y) i = Some y.
Proof.
  induction l as [|a t IH]; intros [|i] x y H; cbn in *; try discriminate; [reflexivity|].
  eapply IH; eauto.
Qed.

Lemma nth_error_list_set_other {A} (l : list A) : forall i j y,
  i <> j -> nth_error (list_set l i y) j = nth_error l j.
Proof.
  induction l as [|a t IH]; intros [|i] [|j] y H; cbn; try reflexivity; try congruence.
  apply IH. congruence.
Qed.

(* replacing the record by one with the same id keeps the handle resolving *)
Lemma resolves_upd s h fi f g : resolves s h fi f -> f_id g = f_id f ->
  resolves (upd_file s fi g) h fi g.
Proof.
  intros Hr Hid. pose proof (resolves_id _ _ _ _ Hr) as Hh.
  destruct Hr as (Hl & Hf & Hn). unfold resolves, upd_file. cbn.
  split; [exact Hl|]. split.
  - pose proof (find_idx_list_set (fun g0 => f_id g0 =? h) g _ _ _ Hf) as H.
    rewrite Nat.sub_0_r in H. apply H. apply N.eqb_eq. congruence.
  - eapply nth_error_list_set_same; eauto.
Qed.

(* ------------------------------------------------------------------ the frame *)
(* Only the record at index fi of the open-file table differs: the device side (disk, cache,
   tag, call counter, trace, fault schedule), the other tables, and every other file's record
   are the same. *)
Definition only_file (s s' : st) (fi : nat) : Prop :=
  s_disk s' = s_disk s /\ s_cache s' = s_cache s /\ s_tag s' = s_tag s /\
  s_ncalls s' = s_ncalls s /\ s_trace s' = s_trace s /\ s_faults s' = s_faults s /\
  s_vols s' = s_vols s /\ s_dirs s' = s_dirs s /\ s_next_id s' = s_next_id s /\
  s_clock s' = s_clock s /\ s_lock s' = s_lock s /\
  s_maxv s' = s_maxv s /\ s_maxd s' = s_maxd s /\ s_maxf s' = s_maxf s /\
  length (s_files s') = length (s_files s) /\
  forall j, j <> fi -> nth_error (s_files s') j = nth_error (s_files s) j.

Lemma only_file_refl s fi : only_file s s fi.
Proof. unfold only_file. repeat split; reflexivity. Qed.

Lemma upd_file_frame s fi g : only_file s (upd_file s fi g) fi.
Proof.
  unfold only_file, upd_file. cbn. repeat split; try reflexivity.
  - apply list_set_length.
  - intros j Hj. apply nth_error_list_set_other. congruence.
Qed.

(* ------------------------------------------------------------------ with_file *)
Lemma with_file_resolves {A} s h fi f (k : nat -> fileinfo -> M A) :
  resolves s h fi f -> with_file h k s = k fi f s.
Proof.
  intros (Hl & Hf & Hn).
  unfold with_file, locked, get_file_by_id, get_file, bind, get, ret.
  rewrite Hl, Hf, Hn. reflexivity.
Qed.

Lemma with_file_locked {A} s h (k : nat -> fileinfo -> M A) :
  s_lock s = true -> with_file h k s = (Err LockError, s).
Proof. intros Hl. unfold with_file, locked, bind, get. rewrite Hl. reflexivity. Qed.

Lemma with_file_bad_handle {A} s h (k : nat -> fileinfo -> M A) :
  s_lock s = false -> find_idx (fun g => f_id g =? h) (s_files s) 0 = None ->
  with_file h k s = (Err BadHandle, s).
Proof.
  intros Hl Hf. unfold with_file, locked, get_file_by_id, bind, get. rewrite Hl, Hf. reflexivity.
Qed.

(* ------------------------------------------------------------------ the spec: (len, off) *)
Definition flen (f : fileinfo) : N := e_size (f_entry f).
Definition foff (f : fileinfo) : N := f_offset f.
Definition cursor_ok (f : fileinfo) : Prop := foff f <= flen f.

(* the spec-side seeks on the pair; None = InvalidOffset *)
Definition spec_seek_start (len off x : N) : option N := if x <=? len then Some x else None.
Definition spec_seek_end (len off x : N) : option N := if x <=? len then Some (len - x) else None.
Definition spec_seek_cur (len off : N) (x : Z) : option N :=
  if ((0 <=? Z.of_N off + x) && (Z.of_N off + x <=? Z.of_N len))%Z
  then Some (Z.to_N (Z.of_N off + x)) else None.

(* whatever a spec seek returns is a legal cursor *)
Lemma spec_seek_start_ok len off x o : spec_seek_start len off x = Some o -> o <= len.
Proof. unfold spec_seek_start. destruct (N.leb_spec x len) as [Hle|Hgt]; intros E; inversion E; subst; lia. Qed.
Lemma spec_seek_end_ok len off x o : spec_seek_end len off x = Some o -> o <= len.
Proof. unfold spec_seek_end. destruct (N.leb_spec x len) as [Hle|Hgt]; intros E; inversion E; subst; lia. Qed.
Lemma spec_seek_cur_ok len off x o : spec_seek_cur len off x = Some o -> o <= len.
Proof.
  unfold spec_seek_cur.
  destruct ((0 <=? Z.of_N off + x) && (Z.of_N off + x <=? Z.of_N len))%Z eqn:E; intros E0; inversion E0; subst.
  apply andb_true_iff in E. destruct E as [E1 E2]. apply Z.leb_le in E1. apply Z.leb_le in E2. lia.
Qed.

(* ------------------------------------------------------------------ the inner bodies *)
Definition seek_start_body (x : N) (fi : nat) (f : fileinfo) : M unit :=
  if e_size (f_entry f) <? x then fail InvalidOffset else put_file fi (set_f_offset f x).
Definition seek_end_body (x : N) (fi : nat) (f : fileinfo) : M unit :=
  if e_size (f_entry f) <? x then fail InvalidOffset
  else put_file fi (set_f_offset f (e_size (f_entry f) - x)).
Definition seek_cur_body (x : Z) (fi : nat) (f : fileinfo) : M unit :=
  let n := (Z.of_N (f_offset f) + x)%Z in
  if (n <? 0)%Z || (Z.of_N (e_size (f_entry f)) <? n)%Z then fail InvalidOffset
  else put_file fi (set_f_offset f (Z.to_N n)).

(* these ARE the bodies the public operations hand to with_file *)
Lemma seek_start_is h x : file_seek_from_start h x = with_file h (seek_start_body x).
Proof. reflexivity. Qed.
Lemma seek_end_is h x : file_seek_from_end h x = with_file h (seek_end_body x).
Proof. reflexivity. Qed.
Lemma seek_cur_is h x : file_seek_from_current h x = with_file h (seek_cur_body x).
Proof. reflexivity. Qed.

(* the outcome of a seek, given what the spec says *)
Definition seek_result (s : st) (fi : nat) (f : fileinfo) (o : option N) : outcome unit * st :=
  match o with
  | Some n => (Ok tt, upd_file s fi (set_f_offset f n))
  | None => (Err InvalidOffset, s)
  end.

Lemma seek_start_body_spec x fi f s :
  seek_start_body x fi f s = seek_result s fi f (spec_seek_start (flen f) (foff f) x).
Proof.
  unfold seek_start_body, spec_seek_start, flen.
  destruct (N.ltb_spec (e_size (f_entry f)) x); destruct (N.leb_spec x (e_size (f_entry f))); try lia; reflexivity.
Qed.

Lemma seek_end_body_spec x fi f s :
  seek_end_body x fi f s = seek_result s fi f (spec_seek_end (flen f) (foff f) x).
Proof.
  unfold seek_end_body, spec_seek_end, flen.
  destruct (N.ltb_spec (e_size (f_entry f)) x); destruct (N.leb_spec x (e_size (f_entry f))); try lia; reflexivity.
Qed.

Lemma seek_cur_body_spec x fi f s :
  seek_cur_body x fi f s = seek_result s fi f (spec_seek_cur (flen f) (foff f) x).
Proof.
  unfold seek_cur_body, spec_seek_cur, flen, foff.
  destruct (Z.ltb_spec (Z.of_N (f_offset f) + x) 0);
    destruct (Z.ltb_spec (Z.of_N (e_size (f_entry f))) (Z.of_N (f_offset f) + x));
    destruct (Z.leb_spec 0 (Z.of_N (f_offset f) + x));
    destruct (Z.leb_spec (Z.of_N (f_offset f) + x) (Z.of_N (e_size (f_entry f))));
    try lia; reflexivity.
Qed.

(* ------------------------------------------------------------------ the public operations *)
Theorem file_seek_from_start_spec s h fi f x : resolves s h fi f ->
  file_seek_from_start h x s = seek_result s fi f (spec_seek_start (flen f) (foff f) x).
Proof. intros Hr. rewrite seek_start_is, (with_file_resolves _ _ _ _ _ Hr). apply seek_start_body_spec. Qed.

Theorem file_seek_from_end_spec s h fi f x : resolves s h fi f ->
  file_seek_from_end h x s = seek_result s fi f (spec_seek_end (flen f) (foff f) x).
Proof. intros Hr. rewrite seek_end_is, (with_file_resolves _ _ _ _ _ Hr). apply seek_end_body_spec. Qed.

Theorem file_seek_from_current_spec s h fi f x : resolves s h fi f ->
  file_seek_from_current h x s = seek_result s fi f (spec_seek_cur (flen f) (foff f) x).
Proof. intros Hr. rewrite seek_cur_is, (with_file_resolves _ _ _ _ _ Hr). apply seek_cur_body_spec. Qed.

(* the same three facts in "succeeds iff" form *)
Corollary C01_seek_from_start s h fi f x : resolves s h fi f ->
  (x <= flen f -> file_seek_from_start h x s = (Ok tt, upd_file s fi (set_f_offset f x))) /\
  (flen f < x -> file_seek_from_start h x s = (Err InvalidOffset, s)).
Proof.
  intros Hr. rewrite (file_seek_from_start_spec _ _ _ _ _ Hr). unfold spec_seek_start.
  split; intros H; destruct (N.leb_spec x (flen f)); try lia; reflexivity.
Qed.

Corollary C01_seek_from_end s h fi f x : resolves s h fi f ->
  (x <= flen f -> file_seek_from_end h x s = (Ok tt, upd_file s fi (set_f_offset f (flen f - x)))) /\
  (flen f < x -> file_seek_from_end h x s = (Err InvalidOffset, s)).
Proof.
  intros Hr. rewrite (file_seek_from_end_spec _ _ _ _ _ Hr). unfold spec_seek_end.
  split; intros H; destruct (N.leb_spec x (flen f)); try lia; reflexivity.
Qed.

Corollary C01_seek_from_current s h fi f (x : Z) : resolves s h fi f ->
  ((0 <= Z.of_N (foff f) + x <= Z.of_N (flen f))%Z ->
     file_seek_from_current h x s = (Ok tt, upd_file s fi (set_f_offset f (Z.to_N (Z.of_N (foff f) + x))))) /\
  (~ (0 <= Z.of_N (foff f) + x <= Z.of_N (flen f))%Z ->
     file_seek_from_current h x s = (Err InvalidOffset, s)).
Proof.
  intros Hr. rewrite (file_seek_from_current_spec _ _ _ _ _ Hr). unfold spec_seek_cur.
  split; intros H;
    destruct (Z.leb_spec 0 (Z.of_N (foff f) + x)); destruct (Z.leb_spec (Z.of_N (foff f) + x) (Z.of_N (flen f)));
    try lia; reflexivity.
Qed.

(* a seek never touches the device, the other tables or any other file's record; a
   successful one leaves a legal cursor and the same length *)
Theorem seek_result_frame s fi f o s' r :
  seek_result s fi f o = (r, s') -> only_file s s' fi.
Proof.
  unfold seek_result. destruct o; intros H; inversion H; subst.
  - apply upd_file_frame.
  - apply only_file_refl.
Qed.

Theorem C01_seeks_frame s h fi f : resolves s h fi f ->
  (forall x, only_file s (snd (file_seek_from_start h x s)) fi) /\
  (forall x, only_file s (snd (file_seek_from_end h x s)) fi) /\
  (forall x, only_file s (snd (file_seek_from_current h x s)) fi).
Proof.
  intros Hr. split; [|split]; intros x.
  - rewrite (file_seek_from_start_spec _ _ _ _ _ Hr). eapply seek_result_frame. apply surjective_pairing.
  - rewrite (file_seek_from_end_spec _ _ _ _ _ Hr). eapply seek_result_frame. apply surjective_pairing.
  - rewrite (file_seek_from_current_spec _ _ _ _ _ Hr). eapply seek_result_frame. apply surjective_pairing.
Qed.

(* after a successful seek the handle names the updated record, whose cursor is legal and
   whose length is the old one *)
Theorem seek_result_after s h fi f o n : resolves s h fi f -> o = Some n -> n <= flen f ->
  resolves (snd (seek_result s fi f o)) h fi (set_f_offset f n) /\
  cursor_ok (set_f_offset f n) /\ flen (set_f_offset f n) = flen f /\ foff (set_f_offset f n) = n.
Proof.
  intros Hr -> Hn. cbn. split; [apply (resolves_upd _ _ _ f); [exact Hr|reflexivity]|].
  unfold cursor_ok, flen, foff. cbn. repeat split; auto.
Qed.

(* ------------------------------------------------------------------ eof, length, offset *)
Theorem C01_file_eof s h fi f : resolves s h fi f ->
  file_eof h s = (Ok (foff f =? flen f), s).
Proof. intros Hr. unfold file_eof. rewrite (with_file_resolves _ _ _ _ _ Hr). reflexivity. Qed.

Theorem C01_file_length s h fi f : resolves s h fi f -> file_length h s = (Ok (flen f), s).
Proof. intros Hr. unfold file_length. rewrite (with_file_resolves _ _ _ _ _ Hr). reflexivity. Qed.

Theorem C01_file_offset s h fi f : resolves s h fi f -> file_offset h s = (Ok (foff f), s).
Proof. intros Hr. unfold file_offset. rewrite (with_file_resolves _ _ _ _ _ Hr). reflexivity. Qed.

(* with a legal cursor, eof says exactly "nothing left to read" *)
Corollary eof_iff_nothing_left f : cursor_ok f -> (foff f =? flen f) = (flen f - foff f =? 0).
Proof.
  unfold cursor_ok. intros H.
  destruct (N.eqb_spec (foff f) (flen f)); destruct (N.eqb_spec (flen f - foff f) 0); try lia; reflexivity.
Qed.

(* ------------------------------------------------------------------ the embedded-io Seek adapter *)
(* The conversion windows the adapter imposes before calling the manager, as the code has them:
   Start(u64)  -> u32 :  0 <= x <= 2^32 - 1
   End(i64)    -> checked_neg, then u32 :  x <> -2^63 and 0 <= -x <= 2^32 - 1, i.e. -(2^32 - 1) <= x <= 0
   Current(i64)-> i32 :  -2^31 <= x <= 2^31 - 1 *)
Definition seek_window (w : whence) (x : Z) : bool :=
  match w with
  | FromStart => ((0 <=? x) && (x <=? 4294967295))%Z
  | FromEnd => ((-4294967295 <=? x) && (x <=? 0))%Z
  | FromCurrent => ((-2147483648 <=? x) && (x <=? 2147483647))%Z
  end.

(* the spec target: x, len + x, off + x *)
Definition seek_target (w : whence) (x : Z) (len off : N) : Z :=
  match w with
  | FromStart => x
  | FromEnd => Z.of_N len + x
  | FromCurrent => Z.of_N off + x
  end.

Definition seek_accepts (w : whence) (x : Z) (len off : N) : bool :=
  (seek_window w x && (0 <=? seek_target w x len off) && (seek_target w x len off <=? Z.of_N len))%Z.

(* the argument types of SeekFrom: u64 for Start, i64 for End and Current *)
Definition seek_arg_in_type (w : whence) (x : Z) : Prop :=
  match w with
  | FromStart => (0 <= x < 18446744073709551616)%Z
  | FromEnd | FromCurrent => (-9223372036854775808 <= x < 9223372036854775808)%Z
  end.

Lemma io_seek_tail s h fi g (m : M unit) :
  resolves s h fi g ->
  (r <- try (file_offset h) ;; match r with inl o => ret o | inr _ => panic end) s = (Ok (foff g), s).
Proof.
  intros Hr. unfold bind, try. rewrite (C01_file_offset _ _ _ _ Hr). reflexivity.
Qed.

(* what io_seek does once the inner seek is known to behave like `seek_result` *)
Lemma io_seek_from_result s h fi f (m : M unit) o :
  resolves s h fi f ->
  m s = seek_result s fi f o ->
  (m ;;; r <- try (file_offset h) ;; match r with inl o => ret o | inr _ => panic end) s =
  match o with
  | Some n => (Ok n, upd_file s fi (set_f_offset f n))
  | None => (Err InvalidOffset, s)
  end.
Proof.
  intros Hr Hm. destruct o as [n|]; cbn [seek_result] in Hm.
  - rewrite (bind_ok _ _ _ _ _ Hm).
    assert (Hr' : resolves (upd_file s fi (set_f_offset f n)) h fi (set_f_offset f n))
      by (apply (resolves_upd _ _ _ f); [exact Hr|reflexivity]).
    rewrite (io_seek_tail _ _ _ _ m Hr'). reflexivity.
  - rewrite (bind_err _ _ _ _ _ Hm). reflexivity.
Qed.

(* the full behaviour of the adapter, for EVERY integer argument *)
Theorem C01_io_seek_spec s h fi f w (x : Z) : resolves s h fi f ->
  io_seek h w x s =
  if seek_accepts w x (flen f) (foff f)
  then (Ok (Z.to_N (seek_target w x (flen f) (foff f))),
        upd_file s fi (set_f_offset f (Z.to_N (seek_target w x (flen f) (foff f)))))
  else (Err InvalidOffset, s).
Proof.
  intros Hr. unfold io_seek, seek_accepts, seek_window, seek_target. destruct w.
  - (* FromStart *)
    destruct ((x <? 0)%Z || (4294967295 <? x)%Z) eqn:Ew.
    + assert (Hf : forall s0, fail (A:=unit) InvalidOffset s0 = seek_result s0 fi f None) by reflexivity.
      rewrite (io_seek_from_result _ _ _ _ _ None Hr (Hf s)).
      apply orb_true_iff in Ew.
      destruct (Z.leb_spec 0 x); destruct (Z.leb_spec x 4294967295); cbn [andb]; try reflexivity.
      destruct Ew as [E|E]; [apply Z.ltb_lt in E|apply Z.ltb_lt in E]; lia.
    + apply orb_false_iff in Ew. destruct Ew as [E1 E2]. apply Z.ltb_ge in E1. apply Z.ltb_ge in E2.
      rewrite (io_seek_from_result _ _ _ _ _ _ Hr (file_seek_from_start_spec _ _ _ _ (Z.to_N x) Hr)).
      unfold spec_seek_start.
      destruct (Z.leb_spec 0 x); destruct (Z.leb_spec x 4294967295); try lia. cbn [andb].
      destruct (N.leb_spec (Z.to_N x) (flen f)); destruct (Z.leb_spec x (Z.of_N (flen f))); try lia; reflexivity.
  - (* FromEnd *)
    destruct (Z.eqb_spec x (-9223372036854775808)) as [Ex|Ex].
    + assert (Hf : forall s0, fail (A:=unit) InvalidOffset s0 = seek_result s0 fi f None) by reflexivity.
      rewrite (io_seek_from_result _ _ _ _ _ None Hr (Hf s)).
      destruct (Z.leb_spec (-4294967295) x); try lia. reflexivity.
    + destruct ((- x <? 0)%Z || (4294967295 <? - x)%Z) eqn:Ew.
      * assert (Hf : forall s0, fail (A:=unit) InvalidOffset s0 = seek_result s0 fi f None) by reflexivity.
        rewrite (io_seek_from_result _ _ _ _ _ None Hr (Hf s)).
        apply orb_true_iff in Ew.
        destruct (Z.leb_spec (-4294967295) x); destruct (Z.leb_spec x 0); cbn [andb]; try reflexivity.
        destruct Ew as [E|E]; [apply Z.ltb_lt in E|apply Z.ltb_lt in E]; lia.
      * apply orb_false_iff in Ew. destruct Ew as [E1 E2]. apply Z.ltb_ge in E1. apply Z.ltb_ge in E2.
        rewrite (io_seek_from_result _ _ _ _ _ _ Hr (file_seek_from_end_spec _ _ _ _ (Z.to_N (- x)) Hr)).
        unfold spec_seek_end.
        destruct (Z.leb_spec (-4294967295) x); destruct (Z.leb_spec x 0); try lia. cbn [andb].
        destruct (N.leb_spec (Z.to_N (- x)) (flen f));
          destruct (Z.leb_spec 0 (Z.of_N (flen f) + x));
          destruct (Z.leb_spec (Z.of_N (flen f) + x) (Z.of_N (flen f))); try lia; cbn [andb]; try reflexivity.
        replace (Z.to_N (Z.of_N (flen f) + x)) with (flen f - Z.to_N (- x)) by lia. reflexivity.
  - (* FromCurrent *)
    destruct ((x <? -2147483648)%Z || (2147483647 <? x)%Z) eqn:Ew.
    + assert (Hf : forall s0, fail (A:=unit) InvalidOffset s0 = seek_result s0 fi f None) by reflexivity.
      rewrite (io_seek_from_result _ _ _ _ _ None Hr (Hf s)).
      apply orb_true_iff in Ew.
      destruct (Z.leb_spec (-2147483648) x); destruct (Z.leb_spec x 2147483647); cbn [andb]; try reflexivity.
      destruct Ew as [E|E]; [apply Z.ltb_lt in E|apply Z.ltb_lt in E]; lia.
    + apply orb_false_iff in Ew. destruct Ew as [E1 E2]. apply Z.ltb_ge in E1. apply Z.ltb_ge in E2.
      rewrite (io_seek_from_result _ _ _ _ _ _ Hr (file_seek_from_current_spec _ _ _ _ x Hr)).
      unfold spec_seek_cur.
      destruct (Z.leb_spec (-2147483648) x); destruct (Z.leb_spec x 2147483647); try lia. cbn [andb].
      destruct ((0 <=? Z.of_N (foff f) + x)%Z && (Z.of_N (foff f) + x <=? Z.of_N (flen f))%Z); reflexivity.
Qed.

(* C01, Seek adapter: for every argument of the SeekFrom types (in fact for every integer) the
   adapter never panics and never runs out of fuel; it returns Ok new_offset exactly when the
   argument passes the conversion window and the spec target lies in [0, len], and then the new
   offset IS the target; otherwise it returns InvalidOffset and the state (so the offset) is
   unchanged. *)
Theorem C01_io_seek_total s h fi f w (x : Z) :
  resolves s h fi f -> seek_arg_in_type w x ->
  let len := flen f in let off := foff f in
  let t := seek_target w x len off in
  fst (io_seek h w x s) <> Panic /\ fst (io_seek h w x s) <> OutOfFuel /\
  ((seek_window w x = true /\ (0 <= t <= Z.of_N len)%Z) ->
     io_seek h w x s = (Ok (Z.to_N t), upd_file s fi (set_f_offset f (Z.to_N t))) /\
     Z.of_N (Z.to_N t) = t /\ Z.to_N t <= len) /\
  (~ (seek_window w x = true /\ (0 <= t <= Z.of_N len)%Z) ->
     io_seek h w x s = (Err InvalidOffset, s)) /\
  only_file s (snd (io_seek h w x s)) fi.
Proof.
  intros Hr _ len off t. rewrite (C01_io_seek_spec _ _ _ _ w x Hr).
  fold len off t. unfold seek_accepts. fold len off t.
  destruct (seek_window w x); cbn [andb].
  - destruct (Z.leb_spec 0 t) as [H0|H0]; destruct (Z.leb_spec t (Z.of_N len)) as [H1|H1]; cbn [andb fst snd].
    all: split; [discriminate|]; split; [discriminate|]; split; [|split].
    all: first [ apply upd_file_frame | apply only_file_refl
               | intros [_ Hb]; first [ split; [reflexivity|lia] | exfalso; lia ]
               | intros Hn; first [ reflexivity | exfalso; apply Hn; split; [reflexivity|lia] ] ].
  - cbn [fst snd]. split; [discriminate|]. split; [discriminate|]. split; [|split].
    + intros [Hw _]. discriminate.
    + intros _. reflexivity.
    + apply only_file_refl.
Qed.

(* what the windows mean for the spec, so that nothing is hidden in `seek_window`:
   Start: x itself is the target, so any x in [0, len] passes as long as len < 2^32;
   End: the target len + x lies in [0, len] iff -len <= x <= 0;
   Current: the i32 window is a real restriction (a u32 offset can be further than 2^31 away). *)
Lemma seek_window_start_free len off x : len < U32 ->
  (0 <= seek_target FromStart x len off <= Z.of_N len)%Z -> seek_window FromStart x = true.
Proof.
  unfold U32, seek_target, seek_window. intros Hl H.
  destruct (Z.leb_spec 0 x); destruct (Z.leb_spec x 4294967295); try lia; reflexivity.
Qed.

Lemma seek_window_end_free len off x : len < U32 ->
  (0 <= seek_target FromEnd x len off <= Z.of_N len)%Z -> seek_window FromEnd x = true.
Proof.
  unfold U32, seek_target, seek_window. intros Hl H.
  destruct (Z.leb_spec (-4294967295) x); destruct (Z.leb_spec x 0); try lia; reflexivity.
Qed.

(* the i32 window of Current does reject legal targets: a 3 GiB file, cursor at 0, seek +2^31 *)
Example seek_window_current_restricts :
  let len := 3221225472 in let off := 0 in let x := 2147483648%Z in
  (0 <= seek_target FromCurrent x len off <= Z.of_N len)%Z /\ seek_window FromCurrent x = false.
Proof. cbn. split; [lia|reflexivity]. Qed.

(* ------------------------------------------------------------------ zero-length read and write *)
Theorem C01_io_read_zero h s : io_read h 0 s = (Ok [], s).
Proof. reflexivity. Qed.

Theorem C01_io_write_empty h s : io_write h [] s = (Ok 0, s).
Proof. reflexivity. Qed.

(* ------------------------------------------------------------------ the hypotheses are satisfiable *)
Definition ex_entry : dirent :=
  mk_dirent [] (mk_ts 0 0 0 0 0 0) (mk_ts 0 0 0 0 0 0) 0 5 1000 40 64.
Definition ex_file (id off : N) : fileinfo := mk_fileinfo id 7 0 5 off ReadOnly ex_entry false.
Definition ex_state : st :=
  set_s_files (init_state (PositiveMap.empty block) 0 1 4 4 []) [ex_file 11 3; ex_file 12 990].

Example ex_resolves : resolves ex_state 12 1 (ex_file 12 990).
Proof. repeat split. Qed.

Example ex_seek_end : fst (io_seek 12 FromEnd (-10) ex_state) = Ok 990.
Proof. reflexivity. Qed.
Example ex_seek_cur_bad : fst (io_seek 12 FromCurrent 11 ex_state) = Err InvalidOffset.
Proof. reflexivity. Qed.
Example ex_seek_cur_ok : fst (io_seek 12 FromCurrent (-990) ex_state) = Ok 0.
Proof. reflexivity. Qed.
Example ex_seek_min : fst (io_seek 12 FromEnd (-9223372036854775808) ex_state) = Err InvalidOffset.
Proof. reflexivity. Qed.

Print Assumptions file_seek_from_start_spec.
Print Assumptions file_seek_from_end_spec.
Print Assumptions file_seek_from_current_spec.
Print Assumptions C01_seek_from_start.
Print Assumptions C01_seek_from_end.
Print Assumptions C01_seek_from_current.
Print Assumptions C01_seeks_frame.
Print Assumptions seek_result_after.
Print Assumptions C01_file_eof.
Print Assumptions C01_file_length.
Print Assumptions C01_file_offset.
Print Assumptions C01_io_seek_spec.
Print Assumptions C01_io_seek_total.
Print Assumptions C01_io_read_zero.
Print Assumptions C01_io_write_empty.
