(* PROOFS about cluster allocation in the layer-B model (C03/C04/C05):
   - fat_entry: spec-side reading of a FAT entry from the disk (written from the FAT
     specification, independent of the model's code);
   - find_next_free_cluster returns the FIRST free entry of the range or NotEnoughSpace when
     the range has no free entry; it never panics and never runs out of fuel;
   - next_cluster reads fat_entry and classifies it;
   - a cluster returned by alloc_cluster is in range and was free.
   Everything is for ALL inputs; no bounds. *)
From Coq Require Import NArith ZArith List Bool Lia Arith ZifyClasses ZifyInst Zify FMapPositive.
From SdFs Require Import FsTypes FsBase FsFat FsMgr FsLemmas PrBase.
Import ListNotations.
Open Scope N_scope.
Local Arguments N.mul : simpl never.
Local Arguments N.add : simpl never.
Local Arguments N.sub : simpl never.
Local Arguments N.div : simpl never.
Local Arguments N.modulo : simpl never.
Local Arguments N.land : simpl never.
Local Ltac Zify.zify_post_hook ::= Z.to_euclidean_division_equations.

(* ------------------------------------------------------------------ SPEC side *)
(* width in bytes of one FAT entry *)
Definition fat_w (v : vol) : N := if v_fat32 v then 4 else 2.

(* entry c of the first FAT copy, as the FAT specification says to read it: byte offset c*w,
   i.e. sector fat_start + (c*w)/512 of the volume (which starts at v_lba) and offset
   (c*w) mod 512 in it; little-endian; a FAT32 entry has 28 significant bits *)
Definition fat_entry (d : disk) (v : vol) (c : N) : N :=
  let b := disk_get d (v_lba v + v_fat_start v + (c * fat_w v) / 512) in
  let off := (c * fat_w v) mod 512 in
  if v_fat32 v then N.land (le32 b off) 268435455 else le16 b off.

(* arithmetic side conditions under which the u32 checks of the code succeed: the FAT has
   room for clusters + 2 entries below 2^32 bytes, the FAT sectors, the data area and (FAT16)
   the root directory region have 32-bit block numbers *)
Record vol_ok (v : vol) : Prop := mk_vol_ok {
  vo_entries : (v_clusters v + 2) * 4 < U32;
  vo_fat : v_lba v + v_fat_start v + ((v_clusters v + 2) * 4) / 512 < U32;
  vo_data : data_geom_ok v;
  vo_root : v_fat32 v = false ->
            v_lba v + v_root_block v + from_bytes (v_root_entries v * 32) < U32
}.

Lemma fat_entry_at_eq d v c :
  fat_entry d v c =
  fat_entry_at (v_fat32 v) (disk_get d (v_lba v + v_fat_start v + (c * fat_w v) / 512))
               ((c * fat_w v) mod 512).
Proof. reflexivity. Qed.

(* the same with the block number associated as the code computes it (and as PrFat.fat_get
   writes it: fat_entry d v c = PrFat.fat_get d v 0 c by unfolding and this lemma) *)
Lemma fat_entry_assoc d v c :
  fat_entry d v c =
  let b := disk_get d (v_lba v + (v_fat_start v + (c * fat_w v) / 512)) in
  let off := (c * fat_w v) mod 512 in
  if v_fat32 v then N.land (le32 b off) 268435455 else le16 b off.
Proof. unfold fat_entry. rewrite N.add_assoc. reflexivity. Qed.

(* ------------------------------------------------------------------ monad helpers *)
Lemma bind_inv {A B} (m : M A) (k : A -> M B) s x s' :
  bind m k s = (Ok x, s') -> exists a s1, m s = (Ok a, s1) /\ k a s1 = (Ok x, s').
Proof.
  unfold bind. destruct (m s) as [[a|e| |] s1]; intros H; try discriminate.
  exists a, s1. split; [reflexivity|exact H].
Qed.

Lemma try_ok {A} (m : M A) s a s' : m s = (Ok a, s') -> try m s = (Ok (inl a), s').
Proof. intros H. unfold try. rewrite H. reflexivity. Qed.
Lemma try_err {A} (m : M A) s e s' : m s = (Err e, s') -> try m s = (Ok (inr e), s').
Proof. intros H. unfold try. rewrite H. reflexivity. Qed.

Lemma get_vol_some vi v s : nth_error (s_vols s) vi = Some v -> get_vol vi s = (Ok v, s).
Proof. intros H. unfold get_vol, bind, get. rewrite H. reflexivity. Qed.

Lemma same_mgr_vol s s' vi v :
  same_mgr s s' -> nth_error (s_vols s) vi = Some v -> nth_error (s_vols s') vi = Some v.
Proof. intros (E & _) H. rewrite E. exact H. Qed.

(* ------------------------------------------------------------------ sector arithmetic *)
Lemma fat_w_cases v : fat_w v = 2 \/ fat_w v = 4.
Proof. unfold fat_w. destruct (v_fat32 v); auto. Qed.

(* entries cur..j lie in the same FAT sector when the running offset stays inside it *)
Lemma same_sector w cur j : (w = 2 \/ w = 4) -> cur <= j ->
  (cur * w) mod 512 + (j - cur) * w <= 512 - w ->
  (j * w) / 512 = (cur * w) / 512 /\ (j * w) mod 512 = (cur * w) mod 512 + (j - cur) * w.
Proof. intros [->| ->] H1 H2; lia. Qed.

Lemma off_aligned w cur : (w = 2 \/ w = 4) -> (cur * w) mod 512 <= 512 - w.
Proof. intros [->| ->]; lia. Qed.

Lemma fat_sector_ok v c s : vol_ok v -> c < v_clusters v + 2 ->
  fat_block v (v_fat_start v) (c * fat_w v) s
  = (Ok (v_lba v + v_fat_start v + (c * fat_w v) / 512), s).
Proof.
  intros [H1 H2 _ _] Hc. unfold fat_block.
  assert (Hq : (c * fat_w v) / 512 <= ((v_clusters v + 2) * 4) / 512)
    by (destruct (fat_w_cases v) as [-> | ->]; lia).
  assert (Ha : v_fat_start v + (c * fat_w v) / 512 < U32) by (unfold U32 in *; lia).
  rewrite (bind_ok _ _ _ _ _ (add32_ok _ _ s Ha)).
  rewrite add32_ok by (unfold U32 in *; lia).
  f_equal. f_equal. lia.
Qed.

Lemma entry_mul_ok v c s : vol_ok v -> c < v_clusters v + 2 ->
  mul32 c (fat_w v) s = (Ok (c * fat_w v), s).
Proof.
  intros [H1 _ _ _] Hc. apply mul32_ok.
  destruct (fat_w_cases v) as [-> | ->]; unfold U32 in *; lia.
Qed.

(* ------------------------------------------------------------------ the sector scan, complete *)
(* when the scan of a sector finds nothing, every entry it passed over is non-zero, inside
   the sector and below the end bound; and it stopped for one of three reasons *)
Lemma scan_none_full n fat32 : forall b off cur endc cur',
  scan_sector n fat32 b off cur endc = (None, cur') ->
  cur <= cur' /\
  (forall j, cur <= j -> j < cur' ->
     fat_entry_at fat32 b (off + (j - cur) * (if fat32 then 4 else 2)) <> 0 /\
     off + (j - cur) * (if fat32 then 4 else 2) <= 512 - (if fat32 then 4 else 2) /\ j < endc) /\
  (cur' = cur + N.of_nat n \/
   512 - (if fat32 then 4 else 2) < off + (cur' - cur) * (if fat32 then 4 else 2) \/
   endc <= cur').
Proof.
  induction n as [|n IH]; intros b off cur endc cur' H.
  - inversion H; subst. split; [lia|]. split; [intros; lia|]. left. lia.
  - cbn [scan_sector] in H.
    destruct ((off <=? 512 - (if fat32 then 4 else 2)) && (cur <? endc)) eqn:Hc.
    + apply andb_true_iff in Hc. destruct Hc as [Ho Hlt].
      apply N.leb_le in Ho. apply N.ltb_lt in Hlt.
      destruct ((if fat32 then N.land (le32 b off) 268435455 else le16 b off) =? 0) eqn:He;
        [discriminate|].
      apply IH in H. destruct H as (H1 & H2 & H3).
      split; [lia|]. split.
      * intros j Hj1 Hj2. destruct (N.eq_dec j cur) as [->|Hne].
        -- replace (cur - cur) with 0 by lia. rewrite N.mul_0_l, N.add_0_r.
           split; [|split; assumption]. unfold fat_entry_at. apply N.eqb_neq. exact He.
        -- specialize (H2 j ltac:(lia) Hj2).
           replace (off + (if fat32 then 4 else 2) + (j - (cur + 1)) * (if fat32 then 4 else 2))
             with (off + (j - cur) * (if fat32 then 4 else 2)) in H2 by (destruct fat32; lia).
           exact H2.
      * replace (off + (if fat32 then 4 else 2) + (cur' - (cur + 1)) * (if fat32 then 4 else 2))
          with (off + (cur' - cur) * (if fat32 then 4 else 2)) in H3 by (destruct fat32; lia).
        destruct H3 as [H3|[H3|H3]]; [left; lia|right; left; exact H3|right; right; exact H3].
    + inversion H; subst. split; [lia|]. split; [intros; lia|].
      apply andb_false_iff in Hc. destruct Hc as [Hc|Hc].
      * apply N.leb_gt in Hc. right. left. replace (cur' - cur') with 0 by lia.
        rewrite N.mul_0_l, N.add_0_r. exact Hc.
      * apply N.ltb_ge in Hc. right. right. exact Hc.
Qed.

(* ------------------------------------------------------------------ B: the free-cluster search *)
(* outcome of the search over [start, endc): the disk is untouched, the state predicates are
   kept, and the result is the first free entry or NotEnoughSpace with no free entry at all *)
Definition fnf_post (v : vol) (start endc : N) (s : st) (o : outcome N) (s' : st) : Prop :=
  s_disk s' = s_disk s /\ cache_ok s' /\ no_faults s' /\ same_mgr s s' /\
  ((exists c, o = Ok c /\ start <= c /\ c < endc /\ fat_entry (s_disk s) v c = 0 /\
              forall j, start <= j -> j < c -> fat_entry (s_disk s) v j <> 0)
   \/ (o = Err NotEnoughSpace /\
       forall j, start <= j -> j < endc -> fat_entry (s_disk s) v j <> 0)).

Lemma find_loop_spec v endc : vol_ok v -> endc <= v_clusters v + 2 ->
  forall fuel cur s, no_faults s -> cache_ok s ->
  1 <= N.of_nat fuel ->
  (cur < endc -> (endc * fat_w v) / 512 - (cur * fat_w v) / 512 + 2 <= N.of_nat fuel) ->
  exists o s', find_next_free_loop fuel v cur endc s = (o, s') /\ fnf_post v cur endc s o s'.
Proof.
  intros Hv Hend. induction fuel as [|f IH]; intros cur s Hnf Hc Hf1 Hf2; [lia|].
  cbn [find_next_free_loop].
  destruct (cur <? endc) eqn:Hlt.
  2:{ apply N.ltb_ge in Hlt. exists (Err NotEnoughSpace), s. split; [reflexivity|].
      unfold fnf_post. repeat split; auto using same_mgr_refl.
      right. split; [reflexivity|]. intros; lia. }
  apply N.ltb_lt in Hlt. specialize (Hf2 Hlt).
  change (if v_fat32 v then 4 else 2) with (fat_w v).
  assert (Hcur : cur < v_clusters v + 2) by lia.
  rewrite (bind_ok _ _ _ _ _ (entry_mul_ok v cur s Hv Hcur)).
  rewrite (bind_ok _ _ _ _ _ (fat_sector_ok v cur s Hv Hcur)).
  destruct (cache_read_spec (v_lba v + v_fat_start v + (cur * fat_w v) / 512) s Hnf Hc)
    as (s1 & Hr & Hd & _ & _ & Hc1 & Hnf1 & Hm & _).
  rewrite (bind_ok _ _ _ _ _ Hr).
  pose proof (fat_w_cases v) as Hw.
  pose proof (off_aligned (fat_w v) cur Hw) as Hal.
  destruct (scan_sector 257 (v_fat32 v)
              (disk_get (s_disk s) (v_lba v + v_fat_start v + (cur * fat_w v) / 512))
              ((cur * fat_w v) mod 512) cur endc) as [[c|] cur'] eqn:Hs.
  - (* found in this sector *)
    exists (Ok c), s1. split; [reflexivity|].
    pose proof (scan_sector_sound _ _ _ _ _ _ _ _ Hs) as (S1 & S2 & S3 & S4).
    pose proof (scan_sector_first _ _ _ _ _ _ _ _ Hs) as S5.
    change (if v_fat32 v then 4 else 2) with (fat_w v) in *.
    unfold fnf_post. split; [exact Hd|]. split; [exact Hc1|]. split; [exact Hnf1|].
    split; [exact Hm|]. left. exists c. split; [reflexivity|]. split; [exact S1|].
    split; [exact S2|]. split.
    + destruct (same_sector (fat_w v) cur c Hw S1 S4) as (E1 & E2).
      rewrite fat_entry_at_eq, E1, E2. exact S3.
    + intros j Hj1 Hj2.
      assert (Hin : (cur * fat_w v) mod 512 + (j - cur) * fat_w v <= 512 - fat_w v)
        by (destruct Hw as [Ew|Ew]; rewrite Ew in *; lia).
      destruct (same_sector (fat_w v) cur j Hw Hj1 Hin) as (E1 & E2).
      rewrite fat_entry_at_eq, E1, E2. apply S5; assumption.
  - (* nothing in this sector: go on with the next one *)
    pose proof (scan_none_full _ _ _ _ _ _ _ Hs) as (N1 & N2 & N3).
    pose proof (scan_sector_none _ _ _ _ _ _ _ Hs) as (_ & N4).
    change (if v_fat32 v then 4 else 2) with (fat_w v) in *.
    assert (Hlocal : forall j, cur <= j -> j < cur' -> fat_entry (s_disk s) v j <> 0).
    { intros j Hj1 Hj2. destruct (N2 j Hj1 Hj2) as (A1 & A2 & _).
      destruct (same_sector (fat_w v) cur j Hw Hj1 A2) as (E1 & E2).
      rewrite fat_entry_at_eq, E1, E2. exact A1. }
    assert (Hfuel : 1 <= N.of_nat f /\
              (cur' < endc ->
               (endc * fat_w v) / 512 - (cur' * fat_w v) / 512 + 2 <= N.of_nat f)).
    { split; [lia|]. intros Hlt'.
      assert (Hgt : cur < cur').
      { destruct (N.eq_dec cur cur') as [E|E]; [|lia]. subst cur'.
        replace (cur - cur) with 0 in N3 by lia. rewrite N.mul_0_l, N.add_0_r in N3.
        destruct N3 as [N3|[N3|N3]]; lia. }
      destruct (N2 (cur' - 1) ltac:(lia) ltac:(lia)) as (_ & B2 & _).
      assert (Hfull : (cur * fat_w v) mod 512 + (cur' - cur) * fat_w v = 512).
      { destruct N3 as [N3|[N3|N3]]; [| |lia].
        - exfalso. destruct Hw as [Ew|Ew]; rewrite Ew in *; lia.
        - destruct Hw as [Ew|Ew]; rewrite Ew in *; lia. }
      assert (Hnext : (cur' * fat_w v) / 512 = (cur * fat_w v) / 512 + 1)
        by (destruct Hw as [Ew|Ew]; rewrite Ew in *; lia).
      assert (Hle : (cur' * fat_w v) / 512 <= (endc * fat_w v) / 512)
        by (destruct Hw as [Ew|Ew]; rewrite Ew in *; lia).
      lia. }
    destruct Hfuel as (F1 & F2).
    destruct (IH cur' s1 Hnf1 Hc1 F1 F2) as (o & s2 & Hrun & Hpost).
    exists o, s2. split; [exact Hrun|].
    unfold fnf_post in *. destruct Hpost as (P1 & P2 & P3 & P4 & P5).
    rewrite Hd in *.
    split; [exact P1|]. split; [exact P2|]. split; [exact P3|].
    split; [exact (same_mgr_trans _ _ _ Hm P4)|].
    destruct P5 as [(c & Eo & Q1 & Q2 & Q3 & Q4)|(Eo & Q)].
    + left. exists c. split; [exact Eo|]. split; [lia|]. split; [exact Q2|].
      split; [exact Q3|]. intros j Hj1 Hj2.
      destruct (N.lt_ge_cases j cur') as [L|G]; [apply Hlocal; assumption|apply Q4; assumption].
    + right. split; [exact Eo|]. intros j Hj1 Hj2.
      destruct (N.lt_ge_cases j cur') as [L|G]; [apply Hlocal; assumption|apply Q; assumption].
Qed.

(* B.  find_next_free_cluster finds the FIRST free entry of [start, endc) - or reports
   NotEnoughSpace exactly when there is none; it reads only; never Panic, never OutOfFuel. *)
Theorem find_next_free_cluster_spec v start endc s :
  vol_ok v -> start <= endc -> endc <= v_clusters v + 2 -> no_faults s -> cache_ok s ->
  exists o s', find_next_free_cluster v start endc s = (o, s') /\
    s_disk s' = s_disk s /\ cache_ok s' /\ no_faults s' /\ same_mgr s s' /\
    ((exists c, o = Ok c /\ start <= c /\ c < endc /\ fat_entry (s_disk s) v c = 0 /\
                forall j, start <= j -> j < c -> fat_entry (s_disk s) v j <> 0)
     \/ (o = Err NotEnoughSpace /\
         forall j, start <= j -> j < endc -> fat_entry (s_disk s) v j <> 0)).
Proof.
  intros Hv _ Hend Hnf Hc. unfold find_next_free_cluster.
  apply (find_loop_spec v endc Hv Hend _ start s Hnf Hc); [lia|].
  intros _. destruct (fat_w_cases v) as [-> | ->]; lia.
Qed.

(* ------------------------------------------------------------------ next_cluster reads fat_entry *)
(* classification of a FAT entry by next_cluster (src/fat/volume.rs) *)
Definition next_result (v : vol) (e : N) : N + err :=
  if v_fat32 v then
    if e =? 0 then inr UnterminatedFatChain
    else if e =? 268435447 then inr BadCluster
    else if (e =? 1) || (268435448 <=? e) then inr EndOfFile
    else inl e
  else
    if e =? 65527 then inr BadCluster
    else if 65528 <=? e then inr EndOfFile
    else inl e.

Theorem next_cluster_reads v c s :
  vol_ok v -> c < v_clusters v + 2 -> no_faults s -> cache_ok s ->
  exists s', try (next_cluster v c) s = (Ok (next_result v (fat_entry (s_disk s) v c)), s') /\
    s_disk s' = s_disk s /\ cache_ok s' /\ no_faults s' /\ same_mgr s s'.
Proof.
  intros Hv Hc Hnf Hco.
  pose proof (fat_sector_ok v c s Hv Hc) as Hfb.
  destruct (cache_read_spec (v_lba v + v_fat_start v + (c * fat_w v) / 512) s Hnf Hco)
    as (s1 & Hr & Hd & _ & _ & Hc1 & Hnf1 & Hm & _).
  exists s1. split; [|split; [exact Hd|split; [exact Hc1|split; [exact Hnf1|exact Hm]]]].
  assert (Hp : (1073741823 <? c) = false).
  { apply N.ltb_ge. destruct Hv as [H1 _ _ _]. unfold U32 in H1. lia. }
  unfold try, next_cluster, next_result, fat_entry. rewrite Hp.
  unfold fat_w in *. destruct (v_fat32 v).
  - rewrite (bind_ok _ _ _ _ _ Hfb). rewrite (bind_ok _ _ _ _ _ Hr).
    repeat match goal with |- context [if ?b then _ else _] => destruct b end; reflexivity.
  - rewrite (bind_ok _ _ _ _ _ Hfb). rewrite (bind_ok _ _ _ _ _ Hr).
    repeat match goal with |- context [if ?b then _ else _] => destruct b end; reflexivity.
Qed.

(* ------------------------------------------------------------------ C: alloc_cluster *)
(* the next-free hint, when present, is not a reserved entry.  (The info-sector reader drops
   0 and 1; see alloc_needs_hint_ok below for why the hypothesis cannot be dropped.) *)
Definition hint_ok (v : vol) : Prop := forall c, v_next_free v = Some c -> 2 <= c.

Ltac peel H := repeat (apply bind_inv in H; destruct H as (? & ? & _ & H)).

(* C03/C04/C05.  A cluster handed out by alloc_cluster is a real data cluster of the volume
   (never a reserved or slack entry) and its FAT entry was zero - it was free - before. *)
Theorem alloc_range vi v prev zero s c s' :
  nth_error (s_vols s) vi = Some v -> vol_ok v -> hint_ok v -> no_faults s -> cache_ok s ->
  alloc_cluster vi prev zero s = (Ok c, s') ->
  2 <= c /\ c < v_clusters v + 2 /\ fat_entry (s_disk s) v c = 0.
Proof.
  intros Hvi Hv Hh Hnf Hc H. unfold alloc_cluster in H.
  rewrite (bind_ok _ _ _ _ _ (get_vol_some vi v s Hvi)) in H.
  assert (He : v_clusters v + RESERVED_ENTRIES < U32)
    by (destruct Hv as [H1 _ _ _]; unfold U32, RESERVED_ENTRIES in *; lia).
  rewrite (bind_ok _ _ _ _ _ (add32_ok _ _ s He)) in H.
  cbv zeta in H. unfold RESERVED_ENTRIES in H.
  remember (match v_next_free v with
            | Some c0 => if c0 <? v_clusters v + 2 then c0 else 2
            | None => 2 end) as start eqn:Estart.
  assert (Hs1 : 2 <= start /\ start <= v_clusters v + 2).
  { subst start. destruct (v_next_free v) as [c0|] eqn:En; [|lia].
    destruct (c0 <? v_clusters v + 2) eqn:E; [|lia]. apply N.ltb_lt in E.
    specialize (Hh c0 En). lia. }
  destruct Hs1 as (Hs1 & Hs2).
  destruct (find_next_free_cluster_spec v start (v_clusters v + 2) s Hv Hs2 (N.le_refl _) Hnf Hc)
    as (o & s1 & Hf & Hd & Hc1 & Hnf1 & Hm & Hres).
  destruct Hres as [(c1 & -> & R1 & R2 & R3 & _)|(-> & Hnone)].
  - rewrite (bind_ok _ _ _ _ _ (try_ok _ _ _ _ Hf)) in H.
    apply bind_inv in H. destruct H as (a & s2 & Ha & H).
    unfold ret in Ha. inversion Ha; subst a s2. clear Ha.
    peel H. unfold ret in H. inversion H; subst. repeat split; [lia|assumption|assumption].
  - rewrite (bind_ok _ _ _ _ _ (try_err _ _ _ _ Hf)) in H.
    apply bind_inv in H. destruct H as (a & s2 & Ha & H).
    destruct (2 <? start); [|discriminate].
    destruct (find_next_free_cluster_spec v 2 (v_clusters v + 2) s1 Hv ltac:(lia) (N.le_refl _)
                Hnf1 Hc1) as (o2 & s3 & Hf2 & _ & _ & _ & _ & Hres2).
    rewrite Hf2 in Ha.
    destruct Hres2 as [(c2 & -> & R1 & R2 & R3 & _)|(-> & _)]; [|discriminate].
    inversion Ha; subst a s3. clear Ha. rewrite Hd in R3.
    peel H. unfold ret in H. inversion H; subst. repeat split; assumption.
Qed.

(* ------------------------------------------------------------------ the hypotheses are satisfiable *)
Definition ex_vol (fat32 : bool) (hint : option N) : vol :=
  mk_vol 0 0 2048 200000 [] 8 1000 32 (Some 400) None hint 20000 fat32 512 900 1 2.

Example vol_ok_example : vol_ok (ex_vol true (Some 5)) /\ vol_ok (ex_vol false None) /\
  hint_ok (ex_vol true (Some 5)) /\ hint_ok (ex_vol false None).
Proof.
  split; [|split; [|split]].
  - constructor; try (intros _); vm_compute; reflexivity.
  - constructor; try (intros _); vm_compute; reflexivity.
  - intros c H. inversion H; subst. lia.
  - intros c H. discriminate H.
Qed.

Definition ex_state (v : vol) : st :=
  mk_st (PositiveMap.empty block) zero_block None [v] [] [] 0 0 0 [] [] false 1 1 1.

Lemma ex_state_ok v : no_faults (ex_state v) /\ cache_ok (ex_state v).
Proof. split; [intros n H; destruct H|intros i H; discriminate H]. Qed.

(* on a blank disk the first data cluster is handed out *)
Example alloc_example :
  fst (alloc_cluster 0 None false (ex_state (ex_vol false None))) = Ok 2.
Proof. vm_compute. reflexivity. Qed.

(* hint_ok cannot be dropped: with a hint below 2 (reachable in the code through
   truncate_cluster_chain on a FAT16 chain whose link reads 0 or 1) and a zero entry 0, the
   reserved entry 0 is handed out *)
Example alloc_needs_hint_ok :
  exists v, vol_ok v /\ no_faults (ex_state v) /\ cache_ok (ex_state v) /\
            fst (alloc_cluster 0 None false (ex_state v)) = Ok 0.
Proof.
  exists (ex_vol false (Some 0)). split; [|split; [|split]].
  - constructor; try (intros _); vm_compute; reflexivity.
  - apply ex_state_ok.
  - apply ex_state_ok.
  - vm_compute. reflexivity.
Qed.

Print Assumptions find_next_free_cluster_spec.
Print Assumptions next_cluster_reads.
Print Assumptions alloc_range.
Print Assumptions alloc_needs_hint_ok.
