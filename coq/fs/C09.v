(* Property C09 - flushed data survives power loss
   This file contains only property theorems (each closed by `exact`), `Check` pins and
   `Print Assumptions`.  FULL STATEMENT (DESIGN.md 4 C09) is not yet proved for the whole
   layer-B model; what is proved here are the named mechanisms, for all inputs.  The gap is
   covered - visibly - by the correspondence check and the spec oracle (see evidence). *)
From Coq Require Import NArith ZArith List Bool.
From SdFs Require Import FsTypes FsBase FsFat FsMgr FsLemmas.
Import ListNotations.
Open Scope N_scope.


Theorem C09_bystander_blocks_partial : forall (v : vol) (c1 c2 k1 k2 : N), c1 <> c2 -> 2 <= c1 -> 2 <= c2 -> k1 < v_spc v -> k2 < v_spc v -> (c1 - 2) * v_spc v + k1 <> (c2 - 2) * v_spc v + k2.
Proof. exact cluster_blocks_disjoint. Qed.

Print Assumptions C09_bystander_blocks_partial.
