(* PROOFS: C10 / C09 for OpenFile, part 3: the creating open (free slot; directory full; the
   directory grows by one zeroed cluster) and the assembly: step_crash_OpenFile,
   step_keeps_OpenFile - every mode, every outcome. *)
From Coq Require Import NArith ZArith List Bool Lia Arith ZifyClasses ZifyInst Zify FMapPositive Permutation.
From SdFs Require Import FsTypes FsBase FsFat FsMgr FsLemmas PrBase PrFat PrAlloc PrDir PrSeek PrAllocEffect
  PrRw PrWrite PrFileSeq PrMulti PrEntry PrChain PrCount PrWf PrOpenClose PrGlobalDef PrGlobalWrite PrGlobalOpen PrGlobalOpen2.
From SdFs Require PrModes PrHandles PrBounds PrOrder.
From SdFs Require Import PrCrash PrCrashDef PrCrashDef2 PrCrashDef3 PrCrashDef4 PrCrashOpen PrCrashOpen2.
Import ListNotations.
Open Scope N_scope.
Local Arguments N.mul : simpl never.
Local Arguments N.add : simpl never.
Local Arguments N.sub : simpl never.
Local Arguments N.div : simpl never.
Local Arguments N.modulo : simpl never.
Local Arguments N.land : simpl never.
Local Arguments N.lor : simpl never.
Local Arguments N.min : simpl never.
Local Arguments N.max : simpl never.
Local Ltac Zify.zify_post_hook ::= Z.to_euclidean_division_equations.

(* ================================================================== 1. the medium after the slot write of a create *)
(* PrGlobalOpen2.create_disk with the tree it builds: the node of the new, empty file inserted
   into the kid list of the directory dc *)
Section CreateDiskX.
  Variables (fsz : N) (d d' : disk) (v : vol) (bl rch : list N) (T : list node) (pend : list N).
  Variables (dc : N) (bl' : list N) (parent : N) (kids : list node) (sfn : list N) (blk i : N) (sl0 : list N) (ts0 : ts).
  Local Notation off := (i * 32).
  Hypothesis Hinv : disk_inv d v bl rch T pend.
  Hypothesis Hlay : PrBounds.part_layout v (v_nblocks v) fsz.
  Hypothesis Hdev : v_lba v + v_nblocks v < U32.
  Hypothesis Hctx : dir_ctx d v bl T dc bl' parent kids.
  Hypothesis Hwf : sfn_wf sfn.
  Hypothesis He5 : get8 sfn 0 <> 229.
  Hypothesis Hdot : PrModes.dot_name sfn = false.
  Hypothesis Hnone : find (t_matches sfn) (live_in_blocks d bl') = None.
  Hypothesis Hfree : find nv (slots_of d bl') = Some (blk, off, sl0).
  Local Notation e := (mk_dirent sfn ts0 ts0 0 CL_EMPTY 0 blk off).
  Local Notation new := (ser_bytes (v_fat32 v) e).
  Hypothesis Hsw : slot_write d d' blk i new.
  Local Notation e2 := (t_entry (v_fat32 v) (blk, off, new)).

  Theorem create_disk_x : exists k,
    disk_inv d' v bl rch (forest_upd_kids dc (ins_at k (NFile e2 [])) T) pend /\ In blk bl' /\
    In blk (tree_dir_blocks v bl T).
  Proof.
    pose proof (find_some _ _ Hfree) as [Hin Hnv]. apply In_slots_of in Hin.
    destruct Hin as (b & i0 & Hb & Hi & Et). injection Et as E1 E2 E3. subst b sl0.
    assert (i0 = i) by lia. subst i0.
    destruct (dir_ctx_is_dir_of d v bl rch T dc bl' parent kids (di_root _ _ _ _ _ _ Hinv) Hctx) as (chd & Hdir).
    destruct Hwf as (Hlen & Hall).
    assert (Hlen' : length (e_name e) = 11%nat) by exact Hlen.
    destruct (ser_bytes_layout (v_fat32 v) e Hlen') as (L0 & L11 & _ & _ & _ & _ & _ & _ & _ & Lfirst).
    cbn [e_name e_attr] in L0, L11, Lfirst.
    pose proof (C02_codec_roundtrip_fields (v_fat32 v) e blk (i * 32) Hlen') as R.
    cbv zeta in R. destruct R as (R1 & R2 & R3 & _ & _ & _ & _ & R8 & R9 & R10).
    change (get_entry (v_fat32 v) (ser_bytes (v_fat32 v) e) blk (i * 32)) with e2 in R1, R2, R3, R8, R9, R10.
    cbn [e_name e_attr e_size e_cluster] in R1, R2, R3, R10.
    assert (Ec2 : e_cluster e2 = 0).
    { rewrite R10 by (unfold CL_EMPTY; destruct (v_fat32 v); lia). reflexivity. }
    assert (Es2 : e_size e2 = 0) by (apply R3; lia).
    assert (Hf0 : get8 new 0 <> 0) by (rewrite Lfirst; exact (sfn_first_byte sfn (conj Hlen Hall))).
    assert (Hend : is_end new = false) by (unfold is_end; apply N.eqb_neq; exact Hf0).
    assert (Hnode : node_slot (blk, i * 32, new) = true).
    { unfold node_slot, short_slot, t_is_valid, is_valid, dot_slot, t_attr, t_name. cbn [snd].
      rewrite Hend, L11, L0. unfold PrModes.dot_name in Hdot. rewrite Hdot.
      rewrite Lfirst. apply N.eqb_neq in He5. rewrite He5. reflexivity. }
    assert (Hfresh : ~ In (t_name (blk, i * 32, new)) (map t_name (dir_shorts d bl'))).
    { unfold t_name. cbn [snd]. rewrite L0. exact (notfound_slot d v dc parent bl' sfn (dx_ok _ _ _ _ _ _ _ _ Hctx) Hnone). }
    assert (Hrep : node_rep d' v (NFile e2 []) (blk, i * 32, new)).
    { apply node_rep_file. split; [reflexivity|]. split; [rewrite R2; reflexivity|]. right. split; [rewrite Ec2; lia|reflexivity]. }
    assert (Hok : node_ok d' v dc (NFile e2 [])).
    { apply node_ok_file. rewrite Es2. cbn [length]. unfold U32. split; lia. }
    destruct (tree_inv_insert d d' v bl rch T pend (v_nblocks v) fsz Hinv Hlay Hdev dc bl' chd blk i new Hdir Hsw Hb
                (NFile e2 []) Hfree Hend Hnode Hfresh Hrep Hok ltac:(repeat constructor; intros [])
                ltac:(intros q [])) as (k & HT' & Hperm).
    cbv zeta in HT', Hperm. set (T' := forest_upd_kids dc (ins_at k (NFile e2 [])) T) in *.
    exists k.
    assert (Hnfat : ~ fat_area v blk).
    { exact (dir_blocks_not_fat d v bl rch T pend (v_nblocks v) fsz Hinv Hlay Hdev dc bl' chd blk Hdir Hb). }
    pose proof (slot_write_fat d d' v blk i new Hsw Hnfat) as Hfat.
    split; [|split; [exact Hb|]].
    - apply (disk_inv_join d' v bl rch T' pend HT').
      apply (fat_wf_ext d d' v _ Hfat). apply (fat_wf_perm d v (heads v T ++ pend)); [|exact (di_wf _ _ _ _ _ _ Hinv)].
      apply Permutation_app_tail. unfold heads. apply Permutation_app_head. rewrite !heads_all_nodes.
      pose proof (Hperm _ own_head own_head_blind) as P. cbn [flatten flat_map own_head] in P. rewrite Ec2 in P.
      cbn [N.leb app] in P. apply Permutation_sym. exact P.
    - destruct (dx_where _ _ _ _ _ _ _ _ Hctx) as [(_ & Ebl & _)|(e1 & ch1 & Hn1 & _ & Ebl & _)]; rewrite Ebl in Hb.
      + unfold tree_dir_blocks. apply in_or_app. left. exact Hb.
      + exact (all_nodes_dir_blocks v bl T e1 ch1 kids Hn1 _ Hb).
  Qed.
End CreateDiskX.

(* nothing is a target of a creating open *)
Definition no_slot (q : N * N) : Prop := False.

(* ================================================================== 2. the creating open, the directory has a free slot *)
Lemma create_slot_crash fsz vid s vi v bl rch T h name di dd sfn bl' parent kids s1 blk off sl0 o s2 :
  open_ctx fsz vid s vi v bl rch T h name di dd sfn bl' parent kids s1 ->
  find (t_matches sfn) (live_in_blocks (s_disk s) bl') = None ->
  find nv (slots_of (s_disk s1) bl') = Some (blk, off, sl0) ->
  write_new_directory_entry 0%nat (d_cluster dd) sfn 0 CL_EMPTY s1 = (o, s2) ->
  traced s s2 /\ crash_all (keeps_tree v (s_disk s) T no_slot) s s2.
Proof.
  intros [Hat Hfresh Hres Hvol Hroom Hsfn He5 Hdot Hctx Hlook Hro Hrd] Hfind Hfree Hrun.
  pose proof (go_ro _ _ _ _ _ _ _ _ _ Hat Hro) as Hat1.
  pose proof Hro as (Hd & Hc1 & Hnf1 & Hm1).
  pose proof (sfn_of_str_wf _ _ Hsfn) as Hwf.
  rewrite <- Hd in Hctx, Hfind.
  destruct (go_facts _ _ _ _ _ _ _ _ Hat1) as (Hl1 & _ & _ & Ev1 & E0 & Hv01 & Hv & L & Hwf1 & _). subst vi.
  pose proof (fi_disk _ _ _ _ _ _ _ _ Hat1) as Hdisk1.
  pose proof (fi_layout _ _ _ _ _ _ _ _ Hat1) as PL.
  destruct (write_new_directory_entry_spec 0%nat v (d_cluster dd) sfn 0 CL_EMPTY s1 bl' blk off sl0 Hv01 Hv Hnf1 Hc1
              (dx_blocks _ _ _ _ _ _ _ _ Hctx) Hfree (proj1 Hwf) (Hwf1 blk))
    as (s2' & Hrun' & Hd2 & Hsw & _ & _ & _ & _ & _ & _ & l & Etr & Hl).
  rewrite Hrun in Hrun'. injection Hrun' as -> <-.
  set (en := mk_dirent sfn (clock_ts (s_clock s1)) (clock_ts (s_clock s1)) 0 CL_EMPTY 0 blk off) in *.
  assert (X01 : tr_ext s s1 []) by exact (reads_only_tr_ext s s1 Hrd).
  assert (X12 : tr_ext s1 s2 [(blk, disk_get (s_disk s2) blk)]).
  { apply (tr_ext_reads_write s1 s2 blk _ l Etr Hl). rewrite Hd2 at 1. rewrite Hd2, disk_get_set_same. reflexivity. }
  split; [exact (traced_trans _ _ _ (tr_ext_traced _ _ _ X01) (tr_ext_traced _ _ _ X12))|].
  set (P := keeps_tree v (s_disk s) T no_slot).
  assert (P0 : P (s_disk s)).
  { apply (keeps_tree_same v (s_disk s) bl rch T (pend_of s1 v)). rewrite <- Hd. exact (disk_inv_crash_inv_at _ _ _ _ _ _ Hdisk1). }
  assert (P2 : P (s_disk s2)).
  { pose proof (find_some _ _ Hfree) as [Hin _]. apply In_slots_of in Hin.
    destruct (Hin) as (b & i & Hb & Hi & Et). injection Et as E1 E2 E3. subst b off sl0.
    replace (i * 32 / 32) with i in Hsw by lia.
    destruct (create_disk_x fsz (s_disk s1) (s_disk s2) v bl rch T (pend_of s1 v) (d_cluster dd) bl' parent kids sfn blk i _
                (clock_ts (s_clock s1)) Hdisk1 PL (fi_dev _ _ _ _ _ _ _ _ Hat1) Hctx Hwf He5 Hdot Hfind Hfree Hsw)
      as (k & Hdisk2 & _ & Hbdir).
    eexists bl, rch, _, (pend_of s1 v). split; [exact (disk_inv_crash_inv_at _ _ _ _ _ _ Hdisk2)|].
    intros path e0 ch0 Hna _. split; [exact (node_at_insert _ k _ T path e0 ch0 Hna)|].
    intros j Hj. rewrite <- Hd. apply (proj1 Hsw). intros ->.
    exact (file_block_not_dir fsz _ v bl rch T _ e0 ch0 blk Hdisk1 PL (node_at_in _ _ _ Hna) Hj Hbdir). }
  apply (crash_all_trans P s s1 s2 (tr_ext_traced _ _ _ X01) (tr_ext_traced _ _ _ X12)).
  - exact (crash_all_nil P s s1 X01 P0).
  - apply (crash_all_one P s1 s2 _ _ X12); [rewrite Hd; exact P0|exact P2].
Qed.

(* ================================================================== 3. the creating open, the directory grows *)
Lemma create_grow_crash fsz vid s vi v bl rch T h name di dd sfn bl' parent kids s1 ch s0 cn sa en s2 :
  open_ctx fsz vid s vi v bl rch T h name di dd sfn bl' parent kids s1 ->
  find (t_matches sfn) (live_in_blocks (s_disk s) bl') = None ->
  find nv (slots_of (s_disk s1) bl') = None ->
  chain_at (s_disk s1) v (dir_first_cluster v (d_cluster dd)) ch -> bl' = data_blocks v ch ->
  qstep s1 s0 -> alloc_pre s0 0%nat v fsz ->
  alloc_cluster 0%nat (Some (last ch (dir_first_cluster v (d_cluster dd)))) true s0 = (Ok cn, sa) ->
  create_post (v_fat32 v) sfn 0 CL_EMPTY (cluster_first_block v cn) 0 sa en s2 ->
  traced s s2 /\ crash_all (keeps_tree v (s_disk s) T no_slot) s s2.
Proof.
  intros [Hat Hfresh Hres Hvol Hroom Hsfn He5 Hdot Hctx Hlook Hro Hrd] Hfind Hfreenone Hch Ebl' Hq0 Hpre0 Hal Hpost.
  set (dc := d_cluster dd) in *. set (c0 := dir_first_cluster v dc) in *.
  pose proof (go_ro _ _ _ _ _ _ _ _ _ Hat Hro) as Hat1.
  pose proof (go_ro _ _ _ _ _ _ _ _ _ Hat1 (proj1 Hq0)) as Hat0.
  pose proof Hro as (Hd & _ & _ & Hm1).
  pose proof (proj1 Hq0) as (Hd0 & Hc0 & Hnf0 & Hm0).
  pose proof (sfn_of_str_wf _ _ Hsfn) as Hwf.
  assert (Eds : s_disk s0 = s_disk s) by (rewrite Hd0; exact Hd).
  rewrite <- Hd, <- Hd0 in Hctx, Hfind. rewrite <- Hd0 in Hfreenone, Hch.
  destruct (go_facts _ _ _ _ _ _ _ _ Hat0) as (Hl0 & _ & _ & Ev0 & E0 & Hv00 & Hv & L & Hwf0 & _). subst vi.
  pose proof (fi_disk _ _ _ _ _ _ _ _ Hat0) as Hdisk0.
  pose proof (fi_layout _ _ _ _ _ _ _ _ Hat0) as Hlay.
  pose proof (fi_vol _ _ _ _ _ _ _ _ Hat0) as (_ & _ & Hfit & Hspc & _).
  pose proof (di_wf _ _ _ _ _ _ Hdisk0) as W.
  (* which directory grows *)
  assert (Hhead : (dc = CL_ROOT /\ v_fat32 v = true /\ c0 = v_root_cluster v /\ ch = rch) \/
                  (exists e kids0, In (NDir e ch kids0) (all_nodes T) /\ e_cluster e = dc /\ c0 = dc)).
  { destruct (dx_where _ _ _ _ _ _ _ _ Hctx) as [(Edc & _)|(e & ch1 & Hn & Ec & _ & Hch1 & R1 & R2)].
    - left. split; [exact Edc|]. unfold c0, dir_first_cluster in *. rewrite Edc, N.eqb_refl, andb_true_r in *.
      destruct (v_fat32 v) eqn:E32.
      + split; [reflexivity|]. split; [reflexivity|]. pose proof (di_root _ _ _ _ _ _ Hdisk0) as Hr. unfold root_dir in Hr.
        rewrite E32 in Hr. exact (chain_at_det _ _ _ _ _ Hch (proj1 Hr)).
      + exfalso. destruct (chain_of_head _ _ _ _ _ Hch) as (_ & R2 & _). exact (in_range_not_root v _ Hv R2 eq_refl).
    - right. assert (Ec0 : c0 = dc).
      { unfold c0, dir_first_cluster. replace (dc =? CL_ROOT) with false; [rewrite andb_false_r; reflexivity|].
        symmetry. apply N.eqb_neq. exact (in_range_not_root v dc Hv R2). }
      rewrite Ec0 in Hch. rewrite (chain_at_det _ _ _ _ _ Hch Hch1). exists e, kids. auto. }
  assert (Hc0in : In c0 (heads v T ++ pend_of s0 v)).
  { apply in_or_app. left. unfold heads. apply in_or_app.
    destruct Hhead as [(_ & E32 & -> & _)|(e & kids0 & Hn & Ec & ->)].
    - left. unfold root_heads. rewrite E32. left. reflexivity.
    - right. apply (own_head_in T _ _ Hn). left. exact Ec. }
  (* the parts of the run *)
  assert (X01 : tr_ext s s1 []) by exact (reads_only_tr_ext s s1 Hrd).
  assert (X10 : tr_ext s1 s0 []) by exact (tsteps_nil_tr_ext s1 s0 (proj2 Hq0) Hd0).
  pose proof (tr_ext_nil_trans _ _ _ _ X01 X10) as X00.
  pose proof (tm_alloc_cluster _ _ _ _ _ _ Hal) as Tra.
  unfold create_post in Hpost. cbv zeta in Hpost. destruct Hpost as (Een & Hd2 & Hc2 & Hnf2 & Hclk2 & Htab2 & l2 & Etr2 & Hl2).
  set (B := cluster_first_block v cn) in *.
  assert (Xa2 : tr_ext sa s2 [(B, put_entry (v_fat32 v) (mk_dirent sfn (clock_ts (s_clock sa)) (clock_ts (s_clock sa)) 0 CL_EMPTY 0 B (0 * 32))
                                     (disk_get (s_disk sa) B))])
    by exact (tr_ext_reads_write sa s2 B _ l2 Etr2 Hl2 Hd2).
  split; [exact (traced_trans _ _ _ (tr_ext_traced _ _ _ X00) (traced_trans _ _ _ Tra (tr_ext_traced _ _ _ Xa2)))|].
  set (P := keeps_tree v (s_disk s) T no_slot).
  assert (P0 : P (s_disk s)).
  { apply (keeps_tree_same v (s_disk s) bl rch T (pend_of s0 v)). rewrite <- Eds. exact (disk_inv_crash_inv_at _ _ _ _ _ _ Hdisk0). }
  (* every crashed medium of the allocation *)
  destruct (grow_prefix_inv fsz 0%nat v bl rch T (pend_of s0 v) dc c0 ch s0 cn sa Hdisk0 Hpre0 Hlay Hfit Hhead Hch Hal) as (Hcn & Hpref).
  assert (Hfileblk : forall path e0 ch0 j, node_at T path (NFile e0 ch0) -> In j (data_blocks v ch0) ->
            off_fat v fsz j /\ ~ In j (cluster_blocks v cn)).
  { intros path e0 ch0 j Hna Hj.
    destruct (node_chain_head _ v bl T (di_tree _ _ _ _ _ _ Hdisk0) _ (node_at_in _ _ _ Hna)) as [(A & _)|(h0 & _ & _ & Bc)].
    - cbn [node_chain] in A. subst ch0. destruct Hj.
    - exact (chain_block_old fsz _ v cn L Hcn _ _ j Bc Hj). }
  assert (Pa : crash_all P s0 sa).
  { intros d' Hd'. destruct (Hpref d' Hd') as (Hfr & bl2 & rch2 & T2 & lost2 & HT2 & Hshape).
    exists bl2, rch2, T2, lost2. split; [exact HT2|]. intros path e0 ch0 Hna _. split.
    - destruct Hshape as [->| ->]; [exact Hna|exact (node_at_set_chain _ _ T path e0 ch0 Hna)].
    - intros j Hj. rewrite <- Eds. destruct (Hfileblk path e0 ch0 j Hna Hj) as (A1 & A2). exact (Hfr j A1 A2). }
  (* the final medium: the entry in slot 0 of the first block of the new cluster *)
  assert (P2 : P (s_disk s2)).
  { destruct (heads_nodup v T (pend_of s0 v) (wf_heads _ _ _ W)) as (N1 & N2 & N3 & N4).
    destruct (chain_at_head _ _ _ _ Hch) as (r0 & Ech).
    assert (Hsplit : ch = removelast ch ++ [last ch c0]) by (apply app_removelast_last; rewrite Ech; discriminate).
    set (p := last ch c0) in *. set (pre := removelast ch) in *.
    pose proof Hch as Hch'. rewrite Hsplit in Hch'.
    destruct (C03_alloc_extends_wf 0%nat v fsz true s0 _ c0 pre p cn sa Hpre0 Hfit W Hc0in Hch' Hal)
      as (W' & Hnew & Hoth & _ & v2 & G & Hprea).
    replace (pre ++ [p; cn]) with (ch ++ [cn]) in Hnew by (rewrite Hsplit, <- app_assoc; reflexivity).
    destruct (chain_at_mem _ _ _ _ p Hch ltac:(rewrite Hsplit; apply in_or_app; right; left; reflexivity)) as (P1 & P2' & P3 & _).
    destruct (alloc_cluster_effect_inuse 0%nat v fsz (Some p) true s0 cn sa Hpre0
                ltac:(intros p0 E; injection E as <-; split; assumption) Hal) as (Heff & _ & _).
    pose proof (alloc_blocks_wf _ _ _ _ _ _ _ _ Heff Hwf0) as Hwfa.
    assert (Hframe : forall j, off_fat v fsz j -> ~ In j (cluster_blocks v cn) -> disk_get (s_disk sa) j = disk_get (s_disk s0) j).
    { intros j Hoff Hnc. exact (proj1 (Hpref _ (crash_disks_new s0 sa Tra)) j Hoff Hnc). }
    assert (Hzero : forall j, In j (cluster_blocks v cn) -> disk_get (s_disk sa) j = zero_block).
    { intros j Hj. destruct (In_cluster_blocks _ _ _ Hj) as (k & Hk & ->). exact (ae_zero _ _ _ _ _ _ _ _ Heff eq_refl k Hk). }
    destruct (grow_tree_x fsz (s_disk s0) (s_disk sa) v bl rch T (pend_of s0 v) dc c0 ch cn Hdisk0 L Hlay Hhead Hnew Hoth Hcn Hframe Hzero)
      as (bl_a & rch_a & T_a & HTa & Hheads_a & HTx).
    assert (Hdiska : disk_inv (s_disk sa) v bl_a rch_a T_a (pend_of s0 v)).
    { apply (disk_inv_join _ v _ _ _ _ HTa). rewrite Hheads_a. exact W'. }
    assert (Hgo : go_is_dir T dc).
    { destruct Hhead as [(Edc & _)|(e & kids0 & Hn & Ec & _)]; [left; exact Edc|right; exists e, ch, kids0; auto]. }
    assert (Hgoa : go_is_dir T_a dc).
    { destruct HTx as [->| ->]; [exact Hgo|exact (proj2 (set_chain_incl dc (ch ++ [cn]) T) dc Hgo)]. }
    destruct (dir_ctx_of_disk _ v bl_a rch_a T_a _ dc Hv Hdiska Hgoa) as (bla' & para & kidsa & Hctxa).
    set (cbs := cluster_blocks v cn) in *.
    assert (Ebla : bla' = bl' ++ cbs).
    { pose proof (dx_blocks _ _ _ _ _ _ _ _ Hctxa) as Hb. unfold dir_blocks in Hb. fold c0 in Hb.
      assert (Hnr : negb (v_fat32 v) && (dc =? CL_ROOT) = false).
      { destruct Hhead as [(_ & E32 & _)|(e & kids0 & Hn & Ec & Ec0)]; [rewrite E32; reflexivity|].
        destruct (chain_of_head _ _ _ _ _ Hnew) as (_ & R2 & _). rewrite Ec0 in R2.
        replace (dc =? CL_ROOT) with false; [apply andb_false_r|]. symmetry. apply N.eqb_neq. exact (in_range_not_root v dc Hv R2). }
      rewrite Hnr in Hb. unfold chain_at in Hnew. rewrite Hnew in Hb. injection Hb as <-.
      rewrite flat_map_app. cbn [flat_map]. rewrite app_nil_r. rewrite Ebl'. reflexivity. }
    assert (Hbl'same : forall j, In j bl' -> disk_get (s_disk sa) j = disk_get (s_disk s0) j).
    { intros j Hj. rewrite Ebl' in Hj. destruct (chain_block_old fsz _ v cn L Hcn c0 ch j Hch Hj) as (A & A'). exact (Hframe j A A'). }
    assert (Ecbs : cbs = B :: PrOrder.blocks_from (N.to_nat (v_spc v) - 1) (B + 1)) by (apply PrBounds.cluster_blocks_cons; lia).
    assert (HB : In B cbs) by (rewrite Ecbs; left; reflexivity).
    assert (HzB : disk_get (s_disk sa) B = zero_block) by exact (Hzero B HB).
    assert (Hnone_a : find (t_matches sfn) (live_in_blocks (s_disk sa) bla') = None).
    { rewrite Ebla, live_in_blocks_app, find_app_first, (live_ext _ _ bl' Hbl'same), Hfind.
      rewrite (all_end_live _ cbs (zero_blocks_all_end _ cbs Hzero)). reflexivity. }
    assert (Hfree_a : find nv (slots_of (s_disk sa) bla') = Some (B, 0 * 32, slot zero_block 0)).
    { rewrite Ebla, slots_of_app, find_app_first, (slots_of_ext _ _ bl' Hbl'same), Hfreenone.
      rewrite Ecbs, slots_of_cons, find_app_first, (proj2 (zero_block_slots _ B HzB)). reflexivity. }
    pose proof Hd2 as Hd2z. rewrite HzB in Hd2z.
    set (ct := clock_ts (s_clock sa)) in *.
    assert (Hsw : slot_write (s_disk sa) (s_disk s2) B 0 (ser_bytes (v_fat32 v) (mk_dirent sfn ct ct 0 CL_EMPTY 0 B (0 * 32)))).
    { destruct (put_entry_slots (v_fat32 v) (mk_dirent sfn ct ct 0 CL_EMPTY 0 B (0 * 32)) zero_block eq_refl (proj1 Hwf)
                  ltac:(cbn [e_offset]; lia) ltac:(cbn [e_offset]; lia)) as (_ & Hslot & Hothr & _ & _).
      cbn [e_offset] in Hslot, Hothr. replace (0 * 32 / 32) with 0 in Hslot, Hothr by lia.
      split; [intros j Hj; rewrite Hd2z; apply disk_get_set_other; congruence|].
      rewrite Hd2z, disk_get_set_same. split; [exact Hslot|]. intros k Hk. rewrite HzB. exact (Hothr k Hk). }
    destruct (create_disk_x fsz (s_disk sa) (s_disk s2) v bl_a rch_a T_a (pend_of s0 v) dc bla' para kidsa sfn B 0 _ ct
                Hdiska Hlay (fi_dev _ _ _ _ _ _ _ _ Hat0) Hctxa Hwf He5 Hdot Hnone_a Hfree_a Hsw)
      as (k & Hdisk2 & _ & _).
    eexists bl_a, rch_a, _, (pend_of s0 v). split; [exact (disk_inv_crash_inv_at _ _ _ _ _ _ Hdisk2)|].
    intros path e0 ch0 Hna _. split.
    - apply node_at_insert. destruct HTx as [->| ->]; [exact Hna|exact (node_at_set_chain _ _ T path e0 ch0 Hna)].
    - intros j Hj. rewrite <- Eds. destruct (Hfileblk path e0 ch0 j Hna Hj) as (A1 & A2).
      rewrite <- (Hframe j A1 A2). apply (proj1 Hsw). intros ->. exact (A2 HB). }
  apply (crash_all_trans P s s0 s2 (tr_ext_traced _ _ _ X00) (traced_trans _ _ _ Tra (tr_ext_traced _ _ _ Xa2))).
  - exact (crash_all_nil P s s0 X00 P0).
  - apply (crash_all_trans P s0 sa s2 Tra (tr_ext_traced _ _ _ Xa2) Pa).
    exact (crash_all_one P sa s2 _ _ Xa2 (Pa _ (crash_disks_new s0 sa Tra)) P2).
Qed.

(* ================================================================== 4. OpenFile: every mode, every outcome *)
(* the only file node at the slot the lookup found is the file the call names *)
Lemma trunc_targets fsz vid s vi v bl rch T h name di dd sfn bl' parent kids s1 t :
  open_ctx fsz vid s vi v bl rch T h name di dd sfn bl' parent kids s1 ->
  find (t_matches sfn) (live_in_blocks (s_disk s) bl') = Some t ->
  is_directory (e_attr (t_entry (v_fat32 v) t)) = false ->
  forall e0 ch0, In (NFile e0 ch0) (all_nodes T) -> slot_of (t_entry (v_fat32 v) t) (node_pos (NFile e0 ch0)) ->
    name_targets s v h name e0.
Proof.
  intros [Hat Hfresh Hres Hvol Hroom Hsfn He5 Hdot Hctx Hlook Hro Hrd] Hfind Hnd e0 ch0 H0 Hp.
  pose proof (sfn_of_str_wf _ _ Hsfn) as Hwf.
  destruct (found_file _ _ _ _ _ _ _ _ _ _ Hctx Hwf He5 Hdot Hfind Hnd) as (ch & Hk & Hall & Hr & Hn & Hshort & Hname).
  destruct (node_rep_slot _ _ _ _ _ Hr Hn) as (Hb & _). cbn [node_entry] in Hb.
  pose proof (di_pos _ _ _ _ _ _ (fi_disk _ _ _ _ _ _ _ _ Hat)) as Hnd0.
  assert (E : NFile e0 ch0 = NFile (t_entry (v_fat32 v) t) ch) by (apply (pos_unique _ _ _ Hnd0 H0 Hall); exact Hp).
  injection E as -> _.
  destruct (resolves_dir_id _ _ _ _ _ _ Hres) as (Eid & Hdd).
  exists dd, sfn, bl'. split; [exact Hdd|]. split; [exact Eid|]. split; [exact Hvol|]. split; [exact Hsfn|].
  split; [rewrite t_entry_name; exact Hname|]. split; [exact (dx_blocks _ _ _ _ _ _ _ _ Hctx)|exact Hb].
Qed.

(* the common form of the two obligations *)
Definition open_goal (fsz : N) (v : vol) (o : op) (s s' : st) : Prop :=
  exists bl rch T lost (tgt : N * N -> Prop), crash_vol fsz v /\ crash_inv_at (s_disk s) v bl rch T lost /\
    (forall e ch, In (NFile e ch) (all_nodes T) -> tgt (node_pos (NFile e ch)) -> op_targets s v o e) /\
    crash_all (keeps_tree v (s_disk s) T tgt) s s'.

Lemma open_goal_quiet fsz vid s vi v bl rch T o s' : fs_inv_at fsz vid s vi v bl rch T ->
  PrOrder.tsteps s s' [] -> open_goal fsz v o s s'.
Proof.
  intros Hat Ht. pose proof (disk_inv_crash_inv_at _ _ _ _ _ _ (fi_disk _ _ _ _ _ _ _ _ Hat)) as H0.
  exists bl, rch, T, (pend_of s v), no_slot. split; [exact (fs_inv_crash_vol _ _ _ _ _ _ _ _ Hat)|]. split; [exact H0|].
  split; [intros e ch _ []|].
  apply crash_all_quiet; [exact (tsteps_nil_writes s s' Ht)|]. exact (keeps_tree_same v _ bl rch T _ no_slot H0).
Qed.

(* a creating open: the run of write_new_directory_entry decides; the record is pushed without
   touching the device *)
Lemma open_goal_create fsz vid s vi v bl rch T o s2 s' : fs_inv_at fsz vid s vi v bl rch T ->
  crash_all (keeps_tree v (s_disk s) T no_slot) s s2 -> s_trace s' = s_trace s2 -> open_goal fsz v o s s'.
Proof.
  intros Hat Hall Et. pose proof (disk_inv_crash_inv_at _ _ _ _ _ _ (fi_disk _ _ _ _ _ _ _ _ Hat)) as H0.
  exists bl, rch, T, (pend_of s v), no_slot. split; [exact (fs_inv_crash_vol _ _ _ _ _ _ _ _ Hat)|]. split; [exact H0|].
  split; [intros e ch _ []|].
  intros d' Hd'. apply Hall. apply (crash_disks_same_r s s2 s' d' Et). exact Hd'.
Qed.

Theorem open_file_goal fsz vid h name md s r s' : fs_inv fsz vid s -> id_fresh s ->
  op_known_ok (OpenFile h name md) -> step (OpenFile h name md) s = (r, s') ->
  forall v, s_vols s = [v] -> open_goal fsz v (OpenFile h name md) s s'.
Proof.
  intros Hinv Hfresh (_ & Hname) Hs v0 Ev0. pose proof (fs_inv_lock fsz vid s Hinv) as Hl.
  cbn [op_name_ok] in Hname. destruct Hinv as (vi & v & bl & rch & T & Hat).
  pose proof (fi_single _ _ _ _ _ _ _ _ Hat) as Ev. rewrite Ev0 in Ev. injection Ev as ->.
  assert (Hinv : fs_inv fsz vid s) by (exists vi, v, bl, rch, T; exact Hat).
  assert (Hsame : s' = s -> open_goal fsz v (OpenFile h name md) s s')
    by (intros ->; exact (open_goal_quiet fsz vid s vi v bl rch T _ s Hat (PrOrder.tsteps_refl s))).
  destruct (dir_resolve _ _ _ _ _ _ _ _ h Hat) as [Hno|di dd H1 H2 Hne H3|di dd Hres Hvol Hdir Hdd].
  { destruct (PrHandles.C08_stale_dir_handle h s Hl Hno) as (_ & _ & _ & _ & _ & _ & E1). rewrite (E1 name md) in Hs.
    injection Hs as <- <-. apply Hsame. reflexivity. }
  { cbn [step] in Hs.
    assert (E : exists e, open_file_in_dir h name md s = (Err e, s)).
    { unfold open_file_in_dir. rewrite (PrHandles.locked_free _ s Hl), PrHandles.bind_get.
      destruct (is_full (s_files s) (s_maxf s)); [eexists; reflexivity|].
      exists BadHandle. rewrite (bind_ok _ _ _ _ _ H1), (bind_ok _ _ _ _ _ H2). cbv zeta. apply bind_err. exact H3. }
    destruct E as (e & E). rewrite (lift_err' _ _ _ _ _ E) in Hs. injection Hs as <- <-. apply Hsame. reflexivity. }
  cbn [step] in Hs.
  destruct (is_full (s_files s) (s_maxf s)) eqn:Hroom.
  { assert (E : open_file_in_dir h name md s = (Err TooManyOpenFiles, s)).
    { unfold open_file_in_dir. rewrite (PrHandles.locked_free _ s Hl), PrHandles.bind_get, Hroom. reflexivity. }
    rewrite (lift_err' _ _ _ _ _ E) in Hs. injection Hs as <- <-. apply Hsame. reflexivity. }
  unfold e5_name in Hname.
  destruct (sfn_of_str name) as [sfn|] eqn:Hsfn.
  2:{ assert (E : open_file_in_dir h name md s = (Err FilenameError, s)).
      { unfold open_file_in_dir. PrModes.open_prefix Hres Hroom Hsfn. reflexivity. }
      rewrite (lift_err' _ _ _ _ _ E) in Hs. injection Hs as <- <-. apply Hsame. reflexivity. }
  apply N.eqb_neq in Hname.
  destruct (PrModes.dot_name sfn) eqn:Hdot.
  { rewrite (lift_err' _ _ _ _ _ (PrModes.C07_open_dot_name s h di dd 0%nat v name sfn md Hres Hroom Hsfn Hdot)) in Hs.
    injection Hs as <- <-. apply Hsame. reflexivity. }
  destruct (find_run _ _ _ _ _ _ _ _ (d_cluster dd) sfn Hat Hdir) as (bl' & parent & kids & s1 & Hctx & Hrun & Hro & Hrd).
  pose proof (mk_open_ctx fsz vid s vi v bl rch T h name di dd sfn bl' parent kids s1
                Hat Hfresh Hres Hvol Hroom Hsfn Hname Hdot Hctx Hrun Hro Hrd) as Hoc.
  pose proof (reads_only_tsteps _ _ Hrd) as Ht1.
  destruct (find (t_matches sfn) (live_in_blocks (s_disk s) bl')) as [t|] eqn:Hfind.
  - destruct (PrModes.open_refusal md (Ok (t_entry (v_fat32 v) t)) (PrModes.is_open s1 (d_vol dd) (t_entry (v_fat32 v) t)))
      as [er|] eqn:Href.
    + pose proof (PrModes.C07_open_refusals s h di dd 0%nat v name sfn md _ s1 er Hres Hroom Hsfn Hdot Hrun Href) as E.
      rewrite (lift_err' _ _ _ _ _ E) in Hs. injection Hs as <- <-.
      exact (open_goal_quiet fsz vid s vi v bl rch T _ s1 Hat Ht1).
    + destruct (refusal_none_ok _ _ _ Href) as (_ & Hnd & Hncr).
      assert (Hcases : (md = ReadOnly \/ md = ReadWriteAppend \/ md = ReadWriteCreateOrAppend) \/
                       (md = ReadWriteTruncate \/ md = ReadWriteCreateOrTruncate))
        by (destruct md; try discriminate Hncr; auto).
      destruct Hcases as [Hmd|Hmd].
      * destruct (open_keep_case _ _ _ _ _ _ _ _ _ _ _ _ _ _ _ _ _ md t Hoc Hfind Href Hmd) as (id & s5 & E & Hq).
        rewrite (lift_ok' _ _ _ _ _ E) in Hs. injection Hs as <- <-.
        exact (open_goal_quiet fsz vid s vi v bl rch T _ s5 Hat (proj2 (proj2 Hq))).
      * destruct (open_trunc_crash _ _ _ _ _ _ _ _ _ _ _ _ _ _ _ _ _ md t Hoc Hfind Href Hmd) as (id & s5 & E & Hall).
        rewrite (lift_ok' _ _ _ _ _ E) in Hs. injection Hs as <- <-.
        exists bl, rch, T, (pend_of s v), (slot_of (t_entry (v_fat32 v) t)).
        split; [exact (fs_inv_crash_vol _ _ _ _ _ _ _ _ Hat)|].
        split; [exact (disk_inv_crash_inv_at _ _ _ _ _ _ (fi_disk _ _ _ _ _ _ _ _ Hat))|]. split; [|exact Hall].
        intros e0 ch0 H0 Hp. cbn [op_targets]. split; [destruct Hmd as [-> | ->]; reflexivity|].
        exact (trunc_targets _ _ _ _ _ _ _ _ _ _ _ _ _ _ _ _ _ t Hoc Hfind Hnd e0 ch0 H0 Hp).
  - destruct (creating md) eqn:Hcr.
    2:{ assert (Href : PrModes.open_refusal md (Err NotFound) (PrModes.found_open s1 (d_vol dd) (Err NotFound)) = Some NotFound)
          by (cbn [PrModes.open_refusal]; rewrite Hcr; reflexivity).
        pose proof (PrModes.C07_open_refusals s h di dd 0%nat v name sfn md _ s1 NotFound Hres Hroom Hsfn Hdot Hrun Href) as E.
        rewrite (lift_err' _ _ _ _ _ E) in Hs. injection Hs as <- <-.
        exact (open_goal_quiet fsz vid s vi v bl rch T _ s1 Hat Ht1). }
    pose proof (open_create_run _ _ _ _ _ _ _ _ _ _ _ _ _ _ _ _ _ md Hoc Hfind Hcr) as E.
    pose proof (go_ro _ _ _ _ _ _ _ _ _ Hat Hro) as Hat1.
    destruct (go_facts _ _ _ _ _ _ _ _ Hat1) as (_ & _ & _ & _ & E0 & _ & _ & _ & Hwf1 & _). subst vi.
    pose proof (fi_vol _ _ _ _ _ _ _ _ Hat1) as (_ & Hpre1 & _ & Hspc & _).
    assert (Hbl1 : dir_blocks (s_disk s1) v (d_cluster dd) = Some bl') by (rewrite (proj1 Hro); exact (dx_blocks _ _ _ _ _ _ _ _ Hctx)).
    destruct (create_run fsz 0%nat v (d_cluster dd) sfn 0 CL_EMPTY s1 bl' Hpre1 Hspc Hwf1 Hbl1 (proj1 (sfn_of_str_wf _ _ Hsfn)))
      as (o & s2 & Hw & Hcres).
    rewrite Hw in E.
    destruct Hcres as [blk off sl0 s2 Hfree en Hd2 Hsw Hc2 Hnf2 Htab|s2 Hfree Hq2 _|ch s0 cn sa en s2 Hfree Hch Ebl Hq0 Hpre0 Hal Hpost].
    + rewrite (lift_ok' _ _ _ _ _ E) in Hs. injection Hs as <- <-.
      destruct (create_slot_crash _ _ _ _ _ _ _ _ _ _ _ _ _ _ _ _ _ blk off sl0 _ s2 Hoc Hfind Hfree Hw) as (_ & Hall).
      exact (open_goal_create fsz vid s 0%nat v bl rch T _ s2 _ Hat Hall eq_refl).
    + rewrite (lift_err' _ _ _ _ _ E) in Hs. injection Hs as <- <-.
      apply (open_goal_quiet fsz vid s 0%nat v bl rch T _ s2 Hat).
      exact (PrOrder.tsteps_trans s s1 s2 [] [] Ht1 (proj2 Hq2)).
    + rewrite (lift_ok' _ _ _ _ _ E) in Hs. injection Hs as <- <-.
      destruct (create_grow_crash _ _ _ _ _ _ _ _ _ _ _ _ _ _ _ _ _ ch s0 cn sa en s2 Hoc Hfind Hfree Hch Ebl Hq0 Hpre0 Hal Hpost) as (_ & Hall).
      exact (open_goal_create fsz vid s 0%nat v bl rch T _ s2 _ Hat Hall eq_refl).
Qed.

(* C10: every crashed medium of every OpenFile is crash-sound *)
Theorem step_crash_OpenFile fsz vid h name md : step_crash fsz vid (OpenFile h name md).
Proof.
  intros s r s' Hinv Hfresh Hk Hs v d' Ev Hd.
  destruct (open_file_goal fsz vid h name md s r s' Hinv Hfresh Hk Hs v Ev) as (bl & rch & T & lost & tgt & Hv & H0 & _ & Hall).
  exact (proj1 (keeps_tree_post fsz v (s_disk s) bl rch T lost tgt d' Hv H0 (Hall d' Hd))).
Qed.

(* C09: a file that is not the one the call truncates is on every crashed medium of the call,
   at the same path, with the same entry and the same bytes *)
Theorem step_keeps_OpenFile fsz vid h name md : step_keeps_flushed fsz vid (OpenFile h name md).
Proof.
  intros s r s' Hinv Hfresh Hk Hs v path e bytes Ev Hf Hnt d' Hd.
  destruct (open_file_goal fsz vid h name md s r s' Hinv Hfresh Hk Hs v Ev) as (bl & rch & T & lost & tgt & Hv & H0 & Htgt & Hall).
  apply (proj2 (keeps_tree_post fsz v (s_disk s) bl rch T lost tgt d' Hv H0 (Hall d' Hd)) path e bytes Hf).
  intros Ht. apply Hnt.
  apply (file_on_medium_tree _ v bl rch T lost path e bytes H0) in Hf. destruct Hf as (ch & Hn & _).
  exact (Htgt e ch (node_at_in _ _ _ Hn) Ht).
Qed.

Print Assumptions step_crash_OpenFile.
Print Assumptions step_keeps_OpenFile.

(* ================================================================== 5. the hypotheses are satisfiable *)
(* PrGlobalDef's example state (FAT16; root: A, D, B; D: C; B open with a pending chain): the two
   theorems apply to every OpenFile, whatever the handle, the name and the mode.  The truncating
   open of A writes the FAT sector twice (A's first cluster := end of chain; the cluster behind
   it := free) and then the root directory block: four crashed media; the create in D writes
   one directory block. *)
Example step_crash_OpenFile_applies : forall d name md, e5_name name = false ->
  forall d', crash_disks gx_state (snd (step (OpenFile d name md) gx_state)) d' -> crash_inv 1 exd_vol d'.
Proof.
  intros d name md Hn d' Hd. destruct (step (OpenFile d name md) gx_state) as [r s'] eqn:Es. cbn [snd] in Hd.
  exact (step_crash_OpenFile 1 0 d name md gx_state r s' (proj1 fs_inv_example) gx_fresh (conj (conj I I) Hn) Es
           exd_vol d' eq_refl Hd).
Qed.

Example step_keeps_OpenFile_applies : forall d name md, e5_name name = false ->
  forall path e bytes, file_on_medium (s_disk gx_state) exd_vol path e bytes ->
    ~ op_targets gx_state exd_vol (OpenFile d name md) e ->
    forall d', crash_disks gx_state (snd (step (OpenFile d name md) gx_state)) d' -> file_on_medium d' exd_vol path e bytes.
Proof.
  intros d name md Hn path e bytes Hf Hnt d' Hd. destruct (step (OpenFile d name md) gx_state) as [r s'] eqn:Es. cbn [snd] in Hd.
  exact (step_keeps_OpenFile 1 0 d name md gx_state r s' (proj1 fs_inv_example) gx_fresh (conj (conj I I) Hn) Es
           exd_vol path e bytes eq_refl Hf Hnt d' Hd).
Qed.

Example open_file_writes :
  (fst (step (OpenFile 5 [65] ReadWriteTruncate) gx_state) = Ok (RHandle 10) /\
   map fst (step_writes gx_state (snd (step (OpenFile 5 [65] ReadWriteTruncate) gx_state))) = [11; 11; 22]) /\
  (fst (step (OpenFile 5 [65] ReadWriteCreateOrTruncate) gx_state) = Ok (RHandle 10) /\
   map fst (step_writes gx_state (snd (step (OpenFile 5 [65] ReadWriteCreateOrTruncate) gx_state))) = [11; 11; 22]) /\
  (fst (step (OpenFile 9 [69] ReadWriteCreate) gx_state) = Ok (RHandle 10) /\
   map fst (step_writes gx_state (snd (step (OpenFile 9 [69] ReadWriteCreate) gx_state))) = [34]).
Proof. repeat split; vm_compute; reflexivity. Qed.

Print Assumptions step_crash_OpenFile_applies.
Print Assumptions step_keeps_OpenFile_applies.
