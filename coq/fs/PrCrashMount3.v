(* C10, "the medium mounts": non-vacuity.  Real runs of the model on a FAT16 image
   (PrGlobalMount.mx_disk) and on a FAT32 image (fx_disk, 65525 clusters, information sector at
   block 2049): for a Write that allocates, a Flush (which REWRITES the information sector) and a
   Mkdir, every crashed medium mounts - computed prefix by prefix with vm_compute, and obtained
   from PrCrashMount2.C10_crashed_medium_mounts.  The signatures are necessary (a medium without
   them is refused), as is room for one volume in the mounting manager. *)
From Coq Require Import NArith ZArith List Bool Lia Arith FMapPositive.
From SdFs Require Import FsTypes FsBase FsFat FsMgr FsLemmas PrBase PrRw PrGlobalDef.
From SdFs Require PrMountLayout PrCrashDef PrCrashDef2 PrCrash PrFsck PrGlobalMount.
From SdFs Require Import PrCrashMount PrCrashMount2.
Import ListNotations.
Open Scope N_scope.

(* a fresh manager (handle offset 7, room for one volume) mounts partition idx of d' *)
Definition mounts_b (d' : disk) (idx : N) : bool :=
  match step (OpenVol idx) (init_state d' 7 1 1 1 []) with (Ok (RHandle _), _) => true | _ => false end.
(* ... of every prefix of the writes of the run s -> s' *)
Definition prefixes_mount (idx : N) (s s' : st) : bool :=
  forallb (fun k => mounts_b (PrCrash.prefix_disk (PrCrashDef.step_writes s s') k (s_disk s)) idx)
          (seq 0 (S (length (PrCrashDef.step_writes s s')))).
Lemma prefixes_mount_sound idx s s' : prefixes_mount idx s s' = true ->
  forall d', PrCrashDef.crash_disks s s' d' -> mounts_b d' idx = true.
Proof.
  unfold prefixes_mount. rewrite forallb_forall. intros H d' (k & Hk & ->). apply H. apply in_seq. lia.
Qed.

(* what the theorem gives for one call o after the history OpenVol idx :: pre *)
Definition crashed_media_mount (fsz idx : N) (s0 : st) (v : vol) (pre : list op) (o : op) : Prop :=
  let sa := snd (run_ops (OpenVol idx :: pre) s0) in
  forall d', PrCrashDef.crash_disks sa (snd (step o sa)) d' ->
  forall off' mv' md' mf', 0 < mv' ->
  exists s' v', step (OpenVol idx) (init_state d' off' mv' md' mf' []) = (Ok (RHandle off'), s') /\
    s_vols s' = [v'] /\ s_disk s' = d' /\ PrGlobalMount.relabel v v' /\
    info_sig d' v' /\ PrCrashDef.crash_inv fsz v' d'.

(* ================================================================== FAT16: PrGlobalMount's image *)
Import PrGlobalMount.
Definition mxw_pre : list op := [OpenRoot 0; OpenFile 1 [69] ReadWriteCreate].
Definition mxw_op : op := Write 2 [1; 2; 3].
Definition mxm_pre : list op := firstn 8 mx_ops.
Definition mxm_op : op := Mkdir 1 [70].

(* computed: the Write allocates (both FAT copies, then the data block), the Mkdir allocates and
   zeroes a cluster and writes the parent's slot; every prefix mounts *)
Example mx_computed :
  let sw := snd (run_ops mxw_pre mx_s1) in
  let sm := snd (run_ops mxm_pre mx_s1) in
  map fst (PrCrashDef.step_writes sw (snd (step mxw_op sw))) = [2049; 2081; 2149] /\
  prefixes_mount 0 sw (snd (step mxw_op sw)) = true /\
  map fst (PrCrashDef.step_writes sm (snd (step mxm_op sm))) = [2049; 2081; 2148; 2113] /\
  prefixes_mount 0 sm (snd (step mxm_op sm)) = true.
Proof. vm_compute. repeat split; reflexivity. Qed.

Lemma mx_inst pre o post : Forall op_known_ok (pre ++ o :: post) ->
  1 + N.of_nat (length (pre ++ o :: post)) < U32 - 1 ->
  exists v, s_vols mx_s1 = [v] /\ crashed_media_mount 32 0 mx_s0 v pre o.
Proof.
  intros Hops Hage. destruct mx_open as (v & E & Ev & Hb & _). exists v. split; [exact Ev|].
  unfold crashed_media_mount, mx_s0.
  apply (C10_crashed_medium_mounts 5 32 mx_disk 0 4 4 4 0 0 mx_s1 v pre o post mx_disk_wf).
  - unfold U32. lia.
  - exact E.
  - exact Ev.
  - rewrite <- PrFsck.fs_inv_fast_eq. exact Hb.
  - exact Hage.
  - exact Hops.
Qed.

(* from the theorem: EVERY crashed medium of the allocating Write / of the Mkdir is mounted by
   EVERY fresh manager with room for a volume, and is crash-sound for the record it computes *)
Example mx_write_crashed_media_mount : exists v, s_vols mx_s1 = [v] /\ crashed_media_mount 32 0 mx_s0 v mxw_pre mxw_op.
Proof. apply (mx_inst mxw_pre mxw_op []); [repeat constructor|vm_compute; reflexivity]. Qed.
Example mx_mkdir_crashed_media_mount : exists v, s_vols mx_s1 = [v] /\ crashed_media_mount 32 0 mx_s0 v mxm_pre mxm_op.
Proof. apply (mx_inst mxm_pre mxm_op [CloseDir 3; CloseDir 1]); [repeat constructor|vm_compute; reflexivity]. Qed.

(* ================================================================== FAT32 *)
(* partition entry 0: type 12, start 2048, 66581 blocks.  1 block per cluster, 32 reserved
   sectors, 2 FATs of 512 sectors (blocks 2080.. and 2592..), root cluster 2 (block 3104, empty),
   information sector at sector 1 (block 2049: free count 65524, next free 3), 65525 clusters *)
Definition fx_boot : block := PrMountLayout.mk_boot 1 32 2 0 66581 0 512 2 1.
Definition fx_fat : block := set_bytes zero_block 0 [248;255;255;15; 255;255;255;15; 255;255;255;15].
Definition fx_disk : disk :=
  fold_right (fun p d => disk_set d (fst p) (snd p)) (PositiveMap.empty block)
    [(0, PrMountLayout.mk_mbr (12, 2048, 66581) (0, 0, 0)); (2048, fx_boot);
     (2049, PrMountLayout.mk_info 65524 3); (2080, fx_fat); (2592, fx_fat)].
Definition fx_s0 : st := init_state fx_disk 0 4 4 4 [].
Definition fx_s1 : st := snd (step (OpenVol 0) fx_s0).

Lemma fx_disk_wf : blocks_wf fx_disk.
Proof. apply blocks_wf_b_ok. vm_compute. reflexivity. Qed.

Lemma fx_open : exists v,
  step (OpenVol 0) fx_s0 = (Ok (RHandle 0), fx_s1) /\ s_vols fx_s1 = [v] /\
  PrFsck.fs_inv_fast 5 512 (s_disk fx_s1) v [] = true /\
  v_fat32 v = true /\ v_info v = 2049 /\ v_clusters v = 65525.
Proof.
  assert (R : match step (OpenVol 0) fx_s0 with
              | (Ok (RHandle h), s1) =>
                  match s_vols s1 with
                  | [v] => h = 0 /\ PrFsck.fs_inv_fast 5 512 (s_disk s1) v [] = true /\
                           v_fat32 v = true /\ v_info v = 2049 /\ v_clusters v = 65525
                  | _ => False
                  end
              | _ => False
              end) by (vm_compute; repeat split; reflexivity).
  unfold fx_s1. destruct (step (OpenVol 0) fx_s0) as [[[ |h| | | | | | ]|e| |] s1] eqn:E; try contradiction.
  cbn [snd]. destruct (s_vols s1) as [|v [|w r]] eqn:Ev; try contradiction.
  destruct R as (-> & R). exists v. split; [reflexivity|]. split; [reflexivity|]. exact R.
Qed.

(* create E, write (allocates cluster 3), flush (information sector, then the slot), write
   across a cluster boundary, close, make directory F, open it, delete E *)
Definition fx_ops : list op :=
  [OpenRoot 0; OpenFile 1 [69] ReadWriteCreate; Write 2 [1; 2; 3]; Flush 2; Write 2 (repeat 9 600); CloseFile 2;
   Mkdir 1 [70]; OpenDir 1 [70]; Delete 1 [69]; CloseDir 3; CloseDir 1].
Lemma fx_ops_known : Forall op_known_ok fx_ops.
Proof. unfold fx_ops. repeat constructor. Qed.

(* computed, call by call: the call succeeds; the blocks it writes; every prefix mounts *)
Fixpoint fx_check (ops : list op) (s : st) : list (bool * list N * bool) :=
  match ops with
  | [] => []
  | o :: rest =>
      let '(r, s1) := step o s in
      (match r with Ok _ => true | _ => false end, map fst (PrCrashDef.step_writes s s1), prefixes_mount 0 s s1)
        :: fx_check rest s1
  end.
Example fx_computed : fx_check fx_ops fx_s1 =
  [(true, [], true); (true, [3104], true); (true, [2080; 2592; 3105], true); (true, [2049; 3104], true);
   (true, [3105; 2080; 2592; 2080; 2592; 3106], true); (true, [2049; 3104], true);
   (true, [2080; 2592; 3107; 3104], true); (true, [], true);
   (true, [3104; 2080; 2592; 2080; 2592; 2080; 2592], true); (true, [], true); (true, [], true)].
Proof. vm_compute. reflexivity. Qed.

(* the Flush really REWRITES the information sector: new free count 65523 and hint 4 in place of
   65524 and 3, the three signatures as before *)
Example fx_flush_rewrites_info :
  let s3 := snd (run_ops (firstn 3 fx_ops) fx_s1) in
  let s4 := snd (step (Flush 2) s3) in
  exists b rest, PrCrashDef.step_writes s3 s4 = (2049, b) :: rest /\
    le32 (disk_get (s_disk s3) 2049) 488 = 65524 /\ le32 b 488 = 65523 /\
    le32 (disk_get (s_disk s3) 2049) 492 = 3 /\ le32 b 492 = 4 /\ b <> disk_get (s_disk s3) 2049 /\
    le32 b 0 = 1096897106 /\ le32 b 484 = 1631679090 /\ le32 b 508 = 2857697280 /\ length b = 512%nat.
Proof.
  cbv zeta.
  assert (R : match PrCrashDef.step_writes (snd (run_ops (firstn 3 fx_ops) fx_s1))
                      (snd (step (Flush 2) (snd (run_ops (firstn 3 fx_ops) fx_s1)))) with
              | (i, b) :: _ => i = 2049 /\
                  le32 (disk_get (s_disk (snd (run_ops (firstn 3 fx_ops) fx_s1))) 2049) 488 = 65524 /\ le32 b 488 = 65523 /\
                  le32 (disk_get (s_disk (snd (run_ops (firstn 3 fx_ops) fx_s1))) 2049) 492 = 3 /\ le32 b 492 = 4 /\
                  le32 b 0 = 1096897106 /\ le32 b 484 = 1631679090 /\ le32 b 508 = 2857697280 /\ length b = 512%nat
              | [] => False
              end) by (vm_compute; repeat split; reflexivity).
  destruct (PrCrashDef.step_writes _ _) as [|[i b] rest]; [contradiction|].
  destruct R as (-> & A1 & A2 & A3 & A4 & A5 & A6 & A7 & A8).
  exists b, rest. split; [reflexivity|]. repeat (split; [assumption|]).
  split; [|repeat (split; [assumption|]); assumption].
  intros E. rewrite <- E in A1. congruence.
Qed.

Lemma fx_inst pre o post : Forall op_known_ok (pre ++ o :: post) ->
  1 + N.of_nat (length (pre ++ o :: post)) < U32 - 1 ->
  exists v, s_vols fx_s1 = [v] /\ v_fat32 v = true /\ crashed_media_mount 512 0 fx_s0 v pre o.
Proof.
  intros Hops Hage. destruct fx_open as (v & E & Ev & Hb & E32 & _). exists v. split; [exact Ev|]. split; [exact E32|].
  unfold crashed_media_mount, fx_s0.
  apply (C10_crashed_medium_mounts 5 512 fx_disk 0 4 4 4 0 0 fx_s1 v pre o post fx_disk_wf).
  - unfold U32. lia.
  - exact E.
  - exact Ev.
  - rewrite <- PrFsck.fs_inv_fast_eq. exact Hb.
  - exact Hage.
  - exact Hops.
Qed.

Lemma fx_split n : Forall op_known_ok (firstn n fx_ops ++ nth n fx_ops HasOpen :: skipn (S n) fx_ops) /\
  1 + N.of_nat (length (firstn n fx_ops ++ nth n fx_ops HasOpen :: skipn (S n) fx_ops)) < U32 - 1.
Proof.
  destruct (Nat.lt_ge_cases n (length fx_ops)) as [Hlt|Hge].
  - assert (E : firstn n fx_ops ++ nth n fx_ops HasOpen :: skipn (S n) fx_ops = fx_ops).
    { rewrite <- (firstn_skipn n fx_ops) at 4. f_equal.
      clear -Hlt. revert n Hlt. generalize fx_ops as l. induction l as [|x l IH]; intros n Hn; [cbn in Hn; lia|].
      destruct n as [|n]; [reflexivity|]. cbn [nth skipn]. apply IH. cbn [length] in Hn. lia. }
    rewrite E. split; [exact fx_ops_known|vm_compute; reflexivity].
  - rewrite (firstn_all2 fx_ops Hge), (nth_overflow fx_ops HasOpen Hge), (skipn_all2 fx_ops) by lia.
    split; [|vm_compute; reflexivity].
    apply Forall_app. split; [exact fx_ops_known|]. constructor; [|constructor]. repeat split.
Qed.

(* from the theorem, for EVERY call of the history (n-th call after the first n): every crashed
   medium is mounted by every fresh manager; in particular the allocating Write (n = 2), the Flush
   that rewrites the information sector (n = 3) and the Mkdir (n = 6) *)
Example fx_crashed_media_mount n : exists v, s_vols fx_s1 = [v] /\ v_fat32 v = true /\
  crashed_media_mount 512 0 fx_s0 v (firstn n fx_ops) (nth n fx_ops HasOpen).
Proof. destruct (fx_split n) as (A & B). exact (fx_inst _ _ (skipn (S n) fx_ops) A B). Qed.

(* ================================================================== the premises are needed *)
(* without the signatures the medium is refused: the same image with a blank block 2049 *)
Example unsigned_info_refused :
  fst (step (OpenVol 0) (init_state (disk_set fx_disk 2049 zero_block) 0 4 4 4 [])) = Err FormatError.
Proof. vm_compute. reflexivity. Qed.
(* a manager without room for a volume mounts nothing *)
Example no_room_refused : fst (step (OpenVol 0) (init_state fx_disk 0 0 4 4 [])) = Err TooManyOpenVolumes.
Proof. vm_compute. reflexivity. Qed.

Print Assumptions mx_computed.
Print Assumptions mx_write_crashed_media_mount.
Print Assumptions mx_mkdir_crashed_media_mount.
Print Assumptions fx_computed.
Print Assumptions fx_flush_rewrites_info.
Print Assumptions fx_crashed_media_mount.
