(* C16 for whole histories of the model - assembly of PrC16Write / PrC16Open / PrC16Dir. *)
From Coq Require Import NArith ZArith List Bool Lia.
From SdFs Require Import FsTypes FsBase FsFat FsMgr FsLemmas PrBase PrFat PrAlloc PrDir PrSeek PrAllocEffect
  PrRw PrWrite PrFileSeq PrMulti PrEntry PrChain PrCount PrWf PrOpenClose PrGlobalDef.
From SdFs Require PrHandles PrGlobal.
From SdFs Require Import PrC16Def.
From SdFs Require PrC16Write PrC16Open PrC16Dir.
Import ListNotations.
Open Scope N_scope.

Theorem all_steps_c16 fsz vid : forall o, step_c16 fsz vid o.
Proof.
  intros o. destruct o;
    try (apply PrC16Write.step_c16_file_ops; exact I);
    try (apply PrC16Open.step_c16_open_group; exact I).
  - (* OpenVol: outside the scope *) intros s r s' _ _ [[_ F] _]. destruct F.
  - (* CloseVol *) intros s r s' _ _ [[_ F] _]. destruct F.
  - apply PrC16Dir.step_c16_Delete.
  - apply PrC16Dir.step_c16_Mkdir.
  - (* Remount *) intros s r s' _ _ [[F _] _]. destruct F.
Qed.

(* after any history of API calls: every FAT copy identical to the first; a truthful free count is
   still truthful, an unknown one still unknown; the hint unknown or in range *)
Theorem C16_history fsz vid ops s age :
  fs_inv fsz vid s -> PrHandles.handles_ok age s ->
  age + N.of_nat (length ops) < U32 - 1 -> Forall op_known_ok ops ->
  let s' := snd (run_ops ops s) in
  (mirror_inv fsz s -> mirror_inv fsz s') /\
  (truthful_inv s -> truthful_inv s') /\
  (unknown_inv s -> unknown_inv s') /\
  (hint_inv s -> hint_inv s').
Proof. exact (PrC16Write.c16_history fsz vid (all_steps_c16 fsz vid) ops s age). Qed.

(* ... and a Flush / CloseFile of a dirty file after any history stores exactly that record in the
   FAT32 information sector: a truthful count = the number of free FAT entries on the medium, an
   unknown count leaves the field untouched *)
Theorem C16_history_flush fsz vid ops s age o h r s2 :
  fs_inv fsz vid s -> PrHandles.handles_ok age s ->
  age + N.of_nat (length ops) + 1 < U32 - 1 -> Forall op_known_ok ops ->
  let s1 := snd (run_ops ops s) in
  (o = Flush h \/ o = CloseFile h) -> step o s1 = (Ok r, s2) ->
  (exists f, In f (s_files s1) /\ f_id f = h /\ f_dirty f = true) ->
  hint_inv s ->
  (truthful_inv s ->
     info_matches s2 /\
     forall v, In v (s_vols s2) -> v_fat32 v = true ->
       le32 (disk_get (s_disk s2) (v_info v)) 488 = N.of_nat (free_entries (s_disk s2) v)) /\
  (unknown_inv s ->
     info_matches s2 /\
     forall v, In v (s_vols s2) -> v_fat32 v = true ->
       le32 (disk_get (s_disk s2) (v_info v)) 488 = le32 (disk_get (s_disk s1) (v_info v)) 488).
Proof. exact (PrC16Write.c16_history_flush fsz vid (all_steps_c16 fsz vid) ops s age o h r s2). Qed.

Print Assumptions all_steps_c16.
Print Assumptions C16_history.
Print Assumptions C16_history_flush.
