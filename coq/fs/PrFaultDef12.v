(* EXAMPLES: the hypotheses of step_fault / C11_history are satisfiable and the clauses are the ones the
   model shows: on the example volume of PrGlobalDef (gx_state: FAT16, root with files A B and the
   directory D, D with file C, B open for writing with a pending cluster) ONE fault is armed at every
   device-call index 0..39 of eleven different calls; whenever the armed call is reached the call returns
   Err, the lock is free, the directory handles are the same and the medium passes the executable crash
   invariant PrCrashDef.crash_inv_b (hence unique names in every directory). *)
From Coq Require Import NArith ZArith List Bool Lia.
From SdFs Require Import FsTypes FsBase FsFat FsMgr PrDir PrGlobalDef PrFault2 PrCrashDef PrFaultDef.
Import ListNotations.
Open Scope N_scope.

Definition fx_reached (o : op) (s : st) (i : N) : bool :=
  s_ncalls s + i <? s_ncalls (snd (step o (arm s i))).

Definition fx_one (o : op) (s : st) (i : N) : bool :=
  let '(r, s') := step o (arm s i) in
  if s_ncalls s + i <? s_ncalls s' then
    match r with Err _ => true | _ => false end && negb (s_lock s') &&
    crash_inv_b 5 1 (s_disk s') exd_vol &&
    list_eqb (map d_id (s_dirs s')) (map d_id (s_dirs s)) &&
    list_eqb (map v_id (s_vols s')) (map v_id (s_vols s))
  else true.

Fixpoint fx_sweep (o : op) (s : st) (n : nat) (i : N) : bool :=
  match n with O => true | S n' => fx_one o s i && fx_sweep o s n' (i + 1) end.
Fixpoint fx_count (o : op) (s : st) (n : nat) (i : N) : nat :=
  match n with O => O | S n' => ((if fx_reached o s i then 1 else 0) + fx_count o s n' (i + 1))%nat end.

Definition fx_ops : list op :=
  [Find 9 [67]; Iter 5 None; Write 7 (repeat 9 1200); OpenFile 5 [69] ReadWriteCreate;
   OpenFile 5 [65] ReadWriteTruncate; Delete 9 [67]; Mkdir 5 [70]; Flush 7; CloseFile 7; Read 7 100; OpenDir 5 [68]].

(* every armed index 0..39 of every one of these calls *)
Example fault_sweep_example :
  forallb (fun o => fx_sweep o gx_state 40 0) fx_ops = true.
Proof. vm_compute. reflexivity. Qed.

(* ... and the sweep is not vacuous: at least one of the indices falls inside each call *)
Example fault_sweep_counts :
  forallb (fun o => Nat.leb 1 (fx_count o gx_state 40 0)) fx_ops = true.
Proof. vm_compute. reflexivity. Qed.

(* one case spelled out: the third device call of a Write that allocates a cluster fails *)
Example fault_write_case :
  let s' := snd (step (Write 7 (repeat 9 600)) (arm gx_state 2)) in
  fst (step (Write 7 (repeat 9 600)) (arm gx_state 2)) = Err DeviceError /\
  s_lock s' = false /\
  crash_inv_b 5 1 (s_disk s') exd_vol = true /\
  map f_id (s_files s') = [7].
Proof. vm_compute. repeat split; reflexivity. Qed.

Print Assumptions fault_sweep_example.
