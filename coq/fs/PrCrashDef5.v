(* EXAMPLES for PrCrashDef: the crash invariant is satisfiable on every crashed medium of real runs
   of the model, the permitted residue really occurs, and the decider rejects corrupted media.
   The state is PrGlobalDef's gx_state (FAT16, 100 clusters of 2 blocks; root: file A (clusters
   2 -> 3, 1500 bytes), directory D (cluster 4) with file C (cluster 5), file B open with a pending
   chain [6]) on a medium whose FREE clusters 7..10 hold STALE contents: copies of the root
   directory block and of D's block (valid-looking entries, dot entries, first clusters in use),
   so that any directory cluster that became reachable before it was initialised would show. *)
From Coq Require Import NArith ZArith List Bool Lia Arith FMapPositive.
From SdFs Require Import FsTypes FsBase FsFat FsMgr FsLemmas PrBase PrDir PrAllocEffect PrWf PrGlobalDef.
From SdFs Require PrCrash.
From SdFs Require Import PrCrashDef PrCrashDef2.
Import ListNotations.
Open Scope N_scope.

(* every prefix of the writes passes the decider -> every crashed medium is crash-sound *)
Definition prefixes_ok (depth : nat) (fsz : N) (v : vol) (s s' : st) : bool :=
  forallb (fun k => crash_inv_b depth fsz (prefix_disk (step_writes s s') k (s_disk s)) v)
          (seq 0 (S (length (step_writes s s')))).

Lemma prefixes_ok_sound depth fsz v s s' : prefixes_ok depth fsz v s s' = true ->
  crash_all (crash_inv fsz v) s s'.
Proof.
  unfold prefixes_ok. rewrite forallb_forall. intros H d' (k & Hk & ->).
  apply (crash_inv_b_sound depth). apply H. apply in_seq. lia.
Qed.

Definition cx_disk : disk :=
  disk_set (disk_set (disk_set (disk_set (disk_set (disk_set (disk_set (disk_set gx_disk
    40 gx_root_blk) 41 gx_dir_blk) 42 gx_dir_blk) 43 gx_root_blk) 44 gx_root_blk) 45 gx_dir_blk) 46 gx_dir_blk) 47 gx_root_blk.
Definition cx_state : st :=
  mk_st cx_disk zero_block None [exd_vol] [mk_dirinfo 5 0 CL_ROOT; mk_dirinfo 9 0 4] [gx_fileB]
        10 0 0 [] [] false 1 4 4.

(* the stale contents change nothing for the invariant: clusters 7.. are free *)
Example cx_state_inv : fs_inv_b 5 1 cx_disk exd_vol [6] = true /\ crash_inv_b 5 1 cx_disk exd_vol = true.
Proof. split; vm_compute; reflexivity. Qed.

(* the run of one call from cx_state: outcome ok?, number of block writes, blocks written *)
Definition cx_run (o : op) : bool * nat * list N :=
  let '(r, s') := step o cx_state in
  (match r with Ok _ => true | _ => false end, length (step_writes cx_state s'), map fst (step_writes cx_state s')).
Definition cx_all (o : op) : bool := prefixes_ok 5 1 exd_vol cx_state (snd (step o cx_state)).

(* 1. a Write that allocates: B (handle 7, pending chain [6], offset 0) receives 1200 bytes: two
      data blocks of cluster 6, then cluster 7 is allocated (FAT block 11: entry 7 := end of chain,
      then entry 6 := 7), then its first data block.  Every crashed medium is crash-sound. *)
Example cx_write_allocates :
  cx_run (Write 7 (repeat 9 1200)) = (true, 5%nat, [38; 39; 11; 11; 40]) /\
  forall d', crash_disks cx_state (snd (step (Write 7 (repeat 9 1200)) cx_state)) d' -> crash_inv 1 exd_vol d'.
Proof.
  split; [vm_compute; reflexivity|].
  apply prefixes_ok_sound with (depth := 5%nat).
  assert (H : cx_all (Write 7 (repeat 9 1200)) = true) by (vm_compute; reflexivity). exact H.
Qed.

(* 2. Mkdir in the root: the new directory gets cluster 7, whose blocks hold stale directory
      entries.  The writes: FAT (7 := end of chain), the two blocks of cluster 7 (dot entries,
      zeros), and LAST the root block with the new entry: on every crashed medium the stale
      entries are invisible. *)
Example cx_mkdir_stale :
  cx_run (Mkdir 5 [70]) = (true, 4%nat, [11; 40; 41; 22]) /\
  forall d', crash_disks cx_state (snd (step (Mkdir 5 [70]) cx_state)) d' -> crash_inv 1 exd_vol d'.
Proof.
  split; [vm_compute; reflexivity|].
  apply prefixes_ok_sound with (depth := 5%nat).
  assert (H : cx_all (Mkdir 5 [70]) = true) by (vm_compute; reflexivity). exact H.
Qed.

(* 3. create, delete, flush, close: every crashed medium of each call is crash-sound *)
Example cx_other_ops :
  cx_all (OpenFile 5 [69] ReadWriteCreate) = true /\ cx_all (Delete 9 [67]) = true /\
  cx_all (Flush 7) = true /\ cx_all (CloseFile 7) = true /\
  fst (fst (cx_run (Delete 9 [67]))) = true /\ fst (fst (cx_run (Flush 7))) = true.
Proof. repeat split; vm_compute; reflexivity. Qed.

(* 4. the permitted residue "a size not yet updated" is REAL: a truncating open of A (1500 bytes,
      chain 2 -> 3) first cuts the chain in the FAT (2 := end of chain, 3 := free) and only then
      rewrites the slot with size 0.  After the first FAT write the entry still says 1500 bytes
      while the chain holds 1024: the disk-level part of fs_inv (with the size bound) REJECTS that
      medium, the crash invariant accepts it - and every other crashed medium of the call. *)
Definition cx_trunc : op := OpenFile 5 [65] ReadWriteTruncate.
Example cx_truncate_residue :
  cx_run cx_trunc = (true, 3%nat, [11; 11; 22]) /\
  (let d1 := prefix_disk (step_writes cx_state (snd (step cx_trunc cx_state))) 1 cx_disk in
   fs_inv_b 5 1 d1 exd_vol [6] = false /\ crash_inv_b 5 1 d1 exd_vol = true) /\
  forall d', crash_disks cx_state (snd (step cx_trunc cx_state)) d' -> crash_inv 1 exd_vol d'.
Proof.
  split; [vm_compute; reflexivity|]. split; [split; vm_compute; reflexivity|].
  apply prefixes_ok_sound with (depth := 5%nat).
  assert (H : cx_all cx_trunc = true) by (vm_compute; reflexivity). exact H.
Qed.

(* 5. the residue "allocated but not yet referenced" is real too: after the first FAT write of
      the Write of example 1 ... (prefix 3: entry 7 is an end-of-chain mark, nothing links to it):
      the lost head the decider finds is cluster 7 (next to the pending cluster 6 of B) *)
Example cx_lost_cluster :
  let s' := snd (step (Write 7 (repeat 9 1200)) cx_state) in
  let d3 := prefix_disk (step_writes cx_state s') 3 cx_disk in
  lost_heads d3 exd_vol [2; 4; 5] = [6; 7] /\ lost_heads cx_disk exd_vol [2; 4; 5] = [6].
Proof. split; vm_compute; reflexivity. Qed.

(* 6. corrupted media the decider REJECTS:
      a  a live entry (A) whose first cluster is FREE (FAT entries 2 and 3 zeroed);
      b  a chain through a free cluster (entry 2 -> 3, entry 3 zeroed);
      c  cross-linked chains (5 -> 3), d  a duplicate name, e  a sub-directory without dot
         entries (PrGlobalDef's corrupted images);
      f  a sub-directory entry (D) whose cluster is free: it lacks its own cluster;
      g  a directory cluster that shows stale contents: D's chain extended by the uninitialised
         cluster 7 (entry 4 -> 7, 7 := end of chain) - the stale entries duplicate names and
         cross-link *)
Definition cx_fat_free_head : block := set_bytes gx_fat 4 [0; 0; 0; 0].
Definition cx_fat_free_mid : block := set_bytes gx_fat 6 [0; 0].
Definition cx_fat_dir_free : block := set_bytes gx_fat 8 [0; 0].
Definition cx_fat_stale_dir : block := set_bytes (set_bytes gx_fat 8 [7; 0]) 14 [255; 255].
Definition cx_with_fat (fat : block) : disk := disk_set cx_disk 11 fat.

Example crash_inv_b_rejects :
  crash_inv_b 5 1 (cx_with_fat cx_fat_free_head) exd_vol = false /\
  crash_inv_b 5 1 (cx_with_fat cx_fat_free_mid) exd_vol = false /\
  crash_inv_b 5 1 (gx_disk_of gx_fat_cross gx_root_blk gx_dir_blk) exd_vol = false /\
  crash_inv_b 5 1 (gx_disk_of gx_fat gx_root_dup gx_dir_blk) exd_vol = false /\
  crash_inv_b 5 1 (gx_disk_of gx_fat gx_root_blk gx_dir_nodots) exd_vol = false /\
  crash_inv_b 5 1 (cx_with_fat cx_fat_dir_free) exd_vol = false /\
  crash_inv_b 5 1 (cx_with_fat cx_fat_stale_dir) exd_vol = false /\
  (* ... while a leaked chain alone (gx_disk without any open file: cluster 6 is lost) is accepted *)
  crash_inv_b 5 1 gx_disk exd_vol = true.
Proof. repeat split; vm_compute; reflexivity. Qed.

(* 7. the definitions against the run: the last crashed medium is the medium of the final state,
      the first one the medium before the call *)
Example cx_ends : let s' := snd (step (Mkdir 5 [70]) cx_state) in
  crash_disks cx_state s' cx_disk /\ crash_disks cx_state s' (s_disk s').
Proof.
  cbv zeta. split; [apply crash_disks_old|].
  destruct (step (Mkdir 5 [70]) cx_state) as [r s'] eqn:E. exact (crash_disks_final _ _ _ _ E).
Qed.

Print Assumptions cx_write_allocates.
Print Assumptions cx_mkdir_stale.
Print Assumptions cx_truncate_residue.
Print Assumptions crash_inv_b_rejects.
