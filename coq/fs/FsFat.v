(* MODEL, layer B: src/filesystem/{timestamp,filename,directory}.rs codecs,
   src/fat/ondiskdirentry.rs, src/fat/volume.rs (FatVolume).  Transcribed function by
   function; loops become structural recursion on explicit fuel.  No proofs here. *)
From Coq Require Import NArith ZArith List Bool.
From SdFs Require Import FsTypes FsBase.
Import ListNotations.
Open Scope N_scope.

(* ---- ClusterId constants ---- *)
Definition CL_INVALID : N := 4294967286.     (* 0xFFFF_FFF6 *)
Definition CL_BAD : N := 4294967287.         (* 0xFFFF_FFF7 *)
Definition CL_EMPTY : N := 0.
Definition CL_ROOT : N := 4294967292.        (* 0xFFFF_FFFC *)
Definition CL_EOF : N := 4294967295.         (* 0xFFFF_FFFF *)
Definition RESERVED_ENTRIES : N := 2.

(* ---- Timestamp (src/filesystem/timestamp.rs) ---- *)
Definition ts_from_fat (date time : N) : ts :=
  let year := 1980 + N.shiftr date 9 in
  let month := N.land (N.shiftr date 5) 15 in
  let day := N.land date 31 in
  let hours := N.land (N.shiftr time 11) 31 in
  let minutes := N.land (N.shiftr time 5) 63 in
  let seconds := N.land (N.shiftl time 1) 63 in
  mk_ts ((year - 1970) mod 256)
        (if month =? 0 then 0 else month - 1)
        (if day =? 0 then 0 else day - 1)
        hours minutes seconds.

(* serialize_to_fat: `zero_indexed_month + 1` and `zero_indexed_day + 1` are u8 additions
   (panic at 255) *)
Definition ts_to_fat (t : ts) : M (list N) :=
  if (t_month t =? 255) || (t_day t =? 255) then panic else
  let hours := N.land (N.shiftl (t_hours t) 11) 63488 in
  let minutes := N.land (N.shiftl (t_minutes t) 5) 2016 in
  let seconds := N.land (t_seconds t / 2) 31 in
  let time := N.lor (N.lor hours minutes) seconds in
  let year := if t_year t <? 10 then 0 else N.land (N.shiftl (t_year t - 10) 9) 65024 in
  let month := N.land (N.shiftl (t_month t + 1) 5) 480 in
  let day := N.land (t_day t + 1) 31 in
  let date := N.lor (N.lor year month) day in
  ret (bytes16 time ++ bytes16 date).

(* the harness clock: the k-th call of get_timestamp returns this (same formula in Rust) *)
Definition clock_ts (k : N) : ts :=
  mk_ts (10 + (k mod 100)) (k mod 12) (k mod 28) (k mod 24) (k mod 60) ((k * 7) mod 60).
Definition get_timestamp : M ts :=
  s <- get ;; modify (fun s => set_s_clock s (s_clock s + 1)) ;;; ret (clock_ts (s_clock s)).

(* ---- Attributes ---- *)
Definition A_READ_ONLY : N := 1.
Definition A_VOLUME : N := 8.
Definition A_DIRECTORY : N := 16.
Definition A_ARCHIVE : N := 32.
Definition A_LFN : N := 15.
Definition is_read_only (a : N) : bool := N.land a 1 =? 1.
Definition is_directory (a : N) : bool := N.land a 16 =? 16.
Definition is_lfn (a : N) : bool := N.land a 15 =? 15.

(* ---- DirEntry::serialize (src/filesystem/directory.rs) ---- *)
Definition serialize (fat32 : bool) (e : dirent) : M (list N) :=
  ct <- ts_to_fat (e_ctime e) ;;
  mt <- ts_to_fat (e_mtime e) ;;
  let cl := e_cluster e in
  let hi := if fat32 then bytes16 (N.land (N.shiftr cl 16) 65535) else [0; 0] in
  ret (e_name e ++ [e_attr e; 0; 0] ++ ct ++ [0; 0] ++ hi ++ mt
       ++ bytes16 (N.land cl 65535) ++ bytes32 (e_size e)).

(* ---- OnDiskDirEntry (src/fat/ondiskdirentry.rs); `sl` = the 32 bytes of a slot ---- *)
Definition is_end (sl : list N) : bool := get8 sl 0 =? 0.
Definition is_valid (sl : list N) : bool := negb (is_end sl) && negb (get8 sl 0 =? 229).
Definition matches (sl name : list N) : bool := negb (is_lfn (get8 sl 11)) && list_eqb (firstn 11 sl) name.
Definition get_entry (fat32 : bool) (sl : list N) (blk off : N) : dirent :=
  let attr := get8 sl 11 in
  let cl := if fat32 then N.lor (N.shiftl (le16 sl 20) 16) (le16 sl 26) else le16 sl 26 in
  let cl' := if (cl =? CL_EMPTY) && is_directory attr then CL_ROOT else cl in
  mk_dirent (firstn 11 sl) (ts_from_fat (le16 sl 24) (le16 sl 22)) (ts_from_fat (le16 sl 16) (le16 sl 14))
            attr cl' (le32 sl 28) blk off.

Definition slot (b : block) (i : N) : list N := slice b (i * 32) 32.

(* ---- ShortFileName::create_from_str (src/filesystem/filename.rs); chars = code points ---- *)
Definition sfn_invalid_char (c : N) : bool :=
  (c <=? 31) || existsb (N.eqb c) [34; 42; 43; 44; 47; 58; 59; 60; 61; 62; 63; 91; 92; 93; 32; 124].
Definition upper (c : N) : N := if (97 <=? c) && (c <=? 122) then c - 32 else c.
Definition PARENT_DIR_NAME : list N := [46; 46; 32; 32; 32; 32; 32; 32; 32; 32; 32].
Definition THIS_DIR_NAME : list N := [46; 32; 32; 32; 32; 32; 32; 32; 32; 32; 32].

Fixpoint sfn_loop (chars : list N) (contents : list N) (idx : N) (seen_dot : bool) : option (list N) :=
  match chars with
  | [] => if idx =? 0 then None else Some contents
  | ch :: rest =>
      if sfn_invalid_char ch then None
      else if 255 <? ch then None
      else if ch =? 46 then
        if negb seen_dot && (1 <=? idx) && (idx <=? 8) then sfn_loop rest contents 8 true else None
      else
        let b := upper ch in
        if seen_dot then
          if (8 <=? idx) && (idx <? 11) then sfn_loop rest (set_bytes contents idx [b]) (idx + 1) seen_dot else None
        else if idx <? 8 then sfn_loop rest (set_bytes contents idx [b]) (idx + 1) seen_dot
        else None
  end.
Definition sfn_of_str (name : list N) : option (list N) :=
  if list_eqb name [46; 46] then Some PARENT_DIR_NAME
  else if list_eqb name [] || list_eqb name [46] then Some THIS_DIR_NAME
  else sfn_loop name (repeat 32 11) 0 false.

(* ---- volume table access ---- *)
Definition get_vol (vi : nat) : M vol :=
  s <- get ;; match nth_error (s_vols s) vi with Some v => ret v | None => panic end.
Fixpoint list_set {A} (l : list A) (i : nat) (x : A) : list A :=
  match l, i with
  | [], _ => []
  | _ :: t, O => x :: t
  | h :: t, S i' => h :: list_set t i' x
  end.
Definition put_vol (vi : nat) (v : vol) : M unit :=
  modify (fun s => set_s_vols s (list_set (s_vols s) vi v)).

(* ---- FatVolume ---- *)
Definition bytes_per_cluster (v : vol) : N := v_spc v * 512.

(* BlockCount::offset_bytes then `lba_start + ..` *)
Definition fat_block (v : vol) (fat_start fat_offset : N) : M N :=
  rel <- add32 fat_start (fat_offset / 512) ;; add32 (v_lba v) rel.

Definition cluster_to_block (v : vol) (c : N) : M N :=
  if v_fat32 v then
    let cn := if c =? CL_ROOT then v_root_cluster v else c in
    a <- sub32 cn 2 ;; fb <- mul32 a (v_spc v) ;;
    x <- add32 (v_lba v) (v_first_data v) ;; add32 x fb
  else if c =? CL_ROOT then add32 (v_lba v) (v_root_block v)
  else
    a <- sub32 c 2 ;; fb <- mul32 a (v_spc v) ;;
    x <- add32 (v_first_data v) fb ;; add32 (v_lba v) x.

Definition update_fat (vi : nat) (cluster new_value : N) : M unit :=
  v <- get_vol vi ;;
  if v_fat32 v then
    fat_offset <- mul32 cluster 4 ;;
    this <- fat_block v (v_fat_start v) fat_offset ;;
    second <- match v_second_fat v with
              | Some sf => x <- fat_block v sf fat_offset ;; ret (Some x)
              | None => ret None end ;;
    let off := fat_offset mod 512 in
    _ <- cache_read this ;;
    let entry := if new_value =? CL_INVALID then 268435446
                 else if new_value =? CL_BAD then 268435447
                 else if new_value =? CL_EMPTY then 0 else new_value in
    cache_modify (fun b =>
      let existing := le32 b off in
      set_bytes b off (bytes32 (N.lor (N.land existing 4026531840) (N.land entry 268435455)))) ;;;
    match second with Some d => write_back_with_duplicate d | None => write_back end
  else
    fat_offset <- mul32 cluster 2 ;;
    this <- fat_block v (v_fat_start v) fat_offset ;;
    second <- match v_second_fat v with
              | Some sf => x <- fat_block v sf fat_offset ;; ret (Some x)
              | None => ret None end ;;
    let off := fat_offset mod 512 in
    _ <- cache_read this ;;
    let entry := if new_value =? CL_INVALID then 65526
                 else if new_value =? CL_BAD then 65527
                 else if new_value =? CL_EMPTY then 0
                 else if new_value =? CL_EOF then 65535 else new_value mod 65536 in
    cache_modify (fun b => set_bytes b off (bytes16 entry)) ;;;
    match second with Some d => write_back_with_duplicate d | None => write_back end.

Definition next_cluster (v : vol) (cluster : N) : M N :=
  if 1073741823 <? cluster then panic else
  if v_fat32 v then
    this <- fat_block v (v_fat_start v) (cluster * 4) ;;
    b <- cache_read this ;;
    let e := N.land (le32 b ((cluster * 4) mod 512)) 268435455 in
    if e =? 0 then fail UnterminatedFatChain
    else if e =? 268435447 then fail BadCluster
    else if (e =? 1) || (268435448 <=? e) then fail EndOfFile
    else ret e
  else
    this <- fat_block v (v_fat_start v) (cluster * 2) ;;
    b <- cache_read this ;;
    let e := le16 b ((cluster * 2) mod 512) in
    if e =? 65527 then fail BadCluster
    else if 65528 <=? e then fail EndOfFile
    else ret e.

(* inner `while this_fat_ent_offset <= LEN - w && current < end` of find_next_free_cluster *)
Fixpoint scan_sector (n : nat) (fat32 : bool) (b : block) (off cur endc : N) : (option N) * N :=
  match n with
  | O => (None, cur)
  | S n' =>
      let w := if fat32 then 4 else 2 in
      if (off <=? 512 - w) && (cur <? endc) then
        let e := if fat32 then N.land (le32 b off) 268435455 else le16 b off in
        if e =? 0 then (Some cur, cur) else scan_sector n' fat32 b (off + w) (cur + 1) endc
      else (None, cur)
  end.

Fixpoint find_next_free_loop (fuel : nat) (v : vol) (cur endc : N) : M N :=
  match fuel with
  | O => out_of_fuel
  | S f =>
      if cur <? endc then
        let w := if v_fat32 v then 4 else 2 in
        fat_offset <- mul32 cur w ;;
        this <- fat_block v (v_fat_start v) fat_offset ;;
        b <- cache_read this ;;
        match scan_sector 257 (v_fat32 v) b (fat_offset mod 512) cur endc with
        | (Some c, _) => ret c
        | (None, cur') => find_next_free_loop f v cur' endc
        end
      else fail NotEnoughSpace
  end.
Definition find_next_free_cluster (v : vol) (start endc : N) : M N :=
  find_next_free_loop (N.to_nat (endc / 128) + 3) v start endc.

Definition zero_cluster (v : vol) (c : N) : M unit :=
  first <- cluster_to_block v c ;;
  _ <- for_blocks first (v_spc v) (fun i => blank_mut i ;;; write_back ;;; ret (@None unit)) ;;
  ret tt.

Definition alloc_cluster (vi : nat) (prev : option N) (zero : bool) : M N :=
  v <- get_vol vi ;;
  endc <- add32 (v_clusters v) RESERVED_ENTRIES ;;
  let start := match v_next_free v with
               | Some c => if c <? endc then c else RESERVED_ENTRIES
               | None => RESERVED_ENTRIES end in
  r <- try (find_next_free_cluster v start endc) ;;
  new_cluster <- match r with
                 | inl c => ret c
                 | inr NotEnoughSpace =>
                     if RESERVED_ENTRIES <? start
                     then find_next_free_cluster v RESERVED_ENTRIES endc
                     else fail NotEnoughSpace
                 | inr e => fail e
                 end ;;
  update_fat vi new_cluster CL_EOF ;;;
  (if zero then zero_cluster v new_cluster else ret tt) ;;;
  match prev with Some c => update_fat vi c new_cluster | None => ret tt end ;;;
  r2 <- try (find_next_free_cluster v new_cluster endc) ;;
  nf <- match r2 with
        | inl c => ret (Some c)
        | inr NotEnoughSpace =>
            if RESERVED_ENTRIES <? new_cluster then
              r3 <- try (find_next_free_cluster v RESERVED_ENTRIES endc) ;;
              match r3 with
              | inl c => ret (Some c)
              | inr NotEnoughSpace => ret None
              | inr e => fail e
              end
            else ret None
        | inr e => fail e
        end ;;
  v1 <- get_vol vi ;;
  let fc := match v_free v1 with
            | Some n => if 1 <=? n then Some (n - 1) else None
            | None => None end in
  put_vol vi (set_v_free (set_v_next_free v1 nf) fc) ;;;
  ret new_cluster.

Definition bump_free (vi : nat) : M unit :=
  v <- get_vol vi ;;
  match v_free v with
  | Some n => put_vol vi (set_v_free v (if n + 1 <? U32 then Some (n + 1) else None))
  | None => ret tt
  end.

Fixpoint truncate_loop (fuel : nat) (vi : nat) (next : N) : M unit :=
  match fuel with
  | O => out_of_fuel
  | S f =>
      v <- get_vol vi ;;
      r <- try (next_cluster v next) ;;
      match r with
      | inl n => update_fat vi next CL_EMPTY ;;; bump_free vi ;;; truncate_loop f vi n
      | inr EndOfFile => update_fat vi next CL_EMPTY ;;; bump_free vi
      | inr e => fail e
      end
  end.

Definition truncate_cluster_chain (vi : nat) (cluster : N) : M unit :=
  if cluster <? RESERVED_ENTRIES then ret tt else
  v <- get_vol vi ;;
  r <- try (next_cluster v cluster) ;;
  match r with
  | inr EndOfFile => ret tt
  | inr e => fail e
  | inl next =>
      put_vol vi (set_v_next_free v
        (match v_next_free v with
         | Some nf => if next <? nf then Some next else Some nf
         | None => Some next end)) ;;;
      update_fat vi cluster CL_EOF ;;;
      truncate_loop (N.to_nat (v_clusters v) + 3) vi next
  end.

Definition free_cluster_chain (vi : nat) (cluster : N) : M unit :=
  if cluster <? RESERVED_ENTRIES then ret tt else
  truncate_cluster_chain vi cluster ;;;
  update_fat vi cluster CL_EMPTY ;;;
  bump_free vi ;;;
  v <- get_vol vi ;;
  match v_next_free v with
  | Some nf => if nf <=? cluster then ret tt else put_vol vi (set_v_next_free v (Some cluster))
  | None => put_vol vi (set_v_next_free v (Some cluster))
  end.

Definition write_entry_to_disk (v : vol) (e : dirent) : M unit :=
  _ <- cache_read (e_block e) ;;
  bytes <- serialize (v_fat32 v) e ;;
  if 512 <? e_offset e + 32 then panic else
  cache_modify (fun b => set_bytes b (e_offset e) bytes) ;;;
  write_back.

Definition update_info_sector (vi : nat) : M unit :=
  v <- get_vol vi ;;
  if negb (v_fat32 v) then ret tt else
  match v_free v, v_next_free v with
  | None, None => ret tt
  | fc, nf =>
      _ <- cache_read (v_info v) ;;
      (match fc with Some c => cache_modify (fun b => set_bytes b 488 (bytes32 c)) | None => ret tt end) ;;;
      (match nf with Some c => cache_modify (fun b => set_bytes b 492 (bytes32 c)) | None => ret tt end) ;;;
      write_back
  end.

(* ---- the directory walk shared by the eight loops of volume.rs ----
   body blk = what is done with one directory block; Some r leaves the walk.
   grow = write_new_directory_entry's behaviour at the end of the chain. *)
Definition dir_first_cluster (v : vol) (c : N) : N :=
  if v_fat32 v && (c =? CL_ROOT) then v_root_cluster v else c.

Fixpoint walk_dir {R} (fuel : nat) (vi : nat) (cluster : N) (grow : bool)
         (body : N -> M (option R)) : M (option R) :=
  match fuel with
  | O => out_of_fuel
  | S f =>
      v <- get_vol vi ;;
      first <- cluster_to_block v cluster ;;
      let fixed_root := negb (v_fat32 v) && (cluster =? CL_ROOT) in
      let size := if fixed_root then from_bytes (v_root_entries v * 32) else v_spc v in
      r <- for_blocks first size body ;;
      match r with
      | Some x => ret (Some x)
      | None =>
          if fixed_root then ret None else
          nc <- try (next_cluster v cluster) ;;
          match nc with
          | inl n => walk_dir f vi n grow body
          | inr EndOfFile =>
              if grow then c <- alloc_cluster vi (Some cluster) true ;; walk_dir f vi c grow body
              else ret None
          | inr DeviceError => fail DeviceError
          | inr _ => ret None
          end
      end
  end.
Definition walk_fuel (v : vol) : nat := N.to_nat (v_clusters v) + 4.

(* find_entry_in_block *)
Fixpoint find_in_slots (n : nat) (fat32 : bool) (b : block) (blk i : N) (name : list N) : option dirent :=
  match n with
  | O => None
  | S n' =>
      let sl := slot b i in
      if is_end sl then None
      else if matches sl name then Some (get_entry fat32 sl blk (i * 32))
      else find_in_slots n' fat32 b blk (i + 1) name
  end.
Definition find_directory_entry (vi : nat) (dir_cluster : N) (name : list N) : M dirent :=
  v <- get_vol vi ;;
  r <- walk_dir (walk_fuel v) vi (dir_first_cluster v dir_cluster) false
         (fun blk => b <- cache_read blk ;; ret (find_in_slots 16 (v_fat32 v) b blk 0 name)) ;;
  match r with Some e => ret e | None => fail NotFound end.

(* iterate_fat16 / iterate_fat32: every valid slot, stop at the end marker *)
Fixpoint iter_slots (n : nat) (fat32 : bool) (b : block) (blk i : N) (acc : list dirent) : bool * list dirent :=
  match n with
  | O => (false, acc)
  | S n' =>
      let sl := slot b i in
      if is_end sl then (true, acc)
      else if is_valid sl then iter_slots n' fat32 b blk (i + 1) (get_entry fat32 sl blk (i * 32) :: acc)
      else iter_slots n' fat32 b blk (i + 1) acc
  end.
Fixpoint iter_blocks (n : nat) (fat32 : bool) (i : N) (acc : list dirent) : M (bool * list dirent) :=
  match n with
  | O => ret (false, acc)
  | S n' => b <- cache_read i ;;
            match iter_slots 16 fat32 b i 0 acc with
            | (true, acc') => ret (true, acc')
            | (false, acc') => iter_blocks n' fat32 (i + 1) acc'
            end
  end.
Fixpoint iter_walk (fuel : nat) (vi : nat) (cluster : N) (acc : list dirent) : M (list dirent) :=
  match fuel with
  | O => out_of_fuel
  | S f =>
      v <- get_vol vi ;;
      first <- cluster_to_block v cluster ;;
      let fixed_root := negb (v_fat32 v) && (cluster =? CL_ROOT) in
      let size := if fixed_root then from_bytes (v_root_entries v * 32) else v_spc v in
      _ <- add32 first size ;;
      r <- iter_blocks (N.to_nat size) (v_fat32 v) first acc ;;
      let '(stop, acc') := r in
      if stop then ret acc' else
      if fixed_root then ret acc' else
      nc <- try (next_cluster v cluster) ;;
      match nc with
      | inl n => iter_walk f vi n acc'
      | inr DeviceError => fail DeviceError
      | inr _ => ret acc'
      end
  end.
Definition iterate_dir_all (vi : nat) (dir_cluster : N) : M (list dirent) :=
  v <- get_vol vi ;;
  r <- iter_walk (walk_fuel v) vi (dir_first_cluster v dir_cluster) [] ;;
  ret (rev r).

(* delete_entry_in_block *)
Fixpoint delete_in_slots (n : nat) (b : block) (i : N) (name : list N) : option N :=
  match n with
  | O => None
  | S n' =>
      let sl := slot b i in
      if is_end sl then None
      else if matches sl name then Some (i * 32)
      else delete_in_slots n' b (i + 1) name
  end.
Definition delete_directory_entry (vi : nat) (dir_cluster : N) (name : list N) : M unit :=
  v <- get_vol vi ;;
  r <- walk_dir (walk_fuel v) vi (dir_first_cluster v dir_cluster) false
         (fun blk => b <- cache_read blk ;;
                     match delete_in_slots 16 b 0 name with
                     | Some start => cache_modify (fun b => set_bytes b start [229]) ;;; write_back ;;; ret (Some tt)
                     | None => ret None
                     end) ;;
  match r with Some _ => ret tt | None => fail NotFound end.

(* write_new_directory_entry: first slot that is not valid (0x00 or 0xE5) *)
Fixpoint free_slot (n : nat) (b : block) (i : N) : option N :=
  match n with
  | O => None
  | S n' => if is_valid (slot b i) then free_slot n' b (i + 1) else Some i
  end.
Definition write_new_directory_entry (vi : nat) (dir_cluster : N) (name : list N) (attr first_cluster : N) : M dirent :=
  v <- get_vol vi ;;
  r <- walk_dir (walk_fuel v) vi (dir_first_cluster v dir_cluster) true
         (fun blk => b <- cache_read blk ;;
                     match free_slot 16 b 0 with
                     | Some i =>
                         ctime <- get_timestamp ;;
                         let e := mk_dirent name ctime ctime attr first_cluster 0 blk (i * 32) in
                         bytes <- serialize (v_fat32 v) e ;;
                         cache_modify (fun b => set_bytes b (i * 32) bytes) ;;;
                         write_back ;;; ret (Some e)
                     | None => ret None
                     end) ;;
  match r with Some e => ret e | None => fail NotEnoughSpace end.

Definition make_dir (vi : nat) (parent : N) (sfn : list N) (att : N) : M unit :=
  new_dir_cluster <- alloc_cluster vi None false ;;
  v <- get_vol vi ;;
  start <- cluster_to_block v new_dir_cluster ;;
  now <- get_timestamp ;;
  blank_mut start ;;;
  dot <- serialize (v_fat32 v) (mk_dirent THIS_DIR_NAME now now att new_dir_cluster 0 start 0) ;;
  dotdot <- serialize (v_fat32 v)
              (mk_dirent PARENT_DIR_NAME now now att (if parent =? CL_ROOT then CL_EMPTY else parent) 0 start 32) ;;
  cache_modify (fun b => set_bytes (set_bytes b 0 dot) 32 dotdot) ;;;
  write_back ;;;
  _ <- add32 start (v_spc v) ;;
  _ <- for_blocks_from (N.to_nat (v_spc v) - 1) (start + 1)
         (fun i => blank_mut i ;;; write_back ;;; ret (@None unit)) ;;
  r <- try (write_new_directory_entry vi parent sfn att new_dir_cluster) ;;
  match r with
  | inl _ => ret tt
  | inr e => free_cluster_chain vi new_dir_cluster ;;; fail e
  end.
