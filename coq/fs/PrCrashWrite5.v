(* EXAMPLE for PrCrashWrite3 / PrCrashWrite4: the hypotheses of step_crash_Write /
   step_keeps_Write / step_keeps_Flush are satisfiable by a run that exercises every kind of
   device write of a write call.  PrGlobalDef's gx_state (FAT16, 100 clusters of 2 blocks; root:
   file A = clusters 2 -> 3, 1500 bytes; directory D; file B open on handle 7 with the PENDING
   chain [6], offset 0): Write 7 of 1200 bytes stores two data blocks in cluster 6, allocates
   cluster 7 behind it (two writes of the FAT sector 11: 7 := end of chain, then 6 := 7) and
   stores the rest in the first block of cluster 7.  By the theorems - not by running a decider -
   each of the six crashed media is crash-sound and shows file A at the path [A] with the same
   entry and the same 1500 bytes; the same holds for the media of the following Flush 7. *)
From Coq Require Import NArith ZArith List Bool Lia Arith FMapPositive.
From SdFs Require Import FsTypes FsBase FsFat FsMgr FsLemmas PrBase PrDir PrRw PrAllocEffect PrChain PrWf PrGlobalDef PrGlobalWrite.
From SdFs Require PrHandles.
From SdFs Require Import PrCrash PrCrashDef PrCrashDef2 PrCrashDef3 PrCrashDef4 PrCrashWrite3 PrCrashWrite4.
Import ListNotations.
Open Scope N_scope.

Definition wx_data : list N := repeat 9 1200.
Definition wx_T0 : list node :=
  match tree_of 5 gx_disk exd_vol (root16_blocks exd_vol) with Some T => T | None => [] end.
Definition wx_nA : node := hd (NFile gx_entryB []) wx_T0.
Definition wx_eA : dirent := node_entry wx_nA.
Definition wx_chA : list N := node_chain wx_nA.
Definition wx_bytesA : list N := firstn (N.to_nat (e_size wx_eA)) (file_bytes gx_disk exd_vol wx_chA).

(* file A on the medium of gx_state *)
Lemma wx_A_on_medium : file_on_medium gx_disk exd_vol [gx_name 65] wx_eA wx_bytesA.
Proof.
  destruct (proj1 fs_inv_example) as (vi & v & bl & rch & T & Hat).
  pose proof (fi_single _ _ _ _ _ _ _ _ Hat) as Ev. cbn [gx_state s_vols] in Ev. injection Ev as <-.
  pose proof (fi_disk _ _ _ _ _ _ _ _ Hat) as HD. cbn [gx_state s_disk] in HD.
  pose proof (di_root _ _ _ _ _ _ HD) as R. unfold root_dir in R. change (v_fat32 exd_vol) with false in R.
  destruct R as (-> & ->).
  assert (Et : tree_of 5 gx_disk exd_vol (root16_blocks exd_vol) = Some wx_T0) by (vm_compute; reflexivity).
  pose proof (tree_rep_det _ _ _ _ _ (di_tree _ _ _ _ _ _ HD) (tree_of_sound _ _ _ _ _ Et)) as ->.
  exists (root16_blocks exd_vol), [], wx_T0, (pend_of gx_state exd_vol), wx_chA.
  split; [exact (disk_inv_crash_inv_at _ _ _ _ _ _ HD)|]. split; [|reflexivity].
  assert (EA : wx_nA = NFile wx_eA wx_chA) by (vm_compute; reflexivity).
  assert (En : gx_name 65 = e_name (node_entry wx_nA)) by (vm_compute; reflexivity).
  rewrite <- EA, En. apply na_here.
  assert (E0 : wx_T0 = wx_nA :: tl wx_T0) by (vm_compute; reflexivity). rewrite E0. left. reflexivity.
Qed.

Lemma wx_not_target s : s_files s = [gx_fileB] \/ (exists g, s_files s = [g] /\ f_entry g = f_entry (hd gx_fileB (s_files s)) /\
                                                     e_offset (f_entry g) = 64) ->
  ~ handle_targets s 7 wx_eA.
Proof.
  intros H (g & Hg & _ & _ & Eo).
  assert (EA : e_offset wx_eA = 0) by (vm_compute; reflexivity). rewrite EA in Eo.
  destruct H as [H|(g0 & H & _ & Eo0)]; rewrite H in Hg; destruct Hg as [<-|[]].
  - vm_compute in Eo. discriminate Eo.
  - rewrite Eo0 in Eo. discriminate Eo.
Qed.

Example write_crash_example :
  let s1 := snd (step (Write 7 wx_data) gx_state) in
  let s2 := snd (step (Flush 7) s1) in
  map fst (step_writes gx_state s1) = [38; 39; 11; 11; 40] /\ map fst (step_writes s1 s2) = [22] /\
  e_name wx_eA = gx_name 65 /\ e_size wx_eA = 1500 /\ length wx_bytesA = 1500%nat /\
  (forall d', crash_disks gx_state s1 d' ->
     crash_inv 1 exd_vol d' /\ file_on_medium d' exd_vol [gx_name 65] wx_eA wx_bytesA) /\
  (forall d', crash_disks s1 s2 d' ->
     crash_inv 1 exd_vol d' /\ file_on_medium d' exd_vol [gx_name 65] wx_eA wx_bytesA).
Proof.
  set (s1 := snd (step (Write 7 wx_data) gx_state)).
  set (s2 := snd (step (Flush 7) s1)).
  cbv zeta.
  assert (E1 : step (Write 7 wx_data) gx_state = (Ok RUnit, s1)) by (vm_compute; reflexivity).
  assert (E2 : step (Flush 7) s1 = (Ok RUnit, s2)) by (vm_compute; reflexivity).
  split; [vm_compute; reflexivity|]. split; [vm_compute; reflexivity|].
  split; [vm_compute; reflexivity|]. split; [vm_compute; reflexivity|]. split; [vm_compute; reflexivity|].
  assert (Hfresh : forall s, s_next_id s = 10 -> PrHandles.all_ids s = [0; 5; 9; 7] -> id_fresh s).
  { intros s En Ea x Hx Ex. rewrite En in Ex. subst x. rewrite Ea in Hx. cbn [In] in Hx. intuition discriminate. }
  assert (K1 : op_known_ok (Write 7 wx_data)) by (repeat split).
  assert (K2 : op_known_ok (Flush 7)) by (repeat split).
  pose proof (Hfresh gx_state eq_refl eq_refl) as F0.
  assert (F1 : id_fresh s1) by (apply Hfresh; vm_compute; reflexivity).
  pose proof (proj1 fs_inv_example) as I0.
  destruct (step_ok_Write 1 0 7 wx_data gx_state _ s1 I0 F0 K1 E1) as (_ & _ & I1 & _).
  set (v1 := hd exd_vol (s_vols s1)).
  assert (Ev1 : s_vols s1 = [v1]) by (vm_compute; reflexivity).
  assert (G : geo_eq exd_vol v1) by (exists (Some 8), None; vm_compute; reflexivity).
  pose proof (geo_eq_sym _ _ G) as G'.
  assert (A1 : file_on_medium (s_disk s1) exd_vol [gx_name 65] wx_eA wx_bytesA).
  { apply (step_keeps_Write 1 0 7 wx_data gx_state _ s1 I0 F0 K1 E1 exd_vol _ _ _ eq_refl wx_A_on_medium).
    - apply wx_not_target. left. reflexivity.
    - exact (crash_disks_final _ _ _ _ E1). }
  split.
  - intros d' Hd. split.
    + exact (step_crash_Write 1 0 7 wx_data gx_state _ s1 I0 F0 K1 E1 exd_vol d' eq_refl Hd).
    + apply (step_keeps_Write 1 0 7 wx_data gx_state _ s1 I0 F0 K1 E1 exd_vol _ _ _ eq_refl wx_A_on_medium); [|exact Hd].
      apply wx_not_target. left. reflexivity.
  - intros d' Hd. split.
    + exact (crash_inv_geo 1 v1 exd_vol d' G' (step_crash_Flush 1 0 7 s1 _ s2 I1 F1 K2 E2 v1 d' Ev1 Hd)).
    + apply (file_on_medium_geo d' v1 exd_vol _ _ _ G').
      apply (step_keeps_Flush 1 0 7 s1 _ s2 I1 F1 K2 E2 v1 _ _ _ Ev1 (file_on_medium_geo _ exd_vol v1 _ _ _ G A1)); [|exact Hd].
      apply wx_not_target. right.
      assert (Ef : exists g, s_files s1 = [g] /\ e_offset (f_entry g) = 64).
      { eexists. split; [vm_compute; reflexivity|vm_compute; reflexivity]. }
      destruct Ef as (g & Eg & Eo). exists g. split; [exact Eg|]. split; [rewrite Eg; reflexivity|exact Eo].
Qed.

Print Assumptions write_crash_example.
