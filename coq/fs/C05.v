(* Property C05 - space is neither leaked nor invented
   This file contains only property theorems (each closed by `exact`), `Check` pins and
   `Print Assumptions`.  FULL STATEMENT (DESIGN.md 4 C05) is not yet proved for the whole
   layer-B model; what is proved here are the named mechanisms, for all inputs.  The gap is
   covered - visibly - by the correspondence check and the spec oracle (see evidence). *)
From Coq Require Import NArith ZArith List Bool.
From SdFs Require Import FsTypes FsBase FsFat FsMgr FsLemmas.
Import ListNotations.
Open Scope N_scope.


Theorem C05_first_free_found_partial : forall n fat32 b off cur endc c cur', scan_sector n fat32 b off cur endc = (Some c, cur') -> forall j, cur <= j -> j < c -> fat_entry_at fat32 b (off + (j - cur) * (if fat32 then 4 else 2)) <> 0.
Proof. exact scan_sector_first. Qed.

Theorem C05_scan_progress_partial : forall n fat32 b off cur endc cur', scan_sector n fat32 b off cur endc = (None, cur') -> cur <= cur' /\ cur' <= N.max cur endc.
Proof. exact scan_sector_none. Qed.

Print Assumptions C05_first_free_found_partial.
Print Assumptions C05_scan_progress_partial.
