(* PROOFS: what the medium looks like when the device stops accepting writes after ANY block
   write of alloc_cluster / truncate_cluster_chain / free_cluster_chain (C10, C09).
   Block writes are atomic and ordered, so a crash keeps a PREFIX of the write sequence that
   PrAllocEffect / PrChain establish (tr_ext: the writes with their contents, and the final disk
   is the old one with exactly these writes applied).  `prefix_disk ws k d` is the medium after
   the first k writes; every theorem quantifies over every k.
   Sections: 1 prefix disks; 2 sequences of FAT updates and data writes, the shape of every
   prefix (both FAT copies); 3 chains; 4 alloc_cluster; 5 data blocks (C09 frame);
   6 truncate / free; 7 examples; 8 assumptions. *)
From Coq Require Import NArith ZArith List Bool Lia Arith ZifyClasses ZifyInst Zify FMapPositive.
From SdFs Require Import FsTypes FsBase FsFat FsMgr FsLemmas PrBase PrFat PrAlloc PrDir PrAllocEffect PrChain.
Import ListNotations.
Open Scope N_scope.
Local Arguments N.mul : simpl never.
Local Arguments N.add : simpl never.
Local Arguments N.sub : simpl never.
Local Arguments N.div : simpl never.
Local Arguments N.modulo : simpl never.
Local Arguments N.land : simpl never.
Local Arguments N.lor : simpl never.
Local Ltac Zify.zify_post_hook ::= Z.to_euclidean_division_equations.

(* ================================================================== 1. prefix disks *)
(* the medium after the first k writes of ws (oldest first) *)
Definition prefix_disk (ws : list (N * block)) (k : nat) (d : disk) : disk :=
  apply_ws (firstn k ws) d.

Lemma prefix_disk_0 ws d : prefix_disk ws 0 d = d.
Proof. reflexivity. Qed.

Lemma prefix_disk_all ws d : prefix_disk ws (length ws) d = apply_ws ws d.
Proof. unfold prefix_disk. rewrite firstn_all. reflexivity. Qed.

Lemma prefix_disk_ge ws k d : (length ws <= k)%nat -> prefix_disk ws k d = apply_ws ws d.
Proof. intros H. unfold prefix_disk. rewrite firstn_all2 by exact H. reflexivity. Qed.

(* the prefix disks are exactly the successive states of the device: one more write is one
   more disk_set *)
Lemma prefix_disk_step ws k d i b : nth_error ws k = Some (i, b) ->
  prefix_disk ws (S k) d = disk_set (prefix_disk ws k d) i b.
Proof.
  unfold prefix_disk. revert k d. induction ws as [|w ws IH]; intros [|k] d H; cbn in H; try discriminate.
  - inversion H; subst w. destruct ws; reflexivity.
  - cbn [firstn]. unfold apply_ws in *. cbn [fold_left]. apply IH. exact H.
Qed.

Lemma apply_ws_cons w ws d : apply_ws (w :: ws) d = apply_ws ws (disk_set d (fst w) (snd w)).
Proof. reflexivity. Qed.

(* a block that none of the writes targets is unchanged *)
Lemma apply_ws_other ws : forall d j, ~ In j (map fst ws) -> disk_get (apply_ws ws d) j = disk_get d j.
Proof.
  induction ws as [|w ws IH]; intros d j H; [reflexivity|].
  rewrite apply_ws_cons, IH.
  - apply disk_get_set_other. intros E. apply H. left. exact E.
  - intros Hin. apply H. right. exact Hin.
Qed.

Lemma firstn_In {A} (l : list A) : forall k x, In x (firstn k l) -> In x l.
Proof.
  induction l as [|a l IH]; intros [|k] x H; cbn in H; try contradiction.
  destruct H as [->|H]; [left; reflexivity|right; exact (IH k x H)].
Qed.

Lemma prefix_disk_other ws k d j :
  ~ In j (map fst (firstn k ws)) -> disk_get (prefix_disk ws k d) j = disk_get d j.
Proof. apply apply_ws_other. Qed.

Lemma prefix_disk_untouched ws k d j :
  ~ In j (map fst ws) -> disk_get (prefix_disk ws k d) j = disk_get d j.
Proof.
  intros H. apply prefix_disk_other. intros Hin. apply H.
  apply in_map_iff in Hin. destruct Hin as (w & E & Hw). apply in_map_iff. exists w.
  split; [exact E|exact (firstn_In _ _ _ Hw)].
Qed.

(* the value of a block after a list of writes depends only on its value before *)
Lemma apply_ws_get ws : forall d e j, disk_get d j = disk_get e j ->
  disk_get (apply_ws ws d) j = disk_get (apply_ws ws e) j.
Proof.
  induction ws as [|w ws IH]; intros d e j H; [exact H|].
  rewrite !apply_ws_cons. apply IH.
  destruct (N.eq_dec (fst w) j) as [<-|Hne].
  - rewrite !disk_get_set_same. reflexivity.
  - rewrite !disk_get_set_other by exact Hne. exact H.
Qed.

(* writes of one constant block *)
Lemma apply_ws_const b l : forall d j, In j l ->
  disk_get (apply_ws (map (fun i => (i, b)) l) d) j = b.
Proof.
  induction l as [|i l IH]; intros d j H; [contradiction|].
  cbn [map]. rewrite apply_ws_cons. cbn [fst snd].
  destruct (in_dec N.eq_dec j l) as [Hin|Hni]; [apply IH; exact Hin|].
  rewrite apply_ws_other.
  - destruct H as [->|H]; [apply disk_get_set_same|contradiction].
  - rewrite map_map. cbn [fst]. rewrite map_id. exact Hni.
Qed.

Lemma prefix_disk_app_l w1 w2 k d : (k <= length w1)%nat ->
  prefix_disk (w1 ++ w2) k d = prefix_disk w1 k d.
Proof.
  intros H. unfold prefix_disk. rewrite firstn_app.
  replace (k - length w1)%nat with 0%nat by lia. cbn [firstn]. rewrite app_nil_r. reflexivity.
Qed.

Lemma prefix_disk_app_r w1 w2 k d : (length w1 <= k)%nat ->
  prefix_disk (w1 ++ w2) k d = prefix_disk w2 (k - length w1) (apply_ws w1 d).
Proof.
  intros H. unfold prefix_disk. rewrite firstn_app, apply_ws_app.
  rewrite (firstn_all2 w1) by exact H. reflexivity.
Qed.

(* crash_disks: the three general facts together *)
Theorem crash_disks ws d :
  prefix_disk ws 0 d = d /\
  prefix_disk ws (length ws) d = apply_ws ws d /\
  (forall k i b, nth_error ws k = Some (i, b) ->
     prefix_disk ws (S k) d = disk_set (prefix_disk ws k d) i b) /\
  (forall k j, ~ In j (map fst (firstn k ws)) -> disk_get (prefix_disk ws k d) j = disk_get d j).
Proof.
  split; [apply prefix_disk_0|]. split; [apply prefix_disk_all|].
  split; [intros k i b; apply prefix_disk_step|intros k j; apply prefix_disk_other].
Qed.

(* a crash during an operation whose writes are ws (tr_ext) after k of them leaves
   prefix_disk ws k (s_disk s); with k = length ws this is the disk of the final state *)
Lemma tr_ext_prefix_final s s' ws : tr_ext s s' ws -> prefix_disk ws (length ws) (s_disk s) = s_disk s'.
Proof. intros T. rewrite prefix_disk_all. symmetry. exact (tr_ext_disk _ _ _ T). Qed.

(* ================================================================== 2. FAT updates and data writes *)
Definition fat_len_ok (v : vol) (fsz : N) (d : disk) : Prop :=
  forall k, k < fsz -> length (disk_get d (fat_copy_sector v 0 k)) = 512%nat.
(* entry c' lies inside the FAT *)
Definition in_fat (v : vol) (fsz c' : N) : Prop := (c' * fat_width v) / 512 < fsz.
(* block j is no sector of either FAT copy *)
Definition non_fat (v : vol) (fsz j : N) : Prop := forall cp k, k < fsz -> j <> fat_copy_sector v cp k.

(* the device writes of one update_fat (entry y := x) on a device whose contents are d *)
Definition upd_ws (v : vol) (d : disk) (y x : N) : list (N * block) :=
  map (fun i => (i, fat_put_block v (disk_get d (fat_sector v 0 y)) y x)) (fat_writes v y).

Lemma sec_inj v cp k k' : fat_copy_sector v cp k = fat_copy_sector v cp k' -> k = k'.
Proof. unfold fat_copy_sector. lia. Qed.

Lemma sec01_ne v fsz sf k k' : fat_layout v fsz -> v_second_fat v = Some sf -> k < fsz ->
  fat_copy_sector v 0 k <> fat_copy_sector v 1 k'.
Proof.
  intros L E Hk. pose proof (fl_geom v fsz L sf E) as Hg.
  unfold fat_copy_sector, fat_copy_start. change (0 =? 0) with true. change (1 =? 0) with false.
  cbv iota. rewrite E. lia.
Qed.

Lemma sec1_none v k : v_second_fat v = None -> fat_copy_sector v 1 k = fat_copy_sector v 0 k.
Proof. intros E. unfold fat_copy_sector, fat_copy_start. rewrite E. reflexivity. Qed.

Lemma mirrored_none v fsz d : v_second_fat v = None -> fat_mirrored d v fsz.
Proof. intros E k _. rewrite (sec1_none v k E). reflexivity. Qed.

(* the disk after the complete update *)
Lemma full_step_get v d y x j :
  disk_get (apply_ws (upd_ws v d y x) d) j =
  if (j =? fat_sector v 0 y) || (j =? fat_sector v 1 y)
  then fat_put_block v (disk_get d (fat_sector v 0 y)) y x else disk_get d j.
Proof.
  unfold upd_ws, fat_writes.
  destruct (v_second_fat v) as [sf|] eqn:E.
  - cbn [map]. rewrite !apply_ws_cons. cbn [fst snd]. unfold apply_ws. cbn [fold_left].
    destruct (N.eqb_spec j (fat_sector v 1 y)) as [->|H1].
    + rewrite orb_true_r. apply disk_get_set_same.
    + rewrite orb_false_r. rewrite disk_get_set_other by congruence.
      destruct (N.eqb_spec j (fat_sector v 0 y)) as [->|H0].
      * apply disk_get_set_same.
      * apply disk_get_set_other. congruence.
  - rewrite (fat_sector_1_none v y E). rewrite orb_diag.
    cbn [map]. rewrite !apply_ws_cons. cbn [fst snd]. unfold apply_ws. cbn [fold_left].
    destruct (N.eqb_spec j (fat_sector v 0 y)) as [->|H0].
    + apply disk_get_set_same.
    + apply disk_get_set_other. congruence.
Qed.

(* the first copy after its sector has been written (whatever happened to other blocks) *)
Lemma half_step v fsz d d' y x c' :
  fat_layout v fsz -> fat_len_ok v fsz d -> in_fat v fsz y ->
  disk_get d' (fat_sector v 0 y) = fat_put_block v (disk_get d (fat_sector v 0 y)) y x ->
  (fat_sector v 0 c' <> fat_sector v 0 y ->
     disk_get d' (fat_sector v 0 c') = disk_get d (fat_sector v 0 c')) ->
  fat_get d' v 0 c' = if c' =? y then enc v x else fat_get d v 0 c'.
Proof.
  intros L Hlen Hy Hs Ho.
  assert (Hl : length (disk_get d (fat_sector v 0 y)) = 512%nat) by (apply Hlen; exact Hy).
  unfold fat_get.
  destruct (N.eq_dec (fat_sector v 0 c') (fat_sector v 0 y)) as [Es|Ns].
  - rewrite Es, Hs. destruct (N.eqb_spec c' y) as [->|Hne].
    + apply fat_put_block_same. exact Hl.
    + apply fat_put_block_other; [exact Hl|exact Hne|]. apply (fat_sector_quot v 0). exact Es.
  - rewrite (Ho Ns). destruct (N.eqb_spec c' y) as [->|_]; [contradiction Ns; reflexivity|reflexivity].
Qed.

(* the complete update: entries of the first copy, all other blocks, lengths, mirror *)
Lemma full_step v fsz d y x :
  fat_layout v fsz -> fat_len_ok v fsz d -> in_fat v fsz y ->
  let d2 := apply_ws (upd_ws v d y x) d in
  (forall c', in_fat v fsz c' ->
     fat_get d2 v 0 c' = if c' =? y then enc v x else fat_get d v 0 c') /\
  (forall j, non_fat v fsz j -> disk_get d2 j = disk_get d j) /\
  fat_len_ok v fsz d2 /\
  (fat_mirrored d v fsz -> fat_mirrored d2 v fsz).
Proof.
  intros L Hlen Hy d2.
  assert (Hl : length (disk_get d (fat_sector v 0 y)) = 512%nat) by (apply Hlen; exact Hy).
  assert (H01 : forall k, k < fsz -> fat_copy_sector v 0 k <> fat_sector v 0 y ->
            (fat_copy_sector v 0 k =? fat_sector v 0 y) || (fat_copy_sector v 0 k =? fat_sector v 1 y) = false).
  { intros k Hk Hne. apply orb_false_iff. split; [apply N.eqb_neq; exact Hne|]. apply N.eqb_neq.
    destruct (v_second_fat v) as [sf|] eqn:E.
    - exact (sec01_ne v fsz sf k _ L E Hk).
    - rewrite (fat_sector_1_none v y E). exact Hne. }
  assert (Hthis : disk_get d2 (fat_sector v 0 y) = fat_put_block v (disk_get d (fat_sector v 0 y)) y x).
  { unfold d2. rewrite full_step_get, N.eqb_refl. reflexivity. }
  split; [|split; [|split]].
  - intros c' Hc'. apply (half_step v fsz d d2 y x c' L Hlen Hy Hthis).
    intros Hne. unfold d2. rewrite full_step_get.
    change (fat_sector v 0 c') with (fat_copy_sector v 0 ((c' * fat_width v) / 512)) at 1 2.
    rewrite (H01 _ Hc' Hne). reflexivity.
  - intros j Hj. unfold d2. rewrite full_step_get.
    replace ((j =? fat_sector v 0 y) || (j =? fat_sector v 1 y)) with false; [reflexivity|].
    symmetry. apply orb_false_iff. split; apply N.eqb_neq; apply Hj; exact Hy.
  - intros k Hk. destruct (N.eq_dec (fat_copy_sector v 0 k) (fat_sector v 0 y)) as [E|Hne].
    + rewrite E, Hthis. apply fat_put_block_length. exact Hl.
    + unfold d2. rewrite full_step_get, (H01 k Hk Hne). apply Hlen. exact Hk.
  - intros Hm k Hk. unfold d2. rewrite !full_step_get.
    destruct (v_second_fat v) as [sf|] eqn:E; [|rewrite (sec1_none v k E); reflexivity].
    destruct (N.eq_dec k ((y * fat_width v) / 512)) as [->|Hne].
    + change (fat_copy_sector v 1 ((y * fat_width v) / 512)) with (fat_sector v 1 y).
      change (fat_copy_sector v 0 ((y * fat_width v) / 512)) with (fat_sector v 0 y).
      rewrite !N.eqb_refl, orb_true_r. reflexivity.
    + rewrite (H01 k Hk) by (intros E0; apply Hne; exact (sec_inj v 0 _ _ E0)).
      replace ((fat_copy_sector v 1 k =? fat_sector v 0 y) || (fat_copy_sector v 1 k =? fat_sector v 1 y))
        with false; [apply Hm; exact Hk|].
      symmetry. apply orb_false_iff. split; apply N.eqb_neq.
      * intros E1. exact (sec01_ne v fsz sf _ k L E Hy (eq_sym E1)).
      * intros E1. apply Hne. exact (sec_inj v 1 _ _ E1).
Qed.

(* ---- data writes: no FAT sector is touched ---- *)
Definition fat_agree (v : vol) (fsz : N) (d' d : disk) : Prop :=
  forall cp k, k < fsz -> disk_get d' (fat_copy_sector v cp k) = disk_get d (fat_copy_sector v cp k).

Lemma agree_get v fsz d' d cp c' : fat_agree v fsz d' d -> in_fat v fsz c' ->
  fat_get d' v cp c' = fat_get d v cp c'.
Proof. intros A Hc. unfold fat_get, fat_sector. rewrite (A cp _ Hc). reflexivity. Qed.

Lemma agree_len v fsz d' d : fat_agree v fsz d' d -> fat_len_ok v fsz d -> fat_len_ok v fsz d'.
Proof. intros A H k Hk. rewrite (A 0 k Hk). apply H. exact Hk. Qed.

Lemma agree_mirror v fsz d' d : fat_agree v fsz d' d -> fat_mirrored d v fsz -> fat_mirrored d' v fsz.
Proof. intros A H k Hk. rewrite (A 1 k Hk), (A 0 k Hk). apply H. exact Hk. Qed.

Definition data_only (v : vol) (fsz : N) (ws : list (N * block)) : Prop :=
  Forall (fun p => non_fat v fsz (fst p)) ws.

Lemma data_only_firstn v fsz ws k : data_only v fsz ws -> data_only v fsz (firstn k ws).
Proof.
  unfold data_only. rewrite !Forall_forall. intros H x Hx. apply H. exact (firstn_In _ _ _ Hx).
Qed.

Lemma data_step v fsz ws d : data_only v fsz ws -> fat_agree v fsz (apply_ws ws d) d.
Proof.
  intros H cp k Hk. apply apply_ws_other. intros Hin.
  apply in_map_iff in Hin. destruct Hin as (w & E & Hw).
  unfold data_only in H. rewrite Forall_forall in H. exact (H w Hw cp k Hk E).
Qed.

(* ---- an operation as a sequence of FAT updates and data writes ---- *)
Inductive wop := WFat (y x : N) | WData (ws : list (N * block)).

(* its device writes, oldest first, on a device whose contents are d before the first *)
Fixpoint op_ws (v : vol) (d : disk) (ops : list wop) : list (N * block) :=
  match ops with
  | [] => []
  | WFat y x :: tl => upd_ws v d y x ++ op_ws v (apply_ws (upd_ws v d y x) d) tl
  | WData ws :: tl => ws ++ op_ws v (apply_ws ws d) tl
  end.

(* entry c' after the FAT updates among ops, when it was e before *)
Fixpoint ent_after (v : vol) (ops : list wop) (c' e : N) : N :=
  match ops with
  | [] => e
  | WFat y x :: tl => ent_after v tl c' (if c' =? y then enc v x else e)
  | WData _ :: tl => ent_after v tl c' e
  end.

(* the data writes among ops *)
Fixpoint data_ws (ops : list wop) : list (N * block) :=
  match ops with
  | [] => []
  | WFat _ _ :: tl => data_ws tl
  | WData ws :: tl => ws ++ data_ws tl
  end.

Definition op_ok (v : vol) (fsz : N) (o : wop) : Prop :=
  match o with WFat y _ => in_fat v fsz y | WData ws => data_only v fsz ws end.

(* THE SHAPE OF EVERY PREFIX.  After the first k writes of the operation, j1 of its steps are
   complete and at most one more is under way:
   - the first FAT copy reads as after j0 steps, j0 = j1, or j0 = j1 + 1 when step j1 is a FAT
     update whose first-copy sector has been written and whose second-copy sector has not;
   - the second FAT copy (when the copies were identical before) reads as after j1 steps: it
     is never ahead of the first copy and at most one update behind;
   - the blocks outside the FAT are as after the data writes of the j1 complete steps and a
     prefix ws' of the data writes of step j1. *)
Theorem crash_general v fsz : fat_layout v fsz -> forall ops d k,
  Forall (op_ok v fsz) ops -> fat_len_ok v fsz d ->
  let Dk := prefix_disk (op_ws v d ops) k d in
  exists j1 j0 ws',
    (j0 = j1 \/ (j0 = S j1 /\ exists y x, nth_error ops j1 = Some (WFat y x))) /\
    (j0 <= length ops)%nat /\
    (ws' = [] \/ (j0 = j1 /\ exists ws k', nth_error ops j1 = Some (WData ws) /\ ws' = firstn k' ws)) /\
    (forall c', in_fat v fsz c' ->
       fat_get Dk v 0 c' = ent_after v (firstn j0 ops) c' (fat_get d v 0 c')) /\
    (fat_mirrored d v fsz -> forall c', in_fat v fsz c' ->
       fat_get Dk v 1 c' = ent_after v (firstn j1 ops) c' (fat_get d v 0 c')) /\
    (forall j, non_fat v fsz j ->
       disk_get Dk j = disk_get (apply_ws (data_ws (firstn j1 ops) ++ ws') d) j) /\
    fat_len_ok v fsz Dk.
Proof.
  intros L. induction ops as [|o tl IH]; intros d k Hok Hlen Dk.
  - exists 0%nat, 0%nat, []. unfold Dk, prefix_disk. cbn [op_ws]. rewrite firstn_nil.
    split; [left; reflexivity|]. split; [cbn; lia|]. split; [left; reflexivity|].
    split; [intros c' _; reflexivity|]. split.
    { intros Hm c' Hc'. cbn [firstn ent_after]. destruct k; exact (proj1 (fat_mirrored_get _ _ _ _ Hm Hc')). }
    split; [intros j _; reflexivity|exact Hlen].
  - inversion Hok as [|? ? Ho Htl]; subst. destruct o as [y x|ws].
    + (* a FAT update *)
      cbn [op_ok] in Ho. cbn [op_ws] in Dk.
      destruct (full_step v fsz d y x L Hlen Ho) as (F1 & F2 & F3 & F4).
      set (w := upd_ws v d y x) in *. set (d2 := apply_ws w d) in *.
      destruct (le_lt_dec (length w) k) as [Hk|Hk].
      * (* the update is complete *)
        unfold Dk. rewrite (prefix_disk_app_r w _ k d Hk). fold d2.
        destruct (IH d2 (k - length w)%nat Htl F3) as (j1 & j0 & ws' & C1 & C2 & C3 & G0 & G1 & G2 & G3).
        exists (S j1), (S j0), ws'.
        split. { destruct C1 as [->|(-> & Hn)]; [left; reflexivity|right; split; [reflexivity|exact Hn]]. }
        split; [cbn [length]; lia|].
        split. { destruct C3 as [->|(-> & Hn)]; [left; reflexivity|right; split; [reflexivity|exact Hn]]. }
        split. { intros c' Hc'. cbn [firstn ent_after]. rewrite <- (F1 c' Hc'). exact (G0 c' Hc'). }
        split. { intros Hm c' Hc'. cbn [firstn ent_after]. rewrite <- (F1 c' Hc'). exact (G1 (F4 Hm) c' Hc'). }
        split; [|exact G3].
        intros j Hj. cbn [firstn data_ws]. rewrite (G2 j Hj). apply apply_ws_get. exact (F2 j Hj).
      * (* the update is under way *)
        unfold Dk. rewrite (prefix_disk_app_l w _ k d) by lia.
        assert (Hcases : k = 0%nat \/ (k = 1%nat /\ exists sf, v_second_fat v = Some sf)).
        { unfold w, upd_ws, fat_writes in Hk. rewrite map_length in Hk.
          destruct (v_second_fat v) as [sf|]; cbn [length] in Hk; [|left; lia].
          destruct k as [|[|k]]; [left; reflexivity|right; split; [reflexivity|exists sf; reflexivity]|lia]. }
        destruct Hcases as [->|(-> & sf & Esf)].
        -- exists 0%nat, 0%nat, []. rewrite prefix_disk_0.
           split; [left; reflexivity|]. split; [cbn; lia|]. split; [left; reflexivity|].
           split; [intros c' _; reflexivity|]. split.
           { intros Hm c' Hc'. exact (proj1 (fat_mirrored_get _ _ _ _ Hm Hc')). }
           split; [intros j _; reflexivity|exact Hlen].
        -- assert (Ed : prefix_disk w 1 d
                        = disk_set d (fat_sector v 0 y) (fat_put_block v (disk_get d (fat_sector v 0 y)) y x)).
           { unfold w, upd_ws, fat_writes. rewrite Esf. reflexivity. }
           rewrite Ed. clear Ed.
           exists 0%nat, 1%nat, [].
           split; [right; split; [reflexivity|exists y, x; reflexivity]|].
           split; [cbn [length]; lia|]. split; [left; reflexivity|].
           split.
           { intros c' Hc'. cbn [firstn ent_after].
             apply (half_step v fsz d _ y x c' L Hlen Ho); [apply disk_get_set_same|].
             intros Hne. apply disk_get_set_other. congruence. }
           split.
           { intros Hm c' Hc'. cbn [firstn ent_after]. unfold fat_get at 1.
             rewrite disk_get_set_other
               by (exact (sec01_ne v fsz sf _ ((c' * fat_width v) / 512) L Esf Ho)).
             exact (proj1 (fat_mirrored_get _ _ _ _ Hm Hc')). }
           split.
           { intros j Hj. cbn [firstn data_ws app]. apply disk_get_set_other.
             intros E. exact (Hj 0 _ Ho (eq_sym E)). }
           intros k0 Hk0. destruct (N.eq_dec (fat_sector v 0 y) (fat_copy_sector v 0 k0)) as [E|Hne].
           ++ rewrite <- E, disk_get_set_same. apply fat_put_block_length. apply Hlen. exact Ho.
           ++ rewrite disk_get_set_other by exact Hne. apply Hlen. exact Hk0.
    + (* data writes *)
      cbn [op_ok] in Ho. cbn [op_ws] in Dk.
      destruct (le_lt_dec (length ws) k) as [Hk|Hk].
      * pose proof (data_step v fsz ws d Ho) as A.
        set (d2 := apply_ws ws d) in *.
        unfold Dk. rewrite (prefix_disk_app_r ws _ k d Hk). fold d2.
        destruct (IH d2 (k - length ws)%nat Htl (agree_len _ _ _ _ A Hlen))
          as (j1 & j0 & ws' & C1 & C2 & C3 & G0 & G1 & G2 & G3).
        exists (S j1), (S j0), ws'.
        split. { destruct C1 as [->|(-> & Hn)]; [left; reflexivity|right; split; [reflexivity|exact Hn]]. }
        split; [cbn [length]; lia|].
        split. { destruct C3 as [->|(-> & Hn)]; [left; reflexivity|right; split; [reflexivity|exact Hn]]. }
        split. { intros c' Hc'. cbn [firstn ent_after]. rewrite <- (agree_get _ _ _ _ 0 c' A Hc'). exact (G0 c' Hc'). }
        split. { intros Hm c' Hc'. cbn [firstn ent_after]. rewrite <- (agree_get _ _ _ _ 0 c' A Hc').
                 exact (G1 (agree_mirror _ _ _ _ A Hm) c' Hc'). }
        split; [|exact G3].
        intros j Hj. cbn [firstn data_ws]. rewrite (G2 j Hj). rewrite <- !app_assoc, (apply_ws_app ws). reflexivity.
      * unfold Dk. rewrite (prefix_disk_app_l ws _ k d) by lia.
        pose proof (data_step v fsz (firstn k ws) d (data_only_firstn _ _ _ k Ho)) as A.
        exists 0%nat, 0%nat, (firstn k ws).
        split; [left; reflexivity|]. split; [cbn; lia|].
        split; [right; split; [reflexivity|exists ws, k; split; reflexivity]|].
        split; [intros c' Hc'; exact (agree_get _ _ _ _ 0 c' A Hc')|].
        split.
        { intros Hm c' Hc'. cbn [firstn ent_after]. unfold prefix_disk. rewrite (agree_get _ _ _ _ 1 c' A Hc').
          exact (proj1 (fat_mirrored_get _ _ _ _ Hm Hc')). }
        split; [intros j _; reflexivity|exact (agree_len _ _ _ _ A Hlen)].
Qed.

(* ================================================================== 3. chains *)
(* the volume's cluster numbers are below the bad-cluster mark of its FAT type (FAT16: at most
   65525 entries, FAT32: at most 268435445), so a cluster number stored in an entry is a link *)
Definition fat_fits (v : vol) : Prop := v_clusters v + 2 <= fat_bad v.

Lemma chain_of_inv d v c f l : chain_of d v c (S f) = Some l ->
  2 <= c /\ c < v_clusters v + 2 /\ (fat_get d v 0 c =? fat_bad v) = false /\
  (((fat_eoc_min v <=? fat_get d v 0 c) = true /\ l = [c]) \/
   ((fat_eoc_min v <=? fat_get d v 0 c) = false /\
    exists l0, chain_of d v (fat_get d v 0 c) f = Some l0 /\ l = c :: l0)).
Proof.
  intros H. destruct (chain_of_head _ _ _ _ _ H) as (R1 & R2 & _).
  split; [exact R1|]. split; [exact R2|].
  cbn [chain_of] in H.
  destruct ((2 <=? c) && (c <? v_clusters v + 2)); [|discriminate]. cbv zeta in H.
  rewrite fat_entry_get in H.
  destruct (fat_get d v 0 c =? fat_bad v); [discriminate|]. split; [reflexivity|].
  destruct (fat_eoc_min v <=? fat_get d v 0 c).
  - left. split; [reflexivity|]. inversion H. reflexivity.
  - right. split; [reflexivity|].
    destruct (chain_of d v (fat_get d v 0 c) f) as [l0|]; [|discriminate].
    exists l0. split; [reflexivity|]. inversion H. reflexivity.
Qed.

Lemma chain_of_range_b v c : 2 <= c -> c < v_clusters v + 2 ->
  (2 <=? c) && (c <? v_clusters v + 2) = true.
Proof. intros H1 H2. apply andb_true_iff. split; [apply N.leb_le|apply N.ltb_lt]; assumption. Qed.

Lemma chain_of_end d v c f : 2 <= c -> c < v_clusters v + 2 ->
  (fat_get d v 0 c =? fat_bad v) = false -> (fat_eoc_min v <=? fat_get d v 0 c) = true ->
  chain_of d v c (S f) = Some [c].
Proof.
  intros H1 H2 Hb He. cbn [chain_of]. rewrite (chain_of_range_b v c H1 H2). cbv zeta.
  rewrite fat_entry_get, Hb, He. reflexivity.
Qed.

Lemma chain_of_link d v c f l0 : 2 <= c -> c < v_clusters v + 2 ->
  (fat_get d v 0 c =? fat_bad v) = false -> (fat_eoc_min v <=? fat_get d v 0 c) = false ->
  chain_of d v (fat_get d v 0 c) f = Some l0 -> chain_of d v c (S f) = Some (c :: l0).
Proof.
  intros H1 H2 Hb He Hn. cbn [chain_of]. rewrite (chain_of_range_b v c H1 H2). cbv zeta.
  rewrite fat_entry_get, Hb, He, Hn. reflexivity.
Qed.

(* what a defined chain guarantees: every cluster is a data cluster of the volume, its entry is
   neither free nor the bad mark, and no cluster repeats (no cycle) *)
Lemma chain_of_sound d v : forall f c l, chain_of d v c f = Some l ->
  forall x, In x l -> 2 <= x /\ x < v_clusters v + 2 /\
                      fat_get d v 0 x <> 0 /\ fat_get d v 0 x <> fat_bad v.
Proof.
  induction f as [|f IH]; intros c l H x Hx; [discriminate|].
  destruct (chain_of_inv _ _ _ _ _ H) as (R1 & R2 & Hb & Hcase).
  apply N.eqb_neq in Hb.
  destruct Hcase as [(He & ->)|(He & l0 & Hn & ->)].
  - destruct Hx as [<-|[]]. split; [exact R1|]. split; [exact R2|]. split; [|exact Hb].
    apply N.leb_le in He. unfold fat_eoc_min in He. destruct (v_fat32 v); lia.
  - destruct Hx as [<-|Hx]; [|exact (IH _ _ Hn x Hx)].
    split; [exact R1|]. split; [exact R2|]. split; [|exact Hb].
    destruct (chain_of_head _ _ _ _ _ Hn) as (N1 & _). lia.
Qed.

(* a free cluster is in no chain *)
Lemma free_not_in_chain d v c0 f l c : chain_of d v c0 f = Some l -> fat_get d v 0 c = 0 -> ~ In c l.
Proof. intros H Hz Hin. destruct (chain_of_sound d v f c0 l H c Hin) as (_ & _ & Hnz & _). contradiction. Qed.

(* the last cluster of a chain holds an end-of-chain value *)
Lemma chain_last_eoc d v : forall f c0 pre p, chain_of d v c0 f = Some (pre ++ [p]) ->
  (fat_eoc_min v <=? fat_get d v 0 p) = true.
Proof.
  induction f as [|f IH]; intros c0 pre p H; [discriminate|].
  destruct (chain_of_inv _ _ _ _ _ H) as (_ & _ & _ & Hcase).
  destruct Hcase as [(He & E)|(He & l0 & Hn & E)].
  - destruct pre as [|a [|b pre]]; cbn in E; inversion E; subst. exact He.
  - destruct pre as [|a pre]; cbn in E; inversion E; subst.
    + destruct (chain_of_head _ _ _ _ _ Hn) as (_ & _ & l' & El). discriminate El.
    + exact (IH _ _ _ Hn).
Qed.

(* appending a cluster: when the entries of the chain's clusters but the last are unchanged,
   the last one links to c and c holds an end-of-chain value, the chain is the old one
   followed by c *)
Lemma chain_extend d d' v c : 2 <= c -> c < v_clusters v + 2 -> fat_fits v ->
  (fat_get d' v 0 c =? fat_bad v) = false -> (fat_eoc_min v <=? fat_get d' v 0 c) = true ->
  forall f c0 pre p, chain_of d v c0 f = Some (pre ++ [p]) ->
  (forall x, In x pre -> fat_get d' v 0 x = fat_get d v 0 x) ->
  fat_get d' v 0 p = c ->
  chain_of d' v c0 (S f) = Some (pre ++ [p; c]).
Proof.
  intros C1 C2 Hfit Hcb Hce.
  assert (Hlb : (c =? fat_bad v) = false) by (apply N.eqb_neq; unfold fat_fits in Hfit; lia).
  assert (Hle : (fat_eoc_min v <=? c) = false).
  { apply N.leb_gt. unfold fat_fits, fat_bad in Hfit. unfold fat_eoc_min. destruct (v_fat32 v); lia. }
  induction f as [|f IH]; intros c0 pre p H Hsame Hp; [discriminate|].
  destruct (chain_of_inv _ _ _ _ _ H) as (R1 & R2 & Hb & Hcase).
  destruct Hcase as [(He & E)|(He & l0 & Hn & E)].
  - destruct pre as [|a [|b pre]]; cbn in E; inversion E as [Ep]. subst p. cbn [app].
    apply chain_of_link; try assumption; rewrite Hp; try assumption.
    apply chain_of_end; assumption.
  - destruct pre as [|a pre]; cbn in E; injection E as Ea0 El0.
    { subst l0. destruct (chain_of_head _ _ _ _ _ Hn) as (_ & _ & l' & El). discriminate El. }
    subst a l0.
    assert (Ea : fat_get d' v 0 c0 = fat_get d v 0 c0) by (apply Hsame; left; reflexivity).
    cbn [app]. apply chain_of_link; try assumption; rewrite Ea; try assumption.
    apply (IH _ pre p).
    + exact Hn.
    + intros x Hx. apply Hsame. right. exact Hx.
    + exact Hp.
Qed.

(* a chain of one cluster *)
Lemma chain_single d v c : 2 <= c -> c < v_clusters v + 2 ->
  (fat_get d v 0 c =? fat_bad v) = false -> (fat_eoc_min v <=? fat_get d v 0 c) = true ->
  chain_of d v c 1 = Some [c].
Proof. apply chain_of_end. Qed.

Lemma eof_is_end v : (enc v CL_EOF =? fat_bad v) = false /\ (fat_eoc_min v <=? enc v CL_EOF) = true.
Proof. rewrite enc_eof. unfold fat_bad, fat_eoc_min. destruct (v_fat32 v); split; reflexivity. Qed.

(* in a chain that contains c, either c is its first cluster or some cluster of it links to c *)
Lemma chain_reaches d v c : forall f c1 l, chain_of d v c1 f = Some l -> In c l ->
  c1 = c \/ exists x, In x l /\ fat_get d v 0 x = c.
Proof.
  induction f as [|f IH]; intros c1 l H Hin; [discriminate|].
  destruct (chain_of_inv _ _ _ _ _ H) as (_ & _ & _ & Hcase).
  destruct Hcase as [(_ & ->)|(_ & l0 & Hn & ->)].
  - destruct Hin as [->|[]]. left. reflexivity.
  - destruct Hin as [->|Hin]; [left; reflexivity|]. right.
    destruct (IH _ _ Hn Hin) as [E|(x & Hx & Ex)].
    + exists c1. split; [left; reflexivity|exact E].
    + exists x. split; [right; exact Hx|exact Ex].
Qed.

(* ================================================================== 4. alloc_cluster *)
(* ---- general frame: a block outside the FAT that no data write targets is unchanged ---- *)
Lemma data_ws_firstn_In ops : forall j w, In w (data_ws (firstn j ops)) -> In w (data_ws ops).
Proof.
  induction ops as [|o tl IH]; intros [|j] w H; cbn in H; try contradiction.
  destruct o as [y x|ws]; cbn [data_ws] in *.
  - exact (IH j w H).
  - apply in_app_iff in H. apply in_app_iff. destruct H as [H|H]; [left; exact H|right; exact (IH j w H)].
Qed.

Lemma data_ws_nth_In ops : forall j ws w, nth_error ops j = Some (WData ws) -> In w ws -> In w (data_ws ops).
Proof.
  induction ops as [|o tl IH]; intros [|j] ws w H Hw; cbn in H; try discriminate.
  - inversion H; subst o. cbn [data_ws]. apply in_app_iff. left. exact Hw.
  - destruct o as [y x|ws0]; cbn [data_ws]; [exact (IH j ws w H Hw)|].
    apply in_app_iff. right. exact (IH j ws w H Hw).
Qed.

Lemma dw_sub ops j1 j0 ws' :
  (ws' = [] \/ (j0 = j1 /\ exists ws k', nth_error ops j1 = Some (WData ws) /\ ws' = firstn k' ws)) ->
  forall w, In w (data_ws (firstn j1 ops) ++ ws') -> In w (data_ws ops).
Proof.
  intros C w H. apply in_app_iff in H. destruct H as [H|H]; [exact (data_ws_firstn_In _ _ _ H)|].
  destruct C as [->|(_ & ws & k' & Hn & ->)]; [contradiction|].
  exact (data_ws_nth_In _ _ _ _ Hn (firstn_In _ _ _ H)).
Qed.

Theorem crash_frame v fsz ops d k j : fat_layout v fsz ->
  Forall (op_ok v fsz) ops -> fat_len_ok v fsz d ->
  non_fat v fsz j -> ~ In j (map fst (data_ws ops)) ->
  disk_get (prefix_disk (op_ws v d ops) k d) j = disk_get d j.
Proof.
  intros L Hok Hlen Hj Hni.
  destruct (crash_general v fsz L ops d k Hok Hlen) as (j1 & j0 & ws' & _ & _ & C3 & _ & _ & G2 & _).
  rewrite (G2 j Hj). apply apply_ws_other. intros Hin.
  apply in_map_iff in Hin. destruct Hin as (w & E & Hw). apply Hni. apply in_map_iff.
  exists w. split; [exact E|exact (dw_sub ops j1 j0 ws' C3 w Hw)].
Qed.

(* ---- the blocks of a cluster ---- *)
Lemma blocks_from_In n : forall i x, In x (blocks_from n i) <-> i <= x /\ x < i + N.of_nat n.
Proof.
  induction n as [|n IH]; intros i x; cbn [blocks_from In].
  - split; [intros []|lia].
  - rewrite IH. lia.
Qed.

Lemma cluster_blocks_In v c x : In x (cluster_blocks v c) <-> in_cluster v c x.
Proof. unfold cluster_blocks, in_cluster. rewrite blocks_from_In, N2Nat.id. reflexivity. Qed.

Lemma cluster_block_non_fat v fsz c x : fat_layout v fsz -> 2 <= c ->
  In x (cluster_blocks v c) -> non_fat v fsz x.
Proof.
  intros L Hc Hx cp k Hk E. apply cluster_blocks_In in Hx.
  apply (fat_not_in_cluster v fsz cp k c L Hk Hc). rewrite <- E. exact Hx.
Qed.

(* blocks of distinct data clusters are distinct *)
Lemma cluster_blocks_apart v c1 c2 x : c1 <> c2 -> 2 <= c1 -> 2 <= c2 ->
  In x (cluster_blocks v c1) -> ~ In x (cluster_blocks v c2).
Proof.
  intros Hne H1 H2 X1 X2. apply cluster_blocks_In in X1. apply cluster_blocks_In in X2.
  destruct X1 as [A1 A2]. destruct X2 as [B1 B2]. unfold cluster_first_block in *.
  apply (cluster_blocks_disjoint v c1 c2 (x - (v_lba v + v_first_data v + (c1 - 2) * v_spc v))
                                       (x - (v_lba v + v_first_data v + (c2 - 2) * v_spc v)) Hne H1 H2).
  - remember ((c1 - 2) * v_spc v) as X. lia.
  - remember ((c2 - 2) * v_spc v) as X. lia.
  - remember ((c1 - 2) * v_spc v) as X. remember ((c2 - 2) * v_spc v) as Y. lia.
Qed.

(* ---- alloc_cluster as a sequence of steps ---- *)
Definition zero_ws (v : vol) (c : N) (zero : bool) : list (N * block) :=
  if zero then map (fun i => (i, zero_block)) (cluster_blocks v c) else [].

Definition alloc_ops (v : vol) (c : N) (prev : option N) (zero : bool) : list wop :=
  WFat c CL_EOF :: WData (zero_ws v c zero) ::
  match prev with Some p => [WFat p c] | None => [] end.

Lemma zero_ws_targets v c zero w : In w (zero_ws v c zero) -> In (fst w) (cluster_blocks v c) /\ snd w = zero_block.
Proof.
  unfold zero_ws. destruct zero; [|intros []]. intros H. apply in_map_iff in H.
  destruct H as (i & <- & Hi). split; [exact Hi|reflexivity].
Qed.

Lemma zero_ws_data_only v fsz c zero : fat_layout v fsz -> 2 <= c -> data_only v fsz (zero_ws v c zero).
Proof.
  intros L Hc. unfold data_only. rewrite Forall_forall. intros w Hw.
  exact (cluster_block_non_fat v fsz c _ L Hc (proj1 (zero_ws_targets v c zero w Hw))).
Qed.

Lemma alloc_ops_ok v fsz c prev zero : fat_layout v fsz -> 2 <= c -> in_fat v fsz c ->
  (forall p, prev = Some p -> in_fat v fsz p) -> Forall (op_ok v fsz) (alloc_ops v c prev zero).
Proof.
  intros L Hc Hq Hp. unfold alloc_ops.
  constructor; [exact Hq|]. constructor; [exact (zero_ws_data_only v fsz c zero L Hc)|].
  destruct prev as [p|]; [|constructor]. constructor; [exact (Hp p eq_refl)|constructor].
Qed.

(* the second FAT image of PrAllocEffect is the update of the sector as it is on the medium
   after the first update and the zeroing *)
Lemma alloc_nb2_eq v fsz D c p zero : fat_layout v fsz -> 2 <= c -> in_fat v fsz c -> in_fat v fsz p ->
  alloc_nb2 v D c p =
  fat_put_block v (disk_get (apply_ws (zero_ws v c zero) (apply_ws (upd_ws v D c CL_EOF) D))
                            (fat_sector v 0 p)) p c.
Proof.
  intros L Hc Hq Hp. unfold alloc_nb2. f_equal.
  pose proof (data_step v fsz (zero_ws v c zero) (apply_ws (upd_ws v D c CL_EOF) D)
                (zero_ws_data_only v fsz c zero L Hc) 0 _ Hp) as A.
  change (fat_copy_sector v 0 ((p * fat_width v) / 512)) with (fat_sector v 0 p) in A.
  rewrite A, full_step_get. fold (alloc_nb1 v D c).
  destruct (N.eqb_spec (fat_sector v 0 p) (fat_sector v 0 c)) as [E0|N0]; [reflexivity|].
  cbn [orb].
  destruct (v_second_fat v) as [sf|] eqn:E.
  - destruct (N.eqb_spec (fat_sector v 0 p) (fat_sector v 1 c)) as [E1|_]; [|reflexivity].
    exfalso. exact (sec01_ne v fsz sf _ _ L E Hp E1).
  - rewrite (fat_sector_1_none v c E). destruct (N.eqb_spec (fat_sector v 0 p) (fat_sector v 0 c)); [contradiction|reflexivity].
Qed.

(* the write list of PrAllocEffect is the write list of these steps *)
Lemma alloc_writes_ops v fsz D prev zero c : fat_layout v fsz -> 2 <= c -> in_fat v fsz c ->
  (forall p, prev = Some p -> in_fat v fsz p) ->
  alloc_writes v D prev zero c = op_ws v D (alloc_ops v c prev zero).
Proof.
  intros L Hc Hq Hp. unfold alloc_writes, alloc_ops. cbn [op_ws].
  change (map (fun i => (i, alloc_nb1 v D c)) (fat_writes v c)) with (upd_ws v D c CL_EOF).
  f_equal. fold (zero_ws v c zero). f_equal.
  destruct prev as [p|]; [|reflexivity]. cbn [op_ws]. rewrite app_nil_r.
  unfold upd_ws at 2. apply map_ext. intros i. f_equal.
  exact (alloc_nb2_eq v fsz D c p zero L Hc Hq (Hp p eq_refl)).
Qed.

(* ---- the three stages of the FAT during alloc_cluster ---- *)
(* stage 0: nothing written; stage 1: c marked end-of-chain; stage 2: prev linked to c *)
Definition alloc_stage (v : vol) (D : disk) (c : N) (prev : option N) (n : nat) (x : N) : N :=
  match n with
  | O => fat_get D v 0 x
  | S O => if x =? c then enc v CL_EOF else fat_get D v 0 x
  | _ => match prev with
         | Some p => if x =? p then enc v c else if x =? c then enc v CL_EOF else fat_get D v 0 x
         | None => if x =? c then enc v CL_EOF else fat_get D v 0 x
         end
  end.

Definition stage_of (j : nat) : nat :=
  match j with O => 0 | S O => 1 | S (S O) => 1 | _ => 2 end.

Lemma alloc_ops_stage v D c prev zero j x :
  ent_after v (firstn j (alloc_ops v c prev zero)) x (fat_get D v 0 x)
  = alloc_stage v D c prev (stage_of j) x.
Proof.
  unfold alloc_ops. destruct prev as [p|]; destruct j as [|[|[|[|j]]]]; reflexivity.
Qed.

(* EVERY PREFIX of the writes of a successful alloc_cluster, at the level of FAT entries and
   blocks: the first copy is at stage n0, the second copy (if the copies were identical) at
   stage n1, never ahead and at most one update behind; when the link prev -> c is on the
   medium (stage 2) and zeroing was asked for, every block of c is zero; blocks outside the
   FAT and outside cluster c are unchanged *)
Theorem alloc_prefix_fat v fsz D prev zero c k :
  fat_layout v fsz -> fat_len_ok v fsz D -> 2 <= c -> in_fat v fsz c ->
  (forall p, prev = Some p -> in_fat v fsz p) ->
  let Dk := prefix_disk (alloc_writes v D prev zero c) k D in
  exists n0 n1,
    (n1 <= n0 /\ n0 <= n1 + 1)%nat /\ (n0 <= 2)%nat /\ (prev = None -> (n0 <= 1)%nat) /\
    (forall x, in_fat v fsz x -> fat_get Dk v 0 x = alloc_stage v D c prev n0 x) /\
    (fat_mirrored D v fsz -> forall x, in_fat v fsz x -> fat_get Dk v 1 x = alloc_stage v D c prev n1 x) /\
    (n0 = 2%nat -> zero = true -> forall b, In b (cluster_blocks v c) -> disk_get Dk b = zero_block) /\
    (forall j, non_fat v fsz j -> ~ In j (cluster_blocks v c) -> disk_get Dk j = disk_get D j) /\
    (zero = false -> forall j, non_fat v fsz j -> disk_get Dk j = disk_get D j) /\
    fat_len_ok v fsz Dk.
Proof.
  intros L Hlen Hc Hq Hp Dk.
  pose proof (alloc_ops_ok v fsz c prev zero L Hc Hq Hp) as Hok.
  unfold Dk. rewrite (alloc_writes_ops v fsz D prev zero c L Hc Hq Hp).
  destruct (crash_general v fsz L (alloc_ops v c prev zero) D k Hok Hlen)
    as (j1 & j0 & ws' & C1 & C2 & C3 & G0 & G1 & G2 & G3).
  exists (stage_of j0), (stage_of j1).
  assert (Hdata : forall w, In w (data_ws (firstn j1 (alloc_ops v c prev zero)) ++ ws') ->
            In (fst w) (cluster_blocks v c) /\ snd w = zero_block /\ zero = true).
  { intros w Hw. pose proof (dw_sub _ j1 j0 ws' C3 w Hw) as Hin.
    assert (Hz : In w (zero_ws v c zero)).
    { unfold alloc_ops in Hin. cbn [data_ws] in Hin. destruct prev; cbn [data_ws] in Hin;
        rewrite app_nil_r in Hin; exact Hin. }
    destruct (zero_ws_targets v c zero w Hz) as (T1 & T2). split; [exact T1|]. split; [exact T2|].
    unfold zero_ws in Hz. destruct zero; [reflexivity|contradiction]. }
  split.
  { destruct C1 as [->|(-> & _)]; destruct j1 as [|[|[|[|j1]]]]; cbn [stage_of]; lia. }
  split; [destruct j0 as [|[|[|[|j0]]]]; cbn [stage_of]; lia|].
  split.
  { intros ->. cbn [alloc_ops length] in C2. destruct j0 as [|[|[|j0]]]; cbn [stage_of]; lia. }
  split; [intros x Hx; rewrite (G0 x Hx); apply alloc_ops_stage|].
  split; [intros Hm x Hx; rewrite (G1 Hm x Hx); apply alloc_ops_stage|].
  split.
  { intros Hn Hz b Hb.
    rewrite (G2 b (cluster_block_non_fat v fsz c b L Hc Hb)).
    assert (Hj0 : (3 <= j0)%nat) by (destruct j0 as [|[|[|j0]]]; cbn [stage_of] in Hn; lia).
    assert (Hj1 : (2 <= j1)%nat) by (destruct C1 as [->|(-> & _)]; lia).
    assert (Hws : ws' = []).
    { destruct C3 as [->|(_ & ws & k' & Hnth & _)]; [reflexivity|]. exfalso.
      unfold alloc_ops in Hnth. destruct j1 as [|[|[|j1]]]; try lia; destruct prev; cbn in Hnth;
        try discriminate Hnth; destruct j1; discriminate Hnth. }
    subst ws'. rewrite app_nil_r.
    assert (Ed : data_ws (firstn j1 (alloc_ops v c prev zero)) = zero_ws v c zero).
    { unfold alloc_ops. destruct j1 as [|[|j1]]; try lia. cbn [firstn data_ws].
      destruct prev; destruct j1; cbn [firstn data_ws]; rewrite ?firstn_nil; cbn [data_ws];
        rewrite app_nil_r; reflexivity. }
    rewrite Ed. unfold zero_ws. rewrite Hz. apply apply_ws_const. exact Hb. }
  split.
  { intros j Hj Hni. rewrite (G2 j Hj). apply apply_ws_other. intros Hin.
    apply in_map_iff in Hin. destruct Hin as (w & E & Hw). apply Hni. rewrite <- E.
    exact (proj1 (Hdata w Hw)). }
  split; [|exact G3].
  intros Hz j Hj. rewrite (G2 j Hj). apply apply_ws_other. intros Hin.
  apply in_map_iff in Hin. destruct Hin as (w & E & Hw).
  destruct (Hdata w Hw) as (_ & _ & Hz'). congruence.
Qed.

(* ---- what each stage means for chains ---- *)
(* E is any medium whose first FAT copy is at stage n of an allocation of the free cluster c
   behind p, the last cluster of the chain pre ++ [p] *)
Lemma alloc_stage_chains v fsz D E c p pre c0 fuel n :
  fat_layout v fsz -> fat_fits v ->
  2 <= c -> c < v_clusters v + 2 -> fat_get D v 0 c = 0 ->
  chain_of D v c0 fuel = Some (pre ++ [p]) -> (n <= 2)%nat ->
  (forall x, in_fat v fsz x -> fat_get E v 0 x = alloc_stage v D c (Some p) n x) ->
  (* (a) chains that do not pass through p are untouched *)
  (forall c1 f1 ch1, chain_of D v c1 f1 = Some ch1 -> ~ In p ch1 -> chain_of E v c1 f1 = Some ch1) /\
  (* (b) the chain through p is the old one, or the old one followed by c *)
  ((n <= 1)%nat -> chain_of E v c0 fuel = Some (pre ++ [p])) /\
  (n = 2%nat -> chain_of E v c0 (S fuel) = Some (pre ++ [p; c])) /\
  (* (d) entry c; and the only entry that can newly refer to c is p's, at stage 2 *)
  (n = 0%nat -> fat_get E v 0 c = 0) /\
  ((1 <= n)%nat -> fat_get E v 0 c = enc v CL_EOF) /\
  (forall x, 2 <= x -> x < v_clusters v + 2 -> fat_get E v 0 x = c ->
     fat_get D v 0 x = c \/ (n = 2%nat /\ x = p)).
Proof.
  intros L Hfit C1 C2 Hfree Hch Hn HE.
  assert (HinF : forall x, x < v_clusters v + 2 -> in_fat v fsz x) by (intros x Hx; exact (layout_sector v fsz x L Hx)).
  pose proof (chain_of_sound D v fuel c0 _ Hch) as Hsound.
  assert (Hp : In p (pre ++ [p])) by (apply in_app_iff; right; left; reflexivity).
  destruct (Hsound p Hp) as (P1 & P2 & P3 & _).
  assert (Hpc : p <> c) by (intros ->; contradiction).
  assert (Hother : forall x, x < v_clusters v + 2 -> x <> c -> x <> p -> fat_get E v 0 x = fat_get D v 0 x).
  { intros x Hx N1 N2. rewrite (HE x (HinF x Hx)). unfold alloc_stage.
    apply N.eqb_neq in N1. apply N.eqb_neq in N2. destruct n as [|[|n]]; rewrite ?N1, ?N2; reflexivity. }
  assert (Hnotp : forall x, x < v_clusters v + 2 -> x <> c -> (n <= 1)%nat -> fat_get E v 0 x = fat_get D v 0 x).
  { intros x Hx N1 Hn1. rewrite (HE x (HinF x Hx)). unfold alloc_stage.
    apply N.eqb_neq in N1. destruct n as [|[|n]]; rewrite ?N1; try reflexivity. lia. }
  assert (Hcn : (1 <= n)%nat -> fat_get E v 0 c = enc v CL_EOF).
  { intros Hn1. rewrite (HE c (HinF c C2)). unfold alloc_stage.
    apply N.eqb_neq in Hpc. rewrite (N.eqb_sym c p), Hpc, N.eqb_refl. destruct n as [|[|n]]; [lia|reflexivity..]. }
  split; [|split; [|split; [|split; [|split]]]].
  - intros c1 f1 ch1 H1 Hni. apply (chain_of_frame D); [exact H1|].
    intros x Hx. destruct (chain_of_sound D v f1 c1 ch1 H1 x Hx) as (X1 & X2 & X3 & _).
    apply Hother; [exact X2| |]; intros ->; contradiction.
  - intros Hn1. apply (chain_of_frame D); [exact Hch|].
    intros x Hx. destruct (Hsound x Hx) as (X1 & X2 & X3 & _).
    apply Hnotp; [exact X2| |exact Hn1]. intros ->. contradiction.
  - intros ->. destruct (eof_is_end v) as (Eb & Ee).
    apply (chain_extend D E v c C1 C2 Hfit); [rewrite (Hcn ltac:(lia)); exact Eb|rewrite (Hcn ltac:(lia)); exact Ee|exact Hch| |].
    + intros x Hx. assert (Hx' : In x (pre ++ [p])) by (apply in_app_iff; left; exact Hx).
      destruct (Hsound x Hx') as (X1 & X2 & X3 & _).
      apply Hother; [exact X2|intros ->; contradiction|].
      intros ->. pose proof (chain_of_nodup D v fuel c0 _ Hch) as Hnd.
      apply NoDup_remove_2 in Hnd. apply Hnd. rewrite app_nil_r. exact Hx.
    + rewrite (HE p (HinF p P2)). unfold alloc_stage. rewrite N.eqb_refl.
      apply enc_cluster; [exact C2|]. unfold fat_fits, fat_bad in Hfit. destruct (v_fat32 v); lia.
  - intros ->. rewrite (HE c (HinF c C2)). exact Hfree.
  - exact Hcn.
  - intros x X1 X2 Ex.
    destruct (N.eq_dec x c) as [->|Nc].
    { exfalso. destruct n as [|n].
      - rewrite (HE c (HinF c C2)) in Ex. cbn [alloc_stage] in Ex. lia.
      - rewrite (Hcn ltac:(lia)), enc_eof in Ex. unfold fat_fits, fat_bad in Hfit. destruct (v_fat32 v); lia. }
    destruct (N.eq_dec x p) as [->|Np].
    + destruct (le_lt_dec n 1) as [Hn1|Hn1].
      * left. rewrite <- (Hnotp p X2 Nc Hn1). exact Ex.
      * right. split; [lia|reflexivity].
    + left. rewrite <- (Hother x X2 Nc Np). exact Ex.
Qed.

(* the same when the new cluster starts a chain (no previous cluster): stages 0 and 1 only *)
Lemma alloc_stage_chains_first v fsz D E c n :
  fat_layout v fsz -> fat_fits v ->
  2 <= c -> c < v_clusters v + 2 -> fat_get D v 0 c = 0 -> (n <= 1)%nat ->
  (forall x, in_fat v fsz x -> fat_get E v 0 x = alloc_stage v D c None n x) ->
  (forall c1 f1 ch1, chain_of D v c1 f1 = Some ch1 -> chain_of E v c1 f1 = Some ch1) /\
  (n = 0%nat -> fat_get E v 0 c = 0) /\
  (n = 1%nat -> fat_get E v 0 c = enc v CL_EOF /\ chain_of E v c 1 = Some [c]) /\
  (forall x, 2 <= x -> x < v_clusters v + 2 -> fat_get E v 0 x = c -> fat_get D v 0 x = c).
Proof.
  intros L Hfit C1 C2 Hfree Hn HE.
  assert (HinF : forall x, x < v_clusters v + 2 -> in_fat v fsz x) by (intros x Hx; exact (layout_sector v fsz x L Hx)).
  assert (Hother : forall x, x < v_clusters v + 2 -> x <> c -> fat_get E v 0 x = fat_get D v 0 x).
  { intros x Hx N1. rewrite (HE x (HinF x Hx)). unfold alloc_stage.
    apply N.eqb_neq in N1. destruct n as [|[|n]]; rewrite ?N1; reflexivity. }
  assert (Hc1 : n = 1%nat -> fat_get E v 0 c = enc v CL_EOF).
  { intros ->. rewrite (HE c (HinF c C2)). cbn [alloc_stage]. rewrite N.eqb_refl. reflexivity. }
  split; [|split; [|split]].
  - intros c1 f1 ch1 H1. apply (chain_of_frame D); [exact H1|].
    intros x Hx. destruct (chain_of_sound D v f1 c1 ch1 H1 x Hx) as (X1 & X2 & X3 & _).
    apply Hother; [exact X2|]. intros ->. contradiction.
  - intros ->. rewrite (HE c (HinF c C2)). exact Hfree.
  - intros E1. split; [exact (Hc1 E1)|]. destruct (eof_is_end v) as (Eb & Ee).
    apply chain_single; [exact C1|exact C2|rewrite (Hc1 E1); exact Eb|rewrite (Hc1 E1); exact Ee].
  - intros x X1 X2 Ex. destruct (N.eq_dec x c) as [->|Nc]; [|rewrite <- (Hother x X2 Nc); exact Ex].
    exfalso. destruct n as [|n].
    + rewrite (HE c (HinF c C2)) in Ex. cbn [alloc_stage] in Ex. lia.
    + rewrite (Hc1 ltac:(lia)), enc_eof in Ex. unfold fat_fits, fat_bad in Hfit. destruct (v_fat32 v); lia.
Qed.
