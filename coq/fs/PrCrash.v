(* PROOFS: what the medium looks like when the device stops accepting writes after ANY block
   write of alloc_cluster / truncate_cluster_chain / free_cluster_chain (C10, C09).
   Block writes are atomic and ordered, so a crash keeps a PREFIX of the write sequence that
   PrAllocEffect / PrChain establish (tr_ext: the writes with their contents, and the final disk
   is the old one with exactly these writes applied).  `prefix_disk ws k d` is the medium after
   the first k writes; every theorem quantifies over every k.
   Sections: 1 prefix disks; 2 sequences of FAT updates and data writes, the shape of every
   prefix (both FAT copies: crash_general); 3 chains; 4 alloc_cluster; 5 data blocks (C09
   frame); 6 truncate / free, C09 frame in terms of file contents; 6b make_dir (order of block
   numbers only); 7 examples; 8 assumptions.
   The chain statements are about the FIRST FAT copy (the one next_cluster reads, PrDir.chain_of);
   the second copy is described entry by entry: it reads as the first copy did at the same or
   at the previous FAT update (never ahead, at most one update behind), so it passes through
   the same stages. *)
From Coq Require Import NArith ZArith List Bool Lia Arith ZifyClasses ZifyInst Zify FMapPositive.
From SdFs Require Import FsTypes FsBase FsFat FsMgr FsLemmas PrBase PrFat PrAlloc PrDir PrAllocEffect PrChain.
From SdFs Require PrRw PrOrder.
Import ListNotations.
Open Scope N_scope.
Local Arguments N.mul : simpl never.
Local Arguments N.add : simpl never.
Local Arguments N.sub : simpl never.
Local Arguments N.div : simpl never.
Local Arguments N.modulo : simpl never.
Local Arguments N.land : simpl never.
Local Arguments N.lor : simpl never.
Local Ltac Zify.zify_post_hook ::= Z.to_euclidean_division_equations.

(* ================================================================== 1. prefix disks *)
(* the medium after the first k writes of ws (oldest first) *)
Definition prefix_disk (ws : list (N * block)) (k : nat) (d : disk) : disk :=
  apply_ws (firstn k ws) d.

Lemma prefix_disk_0 ws d : prefix_disk ws 0 d = d.
Proof. reflexivity. Qed.

Lemma prefix_disk_all ws d : prefix_disk ws (length ws) d = apply_ws ws d.
Proof. unfold prefix_disk. rewrite firstn_all. reflexivity. Qed.

Lemma prefix_disk_ge ws k d : (length ws <= k)%nat -> prefix_disk ws k d = apply_ws ws d.
Proof. intros H. unfold prefix_disk. rewrite firstn_all2 by exact H. reflexivity. Qed.

(* the prefix disks are exactly the successive states of the device: one more write is one
   more disk_set *)
Lemma prefix_disk_step ws k d i b : nth_error ws k = Some (i, b) ->
  prefix_disk ws (S k) d = disk_set (prefix_disk ws k d) i b.
Proof.
  unfold prefix_disk. revert k d. induction ws as [|w ws IH]; intros [|k] d H; cbn in H; try discriminate.
  - inversion H; subst w. destruct ws; reflexivity.
  - cbn [firstn]. unfold apply_ws in *. cbn [fold_left]. apply IH. exact H.
Qed.

Lemma apply_ws_cons w ws d : apply_ws (w :: ws) d = apply_ws ws (disk_set d (fst w) (snd w)).
Proof. reflexivity. Qed.

(* a block that none of the writes targets is unchanged *)
Lemma apply_ws_other ws : forall d j, ~ In j (map fst ws) -> disk_get (apply_ws ws d) j = disk_get d j.
Proof.
  induction ws as [|w ws IH]; intros d j H; [reflexivity|].
  rewrite apply_ws_cons, IH.
  - apply disk_get_set_other. intros E. apply H. left. exact E.
  - intros Hin. apply H. right. exact Hin.
Qed.

Lemma firstn_In {A} (l : list A) : forall k x, In x (firstn k l) -> In x l.
Proof.
  induction l as [|a l IH]; intros [|k] x H; cbn in H; try contradiction.
  destruct H as [->|H]; [left; reflexivity|right; exact (IH k x H)].
Qed.

Lemma prefix_disk_other ws k d j :
  ~ In j (map fst (firstn k ws)) -> disk_get (prefix_disk ws k d) j = disk_get d j.
Proof. apply apply_ws_other. Qed.

Lemma prefix_disk_untouched ws k d j :
  ~ In j (map fst ws) -> disk_get (prefix_disk ws k d) j = disk_get d j.
Proof.
  intros H. apply prefix_disk_other. intros Hin. apply H.
  apply in_map_iff in Hin. destruct Hin as (w & E & Hw). apply in_map_iff. exists w.
  split; [exact E|exact (firstn_In _ _ _ Hw)].
Qed.

(* the value of a block after a list of writes depends only on its value before *)
Lemma apply_ws_get ws : forall d e j, disk_get d j = disk_get e j ->
  disk_get (apply_ws ws d) j = disk_get (apply_ws ws e) j.
Proof.
  induction ws as [|w ws IH]; intros d e j H; [exact H|].
  rewrite !apply_ws_cons. apply IH.
  destruct (N.eq_dec (fst w) j) as [<-|Hne].
  - rewrite !disk_get_set_same. reflexivity.
  - rewrite !disk_get_set_other by exact Hne. exact H.
Qed.

(* writes of one constant block *)
Lemma apply_ws_const b l : forall d j, In j l ->
  disk_get (apply_ws (map (fun i => (i, b)) l) d) j = b.
Proof.
  induction l as [|i l IH]; intros d j H; [contradiction|].
  cbn [map]. rewrite apply_ws_cons. cbn [fst snd].
  destruct (in_dec N.eq_dec j l) as [Hin|Hni]; [apply IH; exact Hin|].
  rewrite apply_ws_other.
  - destruct H as [->|H]; [apply disk_get_set_same|contradiction].
  - rewrite map_map. cbn [fst]. rewrite map_id. exact Hni.
Qed.

Lemma prefix_disk_app_l w1 w2 k d : (k <= length w1)%nat ->
  prefix_disk (w1 ++ w2) k d = prefix_disk w1 k d.
Proof.
  intros H. unfold prefix_disk. rewrite firstn_app.
  replace (k - length w1)%nat with 0%nat by lia. cbn [firstn]. rewrite app_nil_r. reflexivity.
Qed.

Lemma prefix_disk_app_r w1 w2 k d : (length w1 <= k)%nat ->
  prefix_disk (w1 ++ w2) k d = prefix_disk w2 (k - length w1) (apply_ws w1 d).
Proof.
  intros H. unfold prefix_disk. rewrite firstn_app, apply_ws_app.
  rewrite (firstn_all2 w1) by exact H. reflexivity.
Qed.

(* crash_disks: the three general facts together *)
Theorem crash_disks ws d :
  prefix_disk ws 0 d = d /\
  prefix_disk ws (length ws) d = apply_ws ws d /\
  (forall k i b, nth_error ws k = Some (i, b) ->
     prefix_disk ws (S k) d = disk_set (prefix_disk ws k d) i b) /\
  (forall k j, ~ In j (map fst (firstn k ws)) -> disk_get (prefix_disk ws k d) j = disk_get d j).
Proof.
  split; [apply prefix_disk_0|]. split; [apply prefix_disk_all|].
  split; [intros k i b; apply prefix_disk_step|intros k j; apply prefix_disk_other].
Qed.

(* a crash during an operation whose writes are ws (tr_ext) after k of them leaves
   prefix_disk ws k (s_disk s); with k = length ws this is the disk of the final state *)
Lemma tr_ext_prefix_final s s' ws : tr_ext s s' ws -> prefix_disk ws (length ws) (s_disk s) = s_disk s'.
Proof. intros T. rewrite prefix_disk_all. symmetry. exact (tr_ext_disk _ _ _ T). Qed.

(* ================================================================== 2. FAT updates and data writes *)
Definition fat_len_ok (v : vol) (fsz : N) (d : disk) : Prop :=
  forall k, k < fsz -> length (disk_get d (fat_copy_sector v 0 k)) = 512%nat.
(* entry c' lies inside the FAT *)
Definition in_fat (v : vol) (fsz c' : N) : Prop := (c' * fat_width v) / 512 < fsz.
(* block j is no sector of either FAT copy *)
Definition non_fat (v : vol) (fsz j : N) : Prop := forall cp k, k < fsz -> j <> fat_copy_sector v cp k.

(* the device writes of one update_fat (entry y := x) on a device whose contents are d *)
Definition upd_ws (v : vol) (d : disk) (y x : N) : list (N * block) :=
  map (fun i => (i, fat_put_block v (disk_get d (fat_sector v 0 y)) y x)) (fat_writes v y).

Lemma sec_inj v cp k k' : fat_copy_sector v cp k = fat_copy_sector v cp k' -> k = k'.
Proof. unfold fat_copy_sector. lia. Qed.

Lemma sec01_ne v fsz sf k k' : fat_layout v fsz -> v_second_fat v = Some sf -> k < fsz ->
  fat_copy_sector v 0 k <> fat_copy_sector v 1 k'.
Proof.
  intros L E Hk. pose proof (fl_geom v fsz L sf E) as Hg.
  unfold fat_copy_sector, fat_copy_start. change (0 =? 0) with true. change (1 =? 0) with false.
  cbv iota. rewrite E. lia.
Qed.

Lemma sec1_none v k : v_second_fat v = None -> fat_copy_sector v 1 k = fat_copy_sector v 0 k.
Proof. intros E. unfold fat_copy_sector, fat_copy_start. rewrite E. reflexivity. Qed.

Lemma mirrored_none v fsz d : v_second_fat v = None -> fat_mirrored d v fsz.
Proof. intros E k _. rewrite (sec1_none v k E). reflexivity. Qed.

(* the disk after the complete update *)
Lemma full_step_get v d y x j :
  disk_get (apply_ws (upd_ws v d y x) d) j =
  if (j =? fat_sector v 0 y) || (j =? fat_sector v 1 y)
  then fat_put_block v (disk_get d (fat_sector v 0 y)) y x else disk_get d j.
Proof.
  unfold upd_ws, fat_writes.
  destruct (v_second_fat v) as [sf|] eqn:E.
  - cbn [map]. rewrite !apply_ws_cons. cbn [fst snd]. unfold apply_ws. cbn [fold_left].
    destruct (N.eqb_spec j (fat_sector v 1 y)) as [->|H1].
    + rewrite orb_true_r. apply disk_get_set_same.
    + rewrite orb_false_r. rewrite disk_get_set_other by congruence.
      destruct (N.eqb_spec j (fat_sector v 0 y)) as [->|H0].
      * apply disk_get_set_same.
      * apply disk_get_set_other. congruence.
  - rewrite (fat_sector_1_none v y E). rewrite orb_diag.
    cbn [map]. rewrite !apply_ws_cons. cbn [fst snd]. unfold apply_ws. cbn [fold_left].
    destruct (N.eqb_spec j (fat_sector v 0 y)) as [->|H0].
    + apply disk_get_set_same.
    + apply disk_get_set_other. congruence.
Qed.

(* the first copy after its sector has been written (whatever happened to other blocks) *)
Lemma half_step v fsz d d' y x c' :
  fat_layout v fsz -> fat_len_ok v fsz d -> in_fat v fsz y ->
  disk_get d' (fat_sector v 0 y) = fat_put_block v (disk_get d (fat_sector v 0 y)) y x ->
  (fat_sector v 0 c' <> fat_sector v 0 y ->
     disk_get d' (fat_sector v 0 c') = disk_get d (fat_sector v 0 c')) ->
  fat_get d' v 0 c' = if c' =? y then enc v x else fat_get d v 0 c'.
Proof.
  intros L Hlen Hy Hs Ho.
  assert (Hl : length (disk_get d (fat_sector v 0 y)) = 512%nat) by (apply Hlen; exact Hy).
  unfold fat_get.
  destruct (N.eq_dec (fat_sector v 0 c') (fat_sector v 0 y)) as [Es|Ns].
  - rewrite Es, Hs. destruct (N.eqb_spec c' y) as [->|Hne].
    + apply fat_put_block_same. exact Hl.
    + apply fat_put_block_other; [exact Hl|exact Hne|]. apply (fat_sector_quot v 0). exact Es.
  - rewrite (Ho Ns). destruct (N.eqb_spec c' y) as [->|_]; [contradiction Ns; reflexivity|reflexivity].
Qed.

(* the complete update: entries of the first copy, all other blocks, lengths, mirror *)
Lemma full_step v fsz d y x :
  fat_layout v fsz -> fat_len_ok v fsz d -> in_fat v fsz y ->
  let d2 := apply_ws (upd_ws v d y x) d in
  (forall c', in_fat v fsz c' ->
     fat_get d2 v 0 c' = if c' =? y then enc v x else fat_get d v 0 c') /\
  (forall j, non_fat v fsz j -> disk_get d2 j = disk_get d j) /\
  fat_len_ok v fsz d2 /\
  (fat_mirrored d v fsz -> fat_mirrored d2 v fsz).
Proof.
  intros L Hlen Hy d2.
  assert (Hl : length (disk_get d (fat_sector v 0 y)) = 512%nat) by (apply Hlen; exact Hy).
  assert (H01 : forall k, k < fsz -> fat_copy_sector v 0 k <> fat_sector v 0 y ->
            (fat_copy_sector v 0 k =? fat_sector v 0 y) || (fat_copy_sector v 0 k =? fat_sector v 1 y) = false).
  { intros k Hk Hne. apply orb_false_iff. split; [apply N.eqb_neq; exact Hne|]. apply N.eqb_neq.
    destruct (v_second_fat v) as [sf|] eqn:E.
    - exact (sec01_ne v fsz sf k _ L E Hk).
    - rewrite (fat_sector_1_none v y E). exact Hne. }
  assert (Hthis : disk_get d2 (fat_sector v 0 y) = fat_put_block v (disk_get d (fat_sector v 0 y)) y x).
  { unfold d2. rewrite full_step_get, N.eqb_refl. reflexivity. }
  split; [|split; [|split]].
  - intros c' Hc'. apply (half_step v fsz d d2 y x c' L Hlen Hy Hthis).
    intros Hne. unfold d2. rewrite full_step_get.
    change (fat_sector v 0 c') with (fat_copy_sector v 0 ((c' * fat_width v) / 512)) at 1 2.
    rewrite (H01 _ Hc' Hne). reflexivity.
  - intros j Hj. unfold d2. rewrite full_step_get.
    replace ((j =? fat_sector v 0 y) || (j =? fat_sector v 1 y)) with false; [reflexivity|].
    symmetry. apply orb_false_iff. split; apply N.eqb_neq; apply Hj; exact Hy.
  - intros k Hk. destruct (N.eq_dec (fat_copy_sector v 0 k) (fat_sector v 0 y)) as [E|Hne].
    + rewrite E, Hthis. apply fat_put_block_length. exact Hl.
    + unfold d2. rewrite full_step_get, (H01 k Hk Hne). apply Hlen. exact Hk.
  - intros Hm k Hk. unfold d2. rewrite !full_step_get.
    destruct (v_second_fat v) as [sf|] eqn:E; [|rewrite (sec1_none v k E); reflexivity].
    destruct (N.eq_dec k ((y * fat_width v) / 512)) as [->|Hne].
    + change (fat_copy_sector v 1 ((y * fat_width v) / 512)) with (fat_sector v 1 y).
      change (fat_copy_sector v 0 ((y * fat_width v) / 512)) with (fat_sector v 0 y).
      rewrite !N.eqb_refl, orb_true_r. reflexivity.
    + rewrite (H01 k Hk) by (intros E0; apply Hne; exact (sec_inj v 0 _ _ E0)).
      replace ((fat_copy_sector v 1 k =? fat_sector v 0 y) || (fat_copy_sector v 1 k =? fat_sector v 1 y))
        with false; [apply Hm; exact Hk|].
      symmetry. apply orb_false_iff. split; apply N.eqb_neq.
      * intros E1. exact (sec01_ne v fsz sf _ k L E Hy (eq_sym E1)).
      * intros E1. apply Hne. exact (sec_inj v 1 _ _ E1).
Qed.

(* ---- data writes: no FAT sector is touched ---- *)
Definition fat_agree (v : vol) (fsz : N) (d' d : disk) : Prop :=
  forall cp k, k < fsz -> disk_get d' (fat_copy_sector v cp k) = disk_get d (fat_copy_sector v cp k).

Lemma agree_get v fsz d' d cp c' : fat_agree v fsz d' d -> in_fat v fsz c' ->
  fat_get d' v cp c' = fat_get d v cp c'.
Proof. intros A Hc. unfold fat_get, fat_sector. rewrite (A cp _ Hc). reflexivity. Qed.

Lemma agree_len v fsz d' d : fat_agree v fsz d' d -> fat_len_ok v fsz d -> fat_len_ok v fsz d'.
Proof. intros A H k Hk. rewrite (A 0 k Hk). apply H. exact Hk. Qed.

Lemma agree_mirror v fsz d' d : fat_agree v fsz d' d -> fat_mirrored d v fsz -> fat_mirrored d' v fsz.
Proof. intros A H k Hk. rewrite (A 1 k Hk), (A 0 k Hk). apply H. exact Hk. Qed.

Definition data_only (v : vol) (fsz : N) (ws : list (N * block)) : Prop :=
  Forall (fun p => non_fat v fsz (fst p)) ws.

Lemma data_only_firstn v fsz ws k : data_only v fsz ws -> data_only v fsz (firstn k ws).
Proof.
  unfold data_only. rewrite !Forall_forall. intros H x Hx. apply H. exact (firstn_In _ _ _ Hx).
Qed.

Lemma data_step v fsz ws d : data_only v fsz ws -> fat_agree v fsz (apply_ws ws d) d.
Proof.
  intros H cp k Hk. apply apply_ws_other. intros Hin.
  apply in_map_iff in Hin. destruct Hin as (w & E & Hw).
  unfold data_only in H. rewrite Forall_forall in H. exact (H w Hw cp k Hk E).
Qed.

(* ---- an operation as a sequence of FAT updates and data writes ---- *)
Inductive wop := WFat (y x : N) | WData (ws : list (N * block)).

(* its device writes, oldest first, on a device whose contents are d before the first *)
Fixpoint op_ws (v : vol) (d : disk) (ops : list wop) : list (N * block) :=
  match ops with
  | [] => []
  | WFat y x :: tl => upd_ws v d y x ++ op_ws v (apply_ws (upd_ws v d y x) d) tl
  | WData ws :: tl => ws ++ op_ws v (apply_ws ws d) tl
  end.

(* entry c' after the FAT updates among ops, when it was e before *)
Fixpoint ent_after (v : vol) (ops : list wop) (c' e : N) : N :=
  match ops with
  | [] => e
  | WFat y x :: tl => ent_after v tl c' (if c' =? y then enc v x else e)
  | WData _ :: tl => ent_after v tl c' e
  end.

(* the data writes among ops *)
Fixpoint data_ws (ops : list wop) : list (N * block) :=
  match ops with
  | [] => []
  | WFat _ _ :: tl => data_ws tl
  | WData ws :: tl => ws ++ data_ws tl
  end.

Definition op_ok (v : vol) (fsz : N) (o : wop) : Prop :=
  match o with WFat y _ => in_fat v fsz y | WData ws => data_only v fsz ws end.

(* THE SHAPE OF EVERY PREFIX.  After the first k writes of the operation, j1 of its steps are
   complete and at most one more is under way:
   - the first FAT copy reads as after j0 steps, j0 = j1, or j0 = j1 + 1 when step j1 is a FAT
     update whose first-copy sector has been written and whose second-copy sector has not;
   - the second FAT copy (when the copies were identical before) reads as after j1 steps: it
     is never ahead of the first copy and at most one update behind;
   - the blocks outside the FAT are as after the data writes of the j1 complete steps and a
     prefix ws' of the data writes of step j1. *)
Theorem crash_general v fsz : fat_layout v fsz -> forall ops d k,
  Forall (op_ok v fsz) ops -> fat_len_ok v fsz d ->
  let Dk := prefix_disk (op_ws v d ops) k d in
  exists j1 j0 ws',
    (j0 = j1 \/ (j0 = S j1 /\ exists y x, nth_error ops j1 = Some (WFat y x))) /\
    (j0 <= length ops)%nat /\
    (ws' = [] \/ (j0 = j1 /\ exists ws k', nth_error ops j1 = Some (WData ws) /\ ws' = firstn k' ws)) /\
    (forall c', in_fat v fsz c' ->
       fat_get Dk v 0 c' = ent_after v (firstn j0 ops) c' (fat_get d v 0 c')) /\
    (fat_mirrored d v fsz -> forall c', in_fat v fsz c' ->
       fat_get Dk v 1 c' = ent_after v (firstn j1 ops) c' (fat_get d v 0 c')) /\
    (forall j, non_fat v fsz j ->
       disk_get Dk j = disk_get (apply_ws (data_ws (firstn j1 ops) ++ ws') d) j) /\
    fat_len_ok v fsz Dk.
Proof.
  intros L. induction ops as [|o tl IH]; intros d k Hok Hlen Dk.
  - exists 0%nat, 0%nat, []. unfold Dk, prefix_disk. cbn [op_ws]. rewrite firstn_nil.
    split; [left; reflexivity|]. split; [cbn; lia|]. split; [left; reflexivity|].
    split; [intros c' _; reflexivity|]. split.
    { intros Hm c' Hc'. cbn [firstn ent_after]. destruct k; exact (proj1 (fat_mirrored_get _ _ _ _ Hm Hc')). }
    split; [intros j _; reflexivity|exact Hlen].
  - inversion Hok as [|? ? Ho Htl]; subst. destruct o as [y x|ws].
    + (* a FAT update *)
      cbn [op_ok] in Ho. cbn [op_ws] in Dk.
      destruct (full_step v fsz d y x L Hlen Ho) as (F1 & F2 & F3 & F4).
      set (w := upd_ws v d y x) in *. set (d2 := apply_ws w d) in *.
      destruct (le_lt_dec (length w) k) as [Hk|Hk].
      * (* the update is complete *)
        unfold Dk. rewrite (prefix_disk_app_r w _ k d Hk). fold d2.
        destruct (IH d2 (k - length w)%nat Htl F3) as (j1 & j0 & ws' & C1 & C2 & C3 & G0 & G1 & G2 & G3).
        exists (S j1), (S j0), ws'.
        split. { destruct C1 as [->|(-> & Hn)]; [left; reflexivity|right; split; [reflexivity|exact Hn]]. }
        split; [cbn [length]; lia|].
        split. { destruct C3 as [->|(-> & Hn)]; [left; reflexivity|right; split; [reflexivity|exact Hn]]. }
        split. { intros c' Hc'. cbn [firstn ent_after]. rewrite <- (F1 c' Hc'). exact (G0 c' Hc'). }
        split. { intros Hm c' Hc'. cbn [firstn ent_after]. rewrite <- (F1 c' Hc'). exact (G1 (F4 Hm) c' Hc'). }
        split; [|exact G3].
        intros j Hj. cbn [firstn data_ws]. rewrite (G2 j Hj). apply apply_ws_get. exact (F2 j Hj).
      * (* the update is under way *)
        unfold Dk. rewrite (prefix_disk_app_l w _ k d) by lia.
        assert (Hcases : k = 0%nat \/ (k = 1%nat /\ exists sf, v_second_fat v = Some sf)).
        { unfold w, upd_ws, fat_writes in Hk. rewrite map_length in Hk.
          destruct (v_second_fat v) as [sf|]; cbn [length] in Hk; [|left; lia].
          destruct k as [|[|k]]; [left; reflexivity|right; split; [reflexivity|exists sf; reflexivity]|lia]. }
        destruct Hcases as [->|(-> & sf & Esf)].
        -- exists 0%nat, 0%nat, []. rewrite prefix_disk_0.
           split; [left; reflexivity|]. split; [cbn; lia|]. split; [left; reflexivity|].
           split; [intros c' _; reflexivity|]. split.
           { intros Hm c' Hc'. exact (proj1 (fat_mirrored_get _ _ _ _ Hm Hc')). }
           split; [intros j _; reflexivity|exact Hlen].
        -- assert (Ed : prefix_disk w 1 d
                        = disk_set d (fat_sector v 0 y) (fat_put_block v (disk_get d (fat_sector v 0 y)) y x)).
           { unfold w, upd_ws, fat_writes. rewrite Esf. reflexivity. }
           rewrite Ed. clear Ed.
           exists 0%nat, 1%nat, [].
           split; [right; split; [reflexivity|exists y, x; reflexivity]|].
           split; [cbn [length]; lia|]. split; [left; reflexivity|].
           split.
           { intros c' Hc'. cbn [firstn ent_after].
             apply (half_step v fsz d _ y x c' L Hlen Ho); [apply disk_get_set_same|].
             intros Hne. apply disk_get_set_other. congruence. }
           split.
           { intros Hm c' Hc'. cbn [firstn ent_after]. unfold fat_get at 1.
             rewrite disk_get_set_other
               by (exact (sec01_ne v fsz sf _ ((c' * fat_width v) / 512) L Esf Ho)).
             exact (proj1 (fat_mirrored_get _ _ _ _ Hm Hc')). }
           split.
           { intros j Hj. cbn [firstn data_ws app]. apply disk_get_set_other.
             intros E. exact (Hj 0 _ Ho (eq_sym E)). }
           intros k0 Hk0. destruct (N.eq_dec (fat_sector v 0 y) (fat_copy_sector v 0 k0)) as [E|Hne].
           ++ rewrite <- E, disk_get_set_same. apply fat_put_block_length. apply Hlen. exact Ho.
           ++ rewrite disk_get_set_other by exact Hne. apply Hlen. exact Hk0.
    + (* data writes *)
      cbn [op_ok] in Ho. cbn [op_ws] in Dk.
      destruct (le_lt_dec (length ws) k) as [Hk|Hk].
      * pose proof (data_step v fsz ws d Ho) as A.
        set (d2 := apply_ws ws d) in *.
        unfold Dk. rewrite (prefix_disk_app_r ws _ k d Hk). fold d2.
        destruct (IH d2 (k - length ws)%nat Htl (agree_len _ _ _ _ A Hlen))
          as (j1 & j0 & ws' & C1 & C2 & C3 & G0 & G1 & G2 & G3).
        exists (S j1), (S j0), ws'.
        split. { destruct C1 as [->|(-> & Hn)]; [left; reflexivity|right; split; [reflexivity|exact Hn]]. }
        split; [cbn [length]; lia|].
        split. { destruct C3 as [->|(-> & Hn)]; [left; reflexivity|right; split; [reflexivity|exact Hn]]. }
        split. { intros c' Hc'. cbn [firstn ent_after]. rewrite <- (agree_get _ _ _ _ 0 c' A Hc'). exact (G0 c' Hc'). }
        split. { intros Hm c' Hc'. cbn [firstn ent_after]. rewrite <- (agree_get _ _ _ _ 0 c' A Hc').
                 exact (G1 (agree_mirror _ _ _ _ A Hm) c' Hc'). }
        split; [|exact G3].
        intros j Hj. cbn [firstn data_ws]. rewrite (G2 j Hj). rewrite <- !app_assoc, (apply_ws_app ws). reflexivity.
      * unfold Dk. rewrite (prefix_disk_app_l ws _ k d) by lia.
        pose proof (data_step v fsz (firstn k ws) d (data_only_firstn _ _ _ k Ho)) as A.
        exists 0%nat, 0%nat, (firstn k ws).
        split; [left; reflexivity|]. split; [cbn; lia|].
        split; [right; split; [reflexivity|exists ws, k; split; reflexivity]|].
        split; [intros c' Hc'; exact (agree_get _ _ _ _ 0 c' A Hc')|].
        split.
        { intros Hm c' Hc'. cbn [firstn ent_after]. unfold prefix_disk. rewrite (agree_get _ _ _ _ 1 c' A Hc').
          exact (proj1 (fat_mirrored_get _ _ _ _ Hm Hc')). }
        split; [intros j _; reflexivity|exact (agree_len _ _ _ _ A Hlen)].
Qed.

(* ================================================================== 3. chains *)
(* the volume's cluster numbers are below the bad-cluster mark of its FAT type (FAT16: at most
   65525 entries, FAT32: at most 268435445), so a cluster number stored in an entry is a link *)
Definition fat_fits (v : vol) : Prop := v_clusters v + 2 <= fat_bad v.

Lemma chain_of_inv d v c f l : chain_of d v c (S f) = Some l ->
  2 <= c /\ c < v_clusters v + 2 /\ (fat_get d v 0 c =? fat_bad v) = false /\
  (((fat_eoc_min v <=? fat_get d v 0 c) = true /\ l = [c]) \/
   ((fat_eoc_min v <=? fat_get d v 0 c) = false /\
    exists l0, chain_of d v (fat_get d v 0 c) f = Some l0 /\ l = c :: l0)).
Proof.
  intros H. destruct (chain_of_head _ _ _ _ _ H) as (R1 & R2 & _).
  split; [exact R1|]. split; [exact R2|].
  cbn [chain_of] in H.
  destruct ((2 <=? c) && (c <? v_clusters v + 2)); [|discriminate]. cbv zeta in H.
  rewrite fat_entry_get in H.
  destruct (fat_get d v 0 c =? fat_bad v); [discriminate|]. split; [reflexivity|].
  destruct (fat_eoc_min v <=? fat_get d v 0 c).
  - left. split; [reflexivity|]. inversion H. reflexivity.
  - right. split; [reflexivity|].
    destruct (chain_of d v (fat_get d v 0 c) f) as [l0|]; [|discriminate].
    exists l0. split; [reflexivity|]. inversion H. reflexivity.
Qed.

Lemma chain_of_range_b v c : 2 <= c -> c < v_clusters v + 2 ->
  (2 <=? c) && (c <? v_clusters v + 2) = true.
Proof. intros H1 H2. apply andb_true_iff. split; [apply N.leb_le|apply N.ltb_lt]; assumption. Qed.

Lemma chain_of_end d v c f : 2 <= c -> c < v_clusters v + 2 ->
  (fat_get d v 0 c =? fat_bad v) = false -> (fat_eoc_min v <=? fat_get d v 0 c) = true ->
  chain_of d v c (S f) = Some [c].
Proof.
  intros H1 H2 Hb He. cbn [chain_of]. rewrite (chain_of_range_b v c H1 H2). cbv zeta.
  rewrite fat_entry_get, Hb, He. reflexivity.
Qed.

Lemma chain_of_link d v c f l0 : 2 <= c -> c < v_clusters v + 2 ->
  (fat_get d v 0 c =? fat_bad v) = false -> (fat_eoc_min v <=? fat_get d v 0 c) = false ->
  chain_of d v (fat_get d v 0 c) f = Some l0 -> chain_of d v c (S f) = Some (c :: l0).
Proof.
  intros H1 H2 Hb He Hn. cbn [chain_of]. rewrite (chain_of_range_b v c H1 H2). cbv zeta.
  rewrite fat_entry_get, Hb, He, Hn. reflexivity.
Qed.

(* what a defined chain guarantees: every cluster is a data cluster of the volume, its entry is
   neither free nor the bad mark, and no cluster repeats (no cycle) *)
Lemma chain_of_sound d v : forall f c l, chain_of d v c f = Some l ->
  forall x, In x l -> 2 <= x /\ x < v_clusters v + 2 /\
                      fat_get d v 0 x <> 0 /\ fat_get d v 0 x <> fat_bad v.
Proof.
  induction f as [|f IH]; intros c l H x Hx; [discriminate|].
  destruct (chain_of_inv _ _ _ _ _ H) as (R1 & R2 & Hb & Hcase).
  apply N.eqb_neq in Hb.
  destruct Hcase as [(He & ->)|(He & l0 & Hn & ->)].
  - destruct Hx as [<-|[]]. split; [exact R1|]. split; [exact R2|]. split; [|exact Hb].
    apply N.leb_le in He. unfold fat_eoc_min in He. destruct (v_fat32 v); lia.
  - destruct Hx as [<-|Hx]; [|exact (IH _ _ Hn x Hx)].
    split; [exact R1|]. split; [exact R2|]. split; [|exact Hb].
    destruct (chain_of_head _ _ _ _ _ Hn) as (N1 & _). lia.
Qed.

(* a free cluster is in no chain *)
Lemma free_not_in_chain d v c0 f l c : chain_of d v c0 f = Some l -> fat_get d v 0 c = 0 -> ~ In c l.
Proof. intros H Hz Hin. destruct (chain_of_sound d v f c0 l H c Hin) as (_ & _ & Hnz & _). contradiction. Qed.

(* the last cluster of a chain holds an end-of-chain value *)
Lemma chain_last_eoc d v : forall f c0 pre p, chain_of d v c0 f = Some (pre ++ [p]) ->
  (fat_eoc_min v <=? fat_get d v 0 p) = true.
Proof.
  induction f as [|f IH]; intros c0 pre p H; [discriminate|].
  destruct (chain_of_inv _ _ _ _ _ H) as (_ & _ & _ & Hcase).
  destruct Hcase as [(He & E)|(He & l0 & Hn & E)].
  - destruct pre as [|a [|b pre]]; cbn in E; inversion E; subst. exact He.
  - destruct pre as [|a pre]; cbn in E; inversion E; subst.
    + destruct (chain_of_head _ _ _ _ _ Hn) as (_ & _ & l' & El). discriminate El.
    + exact (IH _ _ _ Hn).
Qed.

(* appending a cluster: when the entries of the chain's clusters but the last are unchanged,
   the last one links to c and c holds an end-of-chain value, the chain is the old one
   followed by c *)
Lemma chain_extend d d' v c : 2 <= c -> c < v_clusters v + 2 -> fat_fits v ->
  (fat_get d' v 0 c =? fat_bad v) = false -> (fat_eoc_min v <=? fat_get d' v 0 c) = true ->
  forall f c0 pre p, chain_of d v c0 f = Some (pre ++ [p]) ->
  (forall x, In x pre -> fat_get d' v 0 x = fat_get d v 0 x) ->
  fat_get d' v 0 p = c ->
  chain_of d' v c0 (S f) = Some (pre ++ [p; c]).
Proof.
  intros C1 C2 Hfit Hcb Hce.
  assert (Hlb : (c =? fat_bad v) = false) by (apply N.eqb_neq; unfold fat_fits in Hfit; lia).
  assert (Hle : (fat_eoc_min v <=? c) = false).
  { apply N.leb_gt. unfold fat_fits, fat_bad in Hfit. unfold fat_eoc_min. destruct (v_fat32 v); lia. }
  induction f as [|f IH]; intros c0 pre p H Hsame Hp; [discriminate|].
  destruct (chain_of_inv _ _ _ _ _ H) as (R1 & R2 & Hb & Hcase).
  destruct Hcase as [(He & E)|(He & l0 & Hn & E)].
  - destruct pre as [|a [|b pre]]; cbn in E; inversion E as [Ep]. subst p. cbn [app].
    apply chain_of_link; try assumption; rewrite Hp; try assumption.
    apply chain_of_end; assumption.
  - destruct pre as [|a pre]; cbn in E; injection E as Ea0 El0.
    { subst l0. destruct (chain_of_head _ _ _ _ _ Hn) as (_ & _ & l' & El). discriminate El. }
    subst a l0.
    assert (Ea : fat_get d' v 0 c0 = fat_get d v 0 c0) by (apply Hsame; left; reflexivity).
    cbn [app]. apply chain_of_link; try assumption; rewrite Ea; try assumption.
    apply (IH _ pre p).
    + exact Hn.
    + intros x Hx. apply Hsame. right. exact Hx.
    + exact Hp.
Qed.

(* a chain of one cluster *)
Lemma chain_single d v c : 2 <= c -> c < v_clusters v + 2 ->
  (fat_get d v 0 c =? fat_bad v) = false -> (fat_eoc_min v <=? fat_get d v 0 c) = true ->
  chain_of d v c 1 = Some [c].
Proof. apply chain_of_end. Qed.

Lemma eof_is_end v : (enc v CL_EOF =? fat_bad v) = false /\ (fat_eoc_min v <=? enc v CL_EOF) = true.
Proof. rewrite enc_eof. unfold fat_bad, fat_eoc_min. destruct (v_fat32 v); split; reflexivity. Qed.

(* in a chain that contains c, either c is its first cluster or some cluster of it links to c *)
Lemma chain_reaches d v c : forall f c1 l, chain_of d v c1 f = Some l -> In c l ->
  c1 = c \/ exists x, In x l /\ fat_get d v 0 x = c.
Proof.
  induction f as [|f IH]; intros c1 l H Hin; [discriminate|].
  destruct (chain_of_inv _ _ _ _ _ H) as (_ & _ & _ & Hcase).
  destruct Hcase as [(_ & ->)|(_ & l0 & Hn & ->)].
  - destruct Hin as [->|[]]. left. reflexivity.
  - destruct Hin as [->|Hin]; [left; reflexivity|]. right.
    destruct (IH _ _ Hn Hin) as [E|(x & Hx & Ex)].
    + exists c1. split; [left; reflexivity|exact E].
    + exists x. split; [right; exact Hx|exact Ex].
Qed.

(* ================================================================== 4. alloc_cluster *)
(* ---- general frame: a block outside the FAT that no data write targets is unchanged ---- *)
Lemma data_ws_firstn_In ops : forall j w, In w (data_ws (firstn j ops)) -> In w (data_ws ops).
Proof.
  induction ops as [|o tl IH]; intros [|j] w H; cbn in H; try contradiction.
  destruct o as [y x|ws]; cbn [data_ws] in *.
  - exact (IH j w H).
  - apply in_app_iff in H. apply in_app_iff. destruct H as [H|H]; [left; exact H|right; exact (IH j w H)].
Qed.

Lemma data_ws_nth_In ops : forall j ws w, nth_error ops j = Some (WData ws) -> In w ws -> In w (data_ws ops).
Proof.
  induction ops as [|o tl IH]; intros [|j] ws w H Hw; cbn in H; try discriminate.
  - inversion H; subst o. cbn [data_ws]. apply in_app_iff. left. exact Hw.
  - destruct o as [y x|ws0]; cbn [data_ws]; [exact (IH j ws w H Hw)|].
    apply in_app_iff. right. exact (IH j ws w H Hw).
Qed.

Lemma dw_sub ops j1 j0 ws' :
  (ws' = [] \/ (j0 = j1 /\ exists ws k', nth_error ops j1 = Some (WData ws) /\ ws' = firstn k' ws)) ->
  forall w, In w (data_ws (firstn j1 ops) ++ ws') -> In w (data_ws ops).
Proof.
  intros C w H. apply in_app_iff in H. destruct H as [H|H]; [exact (data_ws_firstn_In _ _ _ H)|].
  destruct C as [->|(_ & ws & k' & Hn & ->)]; [contradiction|].
  exact (data_ws_nth_In _ _ _ _ Hn (firstn_In _ _ _ H)).
Qed.

Theorem crash_frame v fsz ops d k j : fat_layout v fsz ->
  Forall (op_ok v fsz) ops -> fat_len_ok v fsz d ->
  non_fat v fsz j -> ~ In j (map fst (data_ws ops)) ->
  disk_get (prefix_disk (op_ws v d ops) k d) j = disk_get d j.
Proof.
  intros L Hok Hlen Hj Hni.
  destruct (crash_general v fsz L ops d k Hok Hlen) as (j1 & j0 & ws' & _ & _ & C3 & _ & _ & G2 & _).
  rewrite (G2 j Hj). apply apply_ws_other. intros Hin.
  apply in_map_iff in Hin. destruct Hin as (w & E & Hw). apply Hni. apply in_map_iff.
  exists w. split; [exact E|exact (dw_sub ops j1 j0 ws' C3 w Hw)].
Qed.

(* ---- the blocks of a cluster ---- *)
Lemma blocks_from_In n : forall i x, In x (blocks_from n i) <-> i <= x /\ x < i + N.of_nat n.
Proof.
  induction n as [|n IH]; intros i x; cbn [blocks_from In].
  - split; [intros []|lia].
  - rewrite IH. lia.
Qed.

Lemma cluster_blocks_In v c x : In x (cluster_blocks v c) <-> in_cluster v c x.
Proof. unfold cluster_blocks, in_cluster. rewrite blocks_from_In, N2Nat.id. reflexivity. Qed.

Lemma cluster_block_non_fat v fsz c x : fat_layout v fsz -> 2 <= c ->
  In x (cluster_blocks v c) -> non_fat v fsz x.
Proof.
  intros L Hc Hx cp k Hk E. apply cluster_blocks_In in Hx.
  apply (fat_not_in_cluster v fsz cp k c L Hk Hc). rewrite <- E. exact Hx.
Qed.

(* blocks of distinct data clusters are distinct *)
Lemma cluster_blocks_apart v c1 c2 x : c1 <> c2 -> 2 <= c1 -> 2 <= c2 ->
  In x (cluster_blocks v c1) -> ~ In x (cluster_blocks v c2).
Proof.
  intros Hne H1 H2 X1 X2. apply cluster_blocks_In in X1. apply cluster_blocks_In in X2.
  destruct X1 as [A1 A2]. destruct X2 as [B1 B2]. unfold cluster_first_block in *.
  apply (cluster_blocks_disjoint v c1 c2 (x - (v_lba v + v_first_data v + (c1 - 2) * v_spc v))
                                       (x - (v_lba v + v_first_data v + (c2 - 2) * v_spc v)) Hne H1 H2).
  - remember ((c1 - 2) * v_spc v) as X. lia.
  - remember ((c2 - 2) * v_spc v) as X. lia.
  - remember ((c1 - 2) * v_spc v) as X. remember ((c2 - 2) * v_spc v) as Y. lia.
Qed.

(* ---- alloc_cluster as a sequence of steps ---- *)
Definition zero_ws (v : vol) (c : N) (zero : bool) : list (N * block) :=
  if zero then map (fun i => (i, zero_block)) (cluster_blocks v c) else [].

Definition alloc_ops (v : vol) (c : N) (prev : option N) (zero : bool) : list wop :=
  WFat c CL_EOF :: WData (zero_ws v c zero) ::
  match prev with Some p => [WFat p c] | None => [] end.

Lemma zero_ws_targets v c zero w : In w (zero_ws v c zero) -> In (fst w) (cluster_blocks v c) /\ snd w = zero_block.
Proof.
  unfold zero_ws. destruct zero; [|intros []]. intros H. apply in_map_iff in H.
  destruct H as (i & <- & Hi). split; [exact Hi|reflexivity].
Qed.

Lemma zero_ws_data_only v fsz c zero : fat_layout v fsz -> 2 <= c -> data_only v fsz (zero_ws v c zero).
Proof.
  intros L Hc. unfold data_only. rewrite Forall_forall. intros w Hw.
  exact (cluster_block_non_fat v fsz c _ L Hc (proj1 (zero_ws_targets v c zero w Hw))).
Qed.

Lemma alloc_ops_ok v fsz c prev zero : fat_layout v fsz -> 2 <= c -> in_fat v fsz c ->
  (forall p, prev = Some p -> in_fat v fsz p) -> Forall (op_ok v fsz) (alloc_ops v c prev zero).
Proof.
  intros L Hc Hq Hp. unfold alloc_ops.
  constructor; [exact Hq|]. constructor; [exact (zero_ws_data_only v fsz c zero L Hc)|].
  destruct prev as [p|]; [|constructor]. constructor; [exact (Hp p eq_refl)|constructor].
Qed.

(* the second FAT image of PrAllocEffect is the update of the sector as it is on the medium
   after the first update and the zeroing *)
Lemma alloc_nb2_eq v fsz D c p zero : fat_layout v fsz -> 2 <= c -> in_fat v fsz c -> in_fat v fsz p ->
  alloc_nb2 v D c p =
  fat_put_block v (disk_get (apply_ws (zero_ws v c zero) (apply_ws (upd_ws v D c CL_EOF) D))
                            (fat_sector v 0 p)) p c.
Proof.
  intros L Hc Hq Hp. unfold alloc_nb2. f_equal.
  pose proof (data_step v fsz (zero_ws v c zero) (apply_ws (upd_ws v D c CL_EOF) D)
                (zero_ws_data_only v fsz c zero L Hc) 0 _ Hp) as A.
  change (fat_copy_sector v 0 ((p * fat_width v) / 512)) with (fat_sector v 0 p) in A.
  rewrite A, full_step_get. fold (alloc_nb1 v D c).
  destruct (N.eqb_spec (fat_sector v 0 p) (fat_sector v 0 c)) as [E0|N0]; [reflexivity|].
  cbn [orb].
  destruct (v_second_fat v) as [sf|] eqn:E.
  - destruct (N.eqb_spec (fat_sector v 0 p) (fat_sector v 1 c)) as [E1|_]; [|reflexivity].
    exfalso. exact (sec01_ne v fsz sf _ _ L E Hp E1).
  - rewrite (fat_sector_1_none v c E). destruct (N.eqb_spec (fat_sector v 0 p) (fat_sector v 0 c)); [contradiction|reflexivity].
Qed.

(* the write list of PrAllocEffect is the write list of these steps *)
Lemma alloc_writes_ops v fsz D prev zero c : fat_layout v fsz -> 2 <= c -> in_fat v fsz c ->
  (forall p, prev = Some p -> in_fat v fsz p) ->
  alloc_writes v D prev zero c = op_ws v D (alloc_ops v c prev zero).
Proof.
  intros L Hc Hq Hp. unfold alloc_writes, alloc_ops. cbn [op_ws].
  change (map (fun i => (i, alloc_nb1 v D c)) (fat_writes v c)) with (upd_ws v D c CL_EOF).
  f_equal. fold (zero_ws v c zero). f_equal.
  destruct prev as [p|]; [|reflexivity]. cbn [op_ws]. rewrite app_nil_r.
  unfold upd_ws at 2. apply map_ext. intros i. f_equal.
  exact (alloc_nb2_eq v fsz D c p zero L Hc Hq (Hp p eq_refl)).
Qed.

(* ---- the three stages of the FAT during alloc_cluster ---- *)
(* stage 0: nothing written; stage 1: c marked end-of-chain; stage 2: prev linked to c *)
Definition alloc_stage (v : vol) (D : disk) (c : N) (prev : option N) (n : nat) (x : N) : N :=
  match n with
  | O => fat_get D v 0 x
  | S O => if x =? c then enc v CL_EOF else fat_get D v 0 x
  | _ => match prev with
         | Some p => if x =? p then enc v c else if x =? c then enc v CL_EOF else fat_get D v 0 x
         | None => if x =? c then enc v CL_EOF else fat_get D v 0 x
         end
  end.

Definition stage_of (j : nat) : nat :=
  match j with O => 0 | S O => 1 | S (S O) => 1 | _ => 2 end.

Lemma alloc_ops_stage v D c prev zero j x :
  ent_after v (firstn j (alloc_ops v c prev zero)) x (fat_get D v 0 x)
  = alloc_stage v D c prev (stage_of j) x.
Proof.
  unfold alloc_ops. destruct prev as [p|]; destruct j as [|[|[|[|j]]]]; reflexivity.
Qed.

(* EVERY PREFIX of the writes of a successful alloc_cluster, at the level of FAT entries and
   blocks: the first copy is at stage n0, the second copy (if the copies were identical) at
   stage n1, never ahead and at most one update behind; when the link prev -> c is on the
   medium (stage 2) and zeroing was asked for, every block of c is zero; blocks outside the
   FAT and outside cluster c are unchanged *)
Theorem alloc_prefix_fat v fsz D prev zero c k :
  fat_layout v fsz -> fat_len_ok v fsz D -> 2 <= c -> in_fat v fsz c ->
  (forall p, prev = Some p -> in_fat v fsz p) ->
  let Dk := prefix_disk (alloc_writes v D prev zero c) k D in
  exists n0 n1,
    (n1 <= n0 /\ n0 <= n1 + 1)%nat /\ (n0 <= 2)%nat /\ (prev = None -> (n0 <= 1)%nat) /\
    (forall x, in_fat v fsz x -> fat_get Dk v 0 x = alloc_stage v D c prev n0 x) /\
    (fat_mirrored D v fsz -> forall x, in_fat v fsz x -> fat_get Dk v 1 x = alloc_stage v D c prev n1 x) /\
    (n0 = 2%nat -> zero = true -> forall b, In b (cluster_blocks v c) -> disk_get Dk b = zero_block) /\
    (forall j, non_fat v fsz j -> ~ In j (cluster_blocks v c) -> disk_get Dk j = disk_get D j) /\
    (zero = false -> forall j, non_fat v fsz j -> disk_get Dk j = disk_get D j) /\
    fat_len_ok v fsz Dk.
Proof.
  intros L Hlen Hc Hq Hp Dk.
  pose proof (alloc_ops_ok v fsz c prev zero L Hc Hq Hp) as Hok.
  unfold Dk. rewrite (alloc_writes_ops v fsz D prev zero c L Hc Hq Hp).
  destruct (crash_general v fsz L (alloc_ops v c prev zero) D k Hok Hlen)
    as (j1 & j0 & ws' & C1 & C2 & C3 & G0 & G1 & G2 & G3).
  exists (stage_of j0), (stage_of j1).
  assert (Hdata : forall w, In w (data_ws (firstn j1 (alloc_ops v c prev zero)) ++ ws') ->
            In (fst w) (cluster_blocks v c) /\ snd w = zero_block /\ zero = true).
  { intros w Hw. pose proof (dw_sub _ j1 j0 ws' C3 w Hw) as Hin.
    assert (Hz : In w (zero_ws v c zero)).
    { unfold alloc_ops in Hin. cbn [data_ws] in Hin. destruct prev; cbn [data_ws] in Hin;
        rewrite app_nil_r in Hin; exact Hin. }
    destruct (zero_ws_targets v c zero w Hz) as (T1 & T2). split; [exact T1|]. split; [exact T2|].
    unfold zero_ws in Hz. destruct zero; [reflexivity|contradiction]. }
  split.
  { destruct C1 as [->|(-> & _)]; destruct j1 as [|[|[|[|j1]]]]; cbn [stage_of]; lia. }
  split; [destruct j0 as [|[|[|[|j0]]]]; cbn [stage_of]; lia|].
  split.
  { intros ->. cbn [alloc_ops length] in C2. destruct j0 as [|[|[|j0]]]; cbn [stage_of]; lia. }
  split; [intros x Hx; rewrite (G0 x Hx); apply alloc_ops_stage|].
  split; [intros Hm x Hx; rewrite (G1 Hm x Hx); apply alloc_ops_stage|].
  split.
  { intros Hn Hz b Hb.
    rewrite (G2 b (cluster_block_non_fat v fsz c b L Hc Hb)).
    assert (Hj0 : (3 <= j0)%nat) by (destruct j0 as [|[|[|j0]]]; cbn [stage_of] in Hn; lia).
    assert (Hj1 : (2 <= j1)%nat) by (destruct C1 as [->|(-> & _)]; lia).
    assert (Hws : ws' = []).
    { destruct C3 as [->|(_ & ws & k' & Hnth & _)]; [reflexivity|]. exfalso.
      unfold alloc_ops in Hnth. destruct j1 as [|[|[|j1]]]; try lia; destruct prev; cbn in Hnth;
        try discriminate Hnth; destruct j1; discriminate Hnth. }
    subst ws'. rewrite app_nil_r.
    assert (Ed : data_ws (firstn j1 (alloc_ops v c prev zero)) = zero_ws v c zero).
    { unfold alloc_ops. destruct j1 as [|[|j1]]; try lia. cbn [firstn data_ws].
      destruct prev; destruct j1; cbn [firstn data_ws]; rewrite ?firstn_nil; cbn [data_ws];
        rewrite app_nil_r; reflexivity. }
    rewrite Ed. unfold zero_ws. rewrite Hz. apply apply_ws_const. exact Hb. }
  split.
  { intros j Hj Hni. rewrite (G2 j Hj). apply apply_ws_other. intros Hin.
    apply in_map_iff in Hin. destruct Hin as (w & E & Hw). apply Hni. rewrite <- E.
    exact (proj1 (Hdata w Hw)). }
  split; [|exact G3].
  intros Hz j Hj. rewrite (G2 j Hj). apply apply_ws_other. intros Hin.
  apply in_map_iff in Hin. destruct Hin as (w & E & Hw).
  destruct (Hdata w Hw) as (_ & _ & Hz'). congruence.
Qed.

(* ---- what each stage means for chains ---- *)
(* E is any medium whose first FAT copy is at stage n of an allocation of the free cluster c
   behind p, the last cluster of the chain pre ++ [p] *)
Lemma alloc_stage_chains v fsz D E c p pre c0 fuel n :
  fat_layout v fsz -> fat_fits v ->
  2 <= c -> c < v_clusters v + 2 -> fat_get D v 0 c = 0 ->
  chain_of D v c0 fuel = Some (pre ++ [p]) -> (n <= 2)%nat ->
  (forall x, in_fat v fsz x -> fat_get E v 0 x = alloc_stage v D c (Some p) n x) ->
  (* (a) chains that do not pass through p are untouched *)
  (forall c1 f1 ch1, chain_of D v c1 f1 = Some ch1 -> ~ In p ch1 -> chain_of E v c1 f1 = Some ch1) /\
  (* (b) the chain through p is the old one, or the old one followed by c *)
  ((n <= 1)%nat -> chain_of E v c0 fuel = Some (pre ++ [p])) /\
  (n = 2%nat -> chain_of E v c0 (S fuel) = Some (pre ++ [p; c])) /\
  (* (d) entry c; and the only entry that can newly refer to c is p's, at stage 2 *)
  (n = 0%nat -> fat_get E v 0 c = 0) /\
  ((1 <= n)%nat -> fat_get E v 0 c = enc v CL_EOF) /\
  (forall x, 2 <= x -> x < v_clusters v + 2 -> fat_get E v 0 x = c ->
     fat_get D v 0 x = c \/ (n = 2%nat /\ x = p)).
Proof.
  intros L Hfit C1 C2 Hfree Hch Hn HE.
  assert (HinF : forall x, x < v_clusters v + 2 -> in_fat v fsz x) by (intros x Hx; exact (layout_sector v fsz x L Hx)).
  pose proof (chain_of_sound D v fuel c0 _ Hch) as Hsound.
  assert (Hp : In p (pre ++ [p])) by (apply in_app_iff; right; left; reflexivity).
  destruct (Hsound p Hp) as (P1 & P2 & P3 & _).
  assert (Hpc : p <> c) by (intros ->; contradiction).
  assert (Hother : forall x, x < v_clusters v + 2 -> x <> c -> x <> p -> fat_get E v 0 x = fat_get D v 0 x).
  { intros x Hx N1 N2. rewrite (HE x (HinF x Hx)). unfold alloc_stage.
    apply N.eqb_neq in N1. apply N.eqb_neq in N2. destruct n as [|[|n]]; rewrite ?N1, ?N2; reflexivity. }
  assert (Hnotp : forall x, x < v_clusters v + 2 -> x <> c -> (n <= 1)%nat -> fat_get E v 0 x = fat_get D v 0 x).
  { intros x Hx N1 Hn1. rewrite (HE x (HinF x Hx)). unfold alloc_stage.
    apply N.eqb_neq in N1. destruct n as [|[|n]]; rewrite ?N1; try reflexivity. lia. }
  assert (Hcn : (1 <= n)%nat -> fat_get E v 0 c = enc v CL_EOF).
  { intros Hn1. rewrite (HE c (HinF c C2)). unfold alloc_stage.
    apply N.eqb_neq in Hpc. rewrite (N.eqb_sym c p), Hpc, N.eqb_refl. destruct n as [|[|n]]; [lia|reflexivity..]. }
  split; [|split; [|split; [|split; [|split]]]].
  - intros c1 f1 ch1 H1 Hni. apply (chain_of_frame D); [exact H1|].
    intros x Hx. destruct (chain_of_sound D v f1 c1 ch1 H1 x Hx) as (X1 & X2 & X3 & _).
    apply Hother; [exact X2| |]; intros ->; contradiction.
  - intros Hn1. apply (chain_of_frame D); [exact Hch|].
    intros x Hx. destruct (Hsound x Hx) as (X1 & X2 & X3 & _).
    apply Hnotp; [exact X2| |exact Hn1]. intros ->. contradiction.
  - intros ->. destruct (eof_is_end v) as (Eb & Ee).
    apply (chain_extend D E v c C1 C2 Hfit); [rewrite (Hcn ltac:(lia)); exact Eb|rewrite (Hcn ltac:(lia)); exact Ee|exact Hch| |].
    + intros x Hx. assert (Hx' : In x (pre ++ [p])) by (apply in_app_iff; left; exact Hx).
      destruct (Hsound x Hx') as (X1 & X2 & X3 & _).
      apply Hother; [exact X2|intros ->; contradiction|].
      intros ->. pose proof (chain_of_nodup D v fuel c0 _ Hch) as Hnd.
      apply NoDup_remove_2 in Hnd. apply Hnd. rewrite app_nil_r. exact Hx.
    + rewrite (HE p (HinF p P2)). unfold alloc_stage. rewrite N.eqb_refl.
      apply enc_cluster; [exact C2|]. unfold fat_fits, fat_bad in Hfit. destruct (v_fat32 v); lia.
  - intros ->. rewrite (HE c (HinF c C2)). exact Hfree.
  - exact Hcn.
  - intros x X1 X2 Ex.
    destruct (N.eq_dec x c) as [->|Nc].
    { exfalso. destruct n as [|n].
      - rewrite (HE c (HinF c C2)) in Ex. cbn [alloc_stage] in Ex. lia.
      - rewrite (Hcn ltac:(lia)), enc_eof in Ex. unfold fat_fits, fat_bad in Hfit. destruct (v_fat32 v); lia. }
    destruct (N.eq_dec x p) as [->|Np].
    + destruct (le_lt_dec n 1) as [Hn1|Hn1].
      * left. rewrite <- (Hnotp p X2 Nc Hn1). exact Ex.
      * right. split; [lia|reflexivity].
    + left. rewrite <- (Hother x X2 Nc Np). exact Ex.
Qed.

(* the same when the new cluster starts a chain (no previous cluster): stages 0 and 1 only *)
Lemma alloc_stage_chains_first v fsz D E c n :
  fat_layout v fsz -> fat_fits v ->
  2 <= c -> c < v_clusters v + 2 -> fat_get D v 0 c = 0 -> (n <= 1)%nat ->
  (forall x, in_fat v fsz x -> fat_get E v 0 x = alloc_stage v D c None n x) ->
  (forall c1 f1 ch1, chain_of D v c1 f1 = Some ch1 -> chain_of E v c1 f1 = Some ch1) /\
  (n = 0%nat -> fat_get E v 0 c = 0) /\
  (n = 1%nat -> fat_get E v 0 c = enc v CL_EOF /\ chain_of E v c 1 = Some [c]) /\
  (forall x, 2 <= x -> x < v_clusters v + 2 -> fat_get E v 0 x = c -> fat_get D v 0 x = c).
Proof.
  intros L Hfit C1 C2 Hfree Hn HE.
  assert (HinF : forall x, x < v_clusters v + 2 -> in_fat v fsz x) by (intros x Hx; exact (layout_sector v fsz x L Hx)).
  assert (Hother : forall x, x < v_clusters v + 2 -> x <> c -> fat_get E v 0 x = fat_get D v 0 x).
  { intros x Hx N1. rewrite (HE x (HinF x Hx)). unfold alloc_stage.
    apply N.eqb_neq in N1. destruct n as [|[|n]]; rewrite ?N1; reflexivity. }
  assert (Hc1 : n = 1%nat -> fat_get E v 0 c = enc v CL_EOF).
  { intros ->. rewrite (HE c (HinF c C2)). cbn [alloc_stage]. rewrite N.eqb_refl. reflexivity. }
  split; [|split; [|split]].
  - intros c1 f1 ch1 H1. apply (chain_of_frame D); [exact H1|].
    intros x Hx. destruct (chain_of_sound D v f1 c1 ch1 H1 x Hx) as (X1 & X2 & X3 & _).
    apply Hother; [exact X2|]. intros ->. contradiction.
  - intros ->. rewrite (HE c (HinF c C2)). exact Hfree.
  - intros E1. split; [exact (Hc1 E1)|]. destruct (eof_is_end v) as (Eb & Ee).
    apply chain_single; [exact C1|exact C2|rewrite (Hc1 E1); exact Eb|rewrite (Hc1 E1); exact Ee].
  - intros x X1 X2 Ex. destruct (N.eq_dec x c) as [->|Nc]; [|rewrite <- (Hother x X2 Nc); exact Ex].
    exfalso. destruct n as [|n].
    + rewrite (HE c (HinF c C2)) in Ex. cbn [alloc_stage] in Ex. lia.
    + rewrite (Hc1 ltac:(lia)), enc_eof in Ex. unfold fat_fits, fat_bad in Hfit. destruct (v_fat32 v); lia.
Qed.

(* ---- C10, alloc_cluster behind the last cluster p of a chain: EVERY prefix ---- *)
Lemma alloc_pre_disk s vi v fsz : alloc_pre s vi v fsz -> fat_layout v fsz /\ fat_len_ok v fsz (s_disk s).
Proof. intros ((_ & _ & _ & Hlen) & L & _). split; [exact L|exact Hlen]. Qed.

(* If the device stops accepting writes after any k block writes of a successful
   alloc_cluster vi (Some p) zero (p the last cluster of the chain pre ++ [p] starting at c0),
   the medium Dk satisfies, with n0 / n1 the stages of the two FAT copies:
   (a) every chain that does not pass through p is read exactly as before;
   (b) the chain through p is read as before (stage <= 1), or as before followed by c
       (stage 2) - never an error, never a cycle, never through a free, bad or out-of-range
       cluster (chain_of_sound for Dk);
   (c) in the second case, with zeroing, all blocks of c are zero: the cluster is zeroed
       BEFORE it becomes reachable;
   (d) entry c is 0 or end-of-chain; an in-range entry that refers to c either did so before
       the operation or is p's; a chain of Dk that contains c starts at c or contains p
       (given that no entry referred to the free cluster c before). *)
Theorem C10_alloc_prefix_chains vi v fsz p zero s c s' pre c0 fuel :
  alloc_pre s vi v fsz -> fat_fits v ->
  chain_of (s_disk s) v c0 fuel = Some (pre ++ [p]) ->
  alloc_cluster vi (Some p) zero s = (Ok c, s') ->
  let D := s_disk s in
  let ws := alloc_writes v D (Some p) zero c in
  tr_ext s s' ws /\
  2 <= c /\ c < v_clusters v + 2 /\ fat_get D v 0 c = 0 /\ ~ In c (pre ++ [p]) /\
  forall k, let Dk := prefix_disk ws k D in
  exists n0 n1,
    (n1 <= n0 /\ n0 <= n1 + 1 /\ n0 <= 2)%nat /\
    (forall x, in_fat v fsz x -> fat_get Dk v 0 x = alloc_stage v D c (Some p) n0 x) /\
    (fat_mirrored D v fsz ->
       forall x, in_fat v fsz x -> fat_get Dk v 1 x = alloc_stage v D c (Some p) n1 x) /\
    (* a *)
    (forall c1 f1 ch1, chain_of D v c1 f1 = Some ch1 -> ~ In p ch1 -> chain_of Dk v c1 f1 = Some ch1) /\
    (* b, c *)
    (((n0 <= 1)%nat /\ chain_of Dk v c0 fuel = Some (pre ++ [p])) \/
     (n0 = 2%nat /\ chain_of Dk v c0 (S fuel) = Some (pre ++ [p; c]) /\
      (zero = true -> forall b, In b (cluster_blocks v c) -> disk_get Dk b = zero_block))) /\
    (* d *)
    ((n0 = 0%nat /\ fat_get Dk v 0 c = 0) \/ ((1 <= n0)%nat /\ fat_get Dk v 0 c = enc v CL_EOF)) /\
    (forall x, 2 <= x -> x < v_clusters v + 2 -> fat_get Dk v 0 x = c ->
       fat_get D v 0 x = c \/ (n0 = 2%nat /\ x = p)) /\
    ((forall x, 2 <= x -> x < v_clusters v + 2 -> fat_get D v 0 x <> c) ->
     forall c1 f1 ch1, chain_of Dk v c1 f1 = Some ch1 -> In c ch1 -> c1 = c \/ (n0 = 2%nat /\ In p ch1)).
Proof.
  intros Hpre Hfit Hch Hrun D ws.
  destruct (alloc_pre_disk s vi v fsz Hpre) as (L & Hlen).
  pose proof (chain_of_sound (s_disk s) v fuel c0 _ Hch) as Hsound.
  assert (Hp : In p (pre ++ [p])) by (apply in_app_iff; right; left; reflexivity).
  destruct (Hsound p Hp) as (P1 & P2 & _).
  assert (Hprev : forall q, Some p = Some q -> q < v_clusters v + 2) by (intros q E; inversion E; subst; exact P2).
  pose proof (alloc_cluster_effect vi v fsz (Some p) zero s c s' Hpre Hprev Hrun) as Heff.
  destruct (ae_range _ _ _ _ _ _ _ _ Heff) as (C1 & C2 & Hfree).
  split; [exact (ae_trace _ _ _ _ _ _ _ _ Heff)|].
  split; [exact C1|]. split; [exact C2|]. split; [exact Hfree|].
  split; [exact (free_not_in_chain _ _ _ _ _ _ Hch Hfree)|].
  intros k Dk.
  assert (Hq : in_fat v fsz c) by exact (layout_sector v fsz c L C2).
  assert (Hqp : forall q, Some p = Some q -> in_fat v fsz q)
    by (intros q E; exact (layout_sector v fsz q L (Hprev q E))).
  destruct (alloc_prefix_fat v fsz D (Some p) zero c k L Hlen C1 Hq Hqp)
    as (n0 & n1 & (O1 & O2) & O3 & _ & G0 & G1 & Gz & _ & _ & _).
  fold ws in G0, G1, Gz. fold Dk in G0, G1, Gz.
  destruct (alloc_stage_chains v fsz D Dk c p pre c0 fuel n0 L Hfit C1 C2 Hfree Hch O3 G0)
    as (Ha & Hb1 & Hb2 & Hd0 & Hd1 & Hd2).
  exists n0, n1. split; [lia|]. split; [exact G0|]. split; [exact G1|]. split; [exact Ha|].
  split.
  { destruct (le_lt_dec n0 1) as [Hn|Hn]; [left; split; [exact Hn|exact (Hb1 Hn)]|].
    assert (E2 : n0 = 2%nat) by lia. right. split; [exact E2|]. split; [exact (Hb2 E2)|exact (Gz E2)]. }
  split.
  { destruct n0 as [|n0]; [left; split; [reflexivity|exact (Hd0 eq_refl)]|right; split; [lia|apply Hd1; lia]]. }
  split; [exact Hd2|].
  intros Hnoref c1 f1 ch1 H1 Hin.
  destruct (chain_reaches Dk v c f1 c1 ch1 H1 Hin) as [E|(x & Hx & Ex)]; [left; exact E|].
  destruct (chain_of_sound Dk v f1 c1 ch1 H1 x Hx) as (X1 & X2 & _).
  destruct (Hd2 x X1 X2 Ex) as [Eold|(E2 & ->)]; [exfalso; exact (Hnoref x X1 X2 Eold)|].
  right. split; [exact E2|exact Hx].
Qed.

(* the same for a cluster that starts a new chain (prev = None): all chains are untouched at
   every prefix; c is free or a one-cluster chain; nothing refers to it *)
Theorem C10_alloc_prefix_chains_first vi v fsz zero s c s' :
  alloc_pre s vi v fsz -> fat_fits v ->
  alloc_cluster vi None zero s = (Ok c, s') ->
  let D := s_disk s in
  let ws := alloc_writes v D None zero c in
  tr_ext s s' ws /\ 2 <= c /\ c < v_clusters v + 2 /\ fat_get D v 0 c = 0 /\
  forall k, let Dk := prefix_disk ws k D in
    (forall c1 f1 ch1, chain_of D v c1 f1 = Some ch1 -> chain_of Dk v c1 f1 = Some ch1) /\
    (fat_get Dk v 0 c = 0 \/ (fat_get Dk v 0 c = enc v CL_EOF /\ chain_of Dk v c 1 = Some [c])) /\
    (forall x, 2 <= x -> x < v_clusters v + 2 -> fat_get Dk v 0 x = c -> fat_get D v 0 x = c) /\
    (forall j, non_fat v fsz j -> ~ In j (cluster_blocks v c) -> disk_get Dk j = disk_get D j).
Proof.
  intros Hpre Hfit Hrun D ws.
  destruct (alloc_pre_disk s vi v fsz Hpre) as (L & Hlen).
  assert (Hprev : forall q, @None N = Some q -> q < v_clusters v + 2) by (intros q E; discriminate E).
  pose proof (alloc_cluster_effect vi v fsz None zero s c s' Hpre Hprev Hrun) as Heff.
  destruct (ae_range _ _ _ _ _ _ _ _ Heff) as (C1 & C2 & Hfree).
  split; [exact (ae_trace _ _ _ _ _ _ _ _ Heff)|].
  split; [exact C1|]. split; [exact C2|]. split; [exact Hfree|].
  intros k Dk.
  assert (Hq : in_fat v fsz c) by exact (layout_sector v fsz c L C2).
  assert (Hqp : forall q, @None N = Some q -> in_fat v fsz q) by (intros q E; discriminate E).
  destruct (alloc_prefix_fat v fsz D None zero c k L Hlen C1 Hq Hqp)
    as (n0 & n1 & _ & _ & O3 & G0 & _ & _ & Gf & _ & _).
  fold ws in G0, Gf. fold Dk in G0, Gf. specialize (O3 eq_refl).
  destruct (alloc_stage_chains_first v fsz D Dk c n0 L Hfit C1 C2 Hfree O3 G0) as (Ha & Hd0 & Hd1 & Hd2).
  split; [exact Ha|]. split; [|split; [exact Hd2|exact Gf]].
  destruct n0 as [|n0]; [left; exact (Hd0 eq_refl)|right; apply Hd1; lia].
Qed.

(* ================================================================== 5. data blocks (C09 frame) *)
(* every write of alloc_cluster targets a FAT sector or - zeroing - a block of the NEW cluster
   c, which was free and therefore in no chain.  For every prefix: every block outside the FAT
   and outside cluster c is unchanged, in particular every block of every other data cluster
   and hence of every chain of the old medium *)
Theorem C09_frame_alloc vi v fsz prev zero s c s' :
  alloc_pre s vi v fsz -> (forall p, prev = Some p -> p < v_clusters v + 2) ->
  alloc_cluster vi prev zero s = (Ok c, s') ->
  let D := s_disk s in
  let ws := alloc_writes v D prev zero c in
  tr_ext s s' ws /\
  forall k, let Dk := prefix_disk ws k D in
    (forall j, non_fat v fsz j -> ~ In j (cluster_blocks v c) -> disk_get Dk j = disk_get D j) /\
    (forall x b, 2 <= x -> x <> c -> In b (cluster_blocks v x) -> disk_get Dk b = disk_get D b) /\
    (forall c1 f1 ch1, chain_of D v c1 f1 = Some ch1 ->
       forall x b, In x ch1 -> In b (cluster_blocks v x) -> disk_get Dk b = disk_get D b).
Proof.
  intros Hpre Hprev Hrun D ws.
  destruct (alloc_pre_disk s vi v fsz Hpre) as (L & Hlen).
  pose proof (alloc_cluster_effect vi v fsz prev zero s c s' Hpre Hprev Hrun) as Heff.
  destruct (ae_range _ _ _ _ _ _ _ _ Heff) as (C1 & C2 & Hfree).
  split; [exact (ae_trace _ _ _ _ _ _ _ _ Heff)|].
  intros k Dk.
  assert (Hq : in_fat v fsz c) by exact (layout_sector v fsz c L C2).
  assert (Hqp : forall q, prev = Some q -> in_fat v fsz q)
    by (intros q E; exact (layout_sector v fsz q L (Hprev q E))).
  destruct (alloc_prefix_fat v fsz D prev zero c k L Hlen C1 Hq Hqp)
    as (n0 & n1 & _ & _ & _ & _ & _ & _ & Gf & _ & _).
  fold ws in Gf. fold Dk in Gf.
  assert (Hcl : forall x b, 2 <= x -> x <> c -> In b (cluster_blocks v x) -> disk_get Dk b = disk_get D b).
  { intros x b X1 Xc Hb. apply Gf; [exact (cluster_block_non_fat v fsz x b L X1 Hb)|].
    exact (cluster_blocks_apart v x c b Xc X1 C1 Hb). }
  split; [exact Gf|]. split; [exact Hcl|].
  intros c1 f1 ch1 H1 x b Hx Hb.
  destruct (chain_of_sound D v f1 c1 ch1 H1 x Hx) as (X1 & _ & X3 & _).
  apply (Hcl x b X1); [|exact Hb]. intros ->. contradiction.
Qed.

(* ================================================================== 6. truncate / free *)
(* a sequence of FAT updates (PrChain.fat_updates) as steps *)
Definition fops (us : list (N * N)) : list wop := map (fun yx => WFat (fst yx) (snd yx)) us.

Lemma fat_updates_ops v : forall us d, fat_updates v d us = op_ws v d (fops us).
Proof.
  induction us as [|[y x] us IH]; intros d; [reflexivity|].
  cbn [fat_updates fops map op_ws fst snd]. cbv zeta. fold (upd_ws v d y x). rewrite IH. reflexivity.
Qed.

Lemma fops_ok v fsz us : Forall (fun yx => in_fat v fsz (fst yx)) us -> Forall (op_ok v fsz) (fops us).
Proof.
  intros H. unfold fops. rewrite Forall_map. rewrite Forall_forall in *. intros yx Hin. exact (H yx Hin).
Qed.

Lemma fops_data us : data_ws (fops us) = [].
Proof. induction us as [|yx us IH]; [reflexivity|exact IH]. Qed.

(* entry x after the updates us when it was e before *)
Definition upd_after (v : vol) (us : list (N * N)) (x e : N) : N := ent_after v (fops us) x e.

(* EVERY PREFIX of a sequence of FAT updates: the first copy reads as after the first j0
   updates, the second (when the copies were identical) as after the first j1, with
   j1 <= j0 <= j1 + 1; no block outside the FAT changes *)
Theorem fat_updates_prefix v fsz D us k :
  fat_layout v fsz -> fat_len_ok v fsz D -> Forall (fun yx => in_fat v fsz (fst yx)) us ->
  let Dk := prefix_disk (fat_updates v D us) k D in
  exists j0 j1,
    (j1 <= j0 /\ j0 <= j1 + 1 /\ j0 <= length us)%nat /\
    (forall x, in_fat v fsz x -> fat_get Dk v 0 x = upd_after v (firstn j0 us) x (fat_get D v 0 x)) /\
    (fat_mirrored D v fsz ->
       forall x, in_fat v fsz x -> fat_get Dk v 1 x = upd_after v (firstn j1 us) x (fat_get D v 0 x)) /\
    (forall j, non_fat v fsz j -> disk_get Dk j = disk_get D j) /\
    fat_len_ok v fsz Dk.
Proof.
  intros L Hlen Hus Dk. unfold Dk. rewrite fat_updates_ops.
  pose proof (fops_ok v fsz us Hus) as Hok.
  destruct (crash_general v fsz L (fops us) D k Hok Hlen)
    as (j1 & j0 & ws' & C1 & C2 & C3 & G0 & G1 & G2 & G3).
  exists j0, j1. unfold fops in C2. rewrite map_length in C2.
  split; [destruct C1 as [->|(-> & _)]; lia|].
  assert (Ef : forall j, firstn j (fops us) = fops (firstn j us)) by (intros j; apply firstn_map).
  rewrite Ef in G0, G1. unfold upd_after.
  split; [exact G0|]. split; [exact G1|]. split; [|exact G3].
  intros j Hj. apply (crash_frame v fsz (fops us) D k j L Hok Hlen Hj).
  rewrite fops_data. intros [].
Qed.

(* ---- the entries after a prefix of the updates of truncate / free ---- *)
Lemma existsb_In x l : existsb (N.eqb x) l = true <-> In x l.
Proof.
  rewrite existsb_exists. split.
  - intros (y & Hy & E). apply N.eqb_eq in E. subst y. exact Hy.
  - intros H. exists x. split; [exact H|apply N.eqb_refl].
Qed.

Lemma existsb_notIn x l : ~ In x l -> existsb (N.eqb x) l = false.
Proof.
  intros H. destruct (existsb (N.eqb x) l) eqn:E; [|reflexivity].
  apply existsb_In in E. contradiction.
Qed.

Lemma upd_after_freeing v l : forall x e,
  upd_after v (freeing l) x e = if existsb (N.eqb x) l then 0 else e.
Proof.
  unfold upd_after. induction l as [|a l IH]; intros x e; [reflexivity|].
  cbn [freeing map fops ent_after fst snd existsb]. fold (freeing l). fold (fops (freeing l)).
  rewrite IH. destruct (x =? a); cbn [orb]; [|reflexivity].
  rewrite enc_empty. destruct (existsb (N.eqb x) l); reflexivity.
Qed.

Lemma firstn_freeing m l : firstn m (freeing l) = freeing (firstn m l).
Proof. unfold freeing. apply firstn_map. Qed.

Lemma freeing_app a b : freeing (a ++ b) = freeing a ++ freeing b.
Proof. unfold freeing. apply map_app. Qed.

(* after the first S m updates of  c := end-of-chain; l := free (in order): the first m
   clusters of l are free, c is the end of its chain (unless it has been freed as well) *)
Lemma upd_after_cut v c l m x e :
  upd_after v (firstn (S m) ((c, CL_EOF) :: freeing l)) x e
  = if existsb (N.eqb x) (firstn m l) then 0 else if x =? c then enc v CL_EOF else e.
Proof.
  cbn [firstn]. rewrite firstn_freeing.
  change (upd_after v ((c, CL_EOF) :: freeing (firstn m l)) x e)
    with (upd_after v (freeing (firstn m l)) x (if x =? c then enc v CL_EOF else e)).
  apply upd_after_freeing.
Qed.

Lemma skipn_In {A} (l : list A) : forall m x, In x (skipn m l) -> In x l.
Proof.
  induction l as [|a l IH]; intros [|m] x H; cbn in H; try contradiction; try exact H.
  right. exact (IH m x H).
Qed.

Lemma nodup_firstn_skipn (l : list N) m y : NoDup l -> In y (skipn m l) -> ~ In y (firstn m l).
Proof.
  revert m. induction l as [|a l IH]; intros [|m] Hnd Hs; cbn [firstn skipn] in *;
    try (intros H0; exact H0).
  inversion Hnd as [|? ? Hni Hnd']; subst. intros [->|Hf].
  - apply Hni. exact (skipn_In _ _ _ Hs).
  - exact (IH m Hnd' Hs Hf).
Qed.

Lemma in_fat_chain v fsz d c f l : fat_layout v fsz -> chain_of d v c f = Some l ->
  Forall (fun yx : N * N => in_fat v fsz (fst yx)) (freeing l).
Proof.
  intros L H. unfold freeing. rewrite Forall_map. cbn [fst].
  pose proof (chain_of_range d v f c l H) as Hr. rewrite Forall_forall in *. intros y Hy.
  exact (layout_sector v fsz y L (proj2 (Hr y Hy))).
Qed.

(* ---- the core: media whose first FAT copy is at some stage of  c := EOF; l := free ---- *)
(* l is rest (truncate) or rest ++ [c] (free) *)
Lemma cut_stage_chains v fsz D E c rest fuel (l : list N) j0 :
  fat_layout v fsz -> chain_of D v c fuel = Some (c :: rest) ->
  (l = rest \/ l = rest ++ [c]) ->
  (forall x, in_fat v fsz x ->
     fat_get E v 0 x = upd_after v (firstn j0 ((c, CL_EOF) :: freeing l)) x (fat_get D v 0 x)) ->
  (* chains disjoint from c :: rest are untouched, and so are all entries outside *)
  (forall x, in_fat v fsz x -> ~ In x (c :: rest) -> fat_get E v 0 x = fat_get D v 0 x) /\
  (forall c1 f1 ch1, chain_of D v c1 f1 = Some ch1 -> (forall x, In x ch1 -> ~ In x (c :: rest)) ->
     chain_of E v c1 f1 = Some ch1) /\
  (* the chain from c *)
  (chain_of E v c fuel = Some (c :: rest) \/
   (chain_of E v c 1 = Some [c] /\ fat_get E v 0 c = enc v CL_EOF /\
    exists m, (m <= length rest)%nat /\
      (forall y, In y (firstn m rest) -> fat_get E v 0 y = 0) /\
      (forall y, In y (skipn m rest) -> fat_get E v 0 y = fat_get D v 0 y)) \/
   (l = rest ++ [c] /\ fat_get E v 0 c = 0 /\ forall y, In y rest -> fat_get E v 0 y = 0)).
Proof.
  intros L Hch Hl HE.
  assert (HinF : forall x, x < v_clusters v + 2 -> in_fat v fsz x) by (intros x Hx; exact (layout_sector v fsz x L Hx)).
  pose proof (chain_of_sound D v fuel c _ Hch) as Hsound.
  pose proof (chain_of_nodup D v fuel c _ Hch) as Hnd.
  inversion Hnd as [|? ? Hcni Hndr]; subst.
  destruct (Hsound c (or_introl eq_refl)) as (C1 & C2 & _).
  assert (Hlsub : forall x, In x l -> In x (c :: rest)).
  { intros x Hx. destruct Hl as [->| ->]; [right; exact Hx|].
    apply in_app_iff in Hx. destruct Hx as [Hx|[<-|[]]]; [right; exact Hx|left; reflexivity]. }
  assert (Hout : forall x, in_fat v fsz x -> ~ In x (c :: rest) -> fat_get E v 0 x = fat_get D v 0 x).
  { intros x Hx Hni. rewrite (HE x Hx). destruct j0 as [|m]; [reflexivity|].
    rewrite upd_after_cut.
    rewrite existsb_notIn by (intros Hin; apply Hni, Hlsub; exact (firstn_In _ _ _ Hin)).
    destruct (N.eqb_spec x c) as [->|_]; [exfalso; apply Hni; left; reflexivity|reflexivity]. }
  split; [exact Hout|]. split.
  { intros c1 f1 ch1 H1 Hdis. apply (chain_of_frame D); [exact H1|].
    intros x Hx. destruct (chain_of_sound D v f1 c1 ch1 H1 x Hx) as (_ & X2 & _).
    exact (Hout x (HinF x X2) (Hdis x Hx)). }
  destruct j0 as [|m].
  - (* nothing written to the first copy yet *)
    left. apply (chain_of_frame D); [exact Hch|]. intros x Hx.
    destruct (Hsound x Hx) as (_ & X2 & _). rewrite (HE x (HinF x X2)). reflexivity.
  - assert (Hstage : forall x, in_fat v fsz x ->
              fat_get E v 0 x = if existsb (N.eqb x) (firstn m l) then 0
                                else if x =? c then enc v CL_EOF else fat_get D v 0 x).
    { intros x Hx. rewrite (HE x Hx). apply upd_after_cut. }
    destruct (le_lt_dec m (length rest)) as [Hm|Hm].
    + (* c is the end of its chain; the first m clusters of rest are free *)
      assert (Efl : firstn m l = firstn m rest).
      { destruct Hl as [->| ->]; [reflexivity|]. rewrite firstn_app.
        replace (m - length rest)%nat with 0%nat by lia. cbn [firstn]. apply app_nil_r. }
      rewrite Efl in Hstage.
      assert (Ec : fat_get E v 0 c = enc v CL_EOF).
      { rewrite (Hstage c (HinF c C2)).
        rewrite existsb_notIn by (intros Hin; apply Hcni; exact (firstn_In _ _ _ Hin)).
        rewrite N.eqb_refl. reflexivity. }
      right. left. destruct (eof_is_end v) as (Eb & Ee).
      split; [apply chain_single; [exact C1|exact C2|rewrite Ec; exact Eb|rewrite Ec; exact Ee]|].
      split; [exact Ec|]. exists m. split; [exact Hm|]. split.
      * intros y Hy. destruct (Hsound y (or_intror (firstn_In _ _ _ Hy))) as (_ & Y2 & _).
        rewrite (Hstage y (HinF y Y2)). rewrite (proj2 (existsb_In y _) Hy). reflexivity.
      * intros y Hy. pose proof (skipn_In _ _ _ Hy) as Hyr.
        destruct (Hsound y (or_intror Hyr)) as (_ & Y2 & _).
        rewrite (Hstage y (HinF y Y2)).
        rewrite existsb_notIn by (exact (nodup_firstn_skipn rest m y Hndr Hy)).
        destruct (N.eqb_spec y c) as [->|_]; [contradiction|reflexivity].
    + (* only possible for free: everything is free *)
      destruct Hl as [->| ->].
      * (* l = rest: firstn m rest = rest, still the middle case *)
        rewrite firstn_all2 in Hstage by lia.
        assert (Ec : fat_get E v 0 c = enc v CL_EOF).
        { rewrite (Hstage c (HinF c C2)). rewrite existsb_notIn by exact Hcni. rewrite N.eqb_refl. reflexivity. }
        right. left. destruct (eof_is_end v) as (Eb & Ee).
        split; [apply chain_single; [exact C1|exact C2|rewrite Ec; exact Eb|rewrite Ec; exact Ee]|].
        split; [exact Ec|]. exists (length rest). split; [lia|]. rewrite firstn_all, skipn_all. split.
        -- intros y Hy. destruct (Hsound y (or_intror Hy)) as (_ & Y2 & _).
           rewrite (Hstage y (HinF y Y2)). rewrite (proj2 (existsb_In y _) Hy). reflexivity.
        -- intros y [].
      * rewrite firstn_all2 in Hstage by (rewrite app_length; cbn [length]; lia).
        right. right. split; [reflexivity|]. split.
        -- rewrite (Hstage c (HinF c C2)).
           rewrite (proj2 (existsb_In c _)) by (apply in_app_iff; right; left; reflexivity). reflexivity.
        -- intros y Hy. destruct (Hsound y (or_intror Hy)) as (_ & Y2 & _).
           rewrite (Hstage y (HinF y Y2)).
           rewrite (proj2 (existsb_In y _)) by (apply in_app_iff; left; exact Hy). reflexivity.
Qed.

Lemma st_ok_len vi v fsz s : st_ok vi v fsz s -> fat_len_ok v fsz (s_disk s).
Proof. intros (_ & _ & _ & H). exact H. Qed.

Lemma chain_in_fat v fsz d c f rest : fat_layout v fsz -> chain_of d v c f = Some (c :: rest) ->
  in_fat v fsz c /\ Forall (fun yx : N * N => in_fat v fsz (fst yx)) (freeing rest) /\
  Forall (fun yx : N * N => in_fat v fsz (fst yx)) (freeing (rest ++ [c])).
Proof.
  intros L H. pose proof (in_fat_chain v fsz d c f _ L H) as F.
  change (freeing (c :: rest)) with ((c, CL_EMPTY) :: freeing rest) in F.
  inversion F as [|? ? Fc Fr]; subst. cbn [fst] in Fc.
  split; [exact Fc|]. split; [exact Fr|].
  rewrite freeing_app. apply Forall_app. split; [exact Fr|]. constructor; [exact Fc|constructor].
Qed.

(* ---- C10, truncate_cluster_chain on the chain c :: rest: EVERY prefix ---- *)
(* For every prefix of the writes: the chain from c is read as c :: rest (nothing on the
   medium yet) or as [c] (c marked end-of-chain FIRST); in the second case the first m
   clusters of rest are free and the others still hold their old entries - allocated but
   referenced by no live chain: lost clusters, the permitted residue.  Chains disjoint from
   c :: rest, every FAT entry outside c :: rest and every block outside the FAT are unchanged. *)
Theorem C10_truncate_prefix_chains vi v fsz s c rest fuel :
  fat_layout v fsz -> st_ok vi v fsz s ->
  chain_of (s_disk s) v c fuel = Some (c :: rest) ->
  let D := s_disk s in
  let us := trunc_updates c rest in
  let ws := fat_updates v D us in
  exists s', truncate_cluster_chain vi c s = (Ok tt, s') /\ tr_ext s s' ws /\
  forall k, let Dk := prefix_disk ws k D in
  exists j0 j1,
    (j1 <= j0 /\ j0 <= j1 + 1 /\ j0 <= length us)%nat /\
    (forall x, in_fat v fsz x -> fat_get Dk v 0 x = upd_after v (firstn j0 us) x (fat_get D v 0 x)) /\
    (fat_mirrored D v fsz ->
       forall x, in_fat v fsz x -> fat_get Dk v 1 x = upd_after v (firstn j1 us) x (fat_get D v 0 x)) /\
    (forall x, in_fat v fsz x -> ~ In x (c :: rest) -> fat_get Dk v 0 x = fat_get D v 0 x) /\
    (forall c1 f1 ch1, chain_of D v c1 f1 = Some ch1 -> (forall x, In x ch1 -> ~ In x (c :: rest)) ->
       chain_of Dk v c1 f1 = Some ch1) /\
    (chain_of Dk v c fuel = Some (c :: rest) \/
     (chain_of Dk v c 1 = Some [c] /\ fat_get Dk v 0 c = enc v CL_EOF /\
      exists m, (m <= length rest)%nat /\
        (forall y, In y (firstn m rest) -> fat_get Dk v 0 y = 0) /\
        (forall y, In y (skipn m rest) -> fat_get Dk v 0 y = fat_get D v 0 y))) /\
    (forall j, non_fat v fsz j -> disk_get Dk j = disk_get D j).
Proof.
  intros L Hst Hch D us ws.
  destruct (truncate_cluster_chain_effect vi v fsz s c rest fuel L Hst Hch) as (s' & Hrun & Heff).
  exists s'. split; [exact Hrun|]. split; [exact (te_trace _ _ _ _ _ _ _ Heff)|].
  intros k Dk.
  pose proof (st_ok_len vi v fsz s Hst) as Hlen.
  destruct (chain_in_fat v fsz D c fuel rest L Hch) as (Fc & Fr & _).
  assert (Hus : Forall (fun yx : N * N => in_fat v fsz (fst yx)) us).
  { unfold us, trunc_updates. destruct rest; [constructor|]. constructor; [exact Fc|exact Fr]. }
  destruct (fat_updates_prefix v fsz D us k L Hlen Hus) as (j0 & j1 & Hj & G0 & G1 & G2 & _).
  fold ws in G0, G1, G2. fold Dk in G0, G1, G2.
  exists j0, j1. split; [exact Hj|]. split; [exact G0|]. split; [exact G1|].
  destruct rest as [|n tl].
  - (* nothing to cut: no write at all *)
    assert (Esame : forall x, in_fat v fsz x -> fat_get Dk v 0 x = fat_get D v 0 x).
    { intros x Hx. rewrite (G0 x Hx). unfold us, trunc_updates. rewrite firstn_nil. reflexivity. }
    split; [intros x Hx _; exact (Esame x Hx)|].
    assert (Hfr : forall c1 f1 ch1, chain_of D v c1 f1 = Some ch1 -> chain_of Dk v c1 f1 = Some ch1).
    { intros c1 f1 ch1 H1. apply (chain_of_frame D); [exact H1|]. intros x Hx.
      destruct (chain_of_sound D v f1 c1 ch1 H1 x Hx) as (_ & X2 & _).
      exact (Esame x (layout_sector v fsz x L X2)). }
    split; [intros c1 f1 ch1 H1 _; exact (Hfr c1 f1 ch1 H1)|].
    split; [left; exact (Hfr _ _ _ Hch)|exact G2].
  - assert (HE : forall x, in_fat v fsz x ->
              fat_get Dk v 0 x = upd_after v (firstn j0 ((c, CL_EOF) :: freeing (n :: tl))) x (fat_get D v 0 x))
      by exact G0.
    destruct (cut_stage_chains v fsz D Dk c (n :: tl) fuel (n :: tl) j0 L Hch (or_introl eq_refl) HE)
      as (Hout & Hoth & Hthis).
    split; [exact Hout|]. split; [exact Hoth|]. split; [|exact G2].
    destruct Hthis as [H1|[H2|(Habs & _)]]; [left; exact H1|right; exact H2|].
    exfalso. apply (f_equal (@length N)) in Habs. rewrite app_length in Habs. cbn [length] in Habs. lia.
Qed.

(* ---- C10, free_cluster_chain (delete) on the chain c :: rest: EVERY prefix ---- *)
(* As truncate, and the LAST update frees c: for every prefix the chain from c reads c :: rest,
   or [c] with a freed prefix of rest, or c and all of rest are free.  (The directory slot
   was marked deleted before: see delete_entry_before_free below.) *)
Theorem C10_free_prefix_chains vi v fsz s c rest fuel :
  fat_layout v fsz -> st_ok vi v fsz s ->
  chain_of (s_disk s) v c fuel = Some (c :: rest) ->
  let D := s_disk s in
  let us := trunc_updates c rest ++ [(c, CL_EMPTY)] in
  let ws := fat_updates v D us in
  exists s', free_cluster_chain vi c s = (Ok tt, s') /\ tr_ext s s' ws /\
  forall k, let Dk := prefix_disk ws k D in
  exists j0 j1,
    (j1 <= j0 /\ j0 <= j1 + 1 /\ j0 <= length us)%nat /\
    (forall x, in_fat v fsz x -> fat_get Dk v 0 x = upd_after v (firstn j0 us) x (fat_get D v 0 x)) /\
    (fat_mirrored D v fsz ->
       forall x, in_fat v fsz x -> fat_get Dk v 1 x = upd_after v (firstn j1 us) x (fat_get D v 0 x)) /\
    (forall x, in_fat v fsz x -> ~ In x (c :: rest) -> fat_get Dk v 0 x = fat_get D v 0 x) /\
    (forall c1 f1 ch1, chain_of D v c1 f1 = Some ch1 -> (forall x, In x ch1 -> ~ In x (c :: rest)) ->
       chain_of Dk v c1 f1 = Some ch1) /\
    (chain_of Dk v c fuel = Some (c :: rest) \/
     (chain_of Dk v c 1 = Some [c] /\ fat_get Dk v 0 c = enc v CL_EOF /\
      exists m, (m <= length rest)%nat /\
        (forall y, In y (firstn m rest) -> fat_get Dk v 0 y = 0) /\
        (forall y, In y (skipn m rest) -> fat_get Dk v 0 y = fat_get D v 0 y)) \/
     (fat_get Dk v 0 c = 0 /\ forall y, In y rest -> fat_get Dk v 0 y = 0)) /\
    (forall j, non_fat v fsz j -> disk_get Dk j = disk_get D j).
Proof.
  intros L Hst Hch D us ws.
  destruct (free_cluster_chain_effect vi v fsz s c rest fuel L Hst Hch) as (s' & Hrun & Heff).
  exists s'. split; [exact Hrun|]. split; [exact (fe_trace _ _ _ _ _ _ _ Heff)|].
  intros k Dk.
  pose proof (st_ok_len vi v fsz s Hst) as Hlen.
  destruct (chain_in_fat v fsz D c fuel rest L Hch) as (Fc & Fr & Frc).
  assert (Eus : us = match rest with [] => freeing [c] | _ => (c, CL_EOF) :: freeing (rest ++ [c]) end).
  { unfold us, trunc_updates. destruct rest; [reflexivity|]. rewrite freeing_app. reflexivity. }
  assert (Hus : Forall (fun yx : N * N => in_fat v fsz (fst yx)) us).
  { rewrite Eus. destruct rest; [constructor; [exact Fc|constructor]|]. constructor; [exact Fc|exact Frc]. }
  destruct (fat_updates_prefix v fsz D us k L Hlen Hus) as (j0 & j1 & Hj & G0 & G1 & G2 & _).
  fold ws in G0, G1, G2. fold Dk in G0, G1, G2.
  exists j0, j1. split; [exact Hj|]. split; [exact G0|]. split; [exact G1|].
  destruct rest as [|n tl].
  - (* a one-cluster chain: the only update frees c *)
    assert (Hst0 : forall x, in_fat v fsz x ->
              fat_get Dk v 0 x = if existsb (N.eqb x) (firstn j0 [c]) then 0 else fat_get D v 0 x).
    { intros x Hx. rewrite (G0 x Hx), Eus, firstn_freeing. apply upd_after_freeing. }
    assert (Hout : forall x, in_fat v fsz x -> x <> c -> fat_get Dk v 0 x = fat_get D v 0 x).
    { intros x Hx Hne. rewrite (Hst0 x Hx). rewrite existsb_notIn; [reflexivity|].
      intros Hin. apply firstn_In in Hin. destruct Hin as [E|[]]. congruence. }
    split; [intros x Hx Hni; apply (Hout x Hx); intros ->; apply Hni; left; reflexivity|].
    split.
    { intros c1 f1 ch1 H1 Hdis. apply (chain_of_frame D); [exact H1|]. intros x Hx.
      destruct (chain_of_sound D v f1 c1 ch1 H1 x Hx) as (_ & X2 & _).
      apply (Hout x (layout_sector v fsz x L X2)). intros ->. apply (Hdis c Hx). left. reflexivity. }
    split; [|exact G2].
    destruct j0 as [|j0].
    + left. apply (chain_of_frame D); [exact Hch|]. intros x [<-|[]]. rewrite (Hst0 c Fc). reflexivity.
    + right. right. split; [|intros y []]. rewrite (Hst0 c Fc). cbn [firstn existsb]. rewrite N.eqb_refl. reflexivity.
  - assert (HE : forall x, in_fat v fsz x ->
              fat_get Dk v 0 x = upd_after v (firstn j0 ((c, CL_EOF) :: freeing ((n :: tl) ++ [c]))) x (fat_get D v 0 x)).
    { intros x Hx. rewrite (G0 x Hx), Eus. reflexivity. }
    destruct (cut_stage_chains v fsz D Dk c (n :: tl) fuel ((n :: tl) ++ [c]) j0 L Hch (or_intror eq_refl) HE)
      as (Hout & Hoth & Hthis).
    split; [exact Hout|]. split; [exact Hoth|]. split; [|exact G2].
    destruct Hthis as [H1|[H2|(_ & H3)]]; [left; exact H1|right; left; exact H2|right; right; exact H3].
Qed.

(* delete_file_in_dir runs  delete_directory_entry ;;; free_cluster_chain : when it succeeds,
   the whole of delete_directory_entry has returned (its block write is on the medium: the
   trace only grows) in the state in which free_cluster_chain starts *)
Lemma delete_entry_before_free vi dc sfn c s s' :
  (delete_directory_entry vi dc sfn ;;; free_cluster_chain vi c) s = (Ok tt, s') ->
  exists s1, delete_directory_entry vi dc sfn s = (Ok tt, s1) /\ free_cluster_chain vi c s1 = (Ok tt, s').
Proof.
  intros H. apply bind_inv in H. destruct H as ([] & s1 & H1 & H2). exists s1. split; assumption.
Qed.

(* ---- C09 frame for truncate / free: all their writes are FAT sectors ---- *)
Theorem C09_frame_fat_updates v fsz D us k :
  fat_layout v fsz -> fat_len_ok v fsz D -> Forall (fun yx => in_fat v fsz (fst yx)) us ->
  (forall j, non_fat v fsz j -> disk_get (prefix_disk (fat_updates v D us) k D) j = disk_get D j) /\
  (forall x b, 2 <= x -> In b (cluster_blocks v x) ->
     disk_get (prefix_disk (fat_updates v D us) k D) b = disk_get D b).
Proof.
  intros L Hlen Hus.
  destruct (fat_updates_prefix v fsz D us k L Hlen Hus) as (j0 & j1 & _ & _ & _ & G2 & _).
  split; [exact G2|]. intros x b Hx Hb. apply G2. exact (cluster_block_non_fat v fsz x b L Hx Hb).
Qed.

(* ---- C09 in terms of file contents (PrRw.file_bytes: the bytes of the clusters of a chain) ---- *)
(* a crash after ANY prefix of the writes of alloc_cluster (on behalf of whatever file or
   directory) shows every chain of the old medium with exactly its old bytes; a chain that
   does not end in prev is moreover still the same chain (C10_alloc_prefix_chains (a)) *)
Theorem C09_frame_bytes_alloc vi v fsz prev zero s c s' :
  alloc_pre s vi v fsz -> (forall p, prev = Some p -> p < v_clusters v + 2) ->
  alloc_cluster vi prev zero s = (Ok c, s') ->
  let D := s_disk s in
  let ws := alloc_writes v D prev zero c in
  tr_ext s s' ws /\
  forall k c1 f1 ch1, chain_of D v c1 f1 = Some ch1 ->
    PrRw.file_bytes (prefix_disk ws k D) v ch1 = PrRw.file_bytes D v ch1.
Proof.
  intros Hpre Hprev Hrun D ws.
  destruct (C09_frame_alloc vi v fsz prev zero s c s' Hpre Hprev Hrun) as (T & H).
  split; [exact T|]. intros k c1 f1 ch1 H1. destruct (H k) as (_ & _ & Hch).
  apply PrRw.file_bytes_frame. intros x b Hx Hb. exact (Hch c1 f1 ch1 H1 x b Hx Hb).
Qed.

(* truncate / free (of any other file): every chain of data clusters keeps its bytes *)
Theorem C09_frame_bytes_fat_updates v fsz D us k ch :
  fat_layout v fsz -> fat_len_ok v fsz D -> Forall (fun yx => in_fat v fsz (fst yx)) us ->
  Forall (fun x => 2 <= x) ch ->
  PrRw.file_bytes (prefix_disk (fat_updates v D us) k D) v ch = PrRw.file_bytes D v ch.
Proof.
  intros L Hlen Hus Hch. apply PrRw.file_bytes_frame. intros x b Hx Hb.
  rewrite Forall_forall in Hch.
  exact (proj2 (C09_frame_fat_updates v fsz D us k L Hlen Hus) x b (Hch x Hx) Hb).
Qed.

Lemma updates_in_fat v fsz d c f rest : fat_layout v fsz -> chain_of d v c f = Some (c :: rest) ->
  Forall (fun yx : N * N => in_fat v fsz (fst yx)) (trunc_updates c rest) /\
  Forall (fun yx : N * N => in_fat v fsz (fst yx)) (trunc_updates c rest ++ [(c, CL_EMPTY)]).
Proof.
  intros L H. destruct (chain_in_fat v fsz d c f rest L H) as (Fc & Fr & _).
  assert (F1 : Forall (fun yx : N * N => in_fat v fsz (fst yx)) (trunc_updates c rest)).
  { unfold trunc_updates. destruct rest; [constructor|]. constructor; [exact Fc|exact Fr]. }
  split; [exact F1|]. apply Forall_app. split; [exact F1|]. constructor; [exact Fc|constructor].
Qed.

(* C09 frame, all three FAT-changing operations at once, in terms of file contents: whatever
   the operation is run for, after ANY prefix of its writes every chain keeps its bytes *)
Theorem C09_frame vi v fsz s :
  alloc_pre s vi v fsz ->
  let D := s_disk s in
  (forall prev zero c s',
     (forall p, prev = Some p -> p < v_clusters v + 2) ->
     alloc_cluster vi prev zero s = (Ok c, s') ->
     forall k c1 f1 ch1, chain_of D v c1 f1 = Some ch1 ->
       PrRw.file_bytes (prefix_disk (alloc_writes v D prev zero c) k D) v ch1 = PrRw.file_bytes D v ch1) /\
  (forall c rest fuel, chain_of D v c fuel = Some (c :: rest) ->
     forall k ch, Forall (fun x => 2 <= x) ch ->
       PrRw.file_bytes (prefix_disk (fat_updates v D (trunc_updates c rest)) k D) v ch
         = PrRw.file_bytes D v ch /\
       PrRw.file_bytes (prefix_disk (fat_updates v D (trunc_updates c rest ++ [(c, CL_EMPTY)])) k D) v ch
         = PrRw.file_bytes D v ch).
Proof.
  intros Hpre D. destruct (alloc_pre_disk s vi v fsz Hpre) as (L & Hlen). split.
  - intros prev zero c s' Hprev Hrun k c1 f1 ch1 H1.
    exact (proj2 (C09_frame_bytes_alloc vi v fsz prev zero s c s' Hpre Hprev Hrun) k c1 f1 ch1 H1).
  - intros c rest fuel Hch k ch Hr.
    destruct (updates_in_fat v fsz D c fuel rest L Hch) as (F1 & F2).
    split; apply (C09_frame_bytes_fat_updates v fsz); assumption.
Qed.

(* ================================================================== 6b. make_dir (order only) *)
(* PrOrder describes the writes of make_dir by block number only (no contents), so the medium
   after a prefix cannot be computed; what follows for every prefix of the block numbers: the
   write of the parent-directory block that holds the new entry is in no proper prefix, and a
   prefix that contains it contains the FAT sector(s) of the new cluster and all its blocks *)
Theorem C10_make_dir_prefix_order vi v parent sfn att s s' :
  PrOrder.good s -> nth_error (s_vols s) vi = Some v ->
  make_dir vi parent sfn att s = (Ok tt, s') ->
  exists before pblk c start,
    PrOrder.steps s s' (before ++ [pblk]) /\
    (forall s0, cluster_to_block v c s0 = (Ok start, s0)) /\
    forall k,
      ((k <= length before)%nat /\ firstn k (before ++ [pblk]) = firstn k before) \/
      ((length before < k)%nat /\ firstn k (before ++ [pblk]) = before ++ [pblk] /\
       (forall x, In x (PrOrder.fat_sectors v c) -> In x before) /\
       (forall j, j < v_spc v -> In (start + j) before)).
Proof.
  intros Hg Hv H.
  destruct (PrOrder.C10_make_dir_parent_last vi v parent sfn att s s' Hg Hv H)
    as (before & pblk & S & c & start & Hs & Hf & Hb).
  exists before, pblk, c, start. split; [exact S|]. split; [exact Hs|].
  intros k. destruct (le_lt_dec k (length before)) as [Hk|Hk].
  - left. split; [exact Hk|]. rewrite firstn_app. replace (k - length before)%nat with 0%nat by lia.
    cbn [firstn]. apply app_nil_r.
  - right. split; [exact Hk|]. split; [|split; [exact Hf|exact Hb]].
    apply firstn_all2. rewrite app_length. cbn [length]. lia.
Qed.

(* the same on the logged writes WITH their contents (rev (dwr new), oldest first), replayed on
   any medium D: before the last write the block pblk is as on D unless an earlier write of the
   operation targets the same block number (the parent directory was grown and pblk lies in its
   new, zeroed cluster); the complete replay is reached only with the last write *)
Lemma wr1_dwr l : flat_map PrOrder.wr1 l = map fst (dwr l).
Proof.
  induction l as [|x l IH]; [reflexivity|]. destruct x; cbn [flat_map PrOrder.wr1 dwr map fst app]; rewrite IH; reflexivity.
Qed.

Lemma dwr_rev l : dwr (rev l) = rev (dwr l).
Proof.
  induction l as [|x l IH]; [reflexivity|]. cbn [rev]. rewrite dwr_app, IH.
  destruct x; cbn [dwr rev]; rewrite ?app_nil_r; reflexivity.
Qed.

Theorem C10_make_dir_prefix vi v parent sfn att s s' :
  PrOrder.good s -> nth_error (s_vols s) vi = Some v ->
  make_dir vi parent sfn att s = (Ok tt, s') ->
  exists (new : list devcall) (before : list N) (pblk c start : N),
    s_trace s' = new ++ s_trace s /\
    (forall s0, cluster_to_block v c s0 = (Ok start, s0)) /\
    let ws := rev (dwr new) in
    map fst ws = before ++ [pblk] /\
    (forall x, In x (PrOrder.fat_sectors v c) -> In x before) /\
    (forall j, j < v_spc v -> In (start + j) before) /\
    forall D k,
      ((k <= length before)%nat -> map fst (firstn k ws) = firstn k before /\
         (~ In pblk before -> disk_get (prefix_disk ws k D) pblk = disk_get D pblk)) /\
      ((length before < k)%nat -> prefix_disk ws k D = apply_ws ws D).
Proof.
  intros Hg Hv H.
  destruct (PrOrder.C10_make_dir_parent_last vi v parent sfn att s s' Hg Hv H)
    as (before & pblk & ((new & T & W) & _) & c & start & Hs & Hf & Hb).
  exists new, before, pblk, c, start. split; [exact T|]. split; [exact Hs|].
  assert (Ew : map fst (rev (dwr new)) = before ++ [pblk]).
  { rewrite <- W. unfold PrOrder.writes_of. rewrite wr1_dwr, dwr_rev. reflexivity. }
  cbv zeta. split; [exact Ew|]. split; [exact Hf|]. split; [exact Hb|].
  intros D k. split.
  - intros Hk.
    assert (E : map fst (firstn k (rev (dwr new))) = firstn k before).
    { rewrite <- firstn_map, Ew, firstn_app. replace (k - length before)%nat with 0%nat by lia.
      cbn [firstn]. apply app_nil_r. }
    split; [exact E|]. intros Hni. apply prefix_disk_other. rewrite E.
    intros Hin. apply Hni. exact (firstn_In _ _ _ Hin).
  - intros Hk. apply prefix_disk_ge.
    rewrite <- (map_length fst), Ew, app_length. cbn [length]. lia.
Qed.

(* ================================================================== 7. examples *)
(* the hypotheses of C10_alloc_prefix_chains are satisfiable: PrChain's FAT16 volume with the
   chain 3 -> 4 -> 7; a cluster is allocated behind 7 with zeroing: cluster 9, six writes
   (sectors 11, 13; blocks 44, 45; sectors 11, 13).  After 0..4 writes the chain reads
   [3;4;7], after 5 or 6 writes [3;4;7;9], and then both blocks of cluster 9 are zero *)
Example alloc_prefix_example :
  alloc_pre exc_state 0 exc_vol 2 /\ fat_fits exc_vol /\ fat_mirrored (s_disk exc_state) exc_vol 2 /\
  chain_of (s_disk exc_state) exc_vol 3 10 = Some ([3; 4] ++ [7]) /\
  (exists s', alloc_cluster 0 (Some 7) true exc_state = (Ok 9, s')) /\
  let ws := alloc_writes exc_vol (s_disk exc_state) (Some 7) true 9 in
  map fst ws = [11; 13; 44; 45; 11; 13] /\
  map (fun k => chain_of (prefix_disk ws k (s_disk exc_state)) exc_vol 3 10) [0; 1; 2; 3; 4; 5; 6]%nat
  = [Some [3; 4; 7]; Some [3; 4; 7]; Some [3; 4; 7]; Some [3; 4; 7]; Some [3; 4; 7];
     Some [3; 4; 7; 9]; Some [3; 4; 7; 9]] /\
  map (fun k => fat_get (prefix_disk ws k (s_disk exc_state)) exc_vol 0 9) [0; 1; 5]%nat = [0; 65535; 65535] /\
  map (fun k => fat_get (prefix_disk ws k (s_disk exc_state)) exc_vol 1 9) [1; 2]%nat = [0; 65535] /\
  disk_get (prefix_disk ws 5 (s_disk exc_state)) 44 = zero_block /\
  disk_get (prefix_disk ws 5 (s_disk exc_state)) 45 = zero_block.
Proof.
  destruct chain_pre_example as (Hpre & Hm & Hch).
  split; [exact Hpre|]. split; [unfold fat_fits; vm_compute; discriminate|]. split; [exact Hm|].
  split; [exact Hch|]. split.
  { destruct (alloc_cluster 0 (Some 7) true exc_state) as [o s'] eqn:E.
    assert (Eo : o = Ok 9) by (apply (f_equal fst) in E; vm_compute in E; symmetry; exact E).
    subst o. exists s'. reflexivity. }
  vm_compute. repeat split; reflexivity.
Qed.

(* and of the truncate / free theorems: chain_pre_example; truncating at 3 writes sector 11
   and its copy 13 three times: after 0 writes the chain is [3;4;7], after 1..6 it is [3] *)
Example truncate_prefix_example :
  fat_layout exc_vol 2 /\ st_ok 0 exc_vol 2 exc_state /\
  chain_of (s_disk exc_state) exc_vol 3 10 = Some (3 :: [4; 7]) /\
  let ws := fat_updates exc_vol (s_disk exc_state) (trunc_updates 3 [4; 7]) in
  map fst ws = [11; 13; 11; 13; 11; 13] /\
  map (fun k => chain_of (prefix_disk ws k (s_disk exc_state)) exc_vol 3 10) [0; 1; 2; 3; 4; 5; 6]%nat
  = [Some [3; 4; 7]; Some [3]; Some [3]; Some [3]; Some [3]; Some [3]; Some [3]] /\
  map (fun k => (fat_get (prefix_disk ws k (s_disk exc_state)) exc_vol 0 4,
                 fat_get (prefix_disk ws k (s_disk exc_state)) exc_vol 0 7)) [1; 3; 5]%nat
  = [(7, 65535); (0, 65535); (0, 0)].
Proof.
  destruct chain_pre_example as ((Hst & L & _) & _ & Hch).
  split; [exact L|]. split; [exact Hst|]. split; [exact Hch|].
  vm_compute. repeat split; reflexivity.
Qed.

(* ================================================================== 8. assumptions *)
Print Assumptions crash_disks.
Print Assumptions crash_general.
Print Assumptions crash_frame.
Print Assumptions alloc_prefix_fat.
Print Assumptions alloc_stage_chains.
Print Assumptions C10_alloc_prefix_chains.
Print Assumptions C10_alloc_prefix_chains_first.
Print Assumptions C09_frame_alloc.
Print Assumptions fat_updates_prefix.
Print Assumptions C10_truncate_prefix_chains.
Print Assumptions C10_free_prefix_chains.
Print Assumptions delete_entry_before_free.
Print Assumptions C09_frame_fat_updates.
Print Assumptions C09_frame_bytes_alloc.
Print Assumptions C09_frame_bytes_fat_updates.
Print Assumptions C09_frame.
Print Assumptions C10_make_dir_prefix_order.
Print Assumptions C10_make_dir_prefix.
Print Assumptions alloc_prefix_example.
Print Assumptions truncate_prefix_example.
