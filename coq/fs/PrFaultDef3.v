(* PROOFS: from lock-step / prefix runs to the clauses of `fault_outcome` (PrFaultDef).
   1. consequences of `lockstep`: reached <-> a failure was logged; the not-reached run;
   2. `pfxG T m`: PrFault2.pfx with a taint predicate; composition; pfx for the API calls that propagate a
      device error at once;
   3. `fault_media`: under pfxG the medium after the faulted call is a crashed medium of the fault-free
      call, hence clauses (c) and (d) from PrCrashAll. *)
From Coq Require Import NArith ZArith List Bool Lia Arith FMapPositive.
From SdFs Require Import FsTypes FsBase FsFat FsMgr FsLemmas PrBase PrAllocEffect PrChain PrFault PrGlobalDef.
From SdFs Require PrHandles PrCrash PrGlobal PrCrashAll.
From SdFs Require Import PrFault2 PrCrashDef PrCrashDef2 PrCrashDef4 PrFaultDef PrFaultDef2.
Import ListNotations.
Open Scope N_scope.

(* ================================================================== 1. consequences of lockstep *)
Lemma ext_nf s s' new : ext s s' new -> ext (nf s) (nf s') new.
Proof. intros H. exact H. Qed.

(* under a pending single fault: the armed call was reached iff a failure is in the log *)
Theorem armed_fired {A} (m : M A) n s r s' :
  lockstep m -> pending n s -> m s = (r, s') -> (n < s_ncalls s' <-> fault_fired s s').
Proof.
  intros Hm Hp E.
  destruct (proj2 Hm n s r s' Hp E) as [(Hp1 & N1)|(pre & fl & post & r0 & s0 & rest0 & T & Hfl & NP & Cn & N0 & T0 & R0)].
  - destruct Hp1 as (_ & C1). split; [lia|]. intros (new & X & Hf). exfalso.
    destruct (proj1 Hm _ _ _ N1) as (new' & X' & _ & _ & G). specialize (G (nf_no_faults s)).
    assert (new' = new) by (exact (ext_unique _ _ _ _ X' (ext_nf _ _ _ X))). subst new'. exact (G Hf).
  - destruct (proj1 Hm _ _ _ E) as (new & X & C & _). split.
    + intros _. exists (post ++ fl :: pre). split; [unfold ext; rewrite T, <- app_assoc; reflexivity|].
      apply is_fail_fails. exact Hfl.
    + intros _. unfold ext in X. rewrite X in T.
      assert (new = post ++ fl :: pre) by (apply (app_inv_tail (s_trace s)); rewrite T, <- app_assoc; reflexivity).
      subst new. rewrite C, app_length. cbn [length]. rewrite Nat2N.inj_add, Nat2N.inj_succ. lia.
Qed.

(* not reached: the run without the fault, and the fault still pending *)
Theorem ls_not_reached {A} (m : M A) n s r s' :
  lockstep m -> pending n s -> m s = (r, s') -> s_ncalls s' <= n ->
  pending n s' /\ m (nf s) = (r, nf s').
Proof.
  intros Hm Hp E Hn.
  destruct (proj2 Hm n s r s' Hp E) as [H|(pre & fl & post & r0 & s0 & rest0 & T & Hfl & NP & Cn & N0 & T0 & R0)]; [exact H|].
  exfalso. assert (n < s_ncalls s'); [|lia].
  apply (armed_fired m n s r s' Hm Hp E). exists (post ++ fl :: pre).
  split; [unfold ext; rewrite T, <- app_assoc; reflexivity|apply is_fail_fails; exact Hfl].
Qed.

(* reached: the fault is behind, the schedule is harmless from here on *)
Theorem ls_reached_passed {A} (m : M A) n s r s' :
  lockstep m -> pending n s -> m s = (r, s') -> n < s_ncalls s' -> passed n s'.
Proof.
  intros Hm (F & C) E Hn. destruct (proj1 Hm _ _ _ E) as (new & _ & _ & F1 & _). split; [congruence|exact Hn].
Qed.

(* ================================================================== 2. prefix runs with a taint *)
Definition pfxG {A} (T : outcome A -> Prop) (m : M A) : Prop :=
  forall s r s', m s = (r, s') ->
  exists ws, tr_ext s s' ws /\
    (m (nf s) = (r, nf s') \/
     (T r /\ exists r0 s0 ws0, m (nf s) = (r0, s0) /\ tr_ext (nf s) s0 (ws ++ ws0))).

Lemma pfxG_of_pfx {A} (m : M A) : pfx m -> pfxG (fun r => r = Err DeviceError) m.
Proof. intros H. exact H. Qed.
Lemma pfx_of_pfxG {A} (m : M A) : pfxG (fun r => r = Err DeviceError) m -> pfx m.
Proof. intros H. exact H. Qed.
Lemma pfxG_weaken {A} (T T' : outcome A -> Prop) (m : M A) : (forall r, T r -> T' r) -> pfxG T m -> pfxG T' m.
Proof.
  intros HT Hm s r s' E. destruct (Hm _ _ _ E) as (ws & X & [C|(C & D)]); exists ws; (split; [exact X|]); [left; exact C|right].
  split; [exact (HT _ C)|exact D].
Qed.
Lemma pfxG_tr_ext {A} (T : outcome A -> Prop) (m : M A) : pfxG T m -> forall s r s', m s = (r, s') -> exists ws, tr_ext s s' ws.
Proof. intros Hm s r s' E. destruct (Hm _ _ _ E) as (ws & X & _). exists ws. exact X. Qed.

Lemma tail_tr_ext {A B} (T : outcome B -> Prop) (k : A -> M B) : (forall a, pfxG T (k a)) ->
  forall (r1 : outcome A) s1 r s', tail r1 s1 k = (r, s') -> exists ws, tr_ext s1 s' ws.
Proof.
  intros Hk r1 s1 r s' E. destruct r1 as [a|e| |]; cbn [tail] in E;
    try (injection E as <- <-; exists []; apply tr_ext_refl).
  exact (pfxG_tr_ext T (k a) (Hk a) _ _ _ E).
Qed.

(* once the run is tainted the rest of the bind is quiet and yields a tainted result *)
Lemma pfxG_bind {A B} (T1 : outcome A -> Prop) (T2 : outcome B -> Prop) (m : M A) (k : A -> M B) :
  pfxG T1 m -> (forall a, pfxG T2 (k a)) ->
  (forall r1 s1 r s', T1 r1 -> tail r1 s1 k = (r, s') -> T2 r /\ tr_ext s1 s' []) ->
  pfxG T2 (bind m k).
Proof.
  intros Hm Hk Hq s r s' E. destruct (m s) as [r1 s1] eqn:E1. rewrite (bind_tail' _ _ _ _ _ E1) in E.
  destruct (Hm _ _ _ E1) as (ws1 & X1 & [C1|(C1 & r0 & s0 & ws0 & N0 & X0)]).
  - rewrite (bind_tail' _ _ _ _ _ C1).
    destruct r1 as [a|e| |]; cbn [tail] in E |- *;
      try (injection E as <- <-; exists ws1; split; [exact X1|left; reflexivity]).
    destruct (Hk a _ _ _ E) as (ws2 & X2 & C2).
    exists (ws1 ++ ws2). split; [exact (tr_ext_trans _ _ _ _ _ X1 X2)|].
    destruct C2 as [C2|(C2 & r0 & s0 & ws0 & N0 & X0)]; [left; exact C2|right].
    split; [exact C2|]. exists r0, s0, ws0. split; [exact N0|].
    rewrite <- app_assoc. exact (tr_ext_trans _ _ _ _ _ (tr_ext_nf _ _ _ X1) X0).
  - destruct (Hq _ _ _ _ C1 E) as (C2 & Xq).
    exists ws1. split; [exact (tr_ext_trans_nil _ _ _ _ X1 Xq)|]. right. split; [exact C2|].
    rewrite (bind_tail' _ _ _ _ _ N0). destruct (tail r0 s0 k) as [r2 s2] eqn:E2.
    destruct (tail_tr_ext T2 k Hk _ _ _ _ E2) as (ws3 & X3).
    exists r2, s2, (ws0 ++ ws3). split; [reflexivity|]. rewrite app_assoc. exact (tr_ext_trans _ _ _ _ _ X0 X3).
Qed.

(* the usual case: the taint is a non-Ok result that the bind passes on *)
Lemma pfxG_bind_err {A B} (T1 : outcome A -> Prop) (T2 : outcome B -> Prop) (m : M A) (k : A -> M B) :
  pfxG T1 m -> (forall a, pfxG T2 (k a)) ->
  (forall r1, T1 r1 -> (forall a, r1 <> Ok a) /\ T2 (cast r1)) ->
  pfxG T2 (bind m k).
Proof.
  intros Hm Hk Hc. apply (pfxG_bind T1 T2); [exact Hm|exact Hk|].
  intros r1 s1 r s' H1 E. destruct (Hc r1 H1) as (Hn & H2).
  destruct r1 as [a|e| |]; cbn [tail] in E; [exfalso; exact (Hn a eq_refl)| | |];
    injection E as <- <-; (split; [exact H2|apply tr_ext_refl]).
Qed.

(* a caught error becomes a value *)
Definition caught {A} (T : outcome A -> Prop) (r : outcome (A + err)) : Prop :=
  match r with
  | Ok (inl a) => T (Ok a)
  | Ok (inr e) => T (Err e)
  | Err _ => False
  | Panic => T Panic
  | OutOfFuel => T OutOfFuel
  end.
Lemma pfxG_try {A} (T : outcome A -> Prop) (m : M A) : pfxG T m -> pfxG (caught T) (try m).
Proof.
  intros Hm s r s' E. unfold try in E |- *. destruct (m s) as [r1 s1] eqn:E1.
  destruct (Hm _ _ _ E1) as (ws & X & [C|(C & r0 & s0 & ws0 & N0 & X0)]).
  - exists ws. rewrite C. destruct r1; injection E as <- <-; (split; [exact X|left; reflexivity]).
  - rewrite N0. assert (Es : s' = s1) by (destruct r1; injection E as _ <-; reflexivity). subst s'.
    exists ws. split; [exact X|]. right. split.
    + destruct r1; injection E as <-; exact C.
    + destruct r0; eexists _, s0, ws0; (split; [reflexivity|exact X0]).
Qed.

Lemma pfxG_bind_get {B} (T : outcome B -> Prop) (k : st -> M B) :
  (forall s0, pfxG T (k s0)) -> (forall s0, k (nf s0) = k s0) -> pfxG T (bind get k).
Proof.
  intros Hk Hn s r s' E. rewrite PrHandles.bind_get in E. destruct (Hk s _ _ _ E) as (ws & X & C).
  exists ws. split; [exact X|]. rewrite !PrHandles.bind_get, Hn. exact C.
Qed.
Lemma pfxG_locked {A} (T : outcome A -> Prop) (m : M A) : pfxG T m -> pfxG T (locked m).
Proof.
  intros Hm. unfold locked. apply pfxG_bind_get; [|intros s0; reflexivity].
  intros s0. destruct (s_lock s0); [|exact Hm].
  intros s r s' E. injection E as <- <-. exists []. split; [apply tr_ext_refl|left; reflexivity].
Qed.
Lemma pfx_locked {A} (m : M A) : pfx m -> pfx (locked m).
Proof. intros H. apply pfx_of_pfxG, pfxG_locked, pfxG_of_pfx, H. Qed.

(* ---- pfx for the manager-level helpers and the API calls that propagate at once ---- *)
Lemma pfx_generate : pfx generate. Proof. unfold generate. pfx_go. Qed.
Lemma pfx_get_volume_by_id h : pfx (get_volume_by_id h). Proof. unfold get_volume_by_id. pfx_go. Qed.
Lemma pfx_get_dir_by_id h : pfx (get_dir_by_id h). Proof. unfold get_dir_by_id. pfx_go. Qed.
Lemma pfx_get_file_by_id h : pfx (get_file_by_id h). Proof. unfold get_file_by_id. pfx_go. Qed.
Lemma pfx_get_dir i : pfx (get_dir i). Proof. unfold get_dir. pfx_go. Qed.
Lemma pfx_get_file i : pfx (get_file i). Proof. unfold get_file. pfx_go. Qed.
Lemma pfx_put_file i f : pfx (put_file i f). Proof. unfold put_file. pfx_go. Qed.
Lemma pfx_file_is_open v e : pfx (file_is_open v e). Proof. unfold file_is_open. pfx_go. Qed.
Lemma pfx_push_dir d : pfx (push_dir d). Proof. unfold push_dir. pfx_go. Qed.
Lemma pfx_push_file f : pfx (push_file f). Proof. unfold push_file. pfx_go. Qed.
#[export] Hint Resolve pfx_generate pfx_get_volume_by_id pfx_get_dir_by_id pfx_get_file_by_id pfx_get_dir pfx_get_file
  pfx_put_file pfx_file_is_open pfx_push_dir pfx_push_file pfx_find_directory_entry pfx_delete_directory_entry
  pfx_write_new_directory_entry pfx_free_cluster_chain : pfx.

Lemma pfx_open_root_dir h : pfx (open_root_dir h).
Proof. unfold open_root_dir. apply pfx_locked. pfx_go. Qed.
Lemma pfx_open_dir h name : pfx (open_dir h name).
Proof. unfold open_dir. apply pfx_locked. pfx_go. Qed.
Lemma pfx_close_dir h : pfx (close_dir h).
Proof. unfold close_dir. apply pfx_locked. pfx_go. Qed.
Lemma pfx_mgr_find h name : pfx (mgr_find h name).
Proof. unfold mgr_find. apply pfx_locked. pfx_go. Qed.
Lemma pfx_open_file_in_dir h name md : pfx (open_file_in_dir h name md).
Proof. unfold open_file_in_dir. apply pfx_locked. pfx_go. Qed.
Lemma pfx_delete_file_in_dir h name : pfx (delete_file_in_dir h name).
Proof. unfold delete_file_in_dir. apply pfx_locked. pfx_go. Qed.
Lemma pfx_flush_file h : pfx (flush_file h).
Proof. unfold flush_file. apply pfx_locked. pfx_go. Qed.
Lemma pfx_has_open_handles : pfx has_open_handles.
Proof. unfold has_open_handles. pfx_go. Qed.
Lemma pfx_with_file {A} h (k : nat -> fileinfo -> M A) : (forall fi f, pfx (k fi f)) -> pfx (with_file h k).
Proof. intros Hk. unfold with_file. apply pfx_locked. pfx_go. Qed.
Lemma pfx_file_eof h : pfx (file_eof h). Proof. apply pfx_with_file. intros; pfx_go. Qed.
Lemma pfx_file_length h : pfx (file_length h). Proof. apply pfx_with_file. intros; pfx_go. Qed.
Lemma pfx_file_offset h : pfx (file_offset h). Proof. apply pfx_with_file. intros; pfx_go. Qed.
Lemma pfx_file_seek_from_start h x : pfx (file_seek_from_start h x). Proof. apply pfx_with_file. intros; pfx_go. Qed.
Lemma pfx_file_seek_from_end h x : pfx (file_seek_from_end h x). Proof. apply pfx_with_file. intros; pfx_go. Qed.
Lemma pfx_file_seek_from_current h x : pfx (file_seek_from_current h x).
Proof. apply pfx_with_file. intros; cbv zeta; pfx_go. Qed.
Lemma pfx_lift {A} (f : A -> res) (m : M A) : pfx m -> pfx (lift f m).
Proof. intros H. unfold lift. pfx_go. Qed.

Definition prop_op (o : op) : bool :=
  match o with
  | OpenRoot _ | OpenDir _ _ | CloseDir _ | Find _ _ | OpenFile _ _ _ | Flush _ | Delete _ _
  | SeekStart _ _ | SeekCur _ _ | SeekEnd _ _ | Length _ | Offset _ | Eof _ | HasOpen => true
  | _ => false
  end.

(* the calls that hand a device error up at once: under ANY schedule a faulted run returns
   Err DeviceError and has performed a prefix of the writes of the fault-free run *)
Theorem pfx_step_prop o : prop_op o = true -> pfx (step o).
Proof.
  destruct o; try discriminate; intros _; cbn [step]; apply pfx_lift.
  - apply pfx_open_root_dir.
  - apply pfx_open_dir.
  - apply pfx_close_dir.
  - apply pfx_mgr_find.
  - apply pfx_open_file_in_dir.
  - apply pfx_flush_file.
  - apply pfx_file_seek_from_start.
  - apply pfx_file_seek_from_current.
  - apply pfx_file_seek_from_end.
  - apply pfx_file_length.
  - apply pfx_file_offset.
  - apply pfx_file_eof.
  - apply pfx_delete_file_in_dir.
  - apply pfx_has_open_handles.
Qed.

(* ================================================================== 3. the medium after a faulted prefix run *)
(* the invariant does not look at the schedule beyond "all faults are behind" *)
Lemma fs_inv_sched fsz vid s s2 :
  fs_inv fsz vid s ->
  s_disk s2 = s_disk s -> s_cache s2 = s_cache s -> s_tag s2 = s_tag s -> s_vols s2 = s_vols s ->
  s_dirs s2 = s_dirs s -> s_files s2 = s_files s -> s_lock s2 = s_lock s -> no_faults s2 ->
  fs_inv fsz vid s2.
Proof.
  intros (vi & v & bl & rch & T & Hat) Hd Hc Ht Hv Hdi Hf Hl Hnf.
  exists vi, v, bl, rch, T.
  pose proof Hat as [A B C D E F G H I J K].
  apply (fs_inv_at_transport fsz vid s s2 vi v bl rch T Hat Hd Hv Hdi).
  - rewrite Hl. exact (proj1 C).
  - exact Hnf.
  - destruct C as (_ & ((_ & Hco & _) & _) & _). intros i Hi. rewrite Hc, Hd. apply Hco. rewrite <- Ht. exact Hi.
  - rewrite Hf. rewrite Forall_forall in *. intros f Hin. exact (ofile_ok_same_disk s s2 v T f Hd (H f Hin)).
  - rewrite Hf. exact I.
  - rewrite Hf. exact J.
  - unfold pend_of. rewrite Hd, Hf. reflexivity.
Qed.

Lemma fs_inv_nf fsz vid s : fs_inv fsz vid s -> fs_inv fsz vid (nf s).
Proof. intros H. apply (fs_inv_sched fsz vid s (nf s) H); try reflexivity. apply nf_no_faults. Qed.
Lemma id_fresh_nf s : id_fresh s -> id_fresh (nf s).
Proof. intros H. exact H. Qed.

Theorem fault_media {T : outcome res -> Prop} o : pfxG T (step o) ->
  forall s i r s', step o (arm s i) = (r, s') ->
    exists r0 s0, step o (nf s) = (r0, s0) /\ crash_disks (nf s) s0 (s_disk s').
Proof.
  intros Hp s i r s' E. destruct (Hp _ _ _ E) as (ws & X & [C|(_ & r0 & s0 & ws0 & N0 & X0)]).
  - rewrite nf_arm in C. exists r, (nf s'). split; [exact C|].
    exact (crash_disks_new (nf s) (nf s') (traced_step o _ _ _ C)).
  - rewrite nf_arm in N0, X0. exists r0, s0. split; [exact N0|].
    exists (length ws). rewrite (tr_ext_step_writes _ _ _ X0). split; [rewrite app_length; lia|].
    unfold PrCrash.prefix_disk. rewrite firstn_app, firstn_all, Nat.sub_diag. cbn [firstn]. rewrite app_nil_r.
    exact (tr_ext_disk _ _ _ X).
Qed.

(* clauses (c) and (d) for every operation whose step is a prefix run *)
Theorem fault_crash {T : outcome res -> Prop} fsz vid o : pfxG T (step o) ->
  forall s i r s' v, fs_inv fsz vid s -> id_fresh s -> op_known_ok o -> s_vols s = [v] ->
    step o (arm s i) = (r, s') -> crash_inv fsz v (s_disk s').
Proof.
  intros Hp s i r s' v Hinv Hid Hok Hv E. destruct (fault_media o Hp s i r s' E) as (r0 & s0 & N0 & Hc).
  exact (PrCrashAll.all_steps_crash fsz vid o (nf s) r0 s0 (fs_inv_nf _ _ _ Hinv) (id_fresh_nf _ Hid) Hok N0 v (s_disk s') Hv Hc).
Qed.

Theorem fault_keep {T : outcome res -> Prop} fsz vid o : pfxG T (step o) ->
  forall s i r s' v, fs_inv fsz vid s -> id_fresh s -> op_known_ok o -> s_vols s = [v] ->
    step o (arm s i) = (r, s') ->
    forall path e bytes, file_on_medium (s_disk s) v path e bytes -> ~ op_targets s v o e ->
      file_on_medium (s_disk s') v path e bytes.
Proof.
  intros Hp s i r s' v Hinv Hid Hok Hv E path e bytes Hfm Hnt.
  destruct (fault_media o Hp s i r s' E) as (r0 & s0 & N0 & Hc).
  refine (PrCrashAll.all_steps_keep fsz vid o (nf s) r0 s0 (fs_inv_nf _ _ _ Hinv) (id_fresh_nf _ Hid) Hok N0
            v path e bytes Hv Hfm _ (s_disk s') Hc).
  intros H. apply Hnt. destruct o; exact H.
Qed.

(* clause (a) under a pending fault that was reached *)
Theorem fault_err o : PrFault.is_mkdir o = false ->
  forall s i r s', step o (arm s i) = (r, s') -> s_ncalls s + i < s_ncalls s' -> exists e, r = Err e.
Proof.
  intros Hm s i r s' E Hn.
  apply (C11_api_reports o Hm (arm s i) r s' E).
  apply (armed_fired (step o) (s_ncalls s + i) (arm s i) r s' (lockstep_step o) (pending_arm s i) E). exact Hn.
Qed.

Print Assumptions pfx_step_prop.
Print Assumptions fault_crash.
Print Assumptions fault_keep.
