(* PROOFS: the global invariant PrGlobalDef.fs_inv is re-established by `Delete d name`
   (FsMgr.delete_file_in_dir) in EVERY outcome (C03 / C04 / C05 for whole histories).

   0  lists                                   5  the run of delete_file_in_dir: handles, the
   1  8.3 names produced by sfn_of_str           directory behind a handle, what the lookup finds,
   2  pruning a tree at a slot position          the assembly of fs_inv, the successful deletion
   3  marking ONE slot deleted: directories,  6  del_cases (decision table), step_ok (Delete d name)
      the tree, node_ok                       7  C05_delete_frees
   4  the FAT frame (chains of the heads kept) 8  example

   MAIN RESULTS
     del_cases         every outcome: a refusal e in {BadHandle (stale handle, or a handle whose
                       volume id is not the mounted one), FilenameError, NotFound, DeleteDirAsFile,
                       FileAlreadyOpen} that only read (ro_step / reads_only), or the deletion
                       (record del_done: the run, the node, the new invariant, the freed chain,
                       the counts, the classified write list)
     step_ok_Delete    step_ok fsz vid (Delete d name), no hypothesis beyond those of step_ok
     C05_delete_frees  the chain of the deleted file node is free afterwards, free_entries and the
                       in-memory count grew by its length, a truthful count stays truthful
   THE TREE AFTERWARDS is prune_list blk off T: the old tree without the node whose slot is at
   (blk, off) - the other entries of that directory, their order, and every other directory are
   unchanged; the end marker does not move (a deleted slot is no end marker: kill_dir_ok keeps
   clean_tail); names stay unique; long-name slots in front of the deleted short entry stay
   behind as orphans: dir_ok does not constrain long-name slots.

   ORDER OF THE TWO EFFECTS in the model (and in the crate): delete_directory_entry FIRST (the
   first byte of the slot becomes 0xE5, one block write), free_cluster_chain AFTERWARDS (FAT
   writes only) - del_run_success.  Under fs_inv and without device faults the second step cannot
   fail (PrWf.C03_free_chain_wf), so the call is atomic at the API level.  A crash between the two
   leaves the chain allocated but unreachable (lost clusters; never a cross link).
   FAT16 / FAT32: the first cluster is the one the decoder t_entry (v_fat32 v) reads (high word
   only on FAT32); the tree and the lookup use the same decoder, so the chain that is freed is
   the chain of the node.  An entry whose first cluster is >= 2 but has no proper chain of its own
   cannot be a node of the tree (node_rep + fat_wf). *)
From Coq Require Import NArith ZArith List Bool Lia Arith ZifyClasses ZifyInst Zify FMapPositive Permutation.
From SdFs Require Import FsTypes FsBase FsFat FsMgr FsLemmas PrBase PrFat PrAlloc PrDir PrSeek PrAllocEffect
  PrRw PrWrite PrFileSeq PrMulti PrEntry PrChain PrCount PrWf PrOpenClose PrGlobalDef.
From SdFs Require PrModes PrHandles PrCrash PrBounds PrOrder.
Import ListNotations.
Open Scope N_scope.
Local Arguments N.mul : simpl never.
Local Arguments N.add : simpl never.
Local Arguments N.sub : simpl never.
Local Arguments N.div : simpl never.
Local Arguments N.modulo : simpl never.
Local Arguments N.land : simpl never.
Local Arguments N.lor : simpl never.
Local Arguments N.min : simpl never.
Local Arguments N.max : simpl never.
Local Ltac Zify.zify_post_hook ::= Z.to_euclidean_division_equations.

(* ================================================================== 0. lists *)
Lemma del_filter_map_kill {A} (p q : A -> bool) (g : A -> A) : forall l,
  (forall t, In t l -> q t = false -> g t = t) ->
  (forall t, In t l -> q t = true -> p (g t) = false) ->
  filter p (map g l) = filter (fun t => negb (q t)) (filter p l).
Proof.
  induction l as [|t l IH]; intros H1 H2; [reflexivity|].
  cbn [map filter].
  rewrite IH; [|intros t0 Ht0; apply H1; right; exact Ht0|intros t0 Ht0; apply H2; right; exact Ht0].
  destruct (q t) eqn:Eq.
  - rewrite (H2 t (or_introl eq_refl) Eq).
    destruct (p t); [cbn [filter]; rewrite Eq; reflexivity|reflexivity].
  - rewrite (H1 t (or_introl eq_refl) Eq).
    destruct (p t); [cbn [filter]; rewrite Eq; reflexivity|reflexivity].
Qed.

Lemma del_nodup_map_filter {A B} (g : A -> B) (q : A -> bool) : forall l,
  NoDup (map g l) -> NoDup (map g (filter q l)).
Proof.
  induction l as [|a l IH]; intros H; [constructor|].
  cbn [map] in H. inversion H as [|? ? Hx Hl]; subst. cbn [filter].
  destruct (q a); [|exact (IH Hl)]. cbn [map]. constructor; [|exact (IH Hl)].
  intros Hin. apply Hx. apply in_map_iff in Hin. destruct Hin as (b & Eb & Hb).
  apply filter_In in Hb. apply in_map_iff. exists b. split; [exact Eb|exact (proj1 Hb)].
Qed.

Lemma del_after_end_map (g : tslot -> tslot) l :
  (forall t, In t l -> t_is_end (g t) = t_is_end t) -> after_end (map g l) = map g (after_end l).
Proof.
  induction l as [|x l IH]; intros H; [reflexivity|]. cbn [map after_end].
  rewrite (H x (or_introl eq_refl)). destruct (t_is_end x); [reflexivity|].
  apply IH. intros t Ht. apply H. right. exact Ht.
Qed.

(* fat_wf looks at the head list as a duplicate-free SET *)
Lemma del_fat_wf_set d v hs hs' : NoDup hs' -> (forall x, In x hs' <-> In x hs) ->
  fat_wf d v hs -> fat_wf d v hs'.
Proof.
  intros Hnd Hin [A B C D]. constructor.
  - intros h Hh. apply A. apply Hin. exact Hh.
  - exact Hnd.
  - intros h1 h2 ch1 ch2 c H1 H2. apply C; apply Hin; assumption.
  - intros c C1 C2. rewrite (D c C1 C2). unfold reachable.
    split; intros (h & ch & X & Y & Z); exists h, ch; (split; [apply Hin; exact X|split; assumption]).
Qed.

(* ================================================================== 1. the names sfn_of_str produces *)
(* 11 bytes, none of them below 0x20: an end marker or (D29 aside) a deleted slot can never be
   taken for such a name (a long-name slot neither: FsFat.matches skips those) *)
Definition sfn_shape (l : list N) : Prop := length l = 11%nat /\ Forall (fun x => 32 <= x) l.

Lemma del_set_bytes_shape l idx b : sfn_shape l -> idx < 11 -> 32 <= b -> sfn_shape (set_bytes l idx [b]).
Proof.
  intros [Hl Hf] Hi Hb. split.
  - rewrite set_bytes_length; [exact Hl|]. rewrite Hl. cbn [length]. lia.
  - unfold set_bytes. apply Forall_app. split; [apply Forall_forall; intros x Hx; apply In_firstn in Hx;
      rewrite Forall_forall in Hf; exact (Hf x Hx)|].
    apply Forall_app. split; [constructor; [exact Hb|constructor]|].
    apply Forall_forall. intros x Hx. rewrite Forall_forall in Hf. apply Hf.
    revert Hx. generalize (N.to_nat idx + length [b])%nat as k. intros k. revert l Hl Hf.
    induction k as [|k IH]; intros l0 _ _ Hx; [exact Hx|].
    destruct l0 as [|y l0]; [destruct Hx|]. right. cbn [skipn] in Hx.
    clear - Hx. revert l0 Hx. induction k as [|k IH]; intros l0 Hx; [exact Hx|].
    destruct l0 as [|z l0]; [destruct Hx|]. right. apply IH. exact Hx.
Qed.

Lemma del_upper_ge c : sfn_invalid_char c = false -> 32 <= upper c.
Proof.
  unfold sfn_invalid_char, upper. intros H. apply orb_false_iff in H. destruct H as [H _].
  apply N.leb_gt in H. destruct ((97 <=? c) && (c <=? 122)) eqn:E; [|lia].
  apply andb_true_iff in E. destruct E as [E _]. apply N.leb_le in E. lia.
Qed.

Lemma del_sfn_loop_shape : forall chars contents idx seen r,
  sfn_shape contents -> sfn_loop chars contents idx seen = Some r -> sfn_shape r.
Proof.
  induction chars as [|ch rest IH]; intros contents idx seen r Hs H; cbn [sfn_loop] in H.
  - destruct (idx =? 0); [discriminate|]. injection H as <-. exact Hs.
  - destruct (sfn_invalid_char ch) eqn:Einv; [discriminate|].
    destruct (255 <? ch); [discriminate|].
    destruct (ch =? 46).
    + destruct (negb seen && (1 <=? idx) && (idx <=? 8)); [|discriminate]. exact (IH _ _ _ _ Hs H).
    + cbv zeta in H. pose proof (del_upper_ge ch Einv) as Hu. destruct seen.
      * destruct ((8 <=? idx) && (idx <? 11)) eqn:E; [|discriminate].
        apply andb_true_iff in E. destruct E as [_ E]. apply N.ltb_lt in E.
        exact (IH _ _ _ _ (del_set_bytes_shape _ _ _ Hs E Hu) H).
      * destruct (idx <? 8) eqn:E; [|discriminate]. apply N.ltb_lt in E.
        assert (E' : idx < 11) by lia.
        exact (IH _ _ _ _ (del_set_bytes_shape _ _ _ Hs E' Hu) H).
Qed.

Theorem del_sfn_shape name sfn : sfn_of_str name = Some sfn -> sfn_shape sfn.
Proof.
  unfold sfn_of_str. intros H.
  destruct (list_eqb name [46; 46]).
  - injection H as <-. split; [reflexivity|]. unfold PARENT_DIR_NAME. repeat constructor; lia.
  - destruct (list_eqb name [] || list_eqb name [46]).
    + injection H as <-. split; [reflexivity|]. unfold THIS_DIR_NAME. repeat constructor; lia.
    + assert (Hs : sfn_shape (repeat 32 11)) by (split; [reflexivity|cbn [repeat]; repeat constructor; lia]).
      exact (del_sfn_loop_shape _ _ _ _ _ Hs H).
Qed.

Lemma del_nth_firstn (l : list N) k : (k < 11)%nat -> nth k (firstn 11 l) 0 = nth k l 0.
Proof. intros H. apply nth_firstn_lt. exact H. Qed.

(* a slot that matches such a name: it is valid (unless the name starts with 0xE5) and it is no
   long-name slot *)
Lemma del_match_short sfn t :
  sfn_shape sfn -> get8 sfn 0 <> 229 -> t_matches sfn t = true ->
  t_name t = sfn /\ t_is_valid t = true /\ is_lfn (t_attr t) = false.
Proof.
  intros [Hl Hf] H229 Hm. unfold t_matches in Hm.
  pose proof (matches_first _ _ Hm) as En. split; [exact En|].
  assert (H0 : 32 <= get8 sfn 0).
  { unfold get8. change (N.to_nat 0) with 0%nat. rewrite Forall_forall in Hf. apply Hf.
    apply nth_In. rewrite Hl. lia. }
  split.
  - unfold t_is_valid. apply (matches_valid sfn (snd t)); [lia|exact H229|exact Hm].
  - exact (proj1 (matches_parts _ _ Hm)).
Qed.

(* ================================================================== 2. pruning a tree at a slot position *)
(* a joint induction principle for nodes and forests *)
Lemma del_node_list_ind (P : node -> Prop) (Q : list node -> Prop) :
  (forall e ch, P (NFile e ch)) -> (forall e ch kids, Q kids -> P (NDir e ch kids)) ->
  Q [] -> (forall k l, P k -> Q l -> Q (k :: l)) -> (forall n, P n) /\ (forall l, Q l).
Proof.
  intros Hf Hd Hn Hc.
  assert (HP : forall n, P n).
  { induction n as [e ch|e ch kids IH] using node_ind'; [apply Hf|]. apply Hd.
    induction IH as [|k ks Hk _ IHks]; [exact Hn|exact (Hc k ks Hk IHks)]. }
  split; [exact HP|]. induction l as [|k l IH]; [exact Hn|exact (Hc k l (HP k) IH)].
Qed.

Section Prune.
  Variables pb po : N.

  Definition at_pos (t : tslot) : bool := (fst (fst t) =? pb) && (snd (fst t) =? po).
  Definition at_epos (e : dirent) : bool := (e_block e =? pb) && (e_offset e =? po).
  Definition keep (n : node) : bool := negb (at_epos (node_entry n)).

  Fixpoint prune_node (n : node) : node :=
    match n with
    | NFile _ _ => n
    | NDir e ch kids =>
        NDir e ch ((fix go (ks : list node) : list node :=
                      match ks with
                      | [] => []
                      | k :: ks' => if keep k then prune_node k :: go ks' else go ks'
                      end) kids)
    end.
  Definition prune_list (l : list node) : list node := map prune_node (filter keep l).

  Lemma prune_node_dir e ch kids : prune_node (NDir e ch kids) = NDir e ch (prune_list kids).
  Proof.
    cbn [prune_node]. f_equal. unfold prune_list.
    induction kids as [|k ks IH]; [reflexivity|]. cbn [filter]. destruct (keep k); [cbn [map]; f_equal|]; exact IH.
  Qed.

  Lemma prune_list_cons k l :
    prune_list (k :: l) = if keep k then prune_node k :: prune_list l else prune_list l.
  Proof. unfold prune_list. cbn [filter]. destruct (keep k); reflexivity. Qed.

  Lemma prune_entry n : node_entry (prune_node n) = node_entry n.
  Proof. destruct n as [e ch|e ch kids]; [reflexivity|rewrite prune_node_dir; reflexivity]. Qed.

  Lemma prune_keep n : keep (prune_node n) = keep n.
  Proof. unfold keep. rewrite prune_entry. reflexivity. Qed.

  Lemma prune_own_head n : own_head (prune_node n) = own_head n.
  Proof. destruct n as [e ch|e ch kids]; [reflexivity|rewrite prune_node_dir; reflexivity]. Qed.

  Lemma node_heads_dir e ch kids : node_heads (NDir e ch kids) = e_cluster e :: flat_map node_heads kids.
  Proof. reflexivity. Qed.

  (* ---- heads: nothing new ---- *)
  Lemma prune_heads_sub x :
    (forall m, In x (node_heads (prune_node m)) -> In x (node_heads m)) /\
    (forall l, In x (flat_map node_heads (prune_list l)) -> In x (flat_map node_heads l)).
  Proof.
    apply del_node_list_ind.
    - intros e ch H. exact H.
    - intros e ch kids IH. rewrite prune_node_dir, !node_heads_dir. intros [H|H]; [left; exact H|right; exact (IH H)].
    - intros H. exact H.
    - intros k l Hk Hl. rewrite prune_list_cons. cbn [flat_map]. destruct (keep k).
      + cbn [flat_map]. intros H. apply in_app_or in H. apply in_or_app.
        destruct H as [H|H]; [left; exact (Hk H)|right; exact (Hl H)].
      + intros H. apply in_or_app. right. exact (Hl H).
  Qed.

  Lemma prune_heads_nodup :
    (forall m, NoDup (node_heads m) -> NoDup (node_heads (prune_node m))) /\
    (forall l, NoDup (flat_map node_heads l) -> NoDup (flat_map node_heads (prune_list l))).
  Proof.
    apply del_node_list_ind.
    - intros e ch H. exact H.
    - intros e ch kids IH. rewrite prune_node_dir, !node_heads_dir. intros H.
      inversion H as [|? ? Hx Hr]; subst. constructor; [|exact (IH Hr)].
      intros Hin. apply Hx. exact (proj2 (prune_heads_sub _) kids Hin).
    - intros H. exact H.
    - intros k l Hk Hl. rewrite prune_list_cons. cbn [flat_map]. intros H.
      destruct (nodup_app_inv _ _ H) as (N1 & N2 & N3). destruct (keep k); [|exact (Hl N2)].
      cbn [flat_map]. apply nodup_app; [exact (Hk N1)|exact (Hl N2)|].
      intros x X1 X2. exact (N3 x (proj1 (prune_heads_sub x) k X1) (proj2 (prune_heads_sub x) l X2)).
  Qed.

  (* ---- when the only node at the position is the file node n0 ---- *)
  Variables (e0 : dirent) (ch0 : list N).
  Local Notation n0 := (NFile e0 ch0).

  Definition only_n0 (l : list node) : Prop := forall k, In k l -> keep k = false -> k = NFile e0 ch0.

  (* heads: everything but the heads of n0 stays *)
  Lemma prune_heads_conv x : ~ In x (node_heads n0) ->
    (forall m, only_n0 (flatten m) -> In x (node_heads m) -> keep m = true -> In x (node_heads (prune_node m))) /\
    (forall l, only_n0 (all_nodes l) -> In x (flat_map node_heads l) -> In x (flat_map node_heads (prune_list l))).
  Proof.
    intros Hx. apply del_node_list_ind.
    - intros e ch _ H _. exact H.
    - intros e ch kids IH Ho H _. rewrite prune_node_dir. rewrite node_heads_dir in *.
      destruct H as [H|H]; [left; exact H|right]. apply IH; [|exact H].
      intros k Hk. apply Ho. cbn [flatten]. right. exact Hk.
    - intros _ H. exact H.
    - intros k l Hk Hl Ho H. rewrite prune_list_cons. cbn [flat_map] in H. apply in_app_or in H.
      assert (Hok : only_n0 (flatten k)) by (intros k0 Hk0; apply Ho; unfold all_nodes; cbn [flat_map]; apply in_or_app; left; exact Hk0).
      assert (Hol : only_n0 (all_nodes l)) by (intros k0 Hk0; apply Ho; unfold all_nodes; cbn [flat_map]; apply in_or_app; right; exact Hk0).
      destruct (keep k) eqn:Ek.
      + cbn [flat_map]. apply in_or_app. destruct H as [H|H]; [left; exact (Hk Hok H eq_refl)|right; exact (Hl Hol H)].
      + destruct H as [H|H]; [|exact (Hl Hol H)].
        exfalso. apply Hx. rewrite <- (Hok k (flatten_self k) Ek). exact H.
  Qed.

  (* heads: the heads of n0 are gone *)
  Lemma prune_heads_gone x : In x (node_heads n0) -> keep n0 = false ->
    (forall m, NoDup (node_heads m) -> In n0 (flatten m) -> keep m = true -> ~ In x (node_heads (prune_node m))) /\
    (forall l, NoDup (flat_map node_heads l) -> In n0 (all_nodes l) -> ~ In x (flat_map node_heads (prune_list l))).
  Proof.
    intros Hx Hk0.
    assert (Hsub : forall m, In n0 (flatten m) -> In x (node_heads m)).
    { intros m Hm. rewrite node_heads_flatten. apply in_flat_map. exists n0. split; [exact Hm|exact Hx]. }
    apply del_node_list_ind.
    - intros e ch _ [E|[]] Hk. rewrite E in Hk. rewrite Hk0 in Hk. discriminate.
    - intros e ch kids IH Hnd Hin Hk. rewrite prune_node_dir. rewrite node_heads_dir in *.
      inversion Hnd as [|? ? Hc Hr]; subst.
      destruct Hin as [E|Hin]; [discriminate E|].
      intros [E|H]; [|exact (IH Hr Hin H)].
      apply Hc. rewrite E. apply in_flat_map in Hin. destruct Hin as (k & Hk1 & Hk2).
      apply in_flat_map. exists k. split; [exact Hk1|exact (Hsub k Hk2)].
    - intros _ [].
    - intros k l Hk Hl Hnd Hin. rewrite prune_list_cons. cbn [flat_map] in Hnd.
      destruct (nodup_app_inv _ _ Hnd) as (N1 & N2 & N3).
      unfold all_nodes in Hin. cbn [flat_map] in Hin. apply in_app_or in Hin. destruct Hin as [Hin|Hin].
      + assert (Hl' : ~ In x (flat_map node_heads (prune_list l))).
        { intros H. exact (N3 x (Hsub k Hin) (proj2 (prune_heads_sub x) l H)). }
        destruct (keep k) eqn:Ek; [|exact Hl'].
        cbn [flat_map]. intros H. apply in_app_or in H. destruct H as [H|H]; [|exact (Hl' H)].
        exact (Hk N1 Hin eq_refl H).
      + assert (Hxl : In x (flat_map node_heads l)).
        { apply in_flat_map in Hin. destruct Hin as (k1 & Hk1 & Hk2). apply in_flat_map. exists k1.
          split; [exact Hk1|exact (Hsub k1 Hk2)]. }
        destruct (keep k); [|exact (Hl N2 Hin)].
        cbn [flat_map]. intros H. apply in_app_or in H. destruct H as [H|H]; [|exact (Hl N2 Hin H)].
        exact (N3 x (proj1 (prune_heads_sub x) k H) Hxl).
  Qed.

  (* membership: a kept node stays in the tree (pruned) *)
  Lemma prune_all_nodes k : keep k = true ->
    (forall m, only_n0 (flatten m) -> In k (flatten m) -> keep m = true -> In (prune_node k) (flatten (prune_node m))) /\
    (forall l, only_n0 (all_nodes l) -> In k (all_nodes l) -> In (prune_node k) (all_nodes (prune_list l))).
  Proof.
    intros Hk. apply del_node_list_ind.
    - intros e ch _ [E|[]] _. rewrite <- E. left. reflexivity.
    - intros e ch kids IH Ho Hin _. destruct Hin as [E|Hin]; [rewrite <- E; apply flatten_self|].
      rewrite prune_node_dir. cbn [flatten]. right. apply IH; [|exact Hin].
      intros k1 Hk1. apply Ho. cbn [flatten]. right. exact Hk1.
    - intros _ [].
    - intros k1 l Hk1 Hl Ho Hin. rewrite prune_list_cons.
      assert (Hok : only_n0 (flatten k1)) by (intros k2 Hk2; apply Ho; unfold all_nodes; cbn [flat_map]; apply in_or_app; left; exact Hk2).
      assert (Hol : only_n0 (all_nodes l)) by (intros k2 Hk2; apply Ho; unfold all_nodes; cbn [flat_map]; apply in_or_app; right; exact Hk2).
      unfold all_nodes in Hin. cbn [flat_map] in Hin. apply in_app_or in Hin.
      destruct (keep k1) eqn:Ek1.
      + unfold all_nodes. cbn [flat_map]. apply in_or_app.
        destruct Hin as [Hin|Hin]; [left; exact (Hk1 Hok Hin eq_refl)|right; exact (Hl Hol Hin)].
      + destruct Hin as [Hin|Hin]; [|exact (Hl Hol Hin)].
        exfalso. rewrite (Hok k1 (flatten_self k1) Ek1) in Hin. destruct Hin as [E|[]].
        rewrite <- E in Hk. rewrite (Hok k1 (flatten_self k1) Ek1) in Ek1. rewrite Ek1 in Hk. discriminate.
  Qed.
End Prune.

(* ================================================================== 3. ONE slot is marked deleted *)
(* d1 is d with slot i of block blk replaced by `new`, a slot that is neither an end marker nor
   valid (0xE5 in its first byte); the old contents were no end marker and no dot entry.  Then
   every directory of the volume reads as before minus the slots at that position, and the
   tree is the old tree pruned at that position.  (Whether the slot belongs to a directory of
   the tree at all does not matter.) *)
Lemma del_In_after_end l t : In t (after_end l) -> In t l.
Proof.
  induction l as [|x l IH]; intros H; [destruct H|]. cbn [after_end] in H.
  destruct (t_is_end x); [exact H|right; exact (IH H)].
Qed.

Section Kill.
  Variables (d d1 : disk) (v : vol) (blk i : N) (new : list N).
  Hypothesis Hsw : slot_write d d1 blk i new.
  Local Notation off := (i * 32).
  Local Notation sl0 := (slot (disk_get d blk) i).
  Local Notation g := (upd_slot blk off new).
  Local Notation atp := (at_pos blk off).
  Hypothesis He0 : is_end sl0 = false.
  Hypothesis He1 : is_end new = false.
  Hypothesis Hv1 : is_valid new = false.
  Hypothesis Hnd : dot_slot (blk, off, sl0) = false.
  Hypothesis Hnf : ~ fat_area v blk.

  Lemma kill_fat j : fat_area v j -> disk_get d1 j = disk_get d j.
  Proof. intros Hj. apply (proj1 Hsw). intros ->. exact (Hnf Hj). Qed.

  Lemma kill_at_pos bl t : In t (slots_of d bl) -> atp t = true -> t = (blk, off, sl0).
  Proof.
    intros Hin Hp. destruct (In_slots_of d bl t Hin) as (b & j & _ & _ & ->).
    unfold at_pos in Hp. cbn [fst snd] in Hp. apply andb_true_iff in Hp. destruct Hp as [Hb Hj].
    apply N.eqb_eq in Hb. apply N.eqb_eq in Hj. subst b. assert (j = i) by lia. subst j. reflexivity.
  Qed.

  Lemma kill_g t : g t = if atp t then (blk, off, new) else t.
  Proof. reflexivity. Qed.

  Lemma kill_g_end bl t : In t (slots_of d bl) -> t_is_end (g t) = t_is_end t.
  Proof.
    intros Hin. rewrite kill_g. destruct (atp t) eqn:E; [|reflexivity].
    rewrite (kill_at_pos bl t Hin E). unfold t_is_end. cbn [snd]. rewrite He0. exact He1.
  Qed.

  Lemma kill_live bl : dir_live d1 bl = map g (dir_live d bl).
  Proof.
    unfold dir_live. rewrite (slots_of_upd d d1 blk i new bl Hsw).
    apply before_end_all_map. intros t Ht. exact (kill_g_end bl t Ht).
  Qed.

  Lemma kill_live_in bl t : In t (dir_live d bl) -> In t (slots_of d bl).
  Proof. intros H. unfold dir_live in H. exact (proj1 (In_before_end_all _ _ H)). Qed.

  Lemma kill_filter (p : tslot -> bool) bl : p (blk, off, new) = false ->
    filter p (dir_live d1 bl) = filter (fun t => negb (atp t)) (filter p (dir_live d bl)).
  Proof.
    intros Hp. rewrite kill_live. apply del_filter_map_kill.
    - intros t _ E. rewrite kill_g, E. reflexivity.
    - intros t _ E. rewrite kill_g, E. exact Hp.
  Qed.

  Lemma kill_new_short : short_slot (blk, off, new) = false.
  Proof. unfold short_slot, t_is_valid. cbn [snd]. rewrite Hv1. reflexivity. Qed.

  Lemma kill_nodes bl : dir_nodes d1 bl = filter (fun t => negb (atp t)) (dir_nodes d bl).
  Proof. unfold dir_nodes. apply kill_filter. unfold node_slot. rewrite kill_new_short. reflexivity. Qed.

  Lemma kill_shorts bl : dir_shorts d1 bl = filter (fun t => negb (atp t)) (dir_shorts d bl).
  Proof. unfold dir_shorts. apply kill_filter. exact kill_new_short. Qed.

  Lemma kill_no_dots_map l : no_dots l -> no_dots (map g l).
  Proof.
    unfold no_dots. intros H. apply Forall_forall. intros t Ht. apply in_map_iff in Ht.
    destruct Ht as (t' & <- & Ht'). rewrite kill_g. destruct (atp t') eqn:E.
    - rewrite kill_new_short. discriminate.
    - rewrite Forall_forall in H. exact (H t' Ht').
  Qed.

  Lemma kill_dot_fixed bl t nm c fat32 : In t (slots_of d bl) -> dot_entry fat32 t nm c ->
    nm = THIS_DIR_NAME \/ nm = PARENT_DIR_NAME -> g t = t.
  Proof.
    intros Hin (_ & En & _) Hnm. rewrite kill_g. destruct (atp t) eqn:E; [|reflexivity]. exfalso.
    rewrite (kill_at_pos bl t Hin E) in En. unfold dot_slot in Hnd. rewrite En in Hnd.
    destruct Hnm as [-> | ->]; cbn in Hnd; discriminate.
  Qed.

  Theorem kill_dir_ok own parent bl : dir_ok d v own parent bl -> dir_ok d1 v own parent bl.
  Proof.
    intros [A B D]. constructor.
    - unfold clean_tail in *. rewrite (slots_of_upd d d1 blk i new bl Hsw).
      rewrite del_after_end_map by (intros t Ht; exact (kill_g_end bl t Ht)).
      apply Forall_forall. intros t Ht. apply in_map_iff in Ht. destruct Ht as (t' & <- & Ht').
      rewrite (kill_g_end bl t' (del_In_after_end _ _ Ht')).
      rewrite Forall_forall in A. exact (A t' Ht').
    - rewrite kill_shorts. apply del_nodup_map_filter. exact B.
    - rewrite kill_live. unfold dots_ok in *. destruct (own =? CL_ROOT); [exact (kill_no_dots_map _ D)|].
      destruct D as (t0 & t1 & rest & El & D0 & D1 & Dr).
      assert (H0 : In t0 (slots_of d bl)) by (apply kill_live_in; rewrite El; left; reflexivity).
      assert (H1 : In t1 (slots_of d bl)) by (apply kill_live_in; rewrite El; right; left; reflexivity).
      exists t0, t1, (map g rest). rewrite El. cbn [map].
      rewrite (kill_dot_fixed bl t0 _ _ _ H0 D0 (or_introl eq_refl)).
      rewrite (kill_dot_fixed bl t1 _ _ _ H1 D1 (or_intror eq_refl)).
      split; [reflexivity|]. split; [exact D0|]. split; [exact D1|exact (kill_no_dots_map _ Dr)].
  Qed.

  Lemma kill_keep n t : node_rep d v n t -> keep blk off n = negb (atp t).
  Proof.
    intros H. unfold keep, at_epos, at_pos. rewrite (node_rep_entry d v n t H).
    unfold t_entry, get_entry. cbn [e_block e_offset]. reflexivity.
  Qed.

  Theorem kill_tree_rep :
    (forall m t, node_rep d v m t -> node_rep d1 v (prune_node blk off m) t) /\
    (forall l ts, Forall2 (node_rep d v) l ts ->
                  Forall2 (node_rep d1 v) (prune_list blk off l) (filter (fun t => negb (atp t)) ts)).
  Proof.
    apply del_node_list_ind.
    - intros e ch t H. apply node_rep_file in H. cbn [prune_node]. apply node_rep_file.
      destruct H as (A & B & C). split; [exact A|]. split; [exact B|].
      exact (entry_chain_ext d d1 v e ch kill_fat C).
    - intros e ch kids IH t H. apply node_rep_dir in H. rewrite prune_node_dir. apply node_rep_dir.
      destruct H as (A & B & C & D). split; [exact A|]. split; [exact B|].
      split; [exact (chain_at_ext d d1 v _ _ kill_fat C)|]. rewrite kill_nodes. exact (IH _ D).
    - intros ts H. inversion H; subst. constructor.
    - intros k l Hk Hl ts H. inversion H as [|? t ? ts' Hkt Hrest]; subst.
      rewrite prune_list_cons. cbn [filter]. rewrite (kill_keep k t Hkt).
      destruct (negb (atp t)); [constructor; [exact (Hk t Hkt)|exact (Hl ts' Hrest)]|exact (Hl ts' Hrest)].
  Qed.

  Theorem kill_node_ok :
    (forall m p, node_ok d v p m -> node_ok d1 v p (prune_node blk off m)) /\
    (forall l p, Forall (node_ok d v p) l -> Forall (node_ok d1 v p) (prune_list blk off l)).
  Proof.
    apply del_node_list_ind.
    - intros e ch p H. exact H.
    - intros e ch kids IH p H. apply node_ok_dir in H. rewrite prune_node_dir. apply node_ok_dir.
      destruct H as (A & B). split; [exact (kill_dir_ok _ _ _ A)|exact (IH _ B)].
    - intros p _. constructor.
    - intros k l Hk Hl p H. inversion H; subst. rewrite prune_list_cons.
      destruct (keep blk off k); [constructor; [apply Hk; assumption|apply Hl; assumption]|apply Hl; assumption].
  Qed.

  Lemma kill_root_dir bl rch : root_dir d v bl rch -> root_dir d1 v bl rch.
  Proof. exact (root_dir_frame d d1 v bl rch kill_fat). Qed.

  Corollary kill_tree bl T : tree_rep d v bl T -> tree_rep d1 v bl (prune_list blk off T).
  Proof. unfold tree_rep. intros H. rewrite kill_nodes. exact (proj2 kill_tree_rep T _ H). Qed.
End Kill.

(* ================================================================== 4. the FAT frame *)
(* d2 agrees with d1 on every directory block of the tree, and every head of the tree has in d2
   the chain it has in d1 (the FAT changed elsewhere: a chain outside the tree was freed) *)
Section FatFrame.
  Variables (d1 d2 : disk) (v : vol).

  Theorem fatf_tree_rep :
    (forall m t, (forall j, In j (node_dir_blocks v m) -> disk_get d2 j = disk_get d1 j) ->
                 (forall h ch, In h (node_heads m) -> chain_at d1 v h ch -> chain_at d2 v h ch) ->
                 node_rep d1 v m t -> node_rep d2 v m t) /\
    (forall l ts, (forall j, In j (flat_map (node_dir_blocks v) l) -> disk_get d2 j = disk_get d1 j) ->
                  (forall h ch, In h (flat_map node_heads l) -> chain_at d1 v h ch -> chain_at d2 v h ch) ->
                  Forall2 (node_rep d1 v) l ts -> Forall2 (node_rep d2 v) l ts).
  Proof.
    apply del_node_list_ind.
    - intros e ch t _ Hc H. apply node_rep_file in H. apply node_rep_file.
      destruct H as (A & B & C). split; [exact A|]. split; [exact B|].
      destruct C as [(C1 & fu & C2)|C]; [left|right; exact C]. split; [exact C1|].
      exists (walk_fuel v). apply Hc; [|exact (chain_at_any _ _ _ _ _ C2)].
      cbn [node_heads]. apply N.leb_le in C1. rewrite C1. left. reflexivity.
    - intros e ch kids IH t Hb Hc H. apply node_rep_dir in H. apply node_rep_dir.
      destruct H as (A & B & C & D). split; [exact A|]. split; [exact B|].
      split; [apply Hc; [left; reflexivity|exact C]|].
      cbn [node_dir_blocks] in Hb.
      rewrite (dir_nodes_ext d1 d2 (data_blocks v ch)) by (intros j Hj; apply Hb; apply in_or_app; left; exact Hj).
      apply IH; [|intros h ch' Hh; apply Hc; right; exact Hh|exact D].
      intros j Hj. apply Hb. apply in_or_app. right. exact Hj.
    - intros ts _ _ H. inversion H; subst. constructor.
    - intros k l Hk Hl ts Hb Hc H. inversion H as [|? t ? ts' Hkt Hrest]; subst. cbn [flat_map] in Hb, Hc. constructor.
      + apply Hk; [intros j Hj; apply Hb; apply in_or_app; left; exact Hj| |exact Hkt].
        intros h ch Hh. apply Hc. apply in_or_app. left. exact Hh.
      + apply Hl; [intros j Hj; apply Hb; apply in_or_app; right; exact Hj| |exact Hrest].
        intros h ch Hh. apply Hc. apply in_or_app. right. exact Hh.
  Qed.

  Theorem fatf_disk_parts bl rch T :
    (forall j, In j (tree_dir_blocks v bl T) -> disk_get d2 j = disk_get d1 j) ->
    (forall h ch, In h (heads v T) -> chain_at d1 v h ch -> chain_at d2 v h ch) ->
    root_dir d1 v bl rch -> tree_rep d1 v bl T -> dir_ok d1 v CL_ROOT CL_ROOT bl ->
    Forall (node_ok d1 v CL_ROOT) T ->
    root_dir d2 v bl rch /\ tree_rep d2 v bl T /\ dir_ok d2 v CL_ROOT CL_ROOT bl /\
    Forall (node_ok d2 v CL_ROOT) T.
  Proof.
    intros Hb Hc A B C D. unfold tree_dir_blocks in Hb. split; [|split; [|split]].
    - unfold root_dir in *. unfold heads, root_heads in Hc. destruct (v_fat32 v); [|exact A].
      destruct A as (A1 & A2). split; [|exact A2]. apply Hc; [left; reflexivity|exact A1].
    - unfold tree_rep in *.
      rewrite (dir_nodes_ext d1 d2 bl) by (intros j Hj; apply Hb; apply in_or_app; left; exact Hj).
      apply (proj2 fatf_tree_rep T); [| |exact B].
      + intros j Hj. apply Hb. apply in_or_app. right. exact Hj.
      + intros h ch Hh. apply Hc. unfold heads. apply in_or_app. right. exact Hh.
    - apply (dir_ok_frame d1 d2 v); [|exact C]. intros j Hj. apply Hb. apply in_or_app. left. exact Hj.
    - rewrite Forall_forall in *. intros n Hn. apply (node_ok_frame d1 d2 v); [|exact (D n Hn)].
      intros j Hj. apply Hb. apply in_or_app. right. apply in_flat_map. exists n. split; assumption.
  Qed.
End FatFrame.

(* ---- 2b. positions (and any other per-node attribute the pruning keeps) ---- *)
Section PruneOwn.
  Variables pb po : N.
  Variable B : Type.
  Variable own : node -> list B.
  Hypothesis own_prune : forall n, own (prune_node pb po n) = own n.

  Lemma prune_own_sub x :
    (forall m, In x (flat_map own (flatten (prune_node pb po m))) -> In x (flat_map own (flatten m))) /\
    (forall l, In x (flat_map own (all_nodes (prune_list pb po l))) -> In x (flat_map own (all_nodes l))).
  Proof.
    apply del_node_list_ind.
    - intros e ch H. exact H.
    - intros e ch kids IH. rewrite prune_node_dir. cbn [flatten flat_map].
      rewrite <- (prune_node_dir pb po e ch kids), own_prune.
      intros H. apply in_app_or in H. apply in_or_app. destruct H as [H|H]; [left; exact H|right; exact (IH H)].
    - intros H. exact H.
    - intros k l Hk Hl. rewrite prune_list_cons. unfold all_nodes. cbn [flat_map]. rewrite flat_map_app.
      destruct (keep pb po k).
      + cbn [flat_map]. rewrite flat_map_app. intros H. apply in_app_or in H. apply in_or_app.
        destruct H as [H|H]; [left; exact (Hk H)|right; exact (Hl H)].
      + intros H. apply in_or_app. right. exact (Hl H).
  Qed.

  Lemma prune_own_nodup :
    (forall m, NoDup (flat_map own (flatten m)) -> NoDup (flat_map own (flatten (prune_node pb po m)))) /\
    (forall l, NoDup (flat_map own (all_nodes l)) -> NoDup (flat_map own (all_nodes (prune_list pb po l)))).
  Proof.
    apply del_node_list_ind.
    - intros e ch H. exact H.
    - intros e ch kids IH. rewrite prune_node_dir. cbn [flatten flat_map].
      rewrite <- (prune_node_dir pb po e ch kids), own_prune. intros H.
      destruct (nodup_app_inv _ _ H) as (N1 & N2 & N3). apply nodup_app; [exact N1|exact (IH N2)|].
      intros x X1 X2. exact (N3 x X1 (proj2 (prune_own_sub x) kids X2)).
    - intros H. exact H.
    - intros k l Hk Hl. rewrite prune_list_cons. unfold all_nodes. cbn [flat_map]. rewrite flat_map_app. intros H.
      destruct (nodup_app_inv _ _ H) as (N1 & N2 & N3). destruct (keep pb po k); [|exact (Hl N2)].
      cbn [flat_map]. rewrite flat_map_app. apply nodup_app; [exact (Hk N1)|exact (Hl N2)|].
      intros x X1 X2. exact (N3 x (proj1 (prune_own_sub x) k X1) (proj2 (prune_own_sub x) l X2)).
  Qed.
End PruneOwn.

Lemma del_flat_map_single {A B} (f : A -> B) l : flat_map (fun x => [f x]) l = map f l.
Proof. induction l as [|a l IH]; [reflexivity|]. cbn [flat_map map app]. rewrite IH. reflexivity. Qed.

Lemma prune_positions pb po T :
  NoDup (map node_pos (all_nodes T)) -> NoDup (map node_pos (all_nodes (prune_list pb po T))).
Proof.
  rewrite <- !del_flat_map_single.
  apply (proj2 (prune_own_nodup pb po _ (fun n => [node_pos n])
                  (fun n => f_equal (fun e => [(e_block e, e_offset e)]) (prune_entry pb po n)))).
Qed.

(* ================================================================== 5. the run of delete_file_in_dir *)
(* ---- 5a. what the invariant says about the device and the volume table ---- *)
Lemma del_facts fsz vid s vi v bl rch T : fs_inv_at fsz vid s vi v bl rch T ->
  s_lock s = false /\ no_faults s /\ cache_ok s /\ s_vols s = [v] /\ vi = 0%nat /\
  nth_error (s_vols s) 0 = Some v /\ vol_ok v /\ fat_layout v fsz /\ blocks_wf (s_disk s) /\ v_id v = vid /\
  alloc_pre s 0 v fsz.
Proof.
  intros Hinv. pose proof (fi_vol _ _ _ _ _ _ _ _ Hinv) as (Hl & Hpre & _ & _ & Hwf & Hfind).
  pose proof Hpre as ((Hnf & Hc & Hvi & _) & L & _).
  pose proof (fi_single _ _ _ _ _ _ _ _ Hinv) as Ev.
  assert (E0 : vi = 0%nat).
  { rewrite Ev in Hfind. cbn [find_idx] in Hfind. rewrite N.eqb_refl in Hfind. injection Hfind as <-. reflexivity. }
  subst vi. repeat (split; [assumption|]). split; [reflexivity|]. split; [exact Hvi|].
  split; [exact (fl_vol _ _ L)|]. split; [exact L|]. split; [exact Hwf|].
  split; [exact (fi_vid _ _ _ _ _ _ _ _ Hinv)|exact Hpre].
Qed.

(* a call that only read: the invariant holds in the state it leaves *)
Lemma del_ro fsz vid s s1 vi v bl rch T :
  fs_inv_at fsz vid s vi v bl rch T -> ro_step s s1 -> fs_inv_at fsz vid s1 vi v bl rch T.
Proof.
  intros Hinv (Hd & Hc & Hnf & (M1 & M2 & M3 & _ & _ & M6 & _)).
  apply (fs_inv_at_transport fsz vid s s1 vi v bl rch T Hinv Hd M1 M2); try assumption.
  - rewrite M6. exact (proj1 (fi_vol _ _ _ _ _ _ _ _ Hinv)).
  - rewrite M3. pose proof (fi_files _ _ _ _ _ _ _ _ Hinv) as H. rewrite Forall_forall in *.
    intros f Hf. exact (ofile_ok_same_disk s s1 v T f Hd (H f Hf)).
  - rewrite M3. exact (fi_fids _ _ _ _ _ _ _ _ Hinv).
  - rewrite M3. exact (fi_fslots _ _ _ _ _ _ _ _ Hinv).
  - exact (pend_of_same s s1 v Hd M3).
Qed.

Lemma del_reads_no_writes l : Forall PrModes.is_read_call l -> PrOrder.writes_of l = [].
Proof.
  intros H. unfold PrOrder.writes_of.
  assert (G : forall l0, Forall PrModes.is_read_call l0 -> flat_map PrOrder.wr1 l0 = []).
  { induction 1 as [|c l0 Hc _ IH]; [reflexivity|]. cbn [flat_map]. rewrite IH.
    destruct c; try reflexivity; destruct Hc. }
  apply G. apply Forall_forall. intros x Hx. rewrite Forall_forall in H. apply H. apply in_rev. exact Hx.
Qed.

Lemma del_reads_only_tsteps s s' : PrModes.reads_only s s' -> PrOrder.tsteps s s' [].
Proof. intros (_ & _ & l & E & Hl). exists l. split; [exact E|exact (del_reads_no_writes l Hl)]. Qed.

(* the conclusion of step_ok for a call that wrote nothing *)
Lemma del_conclude fsz vid s (r : outcome res) s' :
  fs_inv fsz vid s -> r <> Panic -> r <> OutOfFuel -> fs_inv fsz vid s' ->
  s_vols s' = s_vols s -> PrOrder.tsteps s s' [] ->
  r <> Panic /\ r <> OutOfFuel /\ fs_inv fsz vid s' /\ same_geo s s' /\
  exists ws, PrOrder.tsteps s s' ws /\ forall v, In v (s_vols s) -> Forall (PrBounds.in_region v fsz) ws.
Proof.
  intros Hinv R1 R2 Hinv' Hv Ht. split; [exact R1|]. split; [exact R2|]. split; [exact Hinv'|].
  destruct (fs_inv_vols fsz vid s Hinv) as (v & Ev & _). split.
  - exists v, v. split; [exact Ev|]. split; [rewrite Hv; exact Ev|apply geo_eq_refl].
  - exists []. split; [exact Ht|]. intros v0 _. constructor.
Qed.

(* ---- 5b. the directory behind a handle ---- *)
Definition del_is_dir (T : list node) (c : N) : Prop :=
  c = CL_ROOT \/ exists e ch ks, In (NDir e ch ks) (all_nodes T) /\ e_cluster e = c.

Lemma del_flatten_ok d v : forall m p, node_ok d v p m -> forall n, In n (flatten m) ->
  exists p', node_ok d v p' n.
Proof.
  induction m as [e ch|e ch kids IH] using node_ind'; intros p Hm n Hn.
  - destruct Hn as [<-|[]]. exists p. exact Hm.
  - destruct Hn as [<-|Hn]; [exists p; exact Hm|].
    apply in_flat_map in Hn. destruct Hn as (k & Hk & Hn).
    apply node_ok_dir in Hm. destruct Hm as (_ & Hkids).
    rewrite Forall_forall in IH, Hkids. exact (IH k Hk (e_cluster e) (Hkids k Hk) n Hn).
Qed.

Lemma del_all_nodes_ok d v T : Forall (node_ok d v CL_ROOT) T -> forall n, In n (all_nodes T) ->
  exists p, node_ok d v p n.
Proof.
  intros HT n Hn. apply in_flat_map in Hn. destruct Hn as (m & Hm & Hn).
  rewrite Forall_forall in HT. exact (del_flatten_ok d v m CL_ROOT (HT m Hm) n Hn).
Qed.

(* the directory dc of the tree: its blocks, its soundness record, its kids *)
Record del_ctx (d : disk) (v : vol) (T : list node) (dc : N) (bl' : list N) (parent : N) (kids : list node) : Prop :=
  mk_del_ctx {
  dx_blocks : dir_blocks d v dc = Some bl';
  dx_ok : dir_ok d v dc parent bl';
  dx_kids : Forall2 (node_rep d v) kids (dir_nodes d bl');
  dx_sub : forall n, In n kids -> In n (all_nodes T)
}.

Lemma del_dir_blocks_chain d v c ch : vol_ok v -> chain_at d v c ch -> dir_blocks d v c = Some (data_blocks v ch).
Proof.
  intros Hv Hch. destruct (chain_of_head _ _ _ _ _ Hch) as (R1 & R2 & _).
  unfold dir_blocks, dir_first_cluster.
  replace (c =? CL_ROOT) with false by (symmetry; apply N.eqb_neq; exact (in_range_not_root v c Hv R2)).
  rewrite !andb_false_r. unfold chain_at in Hch. rewrite Hch. reflexivity.
Qed.

Theorem del_ctx_of fsz vid s vi v bl rch T dc : fs_inv_at fsz vid s vi v bl rch T -> del_is_dir T dc ->
  exists bl' parent kids, del_ctx (s_disk s) v T dc bl' parent kids.
Proof.
  intros Hinv Hdc. destruct (del_facts _ _ _ _ _ _ _ _ Hinv) as (_ & _ & _ & _ & _ & _ & Hv & _).
  pose proof (fi_disk _ _ _ _ _ _ _ _ Hinv) as HD.
  pose proof (di_root _ _ _ _ _ _ HD) as Droot. pose proof (di_tree _ _ _ _ _ _ HD) as Dtree.
  pose proof (di_rootok _ _ _ _ _ _ HD) as Drootok. pose proof (di_nodes _ _ _ _ _ _ HD) as Dnodes.
  destruct Hdc as [->|(e & ch & kids & Hn & <-)].
  - exists bl, CL_ROOT, T. constructor.
    + unfold root_dir in Droot. unfold dir_blocks, dir_first_cluster. rewrite N.eqb_refl, !andb_true_r.
      destruct (v_fat32 v); cbn [negb].
      * destruct Droot as (Hch & ->). unfold chain_at in Hch. rewrite Hch. reflexivity.
      * destruct Droot as (_ & ->). reflexivity.
    + exact Drootok.
    + exact Dtree.
    + intros n Hn. exact (all_nodes_top T n Hn).
  - destruct (all_nodes_rep _ _ _ _ Dtree _ Hn) as (t & bl0 & Hr & _).
    apply node_rep_dir in Hr. destruct Hr as (_ & _ & Hch & Hkids).
    destruct (del_all_nodes_ok _ _ _ Dnodes _ Hn) as (p & Hok).
    apply node_ok_dir in Hok. destruct Hok as (Hdok & _).
    exists (data_blocks v ch), p, kids. constructor.
    + exact (del_dir_blocks_chain _ _ _ _ Hv Hch).
    + exact Hdok.
    + exact Hkids.
    + intros k Hk. exact (all_nodes_trans T _ k Hn (flatten_kid e ch kids k k Hk (flatten_self k))).
Qed.

Lemma del_vol_lookup s v h : s_vols s = [v] ->
  get_volume_by_id h s = if v_id v =? h then (Ok 0%nat, s) else (Err BadHandle, s).
Proof.
  intros Ev. rewrite PrHandles.get_volume_by_id_eq, Ev. cbn [find_idx]. destruct (v_id v =? h); reflexivity.
Qed.

Inductive del_res (s : st) (v : vol) (T : list node) (d : N) : Prop :=
  | DrStale : PrHandles.no_dir d s -> del_res s v T d
  | DrForeign di dd : get_dir_by_id d s = (Ok di, s) -> get_dir di s = (Ok dd, s) -> d_vol dd <> v_id v ->
      get_volume_by_id (d_vol dd) s = (Err BadHandle, s) -> del_res s v T d
  | DrOk di dd : PrModes.resolves s d di dd 0 v -> d_vol dd = v_id v -> del_is_dir T (d_cluster dd) ->
      del_res s v T d.

Lemma del_resolve fsz vid s vi v bl rch T d : fs_inv_at fsz vid s vi v bl rch T -> del_res s v T d.
Proof.
  intros Hinv. destruct (del_facts _ _ _ _ _ _ _ _ Hinv) as (Hl & _ & _ & Ev & _ & Hv0 & _).
  destruct (find_idx (fun x => d_id x =? d) (s_dirs s) 0) as [di|] eqn:E.
  - destruct (find_idx_nth _ _ _ _ E) as (dd & Hdd & _). rewrite Nat.sub_0_r in Hdd.
    assert (H1 : get_dir_by_id d s = (Ok di, s)) by (rewrite PrHandles.get_dir_by_id_eq, E; reflexivity).
    assert (H2 : get_dir di s = (Ok dd, s)) by (rewrite PrHandles.get_dir_eq, Hdd; reflexivity).
    pose proof (del_vol_lookup s v (d_vol dd) Ev) as H3.
    destruct (N.eqb_spec (v_id v) (d_vol dd)) as [Eq|Ne].
    + apply (DrOk s v T d di dd); [|symmetry; exact Eq|].
      * split; [exact Hl|]. split; [exact H1|]. split; [exact H2|]. split; [exact H3|].
        rewrite PrHandles.get_vol_eq, Hv0. reflexivity.
      * pose proof (fi_dirs _ _ _ _ _ _ _ _ Hinv) as Hd. rewrite Forall_forall in Hd.
        exact (Hd dd (nth_error_In _ _ Hdd) (eq_sym Eq)).
    + apply (DrForeign s v T d di dd H1 H2); [congruence|exact H3].
  - apply DrStale. intros x Hx. apply N.eqb_neq. exact (find_idx_none_inv _ _ _ E x Hx).
Qed.

(* ---- 5c. what the lookup finds in a sound directory ---- *)
Lemma del_sfn_first sfn : sfn_shape sfn -> get8 sfn 0 <> 0.
Proof.
  intros (Hlen & Hall). destruct sfn as [|a l]; [discriminate|]. inversion Hall; subst. unfold get8. cbn [N.to_nat nth]. lia.
Qed.

(* the slot found is a live short entry with that name; when it is no directory entry it is the
   slot of a file node among the kids *)
Lemma del_found d v T dc bl' parent kids sfn t :
  del_ctx d v T dc bl' parent kids -> sfn_shape sfn -> get8 sfn 0 <> 229 ->
  find (t_matches sfn) (live_in_blocks d bl') = Some t ->
  is_directory (e_attr (t_entry (v_fat32 v) t)) = false ->
  In t (dir_live d bl') /\ t_name t = sfn /\ dot_slot t = false /\ In t (dir_nodes d bl') /\
  exists ch, In (NFile (t_entry (v_fat32 v) t) ch) kids /\ node_rep d v (NFile (t_entry (v_fat32 v) t) ch) t.
Proof.
  intros Hctx Hs H229 Hfind Hnd. pose proof (dx_ok _ _ _ _ _ _ _ Hctx) as Hok.
  rewrite (live_clean d bl' (do_tail _ _ _ _ _ Hok)) in Hfind. fold (dir_live d bl') in Hfind.
  destruct (find_some _ _ Hfind) as [Hin Hm].
  destruct (del_match_short sfn t Hs H229 Hm) as (Hname & Hval & Hnlfn).
  assert (Hshort : short_slot t = true).
  { unfold short_slot. rewrite Hval. cbn [andb]. apply negb_true_iff. exact Hnlfn. }
  assert (Hattr : e_attr (t_entry (v_fat32 v) t) = t_attr t) by reflexivity.
  assert (Hdot : dot_slot t = false).
  { destruct (dot_slot t) eqn:Ed; [|reflexivity]. exfalso.
    pose proof (do_dots _ _ _ _ _ Hok) as Hd. unfold dots_ok in Hd.
    assert (Hno : forall l, no_dots l -> In t l -> False).
    { intros l Hl Hi. unfold no_dots in Hl. rewrite Forall_forall in Hl. rewrite (Hl t Hi Hshort) in Ed. discriminate. }
    destruct (dc =? CL_ROOT); [exact (Hno _ Hd Hin)|].
    destruct Hd as (t0 & t1 & rest & El & (_ & _ & D0 & _) & (_ & _ & D1 & _) & Hrest).
    rewrite El in Hin. rewrite Hattr in Hnd. destruct Hin as [<-|[<-|Hi]]; [congruence|congruence|exact (Hno _ Hrest Hi)]. }
  assert (Hn : In t (dir_nodes d bl')).
  { unfold dir_nodes. apply filter_In. split; [exact Hin|]. unfold node_slot. rewrite Hshort, Hdot. reflexivity. }
  split; [exact Hin|]. split; [exact Hname|]. split; [exact Hdot|]. split; [exact Hn|].
  destruct (Forall2_In_r _ _ _ t (dx_kids _ _ _ _ _ _ _ Hctx) Hn) as (n & Hk & Hr).
  destruct n as [e ch|e ch ks].
  - pose proof Hr as Hr0. apply node_rep_file in Hr. destruct Hr as (-> & _). exists ch. split; [exact Hk|exact Hr0].
  - apply node_rep_dir in Hr. destruct Hr as (-> & Hd & _). congruence.
Qed.

(* ---- 5d. the blocks of the directories of the tree are no FAT sectors (of either copy) ---- *)
Lemma del_fat_area_in_fat v fsz j : fat_layout v fsz -> fat_area v j -> PrBounds.in_fat v fsz j.
Proof.
  intros L (c & Hc & ->). left. unfold PrBounds.in_fat0.
  pose proof (layout_sector v fsz c L Hc) as Hq. change (fat_width v) with (fat_w v) in Hq.
  remember (c * fat_w v / 512) as q. lia.
Qed.

Lemma del_in_dir_not_fat v fsz j : PrBounds.part_layout v (v_nblocks v) fsz -> PrBounds.in_dir v j ->
  ~ PrBounds.in_fat v fsz j.
Proof.
  intros PL Hd Hf. destruct (PrBounds.C04_regions_disjoint v (v_nblocks v) fsz j PL) as (_ & H & _).
  destruct (H Hf) as (A & B & _). destruct Hd as [Hd|Hd]; [exact (B Hd)|exact (A Hd)].
Qed.

Lemma del_in_dir_frame v fsz j : PrBounds.part_layout v (v_nblocks v) fsz -> PrBounds.in_dir v j ->
  forall copy k, k < fsz -> j <> fat_copy_sector v copy k.
Proof.
  intros PL Hd copy k Hk ->. exact (del_in_dir_not_fat v fsz _ PL Hd (PrBounds.fat_copy_sector_in_fat v fsz copy k Hk)).
Qed.

Lemma del_in_dir_not_area v fsz j : PrBounds.part_layout v (v_nblocks v) fsz -> fat_layout v fsz ->
  PrBounds.in_dir v j -> ~ fat_area v j.
Proof. intros PL L Hd Ha. exact (del_in_dir_not_fat v fsz j PL Hd (del_fat_area_in_fat v fsz j L Ha)). Qed.

Lemma del_chain_blocks_in_dir d v h ch j : chain_at d v h ch -> In j (data_blocks v ch) -> PrBounds.in_dir v j.
Proof.
  intros Hch Hj. left.
  pose proof (PrBounds.chain_blocks_in_data v ch (chain_of_range _ _ _ _ _ Hch)) as H.
  rewrite Forall_forall in H. exact (H j Hj).
Qed.

(* a block of node_dir_blocks belongs to the chain of a directory node *)
Lemma del_node_dir_blocks_in v j :
  (forall m, In j (node_dir_blocks v m) -> exists e ch ks, In (NDir e ch ks) (flatten m) /\ In j (data_blocks v ch)) /\
  (forall l, In j (flat_map (node_dir_blocks v) l) ->
             exists e ch ks, In (NDir e ch ks) (all_nodes l) /\ In j (data_blocks v ch)).
Proof.
  apply del_node_list_ind.
  - intros e ch [].
  - intros e ch kids IH H. cbn [node_dir_blocks] in H. apply in_app_or in H. destruct H as [H|H].
    + exists e, ch, kids. split; [apply flatten_self|exact H].
    + destruct (IH H) as (e' & ch' & ks' & A & B). exists e', ch', ks'. split; [|exact B].
      cbn [flatten]. right. exact A.
  - intros [].
  - intros k l Hk Hl H. cbn [flat_map] in H. apply in_app_or in H. unfold all_nodes. cbn [flat_map].
    destruct H as [H|H]; [destruct (Hk H) as (e & ch & ks & A & B)|destruct (Hl H) as (e & ch & ks & A & B)];
      exists e, ch, ks; (split; [apply in_or_app|exact B]); [left|right]; exact A.
Qed.

Lemma del_dir_blocks_of_node v e ch ks :
  (forall m, In (NDir e ch ks) (flatten m) -> incl (data_blocks v ch) (node_dir_blocks v m)) /\
  (forall l, In (NDir e ch ks) (all_nodes l) -> incl (data_blocks v ch) (flat_map (node_dir_blocks v) l)).
Proof.
  apply del_node_list_ind.
  - intros e' ch' [E|[]]. discriminate E.
  - intros e' ch' kids IH [E|H] j Hj; cbn [node_dir_blocks]; apply in_or_app.
    + injection E as -> -> ->. left. exact Hj.
    + right. exact (IH H j Hj).
  - intros [].
  - intros k l Hk Hl H j Hj. unfold all_nodes in H. cbn [flat_map] in *. apply in_app_or in H. apply in_or_app.
    destruct H as [H|H]; [left; exact (Hk H j Hj)|right; exact (Hl H j Hj)].
Qed.

Lemma del_tree_block_in_dir d v bl rch T j : root_dir d v bl rch -> tree_rep d v bl T ->
  In j (tree_dir_blocks v bl T) -> PrBounds.in_dir v j.
Proof.
  intros Hroot HT Hj. unfold tree_dir_blocks in Hj. apply in_app_or in Hj. destruct Hj as [Hj|Hj].
  - unfold root_dir in Hroot. destruct (v_fat32 v) eqn:E32.
    + destruct Hroot as (Hch & ->). exact (del_chain_blocks_in_dir d v _ rch j Hch Hj).
    + destruct Hroot as (_ & ->). right. pose proof (PrBounds.C04_root_block_in_root v E32) as H.
      rewrite Forall_forall in H. exact (H j Hj).
  - destruct (proj2 (del_node_dir_blocks_in v j) T Hj) as (e & ch & ks & Hn & Hb).
    destruct (all_nodes_rep d v bl T HT _ Hn) as (t & bl0 & Hr & _).
    apply node_rep_dir in Hr. destruct Hr as (_ & _ & Hch & _).
    exact (del_chain_blocks_in_dir d v _ ch j Hch Hb).
Qed.

(* where the slot of a node of the tree is *)
Lemma del_node_where d v bl T n : tree_rep d v bl T -> In n (all_nodes T) ->
  exists j, j < 16 /\ e_offset (node_entry n) = j * 32 /\
            In (e_block (node_entry n)) (tree_dir_blocks v bl T).
Proof.
  intros HT Hn. destruct (all_nodes_rep d v bl T HT n Hn) as (t & bl' & Hr & Ht & Hbl').
  destruct (dir_nodes_in d bl' t Ht) as (_ & _ & b & j & Hb & Hj & ->).
  rewrite (node_rep_entry d v n _ Hr). unfold t_entry, get_entry. cbn [fst snd e_block e_offset].
  exists j. split; [exact Hj|]. split; [reflexivity|].
  unfold tree_dir_blocks. apply in_or_app. destruct Hbl' as [->|(e & ch & kids & Hnd & -> & _)]; [left; exact Hb|right].
  exact (proj2 (del_dir_blocks_of_node v e ch kids) T Hnd b Hb).
Qed.

(* bytes *)
Lemma del_get8_mark sl x : get8 (set_bytes sl 0 [x]) 0 = x.
Proof. reflexivity. Qed.

Lemma del_mark_not_end sl : is_end (set_bytes sl 0 [229]) = false.
Proof. unfold is_end. rewrite del_get8_mark. reflexivity. Qed.

Lemma del_mark_not_valid sl : is_valid (set_bytes sl 0 [229]) = false.
Proof. apply deleted_not_valid. apply del_get8_mark. Qed.

(* ================================================================== 5e. the invariant after the slot of a closed file node was
   marked deleted and the FAT changed outside the remaining chains *)
Section Assemble.
  Variables (fsz vid : N) (s : st) (vi : nat) (v : vol) (bl rch : list N) (T : list node).
  Hypothesis Hat : fs_inv_at fsz vid s vi v bl rch T.
  Variables (blk i : N) (e0 : dirent) (ch0 : list N) (d1 : disk).
  Local Notation d := (s_disk s).
  Local Notation off := (i * 32).
  Local Notation sl0 := (slot (disk_get d blk) i).
  Local Notation new := (set_bytes sl0 0 [229]).
  Local Notation T1 := (prune_list blk off T).
  Local Notation pend := (pend_of s v).
  Hypothesis Hsw : slot_write d d1 blk i new.
  Hypothesis He0 : is_end sl0 = false.
  Hypothesis Hnd : dot_slot (blk, off, sl0) = false.
  Hypothesis Hblk : In blk (tree_dir_blocks v bl T).
  Hypothesis Hn0 : In (NFile e0 ch0) (all_nodes T).
  Hypothesis Hpos : e_block e0 = blk /\ e_offset e0 = off.
  Hypothesis Hnopen : forall f, In f (s_files s) -> slot_key f <> (blk, off).

  Let HD := fi_disk _ _ _ _ _ _ _ _ Hat.
  Let Hroot := di_root _ _ _ _ _ _ HD.
  Let HT := di_tree _ _ _ _ _ _ HD.
  Let W := di_wf _ _ _ _ _ _ HD.
  Let PL := fi_layout _ _ _ _ _ _ _ _ Hat.

  Lemma asm_layout : fat_layout v fsz.
  Proof. destruct (del_facts _ _ _ _ _ _ _ _ Hat) as (_ & _ & _ & _ & _ & _ & _ & L & _). exact L. Qed.

  Lemma asm_nfat : ~ fat_area v blk.
  Proof.
    apply (del_in_dir_not_area v fsz blk PL asm_layout).
    exact (del_tree_block_in_dir d v bl rch T blk Hroot HT Hblk).
  Qed.

  Lemma asm_keep0 : keep blk off (NFile e0 ch0) = false.
  Proof.
    unfold keep, at_epos. cbn [node_entry]. destruct Hpos as [-> ->]. rewrite !N.eqb_refl. reflexivity.
  Qed.

  (* the only node of the tree at that position is the file node *)
  Lemma asm_only : only_n0 blk off e0 ch0 (all_nodes T).
  Proof.
    intros k Hk Hkeep.
    destruct (all_nodes_rep d v bl T HT k Hk) as (tk & bk & Hrk & Htk & _).
    destruct (all_nodes_rep d v bl T HT _ Hn0) as (t0 & b0 & Hr0 & Ht0 & _).
    destruct (dir_nodes_in d bk tk Htk) as (_ & _ & b & j & _ & _ & ->).
    destruct (dir_nodes_in d b0 t0 Ht0) as (_ & _ & b' & j' & _ & _ & ->).
    pose proof (node_rep_entry d v k _ Hrk) as Ek. pose proof (node_rep_entry d v _ _ Hr0) as E0.
    cbn [node_entry] in E0.
    unfold keep, at_epos in Hkeep. rewrite Ek in Hkeep. unfold t_entry, get_entry in Hkeep.
    cbn [fst snd e_block e_offset] in Hkeep. apply negb_false_iff in Hkeep. apply andb_true_iff in Hkeep.
    destruct Hkeep as [K1 K2]. apply N.eqb_eq in K1. apply N.eqb_eq in K2.
    destruct Hpos as [P1 P2]. rewrite E0 in P1, P2. unfold t_entry, get_entry in P1, P2.
    cbn [fst snd e_block e_offset] in P1, P2.
    assert (j = j') by lia. subst b b' j'.
    exact (node_rep_det d v k _ _ Hrk Hr0).
  Qed.

  (* ---- the disk-level parts after the slot write ---- *)
  Lemma asm_tree1 : tree_rep d1 v bl T1.
  Proof. exact (kill_tree d d1 v blk i new Hsw He0 (del_mark_not_end _) (del_mark_not_valid _) asm_nfat bl T HT). Qed.

  Lemma asm_root1 : root_dir d1 v bl rch.
  Proof. exact (kill_root_dir d d1 v blk i new Hsw asm_nfat bl rch Hroot). Qed.

  Lemma asm_rootok1 : dir_ok d1 v CL_ROOT CL_ROOT bl.
  Proof.
    exact (kill_dir_ok d d1 v blk i new Hsw He0 (del_mark_not_end _) (del_mark_not_valid _) Hnd _ _ _ (di_rootok _ _ _ _ _ _ HD)).
  Qed.

  Lemma asm_nodes1 : Forall (node_ok d1 v CL_ROOT) T1.
  Proof.
    exact (proj2 (kill_node_ok d d1 v blk i new Hsw He0 (del_mark_not_end _) (del_mark_not_valid _) Hnd) T _
             (di_nodes _ _ _ _ _ _ HD)).
  Qed.

  (* a kept node stays *)
  Lemma asm_kept k : In k (all_nodes T) -> keep blk off k = true -> In (prune_node blk off k) (all_nodes T1).
  Proof. intros Hk Hkeep. exact (proj2 (prune_all_nodes blk off e0 ch0 k Hkeep) T asm_only Hk). Qed.

  Lemma asm_file_kept f e' ch' : In f (s_files s) -> In (NFile e' ch') (all_nodes T) ->
    e_block e' = e_block (f_entry f) -> e_offset e' = e_offset (f_entry f) ->
    In (NFile e' ch') (all_nodes T1).
  Proof.
    intros Hf Hn Eb Eo. apply (asm_kept (NFile e' ch') Hn).
    unfold keep, at_epos. cbn [node_entry]. apply negb_true_iff. apply andb_false_iff.
    destruct (N.eqb_spec (e_block e') blk) as [E1|E1]; [|left; reflexivity]. right.
    apply N.eqb_neq. intros E2. apply (Hnopen f Hf). unfold slot_key. congruence.
  Qed.

  (* the first cluster of an open file is a head after the deletion too *)
  Lemma asm_file_head f : In f (s_files s) -> 2 <= e_cluster (f_entry f) ->
    In (e_cluster (f_entry f)) (heads v T1 ++ pend).
  Proof.
    intros Hf H2. destruct (ofile_head _ _ _ _ _ _ _ _ Hat f Hf H2) as [(e' & ch' & Hn & Ec & Eb & Eo)|Hp].
    - apply in_or_app. left. unfold heads. apply in_or_app. right.
      apply (own_head_in T1 (NFile e' ch') _ (asm_file_kept f e' ch' Hf Hn Eb Eo)). cbn [own_head].
      rewrite Ec. apply N.leb_le in H2. rewrite H2. left. reflexivity.
    - apply in_or_app. right. exact (pending_in s v f Hf Hp).
  Qed.

  (* ---- the head list after the deletion, as a set ---- *)
  Lemma asm_heads_nodup : NoDup (heads v T1 ++ pend).
  Proof.
    pose proof (wf_heads _ _ _ W) as Hndp. unfold heads in *.
    destruct (nodup_app_inv _ _ Hndp) as (A1 & A2 & A3). destruct (nodup_app_inv _ _ A1) as (B1 & B2 & B3).
    apply nodup_app; [apply nodup_app; [exact B1|exact (proj2 (prune_heads_nodup blk off) T B2)|]|exact A2|].
    - intros x X1 X2. exact (B3 x X1 (proj2 (prune_heads_sub blk off x) T X2)).
    - intros x X1. apply A3. apply in_app_or in X1. apply in_or_app.
      destruct X1 as [X1|X1]; [left; exact X1|right; exact (proj2 (prune_heads_sub blk off x) T X1)].
  Qed.

  Lemma asm_heads_in x :
    In x (heads v T1 ++ pend) <-> In x (heads v T ++ pend) /\ ~ In x (node_heads (NFile e0 ch0)).
  Proof.
    destruct (heads_nodup v T pend (wf_heads _ _ _ W)) as (N1 & N2 & N3 & N4).
    rewrite <- heads_all_nodes in N1.
    assert (Hsub : forall y, In y (node_heads (NFile e0 ch0)) -> In y (flat_map node_heads T)).
    { intros y Hy. exact (own_head_in T _ y Hn0 Hy). }
    unfold heads. split.
    - intros H. apply in_app_or in H. destruct H as [H|H]; [apply in_app_or in H; destruct H as [H|H]|].
      + split; [apply in_or_app; left; apply in_or_app; left; exact H|].
        intros Hy. exact (proj1 (N3 x H) (Hsub x Hy)).
      + split; [apply in_or_app; left; apply in_or_app; right; exact (proj2 (prune_heads_sub blk off x) T H)|].
        intros Hy. exact (proj2 (prune_heads_gone blk off e0 ch0 x Hy asm_keep0) T N1 Hn0 H).
      + split; [apply in_or_app; right; exact H|]. intros Hy. exact (N4 x (Hsub x Hy) H).
    - intros (H & Hy). apply in_app_or in H. apply in_or_app.
      destruct H as [H|H]; [left|right; exact H]. apply in_app_or in H. apply in_or_app.
      destruct H as [H|H]; [left; exact H|right]. exact (proj2 (prune_heads_conv blk off e0 ch0 x Hy) T asm_only H).
  Qed.

  (* ---- the final state ---- *)
  Variables (s' : st) (nf fc : option N).
  Local Notation v' := (vol_rebook v nf fc).
  Local Notation d2 := (s_disk s').
  Hypothesis Htabs : same_tabs s s'.
  Hypothesis Hvols : s_vols s' = [v'].
  Hypothesis Hpre' : alloc_pre s' 0 v' fsz.
  Hypothesis Hwf' : blocks_wf d2.
  Hypothesis Hframe : forall j, (forall copy k, k < fsz -> j <> fat_copy_sector v copy k) ->
                      disk_get d2 j = disk_get d1 j.
  Hypothesis Hchains : forall h ch, In h (heads v T1 ++ pend) -> chain_at d1 v h ch -> chain_at d2 v h ch.
  Hypothesis Hwf2 : fat_wf d2 v (heads v T1 ++ pend).

  Lemma asm_dirframe j : PrBounds.in_dir v j -> disk_get d2 j = disk_get d1 j.
  Proof. intros Hj. apply Hframe. exact (del_in_dir_frame v fsz j PL Hj). Qed.

  Lemma asm_parts2 :
    root_dir d2 v bl rch /\ tree_rep d2 v bl T1 /\ dir_ok d2 v CL_ROOT CL_ROOT bl /\ Forall (node_ok d2 v CL_ROOT) T1.
  Proof.
    apply (fatf_disk_parts d1 d2 v bl rch T1).
    - intros j Hj. apply asm_dirframe. exact (del_tree_block_in_dir d1 v bl rch T1 j asm_root1 asm_tree1 Hj).
    - intros h ch Hh. apply Hchains. apply in_or_app. left. exact Hh.
    - exact asm_root1.
    - exact asm_tree1.
    - exact asm_rootok1.
    - exact asm_nodes1.
  Qed.

  (* the slot of an open file reads as before *)
  Lemma asm_slot f : In f (s_files s) -> slot_tslot d2 (f_entry f) = slot_tslot d (f_entry f).
  Proof.
    intros Hf. destruct (of_node _ _ _ _ (ofile_of _ _ _ _ _ _ _ _ Hat f Hf)) as (e' & ch' & Hn & Eb & Eo & _).
    destruct (del_node_where d v bl T _ HT Hn) as (j & Hj & Ej & Hin). cbn [node_entry] in Ej, Hin.
    rewrite Eb in Hin. rewrite Eo in Ej.
    unfold slot_tslot. f_equal.
    rewrite (asm_dirframe _ (del_tree_block_in_dir d v bl rch T _ Hroot HT Hin)).
    destruct (N.eq_dec (e_block (f_entry f)) blk) as [E|E].
    - rewrite E. apply (proj2 (proj2 Hsw)). intros Ek. apply (Hnopen f Hf). unfold slot_key.
      rewrite E. f_equal. rewrite Ej in *. rewrite <- Ek. rewrite N.div_mul by lia. reflexivity.
    - rewrite (proj1 Hsw _ E). reflexivity.
  Qed.

  Lemma asm_is_pending f : In f (s_files s) -> is_pending d2 v' f = is_pending d v f.
  Proof. intros Hin. unfold is_pending, disk_entry. rewrite (asm_slot f Hin). reflexivity. Qed.

  Lemma asm_pend : pend_of s' v' = pend.
  Proof.
    unfold pend_of. destruct Htabs as (_ & Hf & _). rewrite Hf. f_equal. apply filter_ext_in.
    exact asm_is_pending.
  Qed.

  Lemma asm_chain_l c : In c (heads v T1 ++ pend) -> In c (heads v T ++ pend) ->
    chain_at d2 v c (chain_l d v c) .
  Proof.
    intros H1 H0. apply (Hchains c _ H1).
    apply (chain_at_ext d d1 v c _ (kill_fat d d1 v blk i new Hsw asm_nfat)). exact (wf_l_def d v _ c W H0).
  Qed.

  Lemma asm_walk_fuel : walk_fuel v' = walk_fuel v.
  Proof. reflexivity. Qed.

  Lemma asm_fchain f : In f (s_files s) -> fchain d2 v' f = fchain d v f.
  Proof.
    intros Hf. unfold fchain. destruct (N.ltb_spec (e_cluster (f_entry f)) 2) as [H|H]; [reflexivity|].
    pose proof (asm_chain_l _ (asm_file_head f Hf H) (ofile_in_hs _ _ _ _ _ _ _ _ Hat f Hf H)) as Hc.
    unfold chain_l at 1. rewrite asm_walk_fuel, chain_of_rebook. unfold chain_at in Hc. rewrite Hc. reflexivity.
  Qed.

  Lemma asm_ofile f : In f (s_files s) -> ofile_ok s' v' T1 f.
  Proof.
    intros Hf. pose proof (ofile_of _ _ _ _ _ _ _ _ Hat f Hf) as O.
    pose proof (asm_fchain f Hf) as Ech.
    constructor.
    - exact (of_vol _ _ _ _ O).
    - exact (slot_ok_rebook v nf fc _ (of_slot _ _ _ _ O)).
    - destruct (of_node _ _ _ _ O) as (e' & ch' & Hn & Eb & Eo & En & Hc).
      exists e', ch'. split; [exact (asm_file_kept f e' ch' Hf Hn Eb Eo)|]. repeat (split; [assumption|]). exact Hc.
    - exact (of_attr _ _ _ _ O).
    - rewrite Ech. destruct (of_chain _ _ _ _ O) as [(A & (fu & B) & C)|A]; [left|right; exact A].
      split; [exact A|]. split; [|exact C].
      exists (walk_fuel v). rewrite chain_of_rebook.
      pose proof (asm_chain_l _ (asm_file_head f Hf A) (ofile_in_hs _ _ _ _ _ _ _ _ Hat f Hf A)) as Hc.
      unfold chain_at in Hc. rewrite Hc. f_equal.
      unfold fchain. apply N.ltb_ge in A. rewrite A. reflexivity.
    - rewrite Ech. exact (of_size _ _ _ _ O).
    - exact (of_off _ _ _ _ O).
    - exact (of_u32 _ _ _ _ O).
    - rewrite (asm_is_pending f Hf). exact (of_dirty _ _ _ _ O).
  Qed.

  Lemma asm_odir dd : odir_ok v T dd -> odir_ok v' T1 dd.
  Proof.
    intros H Hv. destruct (H Hv) as [E|(e & ch & kids & Hn & E)]; [left; exact E|right].
    exists e, ch, (prune_list blk off kids). split; [|exact E].
    rewrite <- prune_node_dir. apply (asm_kept _ Hn).
    destruct (keep blk off (NDir e ch kids)) eqn:Ek; [reflexivity|].
    discriminate (asm_only _ Hn Ek).
  Qed.

  Theorem asm_inv : fs_inv_at fsz vid s' 0 v' bl rch T1.
  Proof.
    destruct asm_parts2 as (P1 & P2 & P3 & P4).
    destruct Htabs as (Hdirs & Hfiles & _ & _ & Hlock & _).
    pose proof (fi_vol _ _ _ _ _ _ _ _ Hat) as (Hl & _ & Hfit & Hspc & _ & _).
    assert (G : geo_eq v v') by (exists nf, fc; reflexivity).
    constructor.
    - exact (fi_vid _ _ _ _ _ _ _ _ Hat).
    - exact Hvols.
    - split; [rewrite Hlock; exact Hl|]. split; [exact Hpre'|].
      split; [exact (clusters_fit_rebook v nf fc Hfit)|]. split; [exact Hspc|]. split; [exact Hwf'|].
      rewrite Hvols. cbn [find_idx]. rewrite N.eqb_refl. reflexivity.
    - apply (PrBounds.part_layout_geom v v'); [exists nf, fc; reflexivity|exact PL].
    - exact (fi_dev _ _ _ _ _ _ _ _ Hat).
    - exact (fi_info _ _ _ _ _ _ _ _ Hat).
    - rewrite asm_pend. apply (disk_inv_geo d2 v v' bl rch T1 pend G). constructor; try assumption.
      exact (prune_positions blk off T (di_pos _ _ _ _ _ _ HD)).
    - rewrite Hfiles. apply Forall_forall. exact asm_ofile.
    - rewrite Hfiles. exact (fi_fids _ _ _ _ _ _ _ _ Hat).
    - rewrite Hfiles. exact (fi_fslots _ _ _ _ _ _ _ _ Hat).
    - rewrite Hdirs. pose proof (fi_dirs _ _ _ _ _ _ _ _ Hat) as Hd. rewrite Forall_forall in *.
      intros dd Hdd. exact (asm_odir dd (Hd dd Hdd)).
  Qed.
End Assemble.

(* ================================================================== 5f. the successful deletion *)
Lemma del_existsb_false {A} (p : A -> bool) l : existsb p l = false -> forall x, In x l -> p x = false.
Proof.
  intros H x Hx. destruct (p x) eqn:E; [|reflexivity].
  rewrite <- H. symmetry. apply existsb_exists. exists x. split; assumption.
Qed.

Lemma del_write_tsteps s s' blk b l : s_trace s' = DWrite blk b :: l ++ s_trace s ->
  Forall PrModes.is_read_call l -> PrOrder.tsteps s s' [blk].
Proof.
  intros Ht Hl. exists (DWrite blk b :: l). split; [exact Ht|].
  unfold PrOrder.writes_of. cbn [rev]. rewrite flat_map_app. cbn [flat_map PrOrder.wr1 app].
  fold (PrOrder.writes_of l). rewrite (del_reads_no_writes l Hl). reflexivity.
Qed.

Section Core.
  Variables (fsz vid : N) (s1 : st) (v : vol) (bl rch : list N) (T : list node).
  Variables (dc : N) (sfn : list N) (t : tslot).
  Local Notation d := (s_disk s1).
  Local Notation e := (t_entry (v_fat32 v) t).

  (* everything the call did, for a file node with chain ch *)
  Record del_done (ch : list N) (s' : st) : Prop := mk_del_done {
    dd_run : (delete_directory_entry 0 dc sfn ;;; free_cluster_chain 0 (e_cluster e)) s1 = (Ok tt, s');
    dd_node : In (NFile e ch) (all_nodes T) /\ entry_chain d v e ch;
    dd_inv : exists nf fc, s_vols s' = [vol_rebook v nf fc] /\
               fs_inv_at fsz vid s' 0 (vol_rebook v nf fc) bl rch (prune_list (fst (fst t)) (snd (fst t)) T) /\
               v_free (vol_rebook v nf fc) =
                 match ch with [] => v_free v | _ => add_free (v_free v) (N.of_nat (length ch)) end;
    dd_free : forall y, In y ch -> fat_get (s_disk s') v 0 y = 0;
    dd_count : free_entries (s_disk s') v = (free_entries d v + length ch)%nat;
    dd_steps : exists ws, PrOrder.tsteps s1 s' ws /\ Forall (PrBounds.in_region v fsz) ws
  }.

End Core.

Theorem del_core fsz vid s1 v bl rch T dc bl' parent kids sfn t :
  fs_inv_at fsz vid s1 0 v bl rch T -> del_ctx (s_disk s1) v T dc bl' parent kids ->
  sfn_shape sfn -> get8 sfn 0 <> 229 ->
  find (t_matches sfn) (live_in_blocks (s_disk s1) bl') = Some t ->
  is_directory (e_attr (t_entry (v_fat32 v) t)) = false ->
  PrModes.is_open s1 (v_id v) (t_entry (v_fat32 v) t) = false ->
  exists ch s', del_done fsz vid s1 v bl rch T dc sfn t ch s'.
Proof.
    intros Hat Hctx Hs H229 Hfind Hndir Hclosed.
    destruct (del_found (s_disk s1) v T dc bl' parent kids sfn t Hctx Hs H229 Hfind Hndir)
      as (Hlive & Hname & Hdot & Hnodes & ch & Hkid & Hrep).
    destruct (dir_nodes_in (s_disk s1) bl' t Hnodes) as (_ & _ & blk & i & Hb & Hi & Et).
    destruct (del_facts _ _ _ _ _ _ _ _ Hat) as (Hl & Hnf & Hc & Ev & _ & Hv0 & Hvok & L & Hwf & Hvid & Hpre).
    pose proof (fi_layout _ _ _ _ _ _ _ _ Hat) as PL.
    pose proof (fi_disk _ _ _ _ _ _ _ _ Hat) as HD.
    pose proof (di_wf _ _ _ _ _ _ HD) as W. pose proof (di_tree _ _ _ _ _ _ HD) as HT.
    pose proof (di_root _ _ _ _ _ _ HD) as Hroot.
    pose proof (dx_sub _ _ _ _ _ _ _ Hctx _ Hkid) as Hn0.
    assert (He0 : is_end (slot (disk_get (s_disk s1) blk) i) = false).
    { unfold dir_live in Hlive. apply In_before_end_all in Hlive. destruct Hlive as [_ H]. rewrite Et in H. exact H. }
    (* the slot write *)
    pose proof (delete_directory_entry_spec 0 v dc sfn s1 bl' Hv0 Hvok Hnf Hc (dx_blocks _ _ _ _ _ _ _ Hctx)) as Hspec.
    rewrite Hfind, Et in Hspec.
    destruct (Hspec (Hwf blk)) as (s2 & Hrun2 & Hd2 & _ & _ & _ & Hsw & _ & Hc2 & Hnf2 & Hm2 & l2 & Htr2 & Hl2).
    clear Hspec. rewrite N.div_mul in Hsw by lia.
    subst t. cbn [fst snd].
    set (e1 := t_entry (v_fat32 v) (blk, i * 32, slot (disk_get (s_disk s1) blk) i)) in *.
    assert (Hpos : e_block e1 = blk /\ e_offset e1 = i * 32) by (split; reflexivity).
    assert (Hblk : In blk (tree_dir_blocks v bl T)).
    { destruct (del_node_where (s_disk s1) v bl T _ HT Hn0) as (_ & _ & _ & H). exact H. }
    assert (Hnopen : forall f, In f (s_files s1) -> slot_key f <> (blk, i * 32)).
    { intros f Hf E. unfold PrModes.is_open in Hclosed.
      pose proof (del_existsb_false _ _ Hclosed f Hf) as H. cbv beta in H.
      rewrite (of_vol _ _ _ _ (ofile_of _ _ _ _ _ _ _ _ Hat f Hf)), N.eqb_refl in H.
      unfold slot_key in E. injection E as E1 E2. destruct Hpos as [P1 P2].
      rewrite E1, E2, P1, P2, !N.eqb_refl in H. discriminate H. }
    assert (Hnfat : ~ fat_area v blk) by exact (asm_nfat _ _ _ _ _ _ _ _ Hat blk Hblk).
    assert (Hfat2 : forall j, fat_area v j -> disk_get (s_disk s2) j = disk_get (s_disk s1) j)
      by exact (kill_fat (s_disk s1) (s_disk s2) v blk i _ Hsw Hnfat).
    (* the state after the slot write *)
    assert (Hvols2 : s_vols s2 = [v]) by (rewrite (proj1 Hm2); exact Ev).
    assert (Hwf2 : blocks_wf (s_disk s2)).
    { rewrite Hd2. apply blocks_wf_set; [exact Hwf|]. rewrite set_bytes_length; [apply Hwf|].
      rewrite (Hwf blk). cbn [length]. lia. }
    assert (Hst2 : st_ok 0 v fsz s2).
    { split; [exact Hnf2|]. split; [exact Hc2|]. split; [rewrite Hvols2; reflexivity|]. intros k _. apply Hwf2. }
    assert (Hpre2 : alloc_pre s2 0 v fsz) by (split; [exact Hst2|]; split; [exact L|exact (proj2 (proj2 Hpre))]).
    assert (W2 : fat_wf (s_disk s2) v (heads v T ++ pend_of s1 v)) by exact (fat_wf_ext (s_disk s1) _ v _ Hfat2 W).
    assert (Hstep2 : PrOrder.tsteps s1 s2 [blk]) by exact (del_write_tsteps s1 s2 blk _ l2 Htr2 Hl2).
    assert (Hreg : PrBounds.in_region v fsz blk).
    { apply PrBounds.region_of_dir. exact (del_tree_block_in_dir (s_disk s1) v bl rch T blk Hroot HT Hblk). }
    assert (Hcnt2 : free_entries (s_disk s2) v = free_entries (s_disk s1) v).
    { apply free_entries_iff. intros c C1 C2. rewrite (fat_get_ext (s_disk s1) _ v c Hfat2 C2). tauto. }
    assert (Hrep' := Hrep). apply node_rep_file in Hrep'. destruct Hrep' as (_ & _ & Hec).
    exists ch.
    destruct Hec as [(Hge & fu & Hch)|(Hlt & ->)].
    - (* a file with a chain *)
      destruct (chain_at_head _ _ _ _ (chain_at_any _ _ _ _ _ Hch)) as (rest & ->).
      set (h := e_cluster e1) in *.
      assert (Hch2 : chain_of (s_disk s2) v h fu = Some (h :: rest)) by (rewrite (chain_of_ext (s_disk s1) _ v Hfat2); exact Hch).
      assert (Hheads : node_heads (NFile e1 (h :: rest)) = [h]).
      { cbn [node_heads]. fold h. apply N.leb_le in Hge. rewrite Hge. reflexivity. }
      assert (Hh : In h (heads v T ++ pend_of s1 v)).
      { apply in_or_app. left. unfold heads. apply in_or_app. right.
        apply (own_head_in T _ h Hn0). change (own_head (NFile e1 (h :: rest))) with (node_heads (NFile e1 (h :: rest))).
        rewrite Hheads. left. reflexivity. }
      destruct (C03_free_chain_wf 0 v fsz s2 _ h rest Hpre2 W2 Hh (chain_at_any _ _ _ _ _ Hch2))
        as (s' & Hrun3 & Wn & Hoth & Hfreed & Hpre3).
      destruct (free_cluster_chain_effect 0 v fsz s2 h rest fu L Hst2 Hch2) as (sx & Hrunx & Heff).
      rewrite Hrun3 in Hrunx. injection Hrunx as <-.
      destruct (free_chain_count_delta 0 v fsz s2 h rest fu Hpre2 Hch2) as (sy & Hruny & Hcount & _ & G & _ & Hfree & _).
      rewrite Hrun3 in Hruny. injection Hruny as <-.
      destruct (PrBounds.C04_free_cluster_chain 0 v (v_nblocks v) fsz s2 h rest fu s' PL L Hst2 Hch2 Hrun3) as (Hstep3 & Hfatws).
      destruct G as (nf & fc & Ev').
      change (set_v_free (set_v_next_free v nf) fc) with (vol_rebook v nf fc) in Ev'.
      exists s'. constructor.
      + rewrite (bind_ok _ _ _ _ _ Hrun2). exact Hrun3.
      + split; [exact Hn0|]. left. split; [exact Hge|]. exists fu. exact Hch.
      + exists nf, fc.
        assert (Hvols' : s_vols s' = [vol_rebook v nf fc]).
        { rewrite (fe_vols _ _ _ _ _ _ _ Heff), Hvols2. cbn [list_set]. rewrite Ev'. reflexivity. }
        split; [exact Hvols'|]. split.
        * apply (asm_inv fsz vid s1 0 v bl rch T Hat blk i e1 (h :: rest) (s_disk s2) Hsw He0 Hdot Hblk Hn0 Hpos Hnopen s' nf fc).
          -- exact (same_tabs_trans _ _ _ (same_mgr_tabs _ _ Hm2) (fe_tabs _ _ _ _ _ _ _ Heff)).
          -- exact Hvols'.
          -- rewrite <- Ev'. exact Hpre3.
          -- rewrite (tr_ext_disk _ _ _ (fe_trace _ _ _ _ _ _ _ Heff)).
             apply blocks_wf_apply; [exact Hwf2|]. apply fat_updates_len. exact Hwf2.
          -- exact (fe_frame _ _ _ _ _ _ _ Heff).
          -- intros h2 ch2 Hh2 Hc2'. apply (asm_heads_in fsz vid s1 0 v bl rch T Hat blk i e1 (h :: rest) Hn0 Hpos) in Hh2.
             destruct Hh2 as (A & B). apply (Hoth h2 ch2 A); [|exact Hc2'].
             intros ->. apply B. rewrite Hheads. left. reflexivity.
          -- apply (del_fat_wf_set _ v (remove N.eq_dec h (heads v T ++ pend_of s1 v))); [| |exact Wn].
             ++ exact (asm_heads_nodup fsz vid s1 0 v bl rch T Hat blk i).
             ++ intros x. rewrite (asm_heads_in fsz vid s1 0 v bl rch T Hat blk i e1 (h :: rest) Hn0 Hpos x), Hheads.
                split.
                ** intros (A & B). apply in_in_remove; [|exact A]. intros ->. apply B. left. reflexivity.
                ** intros H. apply in_remove in H. destruct H as [A B]. split; [exact A|].
                   intros [E|[]]. apply B. symmetry. exact E.
        * rewrite <- Ev'. exact Hfree.
      + intros y Hy. exact (proj1 (Hfreed y Hy)).
      + rewrite Hcount, Hcnt2. reflexivity.
      + exists ([blk] ++ (PrBounds.trunc_ws v h rest ++ fat_writes v h)).
        split; [exact (PrOrder.tsteps_trans _ _ _ _ _ Hstep2 Hstep3)|].
        apply Forall_app. split; [constructor; [exact Hreg|constructor]|].
        eapply Forall_impl; [|exact Hfatws]. intros a Ha. exact (PrBounds.region_of_fat v fsz a Ha).
    - (* an empty file: nothing to free *)
      assert (Hheads : node_heads (NFile e1 []) = []).
      { cbn [node_heads]. apply N.leb_gt in Hlt. rewrite Hlt. reflexivity. }
      pose proof (vol_rebook_self v) as Ev'.
      exists s2. constructor.
      + rewrite (bind_ok _ _ _ _ _ Hrun2). exact (free_reserved 0 _ s2 Hlt).
      + split; [exact Hn0|]. right. split; [exact Hlt|reflexivity].
      + exists (v_next_free v), (v_free v). rewrite <- Ev'. split; [exact Hvols2|]. split; [|reflexivity].
        rewrite Ev'.
        apply (asm_inv fsz vid s1 0 v bl rch T Hat blk i e1 [] (s_disk s2) Hsw He0 Hdot Hblk Hn0 Hpos Hnopen s2).
        * exact (same_mgr_tabs _ _ Hm2).
        * rewrite <- Ev'. exact Hvols2.
        * rewrite <- Ev'. exact Hpre2.
        * exact Hwf2.
        * intros j _. reflexivity.
        * intros h2 ch2 _ H. exact H.
        * apply (del_fat_wf_set _ v (heads v T ++ pend_of s1 v)); [| |exact W2].
          -- exact (asm_heads_nodup fsz vid s1 0 v bl rch T Hat blk i).
          -- intros x. rewrite (asm_heads_in fsz vid s1 0 v bl rch T Hat blk i e1 [] Hn0 Hpos x), Hheads.
             split; [intros (A & _); exact A|intros A; split; [exact A|intros []]].
      + intros y [].
      + rewrite Hcnt2. cbn [length]. lia.
      + exists [blk]. split; [exact Hstep2|]. constructor; [exact Hreg|constructor].
Qed.

(* ================================================================== 6. step_ok (Delete d name) *)
(* the accepted call: lookup, then the two effects, in this order *)
Lemma del_run_success s d di dd v name sfn e s1 :
  PrModes.resolves s d di dd 0 v -> sfn_of_str name = Some sfn ->
  find_directory_entry 0 (d_cluster dd) sfn s = (Ok e, s1) ->
  is_directory (e_attr e) = false -> PrModes.is_open s1 (d_vol dd) e = false ->
  get_volume_by_id (d_vol dd) s1 = (Ok 0%nat, s1) ->
  delete_file_in_dir d name s =
  (delete_directory_entry 0 (d_cluster dd) sfn ;;; free_cluster_chain 0 (e_cluster e)) s1.
Proof.
  intros (Hl & H1 & H2 & H3 & H4) Hsfn Hfind Hd Ho Hv1.
  unfold delete_file_in_dir. rewrite (PrHandles.locked_free _ _ Hl).
  rewrite (bind_ok _ _ _ _ _ H1), (bind_ok _ _ _ _ _ H2), (bind_ok _ _ _ _ _ H3), Hsfn.
  unfold bind at 1. rewrite Hfind. rewrite Hd.
  rewrite (bind_ok _ _ _ _ _ (PrModes.file_is_open_eq _ _ _)). rewrite Ho.
  rewrite (bind_ok _ _ _ _ _ Hv1). reflexivity.
Qed.

(* every outcome of the call: a refusal that wrote nothing (the state is the old one, or the old
   one after the reads of the lookup), or the deletion *)
Definition del_refused (s : st) (r : outcome res) (s' : st) : Prop :=
  exists e, r = Err e /\ In e [BadHandle; FilenameError; NotFound; DeleteDirAsFile; FileAlreadyOpen] /\
            ro_step s s' /\ PrModes.reads_only s s'.

Definition del_deleted (fsz vid : N) (s : st) (v : vol) (bl rch : list N) (T : list node)
    (r : outcome res) (s' : st) : Prop :=
  r = Ok RUnit /\
  exists s1 dc sfn t ch, ro_step s s1 /\ PrModes.reads_only s s1 /\
    del_done fsz vid s1 v bl rch T dc sfn t ch s'.

Lemma del_ro_refl s : no_faults s -> cache_ok s -> ro_step s s /\ PrModes.reads_only s s.
Proof. intros H1 H2. split; [exact (PrDir.ro_refl s H1 H2)|exact (PrModes.ro_refl s)]. Qed.

Theorem del_cases fsz vid s vi v bl rch T d name r s' :
  fs_inv_at fsz vid s vi v bl rch T -> op_name_ok (Delete d name) -> step (Delete d name) s = (r, s') ->
  del_refused s r s' \/ del_deleted fsz vid s v bl rch T r s'.
Proof.
  intros Hat Hname Hs. cbn [step] in Hs.
  destruct (del_facts _ _ _ _ _ _ _ _ Hat) as (Hl & Hnf & Hc & Ev & E0 & Hv0 & Hvok & _). subst vi.
  pose proof (del_ro_refl s Hnf Hc) as Hrefl.
  destruct (del_resolve _ _ _ _ _ _ _ _ d Hat) as [Hno|di dd H1 H2 Hne H3|di dd Hres Hvol Hdir].
  - (* stale handle *)
    destruct (PrHandles.C08_stale_dir_handle d s Hl Hno) as (_ & _ & _ & E1 & _). specialize (E1 name). cbn [step] in E1.
    rewrite E1 in Hs. injection Hs as <- <-. left. exists BadHandle. split; [reflexivity|]. split; [left; reflexivity|exact Hrefl].
  - (* a handle of another volume id *)
    assert (E : delete_file_in_dir d name s = (Err BadHandle, s)).
    { unfold delete_file_in_dir. rewrite (PrHandles.locked_free _ s Hl).
      rewrite (bind_ok _ _ _ _ _ H1), (bind_ok _ _ _ _ _ H2). apply bind_err. exact H3. }
    rewrite (lift_err' _ _ _ _ _ E) in Hs. injection Hs as <- <-.
    left. exists BadHandle. split; [reflexivity|]. split; [left; reflexivity|exact Hrefl].
  - pose proof Hres as (_ & H1 & H2 & H3 & H4).
    destruct (sfn_of_str name) as [sfn|] eqn:Hsfn.
    2:{ (* bad name *)
      assert (E : delete_file_in_dir d name s = (Err FilenameError, s)).
      { unfold delete_file_in_dir. rewrite (PrHandles.locked_free _ s Hl).
        rewrite (bind_ok _ _ _ _ _ H1), (bind_ok _ _ _ _ _ H2), (bind_ok _ _ _ _ _ H3), Hsfn. reflexivity. }
      rewrite (lift_err' _ _ _ _ _ E) in Hs. injection Hs as <- <-.
      left. exists FilenameError. split; [reflexivity|]. split; [right; left; reflexivity|exact Hrefl]. }
    pose proof (del_sfn_shape name sfn Hsfn) as Hshape.
    assert (H229 : get8 sfn 0 <> 229).
    { cbn [op_name_ok] in Hname. unfold e5_name in Hname. rewrite Hsfn in Hname. apply N.eqb_neq. exact Hname. }
    destruct (del_ctx_of _ _ _ _ _ _ _ _ (d_cluster dd) Hat Hdir) as (bl' & parent & kids & Hctx).
    destruct (C06_find 0 v (d_cluster dd) sfn s bl' Hv0 Hvok Hnf Hc (dx_blocks _ _ _ _ _ _ _ Hctx)) as (s1 & Hrun & Hro).
    pose proof (PrModes.find_directory_entry_reads_only _ _ _ _ _ _ Hrun) as Hrd.
    assert (Hro' : ro_step s s1) by exact Hro.
    pose proof (del_ro _ _ _ _ _ _ _ _ _ Hat Hro') as Hat1.
    destruct Hro as (Hd1 & _ & _ & Hm1).
    assert (Hvols1 : s_vols s1 = s_vols s) by exact (proj1 Hm1).
    destruct (find (t_matches sfn) (live_in_blocks (s_disk s) bl')) as [t|] eqn:Hfind.
    + set (e := t_entry (v_fat32 v) t) in *.
      destruct (is_directory (e_attr e)) eqn:Hisdir.
      * (* the entry is a directory *)
        destruct (PrModes.C07_delete_refusals s d di dd 0 v name sfn (Ok e) s1 DeleteDirAsFile Hres Hsfn Hrun) as (E & _).
        { cbn [PrModes.delete_refusal]. rewrite Hisdir. reflexivity. }
        rewrite (lift_err' _ _ _ _ _ E) in Hs. injection Hs as <- <-.
        left. exists DeleteDirAsFile. split; [reflexivity|]. split; [cbn [In]; tauto|]. split; assumption.
      * destruct (PrModes.is_open s1 (d_vol dd) e) eqn:Hopen.
        -- (* the file is open *)
           destruct (PrModes.C07_delete_refusals s d di dd 0 v name sfn (Ok e) s1 FileAlreadyOpen Hres Hsfn Hrun) as (E & _).
           { cbn [PrModes.delete_refusal PrModes.found_open]. rewrite Hisdir, Hopen. reflexivity. }
           rewrite (lift_err' _ _ _ _ _ E) in Hs. injection Hs as <- <-.
           left. exists FileAlreadyOpen. split; [reflexivity|]. split; [cbn [In]; tauto|]. split; assumption.
        -- (* the deletion *)
           assert (Hv1 : get_volume_by_id (d_vol dd) s1 = (Ok 0%nat, s1)).
           { rewrite (del_vol_lookup s1 v (d_vol dd) ltac:(rewrite Hvols1; exact Ev)).
             rewrite Hvol, N.eqb_refl. reflexivity. }
           pose proof (del_run_success s d di dd v name sfn e s1 Hres Hsfn Hrun Hisdir Hopen Hv1) as Erun.
           assert (Hctx1 : del_ctx (s_disk s1) v T (d_cluster dd) bl' parent kids) by (rewrite Hd1; exact Hctx).
           assert (Hfind1 : find (t_matches sfn) (live_in_blocks (s_disk s1) bl') = Some t) by (rewrite Hd1; exact Hfind).
           rewrite Hvol in Hopen.
           destruct (del_core fsz vid s1 v bl rch T (d_cluster dd) bl' parent kids sfn t Hat1 Hctx1 Hshape H229 Hfind1 Hisdir Hopen)
             as (ch & s2 & Hdone).
           pose proof (dd_run _ _ _ _ _ _ _ _ _ _ _ _ Hdone) as Drun.
           fold e in Drun. rewrite Drun in Erun. rewrite (lift_ok' _ _ _ _ _ Erun) in Hs. injection Hs as <- <-.
           right. split; [reflexivity|]. exists s1, (d_cluster dd), sfn, t, ch. split; [exact Hro'|]. split; [exact Hrd|exact Hdone].
    + (* no such entry *)
      destruct (PrModes.C07_delete_refusals s d di dd 0 v name sfn (Err NotFound) s1 NotFound Hres Hsfn Hrun) as (E & _);
        [reflexivity|].
      rewrite (lift_err' _ _ _ _ _ E) in Hs. injection Hs as <- <-.
      left. exists NotFound. split; [reflexivity|]. split; [cbn [In]; tauto|]. split; assumption.
Qed.

Theorem step_ok_Delete fsz vid d name : step_ok fsz vid (Delete d name).
Proof.
  intros s r s' Hinv _ Hknown Hs. destruct Hinv as (vi & v & bl & rch & T & Hat).
  assert (Hinv : fs_inv fsz vid s) by (exists vi, v, bl, rch, T; exact Hat).
  pose proof (fi_single _ _ _ _ _ _ _ _ Hat) as Ev.
  destruct (del_cases fsz vid s vi v bl rch T d name r s' Hat (proj2 Hknown) Hs)
    as [(e & -> & _ & Hro & Hrd)|(-> & s1 & dc & sfn & t & ch & Hro & Hrd & Hdone)].
  - apply del_conclude; try discriminate; try assumption.
    + exists vi, v, bl, rch, T. exact (del_ro _ _ _ _ _ _ _ _ _ Hat Hro).
    + destruct Hro as (_ & _ & _ & Hm). exact (proj1 Hm).
    + exact (del_reads_only_tsteps _ _ Hrd).
  - destruct Hdone as [_ _ (nf & fc & Dvols & Dinv & _) _ _ (ws & Dsteps & Dreg)].
    split; [discriminate|]. split; [discriminate|].
    split; [exists 0%nat, (vol_rebook v nf fc), bl, rch, (prune_list (fst (fst t)) (snd (fst t)) T); exact Dinv|].
    split; [exists v, (vol_rebook v nf fc); split; [exact Ev|split; [exact Dvols|exists nf, fc; reflexivity]]|].
    exists ws. split.
    + exact (PrOrder.tsteps_trans _ _ _ _ _ (del_reads_only_tsteps _ _ Hrd) Dsteps).
    + intros v0 Hv0'. rewrite Ev in Hv0'. destruct Hv0' as [<-|[]]. exact Dreg.
Qed.

(* ================================================================== 7. C05: a successful Delete frees exactly the chain *)
(* after a successful Delete the node deleted was a file node (NFile e ch) of the tree; every
   cluster of its chain ch is free (FAT entry 0); the number of free entries of the FAT grew by
   exactly |ch|; the in-memory free count, when known, grew by |ch| too (it becomes unknown when
   it would leave the u32 range), and a truthful count stays truthful *)
Theorem C05_delete_frees fsz vid s d name s' :
  fs_inv fsz vid s -> op_name_ok (Delete d name) -> step (Delete d name) s = (Ok RUnit, s') ->
  exists vi v bl rch T v' e ch,
    fs_inv_at fsz vid s vi v bl rch T /\ s_vols s' = [v'] /\ geo_eq v v' /\
    In (NFile e ch) (all_nodes T) /\ entry_chain (s_disk s) v e ch /\
    (forall y, In y ch -> fat_get (s_disk s') v 0 y = 0) /\
    free_entries (s_disk s') v' = (free_entries (s_disk s) v + length ch)%nat /\
    v_free v' = match ch with [] => v_free v | _ => add_free (v_free v) (N.of_nat (length ch)) end /\
    (truthful (s_disk s) v -> truthful (s_disk s') v').
Proof.
  intros (vi & v & bl & rch & T & Hat) Hname Hs.
  destruct (del_cases fsz vid s vi v bl rch T d name _ s' Hat Hname Hs)
    as [(e & E & _)|(_ & s1 & dc & sfn & t & ch & Hro & _ & Hdone)]; [discriminate E|].
  destruct Hro as (Hd1 & _).
  destruct Hdone as [_ (Dn & Dc) (nf & fc & Dvols & _ & Dfree) Dz Dcount _]. rewrite Hd1 in *.
  assert (G : geo_eq v (vol_rebook v nf fc)) by (exists nf, fc; reflexivity).
  exists vi, v, bl, rch, T, (vol_rebook v nf fc), (t_entry (v_fat32 v) t), ch.
  split; [exact Hat|]. split; [exact Dvols|]. split; [exact G|]. split; [exact Dn|]. split; [exact Dc|].
  split; [exact Dz|]. split; [rewrite (free_entries_geo _ v _ G); exact Dcount|]. split; [exact Dfree|].
  intros Ht. destruct (del_facts _ _ _ _ _ _ _ _ Hat) as (_ & _ & _ & _ & _ & _ & Hvok & _).
  destruct ch as [|c0 rest].
  - unfold truthful in *. rewrite (free_entries_geo _ v _ G), Dcount, Dfree, Ht. f_equal. cbn [length]. lia.
  - exact (truthful_add (s_disk s) (s_disk s') v _ _ Hvok G Ht Dcount Dfree).
Qed.

(* ================================================================== 8. the hypotheses are satisfiable *)
(* a FAT16 volume (4085 clusters of one block, FAT of 16 sectors from block 11, root directory at
   blocks 27-28, data area from block 29) whose root directory holds a long-name slot, the file
   "A" (3 bytes, chain 2 -> 3) and the empty file "B"; one root-directory handle (5).
   "A" is deleted: the invariant holds afterwards (by the theorem, and the decider agrees), two
   clusters are free again, the long-name slot in front of it stays behind, the name is gone; then
   the empty file "B" is deleted: no FAT change; in the root "." is not found; a stale handle is
   refused *)
Definition exg_vol : vol :=
  mk_vol 0 0 10 5000 [] 1 19 1 None None None 4085 false 32 17 0 0.
Definition exg_slot (c0 cl size : N) : list N :=
  (c0 :: repeat 32 10) ++ [32; 0; 0; 0; 0; 0; 0; 0; 0; 0; 0; 0; 0; 0; 0; cl; 0; size; 0; 0; 0].
Definition exg_lfn : list N :=
  [65; 97; 0; 0; 0] ++ repeat 255 6 ++ [15; 0; 0] ++ repeat 255 12 ++ [0; 0] ++ repeat 255 4.
Definition exg_disk : disk :=
  disk_set (disk_set (PositiveMap.empty block) 11
              (set_bytes zero_block 0 [248; 255; 255; 255; 3; 0; 255; 255]))
           27 (set_bytes zero_block 0 (exg_lfn ++ exg_slot 65 2 3 ++ exg_slot 66 0 0)).
Definition exg_state : st :=
  mk_st exg_disk zero_block None [exg_vol] [mk_dirinfo 5 0 CL_ROOT] [] 6 0 0 [] [] false 1 4 4.

Lemma exg_blocks_wf : blocks_wf exg_disk.
Proof.
  unfold exg_disk. apply blocks_wf_set; [apply blocks_wf_set|]; try reflexivity.
  intros i. unfold disk_get. rewrite PositiveMap.gempty. reflexivity.
Qed.

Lemma exg_inv : fs_inv 16 0 exg_state.
Proof.
  assert (Hb : fs_inv_b 2 16 exg_disk exg_vol [] = true) by (vm_compute; reflexivity).
  destruct (fs_inv_b_sound 2 16 exg_disk exg_vol [] Hb) as ((PL & Hdev & L & Hfit & Hspc & Hinfo) & bl & rch & T & HD).
  exists 0%nat, exg_vol, bl, rch, T. constructor; try assumption; try reflexivity.
  - split; [reflexivity|]. split; [|split; [exact Hfit|split; [exact Hspc|split; [exact exg_blocks_wf|reflexivity]]]].
    split; [|split; [exact L|intros c E; discriminate E]].
    split; [intros n []|]. split; [intros i E; discriminate E|]. split; [reflexivity|].
    intros k _. apply exg_blocks_wf.
  - constructor.
  - constructor.
  - constructor.
  - constructor; [|constructor]. intros _. left. reflexivity.
Qed.
Definition exg_s1 : st := snd (step (Delete 5 [65]) exg_state).
Definition exg_s2 : st := snd (step (Delete 5 [66]) exg_s1).

Lemma exg_step1 : step (Delete 5 [65]) exg_state = (Ok RUnit, exg_s1).
Proof.
  unfold exg_s1. destruct (step (Delete 5 [65]) exg_state) as [r s'] eqn:E. cbn [snd]. f_equal.
  change r with (fst (r, s')). rewrite <- E. vm_compute. reflexivity.
Qed.
Lemma exg_step2 : step (Delete 5 [66]) exg_s1 = (Ok RUnit, exg_s2).
Proof.
  unfold exg_s2. destruct (step (Delete 5 [66]) exg_s1) as [r s'] eqn:E. cbn [snd]. f_equal.
  change r with (fst (r, s')). rewrite <- E. vm_compute. reflexivity.
Qed.
Example del_example :
  fs_inv 16 0 exg_state /\ id_fresh exg_state /\ op_known_ok (Delete 5 [65]) /\
  step (Delete 5 [65]) exg_state = (Ok RUnit, exg_s1) /\ fs_inv 16 0 exg_s1 /\
  N.of_nat (free_entries (s_disk exg_s1) exg_vol) = N.of_nat (free_entries exg_disk exg_vol) + 2 /\
  fs_inv_b 2 16 (s_disk exg_s1) exg_vol [] = true /\
  slot (disk_get (s_disk exg_s1) 27) 0 = exg_lfn /\
  fst (step (Delete 5 [65]) exg_s1) = Err NotFound /\
  step (Delete 5 [66]) exg_s1 = (Ok RUnit, exg_s2) /\ fs_inv 16 0 exg_s2 /\
  N.of_nat (free_entries (s_disk exg_s2) exg_vol) = N.of_nat (free_entries (s_disk exg_s1) exg_vol) /\
  fst (step (Delete 5 [46]) exg_state) = Err NotFound /\
  fst (step (Delete 7 [65]) exg_state) = Err BadHandle.
Proof.
  assert (Hfresh : forall s, PrHandles.all_ids s = [0; 5] -> s_next_id s = 6 -> id_fresh s).
  { intros s E1 E2 x Hx E. rewrite E1 in Hx. rewrite E2 in E. destruct Hx as [<-|[<-|[]]]; discriminate E. }
  assert (Hk : forall nm, e5_name nm = false -> op_known_ok (Delete 5 nm)).
  { intros nm E. split; [split; exact I|exact E]. }
  assert (F0 : id_fresh exg_state) by (apply Hfresh; vm_compute; reflexivity).
  assert (F1 : id_fresh exg_s1) by (apply Hfresh; vm_compute; reflexivity).
  assert (K1 : e5_name [65] = false) by (vm_compute; reflexivity).
  assert (K2 : e5_name [66] = false) by (vm_compute; reflexivity).
  pose proof (step_ok_Delete 16 0 5 [65] exg_state _ _ exg_inv F0 (Hk [65] K1) exg_step1) as (_ & _ & Hinv1 & _).
  pose proof (step_ok_Delete 16 0 5 [66] exg_s1 _ _ Hinv1 F1 (Hk [66] K2) exg_step2) as (_ & _ & Hinv2 & _).
  split; [exact exg_inv|]. split; [exact F0|]. split; [exact (Hk [65] K1)|].
  split; [exact exg_step1|]. split; [exact Hinv1|].
  split; [vm_compute; reflexivity|]. split; [vm_compute; reflexivity|].
  split; [vm_compute; reflexivity|]. split; [vm_compute; reflexivity|].
  split; [exact exg_step2|]. split; [exact Hinv2|].
  split; [vm_compute; reflexivity|]. split; vm_compute; reflexivity.
Qed.

Check (step_ok_Delete : forall fsz vid d name, step_ok fsz vid (Delete d name)).
Print Assumptions step_ok_Delete.
Print Assumptions C05_delete_frees.
Print Assumptions del_cases.
Print Assumptions del_example.
