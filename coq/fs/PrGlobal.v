(* Assembly of the global file-system invariant: every API operation of the model preserves
   [fs_inv] (PrGlobalDef), hence every history does.  C03 (structural soundness after every call),
   C04 (every device write of every history in a region of the volume) and C05 (clusters in use =
   clusters on live chains) for WHOLE HISTORIES of the model follow.
   Scope (op_known_ok): one mounted volume (no OpenVol / CloseVol / Remount inside the history),
   no device faults (part of fs_inv), names outside the known class D29 (first byte 0xE5),
   fewer than 2^32 handle generations (C08_wrap). *)
From Coq Require Import NArith ZArith List Bool Lia Permutation.
From SdFs Require Import FsTypes FsBase FsFat FsMgr FsLemmas PrBase PrFat PrAlloc PrDir PrAllocEffect PrChain PrCount PrRw PrWrite PrEntry PrMulti PrOpenClose PrWf.
From SdFs Require PrHandles PrOrder PrBounds.
From SdFs Require Import PrGlobalDef PrGlobalWrite PrGlobalMkdir PrGlobalOpen PrGlobalOpen2 PrGlobalDelete.
Import ListNotations.
Open Scope N_scope.

Theorem all_steps_ok fsz vid : forall o, step_ok fsz vid o.
Proof.
  intros o. destruct o.
  - (* OpenVol: outside the scope *) intros s r s' _ _ [[_ F] _]. destruct F.
  - (* CloseVol *) intros s r s' _ _ [[_ F] _]. destruct F.
  - apply step_ok_OpenRoot.
  - apply step_ok_OpenDir.
  - apply step_ok_CloseDir.
  - apply step_ok_Find.
  - apply step_ok_Iter.
  - apply step_ok_OpenFile.
  - apply step_ok_CloseFile.
  - apply step_ok_Flush.
  - apply step_ok_Read.
  - apply step_ok_Write.
  - apply step_ok_SeekStart.
  - apply step_ok_SeekCur.
  - apply step_ok_SeekEnd.
  - apply step_ok_Length.
  - apply step_ok_Offset.
  - apply step_ok_Eof.
  - apply step_ok_Delete.
  - apply step_ok_Mkdir.
  - apply step_ok_Label.
  - apply step_ok_HasOpen.
  - apply step_ok_IoSeek.
  - apply step_ok_IoRead.
  - apply step_ok_IoWrite.
  - (* Remount *) intros s r s' _ _ [[F _] _]. destruct F.
Qed.

(* every history: the invariant after the last call, no call panics or runs out of fuel, the
   geometry never changes, every device write lies in a region of the volume *)
Theorem C03_history fsz vid ops s age :
  fs_inv fsz vid s -> PrHandles.handles_ok age s ->
  age + N.of_nat (length ops) < U32 - 1 -> Forall op_known_ok ops ->
  let '(rs, s') := run_ops ops s in
  fs_inv fsz vid s' /\ same_geo s s' /\
  Forall (fun r => r <> Panic /\ r <> OutOfFuel) rs /\
  exists ws, PrOrder.tsteps s s' ws /\ forall v, In v (s_vols s) -> Forall (PrBounds.in_region v fsz) ws.
Proof. exact (history_ok fsz vid (all_steps_ok fsz vid) ops s age). Qed.

(* ... and after EVERY call of the history (every prefix), which is what C03 asks for *)
Theorem C03_after_every_call fsz vid ops1 ops2 s age :
  fs_inv fsz vid s -> PrHandles.handles_ok age s ->
  age + N.of_nat (length (ops1 ++ ops2)) < U32 - 1 -> Forall op_known_ok (ops1 ++ ops2) ->
  fs_inv fsz vid (snd (run_ops ops1 s)).
Proof.
  intros Hinv Hh Hage Hops.
  assert (Hage1 : age + N.of_nat (length ops1) < U32 - 1).
  { rewrite app_length, Nat2N.inj_add in Hage. lia. }
  assert (Hops1 : Forall op_known_ok ops1) by (apply Forall_app in Hops; tauto).
  pose proof (C03_history fsz vid ops1 s age Hinv Hh Hage1 Hops1) as H.
  destruct (run_ops ops1 s) as [rs s']. cbn [snd]. tauto.
Qed.

(* the property text, spelled out on the state after any history *)
Theorem C03_sound_after_history fsz vid ops s age :
  fs_inv fsz vid s -> PrHandles.handles_ok age s ->
  age + N.of_nat (length ops) < U32 - 1 -> Forall op_known_ok ops ->
  let s' := snd (run_ops ops s) in
  exists v bl rch T, s_vols s' = [v] /\ v_id v = vid /\
    let d := s_disk s' in
    root_dir d v bl rch /\ tree_rep d v bl T /\
    (v_fat32 v = true -> chain_sound d v (v_root_cluster v) rch) /\
    (forall n, In n (all_nodes T) ->
       (node_chain n = [] /\ node_is_dir n = false /\ e_cluster (node_entry n) < 2) \/
       chain_sound d v (e_cluster (node_entry n)) (node_chain n)) /\
    (forall f, In f (s_files s') ->
       (fchain d v f = [] /\ e_cluster (f_entry f) < 2) \/ chain_sound d v (e_cluster (f_entry f)) (fchain d v f)) /\
    NoDup (rch ++ flat_map node_chain (all_nodes T) ++ all_chains d v (pend_of s' v)) /\
    (forall e ch, In (NFile e ch) (all_nodes T) -> e_size e <= N.of_nat (length ch) * bytes_per_cluster v) /\
    (forall f, In f (s_files s') -> e_size (f_entry f) <= N.of_nat (length (fchain d v f)) * bytes_per_cluster v) /\
    dir_ok d v CL_ROOT CL_ROOT bl /\
    (forall e ch kids, In (NDir e ch kids) (all_nodes T) ->
       exists parent, dir_ok d v (e_cluster e) parent (data_blocks v ch) /\ listed_in T (NDir e ch kids) parent).
Proof.
  intros Hinv Hh Hage Hops s'.
  pose proof (C03_history fsz vid ops s age Hinv Hh Hage Hops) as H.
  subst s'. destruct (run_ops ops s) as [rs s1]. cbn [snd].
  destruct H as [H _]. exact (fs_inv_C03 fsz vid s1 H).
Qed.

(* C04 over histories: the complete list of device writes of any history lies in the FAT copies, the
   FAT16 root region, the data area or the FAT32 information sector of the volume - hence (PrBounds.
   C04_regions_not_outside) never on the MBR, the boot sector, another partition or past the last cluster *)
Theorem C04_history fsz vid ops s age :
  fs_inv fsz vid s -> PrHandles.handles_ok age s ->
  age + N.of_nat (length ops) < U32 - 1 -> Forall op_known_ok ops ->
  exists ws, PrOrder.tsteps s (snd (run_ops ops s)) ws /\
    forall v, In v (s_vols s) -> Forall (PrBounds.in_region v fsz) ws.
Proof.
  intros Hinv Hh Hage Hops.
  pose proof (C03_history fsz vid ops s age Hinv Hh Hage Hops) as H.
  destruct (run_ops ops s) as [rs s1]. cbn [snd]. tauto.
Qed.

(* C05 over histories: once every file is closed, the clusters marked in use are exactly (a
   permutation of) the clusters on the chains of the live files and directories *)
Theorem C05_history fsz vid ops s age :
  fs_inv fsz vid s -> PrHandles.handles_ok age s ->
  age + N.of_nat (length ops) < U32 - 1 -> Forall op_known_ok ops ->
  let s' := snd (run_ops ops s) in
  s_files s' = [] ->
  exists v bl rch T, s_vols s' = [v] /\ root_dir (s_disk s') v bl rch /\ tree_rep (s_disk s') v bl T /\
    Permutation (used_list (s_disk s') v) (rch ++ flat_map node_chain (all_nodes T)).
Proof.
  intros Hinv Hh Hage Hops s' Hf.
  pose proof (C03_history fsz vid ops s age Hinv Hh Hage Hops) as H.
  subst s'. destruct (run_ops ops s) as [rs s1]. cbn [snd] in *.
  destruct H as [(vi & v & bl & rch & T & Hat) _].
  exists v, bl, rch, T.
  pose proof (fi_disk _ _ _ _ _ _ _ _ Hat) as Hd.
  split; [exact (fi_single _ _ _ _ _ _ _ _ Hat)|].
  split; [exact (di_root _ _ _ _ _ _ Hd)|]. split; [exact (di_tree _ _ _ _ _ _ Hd)|].
  exact (proj2 (fs_inv_C05 fsz vid s1 vi v bl rch T Hat Hf)).
Qed.

Print Assumptions all_steps_ok.
Print Assumptions C03_history.
Print Assumptions C03_after_every_call.
Print Assumptions C03_sound_after_history.
Print Assumptions C04_history.
Print Assumptions C05_history.
