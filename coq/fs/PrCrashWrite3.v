(* PROOFS: C10 / C09 for Write and IoWrite, part 3: from wr_rel (PrCrashWrite) to the crash
   invariant and to "every other file is found unchanged", and the per-operation obligations
     step_crash_Write, step_crash_IoWrite           (PrCrashDef.step_crash)
     step_keeps_Write, step_keeps_IoWrite           (PrCrashDef4.step_keeps_flushed)
   for ALL arguments and EVERY outcome of the call: stale handle, ReadOnly refusal, empty
   IoWrite, Ok, DiskFull after a stored prefix, NotEnoughSpace.  No extra hypothesis. *)
From Coq Require Import NArith ZArith List Bool Lia Arith ZifyClasses ZifyInst Zify FMapPositive Permutation.
From SdFs Require Import FsTypes FsBase FsFat FsMgr FsLemmas PrBase PrFat PrAlloc PrDir PrSeek PrAllocEffect
  PrRw PrWrite PrFileSeq PrMulti PrEntry PrChain PrCount PrWf PrOpenClose PrGlobalDef PrGlobalWrite.
From SdFs Require PrModes PrHandles PrBounds PrOrder PrGlobalOpen.
From SdFs Require Import PrCrash PrCrashDef PrCrashDef2 PrCrashDef3 PrCrashDef4 PrCrashWrite PrCrashWrite2.
Import ListNotations.
Open Scope N_scope.
Local Arguments N.mul : simpl never.
Local Arguments N.add : simpl never.
Local Arguments N.sub : simpl never.
Local Arguments N.div : simpl never.
Local Arguments N.modulo : simpl never.
Local Ltac Zify.zify_post_hook ::= Z.to_euclidean_division_equations.

(* ================================================================== 1. wr_rel in a state of the invariant *)
Section WrInv.
  Variables (fsz vid : N) (s : st) (vi : nat) (v : vol) (bl rch : list N) (T : list node).
  Hypothesis Hinv : fs_inv_at fsz vid s vi v bl rch T.
  Variable f : fileinfo.
  Hypothesis Hfin : In f (s_files s).

  Let d := s_disk s.
  Let hs := heads v T ++ pend_of s v.
  Let first := e_cluster (f_entry f).
  Let HD := fi_disk _ _ _ _ _ _ _ _ Hinv.
  Let W := di_wf _ _ _ _ _ _ HD.

  (* the head of a directory chain is a head of the invariant and not the first cluster of f *)
  Lemma wi_dir_head h :
    In h (root_heads v) \/ (exists e ch kids, In (NDir e ch kids) (all_nodes T) /\ e_cluster e = h) ->
    In h hs /\ h <> first.
  Proof.
    intros Hh.
    assert (Hhs : In h hs).
    { unfold hs. apply in_or_app. left. unfold heads. apply in_or_app.
      destruct Hh as [Hh|(e & ch & kids & Hn & <-)]; [left; exact Hh|right].
      apply (own_head_in T _ _ Hn). left. reflexivity. }
    split; [exact Hhs|]. intros E.
    pose proof (wf_l_def d v hs h W Hhs) as Hc. pose proof (chain_at_head_in _ _ _ _ Hc) as Hin.
    destruct (chain_at_mem d v h _ h Hc Hin) as (H2 & _).
    apply (dir_chain_apart _ _ _ _ _ _ _ _ Hinv h f Hh Hfin h Hin).
    unfold fchain. fold first. rewrite <- E.
    replace (h <? 2) with false by (symmetry; apply N.ltb_ge; exact H2). exact Hin.
  Qed.

  Variable d' : disk.
  Hypothesis Hrel : wr_rel v fsz hs first d d'.

  Lemma wi_dir_chain h dch :
    In h (root_heads v) \/ (exists e ch kids, In (NDir e ch kids) (all_nodes T) /\ e_cluster e = h) ->
    chain_at d v h dch ->
    chain_at d' v h dch /\ forall j, In j (data_blocks v dch) -> disk_get d' j = disk_get d j.
  Proof.
    intros Hh Hc. destruct (wi_dir_head h Hh) as (A & B).
    exact (proj1 (proj2 Hrel) h dch A B Hc).
  Qed.

  Lemma wi_dir_blocks j : In j (tree_dir_blocks v bl T) -> disk_get d' j = disk_get d j.
  Proof.
    intros Hj. apply gw_tree_dir_blocks_iff in Hj. destruct Hj as [Hj|(e & dch & kids & Hn & Hj)].
    - pose proof (di_root _ _ _ _ _ _ HD) as Hroot. unfold root_dir in Hroot.
      destruct (v_fat32 v) eqn:E32.
      + destruct Hroot as (Hch & Ebl). rewrite Ebl in Hj.
        refine (proj2 (wi_dir_chain (v_root_cluster v) rch _ Hch) j Hj).
        left. unfold root_heads. rewrite E32. left. reflexivity.
      + destruct Hroot as (_ & Ebl). rewrite Ebl in Hj. apply (proj2 (proj2 Hrel)).
        * intros copy k Hk E.
          pose proof (PrBounds.C04_root_block_in_root v E32) as Fr. rewrite Forall_forall in Fr.
          pose proof (PrBounds.fat_copy_sector_in_fat v fsz copy k Hk) as Hf. rewrite <- E in Hf.
          destruct (PrBounds.C04_regions_disjoint v _ fsz j (fi_layout _ _ _ _ _ _ _ _ Hinv)) as (_ & X & _).
          exact (proj1 (X Hf) (Fr j Hj)).
        * intros c Hc. exact (root16_no_cluster _ _ _ _ _ _ _ _ Hinv j c E32 Hj Hc).
    - destruct (dir_node_chain _ _ _ _ _ _ HD e dch kids Hn) as (Hch & _).
      refine (proj2 (wi_dir_chain (e_cluster e) dch _ Hch) j Hj).
      right. exists e, dch, kids. split; [exact Hn|reflexivity].
  Qed.

  (* the crashed medium is crash-sound: the tree of the state with every file chain re-read,
     the pending chains and the clusters marked but not yet linked as lost chains *)
  Lemma wi_crash_inv : exists lost', crash_inv_at d' v bl rch (map (rechain (chain_now d' v)) T) lost'.
  Proof.
    destruct Hrel as ((extra & W') & _ & _).
    exists (extra ++ pend_of s v).
    apply (ci_rechain d d' v bl rch T (pend_of s v)).
    - exact (disk_inv_crash_inv_at _ _ _ _ _ _ HD).
    - exact wi_dir_blocks.
    - intros e ch kids Hn. destruct (dir_node_chain _ _ _ _ _ _ HD e ch kids Hn) as (Hch & _).
      refine (proj1 (wi_dir_chain (e_cluster e) ch _ Hch)).
      right. exists e, ch, kids. split; [exact Hn|reflexivity].
    - pose proof (di_root _ _ _ _ _ _ HD) as Hroot. unfold root_dir in *.
      destruct (v_fat32 v) eqn:E32; [|exact Hroot].
      destruct Hroot as (Hch & Ebl). split; [|exact Ebl].
      refine (proj1 (wi_dir_chain (v_root_cluster v) rch _ Hch)).
      left. unfold root_heads. rewrite E32. left. reflexivity.
    - apply (fat_wf_perm d' v (extra ++ hs)); [|exact W']. unfold hs. apply Permutation_app_swap_app.
  Qed.

  (* a file node at another slot than the slot of f: same path, same entry, same bytes *)
  Lemma wi_keeps path e bytes : file_on_medium d v path e bytes ->
    (e_block e, e_offset e) <> slot_key f -> file_on_medium d' v path e bytes.
  Proof.
    intros Hf Hslot.
    pose proof (disk_inv_crash_inv_at _ _ _ _ _ _ HD) as CI.
    destruct (proj1 (file_on_medium_tree d v bl rch T _ path e bytes CI) Hf) as (ch2 & Hat & _).
    pose proof (node_at_in _ _ _ Hat) as Hn.
    destruct (all_nodes_rep d v bl T (di_tree _ _ _ _ _ _ HD) _ Hn) as (t & bl' & Hrep & _).
    apply node_rep_file in Hrep. destruct Hrep as (_ & _ & Hec).
    destruct wi_crash_inv as (lost' & CI').
    assert (K : chain_now d' v e = ch2 /\ forall j, In j (data_blocks v ch2) -> disk_get d' j = disk_get d j).
    { unfold chain_now. destruct Hec as [(H2 & fu & Hc)|(Hlt & ->)].
      2:{ apply N.ltb_lt in Hlt. rewrite Hlt. split; [reflexivity|intros j []]. }
      replace (e_cluster e <? 2) with false by (symmetry; apply N.ltb_ge; exact H2).
      pose proof (chain_at_any _ _ _ _ _ Hc) as Hcat.
      assert (Hown : In (e_cluster e) (own_head (NFile e ch2))).
      { cbn [own_head]. replace (2 <=? e_cluster e) with true by (symmetry; apply N.leb_le; exact H2). left. reflexivity. }
      assert (Hhs : In (e_cluster e) hs).
      { unfold hs. apply in_or_app. left. unfold heads. apply in_or_app. right. exact (own_head_in T _ _ Hn Hown). }
      assert (Hne : e_cluster e <> first).
      { intros E. destruct (heads_nodup v T (pend_of s v) (wf_heads _ _ _ W)) as (N1 & _ & _ & N4).
        assert (F2 : 2 <= e_cluster (f_entry f)) by (fold first; rewrite <- E; exact H2).
        destruct (ofile_head _ _ _ _ _ _ _ _ Hinv f Hfin F2) as [(e0 & ch0 & Hn0 & Ec0 & Eb0 & Eo0)|Hp].
        - assert (Hown0 : In (e_cluster e) (own_head (NFile e0 ch0))).
          { cbn [own_head]. rewrite Ec0. fold first. rewrite <- E.
            replace (2 <=? e_cluster e) with true by (symmetry; apply N.leb_le; exact H2). left. reflexivity. }
          pose proof (flat_map_owner own_head _ N1 _ _ _ Hn Hn0 Hown Hown0) as Eq. injection Eq as -> _.
          apply Hslot. unfold slot_key. rewrite Eb0, Eo0. reflexivity.
        - apply (N4 (e_cluster e)); [exact (own_head_in T _ _ Hn Hown)|].
          rewrite E. exact (pending_in _ _ f Hfin Hp). }
      destruct (proj1 (proj2 Hrel) _ ch2 Hhs Hne Hcat) as (X1 & X2).
      split; [exact (chain_l_at _ _ _ _ X1)|exact X2]. }
    destruct K as (K1 & K2).
    apply (file_on_medium_keep d d' v bl rch T (pend_of s v) bl rch _ lost' path e ch2 CI Hat CI'); [|exact K2|exact Hf].
    exact (node_at_rechain _ T path e ch2 K1 Hat).
  Qed.
End WrInv.

(* ================================================================== 2. mgr_write in a state of the invariant *)
(* mgr_write on a handle that names a record - EVERY outcome: every crashed medium is
   crash-sound, and every file whose slot is not the slot of the handle is found on it at the
   same path with the same entry and the same bytes *)
Theorem write_crash fsz vid s vi v bl rch T h data fi f o s' :
  fs_inv_at fsz vid s vi v bl rch T -> PrSeek.resolves s h fi f -> mgr_write h data s = (o, s') ->
  forall d', crash_disks s s' d' ->
    crash_inv fsz v d' /\
    forall path e bytes, file_on_medium (s_disk s) v path e bytes -> ~ handle_targets s h e ->
      file_on_medium d' v path e bytes.
Proof.
  intros Hinv Hr Hrun d' Hd.
  pose proof (gw_mw_pre fsz vid s vi v bl rch T Hinv h fi f Hr) as Hmw.
  pose proof Hr as (_ & _ & Hfi). pose proof (nth_error_In _ _ Hfi) as Hfin.
  destruct (mode_eqb (f_mode f) ReadOnly) eqn:Hmode.
  - pose proof Hmw as [Hl Hh _ Hvol _ _ _ _ _ _ _ _].
    rewrite (mgr_write_read_only h data s fi f vi Hl Hh Hfi Hvol Hmode) in Hrun. injection Hrun as _ <-.
    rewrite (crash_disks_quiet s s d' (step_writes_same s s eq_refl) Hd).
    split; [exact (fs_inv_crash_inv _ _ _ _ _ _ _ _ Hinv)|]. intros path e bytes Hf _. exact Hf.
  - pose proof (mw_crash fsz h data s fi f vi v _ (heads v T ++ pend_of s v) o s' Hmw Hmode
                  (di_wf _ _ _ _ _ _ (fi_disk _ _ _ _ _ _ _ _ Hinv))
                  (ofile_in_hs _ _ _ _ _ _ _ _ Hinv f Hfin) Hrun d' Hd) as Hrel.
    split.
    + split; [exact (fs_inv_crash_vol _ _ _ _ _ _ _ _ Hinv)|].
      destruct (wi_crash_inv fsz vid s vi v bl rch T Hinv f Hfin d' Hrel) as (lost' & CI).
      exists bl, rch. eexists. exists lost'. exact CI.
    + intros path e bytes Hf Hnt.
      apply (wi_keeps fsz vid s vi v bl rch T Hinv f Hfin d' Hrel path e bytes Hf).
      intros E. apply Hnt. exists f. split; [exact Hfin|]. split; [exact (PrSeek.resolves_id _ _ _ _ Hr)|].
      unfold slot_key in E. injection E as E1 E2. split; congruence.
Qed.

(* ================================================================== 3. the obligations *)
(* the run of mgr_write from a state of the invariant, whatever the handle *)
Lemma write_all fsz vid h data (o : outcome unit) s s' :
  fs_inv fsz vid s -> mgr_write h data s = (o, s') ->
  forall v d', s_vols s = [v] -> crash_disks s s' d' ->
    crash_inv fsz v d' /\
    forall path e bytes, file_on_medium (s_disk s) v path e bytes -> ~ handle_targets s h e ->
      file_on_medium d' v path e bytes.
Proof.
  intros Hinv Hrun v d' Ev Hd. pose proof (fs_inv_lock fsz vid s Hinv) as Hl.
  destruct (file_handle_cases s h Hl) as [(fi & f & Hr)|Hno].
  - destruct Hinv as (vi & v0 & bl & rch & T & Hat).
    pose proof (fi_single _ _ _ _ _ _ _ _ Hat) as Ev0. rewrite Ev in Ev0. injection Ev0 as <-.
    exact (write_crash fsz vid s vi v bl rch T h data fi f o s' Hat Hr Hrun d' Hd).
  - (* stale handle: BadHandle, the state is untouched *)
    destruct (PrHandles.C08_stale_file_handle h s Hl Hno) as (_ & E & _).
    specialize (E data). cbn [step] in E. unfold lift, bind in E. rewrite Hrun in E.
    assert (Es : s' = s) by (destruct o; injection E as _ <-; reflexivity). subst s'.
    rewrite (crash_disks_quiet s s d' (step_writes_same s s eq_refl) Hd).
    split; [exact (fs_inv_crash fsz vid s v Hinv Ev)|]. intros path e bytes Hf _. exact Hf.
Qed.

Lemma write_step_all fsz vid h data (r : outcome res) s s' :
  fs_inv fsz vid s -> step (Write h data) s = (r, s') ->
  forall v d', s_vols s = [v] -> crash_disks s s' d' ->
    crash_inv fsz v d' /\
    forall path e bytes, file_on_medium (s_disk s) v path e bytes -> ~ handle_targets s h e ->
      file_on_medium d' v path e bytes.
Proof.
  intros Hinv Hs. cbn [step] in Hs. unfold lift, bind in Hs.
  destruct (mgr_write h data s) as [o s1] eqn:Hrun.
  assert (E : s' = s1) by (destruct o; injection Hs as _ <-; reflexivity). subst s1.
  exact (write_all fsz vid h data o s s' Hinv Hrun).
Qed.

Theorem step_crash_Write fsz vid h data : step_crash fsz vid (Write h data).
Proof.
  intros s r s' Hinv _ _ Hs v d' Ev Hd.
  exact (proj1 (write_step_all fsz vid h data r s s' Hinv Hs v d' Ev Hd)).
Qed.

Theorem step_keeps_Write fsz vid h data : step_keeps_flushed fsz vid (Write h data).
Proof.
  intros s r s' Hinv _ _ Hs v path e bytes Ev Hf Hnt d' Hd.
  exact (proj2 (write_step_all fsz vid h data r s s' Hinv Hs v d' Ev Hd) path e bytes Hf Hnt).
Qed.

(* IoWrite: an empty request does nothing; otherwise it is the Write (the result is the length) *)
Lemma io_write_all fsz vid h data (r : outcome res) s s' :
  fs_inv fsz vid s -> step (IoWrite h data) s = (r, s') ->
  forall v d', s_vols s = [v] -> crash_disks s s' d' ->
    crash_inv fsz v d' /\
    forall path e bytes, file_on_medium (s_disk s) v path e bytes -> ~ handle_targets s h e ->
      file_on_medium d' v path e bytes.
Proof.
  intros Hinv Hs v d' Ev Hd. cbn [step] in Hs. unfold io_write in Hs. destruct data as [|x t] eqn:Edata.
  { unfold lift, bind, ret in Hs. injection Hs as _ <-.
    rewrite (crash_disks_quiet s s d' (step_writes_same s s eq_refl) Hd).
    split; [exact (fs_inv_crash fsz vid s v Hinv Ev)|]. intros path e bytes Hf _. exact Hf. }
  rewrite <- Edata in Hs. unfold lift, bind, ret in Hs.
  destruct (mgr_write h data s) as [o s1] eqn:Hrun.
  assert (E : s' = s1) by (destruct o; injection Hs as _ <-; reflexivity). subst s1.
  exact (write_all fsz vid h data o s s' Hinv Hrun v d' Ev Hd).
Qed.

Theorem step_crash_IoWrite fsz vid h data : step_crash fsz vid (IoWrite h data).
Proof.
  intros s r s' Hinv _ _ Hs v d' Ev Hd.
  exact (proj1 (io_write_all fsz vid h data r s s' Hinv Hs v d' Ev Hd)).
Qed.

Theorem step_keeps_IoWrite fsz vid h data : step_keeps_flushed fsz vid (IoWrite h data).
Proof.
  intros s r s' Hinv _ _ Hs v path e bytes Ev Hf Hnt d' Hd.
  exact (proj2 (io_write_all fsz vid h data r s s' Hinv Hs v d' Ev Hd) path e bytes Hf Hnt).
Qed.

Print Assumptions step_crash_Write.
Print Assumptions step_crash_IoWrite.
Print Assumptions step_keeps_Write.
Print Assumptions step_keeps_IoWrite.
