(* PROOFS: the whole-history theorems lifted to the extended alphabet [xop], part 3:
     d  ONE ARMED DEVICE FAULT (C11): lock-step for every extended operation (lockstep_xstep), the fault
        obligation xstep_fault for every extended operation by reduction to PrFaultAll.all_steps_fault_model
        of the base call, and the history theorem C11x_history_model.
   What differs from the base alphabet: a DROP that hits the fault answers Ok () - the device error of the
   close inside is discarded (xfo_res); everything else the base call guarantees (tables, crash-sound
   medium, bystander files, retry) holds for the extended call. *)
From Coq Require Import NArith ZArith List Bool Lia Arith FMapPositive.
From SdFs Require Import FsTypes FsBase FsFat FsMgr FsExt FsLemmas PrBase PrAllocEffect PrChain PrFault PrGlobalDef.
From SdFs Require PrHandles PrCrash PrGlobal PrSeek.
From SdFs Require Import PrFault2 PrCrashDef PrCrashDef2 PrCrashDef4 PrFaultDef PrFaultDef2 PrFaultDef3.
From SdFs Require PrFaultDef6 PrFaultAll.
From SdFs Require Import PrExt PrExt2.
From SdFs Require Import PrExt3 PrExt4.
Import ListNotations.
Open Scope N_scope.

(* ================================================================== 1. lock-step for the extended operations *)
Lemma ls_iter_blocks_raw fat32 : forall n i acc, lockstep (iter_blocks_raw n fat32 i acc).
Proof. induction n as [|n IH]; intros i acc; cbn [iter_blocks_raw]; ls_go. Qed.
#[local] Hint Resolve ls_iter_blocks_raw : ls.
Lemma ls_iter_walk_raw vi : forall fuel c acc, lockstep (iter_walk_raw fuel vi c acc).
Proof. induction fuel as [|f IH]; intros c acc; cbn [iter_walk_raw]; ls_go. Qed.
Lemma ls_iterate_dir_raw vi c : lockstep (iterate_dir_raw vi c).
Proof. unfold iterate_dir_raw. ls_go. apply ls_iter_walk_raw. Qed.
#[local] Hint Resolve ls_iterate_dir_raw : ls.
Lemma ls_mgr_iterate_lfn d n : lockstep (mgr_iterate_lfn d n).
Proof. unfold mgr_iterate_lfn. apply ls_locked. ls_go. Qed.
Lemma ls_xlift {A} (f : A -> xres) (m : M A) : lockstep m -> lockstep (xlift f m).
Proof. intros H. unfold xlift. ls_go. Qed.
Lemma ls_expect {A} (m : M A) : lockstep m -> lockstep (expect m).
Proof. intros H. unfold expect. ls_go. Qed.

Theorem lockstep_xstep : forall o, lockstep (xstep o).
Proof.
  intros o. destruct o; cbn [xstep]; apply ls_xlift.
  - apply lockstep_step.
  - apply ls_mgr_iterate_lfn.
  - unfold drop_file. pose proof (ls_close_file f). ls_go.
  - unfold drop_dir. pose proof (ls_close_dir d). ls_go.
  - unfold drop_volume. pose proof (ls_close_volume v). ls_go.
  - unfold change_dir. pose proof (ls_open_dir d name). pose proof (ls_close_dir d). ls_go.
  - apply ls_expect, ls_file_eof.
  - apply ls_expect, ls_file_length.
  - apply ls_expect, ls_file_offset.
Qed.

(* ================================================================== 2. the fault obligation *)
(* an extended call that hit the armed fault:
   (a) it reports an error - except a DROP, which answers Ok (): the error of the close is discarded;
   (b)-(f) everything the base call guarantees: the lock free and the handle tables intact (a dropped
       file handle is removed, like a closed one), a crash-sound medium, every file the call does not
       target intact on the medium, and for the calls that never write a state of the invariant on the
       same file system (the call can be retried) *)
Record xfault_outcome (fsz vid : N) (o : xop) (s : st) (v : vol) (r : outcome xres) (s' : st) : Prop :=
  mk_xfault_outcome {
  xfo_res : match o with
            | XDropFile _ | XDropDir _ | XDropVol _ => r = Ok (XR RUnit)
            | _ => exists e, r = Err e
            end;
  xfo_base : exists e, fault_outcome fsz vid (xbase o) s v (Err e) s'
}.

Definition xstep_fault (fsz vid : N) (o : xop) : Prop :=
  forall s i r s' v, fs_inv fsz vid s -> id_fresh s -> xop_scope_ok o -> xop_guard o s -> s_vols s = [v] ->
    xstep o (arm s i) = (r, s') -> s_ncalls s + i < s_ncalls s' ->
    xfault_outcome fsz vid o s v r s'.

(* when the base call reports an error the extended call ends in exactly its state ... *)
Lemma xstep_state_err o s e : fst (step (xbase o) s) = Err e -> snd (xstep o s) = snd (step (xbase o) s).
Proof.
  intros He.
  destruct o as [o|d n|f|d|v|d name|f|f|f]; cbn [xstep xbase] in *; rewrite xlift_run; cbn [snd].
  - reflexivity.
  - cbn [step]. rewrite bind_ret_state, mgr_iterate_ret_state, mgr_iterate_lfn_state. reflexivity.
  - rewrite drop_file_is_close, discard_state. cbn [step]. rewrite lift_run. reflexivity.
  - rewrite drop_dir_is_close, discard_state. cbn [step]. rewrite lift_run. reflexivity.
  - rewrite drop_volume_is_close, discard_state. cbn [step]. rewrite lift_run. reflexivity.
  - (* change_dir: open_dir failed, nothing is closed *)
    cbn [step] in *. rewrite change_dir_eq. rewrite lift_run in He |- *. cbn [fst snd] in *.
    destruct (open_dir d name s) as [[h|e0| |] s1]; cbn [omap fst snd] in *; try discriminate; reflexivity.
  - unfold w_is_eof. rewrite expect_state. cbn [step]. rewrite lift_run. reflexivity.
  - unfold w_length. rewrite expect_state. cbn [step]. rewrite lift_run. reflexivity.
  - unfold w_offset. rewrite expect_state. cbn [step]. rewrite lift_run. reflexivity.
Qed.

(* ... and reports the same error (listing, change_dir, the base calls) or discards it (the drops);
   from ANY state, armed or not *)
Lemma mgr_iterate_err_lfn d n s e : fst (mgr_iterate d (ret tt) s) = Err e -> fst (mgr_iterate_lfn d n s) = Err e.
Proof.
  destruct (s_lock s) eqn:Hl.
  - unfold mgr_iterate. rewrite (PrHandles.locked_held _ s Hl), (mgr_iterate_lfn_locked d n s Hl). cbn [fst]. intros H. injection H as <-. reflexivity.
  - rewrite (mgr_iterate_plain_eq d s Hl), (mgr_iterate_lfn_eq d n s Hl).
    destruct (raw_listing d s) as [[raw|e0| |] s1]; cbn [fst lfn_outcome]; intros H; try discriminate. injection H as <-. reflexivity.
Qed.

Lemma omap_err {A B} (f : A -> B) o e : omap f o = Err e <-> o = Err e.
Proof. destruct o; cbn; split; intros H; try discriminate; injection H as <-; reflexivity. Qed.

Lemma xstep_res_err o s e : fst (step (xbase o) s) = Err e ->
  match o with
  | XDropFile _ | XDropDir _ | XDropVol _ => fst (xstep o s) = Ok (XR RUnit)
  | XWEof _ | XWLength _ | XWOffset _ => fst (xstep o s) = Panic
  | _ => fst (xstep o s) = Err e
  end.
Proof.
  intros He. destruct o as [o|d n|f|d|v|d name|f|f|f]; cbn [xstep xbase step] in *; rewrite xlift_run; cbn [fst].
  - rewrite He. reflexivity.
  - apply omap_err. apply mgr_iterate_err_lfn.
    pose proof (mgr_iterate_ret_fst RUnit d s) as Hf. unfold bind in He.
    destruct (mgr_iterate d (ret RUnit) s) as [[p|e0| |] s1]; cbn [fst] in He; try discriminate.
    injection He as ->. cbn [fst omap] in Hf.
    destruct (fst (mgr_iterate d (ret tt) s)); cbn [omap] in Hf; try discriminate. injection Hf as ->. reflexivity.
  - rewrite lift_run in He. cbn [fst] in He. apply omap_err in He. rewrite drop_file_is_close.
    destruct (close_file f s) as [[u|e0| |] s1]; cbn [fst] in He; try discriminate. reflexivity.
  - rewrite drop_dir_eq_close. reflexivity.
  - rewrite lift_run in He. cbn [fst] in He. apply omap_err in He. rewrite drop_volume_is_close.
    destruct (close_volume v s) as [[u|e0| |] s1]; cbn [fst] in He; try discriminate. reflexivity.
  - rewrite lift_run in He. cbn [fst] in He. apply omap_err in He. rewrite change_dir_eq.
    destruct (open_dir d name s) as [[h|e0| |] s1]; cbn [fst] in He |- *; try discriminate. injection He as ->. reflexivity.
  - rewrite lift_run in He. cbn [fst] in He. apply omap_err in He. unfold w_is_eof. rewrite expect_eq.
    destruct (file_eof f s) as [[u|e0| |] s1]; cbn [fst] in He; try discriminate. reflexivity.
  - rewrite lift_run in He. cbn [fst] in He. apply omap_err in He. unfold w_length. rewrite expect_eq.
    destruct (file_length f s) as [[u|e0| |] s1]; cbn [fst] in He; try discriminate. reflexivity.
  - rewrite lift_run in He. cbn [fst] in He. apply omap_err in He. unfold w_offset. rewrite expect_eq.
    destruct (file_offset f s) as [[u|e0| |] s1]; cbn [fst] in He; try discriminate. reflexivity.
Qed.

(* the File questions make no device call: they cannot hit the fault *)
Lemma xw_no_device o s : s_lock s = false -> xop_guard o s ->
  match o with XWEof _ | XWLength _ | XWOffset _ => True | _ => False end -> snd (xstep o s) = s.
Proof.
  intros Hl Hg Ho. destruct o; try destruct Ho; cbn [xstep xop_guard] in *; rewrite xlift_run; cbn [snd].
  - destruct (w_is_eof_ok f s Hl Hg) as (b & E). rewrite E. reflexivity.
  - destruct (w_length_ok f s Hl Hg) as (b & E). rewrite E. reflexivity.
  - destruct (w_offset_ok f s Hl Hg) as (b & E). rewrite E. reflexivity.
Qed.

Theorem all_xsteps_fault fsz vid : forall o, xstep_fault fsz vid o.
Proof.
  intros o s i r s' v Hinv Hid Ho Hg Ev E Hn.
  pose proof (fs_inv_lock fsz vid s Hinv) as Hl.
  (* the File questions: vacuous *)
  assert (Hnw : match o with XWEof _ | XWLength _ | XWOffset _ => False | _ => True end).
  { destruct o; try exact I; exfalso;
      (match type of E with xstep ?xo _ = _ =>
         assert (Es : snd (xstep xo (arm s i)) = arm s i) by (apply xw_no_device; [exact Hl|exact Hg|exact I]) end;
       rewrite E in Es; cbn [snd] in Es; subst s'; cbn in Hn; lia). }
  destruct (xstep_state o (arm s i)) as (l & El). rewrite E in El. cbn [snd] in El.
  destruct (step (xbase o) (arm s i)) as [r0 s1] eqn:E1. cbn [snd] in El.
  assert (Hn1 : s_ncalls s + i < s_ncalls s1) by (rewrite El in Hn; exact Hn). clear El.
  pose proof (PrFaultAll.all_steps_fault_model fsz vid (xbase o) s i r0 s1 v Hinv Hid (xbase_known o Ho) Ev E1 Hn1) as FO.
  destruct (fo_err _ _ _ _ _ _ _ FO) as (e & ->).
  assert (He : fst (step (xbase o) (arm s i)) = Err e) by (rewrite E1; reflexivity).
  pose proof (xstep_state_err o (arm s i) e He) as Es. rewrite E, E1 in Es. cbn [snd] in Es. subst s'.
  pose proof (xstep_res_err o (arm s i) e He) as Hr. rewrite E in Hr. cbn [fst] in Hr.
  constructor; [|exists e; exact FO].
  destruct o; try destruct Hnw; try (exists e; exact Hr); exact Hr.
Qed.

(* ================================================================== 3. the history theorem *)
Lemma xrun_ops_cons o rest s :
  xrun_ops (o :: rest) s = (fst (xstep o s) :: fst (xrun_ops rest (snd (xstep o s))), snd (xrun_ops rest (snd (xstep o s)))).
Proof. cbn [xrun_ops]. destruct (xstep o s) as [r s1]. cbn [fst snd]. destruct (xrun_ops rest s1); reflexivity. Qed.

Lemma xstep_ncalls_mono o s : s_ncalls s <= s_ncalls (snd (xstep o s)).
Proof.
  destruct (xstep o s) as [r s1] eqn:E. destruct (proj1 (lockstep_xstep o) _ _ _ E) as (new & _ & C & _).
  cbn [snd]. lia.
Qed.
Lemma xrun_ops_ncalls_mono : forall ops s, s_ncalls s <= s_ncalls (snd (xrun_ops ops s)).
Proof.
  induction ops as [|o rest IH]; intros s; [cbn; lia|]. rewrite xrun_ops_cons. cbn [snd].
  pose proof (xstep_ncalls_mono o s). pose proof (IH (snd (xstep o s))). lia.
Qed.

(* lock-step over an extended history *)
Theorem xrun_ops_lockstep : forall ops n s, pending n s ->
  s_ncalls (snd (xrun_ops ops (nf s))) <= n ->
  fst (xrun_ops ops s) = fst (xrun_ops ops (nf s)) /\
  nf (snd (xrun_ops ops s)) = snd (xrun_ops ops (nf s)) /\ pending n (snd (xrun_ops ops s)).
Proof.
  induction ops as [|o rest IH]; intros n s Hp Hn.
  - cbn. split; [reflexivity|]. split; [reflexivity|exact Hp].
  - rewrite !xrun_ops_cons in *. cbn [fst snd] in *.
    destruct (xstep o s) as [r s1] eqn:E.
    destruct (proj2 (lockstep_xstep o) n s r s1 Hp E)
      as [(Hp1 & N1)|(pre & fl & post & r0 & s0 & rest0 & T & Hfl & NP & Cn & N0 & T0 & R0)].
    + rewrite N1 in *. cbn [fst snd] in *. destruct (IH n s1 Hp1 Hn) as (A1 & A2 & A3).
      split; [f_equal; exact A1|]. split; [exact A2|exact A3].
    + exfalso. rewrite N0 in Hn. cbn [snd] in Hn.
      pose proof (xrun_ops_ncalls_mono rest s0) as Hm.
      destruct (proj1 (lockstep_xstep o) _ _ _ N0) as (new0 & X0 & C0 & _). unfold ext in X0.
      change (s_trace (nf s)) with (s_trace s) in X0. rewrite X0 in T0.
      assert (new0 = rest0 ++ pre) by (apply (app_inv_tail (s_trace s)); rewrite T0, <- app_assoc; reflexivity).
      subst new0. rewrite app_length, Nat2N.inj_add in C0. change (s_ncalls (nf s)) with (s_ncalls s) in C0.
      destruct rest0 as [|x rest0]; [exact (R0 eq_refl)|]. cbn [length] in C0. rewrite Nat2N.inj_succ in C0. lia.
Qed.

(* C11 for whole histories of the extended alphabet: a history ops1 ++ o :: ops2 from a sound state, run
   with ONE fault armed at device call s_ncalls s + i, where that call belongs to o:
   - every call of ops1 returns what it returns without the fault, the state before o is the fault-free
     one up to the schedule, and the invariant holds there;
   - the call o has the fault outcome xfault_outcome relative to that state.
   The guard of the File wrappers is evaluated along the fault-free run. *)
Definition C11x_history_stmt (fsz vid : N) : Prop :=
  forall ops1 o ops2 s age v i,
    fs_inv fsz vid s -> PrHandles.handles_ok age s ->
    age + N.of_nat (length (ops1 ++ o :: ops2)) < U32 - 1 -> Forall xop_scope_ok (ops1 ++ o :: ops2) ->
    xops_guard (ops1 ++ o :: ops2) (nf s) ->
    s_vols s = [v] ->
    let s1 := snd (xrun_ops ops1 (nf s)) in
    let a1 := snd (xrun_ops ops1 (arm s i)) in
    s_ncalls s1 <= s_ncalls s + i < s_ncalls (snd (xstep o s1)) ->
    fst (xrun_ops ops1 (arm s i)) = fst (xrun_ops ops1 (nf s)) /\
    nf a1 = s1 /\ fs_inv fsz vid s1 /\
    exists v1, s_vols s1 = [v1] /\ geo_eq v v1 /\
      xfault_outcome fsz vid o s1 v1 (fst (xstep o a1)) (snd (xstep o a1)).

Theorem C11x_history_model : forall fsz vid, C11x_history_stmt fsz vid.
Proof.
  intros fsz vid ops1 o ops2 s age v i Hinv Hh Hage Hops Hg Hv s1 a1 (Hlo & Hhi). subst s1 a1.
  assert (Hage1 : age + N.of_nat (length ops1) < U32 - 1).
  { rewrite app_length, Nat2N.inj_add in Hage. lia. }
  assert (Hops1 : Forall xop_scope_ok ops1) by (apply Forall_app in Hops; tauto).
  assert (Ho : xop_scope_ok o).
  { apply Forall_app in Hops. destruct Hops as (_ & H). inversion H; assumption. }
  destruct (xops_guard_mid _ _ _ _ Hg) as (Hg1 & Hgo).
  destruct (xrun_ops_lockstep ops1 (s_ncalls s + i) (arm s i) (pending_arm s i)) as (R1 & R2 & R3).
  { rewrite nf_arm. exact Hlo. }
  rewrite nf_arm in R1, R2. remember (snd (xrun_ops ops1 (arm s i))) as a1 eqn:Ea1. clear Ea1.
  split; [exact R1|]. split; [exact R2|].
  pose proof (C03x_history fsz vid ops1 (nf s) age (fs_inv_nf _ _ _ Hinv) (PrFaultDef6.handles_ok_nf _ _ Hh) Hage1 Hops1 Hg1) as H3.
  destruct (xhistory_pres fsz vid (fun _ => True) (fun _ _ _ _ _ _ _ _ _ => I) (fun _ _ _ => I) ops1 (nf s) age
              (fs_inv_nf _ _ _ Hinv) (PrFaultDef6.handles_ok_nf _ _ Hh) Hage1 Hops1 Hg1 I) as (_ & Hh1 & _).
  destruct (xrun_ops ops1 (nf s)) as [rs sx] eqn:Er. cbn [snd] in *.
  destruct H3 as (Hinv1 & (v0 & v1 & Ev0 & Ev1 & G) & _).
  split; [exact Hinv1|].
  change (s_vols (nf s)) with (s_vols s) in Ev0. rewrite Hv in Ev0. injection Ev0 as <-.
  exists v1. split; [exact Ev1|]. split; [exact G|].
  assert (Ha1 : a1 = arm sx (s_ncalls s + i - s_ncalls sx)).
  { destruct R3 as (F & C). unfold arm. rewrite <- R2.
    assert (Hn : s_ncalls (nf a1) + (s_ncalls s + i - s_ncalls (nf a1)) = s_ncalls s + i).
    { change (s_ncalls (nf a1)) with (s_ncalls a1). lia. }
    rewrite Hn. rewrite <- F. destruct a1; reflexivity. }
  assert (Hfresh : id_fresh sx).
  { apply (handles_ok_fresh (age + N.of_nat (length ops1)) sx); [unfold U32 in *; lia|exact Hh1]. }
  destruct (xstep o a1) as [r s'] eqn:Es. cbn [fst snd].
  rewrite Ha1 in Es.
  apply (all_xsteps_fault fsz vid o sx (s_ncalls s + i - s_ncalls sx) r s' v1 Hinv1 Hfresh Ho Hgo Ev1 Es).
  destruct (N.le_gt_cases (s_ncalls s') (s_ncalls sx + (s_ncalls s + i - s_ncalls sx))) as [Hle|Hgt]; [|exact Hgt].
  exfalso.
  destruct (ls_not_reached (xstep o) _ _ r s' (lockstep_xstep o) (pending_arm sx _) Es Hle) as (_ & N1).
  rewrite nf_arm in N1.
  assert (Esx : nf sx = sx) by (rewrite <- R2; reflexivity).
  rewrite Esx in N1. rewrite N1 in Hhi. cbn [snd] in Hhi. change (s_ncalls (nf s')) with (s_ncalls s') in Hhi. lia.
Qed.

(* the drop swallows the device error: a concrete run.  PrGlobalDef.gx_state, file B (handle 7) dirty with a
   pending chain; the first device call of the close inside the drop (the read of the directory block
   for the flush) fails: close_file reports DeviceError, the drop answers Ok (), the handle is gone
   and the entry of B on the medium still says "no cluster, size 0" *)
Example drop_swallows_fault :
  fst (step (CloseFile 7) (arm gx_state 0)) = Err DeviceError /\
  fst (xstep (XDropFile 7) (arm gx_state 0)) = Ok (XR RUnit) /\
  s_files (snd (xstep (XDropFile 7) (arm gx_state 0))) = [] /\
  s_disk (snd (xstep (XDropFile 7) (arm gx_state 0))) = s_disk gx_state.
Proof. vm_compute. repeat split; reflexivity. Qed.

Print Assumptions lockstep_xstep.
Print Assumptions all_xsteps_fault.
Print Assumptions xrun_ops_lockstep.
Print Assumptions C11x_history_model.
