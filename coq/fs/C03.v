(* Property C03 - the volume stays a well-formed FAT file system
   This file contains only property theorems (each closed by `exact`), `Check` pins and
   `Print Assumptions`.  FULL STATEMENT (DESIGN.md 4 C03) is not yet proved for the whole
   layer-B model; what is proved here are the named mechanisms, for all inputs.  The gap is
   covered - visibly - by the correspondence check and the spec oracle (see evidence). *)
From Coq Require Import NArith ZArith List Bool.
From SdFs Require Import FsTypes FsBase FsFat FsMgr FsLemmas.
Import ListNotations.
Open Scope N_scope.


Theorem C03_alloc_scan_in_range_partial : forall n fat32 b off cur endc c cur', scan_sector n fat32 b off cur endc = (Some c, cur') -> cur <= c /\ c < endc /\ fat_entry_at fat32 b (off + (c - cur) * (if fat32 then 4 else 2)) = 0 /\ off + (c - cur) * (if fat32 then 4 else 2) <= 512 - (if fat32 then 4 else 2).
Proof. exact scan_sector_sound. Qed.

Theorem C03_cluster_in_data_area_partial : forall (v : vol) (c : N) (s : st), data_geom_ok v -> 2 <= c -> c < v_clusters v + 2 -> c <> CL_ROOT -> exists blk, cluster_to_block v c s = (Ok blk, s) /\ blk = v_lba v + v_first_data v + (c - 2) * v_spc v /\ v_lba v + v_first_data v <= blk /\ blk + v_spc v <= v_lba v + v_first_data v + v_clusters v * v_spc v.
Proof. exact cluster_to_block_in_data. Qed.

Print Assumptions C03_alloc_scan_in_range_partial.
Print Assumptions C03_cluster_in_data_area_partial.
