(* PROOFS: the whole-history theorems lifted to the extended alphabet [xop], part 2:
     c  CONTENT (C01 / C02): every extended call satisfies the content obligation of its base call
        (PrExt3.xbase), with the results related (xres_rel); every extended history is matched by a
        chain of observations of base calls (xhistory_trace), to which the chain theorems of
        PrContentDef2 / PrContentDef3 apply unchanged; the executable byte-array spec is extended by one
        clause per extended operation (xspec_step = spec_step of the base call + the prediction of the
        extended result):
          C01x_history_model, C02x_history_model, C02x_untouched_history_model, C02x_flushed_stays_model *)
From Coq Require Import NArith ZArith List Bool Lia Arith FMapPositive Permutation.
From SdFs Require Import FsTypes FsBase FsFat FsMgr FsExt FsLemmas PrBase PrFat PrAlloc PrDir PrChain PrCount PrWf PrOpenClose.
From SdFs Require PrHandles PrOrder PrBounds PrSeek PrModes.
From SdFs Require Import PrGlobalDef PrGlobalWrite PrGlobalOpen PrGlobal.
From SdFs Require Import PrExt PrExt2.
From SdFs Require Import PrContentDef PrContentDef2 PrContentDef3.
From SdFs Require PrContent.
From SdFs Require Import PrExt3.
Import ListNotations.
Open Scope N_scope.
Local Arguments N.mul : simpl never.
Local Arguments N.add : simpl never.
Local Arguments N.sub : simpl never.

(* ================================================================== 1. observations do not look at the directory table *)
Lemma observes_dirs fsz vid s1 l a : observes fsz vid s1 a -> fs_inv fsz vid (set_s_dirs s1 l) ->
  observes fsz vid (set_s_dirs s1 l) a.
Proof.
  intros (vi & v & bl & rch & T & Hat & ->) Hinv'.
  change (obs_at s1 v bl T) with (obs_at (set_s_dirs s1 l) v bl T).
  pose proof (fi_disk _ _ _ _ _ _ _ _ Hat) as D.
  apply (observes_intro fsz vid _ v bl rch T Hinv').
  - exact (fi_single _ _ _ _ _ _ _ _ Hat).
  - exact (di_root _ _ _ _ _ _ D).
  - exact (di_tree _ _ _ _ _ _ D).
Qed.

(* ================================================================== 2. results: the extended call versus its base call *)
(* the base-alphabet reading of an extended result *)
Definition xres_base (r : outcome xres) : outcome res :=
  match r with
  | Ok (XR x) => Ok x
  | Ok (XRLfn _) => Ok RUnit
  | Err e => Err e
  | Panic => Panic
  | OutOfFuel => OutOfFuel
  end.
Lemma xres_base_XR r0 : xres_base (omap XR r0) = r0.
Proof. destruct r0; reflexivity. Qed.

(* r0 = the result of the base call, r = the result of the extended call, from the same state *)
Definition xres_rel (o : xop) (r0 : outcome res) (r : outcome xres) : Prop :=
  match o with
  | XOp _ | XChangeDir _ _ | XWEof _ | XWLength _ | XWOffset _ => r = omap XR r0
  | XDropFile _ | XDropDir _ | XDropVol _ => r = Ok (XR RUnit)          (* the close result is discarded *)
  | XIterLfn _ _ =>
      match r0, r with
      | Ok (RIter es None), Ok (XRLfn l) => map fst l = es    (* the entries iterate_dir shows, + long names *)
      | Err e0, Err e => e = e0
      | _, _ => False
      end
  end.

Lemma mgr_iterate_ret_fst {R} (a : R) d s :
  omap fst (fst (mgr_iterate d (ret a) s)) = omap fst (fst (mgr_iterate d (ret tt) s)).
Proof.
  destruct (s_lock s) eqn:Hl.
  - unfold mgr_iterate. rewrite !(PrHandles.locked_held _ s Hl). reflexivity.
  - rewrite (proj1 (PrHandles.C08_iterate_holds_lock _ d (ret a) s Hl)),
            (proj1 (PrHandles.C08_iterate_holds_lock _ d (ret tt) s Hl)).
    destruct (PrHandles.iter_listing d s) as [[[|e0 sh]|e| |] s1]; reflexivity.
Qed.

Lemma step_iter_none d s :
  fst (step (Iter d None) s) =
  match fst (mgr_iterate d (ret RUnit) s) with
  | Ok p => Ok (RIter (fst p) None) | Err e => Err e | Panic => Panic | OutOfFuel => OutOfFuel
  end.
Proof. cbn [step]. unfold bind. destruct (mgr_iterate d (ret RUnit) s) as [[p|e| |] s1]; reflexivity. Qed.

Theorem xstep_res fsz vid o s : fs_inv fsz vid s -> id_fresh s -> xop_scope_ok o -> xop_guard o s ->
  xres_rel o (fst (step (xbase o) s)) (fst (xstep o s)).
Proof.
  intros Hinv Hid Ho Hg. pose proof (fs_inv_lock fsz vid s Hinv) as Hl.
  destruct o as [o|d n|f|d|v|d name|f|f|f]; cbn [xres_rel xbase xop_guard xop_scope_ok] in *.
  - cbn [xstep]. rewrite xlift_run. reflexivity.
  - (* XIterLfn *)
    rewrite step_iter_none. cbn [xstep]. rewrite xlift_run. cbn [fst].
    destruct (mgr_iterate_lfn d n s) as [o1 s1] eqn:E1.
    destruct (mgr_iterate_lfn_quiet fsz vid d n s o1 s1 Hinv E1) as (R1 & R2 & _).
    pose proof (mgr_iterate_ret_fst RUnit d s) as Hf.
    destruct o1 as [l|e| |]; try contradiction; cbn [fst omap].
    + destruct (C06_iterate_lfn_entries d n s l s1 E1) as (Em & _). rewrite Em in Hf. cbn [fst omap] in Hf.
      destruct (fst (mgr_iterate d (ret RUnit) s)) as [p|e| |]; cbn [omap] in Hf; try discriminate.
      injection Hf as Hf. symmetry. exact Hf.
    + rewrite (C06_iterate_lfn_err d n s e s1 E1) in Hf. cbn [fst omap] in Hf.
      destruct (fst (mgr_iterate d (ret RUnit) s)) as [p|e0| |]; cbn [omap] in Hf; try discriminate.
      injection Hf as ->. reflexivity.
  - (* XDropFile *)
    cbn [xstep]. rewrite xlift_run, drop_file_is_close.
    pose proof (step_ok_CloseFile fsz vid f s _ _ Hinv Hid (conj (conj I I) I) (lift_run _ _ s)) as (R1 & R2 & _).
    rewrite omap_panic in R1. rewrite omap_oof in R2. rewrite (discard_ok _ R1 R2). reflexivity.
  - cbn [xstep]. rewrite xlift_run, drop_dir_eq_close. reflexivity.
  - destruct Ho.
  - cbn [xstep step]. rewrite xlift_run, change_dir_eq, lift_run. cbn [fst].
    destruct (open_dir d name s) as [[h|e| |] s1]; reflexivity.
  - destruct (handle_resolves f s Hl Hg) as (fi & fr & Hr).
    cbn [xstep step]. rewrite xlift_run, lift_run. unfold w_is_eof. rewrite expect_eq, (PrSeek.C01_file_eof _ _ _ _ Hr). reflexivity.
  - destruct (handle_resolves f s Hl Hg) as (fi & fr & Hr).
    cbn [xstep step]. rewrite xlift_run, lift_run. unfold w_length. rewrite expect_eq, (PrSeek.C01_file_length _ _ _ _ Hr). reflexivity.
  - destruct (handle_resolves f s Hl Hg) as (fi & fr & Hr).
    cbn [xstep step]. rewrite xlift_run, lift_run. unfold w_offset. rewrite expect_eq, (PrSeek.C01_file_offset _ _ _ _ Hr). reflexivity.
Qed.

(* ================================================================== 3. the content obligation for the extended alphabet *)
(* the extended call shows what its base call shows (content_rel of the base call, for the base
   call's result r0), and its own result is related to r0 *)
Definition xcontent_rel (o : xop) (clock : N) (r : outcome xres) (a a' : obs) : Prop :=
  exists r0, content_rel (xbase o) clock r0 a a' /\ xres_rel o r0 r.

Definition xstep_content (fsz vid : N) (o : xop) : Prop :=
  forall s r s' a, fs_inv fsz vid s -> id_fresh s -> xop_scope_ok o -> xop_guard o s -> xstep o s = (r, s') ->
    observes fsz vid s a ->
    exists a', observes fsz vid s' a' /\ xcontent_rel o (s_clock s) r a a'.

Theorem all_xsteps_content fsz vid : forall o, xstep_content fsz vid o.
Proof.
  intros o s r s' a Hinv Hid Ho Hg E Hobs.
  pose proof (xstep_res fsz vid o s Hinv Hid Ho Hg) as Hres.
  destruct (all_xsteps_ok fsz vid o s r s' Hinv Hid Ho Hg E) as (_ & _ & Hinv' & _).
  destruct (xstep_state o s) as (l & El). rewrite E in El, Hres. cbn [fst snd] in El, Hres.
  destruct (step (xbase o) s) as [r0 s1] eqn:E1. cbn [fst snd] in El, Hres. subst s'.
  destruct (PrContent.all_steps_content fsz vid (xbase o) s r0 s1 a Hinv Hid (xbase_known o Ho) E1 Hobs) as (a' & Ho' & Hrel).
  exists a'. split; [exact (observes_dirs fsz vid s1 l a' Ho' Hinv')|]. exists r0. split; [exact Hrel|exact Hres].
Qed.

(* what the obligation says, operation by operation *)
Lemma xcontent_drop_file h clock r a a' : xcontent_rel (XDropFile h) clock r a a' ->
  r = Ok (XR RUnit) /\ exists r0, flush_content true h r0 a a'.
Proof. intros (r0 & H & ->). split; [reflexivity|]. exists r0. exact H. Qed.
Lemma xcontent_quiet o clock r a a' :
  match o with XIterLfn _ _ | XDropDir _ | XChangeDir _ _ => True | _ => False end ->
  xcontent_rel o clock r a a' -> same_obs a a'.
Proof. destruct o; intros H (r0 & Hc & _); try destruct H; exact Hc. Qed.
Lemma xcontent_length h clock r a a' : xcontent_rel (XWLength h) clock r a a' ->
  same_obs a a' /\ exists r0, r = omap XR r0 /\ with_handle h a (fun _ len => r0 = Ok (RNum len)) (r0 = Err BadHandle).
Proof. intros (r0 & (Hs & Hw) & ->). split; [exact Hs|]. exists r0. split; [reflexivity|exact Hw]. Qed.

(* ================================================================== 4. the chain of observations of an extended history *)
Fixpoint xrun_clocks (ops : list xop) (s : st) : list N :=
  match ops with [] => [] | o :: r => s_clock s :: xrun_clocks r (snd (xstep o s)) end.

(* the base trace tr stands for the extended history: same length, base calls, related results *)
Inductive xtrace_rel : list xop -> list (outcome xres) -> list ostep -> Prop :=
  | xt_nil : xtrace_rel [] [] []
  | xt_cons o ops r rs x tr : os_op x = xbase o -> xres_rel o (os_res x) r -> xtrace_rel ops rs tr ->
      xtrace_rel (o :: ops) (r :: rs) (x :: tr).

Lemma xtrace_ops ops rs tr : xtrace_rel ops rs tr -> map os_op tr = map xbase ops.
Proof. induction 1 as [|o ops r rs x tr E _ _ IH]; [reflexivity|]. cbn [map]. rewrite E, IH. reflexivity. Qed.
Lemma xtrace_length ops rs tr : xtrace_rel ops rs tr -> length tr = length ops /\ length rs = length ops.
Proof. induction 1 as [|o ops r rs x tr _ _ _ (IH1 & IH2)]; [split; reflexivity|]. cbn [length]. rewrite IH1, IH2. split; reflexivity. Qed.

Theorem xhistory_trace fsz vid :
  forall ops s age a, fs_inv fsz vid s -> PrHandles.handles_ok age s ->
    age + N.of_nat (length ops) < U32 - 1 -> Forall xop_scope_ok ops -> xops_guard ops s -> observes fsz vid s a ->
    exists tr a', xtrace_rel ops (fst (xrun_ops ops s)) tr /\
      map os_clock tr = xrun_clocks ops s /\
      observes fsz vid (snd (xrun_ops ops s)) a' /\ chain_ok a tr a' /\
      Forall (fun x => obs_wf (os_pre x) /\ obs_wf (os_post x)) tr.
Proof.
  induction ops as [|o rest IH]; intros s age a Hinv Hh Hage Hops Hg Ho.
  - exists [], a. cbn. repeat split; try reflexivity; [constructor|exact Ho|constructor].
  - cbn [xrun_ops xrun_clocks]. destruct (xstep o s) as [r s1] eqn:Es. cbn [snd].
    inversion Hops as [|? ? Hk Hrest]; subst. cbn [length] in Hage.
    cbn [xops_guard] in Hg. rewrite Es in Hg. destruct Hg as (Hg0 & Hg1). cbn [snd] in Hg1.
    assert (Ha1 : age < U32) by (unfold U32 in *; lia).
    assert (Ha2 : age < U32 - 1) by (unfold U32 in *; lia).
    assert (Ha3 : age + 1 + N.of_nat (length rest) < U32 - 1).
    { rewrite Nat2N.inj_succ in Hage. unfold U32 in *. lia. }
    pose proof (handles_ok_fresh age s Ha1 Hh) as Hfresh.
    destruct (all_xsteps_ok fsz vid o s r s1 Hinv Hfresh Hk Hg0 Es) as (_ & _ & Hinv1 & _).
    destruct (all_xsteps_content fsz vid o s r s1 a Hinv Hfresh Hk Hg0 Es Ho) as (a1 & Ho1 & r0 & Hrel & Hres).
    pose proof (C08x_handles_ok_step age o s Ha2 (xscope_remount o Hk) Hh) as Hh1.
    rewrite Es in Hh1. cbn [snd] in Hh1.
    destruct (IH s1 (age + 1) a1 Hinv1 Hh1 Ha3 Hrest Hg1 Ho1) as (tr & a' & E1 & E3 & Ho' & Hc & Hw).
    destruct (xrun_ops rest s1) as [rs s'] eqn:Er. cbn [fst snd] in *.
    exists (mk_ostep (xbase o) (s_clock s) r0 a a1 :: tr), a'. cbn [map os_clock chain_ok os_pre os_post].
    rewrite E3. split; [constructor; [reflexivity|exact Hres|exact E1]|]. split; [reflexivity|].
    split; [exact Ho'|]. split; [split; [reflexivity|split; [exact Hrel|exact Hc]]|].
    constructor; [|exact Hw]. cbn [os_pre os_post]. split; [exact (observes_wf _ _ _ _ Ho)|exact (observes_wf _ _ _ _ Ho1)].
Qed.

(* ================================================================== 5. the spec side, one clause per extended operation *)
(* what the spec predicts for the extended result, from what it predicts for the base call *)
Definition xpred (o : xop) (pr : option (outcome res)) : option (outcome xres) :=
  match o with
  | XDropFile _ | XDropDir _ | XDropVol _ => Some (Ok (XR RUnit))   (* a drop answers nothing, always *)
  | XIterLfn _ _ => None                                            (* like iterate_dir: no prediction *)
  | _ => option_map (omap XR) pr                                    (* the base prediction *)
  end.
(* the spec step of an extended call: the spec step of its base call - XDropFile like CloseFile,
   XChangeDir / XDropDir / XIterLfn like the calls that touch no file, XW* like the questions, XOp o as o -
   fed with the base reading of the model's result (outcome class) *)
Definition xspec_step (o : xop) (clock : N) (r : outcome xres) (g : ghost) (st : sstate) : sstate * option (outcome xres) :=
  let p := spec_step (xbase o) clock (xres_base r) g st in (fst p, xpred o (snd p)).

Definition xevent := (xop * N * outcome xres * ghost)%type.
Fixpoint xspec_run (evs : list xevent) (st : sstate) : list (option (outcome xres)) * sstate :=
  match evs with
  | [] => ([], st)
  | (o, c, r, g) :: rest =>
      let '(st1, pr) := xspec_step o c r g st in
      let '(prs, st') := xspec_run rest st1 in (pr :: prs, st')
  end.
Fixpoint xevents_of (ops : list xop) (cs : list N) (rs : list (outcome xres)) (gs : list ghost) : list xevent :=
  match ops, cs, rs, gs with
  | o :: ops', c :: cs', r :: rs', g :: gs' => (o, c, r, g) :: xevents_of ops' cs' rs' gs'
  | _, _, _, _ => []
  end.
Definition xpred_ok (pr : option (outcome xres)) (r : outcome xres) : Prop := forall r', pr = Some r' -> r = r'.

(* the spec step of the base call does not look at the result where the results may differ *)
Lemma spec_step_xres o c r0 r g st : xres_rel o r0 r ->
  spec_step (xbase o) c (xres_base r) g st = spec_step (xbase o) c r0 g st.
Proof.
  destruct o; cbn [xres_rel xbase]; intros H; try (rewrite H, xres_base_XR; reflexivity); reflexivity.
Qed.

Lemma xpred_sound o r0 r pr : xres_rel o r0 r -> pred_ok pr r0 -> xpred_ok (xpred o pr) r.
Proof.
  intros Hr Hp r' E. destruct o; cbn [xres_rel xpred] in *;
    try (destruct pr as [x|]; [|discriminate]; cbn in E; injection E as <-; rewrite Hr, (Hp x eq_refl); reflexivity);
    try (injection E as <-; exact Hr); discriminate.
Qed.

(* the extended spec run over the extended history = the base spec run over the base trace *)
Lemma xspec_run_trace : forall ops rs tr, xtrace_rel ops rs tr -> forall gs st,
  length gs = length tr ->
  snd (xspec_run (xevents_of ops (map os_clock tr) rs gs) st) = snd (spec_run (events tr gs) st) /\
  (Forall2 pred_ok (fst (spec_run (events tr gs) st)) (map os_res tr) ->
   Forall2 xpred_ok (fst (xspec_run (xevents_of ops (map os_clock tr) rs gs) st)) rs).
Proof.
  induction 1 as [|o ops r rs x tr Eo Hres _ IH]; intros gs st Hl.
  - destruct gs; cbn; (split; [reflexivity|intros _; apply Forall2_nil]).
  - destruct gs as [|g gs]; [discriminate|]. cbn [length] in Hl. injection Hl as Hl.
    cbn [map xevents_of events ev_of xspec_run spec_run]. unfold ev_of, xspec_step. cbn [spec_run].
    rewrite (spec_step_xres o (os_clock x) (os_res x) r g st Hres), <- Eo.
    destruct (spec_step (os_op x) (os_clock x) (os_res x) g st) as [st1 pr]. cbn [fst snd].
    destruct (IH gs st1 Hl) as (I1 & I2).
    destruct (xspec_run (xevents_of ops (map os_clock tr) rs gs) st1) as [xprs xst'].
    destruct (spec_run (events tr gs) st1) as [prs st']. cbn [fst snd] in *.
    split; [exact I1|]. intros HF. inversion HF as [|? ? ? ? Hp Hps]; subst.
    constructor; [exact (xpred_sound o (os_res x) r pr Hres Hp)|exact (I2 Hps)].
Qed.

(* ================================================================== 6. C01 / C02 for whole histories of the extended alphabet *)
(* C01x.  Any history of extended calls from a state of the invariant whose clean handles show the
   medium.  Run the extended spec on the map position -> fview the API shows at the start and the
   handle table, feeding it the calls, the clock values and the model's results, with suitable ghosts.
   Then every result the spec predicts is the model's result (a drop is always predicted: Ok ()), and
   after the history the API shows, position by position, the spec's map and handle table. *)
Theorem C01x_history_model fsz vid ops s age a :
  fs_inv fsz vid s -> PrHandles.handles_ok age s ->
  age + N.of_nat (length ops) < U32 - 1 -> Forall xop_scope_ok ops -> xops_guard ops s ->
  observes fsz vid s a -> obs_sync a ->
  exists gs, length gs = length ops /\
    let evs := xevents_of ops (xrun_clocks ops s) (fst (xrun_ops ops s)) gs in
    Forall2 xpred_ok (fst (xspec_run evs (ss_of a))) (fst (xrun_ops ops s)) /\
    exists a', observes fsz vid (snd (xrun_ops ops s)) a' /\ ss_eq (snd (xspec_run evs (ss_of a))) a'.
Proof.
  intros Hinv Hh Hage Hops Hg Ho S.
  destruct (xhistory_trace fsz vid ops s age a Hinv Hh Hage Hops Hg Ho) as (tr & a' & Ht & E3 & Ho' & Hc & Hw).
  destruct (chain_spec tr a a' (ss_of a) Hc Hw S (ss_eq_of a)) as (gs & El & Heq & Hp).
  destruct (xspec_run_trace ops _ tr Ht gs (ss_of a) El) as (X1 & X2).
  exists gs. split; [rewrite El; exact (proj1 (xtrace_length _ _ _ Ht))|]. cbv zeta. rewrite <- E3.
  split; [exact (X2 Hp)|]. exists a'. split; [exact Ho'|]. rewrite X1. exact Heq.
Qed.

(* C01x + C02x, one statement about the chain of the history (base observation steps tr standing for
   the extended calls: xtrace_rel).  Besides C01x: for every step x of the chain that is a Flush /
   CloseFile / DROP on a handle open at that moment on the file at slot p, if no later call modifies p,
   then after the history a fresh mount shows at p exactly the spec's fview; untouched positions and
   untouched raw directory slots stay. *)
Theorem C02x_history_model fsz vid ops s age a :
  fs_inv fsz vid s -> PrHandles.handles_ok age s ->
  age + N.of_nat (length ops) < U32 - 1 -> Forall xop_scope_ok ops -> xops_guard ops s ->
  observes fsz vid s a -> obs_sync a ->
  exists tr a' gs, xtrace_rel ops (fst (xrun_ops ops s)) tr /\
    map os_clock tr = xrun_clocks ops s /\ length gs = length tr /\
    observes fsz vid (snd (xrun_ops ops s)) a' /\ chain_ok a tr a' /\
    let st' := snd (xspec_run (xevents_of ops (xrun_clocks ops s) (fst (xrun_ops ops s)) gs) (ss_of a)) in
    st' = snd (spec_run (events tr gs) (ss_of a)) /\
    ss_eq st' a' /\
    (forall tr1 x tr2 h hi, tr = tr1 ++ x :: tr2 -> is_flush_of h (os_op x) ->
       hget h (ob_handles (os_pre x)) = Some hi ->
       Forall (fun y => mod_target_of y <> Some (hi_pos hi)) tr2 ->
       vget (hi_pos hi) (ob_disk a') = vget (hi_pos hi) (ss_files st') /\
       vget (hi_pos hi) (ss_files st') <> None) /\
    (forall p, Forall (fun x => target_of x <> Some p) tr -> vget p (ob_disk a') = vget p (ob_disk a)) /\
    exists qs, Forall2 (fun x q => q = None \/ q = target_of x \/ is_mkdir (os_op x)) tr qs /\
      slots_keep (fun p => In (Some p) qs) a a'.
Proof.
  intros Hinv Hh Hage Hops Hg Ho S.
  destruct (xhistory_trace fsz vid ops s age a Hinv Hh Hage Hops Hg Ho) as (tr & a' & Ht & E3 & Ho' & Hc & Hw).
  destruct (chain_spec tr a a' (ss_of a) Hc Hw S (ss_eq_of a)) as (gs & El & Heq & Hp).
  destruct (xspec_run_trace ops _ tr Ht gs (ss_of a) El) as (X1 & _).
  exists tr, a', gs. split; [exact Ht|]. split; [exact E3|]. split; [exact El|].
  split; [exact Ho'|]. split; [exact Hc|]. cbv zeta. rewrite <- E3, X1.
  split; [reflexivity|]. split; [exact Heq|]. split; [|split].
  - intros tr1 x tr2 h hi Et Hf Hhi Hu. subst tr.
    destruct (chain_flushed_final tr1 x tr2 a a' h hi Hc Hw S Hf Hhi Hu) as (F1 & F2 & F3).
    rewrite (proj1 Heq (hi_pos hi)). split; [exact F1|]. rewrite F2. exact F3.
  - intros p Hp'. exact (proj2 (chain_untouched p tr a a' Hc Hp')).
  - exact (chain_dirs tr a a' Hc).
Qed.

(* C02x, last sentence: a file position no call of the history targets shows in both views what it
   showed at the start; raw directory slots stay but for targeted positions and Mkdir's slot *)
Theorem C02x_untouched_history_model fsz vid ops s age a :
  fs_inv fsz vid s -> PrHandles.handles_ok age s ->
  age + N.of_nat (length ops) < U32 - 1 -> Forall xop_scope_ok ops -> xops_guard ops s -> observes fsz vid s a ->
  exists tr a', xtrace_rel ops (fst (xrun_ops ops s)) tr /\
    observes fsz vid (snd (xrun_ops ops s)) a' /\ chain_ok a tr a' /\
    (forall p, Forall (fun x => target_of x <> Some p) tr ->
       vget p (ob_mem a') = vget p (ob_mem a) /\ vget p (ob_disk a') = vget p (ob_disk a)) /\
    exists qs, Forall2 (fun x q => q = None \/ q = target_of x \/ is_mkdir (os_op x)) tr qs /\
      slots_keep (fun p => In (Some p) qs) a a'.
Proof.
  intros Hinv Hh Hage Hops Hg Ho.
  destruct (xhistory_trace fsz vid ops s age a Hinv Hh Hage Hops Hg Ho) as (tr & a' & Ht & _ & Ho' & Hc & _).
  exists tr, a'. split; [exact Ht|]. split; [exact Ho'|]. split; [exact Hc|]. split.
  - intros p Hp. exact (chain_untouched p tr a a' Hc Hp).
  - exact (chain_dirs tr a a' Hc).
Qed.

Lemma xops_guard_split a : forall b s, xops_guard (a ++ b) s -> xops_guard a s /\ xops_guard b (snd (xrun_ops a s)).
Proof.
  induction a as [|o a IH]; intros b s H; cbn [app xops_guard xrun_ops] in *; [split; [exact I|exact H]|].
  destruct H as (H1 & H2). destruct (IH b _ H2) as (A & B).
  destruct (xstep o s) as [r s1]. cbn [snd] in *. destruct (xrun_ops a s1) as [rs s2]. cbn [snd] in *.
  split; [split; assumption|exact B].
Qed.

(* C02x: run ops1, then Flush / CloseFile / DROP on an open handle h (file at slot p), then ops2 that
   never targets p: after the whole history a fresh mount shows at p exactly what the API showed for the
   file when the flush was called.  The base result of the flushing step (os_res x) is Ok (); for a drop
   the extended result is Ok () anyway. *)
Theorem C02x_flushed_stays_model fsz vid ops1 fl ops2 h s age a :
  fs_inv fsz vid s -> PrHandles.handles_ok age s ->
  age + N.of_nat (length (ops1 ++ fl :: ops2)) < U32 - 1 -> Forall xop_scope_ok (ops1 ++ fl :: ops2) ->
  xops_guard (ops1 ++ fl :: ops2) s ->
  observes fsz vid s a -> obs_sync a -> is_flush_of h (xbase fl) ->
  let s1 := snd (xrun_ops ops1 s) in
  let s' := snd (xrun_ops (ops1 ++ fl :: ops2) s) in
  exists a1 x tr2 a', observes fsz vid s1 a1 /\ os_pre x = a1 /\ os_op x = xbase fl /\
    xres_rel fl (os_res x) (fst (xstep fl s1)) /\ map os_op tr2 = map xbase ops2 /\
    chain_ok a1 (x :: tr2) a' /\ observes fsz vid s' a' /\
    forall hi, hget h (ob_handles a1) = Some hi ->
      Forall (fun y => target_of y <> Some (hi_pos hi)) tr2 ->
      os_res x = Ok RUnit /\
      vget (hi_pos hi) (ob_disk a') = vget (hi_pos hi) (ob_mem a1) /\ vget (hi_pos hi) (ob_mem a1) <> None.
Proof.
  intros Hinv Hh Hage Hops Hg Ho S Hf s1 s'.
  assert (Hage1 : age + N.of_nat (length ops1) < U32 - 1).
  { rewrite app_length, Nat2N.inj_add in Hage. unfold U32 in *. lia. }
  assert (Hage2 : age + N.of_nat (length ops1) + N.of_nat (length (fl :: ops2)) < U32 - 1).
  { rewrite app_length, Nat2N.inj_add in Hage. unfold U32 in *. lia. }
  apply Forall_app in Hops. destruct Hops as (Hops1 & Hops2).
  destruct (xops_guard_split _ _ _ Hg) as (Hg1 & Hg2). fold s1 in Hg2.
  destruct (xhistory_trace fsz vid ops1 s age a Hinv Hh Hage1 Hops1 Hg1 Ho) as (tr1 & a1 & _ & _ & Ho1 & C1 & W1).
  fold s1 in Ho1.
  destruct (xhistory_pres fsz vid (fun _ => True) (fun _ _ _ _ _ _ _ _ _ => I) (fun _ _ _ => I) ops1 s age Hinv Hh Hage1 Hops1 Hg1 I)
    as (_ & Hh1 & _). fold s1 in Hh1.
  destruct (xhistory_trace fsz vid (fl :: ops2) s1 _ a1 (observes_inv _ _ _ _ Ho1) Hh1 Hage2 Hops2 Hg2 Ho1)
    as (tr & a' & Ht & _ & Ho' & C2 & W2).
  assert (Es' : s' = snd (xrun_ops (fl :: ops2) s1)) by (unfold s', s1; rewrite xrun_ops_app; reflexivity).
  rewrite <- Es' in Ho'.
  cbn [xrun_ops] in Ht. destruct (xstep fl s1) as [rf sf] eqn:Ef. destruct (xrun_ops ops2 sf) as [rs2 s2]. cbn [fst] in Ht.
  inversion Ht as [|? ? ? ? x tr2 Ex Hres Ht2]; subst.
  pose proof C2 as C2'. cbn [chain_ok] in C2'. destruct C2' as (Ep & Hx & C3).
  exists a1, x, tr2, a'. split; [exact Ho1|]. split; [exact Ep|]. split; [exact Ex|]. split; [exact Hres|].
  split; [exact (xtrace_ops _ _ _ Ht2)|]. split; [exact C2|]. split; [exact Ho'|].
  intros hi Hhi Hu. pose proof (chain_sync tr1 a a1 C1 W1 S) as S1.
  pose proof (Forall_inv W2) as (Wx & _).
  assert (Hf' : is_flush_of h (os_op x)) by (rewrite Ex; exact Hf).
  rewrite <- Ep in Hhi, S1.
  destruct (flush_step_disk x h hi Hx Hf' Wx S1 Hhi) as (Er & Ed & En).
  split; [exact Er|]. rewrite Ep in Ed, En. split; [|exact En].
  destruct (chain_untouched (hi_pos hi) tr2 _ _ C3 Hu) as (_ & E2). rewrite E2. exact Ed.
Qed.

(* ---- the extended spec run is executable: a small run on one file, with a drop ---- *)
Example xspec_run_example :
  let t := stamp_of 3 in
  let p := (22, 64) in
  let st0 := mk_ss [(p, mk_fview (gx_name 66) 32 t t [1; 2; 3; 4; 5])] [(7, mk_hinfo p ReadWriteCreate 0 true)] in
  let evs := [ (XWLength 7, 4, Ok (XR (RNum 5)), g0);
               (XOp (Read 7 2), 4, Ok (XR (RBytes [1; 2])), g0);
               (XWOffset 7, 4, Ok (XR (RNum 2)), g0);
               (XIterLfn 5 64, 4, Ok (XRLfn []), g0);
               (XDropFile 7, 5, Ok (XR RUnit), g0);
               (XOp (Length 7), 5, Err BadHandle, g0) ] in
  fst (xspec_run evs st0) =
    [Some (Ok (XR (RNum 5))); Some (Ok (XR (RBytes [1; 2]))); Some (Ok (XR (RNum 2))); None;
     Some (Ok (XR RUnit)); Some (Err BadHandle)] /\
  ss_handles (snd (xspec_run evs st0)) = [].
Proof. vm_compute. split; reflexivity. Qed.

Print Assumptions xstep_res.
Print Assumptions all_xsteps_content.
Print Assumptions xhistory_trace.
Print Assumptions C01x_history_model.
Print Assumptions C02x_history_model.
Print Assumptions C02x_untouched_history_model.
Print Assumptions C02x_flushed_stays_model.
