(* PROOFS about the directory-entry codec and the directory-slot writers of the layer-B model
   (C02 / C04), for ALL inputs:
   1 the codec round trip inside this model: serialize -> 32 bytes in the FAT layout -> get_entry;
     timestamps: exact decoded value, identity up to the 2-second rounding for calendar-range
     values and for every clock_ts k; encode(decode raw) = raw iff-style condition and the
     refuting example for a zero month/day field (finding D24);
   2 write_entry_to_disk: one block rewritten, one 32-byte slot of it replaced, the rest kept;
   3 flush_file: the slot of the file holds the serialization of the in-memory entry; a lookup
     on the flushed medium returns those fields;
   5 the frame: at most one 32-byte slot of one directory block differs;
   4 write_new_directory_entry / delete_directory_entry: which slot, and nothing else.
   No bounds on anything.
   Not covered here: write_new_directory_entry when NO block of the directory has a free slot
   (the directory grows by alloc_cluster; write order of that case is in PrOrder); the frame
   corollary for flush on FAT32 with a known free count/hint is flush_file_spec + info_step
   (two blocks change: the information sector and the slot's block).
   Build order: after PrModes (and PrDir, PrSeek, PrFat). *)
From Coq Require Import NArith ZArith List Bool Lia Arith FMapPositive ZifyClasses ZifyInst Zify.
From SdFs Require Import FsTypes FsBase FsFat FsMgr FsLemmas PrBase PrFat PrAlloc PrDir PrSeek.
From SdFs Require PrModes.   (* qualified use only: is_read_call, ro_next_cluster *)
Import ListNotations.
Open Scope N_scope.
Local Arguments N.mul : simpl never.
Local Arguments N.add : simpl never.
Local Arguments N.sub : simpl never.
Local Arguments N.div : simpl never.
Local Arguments N.modulo : simpl never.
Local Arguments N.land : simpl never.
Local Arguments N.lor : simpl never.
Local Arguments N.shiftl : simpl never.
Local Arguments N.shiftr : simpl never.
Local Arguments N.pow : simpl never.
Local Ltac Zify.zify_post_hook ::= Z.to_euclidean_division_equations.

(* ================================================================== 1. the codec *)
(* ---- bit fields as arithmetic ---- *)
Lemma land_field x a b :
  N.land x (N.shiftl (N.ones a) b) = ((x / 2 ^ b) mod 2 ^ a) * 2 ^ b.
Proof.
  rewrite <- N.land_ones, <- N.shiftr_div_pow2, <- N.shiftl_mul_pow2.
  apply N.bits_inj; intro i. rewrite N.land_spec.
  destruct (N.lt_ge_cases i b) as [Hi|Hi].
  - rewrite !N.shiftl_spec_low by exact Hi. apply andb_false_r.
  - rewrite !N.shiftl_spec_high' by exact Hi.
    rewrite N.land_spec, N.shiftr_spec', N.sub_add by exact Hi. reflexivity.
Qed.

Lemma lor_add a b k : b < 2 ^ k -> N.lor (a * 2 ^ k) b = a * 2 ^ k + b.
Proof.
  intros Hb.
  assert (H0 : N.land (a * 2 ^ k) b = 0).
  { apply N.bits_inj_0; intro i. rewrite N.land_spec.
    destruct (N.lt_ge_cases i k) as [Hi|Hi].
    - rewrite N.mul_pow2_bits_low by exact Hi. reflexivity.
    - rewrite <- (N.mod_small b (2 ^ k)) by exact Hb.
      rewrite N.mod_pow2_bits_high by exact Hi. apply andb_false_r. }
  rewrite <- (N.lxor_lor _ _ H0). symmetry. apply N.add_nocarry_lxor. exact H0.
Qed.

Lemma lor3 a b c k : b * 32 + c < 2 ^ k -> c < 32 ->
  N.lor (N.lor (a * 2 ^ k) (b * 32)) c = a * 2 ^ k + b * 32 + c.
Proof.
  intros Hb Hc. rewrite <- N.lor_assoc.
  assert (E : N.lor (b * 32) c = b * 32 + c) by (apply (lor_add b c 5); exact Hc).
  rewrite E, lor_add by exact Hb. lia.
Qed.

(* ---- the two 16-bit FAT words of a timestamp, as the FAT specification lays them out ---- *)
Definition fat_time (t : ts) : N :=
  (t_hours t mod 32) * 2048 + (t_minutes t mod 64) * 32 + (t_seconds t / 2) mod 32.
Definition fat_date (t : ts) : N :=
  (if t_year t <? 10 then 0 else ((t_year t - 10) mod 128) * 512)
  + ((t_month t + 1) mod 16) * 32 + (t_day t + 1) mod 32.

Lemma fat_time_lt t : fat_time t < 65536.
Proof. unfold fat_time. lia. Qed.
Lemma fat_date_lt t : fat_date t < 65536.
Proof. unfold fat_date. destruct (t_year t <? 10); lia. Qed.

(* serialize_to_fat does not panic: the two u8 increments do not overflow *)
Definition ts_ok (t : ts) : Prop := t_month t < 255 /\ t_day t < 255.

Lemma time_word t :
  N.lor (N.lor (N.land (N.shiftl (t_hours t) 11) 63488) (N.land (N.shiftl (t_minutes t) 5) 2016))
        (N.land (t_seconds t / 2) 31) = fat_time t.
Proof.
  unfold fat_time.
  change 63488 with (N.shiftl (N.ones 5) 11). change 2016 with (N.shiftl (N.ones 6) 5).
  rewrite !land_field. change 31 with (N.ones 5). rewrite N.land_ones.
  rewrite !N.shiftl_mul_pow2.
  change (2 ^ 5) with 32. change (2 ^ 6) with 64.
  set (a := ((t_hours t * 2 ^ 11) / 2 ^ 11) mod 32).
  set (b := ((t_minutes t * 32) / 32) mod 64).
  set (c := (t_seconds t / 2) mod 32).
  assert (Ha : a = t_hours t mod 32) by (subst a; change (2 ^ 11) with 2048; lia).
  assert (Hb : b = t_minutes t mod 64) by (subst b; lia).
  rewrite lor3 by (change (2 ^ 11) with 2048; subst b c; lia).
  change (2 ^ 11) with 2048. lia.
Qed.

Lemma date_word t :
  N.lor (N.lor (if t_year t <? 10 then 0 else N.land (N.shiftl (t_year t - 10) 9) 65024)
               (N.land (N.shiftl (t_month t + 1) 5) 480))
        (N.land (t_day t + 1) 31) = fat_date t.
Proof.
  unfold fat_date.
  change 65024 with (N.shiftl (N.ones 7) 9). change 480 with (N.shiftl (N.ones 4) 5).
  rewrite !land_field. change 31 with (N.ones 5). rewrite N.land_ones.
  rewrite !N.shiftl_mul_pow2.
  change (2 ^ 5) with 32. change (2 ^ 7) with 128. change (2 ^ 4) with 16.
  set (m := (((t_month t + 1) * 32) / 32) mod 16).
  set (d := (t_day t + 1) mod 32).
  assert (Hm : m = (t_month t + 1) mod 16) by (subst m; lia).
  set (y := if t_year t <? 10 then 0 else (((t_year t - 10) * 2 ^ 9) / 2 ^ 9) mod 128 * 2 ^ 9).
  assert (Hy2 : exists a, y = a * 2 ^ 9 /\
            a * 512 = (if t_year t <? 10 then 0 else (t_year t - 10) mod 128 * 512)).
  { subst y. destruct (t_year t <? 10).
    - exists 0. split; reflexivity.
    - exists ((((t_year t - 10) * 2 ^ 9) / 2 ^ 9) mod 128).
      split; [reflexivity|]. change (2 ^ 9) with 512. lia. }
  destruct Hy2 as (a & -> & Ha2). rewrite <- Ha2.
  rewrite lor3 by (change (2 ^ 9) with 512; subst m d; lia).
  change (2 ^ 9) with 512. lia.
Qed.

Theorem ts_to_fat_ok t s : ts_ok t ->
  ts_to_fat t s = (Ok (bytes16 (fat_time t) ++ bytes16 (fat_date t)), s).
Proof.
  intros [Hm Hd]. unfold ts_to_fat.
  replace (t_month t =? 255) with false by (symmetry; apply N.eqb_neq; lia).
  replace (t_day t =? 255) with false by (symmetry; apply N.eqb_neq; lia).
  cbn [orb]. cbv zeta. rewrite time_word, date_word. reflexivity.
Qed.

(* and it does panic otherwise *)
Theorem ts_to_fat_panics t s : ~ ts_ok t -> t_month t < 256 -> t_day t < 256 -> ts_to_fat t s = (Panic, s).
Proof.
  intros H Hm Hd. unfold ts_to_fat, ts_ok in *.
  destruct (N.eqb_spec (t_month t) 255) as [E1|E1]; [reflexivity|].
  destruct (N.eqb_spec (t_day t) 255) as [E2|E2]; [reflexivity|]. exfalso. apply H. lia.
Qed.

(* ---- from_fat in arithmetic ---- *)
Definition dec_ts (date time : N) : ts :=
  mk_ts ((10 + date / 512) mod 256)
        (if (date / 32) mod 16 =? 0 then 0 else (date / 32) mod 16 - 1)
        (if date mod 32 =? 0 then 0 else date mod 32 - 1)
        ((time / 2048) mod 32) ((time / 32) mod 64) ((time mod 32) * 2).

Lemma ts_from_fat_arith date time : ts_from_fat date time = dec_ts date time.
Proof.
  unfold ts_from_fat, dec_ts.
  change 15 with (N.ones 4). change 31 with (N.ones 5). change 63 with (N.ones 6).
  rewrite !N.land_ones, !N.shiftr_div_pow2, N.shiftl_mul_pow2.
  change (2 ^ 9) with 512. change (2 ^ 5) with 32. change (2 ^ 4) with 16. change (2 ^ 11) with 2048.
  change (2 ^ 6) with 64. change (2 ^ 1) with 2.
  f_equal; lia.
Qed.

(* what a reader gets back for a timestamp that was serialized: the exact value *)
Definition ts_readback (t : ts) : ts := ts_from_fat (fat_date t) (fat_time t).

Lemma fat_time_fields t :
  (fat_time t / 2048) mod 32 = t_hours t mod 32 /\
  (fat_time t / 32) mod 64 = t_minutes t mod 64 /\
  fat_time t mod 32 = (t_seconds t / 2) mod 32.
Proof. unfold fat_time. repeat split; lia. Qed.

Lemma fat_date_fields t :
  fat_date t / 512 = (if t_year t <? 10 then 0 else (t_year t - 10) mod 128) /\
  (fat_date t / 32) mod 16 = (t_month t + 1) mod 16 /\
  fat_date t mod 32 = (t_day t + 1) mod 32.
Proof. unfold fat_date. destruct (t_year t <? 10); repeat split; lia. Qed.

Theorem ts_readback_value t :
  ts_readback t =
  mk_ts ((10 + (if t_year t <? 10 then 0 else (t_year t - 10) mod 128)) mod 256)
        (if (t_month t + 1) mod 16 =? 0 then 0 else (t_month t + 1) mod 16 - 1)
        (if (t_day t + 1) mod 32 =? 0 then 0 else (t_day t + 1) mod 32 - 1)
        (t_hours t mod 32) (t_minutes t mod 64) ((t_seconds t / 2) mod 32 * 2).
Proof.
  unfold ts_readback. rewrite ts_from_fat_arith. unfold dec_ts.
  destruct (fat_time_fields t) as (T1 & T2 & T3). destruct (fat_date_fields t) as (D1 & D2 & D3).
  rewrite T1, T2, T3, D1, D2, D3. reflexivity.
Qed.

(* calendar-range values survive, up to the 2-second granularity of the FAT time word.
   (year_since_1970 in 10..137 = 1980..2107, zero-indexed month < 15, zero-indexed day < 31) *)
Definition ts_cal (t : ts) : Prop :=
  10 <= t_year t /\ t_year t < 138 /\ t_month t < 15 /\ t_day t < 31 /\
  t_hours t < 32 /\ t_minutes t < 64 /\ t_seconds t < 64.

Definition round2 (t : ts) : ts := set_t_seconds t (2 * (t_seconds t / 2)).

Lemma ts_cal_ok t : ts_cal t -> ts_ok t.
Proof. unfold ts_cal, ts_ok. lia. Qed.

Theorem C02_ts_roundtrip t : ts_cal t -> ts_readback t = round2 t.
Proof.
  intros (Y1 & Y2 & Mo & Da & Ho & Mi & Se). rewrite ts_readback_value.
  unfold round2, set_t_seconds.
  replace (t_year t <? 10) with false by (symmetry; apply N.ltb_ge; exact Y1).
  replace ((t_month t + 1) mod 16 =? 0) with false by (symmetry; apply N.eqb_neq; lia).
  replace ((t_day t + 1) mod 32 =? 0) with false by (symmetry; apply N.eqb_neq; lia).
  f_equal; lia.
Qed.

Lemma clock_ts_cal k : ts_cal (clock_ts k).
Proof. unfold ts_cal, clock_ts. cbn [t_year t_month t_day t_hours t_minutes t_seconds]. lia. Qed.

(* every value of the model's clock: never panics, identity up to the rounding of the seconds *)
Theorem C02_clock_ts_roundtrip k :
  ts_readback (clock_ts k) = round2 (clock_ts k) /\
  (forall s, ts_to_fat (clock_ts k) s =
             (Ok (bytes16 (fat_time (clock_ts k)) ++ bytes16 (fat_date (clock_ts k))), s)) /\
  round2 (round2 (clock_ts k)) = round2 (clock_ts k).
Proof.
  split; [apply C02_ts_roundtrip, clock_ts_cal|].
  split; [intros s; apply ts_to_fat_ok, ts_cal_ok, clock_ts_cal|].
  unfold round2, set_t_seconds. cbn [t_year t_month t_day t_hours t_minutes t_seconds].
  f_equal. lia.
Qed.

(* ---- encode (decode raw) = raw ?  The time word always; the date word exactly when its
   month and day fields are non-zero (a zero field decodes to index 0 and is re-encoded as 1) ---- *)
Lemma reencode_time date time : time < 65536 -> fat_time (ts_from_fat date time) = time.
Proof.
  intros Ht. rewrite ts_from_fat_arith. unfold dec_ts, fat_time.
  cbn [t_hours t_minutes t_seconds]. lia.
Qed.

Lemma reencode_date_fields date time : date < 65536 ->
  fat_date (ts_from_fat date time) =
  (date / 512) * 512
  + (if (date / 32) mod 16 =? 0 then 1 else (date / 32) mod 16) * 32
  + (if date mod 32 =? 0 then 1 else date mod 32).
Proof.
  intros Hd. rewrite ts_from_fat_arith. unfold dec_ts, fat_date.
  cbn [t_year t_month t_day].
  replace ((10 + date / 512) mod 256 <? 10) with false by (symmetry; apply N.ltb_ge; lia).
  replace (((10 + date / 512) mod 256 - 10) mod 128) with (date / 512) by lia.
  destruct (N.eqb_spec ((date / 32) mod 16) 0) as [Em|Em];
    destruct (N.eqb_spec (date mod 32) 0) as [Ed|Ed];
    change ((0 + 1) mod 16) with 1; change ((0 + 1) mod 32) with 1.
  - reflexivity.
  - replace ((date mod 32 - 1 + 1) mod 32) with (date mod 32) by lia. reflexivity.
  - replace (((date / 32) mod 16 - 1 + 1) mod 16) with ((date / 32) mod 16) by lia. reflexivity.
  - replace ((date mod 32 - 1 + 1) mod 32) with (date mod 32) by lia.
    replace (((date / 32) mod 16 - 1 + 1) mod 16) with ((date / 32) mod 16) by lia. reflexivity.
Qed.

(* C02, creation time is stable under flush (one step): flush writes encode(e_ctime) where
   e_ctime = decode(raw); the raw bytes are reproduced exactly when the date word has non-zero
   month and day fields - and only then *)
Theorem C02_ctime_stable_step date time : date < 65536 -> time < 65536 ->
  fat_time (ts_from_fat date time) = time /\
  (fat_date (ts_from_fat date time) = date <-> ((date / 32) mod 16 <> 0 /\ date mod 32 <> 0)).
Proof.
  intros Hd Ht. split; [apply reencode_time; exact Ht|].
  rewrite (reencode_date_fields date time Hd).
  destruct (N.eqb_spec ((date / 32) mod 16) 0) as [Em|Em];
    destruct (N.eqb_spec (date mod 32) 0) as [Ed|Ed]; split; intros H; lia.
Qed.

(* finding D24: a create date whose month/day field is 0 (e.g. the all-zero date word that
   many formatters and cameras leave) is re-encoded as 0x0021 *)
Theorem C02_zero_cdate_refuted : exists date time, date < 65536 /\ time < 65536 /\
  fat_date (ts_from_fat date time) <> date /\ fat_date (ts_from_fat 0 0) = 33.
Proof. exists 0, 0. repeat split; try reflexivity. vm_compute. discriminate. Qed.

(* ---- DirEntry::serialize: the 32 bytes ---- *)
Definition hi_word (fat32 : bool) (cl : N) : N := if fat32 then (cl / 65536) mod 65536 else 0.
Definition ser_bytes (fat32 : bool) (e : dirent) : list N :=
  e_name e ++ [e_attr e; 0; 0]
  ++ (bytes16 (fat_time (e_ctime e)) ++ bytes16 (fat_date (e_ctime e))) ++ [0; 0]
  ++ bytes16 (hi_word fat32 (e_cluster e))
  ++ (bytes16 (fat_time (e_mtime e)) ++ bytes16 (fat_date (e_mtime e)))
  ++ bytes16 (e_cluster e mod 65536) ++ bytes32 (e_size e).

Theorem serialize_ok fat32 e s : ts_ok (e_ctime e) -> ts_ok (e_mtime e) ->
  serialize fat32 e s = (Ok (ser_bytes fat32 e), s).
Proof.
  intros Hc Hm. unfold serialize.
  rewrite (bind_ok _ _ _ _ _ (ts_to_fat_ok (e_ctime e) s Hc)).
  rewrite (bind_ok _ _ _ _ _ (ts_to_fat_ok (e_mtime e) s Hm)).
  cbv zeta. unfold ret, ser_bytes, hi_word. do 2 f_equal. do 4 f_equal.
  change 65535 with (N.ones 16). rewrite !N.land_ones, N.shiftr_div_pow2.
  change (2 ^ 16) with 65536. destruct fat32; reflexivity.
Qed.

Lemma ser_bytes_length fat32 e : length (e_name e) = 11%nat -> length (ser_bytes fat32 e) = 32%nat.
Proof. intros H. unfold ser_bytes. rewrite !app_length, H. reflexivity. Qed.

Lemma ser_bytes_lt fat32 e : Forall (fun x => x < 256) (e_name e) -> e_attr e < 256 ->
  Forall (fun x => x < 256) (ser_bytes fat32 e).
Proof.
  intros Hn Ha. unfold ser_bytes.
  repeat (apply Forall_app; split); try apply bytes16_lt; try apply bytes32_lt; try exact Hn;
    repeat constructor; try exact Ha; lia.
Qed.

Ltac nat_idx :=
  repeat match goal with
  | |- context [N.to_nat ?x] => let y := eval vm_compute in (N.to_nat x) in change (N.to_nat x) with y
  end.

(* the byte layout of the FAT specification: name 0..10, attributes 11, creation time 14 and
   date 16, first-cluster high half 20, write time 22 and date 24, first-cluster low half 26,
   size 28..31 - all little-endian *)
Theorem ser_bytes_layout fat32 e : length (e_name e) = 11%nat ->
  let sl := ser_bytes fat32 e in
  firstn 11 sl = e_name e /\ get8 sl 11 = e_attr e /\
  le16 sl 14 = fat_time (e_ctime e) /\ le16 sl 16 = fat_date (e_ctime e) /\
  le16 sl 20 = hi_word fat32 (e_cluster e) /\
  le16 sl 22 = fat_time (e_mtime e) /\ le16 sl 24 = fat_date (e_mtime e) /\
  le16 sl 26 = e_cluster e mod 65536 /\ le32 sl 28 = e_size e mod 4294967296 /\
  get8 sl 0 = get8 (e_name e) 0.
Proof.
  intros Hl. destruct e as [name mt ct attr cl size b o]. cbn [e_name] in Hl.
  do 11 (destruct name as [|? name]; [discriminate Hl|]). destruct name; [|discriminate Hl].
  clear Hl. intros sl. subst sl. unfold ser_bytes.
  cbn [e_name e_attr e_ctime e_mtime e_cluster e_size].
  assert (B16 : forall v, v < 65536 -> v mod 256 + 256 * ((v / 256) mod 256) = v) by (intros; lia).
  pose proof (fat_time_lt ct). pose proof (fat_date_lt ct).
  pose proof (fat_time_lt mt). pose proof (fat_date_lt mt).
  assert (hi_word fat32 cl < 65536) by (unfold hi_word; destruct fat32; lia).
  assert (cl mod 65536 < 65536) by lia.
  unfold le16, le32, get8. nat_idx. cbn [app bytes16 bytes32 nth firstn].
  repeat split; try (apply B16; assumption).
  apply bytes32_value.
Qed.

(* ---- the round trip: what get_entry returns for a serialized entry ---- *)
Definition cl_readback (fat32 : bool) (attr cl : N) : N :=
  let c := if fat32 then cl mod 4294967296 else cl mod 65536 in
  if (c =? CL_EMPTY) && is_directory attr then CL_ROOT else c.
Definition entry_readback (fat32 : bool) (e : dirent) (blk off : N) : dirent :=
  mk_dirent (e_name e) (ts_readback (e_mtime e)) (ts_readback (e_ctime e)) (e_attr e)
            (cl_readback fat32 (e_attr e) (e_cluster e)) (e_size e mod 4294967296) blk off.

Theorem C02_codec_roundtrip fat32 e blk off : length (e_name e) = 11%nat ->
  get_entry fat32 (ser_bytes fat32 e) blk off = entry_readback fat32 e blk off.
Proof.
  intros Hl.
  destruct (ser_bytes_layout fat32 e Hl) as (L0 & L11 & L14 & L16 & L20 & L22 & L24 & L26 & L28 & _).
  unfold get_entry, entry_readback, cl_readback, ts_readback.
  rewrite L0, L11, L14, L16, L20, L22, L24, L26, L28.
  f_equal. unfold hi_word. destruct fat32; [|reflexivity].
  rewrite N.shiftl_mul_pow2. rewrite lor_add by (change (2 ^ 16) with 65536; lia).
  change (2 ^ 16) with 65536.
  replace ((e_cluster e / 65536) mod 65536 * 65536 + e_cluster e mod 65536)
    with (e_cluster e mod 4294967296) by lia.
  reflexivity.
Qed.

(* in-range fields come back unchanged; a directory entry with cluster 0 reads back as the
   root-directory alias (the documented ".." convention) *)
Corollary C02_codec_roundtrip_fields fat32 e blk off : length (e_name e) = 11%nat ->
  let r := get_entry fat32 (ser_bytes fat32 e) blk off in
  e_name r = e_name e /\ e_attr r = e_attr e /\
  (e_size e < 4294967296 -> e_size r = e_size e) /\
  e_mtime r = ts_readback (e_mtime e) /\ e_ctime r = ts_readback (e_ctime e) /\
  (ts_cal (e_mtime e) -> e_mtime r = round2 (e_mtime e)) /\
  (ts_cal (e_ctime e) -> e_ctime r = round2 (e_ctime e)) /\
  e_block r = blk /\ e_offset r = off /\
  (e_cluster e < (if fat32 then 4294967296 else 65536) ->
   e_cluster r = if (e_cluster e =? 0) && is_directory (e_attr e) then CL_ROOT else e_cluster e).
Proof.
  intros Hl r. subst r. rewrite (C02_codec_roundtrip fat32 e blk off Hl).
  unfold entry_readback. cbn [e_name e_attr e_size e_mtime e_ctime e_block e_offset e_cluster].
  split; [reflexivity|]. split; [reflexivity|].
  split; [intros H; apply N.mod_small; exact H|].
  split; [reflexivity|]. split; [reflexivity|].
  split; [apply C02_ts_roundtrip|]. split; [apply C02_ts_roundtrip|].
  split; [reflexivity|]. split; [reflexivity|].
  intros Hc. unfold cl_readback, CL_EMPTY. destruct fat32; rewrite N.mod_small by exact Hc; reflexivity.
Qed.

(* ================================================================== 2. write_entry_to_disk *)
(* ---- slots of a block and set_bytes ---- *)
Lemma slot_length b i : (N.to_nat (i * 32) + 32 <= length b)%nat -> length (slot b i) = 32%nat.
Proof. intros H. unfold slot, slice. rewrite firstn_length, skipn_length. lia. Qed.

Lemma nth_slot b i k : (k < 32)%nat -> nth k (slot b i) 0 = get8 b (i * 32 + N.of_nat k).
Proof.
  intros Hk. unfold slot, slice, get8. change (N.to_nat 32) with 32%nat.
  rewrite nth_firstn_lt by exact Hk. rewrite nth_skipn_add. f_equal. lia.
Qed.

Lemma get8_slot b i k : k < 32 -> get8 (slot b i) k = get8 b (i * 32 + k).
Proof.
  intros Hk. unfold get8 at 1. rewrite nth_slot by lia. f_equal. lia.
Qed.

Lemma slot_ext b b' i : length b = length b' ->
  (forall k, k < 32 -> get8 b (i * 32 + k) = get8 b' (i * 32 + k)) -> slot b i = slot b' i.
Proof.
  intros Hl H.
  assert (L : length (slot b i) = length (slot b' i))
    by (unfold slot, slice; rewrite !firstn_length, !skipn_length, Hl; reflexivity).
  apply (nth_ext _ _ 0 0 L). intros n Hn.
  assert (Hn32 : (n < 32)%nat).
  { unfold slot, slice in Hn. rewrite firstn_length in Hn. change (N.to_nat 32) with 32%nat in Hn. lia. }
  rewrite !nth_slot by exact Hn32. apply H. lia.
Qed.

(* a write that does not overlap slot i leaves slot i alone *)
Lemma slot_set_bytes_other b off l i : (N.to_nat off + length l <= length b)%nat ->
  (i * 32 + 32 <= off \/ off + N.of_nat (length l) <= i * 32) ->
  slot (set_bytes b off l) i = slot b i.
Proof.
  intros Hfit Hd. apply slot_ext; [apply set_bytes_length; exact Hfit|].
  intros k Hk. apply get8_set_bytes_outside; [exact Hfit|lia].
Qed.

(* a 32-byte write at a slot boundary replaces exactly that slot *)
Lemma slot_set_bytes_same b i l : length l = 32%nat -> (N.to_nat (i * 32) + 32 <= length b)%nat ->
  slot (set_bytes b (i * 32) l) i = l.
Proof.
  intros Hl Hfit.
  assert (L : length (slot (set_bytes b (i * 32) l) i) = length l).
  { rewrite slot_length; [symmetry; exact Hl|]. rewrite set_bytes_length; lia. }
  apply (nth_ext _ _ 0 0 L). intros n Hn. rewrite L, Hl in Hn.
  rewrite nth_slot by exact Hn. apply get8_set_bytes_inside; lia.
Qed.

(* a write inside slot i leaves the first bytes / the other bytes of that slot as they were *)
Lemma slot_set_bytes_inside b off l i k : (N.to_nat off + length l <= length b)%nat ->
  k < 32 -> (i * 32 + k < off \/ off + N.of_nat (length l) <= i * 32 + k) ->
  get8 (slot (set_bytes b off l) i) k = get8 (slot b i) k.
Proof.
  intros Hfit Hk Hd. rewrite !get8_slot by exact Hk.
  apply get8_set_bytes_outside; [exact Hfit|exact Hd].
Qed.

(* ---- the write itself ---- *)
Definition put_entry (fat32 : bool) (e : dirent) (b : block) : block :=
  set_bytes b (e_offset e) (ser_bytes fat32 e).

Theorem write_entry_to_disk_spec v e s :
  no_faults s -> cache_ok s -> ts_ok (e_ctime e) -> ts_ok (e_mtime e) -> e_offset e + 32 <= 512 ->
  let old := disk_get (s_disk s) (e_block e) in
  let new := put_entry (v_fat32 v) e old in
  exists s', write_entry_to_disk v e s = (Ok tt, s') /\
    s_disk s' = disk_set (s_disk s) (e_block e) new /\
    disk_get (s_disk s') (e_block e) = new /\
    (forall j, j <> e_block e -> disk_get (s_disk s') j = disk_get (s_disk s) j) /\
    s_tag s' = Some (e_block e) /\ s_cache s' = new /\
    cache_ok s' /\ no_faults s' /\ same_mgr s s' /\
    exists pre, s_trace s' = DWrite (e_block e) new :: pre /\
                (pre = s_trace s \/ pre = DRead (e_block e) :: s_trace s).
Proof.
  intros Hnf Hc Hct Hmt Hoff old new.
  destruct (rmw_k (e_block e)
              (bytes <- serialize (v_fat32 v) e ;;
               if 512 <? e_offset e + 32 then panic else
               cache_modify (fun b => set_bytes b (e_offset e) bytes) ;;; write_back)
              (put_entry (v_fat32 v) e) s Hnf Hc) as (s' & Hrun & Hd & Ht & Hcc & Hc' & Hnf' & Hm & Htr).
  { intros s0. rewrite (bind_ok _ _ _ _ _ (serialize_ok (v_fat32 v) e s0 Hct Hmt)).
    replace (512 <? e_offset e + 32) with false by (symmetry; apply N.ltb_ge; exact Hoff).
    reflexivity. }
  exists s'. split; [exact Hrun|]. split; [exact Hd|].
  split; [rewrite Hd; apply disk_get_set_same|].
  split; [intros j Hj; rewrite Hd; apply disk_get_set_other; congruence|].
  repeat (split; [assumption|]). exact Htr.
Qed.

(* the new block, slot by slot and byte by byte (C04: only the directory slot the call owns) *)
Theorem put_entry_slots fat32 e old :
  length old = 512%nat -> length (e_name e) = 11%nat ->
  e_offset e + 32 <= 512 -> e_offset e mod 32 = 0 ->
  let new := put_entry fat32 e old in
  length new = 512%nat /\
  slot new (e_offset e / 32) = ser_bytes fat32 e /\
  (forall k, k <> e_offset e / 32 -> slot new k = slot old k) /\
  (forall i, i < e_offset e \/ e_offset e + 32 <= i -> get8 new i = get8 old i) /\
  (Forall (fun x => x < 256) old -> Forall (fun x => x < 256) (e_name e) -> e_attr e < 256 ->
   is_block new).
Proof.
  intros Hlen Hname Hoff Hal new. subst new. unfold put_entry.
  pose proof (ser_bytes_length fat32 e Hname) as Hsl.
  assert (Hfit : (N.to_nat (e_offset e) + length (ser_bytes fat32 e) <= length old)%nat) by lia.
  assert (Eo : e_offset e = e_offset e / 32 * 32) by lia.
  split; [rewrite set_bytes_length; [exact Hlen|exact Hfit]|].
  split.
  { rewrite Eo at 1. apply slot_set_bytes_same; [exact Hsl|]. lia. }
  split.
  { intros k Hk. apply slot_set_bytes_other; [exact Hfit|]. rewrite Hsl.
    change (N.of_nat 32) with 32. lia. }
  split.
  { intros i Hi. apply get8_set_bytes_outside; [exact Hfit|]. rewrite Hsl. change (N.of_nat 32) with 32. exact Hi. }
  intros Hb Hn Ha. apply set_bytes_is_block; [split; assumption|lia|apply ser_bytes_lt; assumption].
Qed.

(* ================================================================== 3. flush_file *)
(* the volume record of the file's volume handle *)
Definition file_vol (s : st) (f : fileinfo) (vi : nat) (v : vol) : Prop :=
  find_idx (fun w => v_id w =? f_vol f) (s_vols s) 0 = Some vi /\ nth_error (s_vols s) vi = Some v.

(* the FS-information-sector step that precedes the directory-entry write: at most the block
   v_info changes; nothing at all for FAT16 or when neither count nor hint is known *)
Definition info_step (s : st) (vi : nat) (v : vol) (s1 : st) : Prop :=
  update_info_sector vi s = (Ok tt, s1) /\ no_faults s1 /\ cache_ok s1 /\ same_mgr s s1 /\
  (forall j, j <> v_info v -> disk_get (s_disk s1) j = disk_get (s_disk s) j) /\
  (v_fat32 v = false \/ (v_free v = None /\ v_next_free v = None) -> s1 = s).

Lemma info_step_none s vi v : no_faults s -> cache_ok s -> nth_error (s_vols s) vi = Some v ->
  v_fat32 v = false \/ (v_free v = None /\ v_next_free v = None) -> info_step s vi v s.
Proof.
  intros Hnf Hc Hv H. split.
  - destruct H as [H|[H1 H2]]; [apply (update_info_sector_fat16 vi s v Hv H)|
                                 apply (update_info_sector_none vi s v Hv H1 H2)].
  - repeat split; auto using same_mgr_refl.
Qed.

Lemma info_step_fat32 s vi v : no_faults s -> cache_ok s -> nth_error (s_vols s) vi = Some v ->
  v_fat32 v = true -> v_free v <> None \/ v_next_free v <> None ->
  length (disk_get (s_disk s) (v_info v)) = 512%nat ->
  exists s1, info_step s vi v s1 /\
    exists nb pre, s_trace s1 = DWrite (v_info v) nb :: pre /\
                   (pre = s_trace s \/ pre = DRead (v_info v) :: s_trace s).
Proof.
  intros Hnf Hc Hv H32 Hsome Hlen.
  destruct (update_info_sector_spec vi s v Hnf Hc Hv H32 Hsome Hlen)
    as (s1 & nb & Hrun & _ & _ & Hfr & _ & _ & _ & _ & _ & Hc1 & Hnf1 & Hm & pre & Htr).
  exists s1. split.
  - split; [exact Hrun|]. repeat (split; [assumption|]).
    intros [H|[H1 H2]]; [congruence|]. exfalso. destruct Hsome as [H|H]; apply H; assumption.
  - exists nb, pre. exact Htr.
Qed.

Lemma flush_file_is h : flush_file h = with_file h (fun fi f =>
  if f_dirty f then
    vi <- get_volume_by_id (f_vol f) ;;
    update_info_sector vi ;;;
    if negb (e_size (f_entry f) =? 0) && (e_cluster (f_entry f) =? 0) then panic else
    v <- get_vol vi ;;
    write_entry_to_disk v (f_entry f)
  else ret tt).
Proof. reflexivity. Qed.

(* not dirty: nothing happens - no device call, no state change *)
Theorem flush_file_clean s h fi f : resolves s h fi f -> f_dirty f = false ->
  flush_file h s = (Ok tt, s).
Proof.
  intros Hr Hd. rewrite flush_file_is, (with_file_resolves s h fi f _ Hr), Hd. reflexivity.
Qed.

(* dirty: after the information-sector step, the directory slot of the file (e_block/e_offset
   of its in-memory entry) receives the serialization of the in-memory entry - size, first
   cluster, attributes, write time, creation time - and no other block changes *)
Theorem flush_file_spec s h fi f vi v s1 :
  resolves s h fi f -> f_dirty f = true -> file_vol s f vi v -> info_step s vi v s1 ->
  let e := f_entry f in
  (e_size e = 0 \/ e_cluster e <> 0) ->
  ts_ok (e_ctime e) -> ts_ok (e_mtime e) -> e_offset e + 32 <= 512 ->
  let old := disk_get (s_disk s1) (e_block e) in
  let new := put_entry (v_fat32 v) e old in
  exists s', flush_file h s = (Ok tt, s') /\
    s_disk s' = disk_set (s_disk s1) (e_block e) new /\
    disk_get (s_disk s') (e_block e) = new /\
    (forall j, j <> e_block e -> disk_get (s_disk s') j = disk_get (s_disk s1) j) /\
    cache_ok s' /\ no_faults s' /\ same_mgr s s' /\
    exists pre, s_trace s' = DWrite (e_block e) new :: pre /\
                (pre = s_trace s1 \/ pre = DRead (e_block e) :: s_trace s1).
Proof.
  intros Hr Hd (Hfind & Hv) (Hinfo & Hnf1 & Hc1 & Hm1 & _ & _) e Hnp Hct Hmt Hoff old new.
  rewrite flush_file_is, (with_file_resolves s h fi f _ Hr), Hd.
  assert (Hgv : get_volume_by_id (f_vol f) s = (Ok vi, s))
    by (unfold get_volume_by_id, bind, get; rewrite Hfind; reflexivity).
  rewrite (bind_ok _ _ _ _ _ Hgv). rewrite (bind_ok _ _ _ _ _ Hinfo).
  fold e.
  replace (negb (e_size e =? 0) && (e_cluster e =? 0)) with false.
  2:{ symmetry. destruct Hnp as [H|H].
      - rewrite H. reflexivity.
      - apply N.eqb_neq in H. rewrite H. apply andb_false_r. }
  rewrite (bind_ok _ _ _ _ _ (get_vol_some vi v s1 (same_mgr_vol s s1 vi v Hm1 Hv))).
  destruct (write_entry_to_disk_spec v e s1 Hnf1 Hc1 Hct Hmt Hoff)
    as (s' & Hrun & Hd' & Hsame & Hfr & _ & _ & Hc' & Hnf' & Hm' & Htr).
  exists s'. split; [exact Hrun|]. split; [exact Hd'|]. split; [exact Hsame|]. split; [exact Hfr|].
  split; [exact Hc'|]. split; [exact Hnf'|]. split; [exact (same_mgr_trans _ _ _ Hm1 Hm')|exact Htr].
Qed.

(* FAT16 (or nothing known about the free space): exactly one block of the device changes *)
Corollary flush_file_spec_plain s h fi f vi v :
  no_faults s -> cache_ok s ->
  resolves s h fi f -> f_dirty f = true -> file_vol s f vi v ->
  v_fat32 v = false \/ (v_free v = None /\ v_next_free v = None) ->
  let e := f_entry f in
  (e_size e = 0 \/ e_cluster e <> 0) ->
  ts_ok (e_ctime e) -> ts_ok (e_mtime e) -> e_offset e + 32 <= 512 ->
  let new := put_entry (v_fat32 v) e (disk_get (s_disk s) (e_block e)) in
  exists s', flush_file h s = (Ok tt, s') /\
    s_disk s' = disk_set (s_disk s) (e_block e) new /\
    (forall j, j <> e_block e -> disk_get (s_disk s') j = disk_get (s_disk s) j) /\
    cache_ok s' /\ no_faults s' /\ same_mgr s s' /\
    (s_trace s' = DWrite (e_block e) new :: s_trace s \/
     s_trace s' = DWrite (e_block e) new :: DRead (e_block e) :: s_trace s).
Proof.
  intros Hnf Hc Hr Hd Hfv Hplain e Hnp Hct Hmt Hoff new.
  destruct (flush_file_spec s h fi f vi v s Hr Hd Hfv
              (info_step_none s vi v Hnf Hc (proj2 Hfv) Hplain) Hnp Hct Hmt Hoff)
    as (s' & Hrun & Hd' & _ & Hfr & Hc' & Hnf' & Hm' & pre & Htr & Hpre).
  exists s'. repeat (split; [assumption|]).
  destruct Hpre as [-> | ->]; [left|right]; exact Htr.
Qed.

(* ---- the slots of a directory after one slot was written ---- *)
(* d' is d with slot i0 of block blk replaced by `new`; every other slot of that block and
   every other block is the same *)
Definition slot_write (d d' : disk) (blk i0 : N) (new : list N) : Prop :=
  (forall j, j <> blk -> disk_get d' j = disk_get d j) /\
  slot (disk_get d' blk) i0 = new /\
  (forall k, k <> i0 -> slot (disk_get d' blk) k = slot (disk_get d blk) k).

Definition upd_slot (blk off : N) (new : list N) (t : tslot) : tslot :=
  if (fst (fst t) =? blk) && (snd (fst t) =? off) then (blk, off, new) else t.

Lemma tslots_from_upd b b' blk i0 new n : forall i,
  slot b' i0 = new -> (forall k, k <> i0 -> slot b' k = slot b k) ->
  tslots_from n b' blk i = map (upd_slot blk (i0 * 32) new) (tslots_from n b blk i).
Proof.
  induction n as [|n IH]; intros i Hs Ho; [reflexivity|].
  cbn [tslots_from map]. rewrite (IH (i + 1) Hs Ho). f_equal.
  unfold upd_slot. cbn [fst snd]. rewrite N.eqb_refl. cbn [andb].
  destruct (N.eqb_spec (i * 32) (i0 * 32)) as [E|E].
  - assert (i = i0) by lia. subst i. rewrite Hs. reflexivity.
  - rewrite Ho by (intros ->; apply E; reflexivity). reflexivity.
Qed.

Lemma tslots_from_upd_other b blk blk2 off new n : forall i, blk2 <> blk ->
  map (upd_slot blk off new) (tslots_from n b blk2 i) = tslots_from n b blk2 i.
Proof.
  induction n as [|n IH]; intros i Hne; [reflexivity|].
  cbn [tslots_from map]. rewrite (IH (i + 1) Hne). f_equal.
  unfold upd_slot. cbn [fst snd].
  replace (blk2 =? blk) with false by (symmetry; apply N.eqb_neq; exact Hne). reflexivity.
Qed.

Lemma block_slots_upd d d' blk i0 new b : slot_write d d' blk i0 new ->
  block_slots d' b = map (upd_slot blk (i0 * 32) new) (block_slots d b).
Proof.
  intros (Hfr & Hs & Ho). unfold block_slots.
  destruct (N.eq_dec b blk) as [->|Hne].
  - apply tslots_from_upd; assumption.
  - rewrite (Hfr b Hne). symmetry. apply tslots_from_upd_other. exact Hne.
Qed.

Lemma flat_map_map {A B} (f f' : A -> list B) (g : B -> B) l :
  (forall a, In a l -> f' a = map g (f a)) -> flat_map f' l = map g (flat_map f l).
Proof.
  induction l as [|a l IH]; intros H; [reflexivity|]. cbn [flat_map].
  rewrite map_app, (H a (or_introl eq_refl)), IH; [reflexivity|].
  intros x Hx. apply H. right. exact Hx.
Qed.

(* every slot of the directory other than (blk, i0) is unchanged, in place *)
Theorem slots_of_upd d d' blk i0 new bl : slot_write d d' blk i0 new ->
  slots_of d' bl = map (upd_slot blk (i0 * 32) new) (slots_of d bl).
Proof.
  intros H. unfold slots_of. apply flat_map_map. intros b _. apply block_slots_upd. exact H.
Qed.

Lemma In_tslots_from n b blk : forall i t, In t (tslots_from n b blk i) ->
  exists j, i <= j /\ j < i + N.of_nat n /\ t = (blk, j * 32, slot b j).
Proof.
  induction n as [|n IH]; intros i t H; [destruct H|].
  cbn [tslots_from] in H. destruct H as [<-|H].
  - exists i. split; [lia|]. split; [lia|reflexivity].
  - destruct (IH _ _ H) as (j & H1 & H2 & E). exists j. split; [lia|]. split; [lia|exact E].
Qed.

Lemma In_before_end_all l t : In t (before_end_all l) -> In t l /\ t_is_end t = false.
Proof.
  induction l as [|x l IH]; intros H; [destruct H|]. cbn [before_end_all] in H.
  destruct (t_is_end x) eqn:E; [destruct H|]. destruct H as [<-|H].
  - split; [left; reflexivity|exact E].
  - destruct (IH H) as [H1 H2]. split; [right; exact H1|exact H2].
Qed.

Lemma In_live d bl t : In t (live_in_blocks d bl) ->
  exists b i, In b bl /\ i < 16 /\ t = (b, i * 32, slot (disk_get d b) i) /\ is_end (slot (disk_get d b) i) = false.
Proof.
  intros H. unfold live_in_blocks in H. apply in_flat_map in H. destruct H as (b & Hb & H).
  apply In_before_end_all in H. destruct H as [H He]. unfold block_slots in H.
  apply In_tslots_from in H. destruct H as (j & _ & Hj & ->).
  exists b, j. split; [exact Hb|]. split; [change (N.of_nat 16) with 16 in Hj; lia|].
  split; [reflexivity|exact He].
Qed.

(* a property of the 32 bytes that the new contents share with the old ones is preserved slot-wise *)
Lemma upd_slot_pres (q : list N -> bool) n b blk blk2 i0 new : forall i t,
  (blk2 = blk -> q new = q (slot b i0)) -> In t (tslots_from n b blk2 i) ->
  q (snd (upd_slot blk (i0 * 32) new t)) = q (snd t).
Proof.
  intros i t Hq H. apply In_tslots_from in H. destruct H as (j & _ & _ & ->).
  unfold upd_slot. cbn [fst snd].
  destruct (N.eqb_spec blk2 blk) as [E|E]; [|reflexivity]. cbn [andb].
  destruct (N.eqb_spec (j * 32) (i0 * 32)) as [E2|E2]; [|reflexivity].
  assert (j = i0) by lia. subst j. cbn [snd]. apply Hq. exact E.
Qed.

Lemma before_end_all_map (g : tslot -> tslot) l :
  (forall t, In t l -> t_is_end (g t) = t_is_end t) -> before_end_all (map g l) = map g (before_end_all l).
Proof.
  induction l as [|x l IH]; intros H; [reflexivity|]. cbn [map before_end_all].
  rewrite (H x (or_introl eq_refl)). destruct (t_is_end x); [reflexivity|].
  cbn [map]. f_equal. apply IH. intros t Ht. apply H. right. exact Ht.
Qed.

Lemma find_map_pres {A} (p : A -> bool) (g : A -> A) l :
  (forall t, In t l -> p (g t) = p t) -> find p (map g l) = option_map g (find p l).
Proof.
  induction l as [|x l IH]; intros H; [reflexivity|]. cbn [map find].
  rewrite (H x (or_introl eq_refl)). destruct (p x); [reflexivity|].
  apply IH. intros t Ht. apply H. right. exact Ht.
Qed.

(* the slots examined by lookup/delete after the write, when the new contents are an end
   marker exactly if the old ones were *)
Theorem live_upd d d' blk i0 new bl : slot_write d d' blk i0 new ->
  is_end new = is_end (slot (disk_get d blk) i0) ->
  live_in_blocks d' bl = map (upd_slot blk (i0 * 32) new) (live_in_blocks d bl).
Proof.
  intros H He. unfold live_in_blocks. apply flat_map_map. intros b _.
  rewrite (block_slots_upd d d' blk i0 new b H). apply before_end_all_map.
  intros t Ht. unfold block_slots in Ht. unfold t_is_end.
  apply (upd_slot_pres is_end 16 (disk_get d b) blk b i0 new 0 t); [|exact Ht].
  intros ->. exact He.
Qed.

Lemma flat_map_ext_in' {A B} (f g : A -> list B) l :
  (forall a, In a l -> f a = g a) -> flat_map f l = flat_map g l.
Proof.
  induction l as [|a l IH]; intros H; [reflexivity|]. cbn [flat_map].
  rewrite (H a (or_introl eq_refl)), IH; [reflexivity|]. intros x Hx. apply H. right. exact Hx.
Qed.

Lemma live_ext d d' bl : (forall j, In j bl -> disk_get d' j = disk_get d j) ->
  live_in_blocks d' bl = live_in_blocks d bl.
Proof.
  intros H. unfold live_in_blocks. apply flat_map_ext_in'. intros b Hb.
  unfold block_slots. rewrite (H b Hb). reflexivity.
Qed.

Lemma slots_of_ext d d' bl : (forall j, In j bl -> disk_get d' j = disk_get d j) ->
  slots_of d' bl = slots_of d bl.
Proof.
  intros H. unfold slots_of. apply flat_map_ext_in'. intros b Hb.
  unfold block_slots. rewrite (H b Hb). reflexivity.
Qed.

(* ---- the directory's block list does not depend on blocks outside the FAT ---- *)
Definition fat_area (v : vol) (j : N) : Prop :=
  exists c, c < v_clusters v + 2 /\ j = v_lba v + v_fat_start v + (c * fat_w v) / 512.

Lemma chain_of_ext d d' v : (forall j, fat_area v j -> disk_get d' j = disk_get d j) ->
  forall f c, chain_of d' v c f = chain_of d v c f.
Proof.
  intros H. induction f as [|f IH]; intros c; [reflexivity|]. cbn [chain_of].
  destruct ((2 <=? c) && (c <? v_clusters v + 2)) eqn:Hr; [|reflexivity].
  apply andb_true_iff in Hr. destruct Hr as [_ Hc]. apply N.ltb_lt in Hc.
  assert (E : fat_entry d' v c = fat_entry d v c).
  { unfold fat_entry. rewrite (H _ (ex_intro _ c (conj Hc eq_refl))). reflexivity. }
  cbv zeta. rewrite E, IH. reflexivity.
Qed.

Lemma dir_blocks_ext d d' v dc : (forall j, fat_area v j -> disk_get d' j = disk_get d j) ->
  dir_blocks d' v dc = dir_blocks d v dc.
Proof. intros H. unfold dir_blocks. rewrite (chain_of_ext d d' v H). reflexivity. Qed.

Lemma list_eqb_refl a : list_eqb a a = true.
Proof. induction a as [|x a IH]; [reflexivity|]. cbn [list_eqb]. rewrite N.eqb_refl, IH. reflexivity. Qed.

Lemma matches_first sl name : matches sl name = true -> firstn 11 sl = name.
Proof. intros H. exact (proj2 (matches_parts sl name H)). Qed.

Lemma get8_firstn sl : get8 (firstn 11 sl) 0 = get8 sl 0.
Proof. unfold get8. destruct sl; reflexivity. Qed.

(* C02: flush, then look the file up by its 11-byte name on the flushed medium (this is what
   a fresh mount does): the entry found carries the in-memory size, first cluster, attributes,
   write time and creation time (as decoded values), at the same slot.
   Hypotheses about the directory come from the PRE-state: its block list is bl and the slot of
   the file is the first slot, among those before their block's end marker, with that name
   (what C06_find says the open returned); the slot is not in the FAT area. *)
Theorem C02_flush_then_lookup s h fi f vi v s1 dc bl sl0 :
  no_faults s -> cache_ok s -> vol_ok v ->
  resolves s h fi f -> f_dirty f = true -> file_vol s f vi v -> info_step s vi v s1 ->
  let e := f_entry f in
  (e_size e = 0 \/ e_cluster e <> 0) ->
  ts_ok (e_ctime e) -> ts_ok (e_mtime e) -> length (e_name e) = 11%nat ->
  is_lfn (e_attr e) = false ->
  dir_blocks (s_disk s) v dc = Some bl ->
  find (t_matches (e_name e)) (live_in_blocks (s_disk s) bl) = Some (e_block e, e_offset e, sl0) ->
  length (disk_get (s_disk s) (e_block e)) = 512%nat ->
  ~ fat_area v (e_block e) ->
  (v_fat32 v = true -> ~ fat_area v (v_info v) /\ ~ In (v_info v) bl) ->
  exists s', flush_file h s = (Ok tt, s') /\
  exists s'', find_directory_entry vi dc (e_name e) s' =
      (Ok (entry_readback (v_fat32 v) e (e_block e) (e_offset e)), s'') /\
    s_disk s'' = s_disk s' /\
    slot (disk_get (s_disk s') (e_block e)) (e_offset e / 32) = ser_bytes (v_fat32 v) e.
Proof.
  intros Hnf Hc Hvok Hr Hd Hfv Hinfo e Hnp Hct Hmt Hname Hnlfn Hbl Hfind Hlen Hnfat Haway.
  (* the slot found by the pre-state lookup *)
  pose proof (find_some _ _ Hfind) as [Hin Hmatch].
  apply In_live in Hin. destruct Hin as (b & i0 & Hb & Hi0 & Et & Hne).
  injection Et as Eb Eo Es. rewrite <- Eb in Hb, Hne, Es. clear b Eb.
  unfold t_matches in Hmatch. cbn [snd] in Hmatch.
  (* the information-sector step keeps the directory and the FAT *)
  assert (Hs1 : forall j, In j bl \/ fat_area v j -> disk_get (s_disk s1) j = disk_get (s_disk s) j).
  { intros j Hj. destruct Hinfo as (_ & _ & _ & _ & Hfr & Hsame).
    destruct (v_fat32 v) eqn:E32.
    - apply Hfr. destruct (Haway eq_refl) as [A1 A2]. intros ->. destruct Hj; contradiction.
    - rewrite (Hsame (or_introl eq_refl)). reflexivity. }
  assert (Hoff : e_offset e + 32 <= 512) by lia.
  destruct (flush_file_spec s h fi f vi v s1 Hr Hd Hfv Hinfo Hnp Hct Hmt Hoff)
    as (s' & Hrun & Hd' & Hnew & Hfr' & Hc' & Hnf' & Hm' & _).
  exists s'. split; [exact Hrun|].
  fold e in Hd', Hnew, Hfr'.
  assert (Hold : disk_get (s_disk s1) (e_block e) = disk_get (s_disk s) (e_block e))
    by (apply Hs1; left; exact Hb).
  rewrite Hold in Hnew.
  destruct (put_entry_slots (v_fat32 v) e (disk_get (s_disk s) (e_block e)) Hlen Hname Hoff ltac:(lia))
    as (_ & Hslot & Hoth & _ & _).
  assert (Ei : e_offset e / 32 = i0) by lia.
  rewrite Ei in Hslot, Hoth.
  assert (Hsw : slot_write (s_disk s1) (s_disk s') (e_block e) i0 (ser_bytes (v_fat32 v) e)).
  { split; [exact Hfr'|]. rewrite Hnew, Hold. split; [exact Hslot|exact Hoth]. }
  destruct (ser_bytes_layout (v_fat32 v) e Hname) as (L0 & L11 & _ & _ & _ & _ & _ & _ & _ & Lb).
  pose proof (matches_first _ _ Hmatch) as Hfirst.
  assert (Hend : is_end (ser_bytes (v_fat32 v) e) = is_end (slot (disk_get (s_disk s1) (e_block e)) i0)).
  { unfold is_end. rewrite Lb, Hold, <- Es, <- Hfirst, get8_firstn. reflexivity. }
  (* the directory after the flush *)
  assert (Hbl' : dir_blocks (s_disk s') v dc = Some bl).
  { rewrite <- Hbl. apply dir_blocks_ext. intros j Hj.
    rewrite Hfr' by (intros ->; contradiction). apply Hs1. right. exact Hj. }
  assert (Hlive : find (t_matches (e_name e)) (live_in_blocks (s_disk s') bl)
                  = Some (e_block e, e_offset e, ser_bytes (v_fat32 v) e)).
  { rewrite (live_upd _ _ _ _ _ bl Hsw Hend).
    rewrite (live_ext (s_disk s) (s_disk s1) bl) by (intros j Hj; apply Hs1; left; exact Hj).
    rewrite find_map_pres.
    - rewrite Hfind. cbn [option_map]. unfold upd_slot. cbn [fst snd].
      rewrite Eo, !N.eqb_refl. reflexivity.
    - intros t Ht. apply In_live in Ht. destruct Ht as (b & i & _ & _ & -> & _).
      unfold t_matches, upd_slot. cbn [fst snd].
      destruct (N.eqb_spec b (e_block e)) as [->|Eb]; [|reflexivity]. cbn [andb].
      destruct (N.eqb_spec (i * 32) (i0 * 32)) as [E2|E2]; [|reflexivity].
      assert (i = i0) by lia. subst i. cbn [snd].
      rewrite <- Es, Hmatch. unfold matches. rewrite L0, L11, Hnlfn. apply list_eqb_refl. }
  destruct (C06_find vi v dc (e_name e) s' bl (same_mgr_vol s s' vi v Hm' (proj2 Hfv)) Hvok Hnf' Hc' Hbl')
    as (s'' & Hlook & Hd'' & _).
  exists s''. rewrite Hlive in Hlook. split.
  - rewrite Hlook. unfold t_entry. cbn [fst snd].
    rewrite (C02_codec_roundtrip (v_fat32 v) e _ _ Hname). reflexivity.
  - split; [exact Hd''|]. rewrite Hnew, Ei. exact Hslot.
Qed.

(* decoded timestamps can always be serialized again: flushing an entry that was read from
   the medium never panics in the timestamp codec *)
Lemma ts_from_fat_ok date time : ts_ok (ts_from_fat date time).
Proof.
  rewrite ts_from_fat_arith. unfold ts_ok, dec_ts. cbn [t_month t_day].
  destruct ((date / 32) mod 16 =? 0), (date mod 32 =? 0); lia.
Qed.

(* the creation-time bytes of the slot after a flush are the raw words the entry was decoded
   from, when their month and day fields are non-zero; with a zero date word they become 0x0021 *)
Theorem C02_flush_ctime_bytes fat32 e date time : length (e_name e) = 11%nat ->
  date < 65536 -> time < 65536 -> e_ctime e = ts_from_fat date time ->
  le16 (ser_bytes fat32 e) 14 = time /\
  ((date / 32) mod 16 <> 0 /\ date mod 32 <> 0 <-> le16 (ser_bytes fat32 e) 16 = date) /\
  (date = 0 -> le16 (ser_bytes fat32 e) 16 = 33).
Proof.
  intros Hl Hd Ht Hc.
  destruct (ser_bytes_layout fat32 e Hl) as (_ & _ & L14 & L16 & _).
  rewrite L14, L16, Hc. destruct (C02_ctime_stable_step date time Hd Ht) as [T D].
  split; [exact T|]. split; [symmetry; exact D|]. intros ->. reflexivity.
Qed.

(* ================================================================== 5. the frame *)
(* C02/C04: a write of at most 32 bytes inside slot i0 of block blk - which is all that a flush,
   a create or a delete does to the directory - changes at most that one slot: every other
   block of the device, every other slot of the block and every byte outside the written
   range are identical *)
Theorem C02_untouched_frame_step d blk off l i0 :
  length (disk_get d blk) = 512%nat -> i0 < 16 ->
  i0 * 32 <= off -> off + N.of_nat (length l) <= i0 * 32 + 32 ->
  let d' := disk_set d blk (set_bytes (disk_get d blk) off l) in
  (forall j, j <> blk -> disk_get d' j = disk_get d j) /\
  (forall k, k <> i0 -> slot (disk_get d' blk) k = slot (disk_get d blk) k) /\
  (forall x, x < off \/ off + N.of_nat (length l) <= x ->
             get8 (disk_get d' blk) x = get8 (disk_get d blk) x) /\
  length (disk_get d' blk) = 512%nat.
Proof.
  intros Hlen Hi Hlo Hhi d'. subst d'.
  assert (Hfit : (N.to_nat off + length l <= length (disk_get d blk))%nat) by lia.
  split; [intros j Hj; apply disk_get_set_other; congruence|].
  rewrite disk_get_set_same.
  split; [intros k Hk; apply slot_set_bytes_other; [exact Hfit|lia]|].
  split; [intros x Hx; apply get8_set_bytes_outside; [exact Hfit|exact Hx]|].
  rewrite set_bytes_length; [exact Hlen|exact Hfit].
Qed.

(* in the vocabulary of section 3: such a write is a slot_write *)
Lemma slot_write_of_set d blk off l i0 :
  length (disk_get d blk) = 512%nat -> i0 < 16 ->
  i0 * 32 <= off -> off + N.of_nat (length l) <= i0 * 32 + 32 ->
  slot_write d (disk_set d blk (set_bytes (disk_get d blk) off l)) blk i0
             (slot (set_bytes (disk_get d blk) off l) i0).
Proof.
  intros Hlen Hi Hlo Hhi.
  destruct (C02_untouched_frame_step d blk off l i0 Hlen Hi Hlo Hhi) as (H1 & H2 & _).
  split; [exact H1|]. split; [rewrite disk_get_set_same; reflexivity|exact H2].
Qed.

(* the flush instance (FAT16, or FAT32 with nothing to record in the information sector) *)
Theorem C02_untouched_frame_flush s h fi f vi v :
  no_faults s -> cache_ok s ->
  resolves s h fi f -> f_dirty f = true -> file_vol s f vi v ->
  v_fat32 v = false \/ (v_free v = None /\ v_next_free v = None) ->
  let e := f_entry f in
  (e_size e = 0 \/ e_cluster e <> 0) ->
  ts_ok (e_ctime e) -> ts_ok (e_mtime e) -> length (e_name e) = 11%nat ->
  e_offset e + 32 <= 512 -> e_offset e mod 32 = 0 ->
  length (disk_get (s_disk s) (e_block e)) = 512%nat ->
  exists s', flush_file h s = (Ok tt, s') /\
    slot_write (s_disk s) (s_disk s') (e_block e) (e_offset e / 32) (ser_bytes (v_fat32 v) e) /\
    (forall x, x < e_offset e \/ e_offset e + 32 <= x ->
       get8 (disk_get (s_disk s') (e_block e)) x = get8 (disk_get (s_disk s) (e_block e)) x) /\
    (forall bl, slots_of (s_disk s') bl =
                map (upd_slot (e_block e) (e_offset e) (ser_bytes (v_fat32 v) e)) (slots_of (s_disk s) bl)) /\
    cache_ok s' /\ no_faults s' /\ same_mgr s s'.
Proof.
  intros Hnf Hc Hr Hd Hfv Hplain e Hnp Hct Hmt Hname Hoff Hal Hlen.
  destruct (flush_file_spec_plain s h fi f vi v Hnf Hc Hr Hd Hfv Hplain Hnp Hct Hmt Hoff)
    as (s' & Hrun & Hd' & Hfr & Hc' & Hnf' & Hm' & _).
  fold e in Hd', Hfr.
  destruct (put_entry_slots (v_fat32 v) e (disk_get (s_disk s) (e_block e)) Hlen Hname Hoff Hal)
    as (_ & Hslot & Hoth & Hbytes & _).
  assert (Hnew : disk_get (s_disk s') (e_block e) = put_entry (v_fat32 v) e (disk_get (s_disk s) (e_block e)))
    by (rewrite Hd'; apply disk_get_set_same).
  assert (Hsw : slot_write (s_disk s) (s_disk s') (e_block e) (e_offset e / 32) (ser_bytes (v_fat32 v) e)).
  { split; [exact Hfr|]. rewrite Hnew. split; [exact Hslot|exact Hoth]. }
  exists s'. split; [exact Hrun|]. split; [exact Hsw|].
  split; [rewrite Hnew; exact Hbytes|].
  split.
  { intros bl. rewrite (slots_of_upd _ _ _ _ _ bl Hsw).
    replace (e_offset e / 32 * 32) with (e_offset e) by lia. reflexivity. }
  repeat (split; [assumption|]). exact Hm'.
Qed.

(* ================================================================== 4. create and delete *)
(* a step that only reads: PrDir.ro_step plus "the device log grew by read calls only" *)
Definition rd_step (s s' : st) : Prop :=
  ro_step s s' /\ exists l, s_trace s' = l ++ s_trace s /\ Forall PrModes.is_read_call l.

Lemma rd_refl s : no_faults s -> cache_ok s -> rd_step s s.
Proof. intros H1 H2. split; [apply ro_refl; assumption|]. exists []. split; [reflexivity|constructor]. Qed.

Lemma rd_trans a b c : rd_step a b -> rd_step b c -> rd_step a c.
Proof.
  intros (A & l1 & T1 & F1) (B & l2 & T2 & F2). split; [exact (ro_trans _ _ _ A B)|].
  exists (l2 ++ l1). split; [rewrite T2, T1, app_assoc; reflexivity|apply Forall_app; auto].
Qed.

Lemma cache_read_rd i s : no_faults s -> cache_ok s ->
  exists s', cache_read i s = (Ok (disk_get (s_disk s) i), s') /\ rd_step s s' /\
             s_tag s' = Some i /\ s_cache s' = disk_get (s_disk s) i.
Proof.
  intros Hnf Hc. destruct (cache_read_spec i s Hnf Hc) as (s1 & Hr & Hd & Ht & Hcc & Hc1 & Hnf1 & Hm & Htr).
  exists s1. split; [exact Hr|]. split; [|split; assumption].
  split; [split; [exact Hd|split; [exact Hc1|split; [exact Hnf1|exact Hm]]]|].
  destruct Htr as [E|E].
  - exists []. split; [exact E|constructor].
  - exists [DRead i]. split; [exact E|repeat constructor].
Qed.

Lemma next_cluster_rd v c s : vol_ok v -> c < v_clusters v + 2 -> no_faults s -> cache_ok s ->
  exists s', try (next_cluster v c) s = (Ok (next_result v (fat_entry (s_disk s) v c)), s') /\ rd_step s s'.
Proof.
  intros Hv Hc Hnf Hco. destruct (next_cluster_reads v c s Hv Hc Hnf Hco) as (s1 & E & Hd & Hc1 & Hnf1 & Hm).
  exists s1. split; [exact E|]. split; [split; [exact Hd|split; [exact Hc1|split; [exact Hnf1|exact Hm]]]|].
  destruct (PrModes.ro_try _ (PrModes.ro_next_cluster v c) _ _ _ E) as (_ & _ & Htr). exact Htr.
Qed.

(* ---- a directory walk whose body reads every block and, at the first block where a decision
   function g answers, does something (Q) and stops ---- *)
Section StopWalk.
  Variables (R X : Type) (g : disk -> N -> option X) (body : N -> M (option R)).
  Variable Q : N -> X -> st -> R -> st -> Prop.
  Hypothesis body_none : forall blk s, no_faults s -> cache_ok s -> g (s_disk s) blk = None ->
    exists s', body blk s = (Ok None, s') /\ rd_step s s'.
  Hypothesis body_some : forall blk s x, no_faults s -> cache_ok s -> g (s_disk s) blk = Some x ->
    exists r s', body blk s = (Ok (Some r), s') /\ Q blk x s r s'.

  Definition stop_at (d : disk) (bl : list N) : option (N * X) :=
    first_some (fun b => option_map (pair b) (g d b)) bl.

  (* the walk stopped at blk: everything before was reading (up to s0), then Q *)
  Definition stops (s : st) (res : outcome (option R) * st) (blk : N) (x : X) : Prop :=
    exists s0 r s', res = (Ok (Some r), s') /\ rd_step s s0 /\ Q blk x s0 r s'.
  Definition passes (s : st) (res : outcome (option R) * st) : Prop :=
    exists s', res = (Ok None, s') /\ rd_step s s'.

  Lemma stops_after s s1 res blk x : rd_step s s1 -> stops s1 res blk x -> stops s res blk x.
  Proof. intros H (s0 & r & s' & E & H0 & HQ). exists s0, r, s'. split; [exact E|]. split; [exact (rd_trans _ _ _ H H0)|exact HQ]. Qed.
  Lemma passes_after s s1 res : rd_step s s1 -> passes s1 res -> passes s res.
  Proof. intros H (s' & E & H0). exists s'. split; [exact E|exact (rd_trans _ _ _ H H0)]. Qed.

  Lemma stop_at_app d a b :
    stop_at d (a ++ b) = match stop_at d a with Some p => Some p | None => stop_at d b end.
  Proof. apply first_some_app. Qed.

  Lemma for_blocks_from_stop : forall n i s, no_faults s -> cache_ok s ->
    match stop_at (s_disk s) (blocks_from n i) with
    | Some (blk, x) => stops s (for_blocks_from n i body s) blk x
    | None => passes s (for_blocks_from n i body s)
    end.
  Proof.
    induction n as [|n IH]; intros i s Hnf Hc.
    - exists s. split; [reflexivity|apply rd_refl; assumption].
    - cbn [for_blocks_from blocks_from]. unfold stop_at. cbn [first_some].
      destruct (g (s_disk s) i) as [x|] eqn:Eg; cbn [option_map].
      + destruct (body_some i s x Hnf Hc Eg) as (r & s' & Hb & HQ).
        rewrite (bind_ok _ _ _ _ _ Hb). exists s, r, s'.
        split; [reflexivity|]. split; [apply rd_refl; assumption|exact HQ].
      + destruct (body_none i s Hnf Hc Eg) as (s1 & Hb & Hrd).
        rewrite (bind_ok _ _ _ _ _ Hb).
        pose proof Hrd as ((Hd1 & Hc1 & Hnf1 & _) & _).
        specialize (IH (i + 1) s1 Hnf1 Hc1). rewrite Hd1 in IH. fold (stop_at (s_disk s) (blocks_from n (i + 1))).
        destruct (stop_at (s_disk s) (blocks_from n (i + 1))) as [[blk x]|].
        * exact (stops_after _ _ _ _ _ Hrd IH).
        * exact (passes_after _ _ _ Hrd IH).
  Qed.

  Lemma walk_dir_chain_stop vi v grow : vol_ok v ->
    forall fuel c s ch, nth_error (s_vols s) vi = Some v -> no_faults s -> cache_ok s ->
    chain_of (s_disk s) v c fuel = Some ch ->
    match stop_at (s_disk s) (flat_map (cluster_blocks v) ch) with
    | Some (blk, x) => stops s (walk_dir fuel vi c grow body s) blk x
    | None => grow = false -> passes s (walk_dir fuel vi c grow body s)
    end.
  Proof.
    intros Hv. induction fuel as [|f IH]; intros c s ch Hvi Hnf Hc Hch; [discriminate|].
    destruct (chain_of_head _ _ _ _ _ Hch) as (R1 & R2 & (l' & El)).
    cbn [chain_of] in Hch.
    replace ((2 <=? c) && (c <? v_clusters v + 2)) with true in Hch
      by (symmetry; apply andb_true_iff; split; [apply N.leb_le|apply N.ltb_lt]; assumption).
    cbv zeta in Hch.
    cbn [walk_dir].
    rewrite (bind_ok _ _ _ _ _ (get_vol_some vi v s Hvi)).
    destruct (cluster_block_ok v c s Hv R1 R2) as (Hcb & Hfit).
    rewrite (bind_ok _ _ _ _ _ Hcb).
    assert (Hnr : (c =? CL_ROOT) = false) by (apply N.eqb_neq; apply (in_range_not_root v c Hv R2)).
    rewrite Hnr, andb_false_r. unfold for_blocks. rewrite bind_bind.
    rewrite (bind_ok _ _ _ _ _ (add32_ok _ _ s Hfit)).
    pose proof (for_blocks_from_stop (N.to_nat (v_spc v)) (cluster_first_block v c) s Hnf Hc) as Hfb.
    fold (cluster_blocks v c) in Hfb.
    subst ch. cbn [flat_map]. rewrite stop_at_app.
    destruct (stop_at (s_disk s) (cluster_blocks v c)) as [[blk x]|].
    - destruct Hfb as (s0 & r & s' & E & H0 & HQ). rewrite (bind_ok _ _ _ _ _ E).
      exists s0, r, s'. split; [reflexivity|]. split; assumption.
    - destruct Hfb as (s1 & E & Hrd1). rewrite (bind_ok _ _ _ _ _ E).
      pose proof Hrd1 as ((Hd1 & Hc1 & Hnf1 & Hm1) & _).
      destruct (next_cluster_rd v c s1 Hv R2 Hnf1 Hc1) as (s2 & Hnc & Hrd2).
      pose proof (rd_trans _ _ _ Hrd1 Hrd2) as Hrd12.
      pose proof Hrd12 as ((Hd2 & Hc2 & Hnf2 & Hm2) & _).
      rewrite (bind_ok _ _ _ _ _ Hnc). rewrite Hd1.
      destruct (fat_entry (s_disk s) v c =? fat_bad v) eqn:Hbad; [discriminate|].
      destruct (fat_eoc_min v <=? fat_entry (s_disk s) v c) eqn:Heoc.
      + inversion Hch; subst l'. rewrite (next_result_end _ _ Hbad Heoc).
        cbn [flat_map]. intros ->. exists s2. split; [reflexivity|exact Hrd12].
      + destruct (chain_of (s_disk s) v (fat_entry (s_disk s) v c) f) as [l|] eqn:Hrest; [|discriminate].
        inversion Hch; subst l'.
        destruct (chain_of_head _ _ _ _ _ Hrest) as (Q1 & _ & _).
        rewrite (next_result_link _ _ Hbad Heoc Q1).
        assert (Hvi2 : nth_error (s_vols s2) vi = Some v) by (apply (same_mgr_vol s s2); [exact Hm2|exact Hvi]).
        assert (Hrest2 : chain_of (s_disk s2) v (fat_entry (s_disk s) v c) f = Some l)
          by (rewrite Hd2; exact Hrest).
        specialize (IH (fat_entry (s_disk s) v c) s2 l Hvi2 Hnf2 Hc2 Hrest2). rewrite Hd2 in IH.
        destruct (stop_at (s_disk s) (flat_map (cluster_blocks v) l)) as [[blk x]|].
        * exact (stops_after _ _ _ _ _ Hrd12 IH).
        * intros Hg. exact (passes_after _ _ _ Hrd12 (IH Hg)).
  Qed.

  Lemma walk_dir_root16_stop vi v grow : vol_ok v -> v_fat32 v = false ->
    forall fuel s, nth_error (s_vols s) vi = Some v -> no_faults s -> cache_ok s ->
    match stop_at (s_disk s) (root16_blocks v) with
    | Some (blk, x) => stops s (walk_dir (S fuel) vi CL_ROOT grow body s) blk x
    | None => passes s (walk_dir (S fuel) vi CL_ROOT grow body s)
    end.
  Proof.
    intros Hv H16 fuel s Hvi Hnf Hc.
    cbn [walk_dir].
    rewrite (bind_ok _ _ _ _ _ (get_vol_some vi v s Hvi)).
    pose proof (vo_root v Hv H16) as Hroot.
    assert (Hcb : cluster_to_block v CL_ROOT s = (Ok (v_lba v + v_root_block v), s)).
    { unfold cluster_to_block. rewrite H16. rewrite N.eqb_refl. apply add32_ok. lia. }
    rewrite (bind_ok _ _ _ _ _ Hcb). rewrite H16, N.eqb_refl. cbn [negb andb]. unfold for_blocks. rewrite bind_bind.
    rewrite (bind_ok _ _ _ _ _ (add32_ok _ _ s Hroot)).
    pose proof (for_blocks_from_stop (N.to_nat (from_bytes (v_root_entries v * 32)))
                  (v_lba v + v_root_block v) s Hnf Hc) as Hfb.
    fold (root16_blocks v) in Hfb.
    destruct (stop_at (s_disk s) (root16_blocks v)) as [[blk x]|].
    - destruct Hfb as (s0 & r & s' & E & H0 & HQ). rewrite (bind_ok _ _ _ _ _ E).
      exists s0, r, s'. split; [reflexivity|]. split; assumption.
    - destruct Hfb as (s1 & E & Hrd1). rewrite (bind_ok _ _ _ _ _ E).
      exists s1. split; [reflexivity|exact Hrd1].
  Qed.

  Lemma walk_dir_stop vi v dc grow s bl :
    nth_error (s_vols s) vi = Some v -> vol_ok v -> no_faults s -> cache_ok s ->
    dir_blocks (s_disk s) v dc = Some bl ->
    match stop_at (s_disk s) bl with
    | Some (blk, x) => stops s (walk_dir (walk_fuel v) vi (dir_first_cluster v dc) grow body s) blk x
    | None => grow = false -> passes s (walk_dir (walk_fuel v) vi (dir_first_cluster v dc) grow body s)
    end.
  Proof.
    intros Hvi Hv Hnf Hc Hbl. unfold dir_blocks in Hbl.
    destruct (negb (v_fat32 v) && (dc =? CL_ROOT)) eqn:Hroot.
    - apply andb_true_iff in Hroot. destruct Hroot as [H16 Hdc].
      apply negb_true_iff in H16. apply N.eqb_eq in Hdc. subst dc. inversion Hbl; subst bl.
      unfold dir_first_cluster, walk_fuel. rewrite H16. cbn [andb].
      replace (N.to_nat (v_clusters v) + 4)%nat with (S (N.to_nat (v_clusters v) + 3)) by lia.
      pose proof (walk_dir_root16_stop vi v grow Hv H16 (N.to_nat (v_clusters v) + 3) s Hvi Hnf Hc) as H.
      destruct (stop_at (s_disk s) (root16_blocks v)) as [[blk x]|]; [exact H|intros _; exact H].
    - destruct (chain_of (s_disk s) v (dir_first_cluster v dc) (walk_fuel v)) as [ch|] eqn:Hch;
        [|discriminate].
      inversion Hbl; subst bl. apply walk_dir_chain_stop; assumption.
  Qed.
End StopWalk.

(* ---- the tables and limits of the manager, without the clock (a create reads the clock) ---- *)
Definition same_tables (s s' : st) : Prop :=
  s_vols s' = s_vols s /\ s_dirs s' = s_dirs s /\ s_files s' = s_files s /\
  s_next_id s' = s_next_id s /\ s_lock s' = s_lock s /\
  s_maxv s' = s_maxv s /\ s_maxd s' = s_maxd s /\ s_maxf s' = s_maxf s /\ s_faults s' = s_faults s.

Lemma same_mgr_tables s s' : same_mgr s s' -> same_tables s s' /\ s_clock s' = s_clock s.
Proof.
  intros (A1 & A2 & A3 & A4 & A5 & A6 & A7 & A8 & A9 & A10). unfold same_tables. repeat split; assumption.
Qed.

Lemma same_tables_trans a b c : same_tables a b -> same_tables b c -> same_tables a c.
Proof.
  intros (A1 & A2 & A3 & A4 & A5 & A6 & A7 & A8 & A9) (B1 & B2 & B3 & B4 & B5 & B6 & B7 & B8 & B9).
  unfold same_tables. repeat split; congruence.
Qed.

Lemma In_slots_of d bl t : In t (slots_of d bl) ->
  exists b i, In b bl /\ i < 16 /\ t = (b, i * 32, slot (disk_get d b) i).
Proof.
  intros H. unfold slots_of in H. apply in_flat_map in H. destruct H as (b & Hb & H).
  unfold block_slots in H. apply In_tslots_from in H. destruct H as (j & _ & Hj & ->).
  exists b, j. split; [exact Hb|]. split; [change (N.of_nat 16) with 16 in Hj; lia|reflexivity].
Qed.

Lemma get_timestamp_eq s :
  get_timestamp s = (Ok (clock_ts (s_clock s)), set_s_clock s (s_clock s + 1)).
Proof. reflexivity. Qed.

(* ---- write_new_directory_entry ---- *)
(* "not valid": first byte 0x00 (end marker) or 0xE5 (deleted) *)
Definition nv (t : tslot) : bool := negb (t_is_valid t).

Lemma free_slot_find n b blk : forall i,
  option_map (pair blk) (free_slot n b i) =
  option_map (fun t : tslot => (fst (fst t), snd (fst t) / 32)) (find nv (tslots_from n b blk i)).
Proof.
  induction n as [|n IH]; intros i; cbn [free_slot tslots_from find]; [reflexivity|].
  unfold nv at 1, t_is_valid. cbn [snd]. destruct (is_valid (slot b i)); cbn [negb].
  - apply IH.
  - cbn [option_map fst snd]. rewrite N.div_mul by lia. reflexivity.
Qed.

Definition free_in (d : disk) (blk : N) : option N := free_slot 16 (disk_get d blk) 0.

(* the walk stops at the first slot, in on-disk order over the directory's blocks, that is not valid *)
Lemma stop_at_free d bl :
  stop_at N free_in d bl =
  option_map (fun t : tslot => (fst (fst t), snd (fst t) / 32)) (find nv (slots_of d bl)).
Proof.
  induction bl as [|a bl IH]; [reflexivity|].
  unfold stop_at. cbn [first_some]. rewrite slots_of_cons, find_app_first.
  unfold free_in at 1. rewrite (free_slot_find 16 (disk_get d a) a 0). fold (block_slots d a).
  destruct (find nv (block_slots d a)); [reflexivity|exact IH].
Qed.

Definition create_body (fat32 : bool) (name : list N) (attr fc : N) (blk : N) : M (option dirent) :=
  b <- cache_read blk ;;
  match free_slot 16 b 0 with
  | Some i =>
      ctime <- get_timestamp ;;
      let e := mk_dirent name ctime ctime attr fc 0 blk (i * 32) in
      bytes <- serialize fat32 e ;;
      cache_modify (fun b => set_bytes b (i * 32) bytes) ;;;
      write_back ;;; ret (Some e)
  | None => ret None
  end.

Definition create_post (fat32 : bool) (name : list N) (attr fc : N)
           (blk i : N) (s0 : st) (r : dirent) (s' : st) : Prop :=
  let e := mk_dirent name (clock_ts (s_clock s0)) (clock_ts (s_clock s0)) attr fc 0 blk (i * 32) in
  let new := put_entry fat32 e (disk_get (s_disk s0) blk) in
  r = e /\ s_disk s' = disk_set (s_disk s0) blk new /\
  cache_ok s' /\ no_faults s' /\ s_clock s' = s_clock s0 + 1 /\ same_tables s0 s' /\
  exists l, s_trace s' = DWrite blk new :: l ++ s_trace s0 /\ Forall PrModes.is_read_call l.

Lemma create_body_none fat32 name attr fc blk s :
  no_faults s -> cache_ok s -> free_in (s_disk s) blk = None ->
  exists s', create_body fat32 name attr fc blk s = (Ok None, s') /\ rd_step s s'.
Proof.
  intros Hnf Hc Hg. destruct (cache_read_rd blk s Hnf Hc) as (s1 & Hr & Hrd & _).
  exists s1. split; [|exact Hrd]. unfold create_body. rewrite (bind_ok _ _ _ _ _ Hr).
  unfold free_in in Hg. rewrite Hg. reflexivity.
Qed.

Lemma create_body_some fat32 name attr fc blk s i :
  no_faults s -> cache_ok s -> free_in (s_disk s) blk = Some i ->
  exists r s', create_body fat32 name attr fc blk s = (Ok (Some r), s') /\
               create_post fat32 name attr fc blk i s r s'.
Proof.
  intros Hnf Hc Hg. destruct (cache_read_rd blk s Hnf Hc) as (s1 & Hr & Hrd & Ht & Hcc).
  destruct Hrd as ((Hd1 & Hc1 & Hnf1 & Hm1) & l & Htr & Hl).
  destruct (same_mgr_tables _ _ Hm1) as [Htab Hclk].
  unfold create_body. rewrite (bind_ok _ _ _ _ _ Hr). unfold free_in in Hg. rewrite Hg.
  rewrite (bind_ok _ _ _ _ _ (get_timestamp_eq s1)). cbv zeta. rewrite Hclk.
  set (e := mk_dirent name (clock_ts (s_clock s)) (clock_ts (s_clock s)) attr fc 0 blk (i * 32)).
  set (s2 := set_s_clock s1 (s_clock s + 1)).
  assert (Hts : ts_ok (clock_ts (s_clock s))) by apply ts_cal_ok, clock_ts_cal.
  rewrite (bind_ok _ _ _ _ _ (serialize_ok fat32 e s2 Hts Hts)).
  set (s3 := set_s_cache s2 (set_bytes (s_cache s2) (i * 32) (ser_bytes fat32 e))).
  assert (Hcm : cache_modify (fun b => set_bytes b (i * 32) (ser_bytes fat32 e)) s2 = (Ok tt, s3)) by reflexivity.
  rewrite (bind_ok _ _ _ _ _ Hcm).
  assert (Ht3 : s_tag s3 = Some blk) by exact Ht.
  assert (Hnf3 : no_faults s3) by (apply (no_faults_step s1); [reflexivity|cbn; lia|exact Hnf1]).
  rewrite (bind_ok _ _ _ _ _ (write_back_ok blk s3 Ht3 Hnf3)).
  eexists _, _. split; [reflexivity|].
  assert (Ecache : s_cache s3 = put_entry fat32 e (disk_get (s_disk s) blk)).
  { subst s3 s2. cbn [s_cache set_s_cache set_s_clock]. rewrite Hcc. reflexivity. }
  unfold create_post. fold e. cbv zeta. rewrite <- Ecache.
  split; [reflexivity|].
  split; [subst s3 s2; cbn; rewrite Hd1; reflexivity|].
  split.
  { intros j Hj. cbn in Hj. rewrite Ht in Hj. injection Hj as <-. cbn.
    rewrite disk_get_set_same. reflexivity. }
  split.
  { intros n Hin. cbn in Hin. specialize (Hnf1 n Hin). cbn. lia. }
  split; [reflexivity|].
  split.
  { destruct Htab as (A1 & A2 & A3 & A4 & A5 & A6 & A7 & A8 & A9).
    unfold same_tables. cbn. repeat split; assumption. }
  exists l. split; [cbn; rewrite Htr; reflexivity|exact Hl].
Qed.

Lemma write_new_is vi dc name attr fc :
  write_new_directory_entry vi dc name attr fc =
  (v <- get_vol vi ;;
   r <- walk_dir (walk_fuel v) vi (dir_first_cluster v dc) true (create_body (v_fat32 v) name attr fc) ;;
   match r with Some e => ret e | None => fail NotEnoughSpace end).
Proof. reflexivity. Qed.

(* C02/C04, create: the new entry goes into the FIRST slot, in walk order over the directory's
   blocks, whose first byte is 0x00 or 0xE5; its 32 bytes are the serialization of
   (name, clock, clock, attr, first cluster, size 0); every other slot of every directory block
   and every other block of the device is unchanged; one device write, the last call.
   (Directory with a free slot: the directory does not grow.) *)
Theorem write_new_directory_entry_spec vi v dc name attr fc s bl blk off sl0 :
  nth_error (s_vols s) vi = Some v -> vol_ok v -> no_faults s -> cache_ok s ->
  dir_blocks (s_disk s) v dc = Some bl ->
  find nv (slots_of (s_disk s) bl) = Some (blk, off, sl0) ->
  length name = 11%nat -> length (disk_get (s_disk s) blk) = 512%nat ->
  let e := mk_dirent name (clock_ts (s_clock s)) (clock_ts (s_clock s)) attr fc 0 blk off in
  let bytes := ser_bytes (v_fat32 v) e in
  exists s', write_new_directory_entry vi dc name attr fc s = (Ok e, s') /\
    s_disk s' = disk_set (s_disk s) blk (set_bytes (disk_get (s_disk s) blk) off bytes) /\
    slot_write (s_disk s) (s_disk s') blk (off / 32) bytes /\
    (forall bl', slots_of (s_disk s') bl' = map (upd_slot blk off bytes) (slots_of (s_disk s) bl')) /\
    (forall x, x < off \/ off + 32 <= x ->
       get8 (disk_get (s_disk s') blk) x = get8 (disk_get (s_disk s) blk) x) /\
    cache_ok s' /\ no_faults s' /\ s_clock s' = s_clock s + 1 /\ same_tables s s' /\
    exists l, s_trace s' = DWrite blk (disk_get (s_disk s') blk) :: l ++ s_trace s /\
              Forall PrModes.is_read_call l.
Proof.
  intros Hvi Hv Hnf Hc Hbl Hfind Hname Hlen e bytes.
  pose proof (find_some _ _ Hfind) as [Hin _].
  apply In_slots_of in Hin. destruct Hin as (b & i & Hb & Hi & Et).
  injection Et as Eb Eo Es. subst b.
  pose proof (walk_dir_stop dirent N free_in (create_body (v_fat32 v) name attr fc)
                (create_post (v_fat32 v) name attr fc)
                (create_body_none (v_fat32 v) name attr fc)
                (fun blk0 s0 x => create_body_some (v_fat32 v) name attr fc blk0 s0 x)
                vi v dc true s bl Hvi Hv Hnf Hc Hbl) as Hw.
  rewrite stop_at_free, Hfind in Hw. cbn [option_map fst snd] in Hw.
  destruct Hw as (s0 & r & s' & Erun & Hrd & HQ).
  destruct Hrd as ((Hd0 & _ & _ & Hm0) & l0 & Htr0 & Hl0).
  destruct (same_mgr_tables _ _ Hm0) as [Htab0 Hclk0].
  unfold create_post in HQ. cbv zeta in HQ. rewrite Hclk0, Hd0 in HQ.
  replace (off / 32 * 32) with off in HQ by lia. fold e in HQ.
  destruct HQ as (Er & Hd' & Hc' & Hnf' & Hclk' & Htab' & l & Htr & Hl).
  exists s'. split.
  { rewrite write_new_is. rewrite (bind_ok _ _ _ _ _ (get_vol_some vi v s Hvi)).
    rewrite (bind_ok _ _ _ _ _ Erun). rewrite Er. reflexivity. }
  assert (Hoff : e_offset e + 32 <= 512) by (cbn [e_offset e]; lia).
  destruct (put_entry_slots (v_fat32 v) e (disk_get (s_disk s) blk) Hlen Hname Hoff
              ltac:(cbn [e_offset e]; lia)) as (_ & Hslot & Hoth & Hbytes & _).
  unfold put_entry in *. cbn [e_offset e] in *. fold bytes in Hd', Hslot, Hoth, Hbytes, Htr.
  assert (Hnew : disk_get (s_disk s') blk = set_bytes (disk_get (s_disk s) blk) off bytes)
    by (rewrite Hd'; apply disk_get_set_same).
  assert (Hsw : slot_write (s_disk s) (s_disk s') blk (off / 32) bytes).
  { split; [intros j Hj; rewrite Hd'; apply disk_get_set_other; congruence|].
    rewrite Hnew. split; [exact Hslot|exact Hoth]. }
  split; [exact Hd'|]. split; [exact Hsw|].
  split.
  { intros bl'. rewrite (slots_of_upd _ _ _ _ _ bl' Hsw).
    replace (off / 32 * 32) with off by lia. reflexivity. }
  split; [rewrite Hnew; exact Hbytes|].
  split; [exact Hc'|]. split; [exact Hnf'|]. split; [exact Hclk'|].
  split; [exact (same_tables_trans _ _ _ Htab0 Htab')|].
  exists (l ++ l0). split; [rewrite Hnew, Htr, Htr0, app_assoc; reflexivity|apply Forall_app; auto].
Qed.

(* when the slot taken was the end marker, the slot after it is not written: it stays what it
   was (0x00 when the directory was well formed) *)
Corollary create_keeps_following_slots d d' blk i bytes k :
  slot_write d d' blk i bytes -> k <> i -> slot (disk_get d' blk) k = slot (disk_get d blk) k.
Proof. intros (_ & _ & H) Hk. apply H. exact Hk. Qed.

(* ---- delete_directory_entry ---- *)
Definition del_in (name : list N) (d : disk) (blk : N) : option N :=
  delete_in_slots 16 (disk_get d blk) 0 name.

Lemma delete_in_slots_find n b blk name : forall i,
  option_map (pair blk) (delete_in_slots n b i name) =
  option_map (fun t : tslot => (fst (fst t), snd (fst t)))
             (find (t_matches name) (before_end_all (tslots_from n b blk i))).
Proof.
  induction n as [|n IH]; intros i; cbn [delete_in_slots tslots_from before_end_all]; [reflexivity|].
  change (t_is_end (blk, i * 32, slot b i)) with (is_end (slot b i)).
  destruct (is_end (slot b i)); [reflexivity|]. cbn [find].
  change (t_matches name (blk, i * 32, slot b i)) with (matches (slot b i) name).
  destruct (matches (slot b i) name); [reflexivity|apply IH].
Qed.

Lemma stop_at_del name d bl :
  stop_at N (del_in name) d bl =
  option_map (fun t : tslot => (fst (fst t), snd (fst t))) (find (t_matches name) (live_in_blocks d bl)).
Proof.
  induction bl as [|a bl IH]; [reflexivity|].
  unfold stop_at. cbn [first_some live_in_blocks flat_map]. rewrite find_app_first.
  unfold del_in at 1. rewrite (delete_in_slots_find 16 (disk_get d a) a name 0). fold (block_slots d a).
  destruct (find (t_matches name) (before_end_all (block_slots d a))); [reflexivity|exact IH].
Qed.

Definition delete_body (name : list N) (blk : N) : M (option unit) :=
  b <- cache_read blk ;;
  match delete_in_slots 16 b 0 name with
  | Some start => cache_modify (fun b => set_bytes b start [229]) ;;; write_back ;;; ret (Some tt)
  | None => ret None
  end.

Definition delete_post (blk start : N) (s0 : st) (r : unit) (s' : st) : Prop :=
  let new := set_bytes (disk_get (s_disk s0) blk) start [229] in
  s_disk s' = disk_set (s_disk s0) blk new /\ cache_ok s' /\ no_faults s' /\ same_mgr s0 s' /\
  exists l, s_trace s' = DWrite blk new :: l ++ s_trace s0 /\ Forall PrModes.is_read_call l.

Lemma delete_body_none name blk s :
  no_faults s -> cache_ok s -> del_in name (s_disk s) blk = None ->
  exists s', delete_body name blk s = (Ok None, s') /\ rd_step s s'.
Proof.
  intros Hnf Hc Hg. destruct (cache_read_rd blk s Hnf Hc) as (s1 & Hr & Hrd & _).
  exists s1. split; [|exact Hrd]. unfold delete_body. rewrite (bind_ok _ _ _ _ _ Hr).
  unfold del_in in Hg. rewrite Hg. reflexivity.
Qed.

Lemma delete_body_some name blk s start :
  no_faults s -> cache_ok s -> del_in name (s_disk s) blk = Some start ->
  exists r s', delete_body name blk s = (Ok (Some r), s') /\ delete_post blk start s r s'.
Proof.
  intros Hnf Hc Hg. destruct (cache_read_rd blk s Hnf Hc) as (s1 & Hr & Hrd & Ht & Hcc).
  destruct Hrd as ((Hd1 & Hc1 & Hnf1 & Hm1) & l & Htr & Hl).
  unfold delete_body. rewrite (bind_ok _ _ _ _ _ Hr). unfold del_in in Hg. rewrite Hg.
  set (s3 := set_s_cache s1 (set_bytes (s_cache s1) start [229])).
  assert (Hcm : cache_modify (fun b => set_bytes b start [229]) s1 = (Ok tt, s3)) by reflexivity.
  rewrite (bind_ok _ _ _ _ _ Hcm).
  assert (Ht3 : s_tag s3 = Some blk) by exact Ht.
  assert (Hnf3 : no_faults s3) by (apply (no_faults_step s1); [reflexivity|cbn; lia|exact Hnf1]).
  rewrite (bind_ok _ _ _ _ _ (write_back_ok blk s3 Ht3 Hnf3)).
  exists tt. eexists. split; [reflexivity|].
  assert (Ecache : s_cache s3 = set_bytes (disk_get (s_disk s) blk) start [229])
    by (subst s3; cbn [s_cache set_s_cache]; rewrite Hcc; reflexivity).
  unfold delete_post. cbv zeta. rewrite <- Ecache.
  split; [subst s3; cbn; rewrite Hd1; reflexivity|].
  split.
  { intros j Hj. cbn in Hj. rewrite Ht in Hj. injection Hj as <-. cbn.
    rewrite disk_get_set_same. reflexivity. }
  split.
  { intros n Hin. cbn in Hin. specialize (Hnf1 n Hin). cbn. lia. }
  split.
  { destruct Hm1 as (A1 & A2 & A3 & A4 & A5 & A6 & A7 & A8 & A9 & A10). unfold same_mgr. cbn.
    repeat split; assumption. }
  exists l. split; [cbn; rewrite Htr; reflexivity|exact Hl].
Qed.

Lemma delete_is vi dc name :
  delete_directory_entry vi dc name =
  (v <- get_vol vi ;;
   r <- walk_dir (walk_fuel v) vi (dir_first_cluster v dc) false (delete_body name) ;;
   match r with Some _ => ret tt | None => fail NotFound end).
Proof. reflexivity. Qed.

(* marking the first byte of a slot *)
Lemma slot_set_first b i x : (N.to_nat (i * 32) + 32 <= length b)%nat ->
  slot (set_bytes b (i * 32) [x]) i = set_bytes (slot b i) 0 [x].
Proof.
  intros H.
  assert (L1 : length (slot (set_bytes b (i * 32) [x]) i) = 32%nat)
    by (apply slot_length; rewrite set_bytes_length; cbn [length]; lia).
  assert (L0 : length (slot b i) = 32%nat) by (apply slot_length; exact H).
  assert (L2 : length (set_bytes (slot b i) 0 [x]) = 32%nat)
    by (rewrite set_bytes_length; [exact L0|rewrite L0; cbn; lia]).
  apply (nth_ext _ _ 0 0); [congruence|]. intros n Hn. rewrite L1 in Hn.
  rewrite nth_slot by exact Hn.
  unfold set_bytes at 2. change (N.to_nat 0) with 0%nat. cbn [firstn app length Nat.add].
  destruct n as [|m].
  - change (N.of_nat 0) with 0. cbn [nth].
    pose proof (get8_set_bytes_inside b (i * 32) [x] 0 ltac:(cbn [length]; lia) ltac:(cbn; lia)) as E.
    exact E.
  - cbn [nth]. rewrite nth_skipn_add.
    rewrite get8_set_bytes_outside by (cbn [length]; lia).
    symmetry. apply nth_slot. lia.
Qed.

(* C02/C04, delete: the first slot - among the slots before their block's end marker, in
   on-disk order - whose 11 name bytes match gets first byte 0xE5; no other byte of the device
   changes; one device write, the last call.  No such slot: NotFound, and only read calls. *)
Theorem delete_directory_entry_spec vi v dc name s bl :
  nth_error (s_vols s) vi = Some v -> vol_ok v -> no_faults s -> cache_ok s ->
  dir_blocks (s_disk s) v dc = Some bl ->
  match find (t_matches name) (live_in_blocks (s_disk s) bl) with
  | Some (blk, off, sl0) =>
      length (disk_get (s_disk s) blk) = 512%nat ->
      let old := disk_get (s_disk s) blk in
      exists s', delete_directory_entry vi dc name s = (Ok tt, s') /\
        s_disk s' = disk_set (s_disk s) blk (set_bytes old off [229]) /\
        (forall j, j <> blk -> disk_get (s_disk s') j = disk_get (s_disk s) j) /\
        get8 (disk_get (s_disk s') blk) off = 229 /\
        (forall x, x <> off -> get8 (disk_get (s_disk s') blk) x = get8 old x) /\
        slot_write (s_disk s) (s_disk s') blk (off / 32) (set_bytes sl0 0 [229]) /\
        is_valid (slot (disk_get (s_disk s') blk) (off / 32)) = false /\
        cache_ok s' /\ no_faults s' /\ same_mgr s s' /\
        exists l, s_trace s' = DWrite blk (disk_get (s_disk s') blk) :: l ++ s_trace s /\
                  Forall PrModes.is_read_call l
  | None =>
      exists s', delete_directory_entry vi dc name s = (Err NotFound, s') /\ rd_step s s'
  end.
Proof.
  intros Hvi Hv Hnf Hc Hbl.
  pose proof (walk_dir_stop unit N (del_in name) (delete_body name) delete_post
                (delete_body_none name) (delete_body_some name)
                vi v dc false s bl Hvi Hv Hnf Hc Hbl) as Hw.
  rewrite stop_at_del in Hw.
  destruct (find (t_matches name) (live_in_blocks (s_disk s) bl)) as [[[blk off] sl0]|] eqn:Hfind.
  - cbn [option_map fst snd] in Hw. intros Hlen old.
    pose proof (find_some _ _ Hfind) as [Hin _].
    apply In_live in Hin. destruct Hin as (b & i & Hb & Hi & Et & _).
    injection Et as Eb Eo Es. subst b.
    destruct Hw as (s0 & r & s' & Erun & Hrd & HQ).
    destruct Hrd as ((Hd0 & _ & _ & Hm0) & l0 & Htr0 & Hl0).
    unfold delete_post in HQ. cbv zeta in HQ. rewrite Hd0 in HQ. fold old in HQ.
    destruct HQ as (Hd' & Hc' & Hnf' & Hm' & l & Htr & Hl).
    assert (Hnew : disk_get (s_disk s') blk = set_bytes old off [229])
      by (rewrite Hd'; apply disk_get_set_same).
    assert (Hfit : (N.to_nat off + length [229] <= length old)%nat) by (subst old; cbn [length]; lia).
    exists s'. split.
    { rewrite delete_is. rewrite (bind_ok _ _ _ _ _ (get_vol_some vi v s Hvi)).
      rewrite (bind_ok _ _ _ _ _ Erun). reflexivity. }
    split; [exact Hd'|].
    assert (Hfr : forall j, j <> blk -> disk_get (s_disk s') j = disk_get (s_disk s) j)
      by (intros j Hj; rewrite Hd'; apply disk_get_set_other; congruence).
    split; [exact Hfr|].
    split.
    { rewrite Hnew.
      pose proof (get8_set_bytes_inside old off [229] 0 Hfit ltac:(cbn; lia)) as E.
      change (N.of_nat 0) with 0 in E. rewrite N.add_0_r in E. exact E. }
    split.
    { intros x Hx. rewrite Hnew. apply get8_set_bytes_outside; [exact Hfit|]. cbn [length]. lia. }
    assert (Ei : off / 32 = i) by lia.
    assert (Hslot : slot (disk_get (s_disk s') blk) i = set_bytes sl0 0 [229]).
    { rewrite Hnew, Eo, Es. apply slot_set_first. subst old. lia. }
    split.
    { rewrite Ei. split; [exact Hfr|]. split; [exact Hslot|].
      intros k Hk. rewrite Hnew. apply slot_set_bytes_other; [exact Hfit|]. cbn [length]. lia. }
    split.
    { rewrite Ei. apply deleted_not_valid. rewrite get8_slot by lia.
      rewrite N.add_0_r, <- Eo, Hnew.
      pose proof (get8_set_bytes_inside old off [229] 0 Hfit ltac:(cbn; lia)) as E.
      change (N.of_nat 0) with 0 in E. rewrite N.add_0_r in E. exact E. }
    split; [exact Hc'|]. split; [exact Hnf'|]. split; [exact (same_mgr_trans _ _ _ Hm0 Hm')|].
    exists (l ++ l0). split; [rewrite Hnew, Htr, Htr0, app_assoc; reflexivity|apply Forall_app; auto].
  - cbn [option_map] in Hw. destruct (Hw eq_refl) as (s' & Erun & Hrd).
    exists s'. split; [|exact Hrd].
    rewrite delete_is. rewrite (bind_ok _ _ _ _ _ (get_vol_some vi v s Hvi)).
    rewrite (bind_ok _ _ _ _ _ Erun). reflexivity.
Qed.

(* ---- 5 again: the frame for create and delete, in one sentence each ---- *)
Corollary C02_untouched_frame_create vi v dc name attr fc s bl blk off sl0 :
  nth_error (s_vols s) vi = Some v -> vol_ok v -> no_faults s -> cache_ok s ->
  dir_blocks (s_disk s) v dc = Some bl ->
  find nv (slots_of (s_disk s) bl) = Some (blk, off, sl0) ->
  length name = 11%nat -> length (disk_get (s_disk s) blk) = 512%nat ->
  exists e s' new, write_new_directory_entry vi dc name attr fc s = (Ok e, s') /\
    slot_write (s_disk s) (s_disk s') blk (off / 32) new.
Proof.
  intros Hvi Hv Hnf Hc Hbl Hfind Hname Hlen.
  destruct (write_new_directory_entry_spec vi v dc name attr fc s bl blk off sl0
              Hvi Hv Hnf Hc Hbl Hfind Hname Hlen) as (s' & Hrun & _ & Hsw & _).
  eexists _, s', _. split; [exact Hrun|exact Hsw].
Qed.

Corollary C02_untouched_frame_delete vi v dc name s bl blk off sl0 :
  nth_error (s_vols s) vi = Some v -> vol_ok v -> no_faults s -> cache_ok s ->
  dir_blocks (s_disk s) v dc = Some bl ->
  find (t_matches name) (live_in_blocks (s_disk s) bl) = Some (blk, off, sl0) ->
  length (disk_get (s_disk s) blk) = 512%nat ->
  exists s', delete_directory_entry vi dc name s = (Ok tt, s') /\
    slot_write (s_disk s) (s_disk s') blk (off / 32) (set_bytes sl0 0 [229]) /\
    (forall x, x <> off -> get8 (disk_get (s_disk s') blk) x = get8 (disk_get (s_disk s) blk) x).
Proof.
  intros Hvi Hv Hnf Hc Hbl Hfind Hlen.
  pose proof (delete_directory_entry_spec vi v dc name s bl Hvi Hv Hnf Hc Hbl) as H.
  rewrite Hfind in H. destruct (H Hlen) as (s' & Hrun & _ & _ & _ & Hb & Hsw & _).
  exists s'. split; [exact Hrun|]. split; [exact Hsw|exact Hb].
Qed.

(* C06, the repaired long-name defect at the level of the medium: a delete that succeeds set to 0xE5
   the first byte of the slot the specification's lookup names, that slot is no long-name
   fragment, and nothing else changed (PrDir.C06_delete_never_lfn is the hypothesis-free form) *)
Corollary C06_delete_slot_not_lfn vi v dc name s bl s' :
  nth_error (s_vols s) vi = Some v -> vol_ok v -> no_faults s -> cache_ok s ->
  dir_blocks (s_disk s) v dc = Some bl -> (forall j, length (disk_get (s_disk s) j) = 512%nat) ->
  delete_directory_entry vi dc name s = (Ok tt, s') ->
  exists blk off sl0, find (t_matches name) (live_in_blocks (s_disk s) bl) = Some (blk, off, sl0) /\
    is_lfn (get8 sl0 11) = false /\ firstn 11 sl0 = name /\
    s_disk s' = disk_set (s_disk s) blk (set_bytes (disk_get (s_disk s) blk) off [229]).
Proof.
  intros Hvi Hv Hnf Hc Hbl Hwf Hdel.
  pose proof (delete_directory_entry_spec vi v dc name s bl Hvi Hv Hnf Hc Hbl) as H.
  destruct (find (t_matches name) (live_in_blocks (s_disk s) bl)) as [[[blk off] sl0]|] eqn:Hfind.
  - destruct (H (Hwf blk)) as (s'' & Hrun & Hd & _). rewrite Hrun in Hdel. injection Hdel as <-.
    exists blk, off, sl0. split; [reflexivity|].
    destruct (find_matches_not_lfn _ _ _ Hfind) as [A B]. cbn [snd] in A, B.
    split; [exact A|]. split; [exact B|exact Hd].
  - destruct H as (s'' & Hrun & _). rewrite Hrun in Hdel. discriminate Hdel.
Qed.

(* ---- close_file = flush_file, then the handle is dropped: the device is as after the flush ---- *)
Theorem close_file_after_flush s h fi f s' :
  resolves s h fi f -> flush_file h s = (Ok tt, s') -> same_mgr s s' ->
  close_file h s = (Ok tt, set_s_files s' (swap_remove (s_files s') fi)).
Proof.
  intros (Hl & Hf & _) Hrun (_ & _ & Hfiles & _ & _ & Hlock & _).
  unfold close_file. rewrite (bind_ok _ _ _ _ _ (try_ok _ _ _ _ Hrun)).
  rewrite <- Hfiles in Hf.
  unfold locked, get_file_by_id, bind, get, modify, ret. rewrite Hlock, Hl, Hf. reflexivity.
Qed.

(* ================================================================== the hypotheses are satisfiable *)
(* PrDir's example volume: FAT16, directory in clusters 2 -> 3 (blocks 30..33), one entry "A" in
   slot 0 of block 30 whose creation date word on the medium is 0x0000.  A dirty handle on that
   file whose in-memory creation time is the decoded value of those raw words. *)
Definition exe_entry : dirent := mk_dirent exd_name (clock_ts 3) (ts_from_fat 0 0) 32 5 3 30 0.
Definition exe_file : fileinfo := mk_fileinfo 7 0 0 5 0 ReadWriteAppend exe_entry true.
Definition exe_state : st := set_s_files exd_state [exe_file].

Lemma exd_not_fat j : 12 <= j -> ~ fat_area exd_vol j.
Proof.
  intros Hj (c & Hc & E). unfold fat_w in E. cbn [exd_vol v_clusters v_lba v_fat_start v_fat32] in *. lia.
Qed.

Example flush_example :
  no_faults exe_state /\ cache_ok exe_state /\ vol_ok exd_vol /\
  resolves exe_state 7 0 exe_file /\ f_dirty exe_file = true /\ file_vol exe_state exe_file 0 exd_vol /\
  info_step exe_state 0 exd_vol exe_state /\
  (e_size exe_entry = 0 \/ e_cluster exe_entry <> 0) /\
  ts_ok (e_ctime exe_entry) /\ ts_ok (e_mtime exe_entry) /\ length (e_name exe_entry) = 11%nat /\
  is_lfn (e_attr exe_entry) = false /\
  dir_blocks (s_disk exe_state) exd_vol 2 = Some [30; 31; 32; 33] /\
  (exists sl0, find (t_matches (e_name exe_entry)) (live_in_blocks (s_disk exe_state) [30; 31; 32; 33])
               = Some (e_block exe_entry, e_offset exe_entry, sl0)) /\
  length (disk_get (s_disk exe_state) (e_block exe_entry)) = 512%nat /\
  ~ fat_area exd_vol (e_block exe_entry) /\
  (v_fat32 exd_vol = true -> ~ fat_area exd_vol (v_info exd_vol) /\ ~ In (v_info exd_vol) [30; 31; 32; 33]).
Proof.
  assert (Hnf : no_faults exe_state) by (intros n H; destruct H).
  assert (Hc : cache_ok exe_state) by (intros i H; discriminate H).
  split; [exact Hnf|]. split; [exact Hc|]. split; [apply dir_example|].
  split; [repeat split; reflexivity|]. split; [reflexivity|]. split; [split; reflexivity|].
  split; [apply info_step_none; [exact Hnf|exact Hc|reflexivity|left; reflexivity]|].
  split; [right; discriminate|].
  split; [apply ts_from_fat_ok|]. split; [apply ts_cal_ok, clock_ts_cal|].
  split; [reflexivity|]. split; [vm_compute; reflexivity|]. split; [vm_compute; reflexivity|].
  split; [eexists; vm_compute; reflexivity|].
  split; [vm_compute; reflexivity|].
  split; [apply exd_not_fat; vm_compute; discriminate|]. intros H; discriminate H.
Qed.

(* and the model runs there.  Finding D24 on the model: the in-memory creation time is exactly
   what get_entry decodes from the slot (raw date word 0x0000), yet after the flush the date word
   on the medium is 0x0021 - the creation time of a file changed although nobody set it.
   Everything else is as C02_flush_then_lookup says: size 3 and cluster 5 are found again. *)
Example C02_zero_cdate_refuted_flush :
  e_ctime (get_entry false (slot (disk_get (s_disk exe_state) 30) 0) 30 0) = e_ctime exe_entry /\
  match flush_file 7 exe_state with
  | (Ok tt, s') =>
      le16 (disk_get (s_disk exe_state) 30) 16 = 0 /\ le16 (disk_get (s_disk s') 30) 16 = 33 /\
      le32 (disk_get (s_disk s') 30) 28 = 3 /\ le16 (disk_get (s_disk s') 30) 26 = 5 /\
      length (s_trace s') = 2%nat /\
      fst (find_directory_entry 0 2 exd_name s') = Ok (entry_readback false exe_entry 30 0) /\
      slot (disk_get (s_disk s') 30) 1 = slot (disk_get (s_disk exe_state) 30) 1
  | _ => False
  end.
Proof. split; [vm_compute; reflexivity|]. vm_compute. repeat split; reflexivity. Qed.

Definition exe_new_name : list N := 66 :: repeat 32 10.

Example create_example :
  (exists sl0, find nv (slots_of (s_disk exd_state) [30; 31; 32; 33]) = Some (30, 32, sl0)) /\
  length exe_new_name = 11%nat /\ length (disk_get (s_disk exd_state) 30) = 512%nat /\
  match write_new_directory_entry 0 2 exe_new_name 32 0 exd_state with
  | (Ok e, s') =>
      e_block e = 30 /\ e_offset e = 32 /\ e_ctime e = clock_ts 0 /\
      slot (disk_get (s_disk s') 30) 0 = slot (disk_get (s_disk exd_state) 30) 0 /\
      slot (disk_get (s_disk s') 30) 2 = repeat 0 32 /\
      fst (find_directory_entry 0 2 exe_new_name s') = Ok (entry_readback false e 30 32) /\
      fst (find_directory_entry 0 2 exd_name s') = fst (find_directory_entry 0 2 exd_name exd_state)
  | _ => False
  end.
Proof.
  split; [eexists; vm_compute; reflexivity|]. split; [reflexivity|]. split; [vm_compute; reflexivity|].
  vm_compute. repeat split; reflexivity.
Qed.

Example delete_example :
  (exists sl0, find (t_matches exd_name) (live_in_blocks (s_disk exd_state) [30; 31; 32; 33]) = Some (30, 0, sl0)) /\
  match delete_directory_entry 0 2 exd_name exd_state with
  | (Ok tt, s') =>
      get8 (disk_get (s_disk s') 30) 0 = 229 /\ get8 (disk_get (s_disk s') 30) 1 = 32 /\
      fst (find_directory_entry 0 2 exd_name s') = Err NotFound /\
      fst (delete_directory_entry 0 2 exd_name s') = Err NotFound
  | _ => False
  end.
Proof. split; [eexists; vm_compute; reflexivity|]. vm_compute. repeat split; reflexivity. Qed.

(* a calendar-range timestamp and an entry for the codec theorems *)
Example codec_example :
  ts_cal (clock_ts 1234567) /\ length (e_name exe_entry) = 11%nat /\
  Forall (fun x => x < 256) (e_name exe_entry) /\ e_attr exe_entry < 256 /\
  serialize false exe_entry exe_state = (Ok (ser_bytes false exe_entry), exe_state) /\
  length (ser_bytes true exe_entry) = 32%nat /\
  e_size (get_entry true (ser_bytes true exe_entry) 30 0) = 3 /\
  get_entry true (ser_bytes true (set_e_attr (set_e_cluster exe_entry 0) 16)) 30 0
    = set_e_cluster (entry_readback true (set_e_attr exe_entry 16) 30 0) CL_ROOT.
Proof.
  split; [apply clock_ts_cal|]. split; [reflexivity|].
  split; [vm_compute; repeat constructor|]. split; [reflexivity|].
  split; [apply serialize_ok; [apply ts_from_fat_ok|apply ts_cal_ok, clock_ts_cal]|].
  split; [reflexivity|]. split; vm_compute; reflexivity.
Qed.

(* ================================================================== assumptions *)
Print Assumptions ts_to_fat_ok.
Print Assumptions ts_readback_value.
Print Assumptions C02_ts_roundtrip.
Print Assumptions C02_clock_ts_roundtrip.
Print Assumptions C02_ctime_stable_step.
Print Assumptions C02_zero_cdate_refuted.
Print Assumptions serialize_ok.
Print Assumptions ser_bytes_layout.
Print Assumptions C02_codec_roundtrip.
Print Assumptions C02_codec_roundtrip_fields.
Print Assumptions write_entry_to_disk_spec.
Print Assumptions put_entry_slots.
Print Assumptions flush_file_clean.
Print Assumptions flush_file_spec.
Print Assumptions flush_file_spec_plain.
Print Assumptions info_step_fat32.
Print Assumptions slots_of_upd.
Print Assumptions live_upd.
Print Assumptions C02_flush_then_lookup.
Print Assumptions C06_delete_slot_not_lfn.
Print Assumptions C02_flush_ctime_bytes.
Print Assumptions C02_untouched_frame_step.
Print Assumptions C02_untouched_frame_flush.
Print Assumptions walk_dir_stop.
Print Assumptions write_new_directory_entry_spec.
Print Assumptions delete_directory_entry_spec.
Print Assumptions C02_untouched_frame_create.
Print Assumptions C02_untouched_frame_delete.
Print Assumptions close_file_after_flush.
Print Assumptions C02_zero_cdate_refuted_flush.
