(* PROOFS: `step_fault` (PrFaultDef) assembled from the generic clauses - for every operation whose step
   is a prefix run (`step_fault_pfxG`: OpenFile, Flush, Delete directly; Write / IoWrite / CloseFile once
   their pfxG is proved), for the operations that never call the device (unreachable) and for the
   operations that never write (clauses a-d; the retry clause per operation). *)
From Coq Require Import NArith ZArith List Bool Lia Arith FMapPositive.
From SdFs Require Import FsTypes FsBase FsFat FsMgr FsLemmas PrBase PrAllocEffect PrChain PrFault PrGlobalDef.
From SdFs Require PrHandles PrCrash PrGlobal PrCrashAll PrGlobalWrite PrGlobalOpen PrCrashDef3 PrModes.
From SdFs Require Import PrFault2 PrCrashDef PrCrashDef2 PrCrashDef4 PrFaultDef PrFaultDef2 PrFaultDef3 PrFaultDef4.
Import ListNotations.
Open Scope N_scope.

(* ================================================================== 1. prefix runs *)
(* everything but the retry clauses, from `pfxG T (step o)` *)
Theorem step_fault_pfxG (T : outcome res -> Prop) fsz vid o :
  pfxG T (step o) -> PrFault.is_mkdir o = false -> not_close_file o ->
  retry_op o = false -> read_op o = false -> step_fault fsz vid o.
Proof.
  intros Hp Hm Hn Hr Hrd s i r s' v Hinv Hid Hok Hv E Hreach.
  destruct (fault_err o Hm s i r s' E Hreach) as (e & ->).
  constructor.
  - eexists; reflexivity.
  - exact (fault_tables o s i e s' (fs_inv_lock _ _ _ Hinv) Hid Hn E).
  - exact (fault_crash fsz vid o Hp s i _ s' v Hinv Hid Hok Hv E).
  - exact (fault_keep fsz vid o Hp s i _ s' v Hinv Hid Hok Hv E).
  - rewrite Hr. discriminate.
  - rewrite Hrd. discriminate.
Qed.

Theorem step_fault_OpenFile fsz vid d name md : step_fault fsz vid (OpenFile d name md).
Proof.
  apply (step_fault_pfxG (fun r => r = Err DeviceError)); try reflexivity; try exact I.
  apply pfxG_of_pfx, pfx_step_prop. reflexivity.
Qed.
Theorem step_fault_Flush fsz vid h : step_fault fsz vid (Flush h).
Proof.
  apply (step_fault_pfxG (fun r => r = Err DeviceError)); try reflexivity; try exact I.
  apply pfxG_of_pfx, pfx_step_prop. reflexivity.
Qed.
Theorem step_fault_Delete fsz vid d name : step_fault fsz vid (Delete d name).
Proof.
  apply (step_fault_pfxG (fun r => r = Err DeviceError)); try reflexivity; try exact I.
  apply pfxG_of_pfx, pfx_step_prop. reflexivity.
Qed.

(* ================================================================== 2. calls that never touch the device *)
Definition no_dev_op (o : op) : bool :=
  match o with
  | OpenRoot _ | CloseDir _ | HasOpen | Length _ | Offset _ | Eof _
  | SeekStart _ _ | SeekCur _ _ | SeekEnd _ _ | IoSeek _ _ _ => true
  | _ => false
  end.

Lemma never_fails o : no_dev_op o = true -> rep (fun _ => False) false (step o).
Proof.
  destruct o; try discriminate; intros _; cbn [step]; apply rep_lift.
  - apply rep_open_root_dir.
  - apply rep_close_dir.
  - apply rep_file_seek_from_start.
  - apply rep_file_seek_from_current.
  - apply rep_file_seek_from_end.
  - apply rep_file_length.
  - apply rep_file_offset.
  - apply rep_file_eof.
  - apply rep_has_open_handles.
  - apply rep_io_seek.
Qed.

Theorem step_fault_no_dev fsz vid o : no_dev_op o = true -> step_fault fsz vid o.
Proof.
  intros Ho s i r s' v Hinv Hid Hok Hv E Hreach. exfalso.
  pose proof (proj1 (armed_fired (step o) _ _ r s' (lockstep_step o) (pending_arm s i) E) Hreach) as (new & X & Hf).
  destruct (never_fails o Ho _ _ _ E) as (new' & X' & Hb).
  rewrite (ext_unique _ _ _ _ X' X) in Hb. specialize (Hb Hf).
  destruct r; cbn in Hb; try contradiction; discriminate.
Qed.
