(* PROOFS for the SESSION invariant, part 6: C10 / C09 over histories of SESSIONS.
     medium_ok          what every medium of a session satisfies: the crash invariant for the reference
                        record, block 0 and the boot sector those of the witness medium, the FAT32
                        information sector signed - everything a mount looks at
     sess_crash_step    every crashed medium (every prefix of the block writes) of every call of a
                        session - the information-sector write of CloseVol / the drop of a Volume and
                        the write-free OpenVol included - is medium_ok
     C10s_history       ... along any history; C10s_crashed_medium_mounts: it mounts again, with the
                        reference geometry (PrCrashMount2.mount_depends)
     C09s_history       a file on the medium stays on every crashed medium of every later call - same
                        path, entry, bytes - as long as no call targets it; mounting and unmounting
                        target no file *)
From Coq Require Import NArith ZArith List Bool Lia Arith FMapPositive Permutation.
From SdFs Require Import FsTypes FsBase FsFat FsMgr FsExt FsLemmas PrBase PrFat PrAlloc PrDir PrRw PrChain PrCount PrWf PrOpenClose.
From SdFs Require PrHandles PrOrder PrBounds PrCrashMount PrCrashMount2 PrMountLayout PrGlobalWrite.
From SdFs Require Import PrGlobalDef PrGlobalOpen PrGlobal PrGlobalMount.
From SdFs Require Import PrExt PrExt2 PrExt3.
From SdFs Require Import PrCrash PrCrashDef PrCrashDef2 PrCrashDef3 PrCrashDef4.
From SdFs Require PrCrashAll PrCrashDef6.
From SdFs Require Import PrSess PrSess2 PrSess3.
From SdFs Require Import PrSess4 PrSess5.
Import ListNotations.
Open Scope N_scope.
Local Arguments N.mul : simpl never.
Local Arguments N.add : simpl never.
Local Arguments N.sub : simpl never.

(* at most one write: the old medium or the new one *)
Lemma crash_le1 s s' d' : traced s s' -> (length (step_writes s s') <= 1)%nat -> crash_disks s s' d' ->
  d' = s_disk s \/ d' = s_disk s'.
Proof.
  intros T Hl (k & Hk & ->). destruct k as [|k]; [left; reflexivity|]. right.
  assert (k = 0%nat /\ length (step_writes s s') = 1%nat) as (-> & E1) by lia.
  rewrite <- E1, PrCrash.prefix_disk_all. symmetry. exact (traced_disk s s' T).
Qed.

Lemma file_on_medium_relabel d v w path e bytes : relabel v w ->
  file_on_medium d v path e bytes -> file_on_medium d w path e bytes.
Proof.
  intros R (bl & rch & T & lost & ch & H & Hn & Hb). exists bl, rch, T, lost, ch.
  split; [exact (crash_inv_at_relabel d v w bl rch T lost R H)|]. split; [exact Hn|].
  destruct R as (i & a & b & ->). exact Hb.
Qed.

Section Session.
  Variables (fsz idx0 : N) (d0 : disk) (v0 : vol).
  Hypothesis Hwit : mount_witness d0 idx0 v0.

  (* ================================================================== the media of a session *)
  Definition medium_ok (d : disk) : Prop :=
    crash_inv fsz v0 d /\ disk_get d 0 = disk_get d0 0 /\ disk_get d (v_lba v0) = disk_get d0 (v_lba v0) /\
    PrCrashMount.info_sig d v0.

  (* between the calls *)
  Lemma sess_medium_ok s : sess_at fsz d0 v0 s -> medium_ok (s_disk s).
  Proof.
    intros Hs. split; [|split; [exact (sa_mbr _ _ _ _ Hs)|split; [exact (sa_boot _ _ _ _ Hs)|exact (sa_sig _ _ _ _ Hs)]]].
    destruct (sa_phase _ _ _ _ Hs) as [Hu|(vid & w & Hinv & Ev & R & _)].
    - destruct (su_disk _ _ _ Hu) as (bl & rch & T & Hdi). split.
      + split; [exact (su_layout _ _ _ Hu)|exact (su_dev _ _ _ Hu)].
      + exists bl, rch, T, []. exact (disk_inv_crash_inv_at _ _ _ _ _ _ Hdi).
    - exact (crash_inv_relabel fsz w v0 _ (relabel_sym v0 w R) (fs_inv_crash fsz vid s w Hinv Ev)).
  Qed.

  (* a medium_ok medium mounts: from ANY manager with nothing open and room for a volume, OpenVol of the
     session's partition succeeds, the record has the reference geometry, the medium is untouched *)
  Theorem medium_ok_mounts d' : medium_ok d' ->
    forall sb, fresh_mgr sb -> s_disk sb = d' -> 0 < s_maxv sb ->
    exists sb' v', step (OpenVol idx0) sb = (Ok (RHandle (s_next_id sb)), sb') /\
      s_vols sb' = [v'] /\ s_disk sb' = d' /\ relabel v0 v' /\
      PrCrashMount.info_sig d' v' /\ crash_inv fsz v' d'.
  Proof.
    intros (Hc & H0 & Hl & Hsig) sb Fb Edb Hmax.
    destruct Hwit as (sa & vid & sa' & Fa & Eda & Ea & Eva).
    destruct (PrCrashMount2.mount_depends idx0 sa vid sa' v0 sb Fa Fb Hmax Ea Eva) as (sb' & v' & Es & Evs & _ & R & Eds).
    - rewrite Edb, Eda. exact H0.
    - rewrite Edb, Eda. exact Hl.
    - rewrite Edb. intros E32. unfold PrCrashMount.info_sig in Hsig. rewrite E32 in Hsig. exact (proj2 Hsig).
    - exists sb', v'. split; [exact Es|]. split; [exact Evs|]. split; [rewrite Eds; exact Edb|]. split; [exact R|].
      split; [exact (proj2 (info_sig_relabel d' v0 v' R) Hsig)|exact (crash_inv_relabel fsz v0 v' d' R Hc)].
  Qed.

  (* ================================================================== C10: one call *)
  Theorem sess_crash_step o s r s' :
    sess_at fsz d0 v0 s -> id_fresh s -> sop_scope_ok idx0 o -> xop_guard o s -> xstep o s = (r, s') ->
    forall d', crash_disks s s' d' -> medium_ok d'.
  Proof.
    intros Hs Hid Ho Hg E d' Hd.
    destruct (sess_step_ok fsz idx0 d0 v0 Hwit o s r s' Hs Hid Ho Hg E) as (_ & _ & Hs' & _).
    assert (Hquiet : PrOrder.tsteps s s' [] -> medium_ok d').
    { intros Ht. rewrite (crash_disks_quiet s s' d' (tsteps_nil_writes s s' Ht) Hd). exact (sess_medium_ok s Hs). }
    destruct (sess_step_cases fsz idx0 d0 v0 Hwit o s r s' Hs Hid Ho Hg E)
      as [vid w y Hinv Ev R Hid' Hsc Hg' Hinv' Ey G | U | w Hu Eo Er E0 Ew Eid R Ed Hinv'
          | vid vi w bl rch T s1 Hat R Hoc Er Hxf Hxd Eu E8 Es'].
    - (* a call of the one-volume development *)
      pose proof (relabel_sym v0 w R) as R'. destruct (relabel_size v0 w R) as (El & _).
      destruct (all_xsteps_ok fsz vid o s r s' Hinv Hid Hsc Hg E) as (_ & _ & _ & _ & ws & Hts & Hw).
      specialize (Hw w ltac:(rewrite Ev; left; reflexivity)).
      pose proof (PrCrashDef6.crash_untouched (PrBounds.in_region w fsz) s s' ws Hts Hw d' Hd) as Hout.
      destruct Hinv as (vi & v & bl & rch & T & Hat).
      assert (v = w) by (pose proof (fi_single _ _ _ _ _ _ _ _ Hat) as X; rewrite Ev in X; congruence). subst v.
      destruct (region_not_0_lba w fsz (fi_layout _ _ _ _ _ _ _ _ Hat)) as (N0 & Nl).
      split; [|split; [|split]].
      + apply (crash_inv_relabel fsz w v0 _ R').
        exact (all_xsteps_crash fsz vid o s r s' (ex_intro _ vi (ex_intro _ w (ex_intro _ bl (ex_intro _ rch (ex_intro _ T Hat)))))
                 Hid Hsc Hg E w d' Ev Hd).
      + rewrite (Hout 0 N0). exact (sa_mbr _ _ _ _ Hs).
      + rewrite <- El, (Hout _ Nl), El. exact (sa_boot _ _ _ _ Hs).
      + apply (info_sig_relabel d' v0 w R). pose proof (proj2 (info_sig_relabel _ v0 w R) (sa_sig _ _ _ _ Hs)) as Ss.
        unfold PrCrashMount.info_sig. destruct (v_fat32 w) eqn:E32; [|exact I].
        pose proof (PrCrashMount2.fs_inv_J fsz vid s vi w bl rch T Hat E32 Ss) as HJ.
        destruct (PrCrashMount2.J_step (v_info w) (xbase o) s (xscope_not_mount o Hsc) HJ) as (_ & HW).
        assert (Hd1 : crash_disks s (snd (xstep o s)) d') by (rewrite E; exact Hd).
        apply xcrash_disks_base in Hd1.
        unfold PrCrashMount.info_sig in Ss. rewrite E32 in Ss.
        exact (PrCrashMount2.W_crash (v_info w) s _ d' Ss HW Hd1).
    - apply Hquiet. destruct U as (n & l & ->). apply PrOrder.tsteps_same_trace. reflexivity.
    - apply Hquiet. cbn [step] in E0. apply PrHandles.lift_state in E0. destruct E0 as (o1 & E0).
      destruct (quiet_open_raw_volume idx0 s o1 s' E0) as (_ & new & Et & W). exists new. split; assumption.
    - (* the unmount: at most the information sector is written *)
      destruct (go_facts _ _ _ _ _ _ _ _ Hat) as (_ & Hnf & Hc & _ & _ & Hv0 & _).
      destruct (PrBounds.update_info_sector_steps 0 w s s1 (conj Hnf Hc) Hv0 Eu) as (ws & (Hts & _) & _ & Hcases).
      assert (T1 : traced s s').
      { pose proof (traced_xstep o s) as X. rewrite E in X. exact X. }
      subst s'. change (crash_disks s s1 d') in Hd. change (traced s s1) in T1.
      assert (Hl : (length (step_writes s s1) <= 1)%nat).
      { rewrite <- (map_length fst), (tsteps_step_writes s s1 ws Hts). destruct Hcases as [->|(-> & _)]; cbn; lia. }
      destruct (crash_le1 s s1 d' T1 Hl Hd) as [-> | ->]; [exact (sess_medium_ok s Hs)|].
      exact (sess_medium_ok _ Hs').
  Qed.

  Lemma sops_mid ops1 o ops2 s age :
    sess_at fsz d0 v0 s -> PrHandles.handles_ok age s ->
    age + N.of_nat (length (ops1 ++ o :: ops2)) < U32 - 1 -> Forall (sop_scope_ok idx0) (ops1 ++ o :: ops2) ->
    xops_guard (ops1 ++ o :: ops2) s ->
    let s1 := snd (xrun_ops ops1 s) in
    sess_at fsz d0 v0 s1 /\ id_fresh s1 /\ sop_scope_ok idx0 o /\ xop_guard o s1.
  Proof.
    intros Hs Hh Hage Hops Hg s1.
    destruct (C03s_after_every_call fsz idx0 d0 v0 Hwit ops1 (o :: ops2) s age Hs Hh Hage Hops Hg) as (Hs1 & Hh1).
    fold s1 in Hs1, Hh1. split; [exact Hs1|]. split.
    - apply (handles_ok_fresh (age + N.of_nat (length ops1)) s1); [|exact Hh1].
      rewrite app_length, Nat2N.inj_add in Hage. unfold U32 in *. lia.
    - split; [|exact (proj2 (xops_guard_mid ops1 o ops2 s Hg))].
      apply Forall_app in Hops. exact (Forall_inv (proj2 Hops)).
  Qed.

  (* C10 over histories of sessions: the medium between the calls and EVERY crashed medium of EVERY call *)
  Theorem C10s_history ops1 o ops2 s age :
    sess_at fsz d0 v0 s -> PrHandles.handles_ok age s ->
    age + N.of_nat (length (ops1 ++ o :: ops2)) < U32 - 1 -> Forall (sop_scope_ok idx0) (ops1 ++ o :: ops2) ->
    xops_guard (ops1 ++ o :: ops2) s ->
    let s1 := snd (xrun_ops ops1 s) in
    medium_ok (s_disk s1) /\ forall d', crash_disks s1 (snd (xstep o s1)) d' -> medium_ok d'.
  Proof.
    intros Hs Hh Hage Hops Hg s1.
    destruct (sops_mid ops1 o ops2 s age Hs Hh Hage Hops Hg) as (Hs1 & Hid1 & Ho & Hg1). fold s1 in Hs1, Hid1, Hg1.
    split; [exact (sess_medium_ok s1 Hs1)|]. intros d' Hd.
    destruct (xstep o s1) as [r s2] eqn:E. exact (sess_crash_step o s1 r s2 Hs1 Hid1 Ho Hg1 E d' Hd).
  Qed.

  (* ... and every such medium mounts again *)
  Theorem C10s_crashed_medium_mounts ops1 o ops2 s age :
    sess_at fsz d0 v0 s -> PrHandles.handles_ok age s ->
    age + N.of_nat (length (ops1 ++ o :: ops2)) < U32 - 1 -> Forall (sop_scope_ok idx0) (ops1 ++ o :: ops2) ->
    xops_guard (ops1 ++ o :: ops2) s ->
    let s1 := snd (xrun_ops ops1 s) in
    forall d', crash_disks s1 (snd (xstep o s1)) d' ->
    forall off mv md mf, 0 < mv ->
    exists sb' v', step (OpenVol idx0) (init_state d' off mv md mf []) = (Ok (RHandle off), sb') /\
      s_vols sb' = [v'] /\ s_disk sb' = d' /\ relabel v0 v' /\
      PrCrashMount.info_sig d' v' /\ crash_inv fsz v' d'.
  Proof.
    intros Hs Hh Hage Hops Hg s1 d' Hd off mv md mf Hmv.
    pose proof (proj2 (C10s_history ops1 o ops2 s age Hs Hh Hage Hops Hg) d' Hd) as Hm.
    exact (medium_ok_mounts d' Hm (init_state d' off mv md mf []) (fresh_init d' off mv md mf) eq_refl Hmv).
  Qed.

  (* ================================================================== C09 *)
  (* "the call targets the file": only a call on the mounted volume can (PrExt3.xop_targets: a write,
     flush, close or drop on a handle of the file, a truncating open or a delete of its name);
     OpenVol, CloseVol, the drop of a Volume and every call made while nothing is mounted target no file *)
  Definition sop_targets (s : st) (o : xop) (e : dirent) : Prop :=
    exists w, s_vols s = [w] /\ xop_targets s w o e.

  Theorem sess_keep_step o s r s' path e bytes :
    sess_at fsz d0 v0 s -> id_fresh s -> sop_scope_ok idx0 o -> xop_guard o s -> xstep o s = (r, s') ->
    file_on_medium (s_disk s) v0 path e bytes -> ~ sop_targets s o e ->
    forall d', crash_disks s s' d' -> file_on_medium d' v0 path e bytes.
  Proof.
    intros Hs Hid Ho Hg E Hf Hnt d' Hd.
    assert (Hquiet : PrOrder.tsteps s s' [] -> file_on_medium d' v0 path e bytes).
    { intros Ht. rewrite (crash_disks_quiet s s' d' (tsteps_nil_writes s s' Ht) Hd). exact Hf. }
    destruct (sess_step_cases fsz idx0 d0 v0 Hwit o s r s' Hs Hid Ho Hg E)
      as [vid w y Hinv Ev R Hid' Hsc Hg' Hinv' Ey G | U | w Hu Eo Er E0 Ew Eid R Ed Hinv'
          | vid vi w bl rch T s1 Hat R Hoc Er Hxf Hxd Eu E8 Es'].
    - apply (file_on_medium_relabel d' w v0 path e bytes (relabel_sym v0 w R)).
      apply (all_xsteps_keep fsz vid o s r s' Hinv Hid Hsc Hg E w path e bytes Ev
               (file_on_medium_relabel _ v0 w path e bytes R Hf)); [|exact Hd].
      intros X. apply Hnt. exists w. split; [exact Ev|exact X].
    - apply Hquiet. destruct U as (n & l & ->). apply PrOrder.tsteps_same_trace. reflexivity.
    - apply Hquiet. cbn [step] in E0. apply PrHandles.lift_state in E0. destruct E0 as (o1 & E0).
      destruct (quiet_open_raw_volume idx0 s o1 s' E0) as (_ & new & Et & W). exists new. split; assumption.
    - (* the unmount: the information sector lies in no file *)
      destruct (go_facts _ _ _ _ _ _ _ _ Hat) as (_ & Hnf & Hc & _ & _ & Hv0 & _).
      destruct (PrBounds.update_info_sector_steps 0 w s s1 (conj Hnf Hc) Hv0 Eu) as (ws & (Hts & _) & _ & Hcases).
      assert (T1 : traced s s').
      { pose proof (traced_xstep o s) as X. rewrite E in X. exact X. }
      subst s'. change (crash_disks s s1 d') in Hd. change (traced s s1) in T1.
      assert (Hl : (length (step_writes s s1) <= 1)%nat).
      { rewrite <- (map_length fst), (tsteps_step_writes s s1 ws Hts). destruct Hcases as [->|(-> & _)]; cbn; lia. }
      destruct (crash_le1 s s1 d' T1 Hl Hd) as [-> | ->]; [exact Hf|].
      apply (file_on_medium_relabel _ w v0 path e bytes (relabel_sym v0 w R)).
      pose proof (file_on_medium_relabel _ v0 w path e bytes R Hf) as Hfw.
      pose proof (fi_disk _ _ _ _ _ _ _ _ Hat) as HD.
      pose proof (disk_inv_crash_inv_at _ _ _ _ _ _ HD) as CI.
      destruct (proj1 (file_on_medium_tree _ w bl rch T _ path e bytes CI) Hfw) as (ch2 & Hatn & _).
      pose proof (node_at_in _ _ _ Hatn) as Hn2.
      destruct (C08_mount_unmount fsz vid s vi w bl rch T Hat Hxf Hxd) as
        (s8 & E8' & _ & _ & _ & _ & _ & _ & _ & _ & Hoth & Hsame & Hdi & _).
      rewrite E8 in E8'. injection E8' as <-. cbn [s_disk set_s_vols] in Hoth, Hsame, Hdi.
      pose proof (disk_inv_crash_inv_at _ _ _ _ _ _ Hdi) as CI1.
      apply (file_on_medium_keep (s_disk s) (s_disk s1) w bl rch T _ bl rch T _ path e ch2 CI Hatn CI1 Hatn); [|exact Hfw].
      intros j Hj. destruct (v_fat32 w) eqn:E32; [|rewrite (Hsame (or_introl eq_refl)); reflexivity].
      apply Hoth. intros ->. destruct (fi_info _ _ _ _ _ _ _ _ Hat E32) as (_ & I2).
      unfold data_blocks in Hj. apply in_flat_map in Hj. destruct Hj as (c & Hcc & Hjc).
      destruct (all_nodes_rep _ w bl T (di_tree _ _ _ _ _ _ HD) _ Hn2) as (t & bl' & Hrep & _).
      apply node_rep_file in Hrep. destruct Hrep as (_ & _ & [(_ & fu & Hc2)|(_ & Ech)]); [|rewrite Ech in Hcc; destruct Hcc].
      exact (I2 c (proj1 (chain_at_mem _ _ _ _ c (chain_at_any _ _ _ _ _ Hc2) Hcc)) Hjc).
  Qed.

  (* C09 over histories of sessions: a file that is on the medium - mounted or not - stays on the medium
     between the calls and on every crashed medium of every call, whatever sessions happen, as long as
     no call targets that file *)
  Theorem C09s_history : forall ops1 o ops2 s age path e bytes,
    sess_at fsz d0 v0 s -> PrHandles.handles_ok age s ->
    age + N.of_nat (length (ops1 ++ o :: ops2)) < U32 - 1 -> Forall (sop_scope_ok idx0) (ops1 ++ o :: ops2) ->
    xops_guard (ops1 ++ o :: ops2) s ->
    file_on_medium (s_disk s) v0 path e bytes ->
    (forall pre o' post, ops1 ++ [o] = pre ++ o' :: post -> ~ sop_targets (snd (xrun_ops pre s)) o' e) ->
    let s1 := snd (xrun_ops ops1 s) in
    file_on_medium (s_disk s1) v0 path e bytes /\
    forall d', crash_disks s1 (snd (xstep o s1)) d' -> file_on_medium d' v0 path e bytes.
  Proof.
    induction ops1 as [|o1 rest IH]; intros o ops2 s age path e bytes Hs Hh Hage Hops Hg Hf Hnt s1.
    - subst s1. cbn [xrun_ops snd]. split; [exact Hf|]. intros d' Hd.
      destruct (sops_mid [] o ops2 s age Hs Hh Hage Hops Hg) as (_ & Hid & Ho & Hg0). cbn [xrun_ops snd] in Hid, Hg0.
      destruct (xstep o s) as [r s2] eqn:E. cbn [snd] in Hd.
      exact (sess_keep_step o s r s2 path e bytes Hs Hid Ho Hg0 E Hf (Hnt [] o [] eq_refl) d' Hd).
    - subst s1. cbn [xrun_ops app] in *. destruct (xstep o1 s) as [r1 sa] eqn:Es.
      inversion Hops as [|? ? Ho1 Hrest]; subst. cbn [length] in Hage.
      cbn [xops_guard] in Hg. rewrite Es in Hg. destruct Hg as (Hg0 & Hg1). cbn [snd] in Hg1.
      assert (Ha1 : age < U32) by (unfold U32 in *; lia).
      assert (Ha2 : age < U32 - 1) by (unfold U32 in *; lia).
      assert (Ha3 : age + 1 + N.of_nat (length (rest ++ o :: ops2)) < U32 - 1).
      { rewrite Nat2N.inj_succ in Hage. unfold U32 in *. lia. }
      pose proof (handles_ok_fresh age s Ha1 Hh) as Hid.
      destruct (sess_step_ok fsz idx0 d0 v0 Hwit o1 s r1 sa Hs Hid Ho1 Hg0 Es) as (_ & _ & Hsa & _).
      pose proof (C08x_handles_ok_step age o1 s Ha2 (sop_xremount idx0 o1 Ho1) Hh) as Hh1.
      rewrite Es in Hh1. cbn [snd] in Hh1.
      assert (Hf1 : file_on_medium (s_disk sa) v0 path e bytes).
      { apply (sess_keep_step o1 s r1 sa path e bytes Hs Hid Ho1 Hg0 Es Hf (Hnt [] o1 (rest ++ [o]) eq_refl)).
        apply crash_disks_new. pose proof (traced_xstep o1 s) as X. rewrite Es in X. exact X. }
      assert (Hnt1 : forall pre o' post, rest ++ [o] = pre ++ o' :: post -> ~ sop_targets (snd (xrun_ops pre sa)) o' e).
      { intros pre o' post Eq Ht. apply (Hnt (o1 :: pre) o' post); [cbn [app]; rewrite Eq; reflexivity|].
        cbn [xrun_ops]. rewrite Es. destruct (xrun_ops pre sa) as [rs sb]. exact Ht. }
      specialize (IH o ops2 sa (age + 1) path e bytes Hsa Hh1 Ha3 Hrest Hg1 Hf1 Hnt1).
      destruct (xrun_ops rest sa) as [rs sb]. cbn [snd] in *. exact IH.
  Qed.
End Session.

(* ================================================================== example *)
(* PrSess3's three sessions on the formatted FAT16 image: every crashed medium of every call - the two
   unmounts and the three mounts included - satisfies medium_ok, hence mounts again *)
Example sx_crashed_media : exists v0, mount_witness mx_disk 0 v0 /\
  forall ops1 o ops2, sx_ops = ops1 ++ o :: ops2 ->
    let s1 := snd (xrun_ops ops1 sx_s0) in
    forall d', crash_disks s1 (snd (xstep o s1)) d' ->
      medium_ok 32 mx_disk v0 d' /\
      forall off mv md mf, 0 < mv ->
        exists sb' v', step (OpenVol 0) (init_state d' off mv md mf []) = (Ok (RHandle off), sb') /\
          s_vols sb' = [v'] /\ relabel v0 v'.
Proof.
  destruct sx_session as (v0 & Hw & Hs & Hh). exists v0. split; [exact Hw|].
  destruct sx_scope as (Hsc & Hg). intros ops1 o ops2 E s1 d' Hd.
  assert (Hage : 0 + N.of_nat (length (ops1 ++ o :: ops2)) < U32 - 1) by (rewrite <- E; cbn; unfold U32; lia).
  rewrite E in Hsc, Hg. split.
  - exact (proj2 (C10s_history 32 0 mx_disk v0 Hw ops1 o ops2 sx_s0 0 Hs Hh Hage Hsc Hg) d' Hd).
  - intros off mv md mf Hmv.
    destruct (C10s_crashed_medium_mounts 32 0 mx_disk v0 Hw ops1 o ops2 sx_s0 0 Hs Hh Hage Hsc Hg d' Hd off mv md mf Hmv)
      as (sb' & v' & A & B & _ & C & _).
    exists sb', v'. split; [exact A|]. split; [exact B|exact C].
Qed.

Print Assumptions sess_crash_step.
Print Assumptions C10s_history.
Print Assumptions C10s_crashed_medium_mounts.
Print Assumptions sess_keep_step.
Print Assumptions C09s_history.
Print Assumptions sx_crashed_media.
