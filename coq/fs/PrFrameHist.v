(* PROOFS, C04 second sentence - per call and over histories: the FRAME of every API call.
   "Within the data area a call only changes bytes of the file range it was asked to write, of clusters
   it newly allocated, or of the directory slot it owns; within the FAT only entries of chains it
   extends, truncates or frees; all other bytes of every rewritten block are preserved."
   (The first sentence - every device write inside a region of the volume - is PrGlobal.C04_history.)

   This file: the vocabulary, the frame relation fr and its algebra, the frames of the three FAT
   primitives and of a one-block write, the obligation step_frame, and its proof for the operations on
   an OPEN FILE (Read IoRead Length Offset Eof Seek* IoSeek HasOpen: nothing changes; Flush CloseFile:
   one directory slot and the FAT32 information sector; Write IoWrite: the blocks of the file's own
   chain and of the clusters appended to it, the FAT entries of that chain).
   PrFrameHist2: the directory-handle operations that write nothing, and OpenFile (every mode).
   PrFrameHist3: Mkdir, Delete.   PrFrameHist4: assembly (all_steps_frame), the two readable per-call
   theorems fat_frame / data_frame with their corollaries, histories, the example.

   METHOD.  fr v fsz F B d d' : every FAT entry (copy 0, every entry a FAT sector has room for -
   entries 0, 1 and the slack beyond clusters + 2 included) outside the list F, and every block that is
   no sector of a FAT copy outside the list B, is the same in d and d'.  fr is reflexive, transitive
   (lists appended), monotone in F and B, blind to the free-space bookkeeping of the volume record.
   The run of each operation is cut into segments exactly as in PrC16Write / PrC16Open / PrC16Dir (whose
   proofs re-derive the runs from the intermediate lemmas of the PrGlobal files); where those files carry the
   free-cluster count, this one carries F and B.  call_frame then says what F and B may contain, in
   terms of the state BEFORE the call: clusters on the chains of the TARGET heads tg, clusters that
   were free (allocated by the call); blocks of the chains wch (Write only), blocks of clusters that
   were free, the one block of the slot sl (with the exact new contents), the information sector.
   val_ok (carried along the same segments) bounds the VALUES: an entry that changed is free, holds the
   end-of-chain mark, or links to a cluster that was free - so no call links anything to a cluster that
   was in use, and a head that is no target stays a head (PrFrameHist4.cf_head_persists). *)
From Coq Require Import NArith ZArith List Bool Lia Arith ZifyClasses ZifyInst Zify Permutation.
From SdFs Require Import FsTypes FsBase FsFat FsMgr FsLemmas PrBase PrFat PrAlloc PrDir PrSeek PrAllocEffect
  PrRw PrWrite PrFileSeq PrMulti PrEntry PrChain PrCount PrWf PrOpenClose PrGlobalDef PrGlobalWrite
  PrGlobalOpen PrGlobalOpen2.
From SdFs Require PrModes PrHandles PrCrash PrBounds PrOrder PrGlobal PrCrashDef3 PrCrashDef4 PrC16Write.
Import ListNotations.
Open Scope N_scope.
Local Arguments N.mul : simpl never.
Local Arguments N.add : simpl never.
Local Arguments N.sub : simpl never.
Local Arguments N.div : simpl never.
Local Arguments N.modulo : simpl never.
Local Arguments N.land : simpl never.
Local Arguments N.lor : simpl never.
Local Arguments N.min : simpl never.
Local Arguments N.max : simpl never.
Local Ltac Zify.zify_post_hook ::= Z.to_euclidean_division_equations.

(* ================================================================== 0. vocabulary *)
(* c is the number of an entry the first FAT copy has room for (0, 1, the clusters, the slack) *)
Definition fidx (v : vol) (fsz c : N) : Prop := (c * fat_width v) / 512 < fsz.
(* c is a data cluster that is free *)
Definition free_cl (d : disk) (v : vol) (c : N) : Prop := 2 <= c /\ c < v_clusters v + 2 /\ fat_get d v 0 c = 0.

(* the frame relation *)
Definition fr (v : vol) (fsz : N) (F B : list N) (d d' : disk) : Prop :=
  (forall c, fidx v fsz c -> ~ In c F -> fat_get d' v 0 c = fat_get d v 0 c) /\
  (forall j, off_fat v fsz j -> ~ In j B -> disk_get d' j = disk_get d j).

Lemma fr_refl v fsz d : fr v fsz [] [] d d.
Proof. split; intros; reflexivity. Qed.

Lemma fr_eq v fsz d d' : d' = d -> fr v fsz [] [] d d'.
Proof. intros ->. apply fr_refl. Qed.

Lemma fr_weaken v fsz F B F' B' d d' : incl F F' -> incl B B' -> fr v fsz F B d d' -> fr v fsz F' B' d d'.
Proof.
  intros HF HB (A1 & A2). split.
  - intros c Hc Hn. apply A1; [exact Hc|]. intros Hin. exact (Hn (HF c Hin)).
  - intros j Hj Hn. apply A2; [exact Hj|]. intros Hin. exact (Hn (HB j Hin)).
Qed.

Lemma fr_trans v fsz F1 B1 F2 B2 d d1 d2 :
  fr v fsz F1 B1 d d1 -> fr v fsz F2 B2 d1 d2 -> fr v fsz (F1 ++ F2) (B1 ++ B2) d d2.
Proof.
  intros (A1 & A2) (C1 & C2). split.
  - intros c Hc Hn. rewrite C1, A1; [reflexivity|exact Hc| |exact Hc|]; intros Hin; apply Hn; apply in_or_app; tauto.
  - intros j Hj Hn. rewrite C2, A2; [reflexivity|exact Hj| |exact Hj|]; intros Hin; apply Hn; apply in_or_app; tauto.
Qed.

Lemma fr_geo v w fsz F B d d' : geo_eq v w -> fr v fsz F B d d' -> fr w fsz F B d d'.
Proof. intros (a & b & ->) H. exact H. Qed.

Lemma geo_sym v w : geo_eq v w -> geo_eq w v.
Proof. exact (geo_eq_sym v w). Qed.

(* an entry whose sector is the same has the same value *)
Lemma fr_sectors v fsz B d d' :
  (forall copy k, k < fsz -> disk_get d' (fat_copy_sector v copy k) = disk_get d (fat_copy_sector v copy k)) ->
  (forall j, off_fat v fsz j -> ~ In j B -> disk_get d' j = disk_get d j) ->
  fr v fsz [] B d d'.
Proof.
  intros Hs Hb. split; [|exact Hb]. intros c Hc _. apply fat_get_same_sector. unfold fat_sector. apply Hs. exact Hc.
Qed.

(* one block outside the FAT copies is written *)
Lemma fr_set v fsz d blk nb : off_fat v fsz blk -> fr v fsz [] [blk] d (disk_set d blk nb).
Proof.
  intros Ho. apply fr_sectors.
  - intros copy k Hk. apply disk_get_set_other. exact (Ho copy k Hk).
  - intros j _ Hn. apply disk_get_set_other. intros ->. apply Hn. left. reflexivity.
Qed.

Lemma off_fat_in_fat v fsz j : off_fat v fsz j <-> ~ PrBounds.in_fat v fsz j.
Proof.
  split.
  - intros Ho Hi. destruct (PrBounds.in_fat_is_copy_sector v fsz j Hi) as (copy & k & Hk & ->). exact (Ho copy k Hk eq_refl).
  - intros Hn copy k Hk ->. exact (Hn (PrBounds.fat_copy_sector_in_fat v fsz copy k Hk)).
Qed.

Lemma fidx_range v fsz c : fat_layout v fsz -> c < v_clusters v + 2 -> fidx v fsz c.
Proof. intros L Hc. exact (layout_sector v fsz c L Hc). Qed.

Lemma fat_sector_not_off v fsz copy c j : fidx v fsz c -> off_fat v fsz j -> j <> fat_sector v copy c.
Proof. intros Hc Ho. unfold fat_sector. exact (Ho copy _ Hc). Qed.

Definition prev_list (prev : option N) : list N := match prev with Some p => [p] | None => [] end.

(* ---- the three primitives that change the FAT ---- *)
Lemma fr_alloc vi v fsz prev (zero : bool) s c s' :
  fat_layout v fsz -> (forall p, prev = Some p -> p < v_clusters v + 2) ->
  alloc_eff vi v fsz prev zero s c s' ->
  fr v fsz (c :: prev_list prev) (if zero then cluster_blocks v c else []) (s_disk s) (s_disk s').
Proof.
  intros L Hprev Heff. destruct (ae_range _ _ _ _ _ _ _ _ Heff) as (C1 & C2 & _). split.
  - intros x Hx Hn. apply (ae_other _ _ _ _ _ _ _ _ Heff); [exact Hx| |].
    + intros ->. apply Hn. left. reflexivity.
    + intros ->. apply Hn. right. left. reflexivity.
  - intros j Hj Hn. apply (ae_frame _ _ _ _ _ _ _ _ Heff).
    + exact (fat_sector_not_off v fsz 0 c j (fidx_range v fsz c L C2) Hj).
    + exact (fat_sector_not_off v fsz 1 c j (fidx_range v fsz c L C2) Hj).
    + intros p Ep. pose proof (fidx_range v fsz p L (Hprev p Ep)) as Hp.
      split; [exact (fat_sector_not_off v fsz 0 p j Hp Hj)|exact (fat_sector_not_off v fsz 1 p j Hp Hj)].
    + intros -> Hin. apply Hn. apply in_cluster_blocks_iff. exact Hin.
Qed.

Lemma fr_trunc vi v fsz s c rest s' : trunc_eff vi v fsz s c rest s' ->
  fr v fsz (c :: rest) [] (s_disk s) (s_disk s').
Proof.
  intros Heff. split.
  - intros x Hx Hn. apply (te_other _ _ _ _ _ _ _ Heff); [exact Hx| |].
    + intros Hin. apply Hn. right. exact Hin.
    + intros ->. exfalso. apply Hn. left. reflexivity.
  - intros j Hj _. exact (te_frame _ _ _ _ _ _ _ Heff j Hj).
Qed.

Lemma fr_free vi v fsz s c rest s' : free_eff vi v fsz s c rest s' ->
  fr v fsz (c :: rest) [] (s_disk s) (s_disk s').
Proof.
  intros Heff. split.
  - intros x Hx Hn. exact (fe_other _ _ _ _ _ _ _ Heff x Hx Hn).
  - intros j Hj _. exact (fe_frame _ _ _ _ _ _ _ Heff j Hj).
Qed.

(* ---- the VALUES the entries take ---- *)
(* every entry has its old value, or is free, or holds the end-of-chain mark, or links to a cluster that
   was free in d: no call ever makes an entry point at a cluster that was in use *)
Definition val_ok (v : vol) (fsz : N) (d d' : disk) : Prop :=
  forall x, fidx v fsz x ->
    fat_get d' v 0 x = fat_get d v 0 x \/ fat_get d' v 0 x = 0 \/ fat_get d' v 0 x = enc v CL_EOF \/
    exists c2, free_cl d v c2 /\ fat_get d' v 0 x = enc v c2.

Lemma val_refl v fsz d : val_ok v fsz d d.
Proof. intros x _. left. reflexivity. Qed.

Lemma val_eq v fsz d d' : d' = d -> val_ok v fsz d d'.
Proof. intros ->. apply val_refl. Qed.

Lemma val_geo v w fsz d d' : geo_eq v w -> val_ok v fsz d d' -> val_ok w fsz d d'.
Proof. intros (a & b & ->) H. exact H. Qed.

(* a segment that leaves the FAT alone *)
Lemma val_same v fsz d d1 d2 B : val_ok v fsz d d1 -> fr v fsz [] B d1 d2 -> val_ok v fsz d d2.
Proof. intros H (Ff & _) x Hx. rewrite (Ff x Hx (fun F => F)). exact (H x Hx). Qed.

(* one allocation of a cluster that was free in d (the volume record w of the moment has the geometry of v) *)
Lemma val_alloc vi v w fsz prev (zero : bool) s c s' d : geo_eq v w ->
  val_ok v fsz d (s_disk s) -> alloc_eff vi w fsz prev zero s c s' -> free_cl d v c -> prev <> Some c ->
  val_ok v fsz d (s_disk s').
Proof.
  intros G H Heff Hfree Hpc x Hx.
  assert (Gf : forall dd y, fat_get dd w 0 y = fat_get dd v 0 y) by (intros dd y; destruct G as (a & b & ->); reflexivity).
  assert (Ge : forall y, enc w y = enc v y) by (intros y; destruct G as (a & b & ->); reflexivity).
  assert (Hxw : (x * fat_width w) / 512 < fsz) by (destruct G as (a & b & ->); exact Hx).
  destruct (N.eq_dec x c) as [->|Hnc].
  - right. right. left. rewrite <- Gf, <- Ge. exact (ae_new _ _ _ _ _ _ _ _ Heff Hpc).
  - destruct prev as [p|].
    + destruct (N.eq_dec x p) as [->|Hnp].
      * right. right. right. exists c. split; [exact Hfree|]. rewrite <- Gf, <- Ge. exact (ae_prev _ _ _ _ _ _ _ _ Heff p eq_refl).
      * rewrite <- Gf, (ae_other _ _ _ _ _ _ _ _ Heff x Hxw Hnc ltac:(intros E; injection E as E; exact (Hnp (eq_sym E)))), Gf. exact (H x Hx).
    + rewrite <- Gf, (ae_other _ _ _ _ _ _ _ _ Heff x Hxw Hnc ltac:(discriminate)), Gf. exact (H x Hx).
Qed.

Lemma val_trunc vi v w fsz s c rest s' d : geo_eq v w ->
  val_ok v fsz d (s_disk s) -> trunc_eff vi w fsz s c rest s' -> val_ok v fsz d (s_disk s').
Proof.
  intros G H Heff x Hx.
  assert (Gf : forall dd y, fat_get dd w 0 y = fat_get dd v 0 y) by (intros dd y; destruct G as (a & b & ->); reflexivity).
  assert (Ge : forall y, enc w y = enc v y) by (intros y; destruct G as (a & b & ->); reflexivity).
  assert (Hxw : (x * fat_width w) / 512 < fsz) by (destruct G as (a & b & ->); exact Hx).
  destruct (in_dec N.eq_dec x rest) as [Hin|Hnin].
  - right. left. rewrite <- Gf. exact (te_freed _ _ _ _ _ _ _ Heff x Hin).
  - destruct (N.eq_dec x c) as [->|Hnc].
    + destruct rest as [|r0 rs].
      * rewrite <- Gf, (te_other _ _ _ _ _ _ _ Heff c Hxw Hnin (fun _ => eq_refl)), Gf. exact (H c Hx).
      * right. right. left. rewrite <- Gf, <- Ge. apply (te_head _ _ _ _ _ _ _ Heff). discriminate.
    + rewrite <- Gf, (te_other _ _ _ _ _ _ _ Heff x Hxw Hnin (fun E => False_ind _ (Hnc E))), Gf. exact (H x Hx).
Qed.

Lemma val_free vi v w fsz s c rest s' d : geo_eq v w ->
  val_ok v fsz d (s_disk s) -> free_eff vi w fsz s c rest s' -> val_ok v fsz d (s_disk s').
Proof.
  intros G H Heff x Hx.
  assert (Gf : forall dd y, fat_get dd w 0 y = fat_get dd v 0 y) by (intros dd y; destruct G as (a & b & ->); reflexivity).
  assert (Hxw : (x * fat_width w) / 512 < fsz) by (destruct G as (a & b & ->); exact Hx).
  destruct (in_dec N.eq_dec x (c :: rest)) as [Hin|Hnin].
  - right. left. rewrite <- Gf. exact (fe_freed _ _ _ _ _ _ _ Heff x Hin).
  - rewrite <- Gf, (fe_other _ _ _ _ _ _ _ Heff x Hxw Hnin), Gf. exact (H x Hx).
Qed.

(* ================================================================== 1. what a call may change *)
(* hs: the chain heads of the state before the call (heads v T ++ pend_of s v).
   tg: the TARGET heads - the chains the call owns; wch: those among them whose data blocks it may
   write (Write / IoWrite); sl: the directory slot it owns, as (block, byte offset, new bytes).
   F, B: the FAT entries / non-FAT blocks that may differ.
   - every entry in F lies on the OLD chain of a target or was FREE (allocated by the call);
   - every block in B is a block of an OLD chain in wch, a block of a cluster that was FREE, the block
     of the slot, or the FAT32 information sector;
   - the block of the slot: a directory block; its new contents are the old ones with the bytes at the
     offset replaced - or (the directory had to grow) a zeroed block of a cluster that was free, with
     those bytes put in;
   - val_ok: an entry that changed is now free, an end-of-chain mark, or a link to a cluster that was free *)
Definition call_frame (fsz : N) (v : vol) (hs : list N) (d d' : disk)
                      (tg wch : list N) (sl : option (N * N * list N)) : Prop :=
  val_ok v fsz d d' /\
  exists F B, fr v fsz F B d d' /\ incl tg hs /\ incl wch tg /\
    (forall c, In c F -> In c (flat_map (chain_l d v) tg) \/ free_cl d v c) /\
    (forall j, In j B -> In j (data_blocks v (flat_map (chain_l d v) wch)) \/
                         (exists c, free_cl d v c /\ In j (cluster_blocks v c)) \/
                         (exists off b, sl = Some (j, off, b)) \/ PrBounds.is_info v j) /\
    (forall j off b, sl = Some (j, off, b) ->
       PrBounds.in_dir v j /\ off + N.of_nat (length b) <= 512 /\
       (disk_get d' j = set_bytes (disk_get d j) off b \/
        ((exists c, free_cl d v c /\ In j (cluster_blocks v c)) /\ disk_get d' j = set_bytes zero_block off b))).

(* nothing changed *)
Lemma call_frame_same fsz v hs d d' : d' = d -> call_frame fsz v hs d d' [] [] None.
Proof.
  intros E. split; [exact (val_eq v fsz d d' E)|]. exists [], []. split; [exact (fr_eq v fsz d d' E)|].
  split; [intros x []|]. split; [intros x []|]. split; [intros c []|]. split; [intros j []|].
  intros j off b H. discriminate H.
Qed.

(* ---- who owns what: the readable description of tg, wch, sl for each operation ---- *)
(* the entry the lookup of `name` in the directory of handle dh finds *)
Definition dir_entry (s : st) (v : vol) (dh : N) (name : list N) (e : dirent) : Prop :=
  exists dd sfn bl' t, In dd (s_dirs s) /\ d_id dd = dh /\ d_vol dd = v_id v /\
    sfn_of_str name = Some sfn /\ dir_blocks (s_disk s) v (d_cluster dd) = Some bl' /\
    find (t_matches sfn) (live_in_blocks (s_disk s) bl') = Some t /\ e = t_entry (v_fat32 v) t.
(* the first cluster of the directory of handle dh *)
Definition dir_head (s : st) (v : vol) (dh h : N) : Prop :=
  exists dd, In dd (s_dirs s) /\ d_id dd = dh /\ d_vol dd = v_id v /\ h = dir_first_cluster v (d_cluster dd).
(* the first unused slot of the directory of handle dh *)
Definition dir_free_slot (s : st) (v : vol) (dh j off : N) : Prop :=
  exists dd bl' sl0, In dd (s_dirs s) /\ d_id dd = dh /\ d_vol dd = v_id v /\
    dir_blocks (s_disk s) v (d_cluster dd) = Some bl' /\ find nv (slots_of (s_disk s) bl') = Some (j, off, sl0).
(* the open file of handle hd *)
Definition file_of (s : st) (hd : N) (f : fileinfo) : Prop := In f (s_files s) /\ f_id f = hd.

Definition op_owns (s : st) (v : vol) (o : op) (tg wch : list N) (sl : option (N * N * list N)) : Prop :=
  match o with
  | Write hd _ | IoWrite hd _ =>
      (* the chain of the file written, from its in-memory first cluster *)
      sl = None /\ wch = tg /\ forall h, In h tg -> exists f, file_of s hd f /\ e_cluster (f_entry f) = h
  | Flush hd | CloseFile hd =>
      (* the slot of the file: the 32 bytes of its in-memory entry *)
      tg = [] /\ wch = [] /\
      forall j off b, sl = Some (j, off, b) ->
        exists f, file_of s hd f /\ j = e_block (f_entry f) /\ off = e_offset (f_entry f) /\
                  b = ser_bytes (v_fat32 v) (f_entry f)
  | OpenFile dh name md =>
      (* truncation: the chain and the slot of the file found; creation: a free slot of the directory,
         whose chain is extended when it has none *)
      wch = [] /\
      (forall h, In h tg -> (PrCrashDef4.truncating md = true /\ exists e, dir_entry s v dh name e /\ e_cluster e = h) \/
                            dir_head s v dh h) /\
      (forall j off b, sl = Some (j, off, b) -> length b = 32%nat /\
         ((exists e, dir_entry s v dh name e /\ j = e_block e /\ off = e_offset e) \/
          dir_free_slot s v dh j off \/ (exists c, free_cl (s_disk s) v c /\ j = cluster_first_block v c /\ off = 0)))
  | Delete dh name =>
      (* the chain of the file found; the first byte of its slot *)
      wch = [] /\
      (forall h, In h tg -> exists e, dir_entry s v dh name e /\ e_cluster e = h) /\
      (forall j off b, sl = Some (j, off, b) -> b = [229] /\
         exists e, dir_entry s v dh name e /\ j = e_block e /\ off = e_offset e)
  | Mkdir dh name =>
      (* the chain of the parent directory (extended when it has no free slot); a free slot of it; the
         cluster of the new directory was free *)
      wch = [] /\
      (forall h, In h tg -> dir_head s v dh h) /\
      (forall j off b, sl = Some (j, off, b) -> length b = 32%nat /\
         (dir_free_slot s v dh j off \/ (exists c, free_cl (s_disk s) v c /\ j = cluster_first_block v c /\ off = 0)))
  | _ => tg = [] /\ wch = [] /\ sl = None
  end.

(* the per-operation obligation *)
Definition step_frame (fsz vid : N) (o : op) : Prop :=
  forall s r s' vi v bl rch T, fs_inv_at fsz vid s vi v bl rch T -> id_fresh s -> op_known_ok o ->
    step o s = (r, s') ->
    exists tg wch sl, call_frame fsz v (heads v T ++ pend_of s v) (s_disk s) (s_disk s') tg wch sl /\
                      op_owns s v o tg wch sl.

(* an operation that leaves the medium alone *)
Lemma step_frame_quiet fsz vid o :
  (forall s v, op_owns s v o [] [] None) ->
  (forall s r s', fs_inv fsz vid s -> id_fresh s -> op_known_ok o -> step o s = (r, s') -> s_disk s' = s_disk s) ->
  step_frame fsz vid o.
Proof.
  intros Hown Hq s r s' vi v bl rch T Hat Hid Hk Hs.
  assert (Hinv : fs_inv fsz vid s) by (exists vi, v, bl, rch, T; exact Hat).
  exists [], [], None. split; [|apply Hown].
  apply call_frame_same. exact (Hq s r s' Hinv Hid Hk Hs).
Qed.

(* ================================================================== 2. file operations that write nothing *)
Lemma quiet_disk {A} (m : M A) s r s' : PrGlobalWrite.quiet m -> m s = (r, s') -> s_disk s' = s_disk s.
Proof. intros Q E. exact (proj1 (Q s r s' E)). Qed.

Lemma step_frame_of_quiet fsz vid o : (forall s v, op_owns s v o [] [] None) -> PrGlobalWrite.quiet (step o) -> step_frame fsz vid o.
Proof.
  intros Hown Q. apply step_frame_quiet; [exact Hown|].
  intros s r s' _ _ _ Hs. exact (quiet_disk _ s r s' Q Hs).
Qed.

Theorem step_frame_Read fsz vid h n : step_frame fsz vid (Read h n).
Proof. apply step_frame_of_quiet; [intros; repeat split|]. cbn [step]. apply PrCrashDef3.quiet_lift, quiet_mgr_read. Qed.
Theorem step_frame_IoRead fsz vid h n : step_frame fsz vid (IoRead h n).
Proof. apply step_frame_of_quiet; [intros; repeat split|]. cbn [step]. apply PrCrashDef3.quiet_lift, PrCrashDef3.quiet_io_read. Qed.
Theorem step_frame_Length fsz vid h : step_frame fsz vid (Length h).
Proof. apply step_frame_of_quiet; [intros; repeat split|]. cbn [step]. apply PrCrashDef3.quiet_lift, PrCrashDef3.quiet_file_length. Qed.
Theorem step_frame_Offset fsz vid h : step_frame fsz vid (Offset h).
Proof. apply step_frame_of_quiet; [intros; repeat split|]. cbn [step]. apply PrCrashDef3.quiet_lift, PrCrashDef3.quiet_file_offset. Qed.
Theorem step_frame_Eof fsz vid h : step_frame fsz vid (Eof h).
Proof. apply step_frame_of_quiet; [intros; repeat split|]. cbn [step]. apply PrCrashDef3.quiet_lift, PrCrashDef3.quiet_file_eof. Qed.
Theorem step_frame_SeekStart fsz vid h x : step_frame fsz vid (SeekStart h x).
Proof. apply step_frame_of_quiet; [intros; repeat split|]. cbn [step]. apply PrCrashDef3.quiet_lift, PrCrashDef3.quiet_file_seek_from_start. Qed.
Theorem step_frame_SeekCur fsz vid h x : step_frame fsz vid (SeekCur h x).
Proof. apply step_frame_of_quiet; [intros; repeat split|]. cbn [step]. apply PrCrashDef3.quiet_lift, PrCrashDef3.quiet_file_seek_from_current. Qed.
Theorem step_frame_SeekEnd fsz vid h x : step_frame fsz vid (SeekEnd h x).
Proof. apply step_frame_of_quiet; [intros; repeat split|]. cbn [step]. apply PrCrashDef3.quiet_lift, PrCrashDef3.quiet_file_seek_from_end. Qed.
Theorem step_frame_IoSeek fsz vid h w x : step_frame fsz vid (IoSeek h w x).
Proof. apply step_frame_of_quiet; [intros; repeat split|]. cbn [step]. apply PrCrashDef3.quiet_lift, PrCrashDef3.quiet_io_seek. Qed.
Theorem step_frame_HasOpen fsz vid : step_frame fsz vid HasOpen.
Proof. apply step_frame_of_quiet; [intros; repeat split|]. cbn [step]. apply PrCrashDef3.quiet_lift, PrCrashDef3.quiet_has_open_handles. Qed.

(* ================================================================== 3. Flush, CloseFile *)
Lemma resolves_file_of s h fi f : PrSeek.resolves s h fi f -> file_of s h f.
Proof.
  intros (_ & Hfind & Hfi). split; [exact (nth_error_In _ _ Hfi)|].
  destruct (find_idx_nth _ _ _ _ Hfind) as (x & Hn & Hx). rewrite Nat.sub_0_r, Hfi in Hn. injection Hn as <-.
  apply N.eqb_eq. exact Hx.
Qed.

(* flush_file on a dirty record: the information-sector step (FAT32, something known about the free
   space), then the 32 bytes of the in-memory entry go into the slot of the file *)
Lemma ff_flush_dirty fsz vid s vi v bl rch T h fi f : fs_inv_at fsz vid s vi v bl rch T ->
  PrSeek.resolves s h fi f -> f_dirty f = true ->
  exists s', flush_file h s = (Ok tt, s') /\ same_mgr s s' /\
    call_frame fsz v (heads v T ++ pend_of s v) (s_disk s) (s_disk s') [] []
      (Some (e_block (f_entry f), e_offset (f_entry f), ser_bytes (v_fat32 v) (f_entry f))).
Proof.
  intros Hinv Hr Hdirty.
  destruct (gw_vol_facts _ _ _ _ _ _ _ _ Hinv) as (Hl & Hpre & Hfit & Hspc & Hwf & Hvid & Hnf & Hc & Hvi & L & Hvok).
  destruct (gw_file_facts _ _ _ _ _ _ _ _ h fi f Hinv Hr) as (O & Hfvol).
  pose proof Hr as (_ & Hfind & Hfi). pose proof (nth_error_In _ _ Hfi) as Hfin.
  destruct (gw_file_slot _ _ _ _ _ _ _ _ Hinv f Hfin)
    as (e0 & ch0 & i & Hn0 & Hpos0 & En & Ec & Hi & Eo & Hblk & Hns & Ee0 & Hch0).
  pose proof (of_slot _ _ _ _ O) as [Sct Smt Sname Soff Snfat].
  pose proof (of_size _ _ _ _ O) as Osize.
  pose proof (fi_layout _ _ _ _ _ _ _ _ Hinv) as PL.
  destruct (info_step_exists s vi v Hnf Hc Hvi Hwf) as (s1 & Hinfo & Hwf1).
  assert (Hnp : e_size (f_entry f) = 0 \/ e_cluster (f_entry f) <> 0).
  { destruct (of_chain _ _ _ _ O) as [(A1 & _)|(A1 & A2 & _)].
    - right. clear - A1. lia.
    - left. rewrite A2 in Osize. cbn [length] in Osize. clear - Osize. lia. }
  destruct (flush_file_spec s h fi f vi v s1 Hr Hdirty (conj Hfvol Hvi) Hinfo Hnp Sct Smt Soff)
    as (s' & Hrun & Hd' & _ & _ & _ & _ & Hm' & _).
  pose proof (gw_dir_block_in_dir _ _ _ _ _ _ _ _ Hinv _ Hblk) as Hdir.
  set (blk := e_block (f_entry f)) in *.
  assert (Hoffb : off_fat v fsz blk) by exact (PrC16Write.c16_not_fat v _ fsz blk PL (or_introl Hdir)).
  destruct Hinfo as (_ & _ & _ & _ & Hfr1 & Hsame).
  (* the disk after the information-sector step *)
  assert (F1 : fr v fsz [] (if v_fat32 v then [v_info v] else []) (s_disk s) (s_disk s1)).
  { destruct (v_fat32 v) eqn:E32.
    - apply fr_sectors.
      + intros copy k Hk. apply Hfr1. apply not_eq_sym.
        exact (PrC16Write.c16_not_fat v _ fsz _ PL (or_intror (conj E32 eq_refl)) copy k Hk).
      + intros j _ Hn. apply Hfr1. intros ->. apply Hn. left. reflexivity.
    - rewrite (Hsame (or_introl eq_refl)). apply fr_refl. }
  assert (Hb1 : disk_get (s_disk s1) blk = disk_get (s_disk s) blk).
  { destruct (v_fat32 v) eqn:E32.
    - apply Hfr1. intros E. apply (PrC16Write.c16_dir_not_info v _ fsz blk PL Hdir). split; [exact E32|exact E].
    - rewrite (Hsame (or_introl eq_refl)). reflexivity. }
  exists s'. split; [exact Hrun|]. split; [exact Hm'|].
  split.
  { apply (val_same v fsz _ (s_disk s1) _ [blk]); [exact (val_same v fsz _ _ _ _ (val_refl v fsz _) F1)|].
    rewrite Hd'. exact (fr_set v fsz (s_disk s1) blk _ Hoffb). }
  eexists. eexists. split.
  { eapply fr_trans; [exact F1|]. rewrite Hd'. exact (fr_set v fsz (s_disk s1) blk _ Hoffb). }
  split; [intros x []|]. split; [intros x []|]. split; [intros c Hc0; cbn [app] in Hc0; destruct Hc0|]. split.
  - intros j Hj. apply in_app_or in Hj. destruct Hj as [Hj|[<-|[]]].
    + right. right. right. destruct (v_fat32 v) eqn:E32; [|destruct Hj]. destruct Hj as [<-|[]].
      split; [exact E32|reflexivity].
    + right. right. left. eexists. eexists. reflexivity.
  - intros j off b E. injection E as <- <- <-. split; [exact Hdir|]. split.
    + rewrite (ser_bytes_length _ _ Sname). change (N.of_nat 32) with 32. exact Soff.
    + left. rewrite Hd'. rewrite disk_get_set_same. unfold put_entry. rewrite Hb1. reflexivity.
Qed.

Lemma ff_flush_any fsz vid s vi v bl rch T h fi f : fs_inv_at fsz vid s vi v bl rch T ->
  PrSeek.resolves s h fi f ->
  exists s1 sl, flush_file h s = (Ok tt, s1) /\ same_mgr s s1 /\
    call_frame fsz v (heads v T ++ pend_of s v) (s_disk s) (s_disk s1) [] [] sl /\
    (forall j off b, sl = Some (j, off, b) ->
       exists f0, file_of s h f0 /\ j = e_block (f_entry f0) /\ off = e_offset (f_entry f0) /\
                  b = ser_bytes (v_fat32 v) (f_entry f0)).
Proof.
  intros Hat Hr. destruct (f_dirty f) eqn:Hd.
  - destruct (ff_flush_dirty fsz vid s vi v bl rch T h fi f Hat Hr Hd) as (s1 & Hrun & Hm & Hcf).
    exists s1. eexists. split; [exact Hrun|]. split; [exact Hm|]. split; [exact Hcf|].
    intros j off b E. injection E as <- <- <-. exists f. split; [exact (resolves_file_of s h fi f Hr)|]. repeat split.
  - exists s, None. split; [exact (flush_file_clean s h fi f Hr Hd)|]. split; [apply same_mgr_refl|].
    split; [apply call_frame_same; reflexivity|]. intros j off b E. discriminate E.
Qed.

Theorem step_frame_Flush fsz vid h : step_frame fsz vid (Flush h).
Proof.
  intros s r s' vi v bl rch T Hat _ _ Hs.
  assert (Hinv : fs_inv fsz vid s) by (exists vi, v, bl, rch, T; exact Hat).
  pose proof (fs_inv_lock fsz vid s Hinv) as Hl.
  destruct (file_handle_cases s h Hl) as [(fi & f & Hr)|Hno].
  - cbn [step] in Hs. destruct (ff_flush_any fsz vid s vi v bl rch T h fi f Hat Hr) as (s1 & sl & Hrun & Hm & Hcf & Hsl).
    rewrite (lift_ok' _ _ _ _ _ Hrun) in Hs. injection Hs as <- <-.
    exists [], [], sl. split; [exact Hcf|]. cbn [op_owns]. split; [reflexivity|]. split; [reflexivity|exact Hsl].
  - destruct (PrHandles.C08_stale_file_handle h s Hl Hno) as (_ & _ & E & _).
    rewrite E in Hs. injection Hs as <- <-.
    exists [], [], None. split; [apply call_frame_same; reflexivity|]. cbn [op_owns].
    split; [reflexivity|]. split; [reflexivity|]. intros j off b E0. discriminate E0.
Qed.

Theorem step_frame_CloseFile fsz vid h : step_frame fsz vid (CloseFile h).
Proof.
  intros s r s' vi v bl rch T Hat _ _ Hs.
  assert (Hinv : fs_inv fsz vid s) by (exists vi, v, bl, rch, T; exact Hat).
  pose proof (fs_inv_lock fsz vid s Hinv) as Hl.
  destruct (file_handle_cases s h Hl) as [(fi & f & Hr)|Hno].
  - cbn [step] in Hs. destruct (ff_flush_any fsz vid s vi v bl rch T h fi f Hat Hr) as (s1 & sl & Hrun & Hm & Hcf & Hsl).
    rewrite (lift_ok' _ _ _ _ _ (close_file_after_flush s h fi f s1 Hr Hrun Hm)) in Hs. injection Hs as <- <-.
    exists [], [], sl. split; [exact Hcf|]. cbn [op_owns]. split; [reflexivity|]. split; [reflexivity|exact Hsl].
  - destruct (PrHandles.C08_stale_file_handle h s Hl Hno) as (_ & _ & _ & E & _).
    rewrite E in Hs. injection Hs as <- <-.
    exists [], [], None. split; [apply call_frame_same; reflexivity|]. cbn [op_owns].
    split; [reflexivity|]. split; [reflexivity|]. intros j off b E0. discriminate E0.
Qed.

(* ================================================================== 4. Write: the frame through write_loop *)
Lemma free_cl_geo d v w c : geo_eq v w -> free_cl d w c -> free_cl d v c.
Proof. intros (a & b & ->) H. exact H. Qed.

Lemma data_blocks_app v a b : data_blocks v (a ++ b) = data_blocks v a ++ data_blocks v b.
Proof. unfold data_blocks. apply flat_map_app. Qed.

Lemma in_data_blocks v ch j : In j (data_blocks v ch) <-> exists c, In c ch /\ In j (cluster_blocks v c).
Proof. unfold data_blocks. apply in_flat_map. Qed.

Section FfLoop.
  Variable fsz : N.
  Variable vi fi : nat.
  Variable first : N.

  (* one iteration in place (PrWrite.wl_step_in_place): one data block of the file's own chain *)
  Lemma ff_step_in_place fu v ch f data s :
    wl_inv fsz vi fi first v ch f s -> data <> [] -> f_offset f < U32 ->
    f_offset f < N.of_nat (length ch) * bytes_per_cluster v ->
    let tc := wr_to_copy (f_offset f) data in
    exists f' s',
      write_loop (S fu) fi vi data s = write_loop fu fi vi (skipn (N.to_nat tc) data) s' /\
      wl_inv fsz vi fi first v ch f' s' /\ f_offset f' = f_offset f + tc /\
      fr v fsz [] (data_blocks v ch) (s_disk s) (s_disk s').
  Proof.
    intros [Hpre Hfit Hspc Hwf (fuel0 & Hch) Hfi Hfirst Hcur Hoff Hsize] Hdata H32 Hin tc.
    pose proof Hpre as ((Hnf & Hc & Hvi & Hlen) & L & Hh).
    pose proof (fl_vol v fsz L) as Hv.
    set (B := bytes_per_cluster v) in *.
    assert (HB : B = v_spc v * 512) by reflexivity.
    destruct (write_one_chunk_in_place v (s_disk s) first fuel0 ch Hv Hspc Hch fu fi vi f data s
                Hvi Hfi eq_refl Hnf Hc Hwf Hfirst (or_introl Hcur) Hin H32 Hdata)
      as (cj & s' & Hn & Hrun & Hd' & Hfiles' & Hc' & Hnf' & Hsbf).
    fold B in Hn, Hd', Hfiles'. fold tc in Hrun, Hd', Hfiles'.
    set (off := f_offset f) in *.
    set (blk := cluster_first_block v cj + (off mod B) / 512) in *.
    set (chunk := firstn (N.to_nat tc) data) in *.
    set (f' := wr_file f (off / B * B, cj) tc) in *.
    destruct (wr_file_fields f (off / B * B, cj) tc) as (F1 & F2 & F3 & F4 & F5 & F6 & F7 & F8 & F9 & F10).
    fold f' off in F1, F2, F3, F4, F5, F6, F7, F8, F9, F10.
    assert (Htc : tc <= N.of_nat (length data)) by apply wr_to_copy_le.
    assert (Htc512 : off mod 512 + tc <= 512) by (unfold tc, wr_to_copy; lia).
    assert (Hlen_chunk : N.of_nat (length chunk) = tc) by (apply stored_length; exact Htc).
    destruct (chain_of_links _ _ _ _ _ Hch _ cj Hn) as (R1 & R2 & _).
    assert (Hq : (off mod B) / 512 < v_spc v) by (apply div512_lt; rewrite HB; apply N.mod_lt; lia).
    assert (Hblk_cj : In blk (cluster_blocks v cj)) by (apply In_cluster_blocks_intro; exact Hq).
    assert (Hnb : length (set_bytes (disk_get (s_disk s) blk) (off mod 512) chunk) = 512%nat).
    { rewrite set_bytes_length; [apply Hwf|]. rewrite Hwf. lia. }
    assert (Hchains : forall x fu0, chain_of (s_disk s') v x fu0 = chain_of (s_disk s) v x fu0).
    { intros x fu0. rewrite Hd'. apply chain_of_data_write; [exact (layout_below_data v fsz L)|exact R1]. }
    exists f', s'. split; [exact Hrun|]. split; [|split; [exact F1|]].
    - constructor.
      + split; [|split; assumption]. split; [exact Hnf'|]. split; [exact Hc'|].
        split; [rewrite (proj1 Hsbf); exact Hvi|].
        intros k Hk. rewrite Hd'. rewrite disk_get_set_other; [apply Hlen; exact Hk|].
        intros E. exact (fat_sector_not_data v fsz 0 k cj _ L Hk R1 (eq_sym E)).
      + exact Hfit.
      + exact Hspc.
      + rewrite Hd'. apply blocks_wf_set; assumption.
      + exists fuel0. rewrite Hchains. exact Hch.
      + rewrite Hfiles'. eapply PrRw.nth_error_list_set_same. exact Hfi.
      + rewrite F4. exact Hfirst.
      + rewrite F5, F6. cbn [fst snd]. exact (proj1 (find_data_cursor v ch Hspc off cj Hn)).
      + rewrite F1, F2. lia.
      + rewrite F2. fold B.
        pose proof (in_place_room (N.of_nat (length ch)) (v_spc v) off data Hin) as Hroom.
        fold tc in Hroom. change (v_spc v * 512) with B in Hroom.
        clear - Hroom Hsize. lia.
    - rewrite Hd'. apply (fr_weaken v fsz [] [blk]); [intros x []| |].
      + intros x [<-|[]]. apply in_data_blocks. exists cj. split; [exact (nth_error_In _ _ Hn)|exact Hblk_cj].
      + apply fr_set. exact (cluster_block_off_fat fsz v cj blk L R1 Hblk_cj).
  Qed.

  (* one iteration at the end of the chain (PrWrite.wl_step_at_end): a cluster that was free is linked
     behind the last one, its first block is written; or no entry is free: DiskFull, nothing written *)
  Lemma ff_step_at_end fu v ch f data s :
    wl_inv fsz vi fi first v ch f s -> data <> [] -> f_offset f < U32 ->
    f_offset f = N.of_nat (length ch) * bytes_per_cluster v ->
    let tc := wr_to_copy (f_offset f) data in
    (exists v' c f' s',
       write_loop (S fu) fi vi data s = write_loop fu fi vi (skipn (N.to_nat tc) data) s' /\
       wl_inv fsz vi fi first v' (ch ++ [c]) f' s' /\ f_offset f' = f_offset f + tc /\
       geo_eq v v' /\ free_cl (s_disk s) v c /\
       fr v fsz (ch ++ [c]) (data_blocks v (ch ++ [c])) (s_disk s) (s_disk s') /\
       (forall d0, val_ok v fsz d0 (s_disk s) -> free_cl d0 v c -> val_ok v fsz d0 (s_disk s')))
    \/ (exists s',
       write_loop (S fu) fi vi data s = (Err DiskFull, s') /\ s_disk s' = s_disk s).
  Proof.
    intros [Hpre Hfit Hspc Hwf (fuel0 & Hch) Hfi Hfirst Hcur Hoff Hsize] Hdata H32 Hend tc.
    pose proof Hpre as ((Hnf & Hc & Hvi & Hlen) & L & Hh).
    pose proof (fl_vol v fsz L) as Hv.
    set (B := bytes_per_cluster v) in *.
    assert (HB : B = v_spc v * 512) by reflexivity.
    destruct (chain_last _ _ _ _ _ Hch) as (cl & Hcl & Hlen0).
    destruct (chain_last_entry _ _ _ _ _ _ Hch Hcl) as (Hclnz & Q1 & Q2).
    destruct (find_data_on_disk_eof v (s_disk s) first fuel0 ch Hv Hspc Hch vi (f_cur_off f, f_cur_cluster f)
                (f_offset f) s Hvi eq_refl Hnf Hc (or_introl Hcur) Hend H32)
      as (cl' & s1 & Hn1 & Hrun1 & Hro1).
    rewrite Hcl in Hn1. inversion Hn1; subst cl'. clear Hn1.
    pose proof (alloc_pre_ro vi v fsz s s1 Hpre Hro1) as Hpre1.
    assert (Hprev : forall p, Some cl = Some p -> p < v_clusters v + 2)
      by (intros p E; inversion E; subst p; exact Q2).
    destruct (alloc_cluster_total vi v fsz (Some cl) false s1 Hpre1 Hprev) as (o & s2 & Ha & Hres).
    destruct Hres as [(-> & Hnone & Hd2 & Hm2 & _ & Hst2)|(c0 & -> & Heff0)].
    { right. exists s2. split.
      { rewrite (write_loop_unfold fu fi vi data s Hdata).
        rewrite (bind_ok _ _ _ _ _ (get_file_some fi f s Hfi)). cbv zeta. rewrite Hfirst.
        rewrite (bind_ok _ _ _ _ _ Hrun1). cbv beta iota. cbn [snd].
        rewrite bind_bind. rewrite (bind_ok _ _ _ _ _ (PrAlloc.try_err _ _ _ _ Ha)). reflexivity. }
      rewrite Hd2; exact (proj1 Hro1). }
    left.
    destruct (ae_range _ _ _ _ _ _ _ _ Heff0) as (W1 & W2 & W3). rewrite (proj1 Hro1) in W3.
    assert (Halloc : forall s1', ro_step s s1' ->
              exists c s2', alloc_cluster vi (Some cl) false s1' = (Ok c, s2') /\
                            ext_eff vi v first ch s1' c s2').
    { intros s1' Hro'. pose proof (alloc_pre_ro vi v fsz s s1' Hpre Hro') as Hpre'.
      destruct (alloc_cluster_succeeds vi v fsz (Some cl) false s1' c0 Hpre' Hprev W1 W2
                  ltac:(rewrite (proj1 Hro'); exact W3)) as (c & s2' & Ha').
      exists c, s2'. split; [exact Ha'|].
      refine (proj1 (ext_eff_of_alloc vi v fsz first fuel0 ch cl s1' c s2' Hpre' Hfit _ _ Hcl Ha'));
        rewrite (proj1 Hro'); assumption. }
    clear s1 Hrun1 Hro1 Hpre1 s2 Ha Heff0 W1 W2 W3.
    destruct (write_one_chunk_extend v (s_disk s) first fuel0 ch fu fi vi f data s cl Hv Hspc Hch Hvi Hfi
                eq_refl Hnf Hc Hfirst (or_introl Hcur) Hend H32 Hdata Hcl Halloc)
      as (s1 & c & s2 & s' & Hro1 & Ha & _ & Hrun & Hd' & Hfb' & Hfb2 & Hfiles' & Hcur' & Hvols' & Hwf'
          & Hc' & Hnf' & Htab').
    cbv zeta in Hrun, Hd', Hfb', Hfiles'.
    pose proof (alloc_pre_ro vi v fsz s s1 Hpre Hro1) as Hpre1.
    destruct (ext_eff_of_alloc vi v fsz first fuel0 ch cl s1 c s2 Hpre1 Hfit
                ltac:(rewrite (proj1 Hro1); exact Hwf) ltac:(rewrite (proj1 Hro1); exact Hch) Hcl Ha)
      as (_ & AF & Hchain2).
    destruct (af_range _ _ _ _ _ _ _ AF) as (R1 & R2 & R3).
    destruct (af_vol _ _ _ _ _ _ _ AF) as (nf & fc & Evols & Hpre2).
    set (v' := vol_rebook v nf fc) in *.
    (* the frame of the allocation *)
    pose proof (alloc_cluster_effect vi v fsz (Some cl) false s1 c s2 Hpre1 Hprev Ha) as Heff.
    pose proof (fr_alloc vi v fsz (Some cl) false s1 c s2 L Hprev Heff) as Fa.
    cbn [prev_list] in Fa. rewrite (proj1 Hro1) in Fa.
    assert (Hfree : free_cl (s_disk s) v c).
    { split; [exact R1|]. split; [exact R2|]. rewrite <- fat_entry_get, <- (proj1 Hro1). exact R3. }
    assert (E3 : f_offset f mod 512 = 0).
    { rewrite Hend, HB. apply mul_bpc_mod512. }
    assert (Etc : N.min 512 (N.of_nat (length data)) = tc)
      by (symmetry; apply wr_to_copy_aligned; exact E3).
    rewrite Etc in Hrun, Hd', Hfb', Hfiles'.
    set (off := f_offset f) in *.
    set (chunk := firstn (N.to_nat tc) data) in *.
    set (f' := wr_file f (off, c) tc) in *.
    destruct (wr_file_fields f (off, c) tc) as (F1 & F2 & F3 & F4 & F5 & F6 & F7 & F8 & F9 & F10).
    fold f' off in F1, F2, F3, F4, F5, F6, F7, F8, F9, F10.
    assert (Htc : tc <= N.of_nat (length data)) by apply wr_to_copy_le.
    assert (Htc512 : tc <= 512) by (clear - Etc; lia).
    pose proof Hpre2 as ((_ & _ & _ & Hlen2) & L2 & Hh2).
    assert (Hblk0 : cluster_first_block v c = cluster_first_block v c + 0) by (rewrite N.add_0_r; reflexivity).
    assert (Hblk_in : In (cluster_first_block v c) (cluster_blocks v c)).
    { rewrite Hblk0 at 1. apply In_cluster_blocks_intro. exact Hspc. }
    assert (Hchains : forall x fu0, chain_of (s_disk s') v x fu0 = chain_of (s_disk s2) v x fu0).
    { intros x fu0. rewrite Hd', Hblk0. apply chain_of_data_write; [exact (layout_below_data v fsz L)|exact R1]. }
    assert (Fb : fr v fsz [] [cluster_first_block v c] (s_disk s2) (s_disk s')).
    { rewrite Hd'. apply fr_set. exact (cluster_block_off_fat fsz v c _ L R1 Hblk_in). }
    exists v', c, f', s'. split; [exact Hrun|]. split; [|split; [exact F1|split; [exists nf, fc; reflexivity|split; [exact Hfree|split]]]].
    - constructor.
      + split; [|split; assumption]. split; [exact Hnf'|]. split; [exact Hc'|].
        split; [rewrite Hvols', Evols; eapply PrRw.nth_error_list_set_same; exact (proj1 (proj2 (proj2 (proj1 Hpre1))))|].
        intros k Hk. rewrite Hd'. rewrite disk_get_set_other; [apply Hlen2; exact Hk|].
        intros E. rewrite Hblk0 in E.
        exact (fat_sector_not_data v fsz 0 k c 0 L Hk R1 (eq_sym E)).
      + exact Hfit.
      + exact Hspc.
      + exact Hwf'.
      + exists (S fuel0). unfold v'. rewrite chain_of_rebook, Hchains. exact Hchain2.
      + rewrite Hfiles'. eapply PrRw.nth_error_list_set_same. exact Hfi.
      + rewrite F4. exact Hfirst.
      + rewrite F5, F6. exact Hcur'.
      + rewrite F1, F2. clear. lia.
      + rewrite F2. change (bytes_per_cluster v') with B. rewrite app_length. cbn [length].
        replace (length ch + 1)%nat with (S (length ch)) by lia. rewrite of_nat_succ_mul.
        assert (512 <= B) by (rewrite HB; clear - Hspc; lia).
        clear - H Hsize Hend Htc512. fold off in Hend. lia.
    - (* the allocation changed the entries of cl and c; then one block of cluster c is written *)
      apply (fr_weaken v fsz ([c; cl] ++ []) ([] ++ [cluster_first_block v c])).
      + intros x [<-|[<-|[]]]; apply in_or_app; [right; left; reflexivity|left].
        eapply nth_error_In. exact Hcl.
      + intros x [<-|[]]. apply in_data_blocks. exists c. split; [apply in_or_app; right; left; reflexivity|exact Hblk_in].
      + exact (fr_trans v fsz _ _ _ _ _ _ _ Fa Fb).
    - (* the values: c holds the end-of-chain mark, cl links to c *)
      intros d0 Hv0 Hfree0. apply (val_same v fsz d0 (s_disk s2) _ [cluster_first_block v c]); [|exact Fb].
      apply (val_alloc vi v v fsz (Some cl) false s1 c s2 d0 (geo_eq_refl v)); [rewrite (proj1 Hro1); exact Hv0|exact Heff|exact Hfree0|].
      intros E. injection E as E. subst cl. apply Hclnz. rewrite (proj1 Hro1) in R3. exact R3.
  Qed.

  (* the whole loop, any fuel, any outcome: ext = the clusters appended, all free before *)
  Theorem ff_write_loop : forall fuel data v ch f s,
    wl_inv fsz vi fi first v ch f s -> f_offset f + N.of_nat (length data) < U32 ->
    forall o sf, write_loop fuel fi vi data s = (o, sf) ->
      exists ext, Forall (free_cl (s_disk s) v) ext /\
        fr v fsz (ch ++ ext) (data_blocks v (ch ++ ext)) (s_disk s) (s_disk sf) /\
        (forall d0, val_ok v fsz d0 (s_disk s) -> (forall c, free_cl (s_disk s) v c -> free_cl d0 v c) ->
                    val_ok v fsz d0 (s_disk sf)).
  Proof.
    assert (Hidle : forall v ch d, exists ext, Forall (free_cl d v) ext /\
              fr v fsz (ch ++ ext) (data_blocks v (ch ++ ext)) d d /\
              (forall d0, val_ok v fsz d0 d -> (forall c, free_cl d v c -> free_cl d0 v c) -> val_ok v fsz d0 d)).
    { intros v ch d. exists []. split; [constructor|]. split; [|intros d0 H _; exact H].
      apply (fr_weaken v fsz [] []); [intros x []|intros x []|apply fr_refl]. }
    induction fuel as [|fu IH]; intros data v ch f s Hinv H32 o sf Hrun.
    { injection Hrun as _ <-. apply Hidle. }
    destruct data as [|x t] eqn:Edata.
    { injection Hrun as _ <-. apply Hidle. }
    rewrite <- Edata in *. assert (Hdata : data <> []) by (rewrite Edata; discriminate).
    clear x t Edata.
    set (off := f_offset f) in *. set (tc := wr_to_copy off data).
    assert (Htc : tc <= N.of_nat (length data)) by apply wr_to_copy_le.
    assert (Hrest_len : N.of_nat (length (skipn (N.to_nat tc) data)) = N.of_nat (length data) - tc)
      by (rewrite skipn_length; lia).
    pose proof (wi_off _ _ _ _ _ _ _ _ Hinv) as Hoff. pose proof (wi_size _ _ _ _ _ _ _ _ Hinv) as Hsize. fold off in Hoff.
    destruct (N.lt_ge_cases off (N.of_nat (length ch) * bytes_per_cluster v)) as [Hlt|Hge].
    - destruct (ff_step_in_place fu v ch f data s Hinv Hdata ltac:(fold off; clear - H32; lia) Hlt)
        as (f1 & s1 & Hrun1 & Hinv1 & Hoff1 & Hfr1).
      fold off tc in Hrun1, Hoff1. rewrite Hrun1 in Hrun.
      destruct (IH _ v ch f1 s1 Hinv1 ltac:(rewrite Hoff1, Hrest_len; clear - H32 Htc; lia) o sf Hrun)
        as (ext & Hext & Hfr & Hval).
      destruct (wi_pre _ _ _ _ _ _ _ _ Hinv) as (_ & L & _).
      assert (Hback : forall c, free_cl (s_disk s1) v c -> free_cl (s_disk s) v c).
      { intros c (A1 & A2 & A3). split; [exact A1|]. split; [exact A2|].
        transitivity (fat_get (s_disk s1) v 0 c); [symmetry|exact A3].
        apply (proj1 Hfr1); [exact (fidx_range v fsz c L A2)|intros []]. }
      exists ext. split; [|split].
      + rewrite Forall_forall in *. intros c Hc. exact (Hback c (Hext c Hc)).
      + apply (fr_weaken v fsz ([] ++ (ch ++ ext)) (data_blocks v ch ++ data_blocks v (ch ++ ext))).
        * intros x Hx. exact Hx.
        * intros x Hx. apply in_app_or in Hx. destruct Hx as [Hx|Hx]; [|exact Hx].
          rewrite data_blocks_app. apply in_or_app. left. exact Hx.
        * exact (fr_trans v fsz _ _ _ _ _ _ _ Hfr1 Hfr).
      + intros d0 Hv0 Hm0. apply Hval; [exact (val_same v fsz d0 _ _ _ Hv0 Hfr1)|].
        intros c Hc. exact (Hm0 c (Hback c Hc)).
    - assert (Hend : off = N.of_nat (length ch) * bytes_per_cluster v) by (clear - Hge Hoff Hsize; lia).
      destruct (ff_step_at_end fu v ch f data s Hinv Hdata ltac:(fold off; clear - H32; lia) Hend)
        as [(v1 & c & f1 & s1 & Hrun1 & Hinv1 & Hoff1 & G & Hfree & Hfr1 & Hval1)|(s1 & Hrun1 & Hd1)].
      + fold off tc in Hrun1, Hoff1. rewrite Hrun1 in Hrun.
        destruct (IH _ v1 (ch ++ [c]) f1 s1 Hinv1 ltac:(rewrite Hoff1, Hrest_len; clear - H32 Htc; lia) o sf Hrun)
          as (ext & Hext & Hfr & Hval).
        apply (fr_geo v1 v fsz _ _ _ _ (geo_sym _ _ G)) in Hfr. rewrite (data_blocks_geo v v1 _ G) in Hfr.
        destruct (wi_pre _ _ _ _ _ _ _ _ Hinv) as (_ & L & _).
        destruct (wi_chain _ _ _ _ _ _ _ _ Hinv1) as (fu1 & Hch1).
        (* a cluster that is free after the step was free before: the clusters of the chain are not free *)
        assert (Hback : forall x, free_cl (s_disk s1) v1 x -> free_cl (s_disk s) v x).
        { intros x Hx. destruct (free_cl_geo _ v v1 x G Hx) as (A1 & A2 & A3).
          split; [exact A1|]. split; [exact A2|].
          transitivity (fat_get (s_disk s1) v 0 x); [symmetry|exact A3].
          apply (proj1 Hfr1); [exact (fidx_range v fsz x L A2)|].
          intros Hin.
          destruct (chain_at_mem (s_disk s1) v1 first (ch ++ [c]) x (chain_at_any _ _ _ _ _ Hch1) Hin) as (_ & _ & Z & _).
          apply Z. destruct G as (a & b & ->). exact A3. }
        exists (c :: ext). split; [|split].
        3:{ intros d0 Hv0 Hm0. apply (val_geo v1 v fsz _ _ (geo_sym _ _ G)). apply Hval.
            - apply (val_geo v v1 fsz _ _ G). exact (Hval1 d0 Hv0 (Hm0 c Hfree)).
            - intros x Hx. destruct G as (a & b & ->). exact (Hm0 x (Hback x Hx)). }
        * constructor; [exact Hfree|].
          rewrite Forall_forall in *. intros x Hx. exact (Hback x (Hext x Hx)).
        * replace (ch ++ c :: ext) with ((ch ++ [c]) ++ ext) by (rewrite <- app_assoc; reflexivity).
          apply (fr_weaken v fsz ((ch ++ [c]) ++ ((ch ++ [c]) ++ ext))
                   (data_blocks v (ch ++ [c]) ++ data_blocks v ((ch ++ [c]) ++ ext))).
          -- intros x Hx. apply in_app_or in Hx. destruct Hx as [Hx|Hx]; [apply in_or_app; left; exact Hx|exact Hx].
          -- intros x Hx. apply in_app_or in Hx. destruct Hx as [Hx|Hx]; [|exact Hx].
             rewrite data_blocks_app. apply in_or_app. left. exact Hx.
          -- exact (fr_trans v fsz _ _ _ _ _ _ _ Hfr1 Hfr).
      + rewrite Hrun1 in Hrun. injection Hrun as _ <-. rewrite Hd1. apply Hidle.
  Qed.
End FfLoop.

(* ---- mgr_write as a whole ---- *)
Lemma ff_mw_tail fi s r s' : mw_tail fi s = (r, s') -> s_disk s' = s_disk s.
Proof.
  unfold mw_tail, get_file, get_timestamp, put_file, bind, get, modify, ret, panic.
  destruct (nth_error (s_files s) fi); intros H; inversion H; reflexivity.
Qed.

Lemma ff_loop_tail fsz vi fi first fuel data v ch f s o s' :
  wl_inv fsz vi fi first v ch f s -> f_offset f + N.of_nat (length data) < U32 ->
  (write_loop fuel fi vi data ;;; mw_tail fi) s = (o, s') ->
  exists ext, Forall (free_cl (s_disk s) v) ext /\
    fr v fsz (ch ++ ext) (data_blocks v (ch ++ ext)) (s_disk s) (s_disk s') /\
    (forall d0, val_ok v fsz d0 (s_disk s) -> (forall c, free_cl (s_disk s) v c -> free_cl d0 v c) ->
                val_ok v fsz d0 (s_disk s')).
Proof.
  intros Hinv H32 Hrun. unfold bind in Hrun.
  destruct (write_loop fuel fi vi data s) as [o1 s1] eqn:Eloop.
  destruct (ff_write_loop fsz vi fi first fuel data v ch f s Hinv H32 o1 s1 Eloop) as (ext & Hext & Hfr).
  exists ext. split; [exact Hext|].
  destruct o1 as [u|e| |].
  - rewrite (ff_mw_tail fi s1 o s' Hrun). exact Hfr.
  - injection Hrun as _ <-. exact Hfr.
  - injection Hrun as _ <-. exact Hfr.
  - injection Hrun as _ <-. exact Hfr.
Qed.

(* mgr_write on a handle that names a record, EVERY outcome (Ok, ReadOnly refusal, DiskFull after a
   prefix was stored, NotEnoughSpace): ext = the clusters the call allocated, all free before; only the
   FAT entries of ch ++ ext and the blocks of those clusters can differ *)
Theorem ff_mgr_write fsz h data s fi f vi v ch o s' :
  mw_pre fsz h s fi f vi v ch -> mgr_write h data s = (o, s') ->
  exists ext, Forall (free_cl (s_disk s) v) ext /\
    fr v fsz (ch ++ ext) (data_blocks v (ch ++ ext)) (s_disk s) (s_disk s') /\
    val_ok v fsz (s_disk s) (s_disk s').
Proof.
  intros Hmw Hrun.
  pose proof Hmw as [Hl Hh Hfi Hvol Hpre Hfit Hspc Hwf Hchain Hoff Hsize H32].
  pose proof Hpre as ((Hnf & Hc & Hvi & Hlen) & L & Hh0).
  assert (Hidle : exists ext, Forall (free_cl (s_disk s) v) ext /\
            fr v fsz (ch ++ ext) (data_blocks v (ch ++ ext)) (s_disk s) (s_disk s) /\
            val_ok v fsz (s_disk s) (s_disk s)).
  { exists []. split; [constructor|]. split; [|apply val_refl].
    apply (fr_weaken v fsz [] []); [intros x []|intros x []|apply fr_refl]. }
  rewrite (mgr_write_unfold h data s fi f vi Hl Hh Hfi Hvol) in Hrun.
  destruct (mode_eqb (f_mode f) ReadOnly) eqn:Hmode.
  { injection Hrun as _ <-. exact Hidle. }
  set (tw := N.min (N.of_nat (length data)) (MAX_FILE_SIZE - f_offset f)) in *.
  assert (Hclip : N.of_nat (length (firstn (N.to_nat tw) data)) = tw) by (rewrite firstn_length; unfold tw; lia).
  assert (HtwM : f_offset f + tw < U32) by (unfold tw, MAX_FILE_SIZE, U32 in *; clear - Hoff H32; lia).
  set (fA := set_f_dirty f true) in *. set (sA := PrRw.upd_file s fi fA) in *.
  assert (HfiA : nth_error (s_files sA) fi = Some fA)
    by (cbn; eapply PrRw.nth_error_list_set_same; exact Hfi).
  assert (HpreA : alloc_pre sA vi v fsz) by exact Hpre.
  destruct Hchain as [(A1 & (fuel0 & A2) & A3)|(A1 & -> & A3)].
  - (* the file has clusters: the loop starts at once *)
    assert (E : (e_cluster (f_entry f) <? RESERVED_ENTRIES) = false) by (apply N.ltb_ge; exact A1).
    destruct (reset_cursor_fields fA) as (G1 & G2 & G3 & G4 & G5 & G6).
    unfold mw_first in Hrun. rewrite E, bind_ret in Hrun.
    rewrite (mw_rest_run fi data sA fA vi HfiA Hvol) in Hrun. cbv zeta in Hrun. rewrite G2 in Hrun.
    change (f_offset fA) with (f_offset f) in Hrun. fold tw in Hrun.
    assert (Pinv : wl_inv fsz vi fi (e_cluster (f_entry (reset_cursor fA))) v ch (reset_cursor fA)
                     (PrRw.upd_file sA fi (reset_cursor fA))).
    { constructor; try assumption.
      - exists fuel0. rewrite G1. exact A2.
      - cbn. rewrite list_set_twice. eapply PrRw.nth_error_list_set_same. exact Hfi.
      - reflexivity.
      - apply reset_cursor_ok; [exact (cursor_ok_first v _ _ _ _ A2)|intros _; exact A3].
      - rewrite G1, G2. exact Hoff.
      - rewrite G1. exact Hsize. }
    destruct (ff_loop_tail fsz vi fi _ _ _ v ch _ _ o s' Pinv ltac:(rewrite G2, Hclip; exact HtwM) Hrun)
      as (ext & Hext & Hfr & Hval).
    exists ext. split; [exact Hext|]. split; [exact Hfr|].
    exact (Hval (s_disk s) (val_refl v fsz _) (fun c H => H)).
  - (* the file has no cluster yet: one is allocated (prev = None) *)
    assert (E : (e_cluster (f_entry f) <? RESERVED_ENTRIES) = true) by (apply N.ltb_lt; exact A1).
    assert (HprevN : forall p, @None N = Some p -> p < v_clusters v + 2) by (intros p Ep; discriminate Ep).
    destruct (alloc_cluster_total vi v fsz None false sA HpreA HprevN) as (oa & s2 & Ha & Hres).
    destruct Hres as [(-> & Hnone & Hd2 & Hm2 & _ & Hst2)|(c & -> & Heff)].
    + unfold mw_first in Hrun. rewrite E in Hrun. rewrite bind_bind in Hrun.
      rewrite (bind_err _ _ _ _ _ Ha) in Hrun. injection Hrun as _ <-.
      rewrite Hd2. exact Hidle.
    + pose proof (alloc_files_of_effect vi v fsz None sA c s2 HpreA Hwf
                    ltac:(intros p Ep; discriminate Ep) Ha) as AF.
      destruct (af_range _ _ _ _ _ _ _ AF) as (R1 & R2 & R3).
      destruct (af_vol _ _ _ _ _ _ _ AF) as (nf & fc & Evols & Hpre2).
      set (v' := vol_rebook v nf fc) in *.
      pose proof (fr_alloc vi v fsz None false sA c s2 L HprevN Heff) as Fa. cbn [prev_list] in Fa.
      change (s_disk sA) with (s_disk s) in Fa.
      assert (Hfree : free_cl (s_disk s) v c).
      { split; [exact R1|]. split; [exact R2|]. rewrite <- fat_entry_get. exact R3. }
      set (fB := set_f_entry fA (set_e_cluster (f_entry fA) c)).
      set (sC := PrRw.upd_file s2 fi fB).
      assert (Hfi2 : nth_error (s_files s2) fi = Some fA) by (rewrite (af_files _ _ _ _ _ _ _ AF); exact HfiA).
      assert (HfiC : nth_error (s_files sC) fi = Some fB) by (cbn; eapply PrRw.nth_error_list_set_same; exact Hfi2).
      assert (HvolC : find_idx (fun w => v_id w =? f_vol fB) (s_vols sC) 0 = Some vi).
      { cbn [sC PrRw.upd_file s_vols set_s_files]. rewrite Evols. apply (find_vol_set _ _ _ v); [exact Hvol|exact Hvi|reflexivity]. }
      assert (Hreset : reset_cursor fB = set_f_cur_cluster (set_f_cur_off fB 0) c).
      { unfold reset_cursor. change (f_cur_cluster fB) with (f_cur_cluster f).
        change (e_cluster (f_entry fB)) with c.
        replace (f_cur_cluster f <? c) with true by (symmetry; apply N.ltb_lt; clear - A3 R1; lia).
        reflexivity. }
      set (fD := set_f_cur_cluster (set_f_cur_off fB 0) c) in *.
      cbn [length] in Hsize.
      assert (E0 : e_size (f_entry f) = 0) by (clear - Hsize; lia).
      assert (Pinv : wl_inv fsz vi fi c v' [c] fD (PrRw.upd_file sC fi fD)).
      { constructor.
        - exact Hpre2.
        - exact Hfit.
        - exact Hspc.
        - exact (af_wf _ _ _ _ _ _ _ AF).
        - exists 1%nat. unfold v'. rewrite chain_of_rebook.
          exact (PrWrite.chain_single _ _ _ _ R1 R2 (af_new _ _ _ _ _ _ _ AF)).
        - cbn. rewrite list_set_twice. eapply PrRw.nth_error_list_set_same. exact Hfi2.
        - reflexivity.
        - exists 0%nat. split; reflexivity.
        - exact Hoff.
        - change (e_size (f_entry fD)) with (e_size (f_entry f)). rewrite E0. clear. lia. }
      unfold mw_first in Hrun. rewrite E in Hrun. rewrite bind_bind in Hrun. rewrite (bind_ok _ _ _ _ _ Ha) in Hrun.
      rewrite bind_bind in Hrun. rewrite (bind_ok _ _ _ _ _ (get_file_some fi fA s2 Hfi2)) in Hrun.
      rewrite put_file_ok' in Hrun. fold fB in Hrun. fold sC in Hrun.
      rewrite (mw_rest_run fi data sC fB vi HfiC HvolC) in Hrun. cbv zeta in Hrun. rewrite Hreset in Hrun.
      change (f_offset fD) with (f_offset f) in Hrun. fold tw in Hrun.
      destruct (ff_loop_tail fsz vi fi c _ _ v' [c] fD (PrRw.upd_file sC fi fD) o s' Pinv
                  ltac:(change (f_offset fD) with (f_offset f); rewrite Hclip; exact HtwM) Hrun)
        as (ext & Hext & Hfr & Hval).
      change (s_disk (PrRw.upd_file sC fi fD)) with (s_disk s2) in Hext, Hfr, Hval.
      assert (G : geo_eq v v') by (exists nf, fc; reflexivity).
      apply (fr_geo v' v fsz _ _ _ _ (geo_sym _ _ G)) in Hfr. rewrite (data_blocks_geo v v' _ G) in Hfr.
      assert (Hback : forall x, free_cl (s_disk s2) v' x -> free_cl (s_disk s) v x).
      { intros x Hx. destruct (free_cl_geo _ v v' x G Hx) as (X1 & X2 & X3).
        split; [exact X1|]. split; [exact X2|].
        transitivity (fat_get (s_disk s2) v 0 x); [symmetry|exact X3].
        apply (proj1 Fa); [exact (fidx_range v fsz x L X2)|].
        intros [<-|[]]. rewrite <- fat_entry_get in X3. rewrite (af_new _ _ _ _ _ _ _ AF) in X3.
        destruct (eof_is_end v) as (_ & Ee). rewrite X3 in Ee.
        unfold fat_eoc_min in Ee. destruct (v_fat32 v); discriminate Ee. }
      exists (c :: ext). split; [|split].
      3:{ apply (val_geo v' v fsz _ _ (geo_sym _ _ G)). apply Hval.
          - apply (val_geo v v' fsz _ _ G).
            apply (val_alloc vi v v fsz None false sA c s2 (s_disk s) (geo_eq_refl v) (val_refl v fsz _) Heff Hfree). discriminate.
          - intros x Hx. destruct G as (a & b & ->). exact (Hback x Hx). }
      * constructor; [exact Hfree|]. rewrite Forall_forall in *. intros x Hx. exact (Hback x (Hext x Hx)).
      * cbn [app]. apply (fr_weaken v fsz ([c] ++ ([c] ++ ext)) ([] ++ data_blocks v ([c] ++ ext))).
        -- intros x Hx. apply in_app_or in Hx. destruct Hx as [[<-|[]]|Hx]; [left; reflexivity|exact Hx].
        -- intros x Hx. exact Hx.
        -- exact (fr_trans v fsz _ _ _ _ _ _ _ Fa Hfr).
Qed.

(* ---- Write, IoWrite ---- *)
Lemma fchain_l d v f : 2 <= e_cluster (f_entry f) -> fchain d v f = chain_l d v (e_cluster (f_entry f)).
Proof. intros H. unfold fchain. replace (e_cluster (f_entry f) <? 2) with false by (symmetry; apply N.ltb_ge; exact H). reflexivity. Qed.

Lemma fchain_nil d v f : e_cluster (f_entry f) < 2 -> fchain d v f = [].
Proof. intros H. unfold fchain. replace (e_cluster (f_entry f) <? 2) with true by (symmetry; apply N.ltb_lt; exact H). reflexivity. Qed.

Lemma ff_write_frame fsz vid s vi v bl rch T h data fi f o s' : fs_inv_at fsz vid s vi v bl rch T ->
  PrSeek.resolves s h fi f -> mgr_write h data s = (o, s') ->
  exists tg, call_frame fsz v (heads v T ++ pend_of s v) (s_disk s) (s_disk s') tg tg None /\
    forall x, In x tg -> exists f0, file_of s h f0 /\ e_cluster (f_entry f0) = x.
Proof.
  intros Hat Hr Hrun.
  pose proof (gw_mw_pre fsz vid s vi v bl rch T Hat h fi f Hr) as Hmw.
  destruct (ff_mgr_write fsz h data s fi f vi v _ o s' Hmw Hrun) as (ext & Hext & Hfr & Hval).
  pose proof Hr as (_ & _ & Hfi). pose proof (nth_error_In _ _ Hfi) as Hfin.
  rewrite Forall_forall in Hext.
  set (tg := if 2 <=? e_cluster (f_entry f) then [e_cluster (f_entry f)] else []).
  assert (Htg : flat_map (chain_l (s_disk s) v) tg = fchain (s_disk s) v f).
  { unfold tg. destruct (N.leb_spec 2 (e_cluster (f_entry f))) as [H2|H2].
    - cbn [flat_map]. rewrite app_nil_r. symmetry. apply fchain_l. exact H2.
    - symmetry. apply fchain_nil. exact H2. }
  exists tg. split.
  - split; [exact Hval|].
    exists (fchain (s_disk s) v f ++ ext), (data_blocks v (fchain (s_disk s) v f ++ ext)).
    split; [exact Hfr|]. split.
    { unfold tg. intros x Hx. destruct (N.leb_spec 2 (e_cluster (f_entry f))) as [H2|H2]; [|destruct Hx].
      destruct Hx as [<-|[]]. exact (ofile_in_hs fsz vid s vi v bl rch T Hat f Hfin H2). }
    split; [intros x Hx; exact Hx|]. split.
    + intros c Hc. apply in_app_or in Hc. destruct Hc as [Hc|Hc]; [left; rewrite Htg; exact Hc|right; exact (Hext c Hc)].
    + split.
      * intros j Hj. rewrite data_blocks_app in Hj. apply in_app_or in Hj. destruct Hj as [Hj|Hj].
        -- left. rewrite Htg. exact Hj.
        -- right. left. apply in_data_blocks in Hj. destruct Hj as (c & Hc & Hj). exists c. split; [exact (Hext c Hc)|exact Hj].
      * intros j off b E. discriminate E.
  - unfold tg. intros x Hx. destruct (2 <=? e_cluster (f_entry f)); [|destruct Hx]. destruct Hx as [<-|[]].
    exists f. split; [exact (resolves_file_of s h fi f Hr)|reflexivity].
Qed.

Theorem step_frame_Write fsz vid h data : step_frame fsz vid (Write h data).
Proof.
  intros s r s' vi v bl rch T Hat _ _ Hs.
  assert (Hinv : fs_inv fsz vid s) by (exists vi, v, bl, rch, T; exact Hat).
  pose proof (fs_inv_lock fsz vid s Hinv) as Hl.
  destruct (file_handle_cases s h Hl) as [(fi & f & Hr)|Hno].
  - cbn [step] in Hs. unfold lift, bind in Hs. destruct (mgr_write h data s) as [o s1] eqn:Hrun.
    destruct (ff_write_frame fsz vid s vi v bl rch T h data fi f o s1 Hat Hr Hrun) as (tg & Hcf & Htg).
    assert (Es : s' = s1) by (destruct o as [u|e| |]; injection Hs as _ <-; reflexivity). subst s'.
    exists tg, tg, None. split; [exact Hcf|]. cbn [op_owns]. split; [reflexivity|]. split; [reflexivity|exact Htg].
  - destruct (PrHandles.C08_stale_file_handle h s Hl Hno) as (_ & E & _).
    rewrite (E data) in Hs. injection Hs as <- <-.
    exists [], [], None. split; [apply call_frame_same; reflexivity|]. cbn [op_owns].
    split; [reflexivity|]. split; [reflexivity|]. intros x [].
Qed.

Theorem step_frame_IoWrite fsz vid h data : step_frame fsz vid (IoWrite h data).
Proof.
  intros s r s' vi v bl rch T Hat _ _ Hs.
  assert (Hinv : fs_inv fsz vid s) by (exists vi, v, bl, rch, T; exact Hat).
  pose proof (fs_inv_lock fsz vid s Hinv) as Hl.
  assert (Hnone : forall data0, s_disk s' = s_disk s ->
            exists tg wch sl, call_frame fsz v (heads v T ++ pend_of s v) (s_disk s) (s_disk s') tg wch sl /\
                              op_owns s v (IoWrite h data0) tg wch sl).
  { intros data0 E. exists [], [], None. split; [apply call_frame_same; exact E|]. cbn [op_owns].
    split; [reflexivity|]. split; [reflexivity|]. intros x []. }
  cbn [step] in Hs. unfold io_write in Hs. destruct data as [|x t] eqn:Edata.
  { unfold lift, bind, ret in Hs. injection Hs as <- <-. apply Hnone. reflexivity. }
  rewrite <- Edata in Hs. assert (Hne : data <> []) by (rewrite Edata; discriminate). rewrite <- Edata. clear x t Edata.
  destruct (file_handle_cases s h Hl) as [(fi & f & Hr)|Hno].
  - unfold lift, bind in Hs. destruct (mgr_write h data s) as [o s1] eqn:Hrun.
    destruct (ff_write_frame fsz vid s vi v bl rch T h data fi f o s1 Hat Hr Hrun) as (tg & Hcf & Htg).
    assert (Es : s' = s1) by (destruct o as [u|e| |]; injection Hs as _ <-; reflexivity). subst s'.
    exists tg, tg, None. split; [exact Hcf|]. cbn [op_owns]. split; [reflexivity|]. split; [reflexivity|exact Htg].
  - destruct (PrHandles.C08_stale_file_handle_io h s Hl Hno) as (_ & E & _).
    pose proof (E data Hne) as E'. cbn [step] in E'. unfold io_write in E'.
    destruct data as [|x t]; [contradiction|]. rewrite E' in Hs. injection Hs as <- <-.
    exists [], [], None. split; [apply call_frame_same; reflexivity|]. cbn [op_owns].
    split; [reflexivity|]. split; [reflexivity|]. intros y [].
Qed.

Print Assumptions step_frame_Flush.
Print Assumptions step_frame_Write.
