(* Assembly of the CONTENT obligation (C01 / C02 over whole histories of the model).
   Every API operation of the model satisfies PrContentDef.step_content in every outcome:
     all_steps_content : forall fsz vid o, step_content fsz vid o
   from the per-operation theorems
     PrContentDef    Length Offset Eof HasOpen SeekStart SeekEnd SeekCur IoSeek
     PrContentWrite  Read IoRead Write IoWrite Flush CloseFile
     PrContentOpen   OpenRoot OpenDir CloseDir Find Iter Label      PrContentOpen2  OpenFile
     PrContentDir    Delete Mkdir
   (OpenVol / CloseVol / Remount are outside op_known_ok, exactly as in PrGlobal.all_steps_ok),
   and the history theorems of PrContentDef2 / PrContentDef3 WITHOUT their hypothesis
   `forall o, step_content fsz vid o`:
     C01_history_model, C02_history_model, C02_untouched_history_model, C02_flushed_stays_model.
   Scope (op_known_ok, as for C03 / C04 / C05): one mounted volume, no device faults (part of
   fs_inv), names outside the known class D29, fewer than 2^32 handle generations. *)
From Coq Require Import NArith ZArith List Bool Lia.
From SdFs Require Import FsTypes FsBase FsFat FsMgr PrGlobalDef PrContentDef PrContentDef2 PrContentDef3
  PrContentWrite PrContentOpen PrContentOpen2 PrContentDir.
From SdFs Require PrHandles.
Import ListNotations.
Open Scope N_scope.

Theorem all_steps_content fsz vid : forall o, step_content fsz vid o.
Proof.
  intros o. destruct o.
  - (* OpenVol: outside the scope *) intros s r s' a _ _ [[_ F] _]. destruct F.
  - (* CloseVol *) intros s r s' a _ _ [[_ F] _]. destruct F.
  - apply content_OpenRoot.
  - apply content_OpenDir.
  - apply content_CloseDir.
  - apply content_Find.
  - apply content_Iter.
  - apply content_OpenFile.
  - apply content_CloseFile.
  - apply content_Flush.
  - apply content_Read.
  - apply content_Write.
  - apply content_SeekStart.
  - apply content_SeekCur.
  - apply content_SeekEnd.
  - apply content_Length.
  - apply content_Offset.
  - apply content_Eof.
  - apply content_Delete.
  - apply content_Mkdir.
  - apply content_Label.
  - apply content_HasOpen.
  - apply content_IoSeek.
  - apply content_IoRead.
  - apply content_IoWrite.
  - (* Remount *) intros s r s' a _ _ [[F _] _]. destruct F.
Qed.

(* C01 for whole histories: every result the byte-array spec predicts is the model's result, and
   after the history the API shows, position by position, the spec's map and handle table *)
Theorem C01_history_model fsz vid ops s age a :
  fs_inv fsz vid s -> PrHandles.handles_ok age s ->
  age + N.of_nat (length ops) < U32 - 1 -> Forall op_known_ok ops ->
  observes fsz vid s a -> obs_sync a ->
  exists gs, length gs = length ops /\
    let evs := events_of ops (run_clocks ops s) (fst (run_ops ops s)) gs in
    Forall2 pred_ok (fst (spec_run evs (ss_of a))) (fst (run_ops ops s)) /\
    exists a', observes fsz vid (snd (run_ops ops s)) a' /\ ss_eq (snd (spec_run evs (ss_of a))) a'.
Proof. exact (C01_history fsz vid (all_steps_content fsz vid) ops s age a). Qed.

(* C01 + C02 for whole histories: besides C01, what a flush / close put on the medium is what the
   spec's map holds as long as no later call modifies the position; untouched positions and
   untouched raw directory slots stay *)
Theorem C02_history_model fsz vid ops s age a :
  fs_inv fsz vid s -> PrHandles.handles_ok age s ->
  age + N.of_nat (length ops) < U32 - 1 -> Forall op_known_ok ops ->
  observes fsz vid s a -> obs_sync a ->
  exists tr a' gs, map os_op tr = ops /\ map os_res tr = fst (run_ops ops s) /\
    map os_clock tr = run_clocks ops s /\ length gs = length tr /\
    observes fsz vid (snd (run_ops ops s)) a' /\ chain_ok a tr a' /\
    let st' := snd (spec_run (events tr gs) (ss_of a)) in
    ss_eq st' a' /\
    (forall tr1 x tr2 h hi, tr = tr1 ++ x :: tr2 -> is_flush_of h (os_op x) ->
       hget h (ob_handles (os_pre x)) = Some hi ->
       Forall (fun y => mod_target_of y <> Some (hi_pos hi)) tr2 ->
       vget (hi_pos hi) (ob_disk a') = vget (hi_pos hi) (ss_files st') /\
       vget (hi_pos hi) (ss_files st') <> None) /\
    (forall p, Forall (fun x => target_of x <> Some p) tr -> vget p (ob_disk a') = vget p (ob_disk a)) /\
    exists qs, Forall2 (fun x q => q = None \/ q = target_of x \/ is_mkdir (os_op x)) tr qs /\
      slots_keep (fun p => In (Some p) qs) a a'.
Proof. exact (C02_history fsz vid (all_steps_content fsz vid) ops s age a). Qed.

(* C02, last sentence: a file position no call of the history targets shows in both views what
   it showed at the start; raw directory slots stay but for targeted positions and Mkdir's slot *)
Theorem C02_untouched_history_model fsz vid ops s age a :
  fs_inv fsz vid s -> PrHandles.handles_ok age s ->
  age + N.of_nat (length ops) < U32 - 1 -> Forall op_known_ok ops -> observes fsz vid s a ->
  exists tr a', map os_op tr = ops /\ map os_res tr = fst (run_ops ops s) /\
    observes fsz vid (snd (run_ops ops s)) a' /\ chain_ok a tr a' /\
    (forall p, Forall (fun x => target_of x <> Some p) tr ->
       vget p (ob_mem a') = vget p (ob_mem a) /\ vget p (ob_disk a') = vget p (ob_disk a)) /\
    exists qs, Forall2 (fun x q => q = None \/ q = target_of x \/ is_mkdir (os_op x)) tr qs /\
      slots_keep (fun p => In (Some p) qs) a a'.
Proof. exact (C02_untouched_history fsz vid (all_steps_content fsz vid) ops s age a). Qed.

(* C02: run ops1, then Flush / CloseFile on an open handle h (file at slot p), then ops2 that
   never targets p: after the whole history a fresh mount shows at p exactly what the API showed
   for the file when the flush was called *)
Theorem C02_flushed_stays_model fsz vid ops1 fl ops2 h s age a :
  fs_inv fsz vid s -> PrHandles.handles_ok age s ->
  age + N.of_nat (length (ops1 ++ fl :: ops2)) < U32 - 1 -> Forall op_known_ok (ops1 ++ fl :: ops2) ->
  observes fsz vid s a -> obs_sync a -> is_flush_of h fl ->
  let s1 := snd (run_ops ops1 s) in
  let s' := snd (run_ops (ops1 ++ fl :: ops2) s) in
  exists a1 x tr2 a', observes fsz vid s1 a1 /\ os_pre x = a1 /\ os_op x = fl /\ map os_op tr2 = ops2 /\
    chain_ok a1 (x :: tr2) a' /\ observes fsz vid s' a' /\
    forall hi, hget h (ob_handles a1) = Some hi ->
      Forall (fun y => target_of y <> Some (hi_pos hi)) tr2 ->
      os_res x = Ok RUnit /\
      vget (hi_pos hi) (ob_disk a') = vget (hi_pos hi) (ob_mem a1) /\ vget (hi_pos hi) (ob_mem a1) <> None.
Proof. exact (C02_flushed_stays fsz vid (all_steps_content fsz vid) ops1 fl ops2 h s age a). Qed.

Print Assumptions all_steps_content.
Print Assumptions C01_history_model.
Print Assumptions C02_history_model.
Print Assumptions C02_untouched_history_model.
Print Assumptions C02_flushed_stays_model.
