(* Property C07 - open modes, read-only protection and typing
   This file contains only property theorems (each closed by `exact`), `Check` pins and
   `Print Assumptions`.  FULL STATEMENT (DESIGN.md 4 C07) is not yet proved for the whole
   layer-B model; what is proved here are the named mechanisms, for all inputs.  The gap is
   covered - visibly - by the correspondence check and the spec oracle (see evidence). *)
From Coq Require Import NArith ZArith List Bool.
From SdFs Require Import FsTypes FsBase FsFat FsMgr FsLemmas.
Import ListNotations.
Open Scope N_scope.


Theorem C07_mode_variants : forall m present, solve_mode_variant m present = match m, present with | ReadWriteCreateOrAppend, true => ReadWriteAppend | ReadWriteCreateOrAppend, false => ReadWriteCreate | ReadWriteCreateOrTruncate, true => ReadWriteTruncate | ReadWriteCreateOrTruncate, false => ReadWriteCreate | m, _ => m end.
Proof. exact solve_mode_table. Qed.

Theorem C07_creating_modes : forall m, creating m = true <-> (m = ReadWriteCreate \/ m = ReadWriteCreateOrTruncate \/ m = ReadWriteCreateOrAppend).
Proof. exact creating_iff. Qed.

Print Assumptions C07_mode_variants.
Print Assumptions C07_creating_modes.
