(* PROOFS for the SESSION invariant, part 2: OpenVol / CloseVol / the drop of a Volume INSIDE the histories,
   for a manager with room for one volume (s_maxv = 1, the crate's default MAX_VOLUMES) and one
   partition index idx0.
     0  relabel is an equivalence; regions and the information-sector signatures do not see it
     1  the session invariant sess_at: UNMOUNTED (no volume, no file, only stale root handles; the raw
        medium mounts - a witness mount - and holds the disk-level invariant) or MOUNTED (fs_inv, the
        record a relabel of the witness record, every non-root directory record on the mounted volume)
     2  the scope of an operation in a session (sop_scope_ok)
     3  what every operation does when nothing is mounted: a refusal, or a root handle pushed / removed
     4  sess_step_ok: every operation in scope keeps the session invariant, neither panics nor runs out
        of fuel, and writes only into regions of the volume *)
From Coq Require Import NArith ZArith List Bool Lia Arith FMapPositive Permutation.
From SdFs Require Import FsTypes FsBase FsFat FsMgr FsExt FsLemmas PrBase PrFat PrAlloc PrDir PrRw PrChain PrCount PrWf PrOpenClose.
From SdFs Require PrHandles PrOrder PrBounds PrSeek PrModes PrCrash PrCrashDef PrCrashDef2 PrCrashDef3
  PrCrashMount PrCrashMount2 PrEntry.
From SdFs Require Import PrGlobalDef PrGlobalWrite PrGlobalOpen PrGlobal PrGlobalMount.
From SdFs Require Import PrExt PrExt2 PrExt3.
From SdFs Require Import PrSess.
From SdFs Require Import PrCrashDef3.
Import ListNotations.
Open Scope N_scope.
Local Arguments N.mul : simpl never.
Local Arguments N.add : simpl never.
Local Arguments N.sub : simpl never.

(* ================================================================== 0. relabel *)
Lemma relabel_sym v w : relabel v w -> relabel w v.
Proof. intros (i & a & b & ->). exists (v_id v), (v_next_free v), (v_free v). destruct v; reflexivity. Qed.
Lemma relabel_trans u v w : relabel u v -> relabel v w -> relabel u w.
Proof. intros (i & a & b & ->) (j & c & d & ->). exists j, c, d. destruct u; reflexivity. Qed.
Lemma in_region_relabel v w fsz i : relabel v w -> (PrBounds.in_region w fsz i <-> PrBounds.in_region v fsz i).
Proof. intros (j & a & b & ->). reflexivity. Qed.
Lemma info_sig_relabel d v w : relabel v w -> (PrCrashMount.info_sig d w <-> PrCrashMount.info_sig d v).
Proof. intros (j & a & b & ->). reflexivity. Qed.
Lemma relabel_info v w : relabel v w -> v_info w = v_info v /\ v_fat32 w = v_fat32 v.
Proof. intros (j & a & b & ->). split; reflexivity. Qed.

(* ================================================================== 1. the session invariant *)
(* the raw medium d0 mounts, at partition entry idx0, as the record v0 (from some manager with nothing
   open): the reference geometry of all sessions *)
Definition mount_witness (d0 : disk) (idx0 : N) (v0 : vol) : Prop :=
  exists sa vid sa', fresh_mgr sa /\ s_disk sa = d0 /\
    step (OpenVol idx0) sa = (Ok (RHandle vid), sa') /\ s_vols sa' = [v0].

(* every directory record that is no root handle belongs to the mounted volume *)
Definition dirs_tame (vid : N) (s : st) : Prop := Forall (fun dd => root_handle dd \/ d_vol dd = vid) (s_dirs s).

Record sess_unmounted (fsz : N) (v0 : vol) (s : st) : Prop := mk_sess_unmounted {
  su_fresh : fresh_mgr s;                      (* no volume, no file, stale ROOT handles only, lock free, device and cache fine *)
  su_wf : blocks_wf (s_disk s);
  su_layout : PrBounds.part_layout v0 (v_nblocks v0) fsz;
  su_dev : v_lba v0 + v_nblocks v0 < U32;
  su_disk : exists bl rch T, disk_inv (s_disk s) v0 bl rch T []
}.
Definition sess_mounted (fsz : N) (v0 : vol) (s : st) : Prop :=
  exists vid w, fs_inv fsz vid s /\ s_vols s = [w] /\ relabel v0 w /\ dirs_tame vid s.

Record sess_at (fsz : N) (d0 : disk) (v0 : vol) (s : st) : Prop := mk_sess_at {
  sa_maxv : s_maxv s = 1;
  sa_mbr : disk_get (s_disk s) 0 = disk_get d0 0;                          (* block 0 and the boot sector are those *)
  sa_boot : disk_get (s_disk s) (v_lba v0) = disk_get d0 (v_lba v0);       (* of the witness medium *)
  sa_sig : PrCrashMount.info_sig (s_disk s) v0;                            (* FAT32: the information sector is signed *)
  sa_phase : sess_unmounted fsz v0 s \/ sess_mounted fsz v0 s
}.
Definition sess_inv (fsz idx0 : N) (s : st) : Prop :=
  exists d0 v0, mount_witness d0 idx0 v0 /\ sess_at fsz d0 v0 s.

(* ================================================================== 2. the scope of an operation in a session *)
(* OpenVol only for the partition index of the session; CloseVol and the drop of a Volume for every
   handle; the harness-only Remount stays out (also inside an Iter callback); names as before (D29) *)
Definition sop_scope_ok (idx0 : N) (o : xop) : Prop :=
  match o with
  | XOp (OpenVol idx) => idx = idx0
  | XOp (CloseVol _) => True
  | XOp o' => no_remount o' /\ op_name_ok o'
  | XDropVol _ => True
  | XChangeDir _ name => e5_name name = false
  | _ => True
  end.

Lemma sop_xremount idx0 o : sop_scope_ok idx0 o -> xremount_ok o.
Proof.
  destruct o as [o| | | | | | | |]; try (intros; exact I). intros H. cbn [xremount_ok].
  destruct o; try exact I; cbn [sop_scope_ok] in H; exact (no_remount_ok _ (proj1 H)).
Qed.
Lemma sop_xno_remount idx0 o : sop_scope_ok idx0 o -> xno_remount o.
Proof.
  destruct o as [o| | | | | | | |]; try (intros; exact I). intros H. cbn [xno_remount].
  destruct o; try exact I; cbn [sop_scope_ok] in H; exact (proj1 H).
Qed.

(* what a step must establish *)
Definition sess_post (fsz : N) (d0 : disk) (v0 : vol) (s : st) (r : outcome xres) (s' : st) : Prop :=
  r <> Panic /\ r <> OutOfFuel /\ sess_at fsz d0 v0 s' /\
  exists ws, PrOrder.tsteps s s' ws /\ Forall (PrBounds.in_region v0 fsz) ws.

(* ================================================================== 3. nothing is mounted: refusals *)
(* the state after the call is the state before it, up to the table of open directories and the handle
   counter (open_root_dir draws an id and may push a root handle; close_dir removes a record) *)
Definition ushape (s s' : st) : Prop := exists n l, s' = set_s_next_id (set_s_dirs s l) n.
Lemma ushape_refl s : ushape s s.
Proof. exists (s_next_id s), (s_dirs s). destruct s; reflexivity. Qed.

Lemma dir_prefix {A} d (k : nat -> dirinfo -> nat -> M A) s : s_vols s = [] ->
  (di <- get_dir_by_id d ;; dd <- get_dir di ;; vi <- get_volume_by_id (d_vol dd) ;; k di dd vi) s = (Err BadHandle, s).
Proof.
  intros Hv. unfold bind. rewrite PrHandles.get_dir_by_id_eq.
  destruct (find_idx (fun x => d_id x =? d) (s_dirs s) 0) as [di|] eqn:E; [|reflexivity].
  destruct (PrSeek.find_idx_nth _ _ _ _ E) as (dd & Hdd & _). rewrite Nat.sub_0_r in Hdd.
  rewrite PrHandles.get_dir_eq, Hdd, PrHandles.get_volume_by_id_eq, Hv. reflexivity.
Qed.

Definition ok_res {A} (r : outcome A) : Prop := r <> Panic /\ r <> OutOfFuel.
Lemma ok_err {A} e : ok_res (@Err A e). Proof. split; discriminate. Qed.
Lemma ok_ok {A} (a : A) : ok_res (Ok a). Proof. split; discriminate. Qed.

Section Unmounted.
  Variable s : st.
  Hypothesis Hv : s_vols s = [].
  Hypothesis Hf : s_files s = [].
  Hypothesis Hl : s_lock s = false.

  Lemma no_file_u h : PrHandles.no_file h s.
  Proof. intros f Hin. rewrite Hf in Hin. destruct Hin. Qed.
  Lemma no_vol_u h : PrHandles.no_vol h s.
  Proof. intros v Hin. rewrite Hv in Hin. destruct Hin. Qed.

  Lemma close_dir_u d : exists r s', close_dir d s = (r, s') /\ ok_res r /\ ushape s s'.
  Proof.
    unfold close_dir. rewrite (PrHandles.locked_free _ s Hl). unfold bind. rewrite PrHandles.get_dir_by_id_eq.
    destruct (find_idx _ _ _) as [i|].
    - eexists. eexists. split; [reflexivity|]. split; [apply ok_ok|].
      exists (s_next_id s), (swap_remove (s_dirs s) i). unfold modify. destruct s; reflexivity.
    - eexists. eexists. split; [reflexivity|]. split; [apply ok_err|apply ushape_refl].
  Qed.

  Lemma open_dir_u d name : exists e, open_dir d name s = (Err e, s).
  Proof.
    unfold open_dir. rewrite (PrHandles.locked_free _ s Hl), PrHandles.bind_get.
    destruct (is_full (s_dirs s) (s_maxd s)); [eexists; reflexivity|].
    exists BadHandle. apply dir_prefix. exact Hv.
  Qed.

  Lemma close_volume_u h : exists e, close_volume h s = (Err e, s).
  Proof.
    destruct (PrHandles.C08_stale_vol_handle h s Hl (no_vol_u h)) as (E & _). cbn [step] in E. rewrite lift_run in E.
    destruct (close_volume h s) as [[u|e| |] s1]; cbn [fst snd omap] in E; try discriminate.
    injection E as _ <-. eexists. reflexivity.
  Qed.

  (* every base operation but OpenVol *)
  Theorem step_unmounted o : match o with OpenVol _ => False | _ => True end -> no_remount o ->
    exists r s', step o s = (r, s') /\ ok_res r /\ ushape s s'.
  Proof.
    intros Hno Hn.
    assert (Herr : forall (r : outcome res) e, r = Err e -> step o s = (r, s) ->
              exists r s', step o s = (r, s') /\ ok_res r /\ ushape s s').
    { intros r e -> E. exists (Err e), s. split; [exact E|]. split; [apply ok_err|apply ushape_refl]. }
    destruct o as [idx|v|v|d name|d|d name|d inner|d name m|f|f|f n|f data|f x|f x|f x|f|f|f|d name|d name|v| |f w x|f n|f data|id].
    - destruct Hno.
    - exact (Herr _ _ eq_refl (proj1 (PrHandles.C08_stale_vol_handle v s Hl (no_vol_u v)))).
    - (* OpenRoot *)
      cbn [step]. rewrite lift_run, (open_root_dir_eq v s Hl).
      destruct (is_full (s_dirs s) (s_maxd s)); cbn [fst snd omap]; eexists; eexists; (split; [reflexivity|]).
      + split; [apply ok_err|]. exists ((s_next_id s + 1) mod U32), (s_dirs s). destruct s; reflexivity.
      + split; [apply ok_ok|]. eexists. eexists. unfold PrModes.push_new_dir. destruct s; reflexivity.
    - destruct (open_dir_u d name) as (e & E). apply (Herr _ e eq_refl). cbn [step]. exact (PrHandles.lift_err _ _ _ _ _ E).
    - (* CloseDir *)
      destruct (close_dir_u d) as (r & s' & E & (R1 & R2) & U). cbn [step]. rewrite lift_run, E. cbn [fst snd].
      eexists. eexists. split; [reflexivity|]. split; [|exact U]. split; [rewrite omap_panic; exact R1|rewrite omap_oof; exact R2].
    - apply (Herr _ BadHandle eq_refl). cbn [step]. apply PrHandles.lift_err. unfold mgr_find.
      rewrite (PrHandles.locked_free _ s Hl). apply dir_prefix. exact Hv.
    - apply (Herr _ BadHandle eq_refl). cbn [step]. apply bind_err. unfold mgr_iterate.
      rewrite (PrHandles.locked_free _ s Hl). apply dir_prefix. exact Hv.
    - assert (E : exists e, open_file_in_dir d name m s = (Err e, s)).
      { unfold open_file_in_dir. rewrite (PrHandles.locked_free _ s Hl), PrHandles.bind_get.
        destruct (is_full (s_files s) (s_maxf s)); [eexists; reflexivity|]. exists BadHandle.
        apply (dir_prefix d (fun di dd vi => _)). exact Hv. }
      destruct E as (e & E). apply (Herr _ e eq_refl). cbn [step]. exact (PrHandles.lift_err _ _ _ _ _ E).
    - destruct (PrHandles.C08_stale_file_handle f s Hl (no_file_u f)) as (_ & _ & _ & E & _). exact (Herr _ _ eq_refl E).
    - destruct (PrHandles.C08_stale_file_handle f s Hl (no_file_u f)) as (_ & _ & E & _). exact (Herr _ _ eq_refl E).
    - destruct (PrHandles.C08_stale_file_handle f s Hl (no_file_u f)) as (E & _). exact (Herr _ _ eq_refl (E n)).
    - destruct (PrHandles.C08_stale_file_handle f s Hl (no_file_u f)) as (_ & E & _). exact (Herr _ _ eq_refl (E data)).
    - destruct (PrHandles.C08_stale_file_handle f s Hl (no_file_u f)) as (_ & _ & _ & _ & E & _). exact (Herr _ _ eq_refl (E x)).
    - destruct (PrHandles.C08_stale_file_handle f s Hl (no_file_u f)) as (_ & _ & _ & _ & _ & E & _). exact (Herr _ _ eq_refl (E x)).
    - destruct (PrHandles.C08_stale_file_handle f s Hl (no_file_u f)) as (_ & _ & _ & _ & _ & _ & E & _). exact (Herr _ _ eq_refl (E x)).
    - destruct (PrHandles.C08_stale_file_handle f s Hl (no_file_u f)) as (_ & _ & _ & _ & _ & _ & _ & E & _). exact (Herr _ _ eq_refl E).
    - destruct (PrHandles.C08_stale_file_handle f s Hl (no_file_u f)) as (_ & _ & _ & _ & _ & _ & _ & _ & E & _). exact (Herr _ _ eq_refl E).
    - destruct (PrHandles.C08_stale_file_handle f s Hl (no_file_u f)) as (_ & _ & _ & _ & _ & _ & _ & _ & _ & E). exact (Herr _ _ eq_refl E).
    - apply (Herr _ BadHandle eq_refl). cbn [step]. apply PrHandles.lift_err. unfold delete_file_in_dir.
      rewrite (PrHandles.locked_free _ s Hl). apply dir_prefix. exact Hv.
    - assert (E : exists e, make_dir_in_dir d name s = (Err e, s)).
      { unfold make_dir_in_dir. rewrite (PrHandles.locked_free _ s Hl), PrHandles.bind_get.
        destruct (is_full (s_dirs s) (s_maxd s)); [eexists; reflexivity|]. exists BadHandle. apply dir_prefix. exact Hv. }
      destruct E as (e & E). apply (Herr _ e eq_refl). cbn [step]. exact (PrHandles.lift_err _ _ _ _ _ E).
    - exact (Herr _ _ eq_refl (proj2 (PrHandles.C08_stale_vol_handle v s Hl (no_vol_u v)))).
    - exists (Ok (RBool (negb (PrHandles.is_empty (s_dirs s) && PrHandles.is_empty (s_files s))))), s.
      split; [cbn [step]; exact (PrHandles.lift_ok _ _ _ _ _ (PrHandles.C08_query_truthful s))|]. split; [apply ok_ok|apply ushape_refl].
    - destruct (io_seek_stale f w x s Hl (no_file_u f)) as (e & E). apply (Herr _ e eq_refl). cbn [step].
      exact (PrHandles.lift_err _ _ _ _ _ E).
    - destruct (n =? 0) eqn:En.
      + exists (Ok (RBytes [])), s. split; [cbn [step]; unfold io_read; rewrite En; reflexivity|].
        split; [apply ok_ok|apply ushape_refl].
      + apply (Herr _ BadHandle eq_refl). cbn [step]. unfold io_read. rewrite En. apply PrHandles.lift_err. unfold mgr_read.
        rewrite (PrHandles.locked_free _ s Hl). apply bind_err. apply PrHandles.get_file_by_id_stale. apply no_file_u.
    - destruct data as [|b data].
      + exists (Ok (RNum 0)), s. split; [reflexivity|]. split; [apply ok_ok|apply ushape_refl].
      + apply (Herr _ BadHandle eq_refl). cbn [step]. unfold io_write. apply PrHandles.lift_err. apply bind_err. unfold mgr_write.
        rewrite (PrHandles.locked_free _ s Hl). apply bind_err. apply PrHandles.get_file_by_id_stale. apply no_file_u.
    - destruct Hn.
  Qed.

  (* every extended operation but OpenVol, in scope and in the guard *)
  Theorem xstep_unmounted idx0 o : match o with XOp (OpenVol _) => False | _ => True end ->
    sop_scope_ok idx0 o -> xop_guard o s ->
    exists r s', xstep o s = (r, s') /\ ok_res r /\ ushape s s'.
  Proof.
    intros Hno Ho Hg. destruct o as [o|d n|f|d|v|d name|f|f|f]; cbn [xstep].
    - destruct (step_unmounted o) as (r & s' & E & (R1 & R2) & U).
      { destruct o; try exact I. exact Hno. }
      { exact (sop_xno_remount idx0 (XOp o) Ho). }
      rewrite xlift_run, E. cbn [fst snd]. eexists. eexists. split; [reflexivity|]. split; [|exact U].
      split; [rewrite omap_panic; exact R1|rewrite omap_oof; exact R2].
    - exists (Err BadHandle), s. split; [|split; [apply ok_err|apply ushape_refl]].
      rewrite xlift_run. unfold mgr_iterate_lfn. rewrite (PrHandles.locked_free _ s Hl).
      rewrite (dir_prefix d (fun di dd vi => _) s Hv). reflexivity.
    - exists (Ok (XR RUnit)), s. split; [|split; [apply ok_ok|apply ushape_refl]].
      rewrite xlift_run, drop_file_is_close.
      destruct (PrHandles.C08_stale_file_handle f s Hl (no_file_u f)) as (_ & _ & _ & E & _). cbn [step] in E. rewrite lift_run in E.
      destruct (close_file f s) as [[u|e| |] s1]; cbn [fst snd omap] in E; try discriminate. injection E as _ <-. reflexivity.
    - destruct (close_dir_u d) as (r & s' & E & _ & U). exists (Ok (XR RUnit)), s'.
      split; [|split; [apply ok_ok|exact U]]. rewrite xlift_run, drop_dir_eq_close, E. reflexivity.
    - destruct (close_volume_u v) as (e & E). exists (Ok (XR RUnit)), s. split; [|split; [apply ok_ok|apply ushape_refl]].
      rewrite xlift_run, drop_volume_is_close, E. reflexivity.
    - destruct (open_dir_u d name) as (e & E). exists (Err e), s. split; [|split; [apply ok_err|apply ushape_refl]].
      rewrite xlift_run, change_dir_eq, E. reflexivity.
    - exfalso. cbn [xop_guard] in Hg. rewrite Hf in Hg. destruct Hg.
    - exfalso. cbn [xop_guard] in Hg. rewrite Hf in Hg. destruct Hg.
    - exfalso. cbn [xop_guard] in Hg. rewrite Hf in Hg. destruct Hg.
  Qed.
End Unmounted.

(* ================================================================== 4. the step theorem *)
(* ---- helpers ---- *)
Lemma tsteps_outside s s' ws j : PrCrashDef.traced s s' -> PrOrder.tsteps s s' ws -> ~ In j ws ->
  disk_get (s_disk s') j = disk_get (s_disk s) j.
Proof.
  intros T Ht Hj. rewrite (PrCrashDef.traced_disk _ _ T). apply PrCrash.apply_ws_other.
  rewrite (PrCrashDef.tsteps_step_writes _ _ _ Ht). exact Hj.
Qed.

Lemma region_not_0_lba v fsz : PrBounds.part_layout v (v_nblocks v) fsz ->
  ~ PrBounds.in_region v fsz 0 /\ ~ PrBounds.in_region v fsz (v_lba v).
Proof.
  intros L. split; intros Hr.
  - destruct (PrBounds.C04_regions_not_outside v _ fsz 0 L Hr) as (X & _). apply X. reflexivity.
  - destruct (PrBounds.C04_regions_not_outside v _ fsz _ L Hr) as (_ & X & _). apply X. reflexivity.
Qed.

Lemma xscope_not_mount o : xop_scope_ok o -> PrCrashMount.is_mount (xbase o) = false.
Proof. destruct o as [o| | | | | | | |]; try reflexivity. destruct o; try reflexivity. intros ((_ & F) & _). destruct F. Qed.
Lemma xscope_no_remount o : xop_scope_ok o -> xno_remount o.
Proof. destruct o as [o| | | | | | | |]; try (intros; exact I). intros ((H & _) & _). exact H. Qed.
Lemma sop_xscope idx0 o : sop_scope_ok idx0 o ->
  match o with XOp (OpenVol _) | XOp (CloseVol _) | XDropVol _ => False | _ => True end -> xop_scope_ok o.
Proof.
  destruct o as [o| | | | | | | |]; [destruct o|..]; cbn [sop_scope_ok xop_scope_ok]; intros H Hn;
    try destruct Hn; try exact H; try exact I; exact (conj (conj (proj1 H) I) (proj2 H)).
Qed.

Lemma fs_inv_vids fsz vid s : fs_inv fsz vid s -> vids_ok vid s.
Proof.
  intros Hinv x Hx. destruct (fs_inv_vols fsz vid s Hinv) as (v & Ev & Eid).
  unfold PrHandles.vids in Hx. rewrite Ev in Hx. destruct Hx as [<-|[]]. exact Eid.
Qed.

(* ---- mounted: what every call that is not a top-level OpenVol keeps, given where it wrote ---- *)
Lemma mounted_common fsz d0 v0 s o r s' vid w ws :
  sess_at fsz d0 v0 s -> fs_inv fsz vid s -> s_vols s = [w] -> relabel v0 w ->
  PrCrashMount.is_mount (xbase o) = false -> xstep o s = (r, s') ->
  PrOrder.tsteps s s' ws -> Forall (PrBounds.in_region w fsz) ws ->
  s_maxv s' = 1 /\ disk_get (s_disk s') 0 = disk_get d0 0 /\
  disk_get (s_disk s') (v_lba v0) = disk_get d0 (v_lba v0) /\ PrCrashMount.info_sig (s_disk s') v0 /\
  Forall (PrBounds.in_region v0 fsz) ws.
Proof.
  intros [Sm S0 Sb Ss _] Hinv Ev R Hm E Hts Hw.
  destruct Hinv as (vi & v & bl & rch & T & Hat).
  pose proof (fi_single _ _ _ _ _ _ _ _ Hat) as Ev'. rewrite Ev in Ev'. injection Ev' as <-.
  pose proof (fi_layout _ _ _ _ _ _ _ _ Hat) as L.
  destruct (region_not_0_lba w fsz L) as (N0 & Nl).
  destruct (relabel_size v0 w R) as (El & _).
  assert (Tr : PrCrashDef.traced s s') by (pose proof (traced_xstep o s) as X; rewrite E in X; exact X).
  assert (Hout : forall j, ~ PrBounds.in_region w fsz j -> disk_get (s_disk s') j = disk_get (s_disk s) j).
  { intros j Hj. apply (tsteps_outside s s' ws j Tr Hts). intros Hin. rewrite Forall_forall in Hw. exact (Hj (Hw j Hin)). }
  split.
  { destruct (xstep_effect o s r s' E) as ((X & _) & _). rewrite X. exact Sm. }
  split; [rewrite (Hout 0 N0); exact S0|].
  split; [rewrite <- El, (Hout _ Nl), El; exact Sb|].
  split.
  - apply (info_sig_relabel _ v0 w R). apply (info_sig_relabel _ v0 w R) in Ss.
    unfold PrCrashMount.info_sig. destruct (v_fat32 w) eqn:E32; [|exact I].
    pose proof (PrCrashMount2.fs_inv_J fsz vid s vi w bl rch T Hat E32 Ss) as HJ.
    destruct (PrCrashMount2.J_step (v_info w) (xbase o) s Hm HJ) as (J1 & _).
    destruct (xstep_state o s) as (l & El'). rewrite E in El'. cbn [snd] in El'. subst s'.
    exact (PrCrashMount.J_disk _ _ J1).
  - rewrite Forall_forall in *. intros i Hi. apply (in_region_relabel v0 w fsz i R). exact (Hw i Hi).
Qed.

(* ---- mounted: an operation in the scope of the one-volume history theorems ---- *)
Lemma sess_mounted_generic fsz d0 v0 s o r s' :
  sess_at fsz d0 v0 s -> sess_mounted fsz v0 s -> id_fresh s ->
  xop_scope_ok o -> xop_guard o s -> xstep o s = (r, s') -> sess_post fsz d0 v0 s r s'.
Proof.
  intros Hs (vid & w & Hinv & Ev & R & Ht) Hid Ho Hg E.
  destruct (all_xsteps_ok fsz vid o s r s' Hinv Hid Ho Hg E) as (R1 & R2 & Hinv' & (x & y & Ex & Ey & G) & ws & Hts & Hw).
  rewrite Ev in Ex. injection Ex as <-.
  specialize (Hw w ltac:(rewrite Ev; left; reflexivity)).
  destruct (mounted_common fsz d0 v0 s o r s' vid w ws Hs Hinv Ev R (xscope_not_mount o Ho) E Hts Hw) as (M1 & M2 & M3 & M4 & M5).
  split; [exact R1|]. split; [exact R2|]. split; [|exists ws; split; assumption].
  constructor; try assumption. right. exists vid, y.
  split; [exact Hinv'|]. split; [exact Ey|]. split; [exact (relabel_geo_r v0 w y R G)|].
  pose proof (xstep_dirs vid o s r s' (fs_inv_lock fsz vid s Hinv) (fs_inv_vids fsz vid s Hinv) (xscope_no_remount o Ho) E) as Hd.
  unfold dirs_tame in *. rewrite Forall_forall in *. intros dd Hin.
  destruct (Hd dd Hin) as [Hold|[Hroot|Hvol]]; [exact (Ht dd Hold)|left; exact Hroot|right; exact Hvol].
Qed.

(* ---- mounted: a second OpenVol is refused (room for one volume) ---- *)
Lemma sess_mounted_openvol fsz d0 v0 s idx r s' :
  sess_at fsz d0 v0 s -> sess_mounted fsz v0 s -> xstep (XOp (OpenVol idx)) s = (r, s') ->
  r = Err TooManyOpenVolumes /\ s' = s.
Proof.
  intros Hs (vid & w & Hinv & Ev & _) E.
  assert (Hfull : is_full (s_vols s) (s_maxv s) = true) by (rewrite Ev, (sa_maxv _ _ _ _ Hs); reflexivity).
  pose proof (proj1 (PrHandles.C08_limit_errors s (fs_inv_lock fsz vid s Hinv)) Hfull idx) as E1.
  cbn [xstep] in E. rewrite xlift_run, E1 in E. cbn [fst snd omap] in E. injection E as <- <-. split; reflexivity.
Qed.

Lemma sess_post_same fsz d0 v0 s (r : outcome xres) : sess_at fsz d0 v0 s -> r <> Panic -> r <> OutOfFuel ->
  sess_post fsz d0 v0 s r s.
Proof.
  intros Hs R1 R2. split; [exact R1|]. split; [exact R2|]. split; [exact Hs|].
  exists []. split; [apply PrOrder.tsteps_refl|constructor].
Qed.

(* ---- mounted: CloseVol / the drop of a Volume ---- *)
(* refused (a file or directory of the volume is open, or the handle is not the mounted one): nothing
   happens; otherwise the free-space record is stored in the FAT32 information sector and the volume
   table is empty *)
Lemma close_volume_mounted fsz vid s w h : fs_inv fsz vid s -> s_vols s = [w] ->
  (exists e, close_volume h s = (Err e, s)) \/
  (h = vid /\ existsb (fun f => f_vol f =? vid) (s_files s) = false /\
   existsb (fun d => d_vol d =? vid) (s_dirs s) = false /\
   exists s1, update_info_sector 0 s = (Ok tt, s1) /\ close_volume vid s = (Ok tt, set_s_vols s1 [])).
Proof.
  intros Hinv Ev. pose proof (fs_inv_lock fsz vid s Hinv) as Hl.
  destruct (fs_inv_vols fsz vid s Hinv) as (w' & Ev' & Eid). rewrite Ev in Ev'. injection Ev' as <-.
  assert (Hconv : forall e, step (CloseVol h) s = (Err e, s) -> exists e', close_volume h s = (Err e', s)).
  { intros e E. cbn [step] in E. rewrite lift_run in E.
    destruct (close_volume h s) as [[u|e0| |] s1]; cbn [fst snd omap] in E; try discriminate.
    injection E as _ <-. eexists. reflexivity. }
  destruct (N.eq_dec h vid) as [->|Hne].
  2:{ left. apply (Hconv _ (proj1 (PrHandles.C08_stale_vol_handle h s Hl ltac:(intros x Hx; rewrite Ev in Hx; destruct Hx as [<-|[]]; congruence)))). }
  destruct (existsb (fun f => f_vol f =? vid) (s_files s) || existsb (fun d => d_vol d =? vid) (s_dirs s)) eqn:Hx.
  { left. exact (Hconv _ (C08_unmount_refused fsz vid s Hinv Hx)). }
  apply orb_false_iff in Hx. destruct Hx as (Hxf & Hxd). right.
  split; [reflexivity|]. split; [exact Hxf|]. split; [exact Hxd|].
  destruct Hinv as (vi & v & bl & rch & T & Hat).
  assert (Evw : v = w) by (pose proof (fi_single _ _ _ _ _ _ _ _ Hat) as X; rewrite Ev in X; congruence). subst v.
  destruct (C08_mount_unmount fsz vid s vi w bl rch T Hat Hxf Hxd) as (s8 & E8 & _).
  destruct (go_facts _ _ _ _ _ _ _ _ Hat) as (_ & Hnf & Hc & _ & _ & Hv0 & _).
  cbn [step] in E8. rewrite lift_run in E8.
  assert (Erun : close_volume vid s =
            match update_info_sector 0 s with
            | (Ok _, s1) => (Ok tt, set_s_vols s1 (swap_remove (s_vols s1) 0))
            | (Err e, s1) => (Err e, s1) | (Panic, s1) => (Panic, s1) | (OutOfFuel, s1) => (OutOfFuel, s1)
            end).
  { unfold close_volume. rewrite (PrHandles.locked_free _ s Hl), PrHandles.bind_get, Hxf, Hxd.
    unfold bind at 1. rewrite PrHandles.get_volume_by_id_eq, Ev. cbn [find_idx]. rewrite <- Eid, N.eqb_refl.
    unfold bind, modify. destruct (update_info_sector 0 s) as [[u|e| |] s1]; reflexivity. }
  rewrite Erun in E8 |- *.
  destruct (update_info_sector 0 s) as [[u|e| |] s1] eqn:Eu; cbn [fst snd omap] in E8; try discriminate.
  destruct u. exists s1. split; [reflexivity|].
  destruct (PrBounds.update_info_sector_steps 0 w s s1 (conj Hnf Hc) Hv0 Eu) as (ws & _ & (M1 & _) & _).
  rewrite M1, Ev. reflexivity.
Qed.

Lemma sess_mounted_closevol fsz d0 v0 s o h r s' :
  sess_at fsz d0 v0 s -> sess_mounted fsz v0 s -> (o = XOp (CloseVol h) \/ o = XDropVol h) ->
  xstep o s = (r, s') -> sess_post fsz d0 v0 s r s'.
Proof.
  intros Hs (vid & w & Hinv & Ev & R & Ht) Ho E.
  assert (Hb : xbase o = CloseVol h) by (destruct Ho as [-> | ->]; reflexivity).
  assert (Hrun : s' = snd (close_volume h s) /\
                 (forall e, fst (close_volume h s) = Err e -> r <> Panic /\ r <> OutOfFuel) /\
                 (fst (close_volume h s) = Ok tt -> r <> Panic /\ r <> OutOfFuel)).
  { destruct Ho as [-> | ->]; cbn [xstep step] in E; rewrite xlift_run in E.
    - rewrite lift_run in E. cbn [fst snd] in E. injection E as <- <-. split; [reflexivity|].
      split; [intros e ->|intros ->]; split; discriminate.
    - rewrite drop_volume_is_close in E. destruct (close_volume h s) as [[u|e| |] s1]; cbn [fst snd discard omap] in *;
        injection E as <- <-; (split; [reflexivity|]); split; intros; try discriminate; split; discriminate. }
  destruct Hrun as (-> & Herr & Hok).
  destruct (close_volume_mounted fsz vid s w h Hinv Ev) as [(e & Ec)|(-> & Hxf & Hxd & s1 & Eu & Ec)].
  - rewrite Ec in *. cbn [fst snd] in *. destruct (Herr e eq_refl) as (R1 & R2). exact (sess_post_same _ _ _ _ _ Hs R1 R2).
  - rewrite Ec in *. cbn [fst snd] in *. destruct (Hok eq_refl) as (R1 & R2).
    pose proof Hinv as (vi & v & bl & rch & T & Hat).
    pose proof (fi_single _ _ _ _ _ _ _ _ Hat) as Ev'. rewrite Ev in Ev'. injection Ev' as <-.
    destruct (go_facts _ _ _ _ _ _ _ _ Hat) as (_ & Hnf & Hc & _ & _ & Hv0 & _).
    destruct (PrBounds.update_info_sector_steps 0 w s s1 (conj Hnf Hc) Hv0 Eu) as (ws & (Hts & _) & _ & Hcases).
    assert (Hts' : PrOrder.tsteps s (set_s_vols s1 []) ws) by (apply (tsteps_trace_eq s s1 _ ws Hts); reflexivity).
    assert (Hw : Forall (PrBounds.in_region w fsz) ws).
    { destruct Hcases as [->|(-> & E32)]; [constructor|]. constructor; [|constructor].
      right. right. right. split; [exact E32|reflexivity]. }
    destruct (mounted_common fsz d0 v0 s o r _ vid w ws Hs Hinv Ev R ltac:(rewrite Hb; reflexivity) E Hts' Hw) as (M1 & M2 & M3 & M4 & M5).
    destruct (C08_mount_unmount fsz vid s vi w bl rch T Hat Hxf Hxd) as
      (s8 & E8 & _ & _ & _ & _ & _ & _ & _ & Hwf & _ & _ & Hdi & Hfresh).
    assert (Es8 : s8 = set_s_vols s1 []).
    { cbn [step] in E8. rewrite lift_run, Ec in E8. cbn [fst snd omap] in E8. injection E8 as <-. reflexivity. }
    subst s8.
    assert (Hroot : Forall root_handle (s_dirs s)).
    { unfold dirs_tame in Ht. rewrite Forall_forall in *. intros dd Hin. destruct (Ht dd Hin) as [Hr|Hvol]; [exact Hr|].
      exfalso. assert (X : existsb (fun d => d_vol d =? vid) (s_dirs s) = true).
      { apply existsb_exists. exists dd. split; [exact Hin|apply N.eqb_eq; exact Hvol]. }
      rewrite Hxd in X. discriminate X. }
    pose proof (relabel_sym v0 w R) as R'. destruct (relabel_size v0 w R) as (El & En & _).
    split; [exact R1|]. split; [exact R2|]. split; [|exists ws; split; assumption].
    constructor; try assumption. left. constructor.
    + exact (Hfresh Hroot).
    + exact Hwf.
    + rewrite <- En. exact (part_layout_relabel w v0 _ fsz R' (fi_layout _ _ _ _ _ _ _ _ Hat)).
    + rewrite <- El, <- En. exact (fi_dev _ _ _ _ _ _ _ _ Hat).
    + exists bl, rch, T. exact (disk_inv_relabel _ w v0 _ _ _ _ R' Hdi).
Qed.

(* ---- unmounted: OpenVol of the session's partition succeeds and establishes the invariant ---- *)
Lemma quiet_bpb_create b : PrGlobalWrite.quiet (bpb_create b).
Proof. unfold bpb_create. PrCrashDef3.qt_go. Qed.
Lemma quiet_parse_volume id idx lba nb : PrGlobalWrite.quiet (parse_volume id idx lba nb).
Proof. pose proof quiet_bpb_create. unfold parse_volume. PrCrashDef3.qt_go; auto. Qed.
Lemma quiet_open_raw_volume idx : PrGlobalWrite.quiet (open_raw_volume idx).
Proof.
  pose proof quiet_parse_volume. pose proof PrCrashDef3.quiet_generate.
  unfold open_raw_volume. apply PrGlobalWrite.quiet_locked. PrCrashDef3.qt_go; auto.
Qed.

Lemma sess_unmounted_openvol fsz idx0 d0 v0 s r s' : mount_witness d0 idx0 v0 ->
  sess_at fsz d0 v0 s -> sess_unmounted fsz v0 s -> xstep (XOp (OpenVol idx0)) s = (r, s') ->
  r = Ok (XR (RHandle (s_next_id s))) /\ sess_post fsz d0 v0 s r s' /\ fs_inv fsz (s_next_id s) s'.
Proof.
  intros (sa & vid & sa' & Fa & Eda & Ea & Eva) Hs [F Hwf L Hdev (bl & rch & T & Hdi)] E.
  pose proof Hs as [Sm S0 Sb Ss _].
  assert (Hsig : v_fat32 v0 = true -> PrCrashMount.sig3 (disk_get (s_disk s) (v_info v0))).
  { intros E32. unfold PrCrashMount.info_sig in Ss. rewrite E32 in Ss. exact (proj2 Ss). }
  destruct (PrCrashMount2.mount_depends idx0 sa vid sa' v0 s Fa F ltac:(rewrite Sm; reflexivity) Ea Eva
              ltac:(rewrite Eda; exact S0) ltac:(rewrite Eda; exact Sb) Hsig) as (sb & v' & Eb & Evb & _ & R & Edb).
  cbn [xstep] in E. rewrite xlift_run, Eb in E. cbn [fst snd omap] in E. injection E as <- <-.
  destruct (relabel_size v0 v' R) as (El & En & _).
  assert (Hdi' : disk_inv (s_disk sb) v' bl rch T []) by (rewrite Edb; exact (disk_inv_relabel _ v0 v' _ _ _ _ R Hdi)).
  assert (Hinv : fs_inv fsz (s_next_id s) sb).
  { apply (mount_fs_inv_core fsz idx0 s _ sb v' bl rch T F Hwf Eb Evb); [| |exact Hdi'].
    - rewrite En. exact (part_layout_relabel v0 v' _ fsz R L).
    - rewrite El, En. exact Hdev. }
  destruct (mount_run idx0 s _ sb F Eb) as (_ & _ & _ & _ & _ & _ & Edirs & _).
  split; [reflexivity|]. split; [|exact Hinv].
  split; [discriminate|]. split; [discriminate|]. split.
  - constructor.
    + destruct (PrHandles.step_effect (OpenVol idx0) s _ sb Eb) as ((X & _) & _). rewrite X. exact Sm.
    + rewrite Edb. exact S0.
    + rewrite Edb. exact Sb.
    + rewrite Edb. exact Ss.
    + right. exists (s_next_id s), v'. split; [exact Hinv|]. split; [exact Evb|]. split; [exact R|].
      unfold dirs_tame. rewrite Edirs. destruct F as (_ & Hroot & _).
      apply (Forall_impl _ (P := root_handle)); [|exact Hroot]. intros dd Hr. left. exact Hr.
  - exists []. split; [|constructor].
    cbn [step] in Eb. apply PrHandles.lift_state in Eb. destruct Eb as (o1 & Eb).
    destruct (quiet_open_raw_volume idx0 s o1 sb Eb) as (_ & new & Et & W). exists new. split; assumption.
Qed.

(* ---- unmounted: everything else is a refusal, or pushes / removes a stale root handle ---- *)
Lemma sess_unmounted_other fsz idx0 d0 v0 s o r s' :
  sess_at fsz d0 v0 s -> sess_unmounted fsz v0 s ->
  match o with XOp (OpenVol _) => False | _ => True end ->
  sop_scope_ok idx0 o -> xop_guard o s -> xstep o s = (r, s') -> sess_post fsz d0 v0 s r s'.
Proof.
  intros Hs Hu Hno Ho Hg E. pose proof Hs as [Sm S0 Sb Ss _]. pose proof Hu as [F Hwf L Hdev Hdi].
  pose proof F as (Fv & Froot & Ff & Fl & Fnf & Fc).
  destruct (xstep_unmounted s Fv Ff Fl idx0 o Hno Ho Hg) as (r1 & s1 & E1 & (R1 & R2) & (n & l & Es)).
  rewrite E in E1. injection E1 as <- <-.
  assert (Hv0 : forall k, vids_ok k s) by (intros k x Hx; unfold PrHandles.vids in Hx; rewrite Fv in Hx; destruct Hx).
  pose proof (xstep_dirs 0 o s r s' Fl (Hv0 0) (sop_xno_remount idx0 o Ho) E) as D0.
  pose proof (xstep_dirs 1 o s r s' Fl (Hv0 1) (sop_xno_remount idx0 o Ho) E) as D1.
  assert (Hroot' : Forall root_handle (s_dirs s')).
  { rewrite Forall_forall in *. intros dd Hin.
    destruct (D0 dd Hin) as [Hold|[Hr|H0]]; [exact (Froot dd Hold)|exact Hr|].
    destruct (D1 dd Hin) as [Hold|[Hr|H1]]; [exact (Froot dd Hold)|exact Hr|]. rewrite H0 in H1. discriminate H1. }
  subst s'. cbn [s_dirs set_s_next_id set_s_dirs] in Hroot'.
  split; [exact R1|]. split; [exact R2|]. split.
  - constructor; try assumption. left. constructor; try assumption.
    unfold fresh_mgr. cbn [s_vols s_dirs s_files s_lock set_s_next_id set_s_dirs].
    split; [exact Fv|]. split; [exact Hroot'|]. split; [exact Ff|]. split; [exact Fl|]. split; [exact Fnf|exact Fc].
  - exists []. split; [apply PrOrder.tsteps_same_trace; reflexivity|constructor].
Qed.

(* THE STEP THEOREM.  From the session invariant (mounted or not), inside the handle window, every
   operation in the session scope and in the guard of the File wrappers: no panic, no fuel exhaustion,
   the session invariant again (same witness medium, same reference record: the geometry never
   changes), and every device write of the call lies in a region of the volume *)
Theorem sess_step_ok fsz idx0 d0 v0 : mount_witness d0 idx0 v0 -> forall o s r s',
  sess_at fsz d0 v0 s -> id_fresh s -> sop_scope_ok idx0 o -> xop_guard o s -> xstep o s = (r, s') ->
  sess_post fsz d0 v0 s r s'.
Proof.
  intros Hwit o s r s' Hs Hid Ho Hg E. destruct (sa_phase _ _ _ _ Hs) as [Hu|Hm].
  - (* nothing mounted *)
    assert (Hcase : (exists idx, o = XOp (OpenVol idx)) \/ match o with XOp (OpenVol _) => False | _ => True end).
    { destruct o as [o| | | | | | | |]; try (right; exact I). destruct o; try (right; exact I). left. eexists. reflexivity. }
    destruct Hcase as [(idx & ->)|Hno].
    + cbn [sop_scope_ok] in Ho. subst idx.
      exact (proj1 (proj2 (sess_unmounted_openvol fsz idx0 d0 v0 s r s' Hwit Hs Hu E))).
    + exact (sess_unmounted_other fsz idx0 d0 v0 s o r s' Hs Hu Hno Ho Hg E).
  - (* a volume is mounted *)
    assert (Hcase : (exists idx, o = XOp (OpenVol idx)) \/ (exists h, o = XOp (CloseVol h) \/ o = XDropVol h) \/
                    match o with XOp (OpenVol _) | XOp (CloseVol _) | XDropVol _ => False | _ => True end).
    { destruct o as [o| | | | | | | |]; try (right; right; exact I).
      - destruct o; try (right; right; exact I); [left|right; left]; eexists; [reflexivity|left; reflexivity].
      - right. left. eexists. right. reflexivity. }
    destruct Hcase as [(idx & ->)|[(h & Hh)|Hno]].
    + destruct (sess_mounted_openvol fsz d0 v0 s idx r s' Hs Hm E) as (-> & ->).
      apply sess_post_same; [exact Hs|discriminate|discriminate].
    + exact (sess_mounted_closevol fsz d0 v0 s o h r s' Hs Hm Hh E).
    + exact (sess_mounted_generic fsz d0 v0 s o r s' Hs Hm Hid (sop_xscope idx0 o Ho Hno) Hg E).
Qed.

Print Assumptions xstep_unmounted.
Print Assumptions close_volume_mounted.
Print Assumptions sess_unmounted_openvol.
Print Assumptions sess_step_ok.
