(* PROOFS: C11 for whole histories, the writing file operations: Write, IoWrite, CloseFile.
   1. `pfxG TE (mgr_write h data)`: under ANY fault schedule a faulted Write ends with SOME error
      (DeviceError; DiskFull when the fault hit the cluster allocation inside the write loop) and its
      successful device writes are a PREFIX of those of the fault-free Write: no write after the fault.
      The three sites that are not plain re-raises: fdod_walk and find_data_on_disk keep the device
      error as a VALUE (taints TW / TF below: only `DeviceError` may be the kept value, because
      write_loop answers a kept EndOfFile with alloc_cluster - device calls), write_loop maps a
      failed alloc_cluster to DiskFull.
   2. `step_fault_Write`, `step_fault_IoWrite` from PrFaultDef5.step_fault_pfxG.
   3. `pfxG TE (close_file h)` and `step_fault_CloseFile`; what a failed close does to the handle
      (`close_failed_drops_record`, FINDING close-drops-dirty-record at the end of the file). *)
From Coq Require Import NArith ZArith List Bool Lia Arith FMapPositive.
From SdFs Require Import FsTypes FsBase FsFat FsMgr FsLemmas PrBase PrAllocEffect PrChain PrFault PrGlobalDef.
From SdFs Require PrHandles PrCrash PrGlobal PrCrashAll PrSeek PrEntry.
From SdFs Require Import PrFault2 PrCrashDef PrCrashDef2 PrCrashDef4.
From SdFs Require Import PrFaultDef PrFaultDef2 PrFaultDef3 PrFaultDef4 PrFaultDef5.
Import ListNotations.
Open Scope N_scope.

(* ================================================================== 1. taints that contain every error *)
(* the error kinds of a faulted Write: the device error itself; DiskFull when the fault hit the
   alloc_cluster of the write loop (`inr _ => fail DiskFull`); AllocationError when the allocation
   went through and the fault hit the second find_data_on_disk (`inr _ => fail AllocationError`).
   DeviceError and DiskFull both occur (write_fault_DiskFull below); AllocationError is an upper bound
   of the ANY-schedule statement: with one armed fault in a sound state the second lookup finds the FAT
   sector it needs in the cache (alloc_cluster's last step wrote it) and makes no device call - not
   proved here. *)
Definition wkind (e : err) : Prop := e = DeviceError \/ e = DiskFull \/ e = AllocationError.
(* the result of a faulted run is an error of these kinds *)
Definition TE {A} (r : outcome A) : Prop := exists e, r = Err e /\ wkind e.
(* a taint that accepts every such error result: the binds below it pass the taint on *)
Definition sup {A} (T : outcome A -> Prop) : Prop := forall e, wkind e -> T (Err e).

Lemma sup_TE {A} : sup (@TE A).
Proof. intros e He. exists e. split; [reflexivity|exact He]. Qed.
Lemma TE_dev {A} : @TE A (Err DeviceError).
Proof. exists DeviceError. split; [reflexivity|left; reflexivity]. Qed.
Lemma TE_full {A} : @TE A (Err DiskFull).
Proof. exists DiskFull. split; [reflexivity|right; left; reflexivity]. Qed.
Lemma TE_alloc {A} : @TE A (Err AllocationError).
Proof. exists AllocationError. split; [reflexivity|right; right; reflexivity]. Qed.

Lemma pfxG_sup {A} (T : outcome A -> Prop) (m : M A) : sup T -> pfx m -> pfxG T m.
Proof.
  intros HT Hm. apply (pfxG_weaken (fun r => r = Err DeviceError)); [intros r ->; apply HT; left; reflexivity|exact Hm].
Qed.

Lemma pfxG_bind_sup {A B} (T2 : outcome B -> Prop) (m : M A) (k : A -> M B) :
  sup T2 -> pfxG TE m -> (forall a, pfxG T2 (k a)) -> pfxG T2 (bind m k).
Proof.
  intros HT Hm Hk. apply (pfxG_bind_err TE T2); [exact Hm|exact Hk|].
  intros r1 (e & -> & He). split; [intros a; discriminate|apply HT; exact He].
Qed.

(* a caught device error: the handler h is run on `inr DeviceError` and must be quiet *)
Lemma pfxG_try_bind {A B} (T2 : outcome B -> Prop) (m : M A) (k : A + err -> M B) :
  pfx m -> (forall x, pfxG T2 (k x)) ->
  (forall s1 r s', k (inr DeviceError) s1 = (r, s') -> T2 r /\ tr_ext s1 s' []) ->
  pfxG T2 (bind (try m) k).
Proof.
  intros Hm Hk Hq.
  apply (pfxG_bind (caught (fun r => r = Err DeviceError)) T2);
    [apply pfxG_try, pfxG_of_pfx, Hm|exact Hk|].
  intros r1 s1 r s' H1 E. destruct r1 as [[a|e]|e| |]; cbn [caught] in H1; try discriminate; try contradiction.
  injection H1 as ->. cbn [tail] in E. exact (Hq _ _ _ E).
Qed.

(* any error at all (close_file: the handler may also answer LockError / BadHandle) *)
Definition TC {A} (r : outcome A) : Prop := exists e, r = Err e.
Lemma sup_TC {A} : sup (@TC A).
Proof. intros e _. exists e. reflexivity. Qed.

Ltac sup_tac := first [apply sup_TE | apply sup_TC | intros ? ?; left; eexists; split; [reflexivity|assumption]].
Ltac pg_step :=
  cbn beta iota;
  lazymatch goal with
  | |- pfxG _ (bind get _) => apply pfxG_bind_get; [intros ?|intros ?; reflexivity]
  | |- pfxG _ (bind (try _) _) => fail
  | |- pfxG _ (bind (find_data_on_disk _ _ _ _) _) => fail
  | |- pfxG _ (bind (fdod_walk _ _ _ _) _) => fail
  | |- pfxG _ (bind _ _) => apply pfxG_bind_sup; [sup_tac| |intros ?]
  | |- pfxG _ (modify _) =>
      apply pfxG_sup; [sup_tac|apply pfx_modify; [intros ?; reflexivity|intros ?; split; reflexivity]]
  | |- pfxG _ (if ?c then _ else _) => destruct c
  | |- pfxG _ (match ?x with _ => _ end) => destruct x
  | |- pfxG _ (let _ := _ in _) => cbv zeta
  | |- pfxG _ _ => solve [apply pfxG_sup; [sup_tac|auto 2 with pfx]]
  end.
Ltac pg_go := repeat pg_step.

(* ================================================================== 2. the cluster walk and find_data_on_disk *)
(* the walk stopped by the fault hands the device error back as a value *)
Definition TW (r : outcome ((N * N) * option err)) : Prop :=
  TE r \/ exists st, r = Ok (st, Some DeviceError).
Definition TF (r : outcome ((N * N) * ((N * N * N) + err))) : Prop :=
  TE r \/ exists st, r = Ok (st, inr DeviceError).

Lemma pfxG_fdod_walk v : forall n so sc, pfxG TW (fdod_walk n v so sc).
Proof.
  induction n as [|n IH]; intros so sc; cbn [fdod_walk].
  - pg_go.
  - apply pfxG_try_bind; [apply pfx_next_cluster| |].
    + intros [c|e]; pg_go. apply IH.
    + intros s1 r s' E. injection E as <- <-. split; [right; eexists; reflexivity|apply tr_ext_refl].
Qed.

Lemma pfxG_find_data_on_disk vi start file_start desired :
  pfxG TF (find_data_on_disk vi start file_start desired).
Proof.
  unfold find_data_on_disk. pg_go.
  apply (pfxG_bind TW TF); [apply pfxG_fdod_walk| |].
  - intros [st' oe]. pg_go.
  - intros r1 s1 r s' [(e & -> & He)|(st & ->)] E; cbn [tail] in E.
    + injection E as <- <-. split; [left; exists e; split; [reflexivity|exact He]|apply tr_ext_refl].
    + injection E as <- <-. split; [right; eexists; reflexivity|apply tr_ext_refl].
Qed.

(* a bind on find_data_on_disk whose continuation fails quietly on a kept DeviceError *)
Lemma pfxG_bind_fdod {B} (T2 : outcome B -> Prop) vi start fs0 des
      (k : (N * N) * ((N * N * N) + err) -> M B) :
  sup T2 -> (forall a, pfxG T2 (k a)) ->
  (forall st s1 r s', k (st, inr DeviceError) s1 = (r, s') -> T2 r /\ tr_ext s1 s' []) ->
  pfxG T2 (bind (find_data_on_disk vi start fs0 des) k).
Proof.
  intros HT Hk Hq. apply (pfxG_bind TF T2); [apply pfxG_find_data_on_disk|exact Hk|].
  intros r1 s1 r s' [(e & -> & He)|(st & ->)] E; cbn [tail] in E.
  - injection E as <- <-. split; [apply HT; exact He|apply tr_ext_refl].
  - exact (Hq _ _ _ _ E).
Qed.

(* ================================================================== 3. write_loop, mgr_write, io_write *)
Lemma pfxG_write_loop fi vi : forall fuel data, pfxG TE (write_loop fuel fi vi data).
Proof.
  induction fuel as [|fu IH]; intros data; cbn [write_loop]; [pg_go|].
  destruct data as [|d0 data]; [pg_go|].
  pg_go.
  apply pfxG_bind_fdod; [sup_tac| |].
  - intros [cur r]. pg_go.
    + (* EndOfFile: allocate, then look again *)
      apply pfxG_try_bind; [apply pfx_alloc_cluster| |].
      * intros [c|e]; pg_go.
        apply pfxG_bind_fdod; [sup_tac| |].
        -- intros [cur2 r2]. pg_go.
        -- intros st s1 r s' E. injection E as <- <-. split; [apply TE_alloc|apply tr_ext_refl].
      * intros s1 r s' E. injection E as <- <-. split; [apply TE_full|apply tr_ext_refl].
    + apply IH.
  - intros st s1 r s' E. injection E as <- <-. split; [apply TE_dev|apply tr_ext_refl].
Qed.

Theorem pfxG_mgr_write h data : pfxG TE (mgr_write h data).
Proof.
  unfold mgr_write. apply pfxG_locked. pg_go. apply pfxG_write_loop.
Qed.

Theorem pfxG_io_write h data : pfxG TE (io_write h data).
Proof.
  unfold io_write. destruct data as [|d0 data]; [pg_go|]. pg_go. apply pfxG_mgr_write.
Qed.

Lemma pfxG_lift {A} (f : A -> res) (m : M A) : pfxG TE m -> pfxG TE (lift f m).
Proof. intros H. unfold lift. apply pfxG_bind_sup; [sup_tac|exact H|intros a; pg_go]. Qed.

(* under ANY fault schedule: a faulted Write returns an error and has performed a prefix of the
   device writes of the Write without the fault *)
Theorem pfxG_step_Write_kinds h data : pfxG TE (step (Write h data)).
Proof. cbn [step]. apply pfxG_lift, pfxG_mgr_write. Qed.
Theorem pfxG_step_IoWrite_kinds h data : pfxG TE (step (IoWrite h data)).
Proof. cbn [step]. apply pfxG_lift, pfxG_io_write. Qed.
Lemma TE_err {A} (r : outcome A) : TE r -> exists e, r = Err e.
Proof. intros (e & -> & _). exists e. reflexivity. Qed.
Theorem pfxG_step_Write h data : pfxG (fun r => exists e, r = Err e) (step (Write h data)).
Proof. exact (pfxG_weaken _ _ _ TE_err (pfxG_step_Write_kinds h data)). Qed.
Theorem pfxG_step_IoWrite h data : pfxG (fun r => exists e, r = Err e) (step (IoWrite h data)).
Proof. exact (pfxG_weaken _ _ _ TE_err (pfxG_step_IoWrite_kinds h data)). Qed.

(* ================================================================== 4. the obligations of PrFaultDef *)
Theorem step_fault_Write fsz vid h data : step_fault fsz vid (Write h data).
Proof.
  apply (step_fault_pfxG (fun r => exists e, r = Err e)); try reflexivity; try exact I. apply pfxG_step_Write.
Qed.
Theorem step_fault_IoWrite fsz vid h data : step_fault fsz vid (IoWrite h data).
Proof.
  apply (step_fault_pfxG (fun r => exists e, r = Err e)); try reflexivity; try exact I. apply pfxG_step_IoWrite.
Qed.

(* ================================================================== 5. CloseFile *)
(* close_file = flush, then - WHATEVER the flush returned - remove the record, then hand the flush
   error up (FsMgr.close_file; src/volume_mgr.rs close_file: `let flush_result = self.flush_file(file);
   ... data.open_files.swap_remove(file_idx); flush_result`).  The handler makes no device call. *)
Theorem pfxG_close_file h : pfxG TC (close_file h).
Proof.
  unfold close_file. apply pfxG_try_bind; [apply pfx_flush_file| |].
  - intros x. apply pfxG_locked. pg_go.
  - intros s1 r s' E. unfold locked in E. rewrite PrHandles.bind_get in E.
    destruct (s_lock s1).
    { injection E as <- <-. split; [eexists; reflexivity|apply tr_ext_refl]. }
    unfold bind at 1 in E. rewrite PrHandles.get_file_by_id_eq in E.
    destruct (find_idx (fun f => f_id f =? h) (s_files s1) 0) as [j|].
    + unfold bind, modify, fail in E. injection E as <- <-.
      split; [eexists; reflexivity|apply tr_ext_same; reflexivity].
    + injection E as <- <-. split; [eexists; reflexivity|apply tr_ext_refl].
Qed.

Theorem pfxG_step_CloseFile h : pfxG (fun r => exists e, r = Err e) (step (CloseFile h)).
Proof.
  cbn [step]. unfold lift. apply (pfxG_bind_err TC TC); [apply pfxG_close_file|intros a; pg_go|].
  intros r1 (e & ->). split; [intros a; discriminate|exists e; reflexivity].
Qed.

Lemma fs_inv_fids fsz vid s : fs_inv fsz vid s -> NoDup (PrHandles.fids s).
Proof. intros (vi & v & bl & rch & T & H). exact (fi_fids _ _ _ _ _ _ _ _ H). Qed.

(* a CloseFile that reached the device was given an open handle: a stale handle is refused before
   any device call (PrHandles.C08_stale_file_handle) *)
Lemma close_reached_open h s i r s' : s_lock s = false ->
  step (CloseFile h) (arm s i) = (r, s') -> s_ncalls s + i < s_ncalls s' -> In h (PrHandles.fids s).
Proof.
  intros Hl E Hn. destruct (in_dec N.eq_dec h (PrHandles.fids s)) as [H|H]; [exact H|exfalso].
  assert (Hno : PrHandles.no_file h (arm s i)).
  { intros f Hf Hid. apply H. unfold PrHandles.fids. rewrite <- Hid. apply in_map. exact Hf. }
  destruct (PrHandles.C08_stale_file_handle h (arm s i) Hl Hno) as (_ & _ & _ & Hc & _).
  rewrite Hc in E. injection E as _ <-. cbn in Hn. lia.
Qed.

Theorem step_fault_CloseFile fsz vid h : step_fault fsz vid (CloseFile h).
Proof.
  intros s i r s' v Hinv Hid Hok Hv E Hreach.
  destruct (fault_err (CloseFile h) eq_refl s i r s' E Hreach) as (e & ->).
  pose proof (fs_inv_lock _ _ _ Hinv) as Hl.
  pose proof (close_reached_open h s i _ s' Hl E Hreach) as Hin.
  destruct (C11_close_file_after_fault h (arm s i) (Err e) s' Hl (fs_inv_fids _ _ _ Hinv) Hin E
              ltac:(discriminate) ltac:(discriminate)) as (_ & Hrm & _ & _ & Hv' & Hd' & Hl' & _).
  constructor.
  - eexists; reflexivity.
  - split; [exact Hl'|]. split; [exact Hv'|]. split; [exact Hd'|exact Hrm].
  - exact (fault_crash fsz vid _ (pfxG_step_CloseFile h) s i _ s' v Hinv Hid Hok Hv E).
  - exact (fault_keep fsz vid _ (pfxG_step_CloseFile h) s i _ s' v Hinv Hid Hok Hv E).
  - discriminate.
  - discriminate.
Qed.

(* ================================================================== 6. the result of a call that reached the fault is tainted *)
(* a run under one armed fault that reached it cannot be the fault-free run: its result satisfies the
   taint of its prefix property *)
Theorem pfxG_reached {A} (T : outcome A -> Prop) (m : M A) : pfxG T m -> lockstep m ->
  forall s i r s', m (arm s i) = (r, s') -> s_ncalls s + i < s_ncalls s' -> T r.
Proof.
  intros Hp Hl s i r s' E Hn.
  destruct (Hp _ _ _ E) as (ws & _ & [C|(C & _)]); [exfalso|exact C].
  pose proof (proj1 (armed_fired m _ _ r s' Hl (pending_arm s i) E) Hn) as (new & X & Hf).
  destruct (proj1 Hl _ _ _ C) as (new' & X' & _ & _ & G).
  assert (new' = new) by (exact (ext_unique _ _ _ _ X' X)). subst new'.
  exact (G (nf_no_faults _) Hf).
Qed.

(* error kinds of a Write / IoWrite that reached the armed fault *)
Theorem C11_write_fault_kinds h data s i r s' :
  step (Write h data) (arm s i) = (r, s') -> s_ncalls s + i < s_ncalls s' ->
  r = Err DeviceError \/ r = Err DiskFull \/ r = Err AllocationError.
Proof.
  intros E Hn.
  destruct (pfxG_reached TE _ (pfxG_step_Write_kinds h data) (lockstep_step _) s i r s' E Hn) as (e & -> & He).
  destruct He as [He|[He|He]]; subst e; auto.
Qed.
Theorem C11_io_write_fault_kinds h data s i r s' :
  step (IoWrite h data) (arm s i) = (r, s') -> s_ncalls s + i < s_ncalls s' ->
  r = Err DeviceError \/ r = Err DiskFull \/ r = Err AllocationError.
Proof.
  intros E Hn.
  destruct (pfxG_reached TE _ (pfxG_step_IoWrite_kinds h data) (lockstep_step _) s i r s' E Hn) as (e & -> & He).
  destruct He as [He|[He|He]]; subst e; auto.
Qed.

(* DiskFull does occur (PrFault.C11_write_masks_error_kind: the fault hits the FAT write of the
   alloc_cluster in the write loop); the state PrFault.wx_state IS an armed state *)
Example write_fault_DiskFull :
  wx_state = arm wx_state 1 /\ fst (mgr_write 9 [7] (arm wx_state 1)) = Err DiskFull /\
  s_ncalls wx_state + 1 < s_ncalls (snd (mgr_write 9 [7] (arm wx_state 1))).
Proof. split; [reflexivity|]. split; vm_compute; reflexivity. Qed.

(* ================================================================== 7. what a failed close does to the handle *)
Lemma fixes_flush_file h : PrHandles.fixes PrHandles.the_tables (flush_file h).
Proof.
  pose proof PrHandles.fixes_cache_read. pose proof PrHandles.fixes_write_back.
  pose proof PrHandles.fixes_get_vol. pose proof PrHandles.fixes_update_info_sector.
  unfold flush_file, locked, write_entry_to_disk, serialize, ts_to_fat, cache_modify,
    get_file_by_id, get_file, get_volume_by_id.
  cbv zeta. repeat PrHandles.fixes_step.
Qed.

(* ANY schedule, lock free, the handle in the table at index j: close_file returns what the flush
   returned and has removed the record at j - whether the flush succeeded or failed *)
Theorem close_file_is_flush_then_drop h s j o1 s1 :
  s_lock s = false -> find_idx (fun f => f_id f =? h) (s_files s) 0 = Some j ->
  flush_file h s = (o1, s1) ->
  close_file h s = (o1, match o1 with
                        | Ok _ | Err _ => set_s_files s1 (swap_remove (s_files s) j)
                        | _ => s1
                        end).
Proof.
  intros Hl Hf E1.
  pose proof (fixes_flush_file h _ _ _ E1) as Ht. unfold PrHandles.the_tables in Ht. injection Ht as _ _ Hfiles.
  pose proof (PrHandles.keeps_frame _ (fun s0 => PrHandles.keeps_flush_file s0 h) _ _ _ E1) as (_ & _ & _ & _ & Hl1 & _).
  rewrite Hl in Hl1.
  unfold close_file. unfold bind at 1. unfold try. rewrite E1.
  destruct o1 as [[]|e| |]; try reflexivity;
    rewrite (PrHandles.locked_free _ s1 Hl1); unfold bind at 1; rewrite PrHandles.get_file_by_id_eq, Hfiles, Hf;
    unfold bind, modify, ret, fail; rewrite Hfiles; reflexivity.
Qed.

(* the run of a CloseFile that reached the armed fault, in a sound state: the flush inside returned
   Err DeviceError, then the record (index j, dirty) was removed from the table the flush left *)
Lemma close_fault_run fsz vid h s i r s' :
  fs_inv fsz vid s -> step (CloseFile h) (arm s i) = (r, s') -> s_ncalls s + i < s_ncalls s' ->
  exists j f s1, find_idx (fun g => f_id g =? h) (s_files s) 0 = Some j /\
    nth_error (s_files s) j = Some f /\ f_id f = h /\ f_dirty f = true /\
    flush_file h (arm s i) = (Err DeviceError, s1) /\
    r = Err DeviceError /\ s' = set_s_files s1 (swap_remove (s_files s) j).
Proof.
  intros Hinv E Hn.
  pose proof (fs_inv_lock _ _ _ Hinv) as Hl.
  pose proof (close_reached_open h s i _ s' Hl E Hn) as Hin.
  assert (Hex : exists x, In x (s_files s) /\ (f_id x =? h) = true).
  { unfold PrHandles.fids in Hin. apply in_map_iff in Hin. destruct Hin as (x & Hx1 & Hx2).
    exists x. split; [exact Hx2|apply N.eqb_eq; exact Hx1]. }
  destruct (PrHandles.find_idx_exists _ _ Hex 0) as (j & Hj & _).
  destruct (PrHandles.find_idx_some _ _ _ _ Hj) as (_ & _ & f & Hf & Hpf). rewrite Nat.sub_0_r in Hf.
  apply N.eqb_eq in Hpf.
  destruct (flush_file h (arm s i)) as [o1 s1] eqn:E1.
  pose proof (close_file_is_flush_then_drop h (arm s i) j o1 s1 Hl Hj E1) as Hc.
  cbn [step] in E. unfold lift, bind in E. rewrite Hc in E.
  assert (Hn1 : s_ncalls s + i < s_ncalls s1).
  { destruct o1 as [[]|e| |]; injection E as _ <-; exact Hn. }
  pose proof (pfxG_reached (fun r => r = Err DeviceError) _ (pfxG_of_pfx _ (pfx_flush_file h)) (ls_flush_file h)
                s i o1 s1 E1 Hn1) as ->.
  injection E as <- <-.
  exists j, f, s1. split; [exact Hj|]. split; [exact Hf|]. split; [exact Hpf|]. split.
  { destruct (f_dirty f) eqn:Hd; [reflexivity|exfalso].
    assert (Hr : PrSeek.resolves (arm s i) h j f) by (split; [exact Hl|split; [exact Hj|exact Hf]]).
    rewrite (PrEntry.flush_file_clean (arm s i) h j f Hr Hd) in E1. discriminate. }
  repeat split.
Qed.

(* ---- the medium after a failed flush / close (ANY schedule) ---- *)
Lemma ts_to_fat_state t s : snd (ts_to_fat t s) = s.
Proof. unfold ts_to_fat. destruct ((t_month t =? 255) || (t_day t =? 255)); reflexivity. Qed.
Lemma serialize_state b e s : snd (serialize b e s) = s.
Proof.
  unfold serialize. unfold bind at 1.
  pose proof (ts_to_fat_state (e_ctime e) s) as H1. destruct (ts_to_fat (e_ctime e) s) as [[l1|x| |] s1];
    cbn [snd] in H1; subst s1; try reflexivity.
  unfold bind at 1.
  pose proof (ts_to_fat_state (e_mtime e) s) as H2. destruct (ts_to_fat (e_mtime e) s) as [[l2|x| |] s2];
    cbn [snd] in H2; subst s2; reflexivity.
Qed.

(* the entry write that ended with an error wrote nothing: its only device write is its last step *)
Lemma write_entry_err_disk v e s e0 s' : write_entry_to_disk v e s = (Err e0, s') -> s_disk s' = s_disk s.
Proof.
  intros E. unfold write_entry_to_disk in E. unfold bind at 1 in E.
  destruct (cache_read (e_block e) s) as [o1 s1] eqn:E1.
  destruct (cache_read_any _ _ _ _ E1) as (_ & D1 & _ & [(-> & _)|(b & -> & T & _)]).
  { injection E as _ <-. exact D1. }
  unfold bind at 1 in E. pose proof (serialize_state (v_fat32 v) e s1) as Hs.
  destruct (serialize (v_fat32 v) e s1) as [[l|x| |] s2]; cbn [snd] in Hs; subst s2;
    try (injection E as _ <-; exact D1).
  destruct (512 <? e_offset e + 32); [discriminate|].
  unfold bind, cache_modify, modify in E.
  destruct (write_back_any _ _ _ E) as (_ & W). cbn [s_tag set_s_cache] in W. rewrite T in W.
  destruct W as [(W & _)|(_ & W & _)]; [discriminate|]. rewrite W. exact D1.
Qed.

Lemma update_info_disk vi s o s' : update_info_sector vi s = (o, s') ->
  s_disk s' = s_disk s \/
  exists v b, nth_error (s_vols s) vi = Some v /\ v_fat32 v = true /\ o = Ok tt /\
              s_disk s' = disk_set (s_disk s) (v_info v) b.
Proof.
  intros E. unfold update_info_sector in E. unfold bind at 1 in E. rewrite PrHandles.get_vol_eq in E.
  destruct (nth_error (s_vols s) vi) as [v|] eqn:Hv; [|injection E as _ <-; left; reflexivity].
  destruct (v_fat32 v) eqn:H32; cbn [negb] in E; [|injection E as _ <-; left; reflexivity].
  assert (Hgo : forall fc nf,
    (_ <- cache_read (v_info v) ;;
     (match fc with Some c => cache_modify (fun b => set_bytes b 488 (bytes32 c)) | None => ret tt end) ;;;
     (match nf with Some c => cache_modify (fun b => set_bytes b 492 (bytes32 c)) | None => ret tt end) ;;;
     write_back) s = (o, s') ->
    s_disk s' = s_disk s \/ exists b, o = Ok tt /\ s_disk s' = disk_set (s_disk s) (v_info v) b).
  { intros fc nf E0. unfold bind at 1 in E0.
    destruct (cache_read (v_info v) s) as [o1 s1] eqn:E1.
    destruct (cache_read_any _ _ _ _ E1) as (_ & D1 & _ & [(-> & _)|(b & -> & T & _)]).
    { injection E0 as _ <-. left. exact D1. }
    assert (Hwb : forall s2, s_tag s2 = Some (v_info v) -> s_disk s2 = s_disk s1 -> write_back s2 = (o, s') ->
              s_disk s' = s_disk s \/ exists b, o = Ok tt /\ s_disk s' = disk_set (s_disk s) (v_info v) b).
    { intros s2 T2 D2 E2. destruct (write_back_any _ _ _ E2) as (_ & W). rewrite T2 in W.
      destruct W as [(-> & W & _)|(_ & W & _)].
      - right. exists (s_cache s2). split; [reflexivity|]. rewrite W, D2, D1. reflexivity.
      - left. rewrite W, D2. exact D1. }
    destruct fc as [c1|], nf as [c2|]; unfold bind, cache_modify, modify, ret in E0;
      (eapply Hwb; [| |exact E0]; [exact T|reflexivity]). }
  assert (Hfin : s_disk s' = s_disk s \/ (exists b, o = Ok tt /\ s_disk s' = disk_set (s_disk s) (v_info v) b) ->
                 s_disk s' = s_disk s \/
                 exists v0 b, Some v = Some v0 /\ v_fat32 v0 = true /\ o = Ok tt /\
                              s_disk s' = disk_set (s_disk s) (v_info v0) b).
  { intros [H|(b & H1 & H2)]; [left; exact H|right; exists v, b; auto]. }
  apply Hfin.
  destruct (v_free v) as [fc|], (v_next_free v) as [nf|].
  - exact (Hgo (Some fc) (Some nf) E).
  - exact (Hgo (Some fc) None E).
  - exact (Hgo None (Some nf) E).
  - injection E as _ <-. left. reflexivity.
Qed.

(* a flush that returned an error has NOT written the directory entry of the file: the medium is
   unchanged, or (FAT32) exactly the information sector was rewritten *)
Theorem flush_err_medium h s e s1 : flush_file h s = (Err e, s1) ->
  s_disk s1 = s_disk s \/
  exists v b, In v (s_vols s) /\ v_fat32 v = true /\ s_disk s1 = disk_set (s_disk s) (v_info v) b.
Proof.
  intros E. unfold flush_file, locked in E. rewrite PrHandles.bind_get in E.
  destruct (s_lock s); [injection E as _ <-; left; reflexivity|].
  unfold bind at 1 in E. rewrite PrHandles.get_file_by_id_eq in E.
  destruct (find_idx (fun f => f_id f =? h) (s_files s) 0) as [fi|]; [|injection E as _ <-; left; reflexivity].
  unfold bind at 1 in E. rewrite PrHandles.get_file_eq in E.
  destruct (nth_error (s_files s) fi) as [f|]; [|discriminate].
  destruct (f_dirty f); [|discriminate].
  unfold bind at 1 in E. rewrite PrHandles.get_volume_by_id_eq in E.
  destruct (find_idx (fun v => v_id v =? f_vol f) (s_vols s) 0) as [vi|]; [|injection E as _ <-; left; reflexivity].
  unfold bind at 1 in E. destruct (update_info_sector vi s) as [o1 s2] eqn:E1.
  pose proof (update_info_disk vi s o1 s2 E1) as Hd.
  assert (Hd' : s_disk s2 = s_disk s \/
                exists v b, In v (s_vols s) /\ v_fat32 v = true /\ s_disk s2 = disk_set (s_disk s) (v_info v) b).
  { destruct Hd as [Hd|(v & b & Hv & H32 & _ & Hd)]; [left; exact Hd|right].
    exists v, b. split; [exact (nth_error_In _ _ Hv)|]. split; [exact H32|exact Hd]. }
  destruct o1 as [u|x| |]; try (injection E as _ <-; exact Hd'); try discriminate.
  destruct (negb (e_size (f_entry f) =? 0) && (e_cluster (f_entry f) =? 0)); [discriminate|].
  unfold bind at 1 in E. rewrite PrHandles.get_vol_eq in E.
  destruct (nth_error (s_vols s2) vi) as [v2|]; [|discriminate].
  rewrite (write_entry_err_disk v2 (f_entry f) s2 e s1 E). exact Hd'.
Qed.

(* THE HANDLE AND THE MEDIUM AFTER A CLOSE THAT HIT THE FAULT (one armed fault, sound state):
   - the call returns Err DeviceError;
   - the record of h was DIRTY (a clean file is closed without any device call) and it has been
     REMOVED from the file table, the other records are in their places (swap_remove); the lock is
     free.  So the handle h is stale afterwards: Flush / CloseFile / Write h answer BadHandle - the
     caller cannot retry the flush;
   - the directory entry of the file has NOT been written: the medium is the medium before the call,
     or (FAT32) exactly the information sector has been rewritten. *)
Theorem close_fault_drops_dirty_record fsz vid h s i r s' v :
  fs_inv fsz vid s -> s_vols s = [v] ->
  step (CloseFile h) (arm s i) = (r, s') -> s_ncalls s + i < s_ncalls s' ->
  r = Err DeviceError /\
  (exists j f, nth_error (s_files s) j = Some f /\ f_id f = h /\ f_dirty f = true /\
     s_files s' = swap_remove (s_files s) j) /\
  PrHandles.no_file h s' /\ s_lock s' = false /\
  step (Flush h) s' = (Err BadHandle, s') /\ step (CloseFile h) s' = (Err BadHandle, s') /\
  (forall data, step (Write h data) s' = (Err BadHandle, s')) /\
  (s_disk s' = s_disk s \/
   (v_fat32 v = true /\ exists b, s_disk s' = disk_set (s_disk s) (v_info v) b)).
Proof.
  intros Hinv Hv E Hn.
  pose proof (fs_inv_lock _ _ _ Hinv) as Hl.
  pose proof (close_reached_open h s i _ s' Hl E Hn) as Hin.
  destruct (close_fault_run fsz vid h s i r s' Hinv E Hn) as (j & f & s1 & Hj & Hf & Hpf & Hd & E1 & -> & Es).
  destruct (C11_close_file_after_fault h (arm s i) _ _ Hl (fs_inv_fids _ _ _ Hinv) Hin E
              ltac:(discriminate) ltac:(discriminate)) as (_ & _ & Hno & _ & _ & _ & Hl' & _).
  pose proof (fixes_flush_file h _ _ _ E1) as Ht. unfold PrHandles.the_tables in Ht. injection Ht as _ _ Hfiles.
  split; [reflexivity|]. split.
  { exists j, f. split; [exact Hf|]. split; [exact Hpf|]. split; [exact Hd|]. rewrite Es. reflexivity. }
  split; [exact Hno|]. split; [exact Hl'|].
  destruct (PrHandles.C08_stale_file_handle h _ Hl' Hno) as (_ & Hw & Hfl & Hcl & _).
  split; [exact Hfl|]. split; [exact Hcl|]. split; [exact Hw|].
  assert (Hds : s_disk s' = s_disk s1) by (rewrite Es; reflexivity). rewrite Hds.
  destruct (flush_err_medium h (arm s i) _ s1 E1) as [H|(v0 & b & Hin0 & H32 & H)]; [left; exact H|right].
  cbn [s_vols arm set_s_faults] in Hin0. rewrite Hv in Hin0. destruct Hin0 as [<-|[]].
  split; [exact H32|]. exists b. exact H.
Qed.

(* a concrete run (FAT16 volume PrFault.wx_vol, file record 9 of size 2048 in append mode): Write one
   byte - Ok, the record is dirty with size 2049 -, then CloseFile with the fault on its first device
   call (the read of the directory block 290) or on its second (the write of that block): Err
   DeviceError, the file table is EMPTY, the medium is the medium before the close (the entry still
   says 2048), and closing / flushing again answers BadHandle. *)
Definition cx_state : st := snd (step (Write 9 [7]) (nf wx_state)).
Example close_fault_example :
  fst (step (Write 9 [7]) (nf wx_state)) = Ok RUnit /\
  map (fun f => (f_id f, f_dirty f, e_size (f_entry f))) (s_files cx_state) = [(9, true, 2049)] /\
  forall k, k = 0 \/ k = 1 ->
    let r := step (CloseFile 9) (arm cx_state k) in
    fst r = Err DeviceError /\ s_files (snd r) = [] /\ s_disk (snd r) = s_disk cx_state /\
    s_ncalls cx_state + k < s_ncalls (snd r) /\
    fst (step (CloseFile 9) (snd r)) = Err BadHandle /\ fst (step (Flush 9) (snd r)) = Err BadHandle.
Proof.
  split; [vm_compute; reflexivity|]. split; [vm_compute; reflexivity|].
  intros k [->| ->]; vm_compute; repeat split; reflexivity.
Qed.

(* ================================================================== OBSERVATION close-drops-dirty-record
   (the mechanism the property text names: "close removes the handle even if the flush failed, returning
   the flush error", src/volume_mgr.rs close_file; model FsMgr.close_file:
       r <- try (flush_file file) ;;
       locked (fi <- get_file_by_id file ;;
               modify (fun s => set_s_files s (swap_remove (s_files s) fi)) ;;;
               match r with inl _ => ret tt | inr e => fail e end) ).
   `close_fault_drops_dirty_record`: when the flush inside close hits the device fault, the file record is
   REMOVED although it was dirty and its directory entry was NOT written (no device write at all on FAT16,
   at most the information sector on FAT32).  The handle is stale afterwards (BadHandle), so the caller can
   neither retry the flush nor close again: everything written through this handle since the last
   successful flush is lost to the caller although each Write returned Ok - the entry on the medium keeps
   the old size and first cluster; for a file that was empty before, the chain the Write allocated stays
   marked in the FAT with no entry pointing to it (lost clusters; the medium is a crashed medium of the
   fault-free close, clause (c) of step_fault_CloseFile).  "Every handle can still be used and closed"
   holds for every OTHER handle (`files_kept`), not for the handle of the failed close.
   Replay on the crate: any volume, file A.TXT; open ReadWriteAppend, write 1 byte (Ok), close with the
   block device failing its next call -> Err(DeviceError); close / flush / write on the same RawFile ->
   Err(BadHandle); remount: A.TXT has its old length.  `close_fault_example` is this run in the model. *)

Print Assumptions pfxG_step_Write.
Print Assumptions pfxG_step_IoWrite.
Print Assumptions pfxG_step_CloseFile.
Print Assumptions step_fault_Write.
Print Assumptions step_fault_IoWrite.
Print Assumptions step_fault_CloseFile.
Print Assumptions pfxG_reached.
Print Assumptions C11_write_fault_kinds.
Print Assumptions C11_io_write_fault_kinds.
Print Assumptions close_file_is_flush_then_drop.
Print Assumptions flush_err_medium.
Print Assumptions close_fault_drops_dirty_record.
Print Assumptions close_fault_example.
