(* PROOFS: a FAT-level WELL-FORMEDNESS invariant and its preservation by the three operations
   of src/fat/volume.rs that change the FAT (alloc_cluster, truncate_cluster_chain,
   free_cluster_chain), for ALL inputs (C03, C05).

   Spec side: a finite set of chain HEADS hs (the first clusters of all live files and
   directories).  fat_wf d v hs says
     (a) every head has a defined chain (PrDir.chain_of: by PrCrash.chain_of_sound this means
         in range, acyclic, terminated by an end-of-chain mark, never through a free, reserved,
         bad or out-of-range entry),
     (b) the heads are distinct and chains of different heads share no cluster,
     (c) used = reachable: a data cluster's entry is non-zero exactly when the cluster lies on
         the chain of some head (nothing leaked, nothing in use that is marked free).
   NOTE (c) as asked for counts a bad-cluster mark as "in use but unreachable": a FAT that
   contains bad-cluster marks does not satisfy fat_wf.

   Sections: 0 lists; 1 definitions; 2 basic facts, the list form, derived facts (injective
   links, end-of-chain entries, counting); 3 the four FAT transformations at disk level;
   4 the theorems about the model functions; 5 histories of FAT operations; 6 C05; 7 a decider;
   8 examples; 9 assumptions. *)
From Coq Require Import NArith ZArith List Bool Lia Arith ZifyClasses ZifyInst Zify FMapPositive Permutation.
From SdFs Require Import FsTypes FsBase FsFat FsMgr FsLemmas PrBase PrFat PrAlloc PrDir PrAllocEffect PrChain PrCount.
From SdFs Require PrCrash.
Import ListNotations.
Open Scope N_scope.
Local Arguments N.mul : simpl never.
Local Arguments N.add : simpl never.
Local Arguments N.sub : simpl never.
Local Arguments N.div : simpl never.
Local Arguments N.modulo : simpl never.
Local Arguments N.land : simpl never.
Local Arguments N.lor : simpl never.
Local Ltac Zify.zify_post_hook ::= Z.to_euclidean_division_equations.

(* ================================================================== 0. lists *)
Lemma nodup_app {A} (a b : list A) :
  NoDup a -> NoDup b -> (forall x, In x a -> ~ In x b) -> NoDup (a ++ b).
Proof.
  intros Ha Hb Hd. induction a as [|x a IH]; [exact Hb|].
  inversion Ha as [|? ? Hx Ha']; subst. cbn [app]. constructor.
  - intros Hin. apply in_app_or in Hin. destruct Hin as [Hin|Hin]; [contradiction|].
    exact (Hd x (or_introl eq_refl) Hin).
  - apply IH; [exact Ha'|]. intros y Hy. apply Hd. right. exact Hy.
Qed.

Lemma nodup_app_inv {A} (a b : list A) :
  NoDup (a ++ b) -> NoDup a /\ NoDup b /\ forall x, In x a -> ~ In x b.
Proof.
  induction a as [|x a IH]; cbn [app]; intros H.
  - split; [constructor|]. split; [exact H|]. intros x [].
  - inversion H as [|? ? Hx H']; subst. destruct (IH H') as (A1 & A2 & A3).
    split; [constructor; [intros Hin; apply Hx; apply in_or_app; left; exact Hin|exact A1]|].
    split; [exact A2|].
    intros y [<-|Hy] Hb; [apply Hx; apply in_or_app; right; exact Hb|exact (A3 y Hy Hb)].
Qed.

Lemma nodup_flat_map {A B} (f : A -> list B) : forall l,
  NoDup l -> (forall a, In a l -> NoDup (f a)) ->
  (forall a b x, In a l -> In b l -> In x (f a) -> In x (f b) -> a = b) ->
  NoDup (flat_map f l).
Proof.
  induction l as [|a r IH]; intros Hnd Hf Hd; [constructor|].
  inversion Hnd as [|? ? Ha Hr]; subst. cbn [flat_map]. apply nodup_app.
  - apply Hf. left. reflexivity.
  - apply IH; [exact Hr|intros b Hb; apply Hf; right; exact Hb|].
    intros b1 b2 x H1 H2. apply Hd; right; assumption.
  - intros x Hx Hin. apply in_flat_map in Hin. destruct Hin as (b & Hb & Hxb).
    assert (E : a = b) by (apply (Hd a b x); [left; reflexivity|right; exact Hb|exact Hx|exact Hxb]).
    subst b. contradiction.
Qed.

Lemma nodup_flat_map_inv {A B} (f : A -> list B) : forall l,
  NoDup (flat_map f l) -> (forall a, In a l -> f a <> []) ->
  NoDup l /\ (forall a, In a l -> NoDup (f a)) /\
  (forall a b x, In a l -> In b l -> In x (f a) -> In x (f b) -> a = b).
Proof.
  induction l as [|a r IH]; intros Hnd Hne.
  - split; [constructor|]. split; [intros a []|intros a b x []].
  - cbn [flat_map] in Hnd. destruct (nodup_app_inv _ _ Hnd) as (N1 & N2 & N3).
    destruct (IH N2 (fun b Hb => Hne b (or_intror Hb))) as (R1 & R2 & R3).
    assert (Hsub : forall b x, In b r -> In x (f b) -> In x (flat_map f r)).
    { intros b x Hb Hx. apply in_flat_map. exists b. split; assumption. }
    split; [|split].
    + constructor; [|exact R1]. intros Ha.
      pose proof (Hne a (or_introl eq_refl)) as Hfa.
      destruct (f a) as [|x t] eqn:E; [contradiction Hfa; reflexivity|].
      apply (N3 x (or_introl eq_refl)). apply (Hsub a x Ha). rewrite E. left. reflexivity.
    + intros b [<-|Hb]; [exact N1|exact (R2 b Hb)].
    + intros b1 b2 x [<-|H1] [<-|H2] X1 X2.
      * reflexivity.
      * exfalso. exact (N3 x X1 (Hsub b2 x H2 X2)).
      * exfalso. exact (N3 x X2 (Hsub b1 x H1 X1)).
      * exact (R3 b1 b2 x H1 H2 X1 X2).
Qed.

Lemma nodup_remove (x : N) : forall l, NoDup l -> NoDup (remove N.eq_dec x l).
Proof.
  induction l as [|a l IH]; intros H; [constructor|].
  inversion H as [|? ? Ha Hl]; subst. cbn [remove].
  destruct (N.eq_dec x a) as [_|_]; [exact (IH Hl)|].
  constructor; [|exact (IH Hl)]. intros Hin. apply in_remove in Hin. destruct Hin as [Hin _]. contradiction.
Qed.

Lemma in_snoc2 (x p c : N) pre : In x (pre ++ [p; c]) <-> In x (pre ++ [p]) \/ x = c.
Proof.
  rewrite !in_app_iff. cbn [In]. split.
  - intros [H|[H|[H|[]]]]; [left; left; exact H|left; right; left; exact H|right; symmetry; exact H].
  - intros [[H|[H|[]]]|H]; [left; exact H|right; left; exact H|right; right; left; symmetry; exact H].
Qed.

(* ================================================================== 1. definitions *)
(* ch is the chain of the cluster h, as a reader of the FAT follows it (with the fuel the model
   itself uses for a walk; by PrDir.chain_of_walk_fuel a chain found with ANY fuel is one) *)
Definition chain_at (d : disk) (v : vol) (h : N) (ch : list N) : Prop :=
  chain_of d v h (walk_fuel v) = Some ch.

(* c lies on the chain of one of the heads *)
Definition reachable (d : disk) (v : vol) (hs : list N) (c : N) : Prop :=
  exists h ch, In h hs /\ chain_at d v h ch /\ In c ch.

Record fat_wf (d : disk) (v : vol) (hs : list N) : Prop := mk_fat_wf {
  (* (a) every head has a chain *)
  wf_def : forall h, In h hs -> exists ch, chain_at d v h ch;
  (* (b) distinct heads, pairwise disjoint chains *)
  wf_heads : NoDup hs;
  wf_disj : forall h1 h2 ch1 ch2 c, In h1 hs -> In h2 hs ->
            chain_at d v h1 ch1 -> chain_at d v h2 ch2 -> In c ch1 -> In c ch2 -> h1 = h2;
  (* (c) used = reachable *)
  wf_used : forall c, 2 <= c -> c < v_clusters v + 2 ->
            (fat_get d v 0 c <> 0 <-> reachable d v hs c)
}.

(* the chain as a function (empty when undefined) and the clusters of all chains *)
Definition chain_l (d : disk) (v : vol) (h : N) : list N :=
  match chain_of d v h (walk_fuel v) with Some l => l | None => [] end.
Definition all_chains (d : disk) (v : vol) (hs : list N) : list N := flat_map (chain_l d v) hs.

(* ================================================================== 2. basic facts *)
Lemma chain_at_any d v h f ch : chain_of d v h f = Some ch -> chain_at d v h ch.
Proof. apply chain_of_walk_fuel. Qed.

Lemma chain_at_det d v h a b : chain_at d v h a -> chain_at d v h b -> a = b.
Proof. unfold chain_at. intros H1 H2. rewrite H1 in H2. inversion H2. reflexivity. Qed.

Lemma chain_at_head d v h ch : chain_at d v h ch -> exists r, ch = h :: r.
Proof. intros H. destruct (chain_of_head _ _ _ _ _ H) as (_ & _ & r & E). exists r. exact E. Qed.

Lemma chain_at_head_in d v h ch : chain_at d v h ch -> In h ch.
Proof. intros H. destruct (chain_at_head _ _ _ _ H) as (r & ->). left. reflexivity. Qed.

(* what membership in a chain means (PrCrash.chain_of_sound) *)
Lemma chain_at_mem d v h ch x : chain_at d v h ch -> In x ch ->
  2 <= x /\ x < v_clusters v + 2 /\ fat_get d v 0 x <> 0 /\ fat_get d v 0 x <> fat_bad v.
Proof. intros H. exact (PrCrash.chain_of_sound d v _ _ _ H x). Qed.

Lemma chain_at_nodup d v h ch : chain_at d v h ch -> NoDup ch.
Proof. apply chain_of_nodup. Qed.

Lemma chain_at_geo d v w h ch : geo_eq v w -> (chain_at d w h ch <-> chain_at d v h ch).
Proof.
  intros G. unfold chain_at. rewrite (chain_of_geo d v w G).
  replace (walk_fuel w) with (walk_fuel v); [tauto|]. unfold walk_fuel. rewrite (geo_clusters _ _ G). reflexivity.
Qed.

Lemma reachable_geo d v w hs c : geo_eq v w -> (reachable d w hs c <-> reachable d v hs c).
Proof.
  intros G. unfold reachable. split; intros (h & ch & A & B & C); exists h, ch;
    (split; [exact A|split; [|exact C]]); apply (chain_at_geo d v w h ch G); exact B.
Qed.

(* the invariant depends on the geometry only, not on the free-space record *)
Lemma fat_wf_geo d v w hs : geo_eq v w -> fat_wf d v hs -> fat_wf d w hs.
Proof.
  intros G [A B C D]. constructor.
  - intros h Hh. destruct (A h Hh) as (ch & Hch). exists ch. apply (chain_at_geo d v w h ch G). exact Hch.
  - exact B.
  - intros h1 h2 ch1 ch2 c H1 H2 X1 X2. apply (C h1 h2 ch1 ch2 c H1 H2).
    + apply (chain_at_geo d v w h1 ch1 G). exact X1.
    + apply (chain_at_geo d v w h2 ch2 G). exact X2.
  - intros c C1 C2. rewrite (geo_clusters _ _ G) in C2. rewrite (fat_get_geo d v w c G).
    rewrite (reachable_geo d v w hs c G). exact (D c C1 C2).
Qed.

(* one step of a chain, at the walk fuel *)
Lemma chain_at_inv d v c l : chain_at d v c l ->
  2 <= c /\ c < v_clusters v + 2 /\ (fat_get d v 0 c =? fat_bad v) = false /\
  (((fat_eoc_min v <=? fat_get d v 0 c) = true /\ l = [c]) \/
   ((fat_eoc_min v <=? fat_get d v 0 c) = false /\
    exists l0, chain_at d v (fat_get d v 0 c) l0 /\ l = c :: l0)).
Proof.
  unfold chain_at. intros H.
  assert (E : walk_fuel v = S (N.to_nat (v_clusters v) + 3)) by (unfold walk_fuel; lia).
  rewrite E in H. destruct (PrCrash.chain_of_inv _ _ _ _ _ H) as (R1 & R2 & Hb & Hc).
  split; [exact R1|]. split; [exact R2|]. split; [exact Hb|].
  destruct Hc as [Hc|(He & l0 & Hn & El)]; [left; exact Hc|right].
  split; [exact He|]. exists l0. split; [exact (chain_of_walk_fuel _ _ _ _ _ Hn)|exact El].
Qed.

(* every cluster of a chain splits it: the part before, and its own chain *)
Lemma chain_split d v : forall f c l, chain_of d v c f = Some l -> forall x, In x l ->
  exists pre lx, l = pre ++ lx /\ chain_at d v x lx.
Proof.
  induction f as [|f IH]; intros c l H x Hx; [discriminate|].
  destruct (PrCrash.chain_of_inv _ _ _ _ _ H) as (_ & _ & _ & Hc).
  destruct Hc as [(_ & ->)|(_ & l0 & Hn & ->)].
  - destruct Hx as [<-|[]]. exists [], [c]. split; [reflexivity|exact (chain_of_walk_fuel _ _ _ _ _ H)].
  - destruct Hx as [<-|Hx].
    + exists [], (c :: l0). split; [reflexivity|exact (chain_of_walk_fuel _ _ _ _ _ H)].
    + destruct (IH _ _ Hn x Hx) as (pre & lx & E & Hl). exists (c :: pre), lx.
      split; [rewrite E; reflexivity|exact Hl].
Qed.

(* ---- the chain function ---- *)
Lemma chain_l_at d v h ch : chain_at d v h ch -> chain_l d v h = ch.
Proof. unfold chain_at, chain_l. intros ->. reflexivity. Qed.

Lemma chain_l_in d v h x : In x (chain_l d v h) -> chain_at d v h (chain_l d v h).
Proof. unfold chain_l, chain_at. destruct (chain_of d v h (walk_fuel v)); [reflexivity|intros []]. Qed.

Lemma reachable_l d v hs c : reachable d v hs c <-> exists h, In h hs /\ In c (chain_l d v h).
Proof.
  split.
  - intros (h & ch & A & B & C). exists h. split; [exact A|]. rewrite (chain_l_at _ _ _ _ B). exact C.
  - intros (h & A & B). exists h, (chain_l d v h). split; [exact A|]. split; [exact (chain_l_in _ _ _ _ B)|exact B].
Qed.

Lemma in_all_chains d v hs c : In c (all_chains d v hs) <-> reachable d v hs c.
Proof.
  rewrite reachable_l. unfold all_chains. rewrite in_flat_map. tauto.
Qed.

Lemma wf_l_def d v hs h : fat_wf d v hs -> In h hs -> chain_at d v h (chain_l d v h).
Proof. intros W Hh. destruct (wf_def _ _ _ W h Hh) as (ch & H). rewrite (chain_l_at _ _ _ _ H). exact H. Qed.

Lemma wf_l_disj d v hs h1 h2 x : fat_wf d v hs -> In h1 hs -> In h2 hs ->
  In x (chain_l d v h1) -> In x (chain_l d v h2) -> h1 = h2.
Proof.
  intros W H1 H2 X1 X2.
  exact (wf_disj _ _ _ W h1 h2 _ _ x H1 H2 (wf_l_def _ _ _ _ W H1) (wf_l_def _ _ _ _ W H2) X1 X2).
Qed.

Lemma wf_l_used d v hs c : fat_wf d v hs -> 2 <= c -> c < v_clusters v + 2 ->
  (fat_get d v 0 c <> 0 <-> exists h, In h hs /\ In c (chain_l d v h)).
Proof. intros W C1 C2. rewrite <- reachable_l. exact (wf_used _ _ _ W c C1 C2). Qed.

Lemma wf_l_mem d v hs h x : fat_wf d v hs -> In h hs -> In x (chain_l d v h) ->
  2 <= x /\ x < v_clusters v + 2 /\ fat_get d v 0 x <> 0.
Proof.
  intros W Hh Hx. destruct (chain_at_mem d v h _ x (wf_l_def _ _ _ _ W Hh) Hx) as (A & B & C & _). auto.
Qed.

(* introduction: the chains of the heads are given by a function G *)
Lemma wf_intro d v hs (G : N -> list N) :
  NoDup hs ->
  (forall h, In h hs -> chain_at d v h (G h)) ->
  (forall h1 h2 x, In h1 hs -> In h2 hs -> In x (G h1) -> In x (G h2) -> h1 = h2) ->
  (forall x, 2 <= x -> x < v_clusters v + 2 -> (fat_get d v 0 x <> 0 <-> exists h, In h hs /\ In x (G h))) ->
  fat_wf d v hs.
Proof.
  intros Hnd Hdef Hdisj Hused. constructor.
  - intros h Hh. exists (G h). exact (Hdef h Hh).
  - exact Hnd.
  - intros h1 h2 ch1 ch2 c H1 H2 X1 X2 I1 I2.
    rewrite (chain_at_det _ _ _ _ _ X1 (Hdef h1 H1)) in I1.
    rewrite (chain_at_det _ _ _ _ _ X2 (Hdef h2 H2)) in I2.
    exact (Hdisj h1 h2 c H1 H2 I1 I2).
  - intros x X1 X2. rewrite (Hused x X1 X2). split.
    + intros (h & A & B). exists h, (G h). split; [exact A|]. split; [exact (Hdef h A)|exact B].
    + intros (h & ch & A & B & C). exists h. split; [exact A|].
      rewrite <- (chain_at_det _ _ _ _ _ B (Hdef h A)). exact C.
Qed.

(* ---- the list form: all chains together are one duplicate-free list ---- *)
Theorem fat_wf_flat d v hs : fat_wf d v hs <->
  (forall h, In h hs -> chain_of d v h (walk_fuel v) <> None) /\
  NoDup (all_chains d v hs) /\
  (forall c, 2 <= c -> c < v_clusters v + 2 -> (fat_get d v 0 c <> 0 <-> In c (all_chains d v hs))).
Proof.
  split.
  - intros W. split; [|split].
    + intros h Hh. destruct (wf_def _ _ _ W h Hh) as (ch & H). unfold chain_at in H. rewrite H. discriminate.
    + apply nodup_flat_map.
      * exact (wf_heads _ _ _ W).
      * intros h Hh. exact (chain_at_nodup _ _ _ _ (wf_l_def _ _ _ _ W Hh)).
      * intros h1 h2 x. apply wf_l_disj. exact W.
    + intros c C1 C2. rewrite in_all_chains. exact (wf_used _ _ _ W c C1 C2).
  - intros (Hdef & Hnd & Hused).
    assert (Hat : forall h, In h hs -> chain_at d v h (chain_l d v h)).
    { intros h Hh. specialize (Hdef h Hh). unfold chain_at, chain_l.
      destruct (chain_of d v h (walk_fuel v)); [reflexivity|contradiction Hdef; reflexivity]. }
    destruct (nodup_flat_map_inv (chain_l d v) hs Hnd) as (N1 & _ & N3).
    { intros h Hh E. pose proof (chain_at_head_in _ _ _ _ (Hat h Hh)) as Hin. rewrite E in Hin. exact Hin. }
    apply (wf_intro d v hs (chain_l d v)); [exact N1|exact Hat|exact N3|].
    intros x X1 X2. rewrite (Hused x X1 X2). unfold all_chains. rewrite in_flat_map. tauto.
Qed.

(* ---- derived: links are injective, heads have no predecessor ---- *)
(* an entry z that links to the data cluster c lies on a chain, directly before c *)
Lemma wf_link_split d v hs z c :
  fat_wf d v hs -> link_ok v ->
  2 <= z -> z < v_clusters v + 2 -> 2 <= c -> c < v_clusters v + 2 -> fat_get d v 0 z = c ->
  exists h pz lc, In h hs /\ chain_l d v h = pz ++ z :: lc /\ chain_at d v c lc.
Proof.
  intros W Hl Z1 Z2 C1 C2 Ez. unfold link_ok in Hl. pose proof (bad_lt_eoc v) as Hbe.
  destruct (proj1 (wf_l_used d v hs z W Z1 Z2)) as (h & Hh & Hz); [rewrite Ez; lia|].
  destruct (chain_split d v _ _ _ (wf_l_def _ _ _ _ W Hh) z Hz) as (pz & lz & E & Hlz).
  destruct (chain_at_inv _ _ _ _ Hlz) as (_ & _ & _ & [(He & _)|(_ & l0 & Hn & El)]).
  - apply N.leb_le in He. rewrite Ez in He. lia.
  - rewrite Ez in Hn. exists h, pz, l0. split; [exact Hh|]. split; [rewrite E, El; reflexivity|exact Hn].
Qed.

(* no two entries link to the same cluster *)
Theorem wf_links_injective d v hs x y c :
  fat_wf d v hs -> link_ok v ->
  2 <= x -> x < v_clusters v + 2 -> 2 <= y -> y < v_clusters v + 2 ->
  2 <= c -> c < v_clusters v + 2 ->
  fat_get d v 0 x = c -> fat_get d v 0 y = c -> x = y.
Proof.
  intros W Hl X1 X2 Y1 Y2 C1 C2 Ex Ey.
  destruct (wf_link_split d v hs x c W Hl X1 X2 C1 C2 Ex) as (h1 & px & lc & H1 & E1 & Hc1).
  destruct (wf_link_split d v hs y c W Hl Y1 Y2 C1 C2 Ey) as (h2 & py & lc' & H2 & E2 & Hc2).
  rewrite <- (chain_at_det _ _ _ _ _ Hc1 Hc2) in E2. clear Hc2 lc'.
  pose proof (chain_at_head_in _ _ _ _ Hc1) as Hcin.
  assert (Eh : h1 = h2).
  { apply (wf_l_disj d v hs h1 h2 c W H1 H2).
    - rewrite E1. apply in_or_app. right. right. exact Hcin.
    - rewrite E2. apply in_or_app. right. right. exact Hcin. }
  subst h2. rewrite E1 in E2.
  change (px ++ x :: lc) with (px ++ [x] ++ lc) in E2. change (py ++ y :: lc) with (py ++ [y] ++ lc) in E2.
  rewrite !app_assoc in E2. apply app_inv_tail in E2. apply app_inj_tail in E2. exact (proj2 E2).
Qed.

(* no entry links to a head: a chain is entered at its head only *)
Theorem wf_head_no_pred d v hs h x :
  fat_wf d v hs -> link_ok v -> In h hs -> 2 <= x -> x < v_clusters v + 2 -> fat_get d v 0 x <> h.
Proof.
  intros W Hl Hh X1 X2 Ex.
  pose proof (wf_l_def _ _ _ _ W Hh) as Hat. pose proof (chain_at_head_in _ _ _ _ Hat) as Hin.
  destruct (wf_l_mem d v hs h h W Hh Hin) as (C1 & C2 & _).
  destruct (wf_link_split d v hs x h W Hl X1 X2 C1 C2 Ex) as (h1 & px & lc & H1 & E1 & Hc1).
  rewrite <- (chain_at_det _ _ _ _ _ Hat Hc1) in E1.
  assert (Eh : h1 = h).
  { apply (wf_l_disj d v hs h1 h h W H1 Hh); [|exact Hin]. rewrite E1. apply in_or_app. right. right. exact Hin. }
  subst h1. apply (f_equal (@length N)) in E1. rewrite app_length in E1. cbn [length] in E1. lia.
Qed.

(* ---- derived: an end-of-chain entry is the last cluster of exactly one chain ---- *)
Theorem wf_eoc_last d v hs c :
  fat_wf d v hs -> 2 <= c -> c < v_clusters v + 2 -> fat_eoc_min v <= fat_get d v 0 c ->
  exists h pre, In h hs /\ chain_at d v h (pre ++ [c]) /\
    forall h' pre', In h' hs -> chain_at d v h' (pre' ++ [c]) -> h' = h /\ pre' = pre.
Proof.
  intros W C1 C2 He.
  assert (Hnz : fat_get d v 0 c <> 0) by (unfold fat_eoc_min in He; destruct (v_fat32 v); lia).
  destruct (proj1 (wf_l_used d v hs c W C1 C2) Hnz) as (h & Hh & Hc).
  pose proof (wf_l_def _ _ _ _ W Hh) as Hat.
  destruct (chain_split d v _ _ _ Hat c Hc) as (pre & lc & E & Hlc).
  destruct (chain_at_inv _ _ _ _ Hlc) as (_ & _ & _ & [(_ & El)|(Hf & _)]);
    [|apply N.leb_gt in Hf; lia].
  subst lc. rewrite E in Hat. exists h, pre. split; [exact Hh|]. split; [exact Hat|].
  intros h' pre' Hh' Hat'.
  assert (Eh : h' = h).
  { apply (wf_disj _ _ _ W h' h _ _ c Hh' Hh Hat' Hat); apply in_or_app; right; left; reflexivity. }
  subst h'. split; [reflexivity|].
  pose proof (chain_at_det _ _ _ _ _ Hat' Hat) as E2. apply app_inj_tail in E2. exact (proj1 E2).
Qed.

(* ---- derived: counting ---- *)
(* the data clusters with a non-zero entry, in ascending order *)
Fixpoint used_from (g : N -> N) (n : nat) (from : N) : list N :=
  match n with
  | O => []
  | S n' => (if g from =? 0 then [] else [from]) ++ used_from g n' (from + 1)
  end.
Definition used_list (d : disk) (v : vol) : list N :=
  used_from (fun c => fat_get d v 0 c) (N.to_nat (v_clusters v)) 2.

Lemma used_from_in g : forall n from x,
  In x (used_from g n from) <-> from <= x /\ x < from + N.of_nat n /\ g x <> 0.
Proof.
  induction n as [|n IH]; intros from x; cbn [used_from].
  - split; [intros []|intros (A & B & _); lia].
  - rewrite in_app_iff, IH. destruct (N.eqb_spec (g from) 0) as [E|E]; cbn [In]; split.
    + intros [[]|(A & B & C)]. split; [lia|]. split; [lia|exact C].
    + intros (A & B & C). right. split; [|split; [lia|exact C]].
      destruct (N.eq_dec x from) as [->|Hne]; [contradiction|lia].
    + intros [[<-|[]]|(A & B & C)]; (split; [lia|]; split; [lia|assumption]).
    + intros (A & B & C). destruct (N.eq_dec x from) as [->|Hne]; [left; left; reflexivity|].
      right. split; [lia|]. split; [lia|exact C].
Qed.

Lemma used_from_nodup g : forall n from, NoDup (used_from g n from).
Proof.
  induction n as [|n IH]; intros from; cbn [used_from]; [constructor|].
  apply nodup_app; [destruct (g from =? 0); [constructor|constructor; [intros []|constructor]]|apply IH|].
  intros x Hx Hin. apply used_from_in in Hin. destruct (g from =? 0); [destruct Hx|].
  destruct Hx as [<-|[]]. lia.
Qed.

Lemma used_from_count g : forall n from,
  (count_zero g n from + length (used_from g n from))%nat = n.
Proof.
  induction n as [|n IH]; intros from; cbn [count_zero used_from]; [reflexivity|].
  rewrite app_length. specialize (IH (from + 1)). destruct (g from =? 0); cbn [length]; lia.
Qed.

Lemma used_list_in d v x :
  In x (used_list d v) <-> 2 <= x /\ x < v_clusters v + 2 /\ fat_get d v 0 x <> 0.
Proof. unfold used_list. rewrite used_from_in, fe_range. tauto. Qed.

(* the set of clusters marked in use IS the union of the chains - as lists without
   repetition, one is a permutation of the other *)
Theorem wf_used_perm d v hs : fat_wf d v hs -> Permutation (used_list d v) (all_chains d v hs).
Proof.
  intros W. destruct (proj1 (fat_wf_flat d v hs) W) as (_ & Hnd & Hused).
  apply NoDup_Permutation; [apply used_from_nodup|exact Hnd|].
  intros x. rewrite used_list_in. split.
  - intros (A & B & C). exact (proj1 (Hused x A B) C).
  - intros Hx. apply in_all_chains in Hx. destruct Hx as (h & ch & Hh & Hat & Hin).
    destruct (chain_at_mem _ _ _ _ x Hat Hin) as (A & B & C & _). auto.
Qed.

(* free entries + total length of the chains = number of data clusters *)
Theorem wf_free_count d v hs : fat_wf d v hs ->
  (free_entries d v + length (all_chains d v hs))%nat = N.to_nat (v_clusters v).
Proof.
  intros W. rewrite <- (Permutation_length (wf_used_perm d v hs W)).
  unfold free_entries, used_list. apply used_from_count.
Qed.

(* ================================================================== 3. FAT transformations *)
(* the four ways the model changes a FAT, as relations between the disk before (d) and after
   (d'), independent of the state monad *)

(* ---- 3a. a free cluster c becomes an end-of-chain entry and the last cluster p of the chain
   of h links to it ---- *)
Lemma wf_extend d d' v hs h pre p c :
  link_ok v -> fat_wf d v hs -> In h hs -> chain_at d v h (pre ++ [p]) ->
  2 <= c -> c < v_clusters v + 2 -> fat_get d v 0 c = 0 ->
  fat_get d' v 0 c = enc v CL_EOF -> fat_get d' v 0 p = c ->
  (forall x, 2 <= x -> x < v_clusters v + 2 -> x <> c -> x <> p -> fat_get d' v 0 x = fat_get d v 0 x) ->
  fat_wf d' v hs /\ chain_at d' v h (pre ++ [p; c]) /\
  (forall h2 ch2, In h2 hs -> h2 <> h -> chain_at d v h2 ch2 -> chain_at d' v h2 ch2).
Proof.
  intros Hl W Hh Hch C1 C2 Cf Ec Ep Ho.
  assert (ELh : chain_l d v h = pre ++ [p]) by (apply chain_l_at; exact Hch).
  pose proof (chain_at_nodup _ _ _ _ Hch) as Hnd.
  assert (Hpin : In p (chain_l d v h)) by (rewrite ELh; apply in_or_app; right; left; reflexivity).
  assert (Hnew : chain_at d' v h (pre ++ [p; c])).
  { apply (chain_at_any d' v h (S (walk_fuel v))). apply (PrCrash.chain_extend d d' v c C1 C2 Hl).
    - rewrite Ec. exact (proj1 (PrCrash.eof_is_end v)).
    - rewrite Ec. exact (proj2 (PrCrash.eof_is_end v)).
    - exact Hch.
    - intros x Hx. assert (Hx' : In x (chain_l d v h)) by (rewrite ELh; apply in_or_app; left; exact Hx).
      destruct (wf_l_mem d v hs h x W Hh Hx') as (A & B & C). apply Ho; [exact A|exact B|congruence|].
      intros ->. destruct (nodup_app_inv _ _ Hnd) as (_ & _ & D). apply (D p Hx). left. reflexivity.
    - exact Ep. }
  assert (Hoth : forall h2, In h2 hs -> h2 <> h -> chain_at d' v h2 (chain_l d v h2)).
  { intros h2 H2 Hne. apply (chain_of_frame d d' v _ _ _ (wf_l_def d v hs h2 W H2)).
    intros x Hx. destruct (wf_l_mem d v hs h2 x W H2 Hx) as (A & B & C). apply Ho; [exact A|exact B|congruence|].
    intros ->. apply Hne. exact (wf_l_disj d v hs h2 h p W H2 Hh Hx Hpin). }
  assert (Hcfree : forall h2, In h2 hs -> ~ In c (chain_l d v h2)).
  { intros h2 H2 Hin. destruct (wf_l_mem d v hs h2 c W H2 Hin) as (_ & _ & C). contradiction. }
  split; [|split; [exact Hnew|]].
  - apply (wf_intro d' v hs (fun h' => if h' =? h then pre ++ [p; c] else chain_l d v h')).
    + exact (wf_heads _ _ _ W).
    + intros h' Hh'. destruct (N.eqb_spec h' h) as [->|Hne]; [exact Hnew|exact (Hoth h' Hh' Hne)].
    + intros h1 h2 x H1 H2.
      destruct (N.eqb_spec h1 h) as [->|N1], (N.eqb_spec h2 h) as [->|N2]; intros X1 X2.
      * reflexivity.
      * apply in_snoc2 in X1. destruct X1 as [X1| ->]; [|contradiction (Hcfree h2 H2)].
        rewrite <- ELh in X1. exact (wf_l_disj d v hs h h2 x W Hh H2 X1 X2).
      * apply in_snoc2 in X2. destruct X2 as [X2| ->]; [|contradiction (Hcfree h1 H1)].
        rewrite <- ELh in X2. exact (wf_l_disj d v hs h1 h x W H1 Hh X1 X2).
      * exact (wf_l_disj d v hs h1 h2 x W H1 H2 X1 X2).
    + intros x X1 X2. destruct (N.eq_dec x c) as [->|Hxc].
      { split.
        - intros _. exists h. split; [exact Hh|]. rewrite N.eqb_refl. apply in_snoc2. right. reflexivity.
        - intros _. rewrite Ec. apply enc_eof_nz. }
      destruct (N.eq_dec x p) as [->|Hxp].
      { split.
        - intros _. exists h. split; [exact Hh|]. rewrite N.eqb_refl. apply in_snoc2. left. rewrite <- ELh. exact Hpin.
        - intros _. rewrite Ep. lia. }
      rewrite (Ho x X1 X2 Hxc Hxp), (wf_l_used d v hs x W X1 X2).
      split; intros (h' & H1 & H2); exists h'; (split; [exact H1|]);
        destruct (N.eqb_spec h' h) as [->|Hne]; try exact H2.
      * apply in_snoc2. left. rewrite <- ELh. exact H2.
      * apply in_snoc2 in H2. destruct H2 as [H2|H2]; [rewrite ELh; exact H2|contradiction].
  - intros h2 ch2 H2 Hne Hat. rewrite <- (chain_l_at _ _ _ _ Hat). exact (Hoth h2 H2 Hne).
Qed.

(* ---- 3b. a free cluster c becomes an end-of-chain entry: a new one-cluster chain ---- *)
Lemma wf_new_head d d' v hs c :
  fat_wf d v hs -> 2 <= c -> c < v_clusters v + 2 -> fat_get d v 0 c = 0 ->
  fat_get d' v 0 c = enc v CL_EOF ->
  (forall x, 2 <= x -> x < v_clusters v + 2 -> x <> c -> fat_get d' v 0 x = fat_get d v 0 x) ->
  fat_wf d' v (c :: hs) /\ chain_at d' v c [c] /\ ~ In c hs /\
  (forall h2 ch2, In h2 hs -> chain_at d v h2 ch2 -> chain_at d' v h2 ch2).
Proof.
  intros W C1 C2 Cf Ec Ho.
  assert (Hcfree : forall h2, In h2 hs -> ~ In c (chain_l d v h2)).
  { intros h2 H2 Hin. destruct (wf_l_mem d v hs h2 c W H2 Hin) as (_ & _ & C). contradiction. }
  assert (Hcni : ~ In c hs).
  { intros Hin. apply (Hcfree c Hin). exact (chain_at_head_in _ _ _ _ (wf_l_def _ _ _ _ W Hin)). }
  assert (Hnew : chain_at d' v c [c]).
  { apply (chain_at_any d' v c 1). apply PrCrash.chain_single; [exact C1|exact C2| |]; rewrite Ec.
    - exact (proj1 (PrCrash.eof_is_end v)).
    - exact (proj2 (PrCrash.eof_is_end v)). }
  assert (Hoth : forall h2, In h2 hs -> chain_at d' v h2 (chain_l d v h2)).
  { intros h2 H2. apply (chain_of_frame d d' v _ _ _ (wf_l_def d v hs h2 W H2)).
    intros x Hx. destruct (wf_l_mem d v hs h2 x W H2 Hx) as (A & B & C). apply Ho; [exact A|exact B|congruence]. }
  assert (Hhne : forall h2, In h2 hs -> h2 <> c) by (intros h2 H2 ->; contradiction).
  split; [|split; [exact Hnew|split; [exact Hcni|]]].
  - apply (wf_intro d' v (c :: hs) (fun h' => if h' =? c then [c] else chain_l d v h')).
    + constructor; [exact Hcni|exact (wf_heads _ _ _ W)].
    + intros h' Hh'. destruct (N.eqb_spec h' c) as [->|Hne]; [exact Hnew|].
      destruct Hh' as [E|Hh']; [congruence|exact (Hoth h' Hh')].
    + intros h1 h2 x H1 H2.
      destruct (N.eqb_spec h1 c) as [->|N1], (N.eqb_spec h2 c) as [->|N2]; intros X1 X2.
      * reflexivity.
      * destruct H2 as [E|H2]; [congruence|]. destruct X1 as [<-|[]]. contradiction (Hcfree h2 H2).
      * destruct H1 as [E|H1]; [congruence|]. destruct X2 as [<-|[]]. contradiction (Hcfree h1 H1).
      * destruct H1 as [E|H1]; [congruence|]. destruct H2 as [E|H2]; [congruence|].
        exact (wf_l_disj d v hs h1 h2 x W H1 H2 X1 X2).
    + intros x X1 X2. destruct (N.eq_dec x c) as [->|Hxc].
      { split.
        - intros _. exists c. split; [left; reflexivity|]. rewrite N.eqb_refl. left. reflexivity.
        - intros _. rewrite Ec. apply enc_eof_nz. }
      rewrite (Ho x X1 X2 Hxc), (wf_l_used d v hs x W X1 X2). split.
      * intros (h' & H1 & H2). exists h'. split; [right; exact H1|].
        destruct (N.eqb_spec h' c) as [E|_]; [contradiction (Hhne h' H1)|exact H2].
      * intros (h' & H1 & H2). destruct (N.eqb_spec h' c) as [->|Hne].
        -- destruct H2 as [E|[]]. congruence.
        -- destruct H1 as [E|H1]; [congruence|]. exists h'. split; [exact H1|exact H2].
  - intros h2 ch2 H2 Hat. rewrite <- (chain_l_at _ _ _ _ Hat). exact (Hoth h2 H2).
Qed.

(* ---- 3c. the chain of h is cut after its first cluster: h becomes the end of the chain, the
   clusters after it become free ---- *)
Lemma wf_cut d d' v hs h rest :
  fat_wf d v hs -> In h hs -> chain_at d v h (h :: rest) ->
  (rest <> [] -> fat_get d' v 0 h = enc v CL_EOF) ->
  (forall y, In y rest -> fat_get d' v 0 y = 0) ->
  (forall x, 2 <= x -> x < v_clusters v + 2 -> ~ In x rest -> (x = h -> rest = []) ->
     fat_get d' v 0 x = fat_get d v 0 x) ->
  fat_wf d' v hs /\ chain_at d' v h [h] /\
  (forall h2 ch2, In h2 hs -> h2 <> h -> chain_at d v h2 ch2 -> chain_at d' v h2 ch2) /\
  (forall y, In y rest -> ~ reachable d' v hs y).
Proof.
  intros W Hh Hch Ehd Efr Ho.
  assert (ELh : chain_l d v h = h :: rest) by (apply chain_l_at; exact Hch).
  pose proof (chain_at_nodup _ _ _ _ Hch) as Hnd. inversion Hnd as [|? ? Hhni Hndr]; subst.
  destruct (chain_at_mem d v h _ h Hch (or_introl eq_refl)) as (H1 & H2 & Hhnz & _).
  assert (Hnew : chain_at d' v h [h]).
  { destruct rest as [|n tl].
    - apply (chain_of_frame d d' v _ _ _ Hch). intros x [<-|[]]. apply Ho; [exact H1|exact H2|intros []|reflexivity].
    - apply (chain_at_any d' v h 1). apply PrCrash.chain_single; [exact H1|exact H2| |];
        rewrite (Ehd ltac:(discriminate)).
      + exact (proj1 (PrCrash.eof_is_end v)).
      + exact (proj2 (PrCrash.eof_is_end v)). }
  assert (Hoth : forall h2, In h2 hs -> h2 <> h -> chain_at d' v h2 (chain_l d v h2)).
  { intros h2 Hh2 Hne. apply (chain_of_frame d d' v _ _ _ (wf_l_def d v hs h2 W Hh2)).
    intros x Hx. destruct (wf_l_mem d v hs h2 x W Hh2 Hx) as (A & B & C).
    assert (Hni : ~ In x (chain_l d v h)) by (intros Hin; apply Hne; exact (wf_l_disj d v hs h2 h x W Hh2 Hh Hx Hin)).
    rewrite ELh in Hni. apply Ho; [exact A|exact B|intros Hin; apply Hni; right; exact Hin|].
    intros ->. contradiction Hni. left. reflexivity. }
  set (G := fun h' => if h' =? h then [h] else chain_l d v h').
  assert (Gsub : forall h' x, In x (G h') -> In x (chain_l d v h')).
  { intros h' x. unfold G. destruct (N.eqb_spec h' h) as [->|_]; [|exact (fun H => H)].
    intros [<-|[]]. rewrite ELh. left. reflexivity. }
  assert (Hunreach : forall y, In y rest -> forall h', In h' hs -> ~ In y (G h')).
  { intros y Hy h' Hh' Hin. pose proof (Gsub h' y Hin) as Hin'.
    assert (E : h' = h) by (apply (wf_l_disj d v hs h' h y W Hh' Hh Hin'); rewrite ELh; right; exact Hy).
    subst h'. unfold G in Hin. rewrite N.eqb_refl in Hin. destruct Hin as [<-|[]]. contradiction. }
  assert (Wn : fat_wf d' v hs).
  { apply (wf_intro d' v hs G).
    - exact (wf_heads _ _ _ W).
    - intros h' Hh'. unfold G. destruct (N.eqb_spec h' h) as [->|Hne]; [exact Hnew|exact (Hoth h' Hh' Hne)].
    - intros h1 h2 x Hh1 Hh2 X1 X2. exact (wf_l_disj d v hs h1 h2 x W Hh1 Hh2 (Gsub _ _ X1) (Gsub _ _ X2)).
    - intros x X1 X2. destruct (in_dec N.eq_dec x rest) as [Hxr|Hxr].
      { rewrite (Efr x Hxr). split; [intros E; contradiction E; reflexivity|].
        intros (h' & Hh' & Hin). contradiction (Hunreach x Hxr h' Hh' Hin). }
      destruct (N.eq_dec x h) as [->|Hxh].
      { split.
        - intros _. exists h. split; [exact Hh|]. unfold G. rewrite N.eqb_refl. left. reflexivity.
        - intros _. destruct rest as [|n tl].
          + rewrite Ho; [exact Hhnz|exact H1|exact H2|intros []|reflexivity].
          + rewrite (Ehd ltac:(discriminate)). apply enc_eof_nz. }
      rewrite (Ho x X1 X2 Hxr ltac:(intros E; contradiction)), (wf_l_used d v hs x W X1 X2).
      split; intros (h' & Hh' & Hin); exists h'; (split; [exact Hh'|]).
      + unfold G. destruct (N.eqb_spec h' h) as [->|_]; [|exact Hin].
        rewrite ELh in Hin. destruct Hin as [E|Hin]; [congruence|contradiction].
      + exact (Gsub _ _ Hin). }
  split; [exact Wn|]. split; [exact Hnew|]. split.
  - intros h2 ch2 Hh2 Hne Hat. rewrite <- (chain_l_at _ _ _ _ Hat). exact (Hoth h2 Hh2 Hne).
  - intros y Hy (h' & ch & Hh' & Hat & Hin).
    apply (Hunreach y Hy h' Hh'). unfold G. destruct (N.eqb_spec h' h) as [->|Hne].
    + rewrite (chain_at_det _ _ _ _ _ Hat Hnew) in Hin. exact Hin.
    + rewrite (chain_at_det _ _ _ _ _ Hat (Hoth h' Hh' Hne)) in Hin. exact Hin.
Qed.

(* ---- 3d. every cluster of the chain of h becomes free ---- *)
Lemma wf_drop d d' v hs h rest :
  fat_wf d v hs -> In h hs -> chain_at d v h (h :: rest) ->
  (forall y, In y (h :: rest) -> fat_get d' v 0 y = 0) ->
  (forall x, 2 <= x -> x < v_clusters v + 2 -> ~ In x (h :: rest) -> fat_get d' v 0 x = fat_get d v 0 x) ->
  fat_wf d' v (remove N.eq_dec h hs) /\
  (forall h2 ch2, In h2 hs -> h2 <> h -> chain_at d v h2 ch2 -> chain_at d' v h2 ch2) /\
  (forall y, In y (h :: rest) -> ~ reachable d' v (remove N.eq_dec h hs) y).
Proof.
  intros W Hh Hch Efr Ho.
  assert (ELh : chain_l d v h = h :: rest) by (apply chain_l_at; exact Hch).
  assert (Hoth : forall h2, In h2 hs -> h2 <> h -> chain_at d' v h2 (chain_l d v h2)).
  { intros h2 Hh2 Hne. apply (chain_of_frame d d' v _ _ _ (wf_l_def d v hs h2 W Hh2)).
    intros x Hx. destruct (wf_l_mem d v hs h2 x W Hh2 Hx) as (A & B & C).
    apply Ho; [exact A|exact B|]. rewrite <- ELh. intros Hin. apply Hne.
    exact (wf_l_disj d v hs h2 h x W Hh2 Hh Hx Hin). }
  assert (Hrm : forall h', In h' (remove N.eq_dec h hs) <-> In h' hs /\ h' <> h).
  { intros h'. split; [apply in_remove|intros [A B]; apply in_in_remove; assumption]. }
  assert (Hunreach : forall y, In y (h :: rest) -> forall h', In h' hs -> h' <> h -> ~ In y (chain_l d v h')).
  { intros y Hy h' Hh' Hne Hin. apply Hne. apply (wf_l_disj d v hs h' h y W Hh' Hh Hin). rewrite ELh. exact Hy. }
  assert (Wn : fat_wf d' v (remove N.eq_dec h hs)).
  { apply (wf_intro d' v _ (chain_l d v)).
    - apply nodup_remove. exact (wf_heads _ _ _ W).
    - intros h' Hh'. apply Hrm in Hh'. exact (Hoth h' (proj1 Hh') (proj2 Hh')).
    - intros h1 h2 x Hh1 Hh2. apply Hrm in Hh1. apply Hrm in Hh2.
      exact (wf_l_disj d v hs h1 h2 x W (proj1 Hh1) (proj1 Hh2)).
    - intros x X1 X2. destruct (in_dec N.eq_dec x (h :: rest)) as [Hxr|Hxr].
      { rewrite (Efr x Hxr). split; [intros E; contradiction E; reflexivity|].
        intros (h' & Hh' & Hin). apply Hrm in Hh'. contradiction (Hunreach x Hxr h' (proj1 Hh') (proj2 Hh') Hin). }
      rewrite (Ho x X1 X2 Hxr), (wf_l_used d v hs x W X1 X2).
      split; intros (h' & Hh' & Hin); exists h'; (split; [|exact Hin]).
      + apply Hrm. split; [exact Hh'|]. intros ->. rewrite ELh in Hin. contradiction.
      + apply Hrm in Hh'. exact (proj1 Hh'). }
  split; [exact Wn|]. split.
  - intros h2 ch2 Hh2 Hne Hat. rewrite <- (chain_l_at _ _ _ _ Hat). exact (Hoth h2 Hh2 Hne).
  - intros y Hy (h' & ch & Hh' & Hat & Hin). apply Hrm in Hh'. destruct Hh' as [Hh' Hne].
    rewrite (chain_at_det _ _ _ _ _ Hat (Hoth h' Hh' Hne)) in Hin.
    exact (Hunreach y Hy h' Hh' Hne Hin).
Qed.

(* ================================================================== 4. the model functions *)
Lemma geo_eq_sym v w : geo_eq v w -> geo_eq w v.
Proof. intros (a & b & ->). exists (v_next_free v), (v_free v). destruct v; reflexivity. Qed.

(* after a successful allocation the hypotheses hold again, for a record of the same geometry *)
Lemma alloc_keeps_geo vi v fsz prev (zero : bool) s c s' :
  alloc_pre s vi v fsz -> alloc_eff vi v fsz prev zero s c s' ->
  exists v', geo_eq v v' /\ alloc_pre s' vi v' fsz.
Proof.
  intros ((_ & _ & Hv & _) & L & Hh) Heff.
  destruct (ae_vol _ _ _ _ _ _ _ _ Heff) as (nf & Evols & Hnf).
  destruct (ae_inv _ _ _ _ _ _ _ _ Heff) as (I1 & I2 & I3).
  set (v' := set_v_free (set_v_next_free v nf) (dec_free (v_free v))) in *.
  assert (Hv' : nth_error (s_vols s') vi = Some v') by (rewrite Evols; exact (ls_nth_same _ _ _ _ Hv)).
  exists v'. split; [exists nf, (dec_free (v_free v)); reflexivity|].
  split; [|split].
  - split; [exact I1|]. split; [exact I2|]. split; [exact Hv'|exact I3].
  - apply fat_layout_free. exact L.
  - intros h Eh. cbn in Eh. subst nf. destruct Hnf as (N1 & _). exact N1.
Qed.

(* ---- 2a. alloc_cluster with a previous cluster: the chain of h grows by the new cluster ---- *)
Theorem C03_alloc_extends_wf vi v fsz (zero : bool) s hs h pre p c s' :
  alloc_pre s vi v fsz -> link_ok v -> fat_wf (s_disk s) v hs ->
  In h hs -> chain_at (s_disk s) v h (pre ++ [p]) ->
  alloc_cluster vi (Some p) zero s = (Ok c, s') ->
  fat_wf (s_disk s') v hs /\
  chain_at (s_disk s') v h (pre ++ [p; c]) /\
  (forall h2 ch2, In h2 hs -> h2 <> h -> chain_at (s_disk s) v h2 ch2 -> chain_at (s_disk s') v h2 ch2) /\
  (2 <= c /\ c < v_clusters v + 2 /\ fat_get (s_disk s) v 0 c = 0) /\
  exists v', geo_eq v v' /\ alloc_pre s' vi v' fsz.
Proof.
  intros Hpre Hl W Hh Hch Hrun.
  destruct (chain_at_mem _ _ _ _ p Hch ltac:(apply in_or_app; right; left; reflexivity)) as (P1 & P2 & P3 & _).
  destruct (alloc_cluster_effect_inuse vi v fsz (Some p) zero s c s' Hpre) as (Heff & Hne & Enew);
    [intros p0 E; inversion E; subst p0; split; assumption|exact Hrun|].
  destruct (ae_range _ _ _ _ _ _ _ _ Heff) as (C1 & C2 & Cf).
  pose proof Hpre as (_ & L & _).
  destruct (wf_extend (s_disk s) (s_disk s') v hs h pre p c Hl W Hh Hch C1 C2 Cf Enew) as (W' & Hnew & Hoth).
  - rewrite (ae_prev _ _ _ _ _ _ _ _ Heff p eq_refl). apply enc_link; assumption.
  - intros x X1 X2 N1 N2. apply (ae_other _ _ _ _ _ _ _ _ Heff); [exact (layout_sector v fsz x L X2)|exact N1|congruence].
  - split; [exact W'|]. split; [exact Hnew|]. split; [exact Hoth|]. split; [auto|].
    exact (alloc_keeps_geo _ _ _ _ _ _ _ _ Hpre Heff).
Qed.

(* ---- 2b. alloc_cluster without a previous cluster: a new one-cluster chain (the first
   cluster of a file, a new directory) ---- *)
Theorem C03_alloc_new_head_wf vi v fsz (zero : bool) s hs c s' :
  alloc_pre s vi v fsz -> fat_wf (s_disk s) v hs ->
  alloc_cluster vi None zero s = (Ok c, s') ->
  fat_wf (s_disk s') v (c :: hs) /\
  chain_at (s_disk s') v c [c] /\ ~ In c hs /\
  (forall h2 ch2, In h2 hs -> chain_at (s_disk s) v h2 ch2 -> chain_at (s_disk s') v h2 ch2) /\
  (2 <= c /\ c < v_clusters v + 2 /\ fat_get (s_disk s) v 0 c = 0) /\
  exists v', geo_eq v v' /\ alloc_pre s' vi v' fsz.
Proof.
  intros Hpre W Hrun.
  assert (Hprev : forall p, @None N = Some p -> p < v_clusters v + 2) by (intros p E; discriminate E).
  pose proof (alloc_cluster_effect vi v fsz None zero s c s' Hpre Hprev Hrun) as Heff.
  destruct (ae_range _ _ _ _ _ _ _ _ Heff) as (C1 & C2 & Cf).
  pose proof Hpre as (_ & L & _).
  destruct (wf_new_head (s_disk s) (s_disk s') v hs c W C1 C2 Cf) as (W' & Hnew & Hni & Hoth).
  - apply (ae_new _ _ _ _ _ _ _ _ Heff). discriminate.
  - intros x X1 X2 N1. apply (ae_other _ _ _ _ _ _ _ _ Heff); [exact (layout_sector v fsz x L X2)|exact N1|discriminate].
  - split; [exact W'|]. split; [exact Hnew|]. split; [exact Hni|]. split; [exact Hoth|]. split; [auto|].
    exact (alloc_keeps_geo _ _ _ _ _ _ _ _ Hpre Heff).
Qed.

(* ---- 2c. a failing allocation: NotEnoughSpace is the only failure; nothing was written, so
   the invariant and the hypotheses hold unchanged; and indeed no entry is free: every data
   cluster lies on a chain ---- *)
Theorem C03_alloc_fail_wf vi v fsz prev (zero : bool) s hs s' :
  alloc_pre s vi v fsz -> (forall p, prev = Some p -> p < v_clusters v + 2) ->
  fat_wf (s_disk s) v hs ->
  alloc_cluster vi prev zero s = (Err NotEnoughSpace, s') ->
  s_disk s' = s_disk s /\ fat_wf (s_disk s') v hs /\ alloc_pre s' vi v fsz /\
  (forall c, 2 <= c -> c < v_clusters v + 2 -> reachable (s_disk s) v hs c).
Proof.
  intros Hpre Hprev W Hrun.
  destruct (alloc_cluster_nospace vi v fsz prev zero s s' Hpre Hprev Hrun) as (Hnone & Hd & _ & _ & Hpre').
  split; [exact Hd|]. split; [rewrite Hd; exact W|]. split; [exact Hpre'|].
  intros c C1 C2. apply (wf_used _ _ _ W c C1 C2). exact (Hnone c C1 C2).
Qed.

(* under the hypotheses an allocation has no other outcome *)
Theorem C03_alloc_outcomes vi v fsz prev (zero : bool) s :
  alloc_pre s vi v fsz -> (forall p, prev = Some p -> p < v_clusters v + 2) ->
  exists o s', alloc_cluster vi prev zero s = (o, s') /\ (o = Err NotEnoughSpace \/ exists c, o = Ok c).
Proof.
  intros Hpre Hprev.
  destruct (alloc_cluster_total vi v fsz prev zero s Hpre Hprev) as (o & s' & Hrun & [(E & _)|(c & E & _)]);
    exists o, s'; (split; [exact Hrun|]); [left; exact E|right; exists c; exact E].
Qed.

(* ---- 3a. truncate_cluster_chain at the head: the chain of h is [h], the clusters after it are
   free again and on no chain (nothing leaked), every other chain is unchanged ---- *)
Theorem C03_truncate_wf vi v fsz s hs h rest :
  alloc_pre s vi v fsz -> fat_wf (s_disk s) v hs -> In h hs -> chain_at (s_disk s) v h (h :: rest) ->
  exists s', truncate_cluster_chain vi h s = (Ok tt, s') /\
    fat_wf (s_disk s') v hs /\
    chain_at (s_disk s') v h [h] /\
    (forall h2 ch2, In h2 hs -> h2 <> h -> chain_at (s_disk s) v h2 ch2 -> chain_at (s_disk s') v h2 ch2) /\
    (forall y, In y rest -> fat_get (s_disk s') v 0 y = 0 /\ ~ reachable (s_disk s') v hs y) /\
    alloc_pre s' vi (trunc_vol v rest) fsz.
Proof.
  intros Hpre W Hh Hch. pose proof Hpre as (Hst & L & _).
  destruct (truncate_cluster_chain_effect vi v fsz s h rest _ L Hst Hch) as (s' & Hrun & Heff).
  exists s'. split; [exact Hrun|].
  destruct (wf_cut (s_disk s) (s_disk s') v hs h rest W Hh Hch) as (W' & Hnew & Hoth & Hun).
  - exact (te_head _ _ _ _ _ _ _ Heff).
  - exact (te_freed _ _ _ _ _ _ _ Heff).
  - intros x X1 X2 N1 N2. apply (te_other _ _ _ _ _ _ _ Heff); [exact (layout_sector v fsz x L X2)|exact N1|exact N2].
  - split; [exact W'|]. split; [exact Hnew|]. split; [exact Hoth|]. split.
    + intros y Hy. split; [exact (te_freed _ _ _ _ _ _ _ Heff y Hy)|exact (Hun y Hy)].
    + exact (truncate_cluster_chain_keeps_pre vi v fsz s h rest _ s' Hpre Hch Hrun).
Qed.

(* ---- 3b. free_cluster_chain at the head: h is no head any more, all its clusters are free
   and on no chain, every other chain is unchanged ---- *)
Theorem C03_free_chain_wf vi v fsz s hs h rest :
  alloc_pre s vi v fsz -> fat_wf (s_disk s) v hs -> In h hs -> chain_at (s_disk s) v h (h :: rest) ->
  exists s', free_cluster_chain vi h s = (Ok tt, s') /\
    fat_wf (s_disk s') v (remove N.eq_dec h hs) /\
    (forall h2 ch2, In h2 hs -> h2 <> h -> chain_at (s_disk s) v h2 ch2 -> chain_at (s_disk s') v h2 ch2) /\
    (forall y, In y (h :: rest) ->
       fat_get (s_disk s') v 0 y = 0 /\ ~ reachable (s_disk s') v (remove N.eq_dec h hs) y) /\
    alloc_pre s' vi (free_vol v h rest) fsz.
Proof.
  intros Hpre W Hh Hch. pose proof Hpre as (Hst & L & _).
  destruct (free_cluster_chain_effect vi v fsz s h rest _ L Hst Hch) as (s' & Hrun & Heff).
  exists s'. split; [exact Hrun|].
  destruct (wf_drop (s_disk s) (s_disk s') v hs h rest W Hh Hch) as (W' & Hoth & Hun).
  - exact (fe_freed _ _ _ _ _ _ _ Heff).
  - intros x X1 X2 N1. apply (fe_other _ _ _ _ _ _ _ Heff); [exact (layout_sector v fsz x L X2)|exact N1].
  - split; [exact W'|]. split; [exact Hoth|]. split.
    + intros y Hy. split; [exact (fe_freed _ _ _ _ _ _ _ Heff y Hy)|exact (Hun y Hy)].
    + exact (free_cluster_chain_keeps_pre vi v fsz s h rest _ s' Hpre Hch Hrun).
Qed.

(* ================================================================== 5. histories *)
(* the FAT-level operations of the file system on the pair (state, set of heads):
   FAlloc h  - append a cluster to the chain of the head h (a write past the last cluster)
   FNew      - allocate the first cluster of a file / a new directory
   FTrunc h  - cut the chain of h after its first cluster (open with truncate)
   FFree h   - release the whole chain of h (delete)
   An operation is applicable when the cluster it names is a head; the outcome of the model
   function (success or error) is whatever the model computes. *)
Inductive fop := FAlloc (h : N) (zero : bool) | FNew (zero : bool) | FTrunc (h : N) | FFree (h : N).

Definition mem (h : N) (hs : list N) : bool := existsb (N.eqb h) hs.

Definition run_fop (vi : nat) (o : fop) (s : st) (hs : list N) : option (st * list N) :=
  match o with
  | FAlloc h zero =>
      if mem h hs then
        match nth_error (s_vols s) vi with
        | Some w =>
            match chain_of (s_disk s) w h (walk_fuel w) with
            | Some ch => Some (snd (alloc_cluster vi (Some (last ch h)) zero s), hs)
            | None => None
            end
        | None => None
        end
      else None
  | FNew zero =>
      match alloc_cluster vi None zero s with
      | (Ok c, s') => Some (s', c :: hs)
      | (_, s') => Some (s', hs)
      end
  | FTrunc h => if mem h hs then Some (snd (truncate_cluster_chain vi h s), hs) else None
  | FFree h => if mem h hs then Some (snd (free_cluster_chain vi h s), remove N.eq_dec h hs) else None
  end.

Fixpoint run_fops (vi : nat) (ops : list fop) (s : st) (hs : list N) : option (st * list N) :=
  match ops with
  | [] => Some (s, hs)
  | o :: r => match run_fop vi o s hs with
              | Some (s1, hs1) => run_fops vi r s1 hs1
              | None => None
              end
  end.

(* the invariant of a history on a volume of geometry v0: the hypotheses of the effect theorems
   and the well-formedness of the FAT with respect to the current set of heads *)
Definition fat_inv (vi : nat) (fsz : N) (v0 : vol) (s : st) (hs : list N) : Prop :=
  exists w, geo_eq v0 w /\ alloc_pre s vi w fsz /\ fat_wf (s_disk s) v0 hs.

Theorem C03_fat_step vi fsz v0 o s hs s' hs' :
  link_ok v0 -> fat_inv vi fsz v0 s hs -> run_fop vi o s hs = Some (s', hs') ->
  fat_inv vi fsz v0 s' hs'.
Proof.
  intros Hl0 (w & G & Hpre & W0) Hrun.
  pose proof (link_ok_geo _ _ G Hl0) as Hl.
  pose proof (fat_wf_geo _ _ _ _ G W0) as W.
  pose proof (geo_eq_sym _ _ G) as G'.
  pose proof Hpre as ((_ & _ & Hv & _) & _ & _).
  destruct o as [h zero|zero|h|h]; cbn [run_fop] in Hrun.
  - (* FAlloc *)
    destruct (mem h hs) eqn:Em; [|discriminate]. apply PrCrash.existsb_In in Em.
    rewrite Hv in Hrun. destruct (wf_def _ _ _ W h Em) as (ch & Hch).
    pose proof Hch as Hch'. unfold chain_at in Hch'. rewrite Hch' in Hrun. clear Hch'.
    destruct (chain_at_head _ _ _ _ Hch) as (r & Er).
    destruct (@exists_last _ ch) as (pre & p & Ech); [rewrite Er; discriminate|].
    rewrite Ech, last_last in Hrun. rewrite Ech in Hch. clear Er r Ech ch.
    destruct (chain_at_mem _ _ _ _ p Hch ltac:(apply in_or_app; right; left; reflexivity)) as (P1 & P2 & _).
    assert (Hprev : forall p0, Some p = Some p0 -> p0 < v_clusters w + 2)
      by (intros p0 E; inversion E; subst p0; exact P2).
    destruct (C03_alloc_outcomes vi w fsz (Some p) zero s Hpre Hprev) as (o & s2 & Hr & Hres).
    rewrite Hr in Hrun. cbn [snd] in Hrun. inversion Hrun; subst s2 hs'. clear Hrun.
    destruct Hres as [->|(c & ->)].
    + destruct (C03_alloc_fail_wf vi w fsz (Some p) zero s hs s' Hpre Hprev W Hr) as (_ & W' & Hpre' & _).
      exists w. split; [exact G|]. split; [exact Hpre'|exact (fat_wf_geo _ _ _ _ G' W')].
    + destruct (C03_alloc_extends_wf vi w fsz zero s hs h pre p c s' Hpre Hl W Em Hch Hr)
        as (W' & _ & _ & _ & v' & Gv & Hpre').
      exists v'. split; [exact (geo_eq_trans _ _ _ G Gv)|]. split; [exact Hpre'|exact (fat_wf_geo _ _ _ _ G' W')].
  - (* FNew *)
    assert (Hprev : forall p0, @None N = Some p0 -> p0 < v_clusters w + 2) by (intros p0 E; discriminate E).
    destruct (C03_alloc_outcomes vi w fsz None zero s Hpre Hprev) as (o & s2 & Hr & Hres).
    rewrite Hr in Hrun. destruct Hres as [->|(c & ->)]; inversion Hrun; subst s2 hs'; clear Hrun.
    + destruct (C03_alloc_fail_wf vi w fsz None zero s hs s' Hpre Hprev W Hr) as (_ & W' & Hpre' & _).
      exists w. split; [exact G|]. split; [exact Hpre'|exact (fat_wf_geo _ _ _ _ G' W')].
    + destruct (C03_alloc_new_head_wf vi w fsz zero s hs c s' Hpre W Hr) as (W' & _ & _ & _ & _ & v' & Gv & Hpre').
      exists v'. split; [exact (geo_eq_trans _ _ _ G Gv)|]. split; [exact Hpre'|exact (fat_wf_geo _ _ _ _ G' W')].
  - (* FTrunc *)
    destruct (mem h hs) eqn:Em; [|discriminate]. apply PrCrash.existsb_In in Em.
    destruct (wf_def _ _ _ W h Em) as (ch & Hch). destruct (chain_at_head _ _ _ _ Hch) as (rest & ->).
    destruct (C03_truncate_wf vi w fsz s hs h rest Hpre W Em Hch) as (s2 & Hr & W' & _ & _ & _ & Hpre').
    rewrite Hr in Hrun. cbn [snd] in Hrun. inversion Hrun; subst s2 hs'. clear Hrun.
    exists (trunc_vol w rest). split; [exact (geo_eq_trans _ _ _ G (geo_trunc w rest))|].
    split; [exact Hpre'|exact (fat_wf_geo _ _ _ _ G' W')].
  - (* FFree *)
    destruct (mem h hs) eqn:Em; [|discriminate]. apply PrCrash.existsb_In in Em.
    destruct (wf_def _ _ _ W h Em) as (ch & Hch). destruct (chain_at_head _ _ _ _ Hch) as (rest & ->).
    destruct (C03_free_chain_wf vi w fsz s hs h rest Hpre W Em Hch) as (s2 & Hr & W' & _ & _ & Hpre').
    rewrite Hr in Hrun. cbn [snd] in Hrun. inversion Hrun; subst s2 hs'. clear Hrun.
    exists (free_vol w h rest). split; [exact (geo_eq_trans _ _ _ G (geo_free w h rest))|].
    split; [exact Hpre'|exact (fat_wf_geo _ _ _ _ G' W')].
Qed.

(* every history of applicable FAT operations, whatever each one's outcome, keeps the FAT
   well-formed (and the hypotheses of the next operation) *)
Theorem C03_fat_history vi fsz v0 : link_ok v0 -> forall ops s hs s' hs',
  fat_inv vi fsz v0 s hs -> run_fops vi ops s hs = Some (s', hs') -> fat_inv vi fsz v0 s' hs'.
Proof.
  intros Hl. induction ops as [|o r IH]; intros s hs s' hs' Hinv Hrun; cbn [run_fops] in Hrun.
  - inversion Hrun; subst. exact Hinv.
  - destruct (run_fop vi o s hs) as [[s1 hs1]|] eqn:E; [|discriminate].
    exact (IH s1 hs1 s' hs' (C03_fat_step vi fsz v0 o s hs s1 hs1 Hl Hinv E) Hrun).
Qed.

(* an applicable operation always runs (the option is only about applicability) *)
Theorem C03_fat_step_applicable vi fsz v0 o s hs :
  fat_inv vi fsz v0 s hs ->
  match o with FAlloc h _ | FTrunc h | FFree h => In h hs | FNew _ => True end ->
  exists s' hs', run_fop vi o s hs = Some (s', hs').
Proof.
  intros (w & G & Hpre & W0) Happ.
  pose proof (fat_wf_geo _ _ _ _ G W0) as W.
  pose proof Hpre as ((_ & _ & Hv & _) & _ & _).
  destruct o as [h zero|zero|h|h]; cbn [run_fop].
  - apply PrCrash.existsb_In in Happ. unfold mem. rewrite Happ, Hv. apply PrCrash.existsb_In in Happ.
    destruct (wf_def _ _ _ W h Happ) as (ch & Hch). unfold chain_at in Hch. rewrite Hch. eexists _, _. reflexivity.
  - destruct (alloc_cluster vi None zero s) as [[c|e| |] s2]; eexists _, _; reflexivity.
  - apply PrCrash.existsb_In in Happ. unfold mem. rewrite Happ. eexists _, _. reflexivity.
  - apply PrCrash.existsb_In in Happ. unfold mem. rewrite Happ. eexists _, _. reflexivity.
Qed.

(* ================================================================== 6. C05 *)
(* used = reachable, as a set equality, in every state a history reaches: a data cluster is
   marked in use exactly when it lies on the chain of a live head; the list of clusters in use
   is a permutation of the concatenated chains *)
Theorem C05_used_eq_reachable vi fsz v0 ops s hs s' hs' :
  link_ok v0 -> fat_inv vi fsz v0 s hs -> run_fops vi ops s hs = Some (s', hs') ->
  (forall c, In c (used_list (s_disk s') v0) <-> reachable (s_disk s') v0 hs' c) /\
  (forall c, (2 <= c /\ c < v_clusters v0 + 2 /\ fat_get (s_disk s') v0 0 c <> 0)
             <-> reachable (s_disk s') v0 hs' c) /\
  Permutation (used_list (s_disk s') v0) (all_chains (s_disk s') v0 hs').
Proof.
  intros Hl Hinv Hrun.
  destruct (C03_fat_history vi fsz v0 Hl ops s hs s' hs' Hinv Hrun) as (w & _ & _ & W).
  pose proof (wf_used_perm _ _ _ W) as P.
  assert (H : forall c, In c (used_list (s_disk s') v0) <-> reachable (s_disk s') v0 hs' c).
  { intros c. rewrite <- in_all_chains. split; intros Hin.
    - exact (Permutation_in c P Hin).
    - exact (Permutation_in c (Permutation_sym P) Hin). }
  split; [exact H|]. split; [|exact P].
  intros c. rewrite <- H, used_list_in. tauto.
Qed.

(* and the count: the free entries are exactly the data clusters on no chain *)
Theorem C05_free_count vi fsz v0 ops s hs s' hs' :
  link_ok v0 -> fat_inv vi fsz v0 s hs -> run_fops vi ops s hs = Some (s', hs') ->
  (free_entries (s_disk s') v0 + length (all_chains (s_disk s') v0 hs'))%nat = N.to_nat (v_clusters v0).
Proof.
  intros Hl Hinv Hrun.
  destruct (C03_fat_history vi fsz v0 Hl ops s hs s' hs' Hinv Hrun) as (w & _ & _ & W).
  exact (wf_free_count _ _ _ W).
Qed.

(* ================================================================== 7. a decider *)
(* fat_wf is decidable by running the definitions: walk every head's chain, check that the
   concatenation has no repetition, and compare every data cluster's entry with membership *)
Fixpoint range_all (n : nat) (from : N) (p : N -> bool) : bool :=
  match n with
  | O => true
  | S n' => p from && range_all n' (from + 1) p
  end.

Lemma range_all_spec p : forall n from,
  range_all n from p = true <-> forall c, from <= c -> c < from + N.of_nat n -> p c = true.
Proof.
  induction n as [|n IH]; intros from; cbn [range_all].
  - split; [intros _ c A B; lia|reflexivity].
  - rewrite andb_true_iff, IH. split.
    + intros [H0 H] c A B. destruct (N.eq_dec c from) as [->|Hne]; [exact H0|apply H; lia].
    + intros H. split; [apply H; lia|intros c A B; apply H; lia].
Qed.

Fixpoint nodup_b (l : list N) : bool :=
  match l with
  | [] => true
  | x :: r => negb (existsb (N.eqb x) r) && nodup_b r
  end.

Lemma nodup_b_spec l : nodup_b l = true <-> NoDup l.
Proof.
  induction l as [|x r IH]; cbn [nodup_b].
  - split; [constructor|reflexivity].
  - rewrite andb_true_iff, negb_true_iff, IH. split.
    + intros [A B]. constructor; [|exact B]. intros Hin. apply PrCrash.existsb_In in Hin. congruence.
    + intros H. inversion H as [|? ? Hx Hr]; subst. split; [apply PrCrash.existsb_notIn; exact Hx|exact Hr].
Qed.

Definition fat_wf_b (d : disk) (v : vol) (hs : list N) : bool :=
  forallb (fun h => match chain_of d v h (walk_fuel v) with Some _ => true | None => false end) hs
  && nodup_b (all_chains d v hs)
  && range_all (N.to_nat (v_clusters v)) 2
       (fun c => Bool.eqb (negb (fat_get d v 0 c =? 0)) (existsb (N.eqb c) (all_chains d v hs))).

Theorem fat_wf_b_spec d v hs : fat_wf_b d v hs = true <-> fat_wf d v hs.
Proof.
  rewrite fat_wf_flat. unfold fat_wf_b.
  rewrite !andb_true_iff, forallb_forall, nodup_b_spec, range_all_spec, fe_range.
  split.
  - intros ((A & B) & C). split; [|split; [exact B|]].
    + intros h Hh E. specialize (A h Hh). rewrite E in A. discriminate A.
    + intros c C1 C2. specialize (C c C1 C2). apply eqb_prop in C.
      rewrite <- PrCrash.existsb_In, <- C.
      destruct (N.eqb_spec (fat_get d v 0 c) 0) as [E|E]; cbn [negb]; split; intros H;
        try reflexivity; try assumption; try discriminate H; contradiction.
  - intros (A & B & C). split; [split; [|exact B]|].
    + intros h Hh. specialize (A h Hh). destruct (chain_of d v h (walk_fuel v)); [reflexivity|contradiction A; reflexivity].
    + intros c C1 C2. specialize (C c C1 C2). apply eqb_true_iff.
      destruct (existsb (N.eqb c) (all_chains d v hs)) eqn:Ex.
      * apply PrCrash.existsb_In in Ex. apply C in Ex. apply N.eqb_neq in Ex. rewrite Ex. reflexivity.
      * destruct (N.eqb_spec (fat_get d v 0 c) 0) as [E|E]; [reflexivity|].
        apply C in E. apply PrCrash.existsb_In in E. congruence.
Qed.

(* ================================================================== 8. examples *)
(* PrChain's FAT16 example volume (100 clusters, FAT copies at sectors 11 and 13, free count
   50, hint 9) with two chains: 3 -> 4 -> 7 -> end and 10 -> 12 -> end *)
Definition wfx_fat : block := set_bytes (set_bytes exc_fat 20 (bytes16 12)) 24 (bytes16 65535).
Definition wfx_disk : disk := disk_set (disk_set (PositiveMap.empty block) 11 wfx_fat) 13 wfx_fat.
Definition wfx_state : st :=
  mk_st wfx_disk zero_block None [exc_vol] [] [] 0 0 0 [] [] false 1 1 1.

(* the hypotheses of all theorems hold there, the two chains are as said, the FAT is
   well-formed for the heads {3, 10}: 5 clusters in use, 95 free *)
Example wf_example :
  alloc_pre wfx_state 0 exc_vol 2 /\ link_ok exc_vol /\
  chain_at (s_disk wfx_state) exc_vol 3 [3; 4; 7] /\
  chain_at (s_disk wfx_state) exc_vol 10 [10; 12] /\
  fat_wf (s_disk wfx_state) exc_vol [3; 10] /\
  fat_inv 0 2 exc_vol wfx_state [3; 10] /\
  used_list (s_disk wfx_state) exc_vol = [3; 4; 7; 10; 12] /\
  free_entries (s_disk wfx_state) exc_vol = 95%nat.
Proof.
  destruct chain_pre_example as ((_ & L & Hh) & _).
  assert (Hpre : alloc_pre wfx_state 0 exc_vol 2).
  { split; [|split; [exact L|exact Hh]].
    split; [intros n []|]. split; [intros i H; discriminate H|]. split; [reflexivity|].
    intros k Hk. assert (E : k = 0 \/ k = 1) by lia. destruct E as [-> | ->]; vm_compute; reflexivity. }
  assert (W : fat_wf (s_disk wfx_state) exc_vol [3; 10]) by (apply fat_wf_b_spec; vm_compute; reflexivity).
  split; [exact Hpre|]. split; [vm_compute; discriminate|].
  split; [vm_compute; reflexivity|]. split; [vm_compute; reflexivity|].
  split; [exact W|].
  split; [exists exc_vol; split; [apply geo_eq_refl|split; [exact Hpre|exact W]]|].
  split; vm_compute; reflexivity.
Qed.

(* a FAT that is NOT well-formed is rejected: with the head 10 forgotten its two clusters are
   in use but unreachable (leaked); with the heads 3 and 4 two chains share clusters *)
Example wf_counterexamples :
  ~ fat_wf (s_disk wfx_state) exc_vol [3] /\ ~ fat_wf (s_disk wfx_state) exc_vol [3; 4; 10].
Proof.
  split; intros W; apply fat_wf_b_spec in W; vm_compute in W; discriminate W.
Qed.

(* one step of each operation, run by the model, with the decider's verdict on the result:
   - FAlloc 10: cluster 9 (the hint) is appended, 10 -> 12 -> 9
   - FNew: cluster 9 becomes a new head
   - FTrunc 3: chain [3]; 4 and 7 are free again (97 free)
   - FFree 10: head 10 is gone; 10 and 12 are free again (97 free)
   - FFree 4 is not applicable (4 is no head) *)
Definition wf_show (r : option (st * list N)) :=
  match r with
  | Some (s1, hs1) =>
      Some (hs1, map (fun h => chain_of (s_disk s1) exc_vol h 200) hs1, fat_wf_b (s_disk s1) exc_vol hs1,
            free_entries (s_disk s1) exc_vol, used_list (s_disk s1) exc_vol)
  | None => None
  end.

Example wf_step_examples :
  wf_show (run_fop 0 (FAlloc 10 true) wfx_state [3; 10])
    = Some ([3; 10], [Some [3; 4; 7]; Some [10; 12; 9]], true, 94%nat, [3; 4; 7; 9; 10; 12]) /\
  wf_show (run_fop 0 (FNew false) wfx_state [3; 10])
    = Some ([9; 3; 10], [Some [9]; Some [3; 4; 7]; Some [10; 12]], true, 94%nat, [3; 4; 7; 9; 10; 12]) /\
  wf_show (run_fop 0 (FTrunc 3) wfx_state [3; 10])
    = Some ([3; 10], [Some [3]; Some [10; 12]], true, 97%nat, [3; 10; 12]) /\
  wf_show (run_fop 0 (FFree 10) wfx_state [3; 10])
    = Some ([3], [Some [3; 4; 7]], true, 97%nat, [3; 4; 7]) /\
  wf_show (run_fop 0 (FFree 4) wfx_state [3; 10]) = None.
Proof.
  split; [vm_compute; reflexivity|]. split; [vm_compute; reflexivity|].
  split; [vm_compute; reflexivity|]. split; vm_compute; reflexivity.
Qed.

(* a history of six operations; and filling the volume: of 97 FNew in a row 95 succeed (one new
   head each), the last two fail with NotEnoughSpace and change nothing: no entry is free, all
   100 data clusters are on chains *)
Example wf_history_example :
  wf_show (run_fops 0 [FAlloc 10 true; FNew false; FTrunc 3; FAlloc 3 false; FFree 10; FNew true]
                    wfx_state [3; 10])
    = Some ([5; 11; 3], [Some [5]; Some [11]; Some [3; 4]], true, 96%nat, [3; 4; 5; 11]) /\
  match run_fops 0 (repeat (FNew false) 97) wfx_state [3; 10] with
  | Some (s1, hs1) =>
      length hs1 = 97%nat /\ fat_wf_b (s_disk s1) exc_vol hs1 = true /\
      free_entries (s_disk s1) exc_vol = 0%nat /\ length (all_chains (s_disk s1) exc_vol hs1) = 100%nat /\
      fst (alloc_cluster 0 None false s1) = Err NotEnoughSpace
  | None => False
  end.
Proof.
  split; [vm_compute; reflexivity|].
  vm_compute. split; [reflexivity|]. split; [reflexivity|]. split; [reflexivity|]. split; reflexivity.
Qed.

(* the theorems apply to the example: the general statements instantiated *)
Example wf_theorems_apply :
  forall ops s' hs', run_fops 0 ops wfx_state [3; 10] = Some (s', hs') ->
    fat_inv 0 2 exc_vol s' hs' /\
    Permutation (used_list (s_disk s') exc_vol) (all_chains (s_disk s') exc_vol hs') /\
    (free_entries (s_disk s') exc_vol + length (all_chains (s_disk s') exc_vol hs'))%nat = 100%nat.
Proof.
  intros ops s' hs' Hrun.
  destruct wf_example as (_ & Hl & _ & _ & _ & Hinv & _).
  split; [exact (C03_fat_history 0 2 exc_vol Hl ops _ _ _ _ Hinv Hrun)|].
  split; [exact (proj2 (proj2 (C05_used_eq_reachable 0 2 exc_vol ops _ _ _ _ Hl Hinv Hrun)))|].
  exact (C05_free_count 0 2 exc_vol ops _ _ _ _ Hl Hinv Hrun).
Qed.

(* ================================================================== 9. assumptions *)
Print Assumptions fat_wf_flat.
Print Assumptions wf_links_injective.
Print Assumptions wf_head_no_pred.
Print Assumptions wf_eoc_last.
Print Assumptions wf_used_perm.
Print Assumptions wf_free_count.
Print Assumptions C03_alloc_extends_wf.
Print Assumptions C03_alloc_new_head_wf.
Print Assumptions C03_alloc_fail_wf.
Print Assumptions C03_alloc_outcomes.
Print Assumptions C03_truncate_wf.
Print Assumptions C03_free_chain_wf.
Print Assumptions C03_fat_step.
Print Assumptions C03_fat_history.
Print Assumptions C03_fat_step_applicable.
Print Assumptions C05_used_eq_reachable.
Print Assumptions C05_free_count.
Print Assumptions fat_wf_b_spec.
Print Assumptions wf_example.
Print Assumptions wf_counterexamples.
Print Assumptions wf_step_examples.
Print Assumptions wf_history_example.
Print Assumptions wf_theorems_apply.
